import Pm.FrameEx
import Pm.ClientStream
import Pm.ReplyProof
import Pm.EnqProof
/-! Helper lemmas for C11 (clients are isolated from one another).

    1. routing, client half: `applyOuts` delivers a callback to the client whose id it carries and to nobody else, and what
       that client gets is a function of the callbacks carrying its id, its own record and its own arglist;
    2. the id discipline (`IdsFresh`);
    3. one command per client;
    4. the scope of a result (arglists);
    5. departure;
    6. the frame of one client's share of `cli_post_poll`. -/
namespace Pm.Daemon.Isolation
open Pm Pm.Client Pm.Daemon
open Pm.Dev2 (Dev Action ActErr Oracle outCid cell)
abbrev DOut := Pm.Dev2.Out

/-! ## 1. routing, client half -/

/-- the callback is addressed to client `g` -/
def mine (g : Nat) (o : DOut) : Bool := outCid o == some g

theorem mine_iff (g : Nat) (o : DOut) : mine g o = true ↔ outCid o = some g := by simp [mine]

/-- what `applyOuts` reads on behalf of client `g`: its record and, when it has a command, the arglist of that command -/
def OwnView (g : Nat) (w w' : W) : Prop :=
  cliRec w g = cliRec w' g ∧ ∀ c k, cliRec w g = some c → c.cmd = some k → storeArgs w k.al = storeArgs w' k.al

theorem OwnView.refl (g : Nat) (w : W) : OwnView g w w := ⟨rfl, fun _ _ _ _ => rfl⟩

theorem OwnView.symm {g : Nat} {w w' : W} (h : OwnView g w w') : OwnView g w' w :=
  ⟨h.1.symm, fun c k hc hk => (h.2 c k (h.1 ▸ hc) hk).symm⟩

theorem OwnView.trans {g : Nat} {a b c : W} (h1 : OwnView g a b) (h2 : OwnView g b c) : OwnView g a c :=
  ⟨h1.1.trans h2.1, fun x k hx hk => (h1.2 x k hx hk).trans (h2.2 x k (h1.1 ▸ hx) hk)⟩

/-- a world that differs only in the records of other clients and in other arglists looks the same to `g` -/
theorem OwnView.of_other {g : Nat} {w w' : W} (hc : cliRec w' g = cliRec w g) (hs : w'.store = w.store) : OwnView g w' w :=
  ⟨hc, fun _ _ _ _ => by simp [storeArgs, hs]⟩

/-- one callback addressed to somebody else: invisible to `g` -/
theorem applyOut_skip (name : Bytes) (acc : W × List String) (o : DOut) (g : Nat) (h : outCid o ≠ some g) :
    OwnView g (applyOut name acc o).1 acc.1 :=
  OwnView.of_other (applyOut_other name acc o g h) (applyOut_store name acc o)

theorem updCli_own (w w' : W) (g : Nat) (f : Cli → Cli) (hf : ∀ c, (f c).id = c.id) (hc : cliRec w g = cliRec w' g)
    (hcmd : ∀ c k', cliRec w g = some c → (f c).cmd = some k' → storeArgs w k'.al = storeArgs w' k'.al) :
    OwnView g (updCli w g f) (updCli w' g f) := by
  refine ⟨updCli_rel _ _ _ _ _ hf hc, ?_⟩
  intro c' k' hc' hk'
  rw [updCli_self _ _ _ hf] at hc'
  cases hq : cliRec w g with
  | none => rw [hq] at hc'; cases hc'
  | some c =>
    rw [hq] at hc'
    simp only [Option.map_some, Option.some.injEq] at hc'
    subst hc'
    exact hcmd c k' hq hk'

/-- `_act_finish` for client `g` itself reads `g`'s record and `g`'s arglist only -/
theorem actFinish_own (w w' : W) (g : Nat) (e : ActErr) (name : Bytes) (h : OwnView g w w') :
    OwnView g (actFinish w g e name).1 (actFinish w' g e name).1 := by
  obtain ⟨hc, hs⟩ := h
  have e1 : w.clients.find? (·.id == g) = cliRec w g := rfl
  have e2 : w'.clients.find? (·.id == g) = cliRec w' g := rfl
  unfold actFinish
  rw [e1, e2, ← hc]
  cases hq : cliRec w g with
  | none => exact ⟨hc, fun c k hcc => by rw [hq] at hcc; cases hcc⟩
  | some c =>
    have hid : c.id = g := by
      have : w.clients.find? (·.id == g) = some c := hq
      simpa using List.find?_some this
    dsimp only
    cases hk : c.cmd with
    | none => exact ⟨hc, fun c' k hcc hk' => hs c' k hcc hk'⟩
    | some k =>
      dsimp only
      have hst : storeArgs w k.al = storeArgs w' k.al := hs c k hq hk
      rw [← hst]
      split
      · split
        · rw [hid]
          refine updCli_own _ _ _ _ (fun _ => rfl) hc ?_
          intro c0 k' _ hk'
          simp [put] at hk'
        · exact ⟨hc, fun c' k' hcc hk' => hs c' k' hcc hk'⟩
      · rw [hid]
        refine updCli_own _ _ _ _ (fun _ => rfl) hc ?_
        intro c0 k' hc0 hk'
        rw [hq] at hc0
        cases hc0
        simp only [put, Option.some.injEq] at hk'
        subst hk'
        exact hst

/-- one callback, two worlds that look the same to `g`: they still do afterwards -/
theorem applyOut_same (name : Bytes) (acc acc' : W × List String) (o : DOut) (g : Nat) (h : OwnView g acc.1 acc'.1) :
    OwnView g (applyOut name acc o).1 (applyOut name acc' o).1 := by
  by_cases hm : outCid o = some g
  · obtain ⟨w, msgs⟩ := acc
    obtain ⟨w', msgs'⟩ := acc'
    cases o with
    | finish cid e =>
      have : cid = g := by simpa [outCid] using hm
      subst this
      exact actFinish_own w w' cid e name h
    | telemetry cid t =>
      have : cid = g := by simpa [outCid] using hm
      subst this
      exact updCli_own _ _ _ _ (fun _ => rfl) h.1 (fun c k' hc hk' => h.2 c k' hc hk')
    | diag cid t =>
      have : cid = g := by simpa [outCid] using hm
      subst this
      exact updCli_own _ _ _ _ (fun _ => rfl) h.1 (fun c k' hc hk' => h.2 c k' hc hk')
    | sent _ => exact h
    | rxMismatch _ _ => exact h
    | abortAssert _ => exact h
  · exact ((applyOut_skip name acc o g hm).trans h).trans (applyOut_skip name acc' o g hm).symm

/-- a run of callbacks against the run of only those addressed to `g` -/
theorem foldl_applyOut_filter (name : Bytes) (g : Nat) (outs : List DOut) (acc acc' : W × List String)
    (h : OwnView g acc.1 acc'.1) :
    OwnView g (outs.foldl (applyOut name) acc).1 ((outs.filter (mine g)).foldl (applyOut name) acc').1 := by
  induction outs generalizing acc acc' with
  | nil => exact h
  | cons o r ih =>
    rw [List.foldl_cons, List.filter_cons]
    by_cases hm : outCid o = some g
    · rw [if_pos ((mine_iff g o).mpr hm), List.foldl_cons]
      exact ih _ _ (applyOut_same name acc acc' o g h)
    · rw [if_neg (fun hh => hm ((mine_iff g o).mp hh))]
      exact ih _ _ ((applyOut_skip name acc o g hm).trans h)

/-- **client half of the routing invariant.**  Two runs of `applyOuts` for the same device: the worlds look the same to
    client `g` (same record of `g`, same arglist of `g`'s command) and the two callback lists contain the same callbacks
    addressed to `g`, in the same order — whatever else they contain, and whatever the other clients' records and
    arglists are.  Then `g`'s record is the same afterwards, and the worlds still look the same to `g`. -/
theorem applyOuts_own (w w' : W) (name : Bytes) (outs outs' : List DOut) (g : Nat) (hv : OwnView g w w')
    (hf : outs.filter (mine g) = outs'.filter (mine g)) :
    OwnView g (applyOuts w name outs).1 (applyOuts w' name outs').1 := by
  rw [Pm.Daemon.applyOuts_eq, Pm.Daemon.applyOuts_eq]
  have h1 := foldl_applyOut_filter name g outs (w, []) (w', []) hv
  have h2 := foldl_applyOut_filter name g outs' (w', []) (w', []) (OwnView.refl g w')
  rw [hf] at h1
  exact h1.trans h2.symm

/-- no callback carries `g`'s id: `g`'s record is not touched (and nothing but client records ever is) -/
theorem applyOuts_untouched (w : W) (name : Bytes) (outs : List DOut) (g : Nat) (h : ∀ x ∈ outs, outCid x ≠ some g) :
    cliRec (applyOuts w name outs).1 g = cliRec w g ∧ sansClients (applyOuts w name outs).1 = sansClients w :=
  ⟨applyOuts_other w name outs g h, applyOuts_sans w name outs⟩

/-! ### the same, position by position in the client table (so that it does not depend on ids being distinct) -/

theorem updCli_get (w : W) (id : Nat) (f : Cli → Cli) (i : Nat) :
    (updCli w id f).clients[i]? = (w.clients[i]?).map fun c => if c.id == id then f c else c := by
  simp [updCli]

theorem updCli_absent (w : W) (id : Nat) (f : Cli → Cli) (h : cliRec w id = none) : updCli w id f = w := by
  have hn : ∀ c ∈ w.clients, ¬ c.id = id := by
    intro c hc
    have := List.find?_eq_none.mp h c hc
    simpa using this
  unfold updCli
  have : (w.clients.map fun c => if c.id == id then f c else c) = w.clients := by
    conv => rhs; rw [← List.map_id w.clients]
    apply List.map_congr_left
    intro c hc
    simp [hn c hc]
  rw [this]

/-- `_act_finish` rewrites at most the records whose id it was called with, and keeps their id -/
theorem actFinish_upd (w : W) (id : Nat) (e : ActErr) (name : Bytes) :
    ∃ f : Cli → Cli, (∀ c, (f c).id = c.id) ∧ (actFinish w id e name).1 = updCli w id f := by
  have hidf : updCli w id (fun c => c) = w := by
    unfold updCli
    have : (w.clients.map fun c => if c.id == id then c else c) = w.clients := by
      conv => rhs; rw [← List.map_id w.clients]
      apply List.map_congr_left
      intro c _
      split <;> rfl
    rw [this]
  unfold actFinish
  split
  · exact ⟨fun c => c, fun _ => rfl, hidf.symm⟩
  · rename_i c hc
    have hid : c.id = id := by simpa using List.find?_some hc
    split
    · exact ⟨fun c => c, fun _ => rfl, hidf.symm⟩
    · dsimp only
      split
      · split
        · rw [hid]; refine ⟨_, ?_, rfl⟩; intro _; rfl
        · exact ⟨fun c => c, fun _ => rfl, hidf.symm⟩
      · rw [hid]; refine ⟨_, ?_, rfl⟩; intro _; rfl

theorem applyOut_upd (name : Bytes) (acc : W × List String) (o : DOut) :
    (applyOut name acc o).1 = acc.1 ∨
    ∃ id f, outCid o = some id ∧ (∀ c, (f c).id = c.id) ∧ (applyOut name acc o).1 = updCli acc.1 id f := by
  obtain ⟨w, msgs⟩ := acc
  cases o with
  | finish cid e =>
    obtain ⟨f, hf, h⟩ := actFinish_upd w cid e name
    exact Or.inr ⟨cid, f, rfl, hf, h⟩
  | telemetry cid t => refine Or.inr ⟨cid, _, rfl, ?_, rfl⟩; intro _; rfl
  | diag cid t => refine Or.inr ⟨cid, _, rfl, ?_, rfl⟩; intro _; rfl
  | sent _ => exact Or.inl rfl
  | rxMismatch _ _ => exact Or.inl rfl
  | abortAssert _ => exact Or.inl rfl

/-- the client table after a run of callbacks: same length, same ids position by position, and a record whose id no
    callback carries is exactly what it was -/
theorem foldl_applyOut_table (name : Bytes) (outs : List DOut) (acc : W × List String) (i : Nat) (c : Cli)
    (h : acc.1.clients[i]? = some c) :
    ∃ c', (outs.foldl (applyOut name) acc).1.clients[i]? = some c' ∧ c'.id = c.id ∧
      ((∀ x ∈ outs, outCid x ≠ some c.id) → c' = c) := by
  induction outs generalizing acc c with
  | nil => exact ⟨c, h, rfl, fun _ => rfl⟩
  | cons o r ih =>
    rw [List.foldl_cons]
    rcases applyOut_upd name acc o with e | ⟨id, f, ho, hf, e⟩
    · obtain ⟨c', h1, h2, h3⟩ := ih (applyOut name acc o) c (by rw [e]; exact h)
      exact ⟨c', h1, h2, fun hx => h3 (fun x hx' => hx x (by simp [hx']))⟩
    · have hget : (applyOut name acc o).1.clients[i]? = some (if c.id == id then f c else c) := by
        rw [e, updCli_get, h]; rfl
      obtain ⟨c', h1, h2, h3⟩ := ih (applyOut name acc o) _ hget
      have hid : (if c.id == id then f c else c).id = c.id := by split <;> simp [hf]
      refine ⟨c', h1, h2.trans hid, ?_⟩
      intro hx
      have hne : ¬ c.id = id := by
        intro hh
        exact hx o (by simp) (by rw [ho, hh])
      have hcc : (if c.id == id then f c else c) = c := by simp [hne]
      rw [hcc] at h3
      exact h3 (fun x hx' => hx x (by simp [hx']))

theorem applyOuts_table (w : W) (name : Bytes) (outs : List DOut) (i : Nat) (c : Cli) (h : w.clients[i]? = some c) :
    ∃ c', (applyOuts w name outs).1.clients[i]? = some c' ∧ c'.id = c.id ∧
      ((∀ x ∈ outs, outCid x ≠ some c.id) → c' = c) := by
  rw [Pm.Daemon.applyOuts_eq]
  exact foldl_applyOut_table name outs (w, []) i c h

theorem applyOuts_length (w : W) (name : Bytes) (outs : List DOut) :
    (applyOuts w name outs).1.clients.length = w.clients.length := by
  rw [Pm.Daemon.applyOuts_eq]
  have : ∀ (acc : W × List String), (outs.foldl (applyOut name) acc).1.clients.length = acc.1.clients.length := by
    induction outs with
    | nil => intro acc; rfl
    | cons o r ih =>
      intro acc
      rw [List.foldl_cons, ih]
      rcases applyOut_upd name acc o with e | ⟨id, f, _, _, e⟩
      · rw [e]
      · rw [e]; simp [updCli]
  exact this _

/-- callbacks for clients that are gone are dropped without touching anything -/
theorem applyOuts_absent (w : W) (name : Bytes) (outs : List DOut)
    (h : ∀ x ∈ outs, ∀ id, outCid x = some id → cliRec w id = none) : (applyOuts w name outs).1 = w := by
  rw [Pm.Daemon.applyOuts_eq]
  have : ∀ (acc : W × List String), acc.1 = w → (outs.foldl (applyOut name) acc).1 = w := by
    induction outs with
    | nil => intro acc ha; exact ha
    | cons o r ih =>
      intro acc ha
      rw [List.foldl_cons]
      apply ih (fun x hx => h x (by simp [hx]))
      rcases applyOut_upd name acc o with e | ⟨id, f, ho, _, e⟩
      · rw [e, ha]
      · rw [e, ha]; exact updCli_absent w id f (h o (by simp) id ho)
  exact this _ rfl

/-! ### routing through one device's share of the pass -/

theorem applyOuts_store (w : W) (name : Bytes) (outs : List DOut) : (applyOuts w name outs).1.store = w.store := by
  have := congrArg W.store (applyOuts_sans w name outs)
  simpa [sansClients] using this

/-- device half (all three callbacks): whatever `dev_post_poll` reports for device `nd` carries the client id of an action
    that was in `nd`'s queue when the pass began, or `0` (the internal login/ping actions, which belong to no client) -/
theorem devStep_addr (p : PassIn) (w : W) (o : Oracle) (nd : Bytes × Dev) :
    ∀ x ∈ (devStep p w o nd).2.2.1, ∀ cid, outCid x = some cid → cid = 0 ∨ ∃ a ∈ nd.2.acts, a.clientId = cid :=
  (devStep_frame (fun _ => false) (fun cid => cid = 0 ∨ ∃ a ∈ nd.2.acts, a.clientId = cid) (fun _ => True) p w o nd
    (fun _ _ _ _ => rfl) ⟨Or.inl rfl, trivial⟩ (fun a ha => ⟨Or.inr ⟨a, ha, rfl⟩, trivial⟩)).addr

theorem devPass_w (p : PassIn) (a : DevAcc) (nd : Bytes × Dev) (hd : a.dead = false) :
    (devPass p a nd).w =
      (applyOuts (afterStep a.w (devStep p a.w a.oracle nd).1) nd.1 (devStep p a.w a.oracle nd).2.2.1).1 := by
  rw [devPass_eq]; unfold devPass'; simp only [hd, Bool.false_eq_true, ↓reduceIte]

/-- both halves: after `devPass`, client `g`'s record is what `applyOuts` makes of the callbacks carrying `g`'s id alone -/
theorem devPass_routing (p : PassIn) (a : DevAcc) (nd : Bytes × Dev) (g : Nat) (hd : a.dead = false) :
    cliRec (devPass p a nd).w g =
      cliRec (applyOuts (afterStep a.w (devStep p a.w a.oracle nd).1) nd.1
        ((devStep p a.w a.oracle nd).2.2.1.filter (mine g))).1 g := by
  rw [devPass_w p a nd hd]
  exact (applyOuts_own _ _ nd.1 _ _ g (OwnView.refl g _) (by rw [List.filter_filter]; simp)).1

/-- two runs of one device's share of the pass from accumulators that differ in the *other* clients (their number, their
    records, their commands): client `g` ends with the same record -/
theorem devPass_own (p : PassIn) (a a' : DevAcc) (nd : Bytes × Dev) (g : Nat) (hd : a.dead = false) (hd' : a'.dead = false)
    (hc : cliRec a.w g = cliRec a'.w g) (hs : a.w.store = a'.w.store)
    (h1 : a.w.nsock = a'.w.nsock) (h2 : a.w.npair = a'.w.npair) (h3 : a.w.nfork = a'.w.nfork) (ho : a.oracle = a'.oracle) :
    cliRec (devPass p a nd).w g = cliRec (devPass p a' nd).w g ∧ (devPass p a nd).w.store = (devPass p a' nd).w.store := by
  rw [devPass_w p a nd hd, devPass_w p a' nd hd']
  have hstep : devStep p a.w a.oracle nd = devStep p a'.w a'.oracle nd := by
    rw [ho]; exact devStep_reads p p a.w a'.w a'.oracle nd hs h1 h2 h3 rfl rfl rfl (fun _ _ => rfl)
  rw [hstep]
  constructor
  · have hv : OwnView g (afterStep a.w (devStep p a'.w a'.oracle nd).1) (afterStep a'.w (devStep p a'.w a'.oracle nd).1) :=
      ⟨hc, fun _ _ _ _ => rfl⟩
    exact (applyOuts_own _ _ nd.1 _ _ g hv rfl).1
  · rw [applyOuts_store, applyOuts_store]; rfl

/-! ## the frame of one client's share of `cli_post_poll` (used by 2–6) -/

/-- the fields of the world that one client's share of `cli_post_poll` never writes (in particular the client table: the
    record being served is held outside the table and written back by the loop of `cli_post_poll`) -/
def kept (w : W) : List Cli × List (Bytes × Bytes) × Nat × Nat × Nat × Nat × Nat × Option Nat × List Pm.Dev2.RxCall :=
  (w.clients, w.specs, w.nextId, w.nacc, w.nsock, w.npair, w.nfork, w.tmo, w.pendingX)

/-- the descriptor a logged system call is about -/
def sysFd : Sys → Option Nat
  | .accept _ => none
  | .close fd => some fd
  | .read fd _ => some fd
  | .write fd _ _ _ => some fd

def isWrite : Sys → Bool
  | .write _ _ _ _ => true
  | _ => false

/-- what one client's request processing may do to the queues and the arglist store: nothing (and the client's command is
    what it was), or — only when the client had no command — one `install`: every device gets its share of actions stamped
    with this client's id and the fresh arglist id `w.alNext`, the arglist is opened under that id, the counter is
    incremented, and the client now has the command that refers to it -/
def Enq (cid : Nat) (w w' : W) (cmd cmd' : Option CmdC) : Prop :=
  (w'.devs = w.devs ∧ w'.store = w.store ∧ w'.alNext = w.alNext ∧ cmd' = cmd) ∨
  (cmd = none ∧ ∃ (k : CmdC) (args : List Pm.Dev2.Arg) (com : Nat) (bn : List Bytes) (tele : Bool),
      cmd' = some k ∧ k.al = w.alNext ∧ w'.alNext = w.alNext + 1 ∧ w'.store = (w.alNext, args) :: w.store ∧
      w'.devs = w.devs.map (Enq.installDev com bn cid tele w.alNext))

theorem Enq.same {cid : Nat} {w w' : W} {cmd cmd' : Option CmdC} (h1 : w'.devs = w.devs) (h2 : w'.store = w.store)
    (h3 : w'.alNext = w.alNext) (h4 : cmd' = cmd) : Enq cid w w' cmd cmd' := Or.inl ⟨h1, h2, h3, h4⟩

theorem Enq.trans {cid : Nat} {w w' w'' : W} {cmd cmd' cmd'' : Option CmdC} (h1 : Enq cid w w' cmd cmd')
    (h2 : Enq cid w' w'' cmd' cmd'') : Enq cid w w'' cmd cmd'' := by
  rcases h1 with ⟨a1, a2, a3, a4⟩ | ⟨hc, k, args, com, bn, tele, b1, b2, b3, b4, b5⟩
  · rcases h2 with ⟨c1, c2, c3, c4⟩ | ⟨hc', k, args, com, bn, tele, d1, d2, d3, d4, d5⟩
    · exact Or.inl ⟨c1.trans a1, c2.trans a2, c3.trans a3, c4.trans a4⟩
    · refine Or.inr ⟨a4 ▸ hc', k, args, com, bn, tele, d1, ?_, ?_, ?_, ?_⟩
      · rw [d2, a3]
      · rw [d3, a3]
      · rw [d4, a3, a2]
      · rw [d5, a3, a1]
  · rcases h2 with ⟨c1, c2, c3, c4⟩ | ⟨hc', _⟩
    · exact Or.inr ⟨hc, k, args, com, bn, tele, c4.trans b1, b2, c3.trans b3, c2.trans b4, c1.trans b5⟩
    · rw [b1] at hc'; cases hc'

/-- one stage of a client's share of the pass, from world `w` and record `c` to `r`, logging the system calls `ext` -/
structure CliIso (w : W) (c : Cli) (r : W × Cli) (ext : List Sys) : Prop where
  kept : kept r.1 = kept w
  id : r.2.id = c.id
  fd : r.2.fd = c.fd
  quit : c.quit = true → r.2.quit = true
  enq : Enq c.id w r.1 c.cmd r.2.cmd
  sys : r.1.sys = w.sys ++ ext
  sysfd : ∀ s ∈ ext, sysFd s = some c.fd
  caps : ∀ fd, fd ≠ c.fd → capOf r.1 fd = capOf w fd
  buf : (∃ b, r.2.toBuf = c.toBuf ++ b) ∨ ∃ s ∈ ext, isWrite s = true

theorem CliIso.refl (w : W) (c : Cli) : CliIso w c (w, c) [] :=
  ⟨rfl, rfl, rfl, fun h => h, Enq.same rfl rfl rfl rfl, by simp, by simp, fun _ _ => rfl, Or.inl ⟨[], by simp⟩⟩

theorem CliIso.trans {w : W} {c : Cli} {r r' : W × Cli} {e e' : List Sys} (h1 : CliIso w c r e) (h2 : CliIso r.1 r.2 r' e') :
    CliIso w c r' (e ++ e') where
  kept := h2.kept.trans h1.kept
  id := h2.id.trans h1.id
  fd := h2.fd.trans h1.fd
  quit := fun h => h2.quit (h1.quit h)
  enq := h1.enq.trans (h1.id ▸ h2.enq)
  sys := by rw [h2.sys, h1.sys, List.append_assoc]
  sysfd := by
    intro s hs
    rcases List.mem_append.mp hs with hs | hs
    · exact h1.sysfd s hs
    · rw [h2.sysfd s hs, h1.fd]
  caps := fun fd hfd => (h2.caps fd (by rw [h1.fd]; exact hfd)).trans (h1.caps fd hfd)
  buf := by
    rcases h1.buf with ⟨b, hb⟩ | ⟨s, hs, hw⟩
    · rcases h2.buf with ⟨b', hb'⟩ | ⟨s, hs, hw⟩
      · exact Or.inl ⟨b ++ b', by rw [hb', hb, List.append_assoc]⟩
      · exact Or.inr ⟨s, List.mem_append_right _ hs, hw⟩
    · exact Or.inr ⟨s, List.mem_append_left _ hs, hw⟩

/-- a stage that only touches the record: flags, appended output, consumed input -/
theorem CliIso.record (w : W) (c c' : Cli) (hid : c'.id = c.id) (hfd : c'.fd = c.fd) (hq : c.quit = true → c'.quit = true)
    (hcmd : c'.cmd = c.cmd) (hb : ∃ b, c'.toBuf = c.toBuf ++ b) : CliIso w c (w, c') [] :=
  ⟨rfl, hid, hfd, hq, Enq.same rfl rfl rfl hcmd, by simp, by simp, fun _ _ => rfl, Or.inl hb⟩

/-- "if this stage wrote to the descriptor, the client has quit": true of every stage except `_handle_write` called for
    POLLOUT — the only other caller of `_handle_write` is the `quit` command -/
def WQ (r : W × Cli) (ext : List Sys) : Prop := (∃ s ∈ ext, isWrite s = true) → r.2.quit = true

theorem WQ.nil (r : W × Cli) : WQ r [] := by intro ⟨s, hs, _⟩; cases hs

theorem WQ.trans {r r' : W × Cli} {e e' : List Sys} (h1 : WQ r e) (h2 : CliIso r.1 r.2 r' e') (h3 : WQ r' e') :
    WQ r' (e ++ e') := by
  intro ⟨s, hs, hw⟩
  rcases List.mem_append.mp hs with hs | hs
  · exact h2.quit (h1 ⟨s, hs, hw⟩)
  · exact h3 ⟨s, hs, hw⟩

theorem capOf_setCap_ne (w : W) (fd fd' : Nat) (v : Int) (h : fd' ≠ fd) : capOf (setCap w fd v) fd' = capOf w fd' := by
  unfold capOf setCap
  dsimp only
  have hb : (fd' == fd) = false := by simpa using h
  rw [List.lookup_cons, hb]
  congr 1
  induction w.caps with
  | nil => rfl
  | cons x r ih =>
    obtain ⟨k, v⟩ := x
    by_cases hk : k = fd
    · subst hk
      have : (fd' == k) = false := by simpa using h
      simp [List.lookup_cons, this, ih]
    · by_cases hak : fd' = k
      · subst hak; simp [hk]
      · have : (fd' == k) = false := by simpa using hak
        simp [hk, List.lookup_cons, this, ih]

/-- a stage that logs one system call on the client's own descriptor and touches the record -/
theorem CliIso.sysOnly (w : W) (c c' : Cli) (s : Sys) (hs : sysFd s = some c.fd) (hid : c'.id = c.id) (hfd : c'.fd = c.fd)
    (hq : c.quit = true → c'.quit = true) (hcmd : c'.cmd = c.cmd)
    (hb : (∃ b, c'.toBuf = c.toBuf ++ b) ∨ isWrite s = true) : CliIso w c ({ w with sys := w.sys ++ [s] }, c') [s] :=
  ⟨rfl, hid, hfd, hq, Enq.same rfl rfl rfl hcmd, rfl, by simpa using hs, fun _ _ => rfl,
    hb.elim Or.inl (fun h => Or.inr ⟨s, by simp, h⟩)⟩

theorem hwCore_iso (w : W) (c : Cli) : ∃ ext, CliIso w c (ClientPf.hwCore w c) ext := by
  unfold ClientPf.hwCore
  split
  · exact ⟨[], CliIso.refl w c⟩
  · dsimp only
    split
    · exact ⟨_, CliIso.sysOnly w c _ _ rfl rfl rfl (fun _ => rfl) rfl (Or.inr rfl)⟩
    · split
      · have h := CliIso.sysOnly w c { c with toBuf := [] }
          (Sys.write c.fd c.toBuf false (decide (capOf w c.fd < (c.toBuf.length : Int)))) rfl rfl rfl (fun h => h) rfl (Or.inr rfl)
        refine ⟨_, h.kept, h.id, h.fd, h.quit, h.enq, h.sys, h.sysfd, ?_, h.buf⟩
        intro fd hfd
        exact capOf_setCap_ne _ _ _ _ hfd
      · split
        · exact ⟨_, CliIso.sysOnly w c _ _ rfl rfl rfl (fun _ => rfl) rfl (Or.inr rfl)⟩
        · have h := CliIso.sysOnly w c { c with toBuf := c.toBuf.drop (min (capOf w c.fd).toNat c.toBuf.length) }
            (Sys.write c.fd (c.toBuf.take (min (capOf w c.fd).toNat c.toBuf.length)) false false) rfl rfl rfl (fun h => h) rfl (Or.inr rfl)
          refine ⟨_, h.kept, h.id, h.fd, h.quit, h.enq, h.sys, h.sysfd, ?_, h.buf⟩
          intro fd hfd
          exact capOf_setCap_ne _ _ _ _ hfd

theorem handleWrite_iso (w : W) (c : Cli) : ∃ ext, CliIso w c (handleWrite w c) ext := by
  rw [ClientPf.handleWrite_eq]
  obtain ⟨ext, h⟩ := hwCore_iso w (if c.quit then { c with blocking := true } else c)
  have h0 : CliIso w c (w, if c.quit then { c with blocking := true } else c) [] := by
    apply CliIso.record
    · split <;> rfl
    · split <;> rfl
    · intro hq; rw [if_pos hq]; exact hq
    · split <;> rfl
    · exact ⟨[], by split <;> simp⟩
  exact ⟨[] ++ ext, h0.trans h⟩

theorem cpRead_iso (w : W) (c : Cli) (e : Option FdEnv) :
    ∃ ext, CliIso w c (ClientPf.cpRead w c e) ext ∧ ∀ s ∈ ext, isWrite s = false := by
  unfold ClientPf.cpRead
  split
  · split
    · exact ⟨_, CliIso.sysOnly w c _ _ rfl rfl rfl (fun _ => rfl) rfl (Or.inl ⟨[], by simp⟩), by simp [isWrite]⟩
    · split
      · exact ⟨_, CliIso.sysOnly w c _ _ rfl rfl rfl (fun _ => rfl) rfl (Or.inl ⟨[], by simp⟩), by simp [isWrite]⟩
      · split
        · exact ⟨_, CliIso.sysOnly w c _ _ rfl rfl rfl (fun _ => rfl) rfl (Or.inl ⟨[], by simp⟩), by simp [isWrite]⟩
        · exact ⟨_, CliIso.sysOnly w c _ _ rfl rfl rfl (fun h => h) rfl (Or.inl ⟨[], by simp⟩), by simp [isWrite]⟩
  · exact ⟨[], CliIso.refl w c, by simp⟩

/-- the capacity half of `_handle_read` changes the input buffer and its size only -/
theorem clipC_iso (w : W) (c : Cli) (e : Option FdEnv) : CliIso w c (w, clipC c e) [] :=
  CliIso.record w c _ (by simp) (by simp) (fun h => by simpa using h) (by simp) ⟨[], by simp⟩

/-! ### `_parse_input`, branch by branch -/

theorem plFin_iso (w : W) (c : Cli) (b : Bytes) : CliIso w c (ClientPf.plFin w c b) [] :=
  CliIso.record w c _ rfl rfl (fun h => h) rfl ⟨_, rfl⟩

theorem plNodes_iso (w : W) (c : Cli) : CliIso w c (ClientPf.plNodes w c) [] := by
  unfold ClientPf.plNodes
  split
  all_goals first
    | exact ⟨rfl, rfl, rfl, fun h => h, Enq.same rfl rfl rfl rfl, by simp, by simp, fun _ _ => rfl, Or.inl ⟨_, rfl⟩⟩
    | exact ⟨rfl, rfl, rfl, fun h => h, Enq.same rfl rfl rfl rfl, by simp, by simp, fun _ _ => rfl, Or.inl ⟨[], by simp⟩⟩

theorem plTelemetry_iso (w : W) (c : Cli) : CliIso w c (ClientPf.plTelemetry w c) [] :=
  CliIso.record w c _ rfl rfl (fun h => h) rfl ⟨_, rfl⟩

theorem plExprange_iso (w : W) (c : Cli) : CliIso w c (ClientPf.plExprange w c) [] :=
  CliIso.record w c _ rfl rfl (fun h => h) rfl ⟨_, rfl⟩

theorem plQuit_iso (w : W) (c : Cli) : ∃ ext, CliIso w c (ClientPf.plQuit w c) ext ∧ WQ (ClientPf.plQuit w c) ext := by
  unfold ClientPf.plQuit
  obtain ⟨ext, h⟩ := handleWrite_iso w (put { c with quit := true } (codeLine 101 ++ crlf))
  have h0 : CliIso w c (w, put { c with quit := true } (codeLine 101 ++ crlf)) [] :=
    CliIso.record w c _ rfl rfl (fun _ => rfl) rfl ⟨_, rfl⟩
  exact ⟨[] ++ ext, h0.trans h, fun _ => h.quit rfl⟩

/-- `install` on an idle client -/
theorem install_iso (w : W) (c : Cli) (com : Com) (names : List Name) (hidle : c.cmd = none) :
    CliIso w c (install w c com names) [] := by
  rcases Enq.install_cases w c com names with h | ⟨_, hd, _, hc⟩
  · rw [h]; exact CliIso.record w c _ rfl rfl (fun h => h) rfl ⟨_, rfl⟩
  · obtain ⟨hk1, hk2⟩ : kept (install w c com names).1 = kept w ∧
        (((install w c com names).1.alNext = w.alNext + 1 ∧
         (install w c com names).1.store = (w.alNext, Reply.freshArgs (names.map ofChars)) :: w.store ∧
         (install w c com names).1.sys = w.sys ∧ (install w c com names).1.caps = w.caps) ∨
        install w c com names = Reply.refused w c) := by
      rw [Reply.install_eq]
      split
      · exact ⟨rfl, Or.inr rfl⟩
      · dsimp only
        split
        · exact ⟨rfl, Or.inr rfl⟩
        · exact ⟨rfl, Or.inl ⟨rfl, rfl, rfl, rfl⟩⟩
    rcases hk2 with ⟨h1, h2, h3, h4⟩ | href
    · refine ⟨hk1, by rw [hc], by rw [hc], fun hq => by rw [hc]; exact hq, ?_, by simpa using h3, by simp, ?_, Or.inl ⟨[], by rw [hc]; simp⟩⟩
      · exact Or.inr ⟨hidle, _, _, _, _, _, by rw [hc], rfl, h1, h2, hd⟩
      · intro fd _; unfold capOf; rw [h4]
    · rw [href]; exact CliIso.record w c _ rfl rfl (fun h => h) rfl ⟨_, rfl⟩

theorem plDevice_iso (w : W) (c : Cli) (str : Bytes) : CliIso w c (ClientPf.plDevice w c str) [] := by
  unfold ClientPf.plDevice
  split
  · exact plFin_iso ..
  · split
    · exact ⟨rfl, rfl, rfl, fun h => h, Enq.same rfl rfl rfl rfl, by simp, by simp, fun _ _ => rfl, Or.inl ⟨[], by simp⟩⟩
    · exact plFin_iso ..

theorem plCmd_iso (w : W) (c : Cli) (com : Com) (arg : Bytes) (hidle : c.cmd = none) : CliIso w c (ClientPf.plCmd w c com arg) [] := by
  unfold ClientPf.plCmd
  split
  · exact ⟨rfl, rfl, rfl, fun h => h, Enq.same rfl rfl rfl rfl, by simp, by simp, fun _ _ => rfl, Or.inl ⟨[], by simp⟩⟩
  · exact plFin_iso ..
  · dsimp only
    split
    · exact plFin_iso ..
    · exact install_iso w c com _ hidle

theorem plRest_iso (w : W) (c : Cli) (str : Bytes) (hidle : c.cmd = none) : CliIso w c (ClientPf.plRest w c str) [] := by
  unfold ClientPf.plRest
  split
  · split
    · exact install_iso w c _ _ hidle
    · split
      · exact install_iso w c _ _ hidle
      · split
        · exact install_iso w c _ _ hidle
        · exact plDevice_iso ..
  · exact plCmd_iso w c _ _ hidle

theorem plIdle_iso (w : W) (c : Cli) (str : Bytes) (hidle : c.cmd = none) :
    ∃ ext, CliIso w c (ClientPf.plIdle w c str) ext ∧ WQ (ClientPf.plIdle w c str) ext := by
  unfold ClientPf.plIdle
  split
  · exact ⟨_, plFin_iso .., WQ.nil _⟩
  · split
    · exact ⟨_, plNodes_iso .., WQ.nil _⟩
    · split
      · exact ⟨_, plTelemetry_iso .., WQ.nil _⟩
      · split
        · exact ⟨_, plExprange_iso .., WQ.nil _⟩
        · split
          · exact plQuit_iso ..
          · exact ⟨_, plRest_iso w c str hidle, WQ.nil _⟩

/-- **one request line** -/
theorem parseLine_iso (w : W) (c : Cli) (line : Bytes) :
    ∃ ext, CliIso w c (parseLine w c line) ext ∧ WQ (parseLine w c line) ext := by
  rw [ClientPf.parseLine_eq]; unfold ClientPf.parseLine'
  split
  · exact ⟨_, plFin_iso .., WQ.nil _⟩
  split
  · exact ⟨[], CliIso.record w c _ rfl rfl (fun h => h) rfl ⟨_, rfl⟩, WQ.nil _⟩
  · rename_i h
    exact plIdle_iso w c _ (by simpa using h)

/-- taking a line out of the input buffer -/
theorem dropFrom_iso (w : W) (c : Cli) (n : Nat) : CliIso w c (w, { c with fromBuf := c.fromBuf.drop n }) [] :=
  CliIso.record w c _ rfl rfl (fun h => h) rfl ⟨[], by simp⟩

theorem runLines_iso : ∀ (ls : List Bytes) (w : W) (c : Cli),
    ∃ ext, CliIso w c (ClientPf.runLines w c ls) ext ∧ WQ (ClientPf.runLines w c ls) ext := by
  intro ls
  induction ls with
  | nil => intro w c; exact ⟨[], CliIso.refl w c, WQ.nil _⟩
  | cons l ls ih =>
    intro w c
    unfold ClientPf.runLines
    split
    · exact ⟨[], CliIso.refl w c, WQ.nil _⟩
    · obtain ⟨e1, h1, q1⟩ := parseLine_iso w { c with fromBuf := c.fromBuf.drop l.length } l
      obtain ⟨e2, h2, q2⟩ := ih (parseLine w { c with fromBuf := c.fromBuf.drop l.length } l).1 (parseLine w { c with fromBuf := c.fromBuf.drop l.length } l).2
      refine ⟨[] ++ e1 ++ e2, ((dropFrom_iso w c l.length).trans h1).trans h2, ?_⟩
      have q1' : WQ (parseLine w { c with fromBuf := c.fromBuf.drop l.length } l) ([] ++ e1) := by simpa using q1
      exact WQ.trans q1' h2 q2

theorem handleInput_iso (w : W) (c : Cli) : ∃ ext, CliIso w c (handleInput w c) ext ∧ WQ (handleInput w c) ext := by
  rw [ClientPf.handleInput_lines]; exact runLines_iso _ w c

/-! ### one client's whole share of `cli_post_poll` -/

/-- the frame of `clientPass w c e = r`, logging the system calls `ext`: whether the client survives (`alive`) or is
    destroyed (`gone`) -/
structure PassIso (w : W) (c : Cli) (r : W × Option Cli) (ext : List Sys) : Prop where
  kept : kept r.1 = kept w
  sys : r.1.sys = w.sys ++ ext
  sysfd : ∀ s ∈ ext, sysFd s = some c.fd
  caps : ∀ fd, fd ≠ c.fd → capOf r.1 fd = capOf w fd
  alive : ∀ c', r.2 = some c' → c'.id = c.id ∧ c'.fd = c.fd ∧ (c.quit = true → c'.quit = true) ∧
      Enq c.id w r.1 c.cmd c'.cmd ∧ ((∃ b, c'.toBuf = c.toBuf ++ b) ∨ ∃ s ∈ ext, isWrite s = true)
  gone : r.2 = none → r.1.devs = w.devs ∧ r.1.store = w.store ∧ r.1.alNext = w.alNext ∧
      (r.1.exited = w.exited ∨ r.1.exited = false)

theorem cpDead_iso (w : W) (c : Cli) : PassIso w c (ClientPf.cpDead w c) [Sys.close c.fd] :=
  ⟨rfl, rfl, by simp [sysFd], fun _ _ => rfl, fun c' h => by simp [ClientPf.cpDead] at h, fun _ => ⟨rfl, rfl, rfl, Or.inl rfl⟩⟩

theorem cpTail_iso (w : W) (c : Cli) (r : W × Cli) (ext : List Sys) (h : CliIso w c r ext) :
    ∃ ext', PassIso w c (ClientPf.cpTail r) ext' := by
  have hsome : PassIso w c (r.1, some r.2) ext :=
    ⟨h.kept, h.sys, h.sysfd, h.caps,
     fun c' hc' => by
       simp only [Option.some.injEq] at hc'
       subst hc'
       exact ⟨h.id, h.fd, h.quit, h.enq, h.buf⟩,
     fun hn => by simp at hn⟩
  unfold ClientPf.cpTail
  split
  · exact ⟨ext, hsome⟩
  · rename_i hex
    split
    · rename_i hq
      have hcmd : r.2.cmd = none := by
        simp only [Bool.and_eq_true, Option.isNone_iff_eq_none] at hq
        exact hq.2
      refine ⟨ext ++ [Sys.close r.2.fd], h.kept, ?_, ?_, h.caps, ?_, ?_⟩
      · simp [ClientPf.cpDead, h.sys]
      · intro s hs
        rcases List.mem_append.mp hs with hs | hs
        · exact h.sysfd s hs
        · simp only [List.mem_singleton] at hs; subst hs; simp [sysFd, h.fd]
      · intro c' hc'; simp [ClientPf.cpDead] at hc'
      · intro _
        have henq := h.enq
        rw [hcmd] at henq
        rcases henq with ⟨a1, a2, a3, _⟩ | ⟨_, k, _, _, _, _, hk, _⟩
        · exact ⟨a1, a2, a3, Or.inr (by simpa [ClientPf.cpDead] using hex)⟩
        · cases hk
    · exact ⟨ext, hsome⟩

/-- `cpTail` hands the record through unchanged when the client survives -/
theorem cpTail_some (r : W × Cli) (c' : Cli) (h : (ClientPf.cpTail r).2 = some c') : c' = r.2 := by
  unfold ClientPf.cpTail at h
  split at h
  · simpa using h.symm
  · split at h
    · simp [ClientPf.cpDead] at h
    · simpa using h.symm

/-- **the frame of `clientPass`**; and when the descriptor is not reported writable, only the `quit` command writes to it -/
theorem clientPass_iso (w : W) (c : Cli) (e : Option FdEnv) :
    ∃ ext, PassIso w c (clientPass w c e) ext ∧
      (ClientPf.cpRev c e &&& 2 = 0 → ∀ c', (clientPass w c e).2 = some c' → (∃ s ∈ ext, isWrite s = true) → c'.quit = true) := by
  rw [ClientPf.clientPass_eq]
  unfold ClientPf.clientPass'
  dsimp only
  split
  · exact ⟨_, cpDead_iso w c, fun _ c' h => by simp [ClientPf.cpDead] at h⟩
  · obtain ⟨e1, h1, n1⟩ : ∃ ext, CliIso w c (if (ClientPf.cpRev c e &&& 1 != 0 || ClientPf.cpRev c e &&& 4 != 0) = true then ClientPf.cpRead w (clipC c e) (clipE c e) else (w, c)) ext ∧
        ∀ s ∈ ext, isWrite s = false := by
      split
      · obtain ⟨ext, h, n⟩ := cpRead_iso w (clipC c e) (clipE c e)
        exact ⟨[] ++ ext, (clipC_iso w c e).trans h, by simpa using n⟩
      · exact ⟨[], CliIso.refl w c, by simp⟩
    generalize (if (ClientPf.cpRev c e &&& 1 != 0 || ClientPf.cpRev c e &&& 4 != 0) = true then ClientPf.cpRead w (clipC c e) (clipE c e) else (w, c)) = r1 at h1 ⊢
    obtain ⟨e2, h2, n2⟩ : ∃ ext, CliIso w c (if (ClientPf.cpRev c e &&& 2 != 0) = true then handleWrite r1.1 r1.2 else r1) ext ∧
        (ClientPf.cpRev c e &&& 2 = 0 → ∀ s ∈ ext, isWrite s = false) := by
      split
      · rename_i hpo
        obtain ⟨e2, h2⟩ := handleWrite_iso r1.1 r1.2
        exact ⟨_, h1.trans h2, fun h0 => by simp [h0] at hpo⟩
      · exact ⟨_, h1, fun _ => n1⟩
    generalize (if (ClientPf.cpRev c e &&& 2 != 0) = true then handleWrite r1.1 r1.2 else r1) = r2 at h2 ⊢
    obtain ⟨e3, h3, q3⟩ := handleInput_iso r2.1 r2.2
    obtain ⟨ext', hp⟩ := cpTail_iso w c _ _ (h2.trans h3)
    have hext : ∀ c', (ClientPf.cpTail (handleInput r2.1 r2.2)).2 = some c' → ext' = e2 ++ e3 := by
      intro c' hc'
      have s1 := hp.sys
      have s2 := (h2.trans h3).sys
      have : (ClientPf.cpTail (handleInput r2.1 r2.2)).1 = (handleInput r2.1 r2.2).1 := by
        unfold ClientPf.cpTail at hc' ⊢
        split
        · rfl
        · split
          · rename_i hq; rw [if_neg (by assumption), if_pos hq] at hc'; simp [ClientPf.cpDead] at hc'
          · rfl
      rw [this, s2] at s1
      exact (List.append_cancel_left s1).symm
    refine ⟨ext', hp, ?_⟩
    intro h0 c' hc' ⟨s, hs, hw⟩
    rw [hext c' hc'] at hs
    rw [cpTail_some _ c' hc']
    rcases List.mem_append.mp hs with hs | hs
    · rw [n2 h0 s hs] at hw; cases hw
    · exact q3 ⟨s, hs, hw⟩

/-! ### the loop of `cli_post_poll`: the served record is written back, or the client is unlinked -/

theorem kept_clients {w w' : W} (h : kept w' = kept w) : w'.clients = w.clients := by
  simp only [kept, Prod.mk.injEq] at h; exact h.1
theorem kept_nextId {w w' : W} (h : kept w' = kept w) : w'.nextId = w.nextId := by
  simp only [kept, Prod.mk.injEq] at h; exact h.2.2.1

/-- what one turn of the loop does, in terms of the frame of `clientPass` -/
theorem cliStep_cases (envs : List FdEnv) (w : W) (c0 : Cli) :
    (w.exited = true ∧ ClientPf.cliStep envs w c0 = w) ∨
    (w.exited = false ∧ ∃ ext, PassIso w c0 (clientPass w c0 (envs.find? (·.fd == c0.fd))) ext ∧
      ((∃ c, (clientPass w c0 (envs.find? (·.fd == c0.fd))).2 = some c ∧
          ClientPf.cliStep envs w c0 = { (clientPass w c0 (envs.find? (·.fd == c0.fd))).1 with
            clients := w.clients.map fun (x : Cli) => if x.id == c0.id then c else x }) ∨
       ((clientPass w c0 (envs.find? (·.fd == c0.fd))).2 = none ∧
          ClientPf.cliStep envs w c0 = { (clientPass w c0 (envs.find? (·.fd == c0.fd))).1 with
            clients := w.clients.filter fun (x : Cli) => x.id != c0.id }))) := by
  unfold ClientPf.cliStep
  cases hex : w.exited with
  | true => exact Or.inl ⟨rfl, by simp⟩
  | false =>
    refine Or.inr ⟨rfl, ?_⟩
    obtain ⟨ext, h, _⟩ := clientPass_iso w c0 (envs.find? (·.fd == c0.fd))
    refine ⟨ext, h, ?_⟩
    have hcl := kept_clients h.kept
    generalize clientPass w c0 (envs.find? (·.fd == c0.fd)) = r at h hcl ⊢
    obtain ⟨w', r⟩ := r
    have hcl' : w'.clients = w.clients := hcl
    cases r with
    | none => exact Or.inr ⟨rfl, by simp [hcl']⟩
    | some c =>
      have hid : c.id = c0.id := (h.alive c rfl).1
      exact Or.inl ⟨c, rfl, by simp [hcl', hid]⟩

theorem find_map_replace (xs : List Cli) (id g : Nat) (c : Cli) (hg : g ≠ id) (hc : c.id = id) :
    (xs.map fun x => if x.id == id then c else x).find? (·.id == g) = xs.find? (·.id == g) := by
  induction xs with
  | nil => rfl
  | cons x xs ih =>
    rw [List.map_cons, List.find?_cons, List.find?_cons, ih]
    by_cases hx : x.id = id
    · have h1 : (c.id == g) = false := by rw [hc]; simpa using fun h => hg h.symm
      have h2 : (x.id == g) = false := by rw [hx]; simpa using fun h => hg h.symm
      have h3 : (x.id == id) = true := by simpa using hx
      simp only [h3, if_true, h1, h2]
    · have h3 : (x.id == id) = false := by simpa using hx
      simp only [h3, Bool.false_eq_true, if_false]

theorem find_filter_ne (xs : List Cli) (id g : Nat) (hg : g ≠ id) :
    (xs.filter fun x => x.id != id).find? (·.id == g) = xs.find? (·.id == g) := by
  induction xs with
  | nil => rfl
  | cons x xs ih =>
    rw [List.filter_cons, List.find?_cons]
    by_cases hx : x.id = id
    · have h2 : (x.id == g) = false := by rw [hx]; simpa using fun h => hg h.symm
      have h3 : (x.id != id) = false := by simpa using hx
      simp only [h3, Bool.false_eq_true, if_false, h2, ih]
    · have h3 : (x.id != id) = true := by simpa using hx
      simp only [h3, if_true, List.find?_cons, ih]

theorem find_filter_self (xs : List Cli) (id : Nat) : (xs.filter fun x => x.id != id).find? (·.id == id) = none := by
  rw [List.find?_eq_none]
  intro x hx
  have := (List.mem_filter.mp hx).2
  simpa using this

/-- **one turn of the loop never touches another client's record** -/
theorem cliStep_other (envs : List FdEnv) (w : W) (c0 : Cli) (g : Nat) (hg : g ≠ c0.id) :
    cliRec (ClientPf.cliStep envs w c0) g = cliRec w g := by
  rcases cliStep_cases envs w c0 with ⟨_, h⟩ | ⟨_, ext, hp, ⟨c, hc, h⟩ | ⟨_, h⟩⟩
  · rw [h]
  · rw [h]; exact find_map_replace w.clients c0.id g c hg (hp.alive c hc).1
  · rw [h]; exact find_filter_ne w.clients c0.id g hg

/-- the same by membership: a record with another id is still in the table, as it was -/
theorem cliStep_mem (envs : List FdEnv) (w : W) (c0 x : Cli) (hx : x ∈ w.clients) (hne : x.id ≠ c0.id) :
    x ∈ (ClientPf.cliStep envs w c0).clients := by
  rcases cliStep_cases envs w c0 with ⟨_, h⟩ | ⟨_, ext, hp, ⟨c, hc, h⟩ | ⟨_, h⟩⟩
  · rw [h]; exact hx
  · rw [h]
    exact List.mem_map.mpr ⟨x, hx, by simp [hne]⟩
  · rw [h]
    exact List.mem_filter.mpr ⟨hx, by simpa using hne⟩

/-- a fold of the loop over clients none of which has id `g` leaves `g`'s record alone -/
theorem foldl_cliStep_other (envs : List FdEnv) (g : Nat) (l : List Cli) (w : W) (h : ∀ c ∈ l, c.id ≠ g) :
    cliRec (l.foldl (ClientPf.cliStep envs) w) g = cliRec w g := by
  induction l generalizing w with
  | nil => rfl
  | cons c r ih =>
    rw [List.foldl_cons, ih _ (fun x hx => h x (by simp [hx])), cliStep_other envs w c g (fun e => h c (by simp) e.symm)]

/-! ## 5. departure -/

/-- the client served in this turn of the loop is destroyed (`goto client_dead`: ERR/NVAL on its descriptor, or it has quit
    / hit EOF and has no command in progress): no device, no arglist, no counter and no other client's record changes; its
    own record is gone; only system calls on its own descriptor are logged -/
theorem cliStep_departure (envs : List FdEnv) (w : W) (c0 : Cli) (hex : w.exited = false)
    (h : (clientPass w c0 (envs.find? (·.fd == c0.fd))).2 = none) :
    (ClientPf.cliStep envs w c0).devs = w.devs ∧ (ClientPf.cliStep envs w c0).store = w.store ∧
    (ClientPf.cliStep envs w c0).alNext = w.alNext ∧ (ClientPf.cliStep envs w c0).nextId = w.nextId ∧
    (ClientPf.cliStep envs w c0).exited = false ∧
    (ClientPf.cliStep envs w c0).clients = w.clients.filter (fun x => x.id != c0.id) ∧
    cliRec (ClientPf.cliStep envs w c0) c0.id = none ∧
    (∀ g, g ≠ c0.id → cliRec (ClientPf.cliStep envs w c0) g = cliRec w g) ∧
    ∃ ext, (ClientPf.cliStep envs w c0).sys = w.sys ++ ext ∧ (∀ s ∈ ext, sysFd s = some c0.fd) ∧
      (∀ fd, fd ≠ c0.fd → capOf (ClientPf.cliStep envs w c0) fd = capOf w fd) := by
  rcases cliStep_cases envs w c0 with ⟨hx, _⟩ | ⟨_, ext, hp, ⟨c, hc, _⟩ | ⟨_, e⟩⟩
  · rw [hex] at hx; cases hx
  · rw [h] at hc; cases hc
  · obtain ⟨g1, g2, g3, g4⟩ := hp.gone h
    refine ⟨by rw [e]; exact g1, by rw [e]; exact g2, by rw [e]; exact g3, by rw [e]; exact (kept_nextId hp.kept : _ = w.nextId), ?_, by rw [e],
      ?_, fun g hg => cliStep_other envs w c0 g hg, ext, by rw [e]; exact hp.sys, hp.sysfd, ?_⟩
    · rw [e]; rcases g4 with g4 | g4
      · exact g4.trans hex
      · exact g4
    · rw [e]; exact find_filter_self w.clients c0.id
    · intro fd hfd; rw [e]; exact hp.caps fd hfd

/-- a completion for an id no client has is dropped (`_find_client` returns `NULL`) -/
theorem actFinish_gone (w : W) (id : Nat) (err : ActErr) (name : Bytes) (h : cliRec w id = none) :
    actFinish w id err name = (w, false) :=
  Reply.actFinish_absent w id err name h

/-! ## 3. one command per client -/

/-- one request line: nothing is enqueued, or — only for a client without a command — exactly one `install` -/
theorem parseLine_enq (w : W) (c : Cli) (line : Bytes) :
    Enq c.id w (parseLine w c line).1 c.cmd (parseLine w c line).2.cmd := by
  obtain ⟨_, h, _⟩ := parseLine_iso w c line
  exact h.enq

/-- while a command is in progress nothing this client sends reaches the queues -/
theorem Enq.busy {cid : Nat} {w w' : W} {cmd cmd' : Option CmdC} (h : Enq cid w w' cmd cmd') (hb : cmd.isSome = true) :
    w'.devs = w.devs ∧ w'.store = w.store ∧ w'.alNext = w.alNext ∧ cmd' = cmd := by
  rcases h with h | ⟨hn, _⟩
  · exact h
  · rw [hn] at hb; cases hb

/-- the actions an `install` appends carry the installing client's id, its telemetry flag and the new arglist id -/
theorem installDev_acts (com : Nat) (bn : List Bytes) (cid : Nat) (tele : Bool) (al : Nat) (nd : Bytes × Dev) :
    ∀ a ∈ (Enq.installDev com bn cid tele al nd).2.acts, a ∈ nd.2.acts ∨ (a.clientId = cid ∧ a.arglist = al ∧ a.telemetry = tele) := by
  intro a ha
  rw [(Enq.installDev_spec com bn cid tele al nd).2.2.1] at ha
  rcases List.mem_append.mp ha with ha | ha
  · exact Or.inl ha
  · right
    rcases Enq.newActs_cases ha with ⟨_, p, _, rfl⟩ | ⟨c, _, _, _, rfl⟩ | ⟨c, _, _, rfl⟩ <;> exact ⟨rfl, rfl, rfl⟩

/-- the queues after whatever one client's requests did: every action is an old one or carries this client's id, and
    in the latter case the arglist id that was fresh before -/
theorem Enq.acts {cid : Nat} {w w' : W} {cmd cmd' : Option CmdC} (h : Enq cid w w' cmd cmd') :
    ∀ nd' ∈ w'.devs, ∀ a ∈ nd'.2.acts, (∃ nd ∈ w.devs, a ∈ nd.2.acts) ∨ (a.clientId = cid ∧ a.arglist = w.alNext) := by
  intro nd' hnd' a ha
  rcases h with ⟨h1, _⟩ | ⟨_, k, args, com, bn, tele, _, _, _, _, h5⟩
  · rw [h1] at hnd'; exact Or.inl ⟨nd', hnd', ha⟩
  · rw [h5] at hnd'
    obtain ⟨nd, hnd, rfl⟩ := List.mem_map.mp hnd'
    rcases installDev_acts com bn cid tele w.alNext nd a ha with h | h
    · exact Or.inl ⟨nd, hnd, h⟩
    · exact Or.inr ⟨h.1, h.2.1⟩

/-- ... and no old action is lost or changed -/
theorem Enq.acts_kept {cid : Nat} {w w' : W} {cmd cmd' : Option CmdC} (h : Enq cid w w' cmd cmd') :
    ∀ nd ∈ w.devs, ∀ a ∈ nd.2.acts, ∃ nd' ∈ w'.devs, nd'.1 = nd.1 ∧ a ∈ nd'.2.acts := by
  intro nd hnd a ha
  rcases h with ⟨h1, _⟩ | ⟨_, k, args, com, bn, tele, _, _, _, _, h5⟩
  · rw [h1]; exact ⟨nd, hnd, rfl, ha⟩
  · rw [h5]
    refine ⟨Enq.installDev com bn cid tele w.alNext nd, List.mem_map.mpr ⟨nd, hnd, rfl⟩, rfl, ?_⟩
    rw [(Enq.installDev_spec com bn cid tele w.alNext nd).2.2.1]
    exact List.mem_append_left _ ha

/-! ## the queue after one device's share of the pass: no action changes owner or arglist -/

section Keys
open Pm.Dev2

/-- every queued action's (client id, arglist id) pair satisfies `S` -/
def Keys (S : Nat → Nat → Prop) (acts : List Action) : Prop := ∀ a ∈ acts, S a.clientId a.arglist

theorem Keys.nil {S : Nat → Nat → Prop} : Keys S [] := by intro a ha; cases ha

theorem DevFrame.keys {S : Nat → Nat → Prop} {d d' : Dev} (h : DevFrame d d') (h0 : S 0 0) (hk : Keys S d.acts) :
    Keys S d'.acts :=
  h.acts (fun a => S a.clientId a.arglist) h0 (fun a ha => by rw [rewind_clientId, rewind_arglist]; exact ha) hk

theorem failAll_keys (S : Nat → Nat → Prop) (h0 : S 0 0) (rest : List Action) (c : CS) (a : Action) (o : Oracle)
    (out : List Pm.Dev2.Out) (tmo : Option Time) : Keys S (failAll rest c a o out tmo).1.dev.acts := by
  have hr := reconnectDev_devFrame { c with dev := { c.dev with acts := [], xmStr := none, xmResult := false, xmUsed := false } } tmo
  unfold failAll
  dsimp only
  split
  · generalize reconnectDev _ tmo = r at *
    exact DevFrame.keys hr h0 Keys.nil
  · exact Keys.nil

theorem onTimeout_keys (S : Nat → Nat → Prop) (h0 : S 0 0) (rest : List Action) (c : CS) (a : Action) (o : Oracle)
    (out : List Pm.Dev2.Out) (tmo : Option Time) (hk : Keys S c.dev.acts) :
    Keys S (onTimeout rest c a o out tmo).1.dev.acts := by
  unfold onTimeout
  dsimp only
  generalize (if a.telemetry = true then
      (if (c.dev.conn != 2) = true then [Out.telemetry a.clientId (str "connect(dev): timeout")]
       else teleMem a.clientId "recv(dev): '" c.dev.fromBuf) else []) = tele
  split
  · exact hk
  · exact failAll_keys S h0 _ _ _ _ _ _

theorem onRun_keys (S : Nat → Nat → Prop) (h0 : S 0 0) (k : CS → Oracle → List Pm.Dev2.Out → Option Time → PA)
    (rest : List Action) (c : CS) (a : Action) (o : Oracle) (out : List Pm.Dev2.Out) (tmo : Option Time) (left : Time)
    (ha : S a.clientId a.arglist) (hrest : Keys S rest)
    (hk : ∀ c' o' out' tmo', Keys S c'.dev.acts → Keys S (k c' o' out' tmo').1.dev.acts) :
    Keys S (onRun k rest c a o out tmo left).1.dev.acts := by
  unfold onRun
  dsimp only
  have hIL := innerLoop_frame (fun _ => false) c.env.now (loopBound a) { c.dev with wake := none } a o []
    (fun _ _ _ _ => rfl) (by simp)
  generalize innerLoop c.env.now (loopBound a) { c.dev with wake := none } a o [] = r at *
  have hadvc := advance_clientId r.act
  have hadva := advance_arglist r.act
  generalize advance r.act = a' at *
  have hract : S r.act.clientId r.act.arglist := by rw [hIL.cid, hIL.al]; exact ha
  have ha' : S a'.clientId a'.arglist := by rw [hadvc, hadva]; exact hract
  have hcons : ∀ x : Action, S x.clientId x.arglist → Keys S (x :: rest) := by
    intro x hx b hb
    rcases List.mem_cons.mp hb with rfl | hb
    · exact hx
    · exact hrest b hb
  split
  · exact hcons _ hract
  · split
    · exact hcons _ hract
    · split
      · split
        · exact hk _ _ _ _ hrest
        · exact hk _ _ _ _ (hcons _ ha')
      · exact failAll_keys S h0 _ _ _ _ _ _

theorem processActionF_keys (S : Nat → Nat → Prop) (h0 : S 0 0) (fuel : Nat) (c : CS) (o : Oracle) (out : List Pm.Dev2.Out)
    (tmo : Option Time) (hk : Keys S c.dev.acts) : Keys S (processActionF fuel c o out tmo).1.dev.acts := by
  induction fuel generalizing c o out tmo with
  | zero => unfold processActionF; exact hk
  | succ n ih =>
    unfold processActionF processActionBody
    split
    · exact hk
    · split
      · exact hk
      · rename_i a0 rest hq
        dsimp only
        have hsc := stamp_clientId c.env.now a0
        have hsa := stamp_arglist c.env.now a0
        generalize stamp c.env.now a0 = a at *
        have ha0 := hk a0 (by simp [hq])
        have ha : S a.clientId a.arglist := by rw [hsc, hsa]; exact ha0
        have hrest : Keys S rest := fun b hb => hk b (by simp [hq, hb])
        split
        · exact onTimeout_keys S h0 rest c a o out tmo hk
        · split
          · intro b hb
            rcases List.mem_cons.mp hb with rfl | hb
            · exact ha
            · exact hrest b hb
          · exact onRun_keys S h0 _ rest c a o out tmo _ ha hrest (fun c' o' out' tmo' h => ih c' o' out' tmo' h)

/-- **`dev_post_poll` for one device never changes the owner or the arglist of a queued action**: every action in the queue
    afterwards has the (client id, arglist id) pair of an action that was queued before, or `(0, 0)` (login, ping) -/
theorem postPoll_keys (S : Nat → Nat → Prop) (h0 : S 0 0) (d : Dev) (env : Env) (o : Oracle) (hk : Keys S d.acts) :
    Keys S (postPoll d env o).1.dev.acts := by
  rw [postPoll_eq]
  unfold postPoll'
  have h1 := ppReady_devFrame d env
  generalize ppReady d env = r at *
  dsimp only
  split
  · exact DevFrame.keys h1 h0 hk
  · have h2 := ppReconnect_devFrame r.1 r.2
    generalize ppReconnect r.1 r.2 = r2 at *
    have hk2 : Keys S r2.1.dev.acts := DevFrame.keys (h1.trans h2) h0 hk
    have h3 := (ppPing_frame r2.1 env.now r2.2).2.2.2
    have hk3 : Keys S (ppPing r2.1 env.now r2.2).1.dev.acts := by
      rcases h3 with h | h
      · rw [h]; exact hk2
      · rw [h]; intro a ha
        rcases List.mem_append.mp ha with ha | ha
        · exact hk2 a ha
        · simp only [List.mem_singleton] at ha; subst ha; exact h0
    generalize ppPing r2.1 env.now r2.2 = r3 at *
    unfold processAction
    exact processActionF_keys S h0 _ r3.1 o [] r3.2 hk3

end Keys

/-- the entry device `nd` leaves in the processed list: its queue holds only actions with a (client id, arglist id) pair
    that was in the queue before, or `(0, 0)` -/
theorem stepped_keys (S : Nat → Nat → Prop) (h0 : S 0 0) (p : PassIn) (a : DevAcc) (nd : Bytes × Dev) (hk : Keys S nd.2.acts) :
    Keys S (stepped p a nd).2.acts := by
  unfold stepped
  dsimp only
  split
  · exact hk
  · exact postPoll_keys S h0 _ _ _ hk

/-! ## 2. the id discipline -/

/-- the ids of the live clients, in table order -/
def ids (w : W) : List Nat := w.clients.map (·.id)

/-- the live clients' ids are pairwise distinct, positive (`0` is the id of the internal login/ping actions) and below the
    counter `nextId`; every queued action carries an id below the counter (so the id the next client gets is carried by
    no action — not even by one a departed client left behind) -/
structure IdsFresh (w : W) : Prop where
  nodup : (ids w).Nodup
  pos : ∀ i ∈ ids w, 0 < i
  below : ∀ i ∈ ids w, i < w.nextId
  acts : ∀ nd ∈ w.devs, ∀ a ∈ nd.2.acts, a.clientId < w.nextId
  one : 0 < w.nextId

theorem IdsFresh.transfer {w w' : W} (h : IdsFresh w) (hids : (ids w').Sublist (ids w)) (hn : w'.nextId = w.nextId)
    (hacts : ∀ nd' ∈ w'.devs, ∀ a ∈ nd'.2.acts, a.clientId < w'.nextId) : IdsFresh w' :=
  ⟨h.nodup.sublist hids, fun i hi => h.pos i (hids.subset hi), fun i hi => hn ▸ h.below i (hids.subset hi), hacts, hn ▸ h.one⟩

theorem IdsFresh.congr {w w' : W} (h : IdsFresh w) (h1 : w'.clients = w.clients) (h2 : w'.nextId = w.nextId)
    (h3 : w'.devs = w.devs) : IdsFresh w' :=
  h.transfer (by unfold ids; rw [h1]; exact List.Sublist.refl _) h2 (by rw [h3, h2]; exact h.acts)

/-- `UniqueIds` of the C05 statements follows -/
theorem IdsFresh.unique {w : W} (h : IdsFresh w) : UniqueIds w.clients := Pm.Daemon.Ex.uniqB _ h.nodup

/-- under the invariant the table holds one record per id: a member is the record `_find_client` finds -/
theorem IdsFresh.cliRec_of_mem {w : W} (h : IdsFresh w) {c : Cli} (hc : c ∈ w.clients) : cliRec w c.id = some c := by
  unfold cliRec
  cases hf : w.clients.find? (·.id == c.id) with
  | none =>
    have := List.find?_eq_none.mp hf c hc
    simp at this
  | some x =>
    have hx := List.mem_of_find?_eq_some hf
    have hid : x.id = c.id := by simpa using List.find?_some hf
    rw [h.unique x hx c hc hid]

theorem cliRec_mem {w : W} {g : Nat} {c : Cli} (h : cliRec w g = some c) : c ∈ w.clients ∧ c.id = g :=
  ⟨List.mem_of_find?_eq_some h, by simpa using List.find?_some h⟩

/-- accepting a connection: the new client gets the counter's value, the counter moves on -/
theorem cliAccept_ids (w : W) (acc : Nat) (h : IdsFresh w) : IdsFresh (ClientPf.cliAccept w acc) := by
  unfold ClientPf.cliAccept
  split
  · refine ⟨?_, ?_, ?_, ?_, ?_⟩
    · show ((w.clients ++ [ClientPf.newClient w]).map (·.id)).Nodup
      rw [List.map_append, List.nodup_append]
      refine ⟨h.nodup, by simp, ?_⟩
      intro a ha b hb
      simp only [List.map_cons, List.map_nil, List.mem_singleton, ClientPf.newClient] at hb
      have := h.below a ha
      omega
    · intro i hi
      have hi : i ∈ (w.clients ++ [ClientPf.newClient w]).map (·.id) := hi
      rw [List.map_append, List.mem_append] at hi
      rcases hi with hi | hi
      · exact h.pos i hi
      · simp only [List.map_cons, List.map_nil, List.mem_singleton, ClientPf.newClient] at hi
        rw [hi]; exact h.one
    · intro i hi
      have hi : i ∈ (w.clients ++ [ClientPf.newClient w]).map (·.id) := hi
      rw [List.map_append, List.mem_append] at hi
      show i < w.nextId + 1
      rcases hi with hi | hi
      · exact Nat.lt_succ_of_lt (h.below i hi)
      · simp only [List.map_cons, List.map_nil, List.mem_singleton, ClientPf.newClient] at hi
        omega
    · intro nd hnd a ha
      exact Nat.lt_succ_of_lt (h.acts nd hnd a ha)
    · exact Nat.succ_pos _
  · split
    · exact ⟨h.nodup, h.pos, fun i hi => Nat.lt_succ_of_lt (h.below i hi),
        fun nd hnd a ha => Nat.lt_succ_of_lt (h.acts nd hnd a ha), Nat.succ_pos _⟩
    · exact h

/-- the id handed out by `accept` is new: no live client has it and no queued action carries it -/
theorem newClient_fresh (w : W) (h : IdsFresh w) :
    (∀ c ∈ w.clients, c.id ≠ (ClientPf.newClient w).id) ∧
    (∀ nd ∈ w.devs, ∀ a ∈ nd.2.acts, a.clientId ≠ (ClientPf.newClient w).id) ∧ (ClientPf.newClient w).id ≠ 0 := by
  refine ⟨?_, ?_, ?_⟩
  · intro c hc
    have := h.below c.id (List.mem_map.mpr ⟨c, hc, rfl⟩)
    simp only [ClientPf.newClient]; omega
  · intro nd hnd a ha
    have := h.acts nd hnd a ha
    simp only [ClientPf.newClient]; omega
  · have := h.one
    simp only [ClientPf.newClient]; omega

theorem ids_map_replace (xs : List Cli) (id : Nat) (c : Cli) (hc : c.id = id) :
    (xs.map fun x => if x.id == id then c else x).map (·.id) = xs.map (·.id) := by
  rw [List.map_map]
  apply List.map_congr_left
  intro x _
  by_cases hx : x.id = id
  · simp [hx, hc]
  · simp [hx]

/-- one turn of the client loop -/
theorem cliStep_ids (envs : List FdEnv) (w : W) (c0 : Cli) (h : IdsFresh w) (h0 : c0.id < w.nextId) :
    IdsFresh (ClientPf.cliStep envs w c0) ∧ (ClientPf.cliStep envs w c0).nextId = w.nextId := by
  rcases cliStep_cases envs w c0 with ⟨_, e⟩ | ⟨_, ext, hp, ⟨c, hc, e⟩ | ⟨hn, e⟩⟩
  · rw [e]; exact ⟨h, rfl⟩
  · obtain ⟨hid, _, _, henq, _⟩ := hp.alive c hc
    have hnx := kept_nextId hp.kept
    rw [e]
    refine ⟨h.transfer ?_ hnx ?_, hnx⟩
    · show List.Sublist ((w.clients.map fun x => if x.id == c0.id then c else x).map (·.id)) (ids w)
      rw [ids_map_replace _ _ _ hid]; exact List.Sublist.refl _
    · intro nd' hnd' a ha
      show a.clientId < (clientPass w c0 (envs.find? (·.fd == c0.fd))).1.nextId
      rw [hnx]
      rcases henq.acts nd' hnd' a ha with ⟨nd, hnd, ha⟩ | ⟨hcid, _⟩
      · exact h.acts nd hnd a ha
      · rw [hcid]; exact h0
  · obtain ⟨g1, _, _, _⟩ := hp.gone hn
    have hnx := kept_nextId hp.kept
    rw [e]
    refine ⟨h.transfer ?_ hnx ?_, hnx⟩
    · exact List.Sublist.map _ List.filter_sublist
    · intro nd' hnd' a ha
      show a.clientId < (clientPass w c0 (envs.find? (·.fd == c0.fd))).1.nextId
      rw [hnx]
      exact h.acts nd' (g1 ▸ hnd') a ha

theorem foldl_cliStep_ids (envs : List FdEnv) (l : List Cli) (w : W) (h : IdsFresh w) (hl : ∀ c ∈ l, c.id < w.nextId) :
    IdsFresh (l.foldl (ClientPf.cliStep envs) w) := by
  induction l generalizing w with
  | nil => exact h
  | cons c r ih =>
    rw [List.foldl_cons]
    obtain ⟨h1, h2⟩ := cliStep_ids envs w c h (hl c (by simp))
    exact ih _ h1 (fun x hx => by rw [h2]; exact hl x (by simp [hx]))

/-- **`cli_post_poll` keeps the id discipline** -/
theorem cliPostPoll_ids (w : W) (acc : Nat) (envs : List FdEnv) (h : IdsFresh w) : IdsFresh (cliPostPoll w acc envs) := by
  rw [ClientPf.cliPostPoll_eq]
  have h1 : IdsFresh { w with sys := [], caps := envs.map fun (e : FdEnv) => (e.fd, e.cap) } := h.congr rfl rfl rfl
  have h2 := cliAccept_ids _ acc h1
  exact foldl_cliStep_ids envs _ _ h2 (fun c hc => h2.below c.id (List.mem_map.mpr ⟨c, hc, rfl⟩))

/-! ### the device phase -/

/-- the world as it stands when the device phase has processed `a.devs` and still has `rest` to do (`daemonPass` writes the
    device list back only at the end) -/
def worldAt (a : DevAcc) (rest : List (Bytes × Dev)) : W := { a.w with devs := a.devs ++ rest }

theorem ids_updCli (w : W) (id : Nat) (f : Cli → Cli) (hf : ∀ c, (f c).id = c.id) : ids (updCli w id f) = ids w := by
  unfold ids updCli
  dsimp only
  rw [List.map_map]
  apply List.map_congr_left
  intro c _
  by_cases hc : c.id = id
  · simp [hc, hf]
  · simp [hc]

theorem applyOut_ids (name : Bytes) (acc : W × List String) (o : DOut) : ids (applyOut name acc o).1 = ids acc.1 := by
  rcases applyOut_upd name acc o with e | ⟨id, f, _, hf, e⟩
  · rw [e]
  · rw [e, ids_updCli _ _ _ hf]

theorem applyOuts_ids (w : W) (name : Bytes) (outs : List DOut) : ids (applyOuts w name outs).1 = ids w := by
  rw [Pm.Daemon.applyOuts_eq]
  have : ∀ (acc : W × List String), ids (outs.foldl (applyOut name) acc).1 = ids acc.1 := by
    induction outs with
    | nil => intro acc; rfl
    | cons o r ih => intro acc; rw [List.foldl_cons, ih, applyOut_ids]
  exact this _

theorem devPass_ids_eq (p : PassIn) (a : DevAcc) (nd : Bytes × Dev) :
    ids (devPass p a nd).w = ids a.w ∧ (devPass p a nd).w.nextId = a.w.nextId ∧ (devPass p a nd).w.alNext = a.w.alNext := by
  cases hd : a.dead with
  | true => rw [devPass_dead _ _ _ hd]; exact ⟨rfl, rfl, rfl⟩
  | false =>
    rw [devPass_w p a nd hd]
    have h2 := applyOuts_sans (afterStep a.w (devStep p a.w a.oracle nd).1) nd.1 (devStep p a.w a.oracle nd).2.2.1
    refine ⟨by rw [applyOuts_ids]; rfl, ?_, ?_⟩
    · have := congrArg W.nextId h2
      simpa [sansClients, afterStep] using this
    · have := congrArg W.alNext h2
      simpa [sansClients, afterStep] using this

/-- the queues as they stand after device `nd`'s share: processed devices, `nd`'s entry, devices to come -/
theorem worldAt_devPass_devs (p : PassIn) (a : DevAcc) (nd : Bytes × Dev) (rest : List (Bytes × Dev)) :
    (worldAt (devPass p a nd) rest).devs = a.devs ++ stepped p a nd :: rest := by
  show (devPass p a nd).devs ++ rest = _
  rw [devPass_devs_eq]; simp

/-- every action queued anywhere after `nd`'s share has the (client id, arglist id) pair of an action queued before, or
    `(0, 0)` -/
theorem worldAt_devPass_keys (S : Nat → Nat → Prop) (h0 : S 0 0) (p : PassIn) (a : DevAcc) (nd : Bytes × Dev)
    (rest : List (Bytes × Dev)) (h : ∀ x ∈ (worldAt a (nd :: rest)).devs, Keys S x.2.acts) :
    ∀ x ∈ (worldAt (devPass p a nd) rest).devs, Keys S x.2.acts := by
  intro x hx
  rw [worldAt_devPass_devs] at hx
  have h' : ∀ x ∈ a.devs ++ nd :: rest, Keys S x.2.acts := h
  rcases List.mem_append.mp hx with hx | hx
  · exact h' x (List.mem_append_left _ hx)
  · rcases List.mem_cons.mp hx with rfl | hx
    · exact stepped_keys S h0 p a nd (h' nd (by simp))
    · exact h' x (by simp [hx])

theorem devPass_idsFresh (p : PassIn) (a : DevAcc) (nd : Bytes × Dev) (rest : List (Bytes × Dev))
    (h : IdsFresh (worldAt a (nd :: rest))) : IdsFresh (worldAt (devPass p a nd) rest) := by
  obtain ⟨h1, h2, _⟩ := devPass_ids_eq p a nd
  refine h.transfer (by show (ids (devPass p a nd).w).Sublist (ids a.w); rw [h1]; exact List.Sublist.refl _) h2 ?_
  intro x hx b hb
  have hn : (worldAt (devPass p a nd) rest).nextId = a.w.nextId := h2
  rw [hn]
  exact worldAt_devPass_keys (fun cid _ => cid < a.w.nextId) h.one p a nd rest (fun y hy b hb => h.acts y hy b hb) x hx b hb

theorem foldl_devPass_idsFresh (p : PassIn) (l : List (Bytes × Dev)) (a : DevAcc) (h : IdsFresh (worldAt a l)) :
    IdsFresh (worldAt (l.foldl (devPass p) a) []) := by
  induction l generalizing a with
  | nil => exact h
  | cons nd r ih => rw [List.foldl_cons]; exact ih _ (devPass_idsFresh p a nd r h)

theorem worldAt_acc0 (w0 : W) : worldAt (acc0 w0) w0.devs = w0 := by
  simp [worldAt, acc0]

/-- **a whole pass keeps the id discipline** -/
theorem daemonPass_ids (w : W) (p : PassIn) (h : IdsFresh w) : IdsFresh (daemonPass w p).1 := by
  rw [daemonPass_fst]
  have h0 := cliPostPoll_ids w p.acc p.envs h
  dsimp only
  split
  · exact h0
  · have := foldl_devPass_idsFresh p (cliPostPoll w p.acc p.envs).devs (acc0 (cliPostPoll w p.acc p.envs))
      (by rw [worldAt_acc0]; exact h0)
    exact this.congr rfl rfl (by simp [worldAt])

/-! ## 4. the scope of a result: arglists -/

/-- the arglist discipline.  `cmds`/`acts`: every arglist id in use by a client's command or by a client's action is below
    the counter `alNext` (so the id the next command gets is new); `owned`: an action carrying the arglist id of client
    `g`'s command is `g`'s action; `apart`: two clients' commands have different arglist ids; `internal`: the login and ping
    actions (client id `0`) carry the dummy arglist id `0`. -/
structure ArgScope (w : W) : Prop where
  cmds : ∀ g c k, cliRec w g = some c → c.cmd = some k → k.al < w.alNext
  acts : ∀ nd ∈ w.devs, ∀ a ∈ nd.2.acts, a.clientId ≠ 0 → a.arglist < w.alNext
  owned : ∀ g c k, cliRec w g = some c → c.cmd = some k → ∀ nd ∈ w.devs, ∀ a ∈ nd.2.acts, a.clientId ≠ 0 →
    a.arglist = k.al → a.clientId = g
  apart : ∀ g g' c c' k k', cliRec w g = some c → cliRec w g' = some c' → c.cmd = some k → c'.cmd = some k' →
    k.al = k'.al → g = g'
  internal : ∀ nd ∈ w.devs, ∀ a ∈ nd.2.acts, a.clientId = 0 → a.arglist = 0

/-- a step that creates no arglist: every command afterwards is (up to its counters) a command of the same client before,
    every action afterwards has the owner and arglist of an action before (or is internal) -/
theorem ArgScope.transfer {w w' : W} (h : ArgScope w)
    (hcli : ∀ g c' k', cliRec w' g = some c' → c'.cmd = some k' → ∃ c k, cliRec w g = some c ∧ c.cmd = some k ∧ k.al = k'.al)
    (hal : w'.alNext = w.alNext)
    (hacts : ∀ nd' ∈ w'.devs, ∀ a' ∈ nd'.2.acts,
      (a'.clientId = 0 ∧ a'.arglist = 0) ∨ ∃ nd ∈ w.devs, ∃ a ∈ nd.2.acts, a.clientId = a'.clientId ∧ a.arglist = a'.arglist) :
    ArgScope w' := by
  refine ⟨?_, ?_, ?_, ?_, ?_⟩
  · intro g c' k' hc' hk'
    obtain ⟨c, k, hc, hk, e⟩ := hcli g c' k' hc' hk'
    rw [hal, ← e]; exact h.cmds g c k hc hk
  · intro nd' hnd' a' ha' hne
    rcases hacts nd' hnd' a' ha' with ⟨h0, _⟩ | ⟨nd, hnd, a, ha, e1, e2⟩
    · exact absurd h0 hne
    · rw [hal, ← e2]; exact h.acts nd hnd a ha (by rw [e1]; exact hne)
  · intro g c' k' hc' hk' nd' hnd' a' ha' hne hal'
    obtain ⟨c, k, hc, hk, e⟩ := hcli g c' k' hc' hk'
    rcases hacts nd' hnd' a' ha' with ⟨h0, _⟩ | ⟨nd, hnd, a, ha, e1, e2⟩
    · exact absurd h0 hne
    · rw [← e1]; exact h.owned g c k hc hk nd hnd a ha (by rw [e1]; exact hne) (by rw [e2, hal', e])
  · intro g g' c1 c2 k1 k2 hc1 hc2 hk1 hk2 e
    obtain ⟨d1, l1, hd1, hl1, e1⟩ := hcli g c1 k1 hc1 hk1
    obtain ⟨d2, l2, hd2, hl2, e2⟩ := hcli g' c2 k2 hc2 hk2
    exact h.apart g g' d1 d2 l1 l2 hd1 hd2 hl1 hl2 (by rw [e1, e2, e])
  · intro nd' hnd' a' ha' h0
    rcases hacts nd' hnd' a' ha' with ⟨_, h1⟩ | ⟨nd, hnd, a, ha, e1, e2⟩
    · exact h1
    · rw [← e2]; exact h.internal nd hnd a ha (by rw [e1]; exact h0)

theorem cliRec_append_new (xs : List Cli) (n : Cli) (g : Nat) (c : Cli) (k : CmdC) (hn : n.cmd = none)
    (h : (xs ++ [n]).find? (·.id == g) = some c) (hk : c.cmd = some k) : xs.find? (·.id == g) = some c := by
  rw [List.find?_append] at h
  cases hx : xs.find? (·.id == g) with
  | some x => rw [hx] at h; simpa using h
  | none =>
    rw [hx] at h
    simp only [Option.none_or] at h
    have := List.mem_of_find?_eq_some h
    simp only [List.mem_singleton] at this
    subst this
    rw [hn] at hk; cases hk

theorem cliAccept_scope (w : W) (acc : Nat) (h : ArgScope w) : ArgScope (ClientPf.cliAccept w acc) := by
  unfold ClientPf.cliAccept
  split
  · refine h.transfer ?_ rfl (fun nd hnd a ha => Or.inr ⟨nd, hnd, a, ha, rfl, rfl⟩)
    intro g c' k' hc' hk'
    exact ⟨c', k', cliRec_append_new w.clients (ClientPf.newClient w) g c' k' rfl hc' hk', hk', rfl⟩
  · split
    · exact h.transfer (fun g c' k' hc' hk' => ⟨c', k', hc', hk', rfl⟩) rfl (fun nd hnd a ha => Or.inr ⟨nd, hnd, a, ha, rfl, rfl⟩)
    · exact h

theorem find_map_replace_self (xs : List Cli) (id : Nat) (c x : Cli) (hc : c.id = id) (hx : xs.find? (·.id == id) = some x) :
    (xs.map fun y => if y.id == id then c else y).find? (·.id == id) = some c := by
  induction xs with
  | nil => cases hx
  | cons y ys ih =>
    rw [List.map_cons, List.find?_cons]
    by_cases hy : y.id = id
    · have h3 : (y.id == id) = true := by simpa using hy
      have h4 : (c.id == id) = true := by simpa using hc
      simp only [h3, if_true, h4]
    · have h3 : (y.id == id) = false := by simpa using hy
      rw [List.find?_cons, h3] at hx
      simp only [h3, Bool.false_eq_true, if_false]
      exact ih hx

/-- one turn of the client loop, for a client whose record is the one in the table -/
theorem cliStep_scope (envs : List FdEnv) (w : W) (c0 : Cli) (h : ArgScope w) (hc0 : cliRec w c0.id = some c0)
    (hpos : c0.id ≠ 0) : ArgScope (ClientPf.cliStep envs w c0) := by
  rcases cliStep_cases envs w c0 with ⟨_, e⟩ | ⟨_, ext, hp, ⟨c, hc, e⟩ | ⟨hn, e⟩⟩
  · rw [e]; exact h
  · obtain ⟨hid, _, _, henq, _⟩ := hp.alive c hc
    have hself : cliRec (ClientPf.cliStep envs w c0) c0.id = some c := by
      rw [e]; exact find_map_replace_self w.clients c0.id c c0 hid hc0
    have hoth : ∀ g, g ≠ c0.id → cliRec (ClientPf.cliStep envs w c0) g = cliRec w g := fun g hg => cliStep_other envs w c0 g hg
    have hdevs : (ClientPf.cliStep envs w c0).devs = (clientPass w c0 (envs.find? (·.fd == c0.fd))).1.devs := by rw [e]
    have halx : (ClientPf.cliStep envs w c0).alNext = (clientPass w c0 (envs.find? (·.fd == c0.fd))).1.alNext := by rw [e]
    generalize ClientPf.cliStep envs w c0 = w' at *
    generalize (clientPass w c0 (envs.find? (·.fd == c0.fd))).1 = w1 at *
    rcases henq with ⟨a1, _, a3, a4⟩ | ⟨hidle, k, args, com, bn, tele, b1, b2, b3, b4, b5⟩
    · -- nothing enqueued
      refine h.transfer ?_ (halx.trans a3) ?_
      · intro g c' k' hc' hk'
        by_cases hg : g = c0.id
        · subst hg
          rw [hself] at hc'; cases hc'
          exact ⟨c0, k', hc0, a4 ▸ hk', rfl⟩
        · rw [hoth g hg] at hc'; exact ⟨c', k', hc', hk', rfl⟩
      · intro nd hnd a ha
        rw [hdevs, a1] at hnd
        exact Or.inr ⟨nd, hnd, a, ha, rfl, rfl⟩
    · -- one `install`
      have hacts := Enq.acts (Or.inr ⟨hidle, k, args, com, bn, tele, b1, b2, b3, b4, b5⟩ : Enq c0.id w w1 c0.cmd c.cmd)
      have hrec : ∀ g c' k', cliRec w' g = some c' → c'.cmd = some k' →
          (g = c0.id ∧ k'.al = w.alNext) ∨ (g ≠ c0.id ∧ cliRec w g = some c' ∧ k'.al < w.alNext) := by
        intro g c' k' hc' hk'
        by_cases hg : g = c0.id
        · subst hg
          rw [hself] at hc'; cases hc'
          rw [b1] at hk'; cases hk'
          exact Or.inl ⟨rfl, b2⟩
        · rw [hoth g hg] at hc'
          exact Or.inr ⟨hg, hc', h.cmds g c' k' hc' hk'⟩
      have hal : w'.alNext = w.alNext + 1 := halx.trans b3
      refine ⟨?_, ?_, ?_, ?_, ?_⟩
      · intro g c' k' hc' hk'
        rw [hal]
        rcases hrec g c' k' hc' hk' with ⟨_, e1⟩ | ⟨_, _, e1⟩ <;> omega
      · intro nd' hnd' a ha hne
        rw [hal]
        rw [hdevs] at hnd'
        rcases hacts nd' hnd' a ha with ⟨nd, hnd, ha⟩ | ⟨_, e1⟩
        · exact Nat.lt_succ_of_lt (h.acts nd hnd a ha hne)
        · omega
      · intro g c' k' hc' hk' nd' hnd' a ha hne hal'
        rw [hdevs] at hnd'
        rcases hrec g c' k' hc' hk' with ⟨e0, e1⟩ | ⟨_, e0, e1⟩
        · rcases hacts nd' hnd' a ha with ⟨nd, hnd, ha⟩ | ⟨e2, _⟩
          · have := h.acts nd hnd a ha hne; omega
          · rw [e2, e0]
        · rcases hacts nd' hnd' a ha with ⟨nd, hnd, ha⟩ | ⟨_, e2⟩
          · exact h.owned g c' k' e0 hk' nd hnd a ha hne hal'
          · omega
      · intro g g' c1 c2 k1 k2 hc1 hc2 hk1 hk2 ee
        rcases hrec g c1 k1 hc1 hk1 with ⟨e0, e1⟩ | ⟨_, e0, e1⟩
        · rcases hrec g' c2 k2 hc2 hk2 with ⟨f0, f1⟩ | ⟨_, f0, f1⟩
          · rw [e0, f0]
          · omega
        · rcases hrec g' c2 k2 hc2 hk2 with ⟨f0, f1⟩ | ⟨_, f0, f1⟩
          · omega
          · exact h.apart g g' c1 c2 k1 k2 e0 f0 hk1 hk2 ee
      · intro nd' hnd' a ha h0
        rw [hdevs] at hnd'
        rcases hacts nd' hnd' a ha with ⟨nd, hnd, ha⟩ | ⟨e2, _⟩
        · exact h.internal nd hnd a ha h0
        · rw [e2] at h0; exact absurd h0 hpos
  · obtain ⟨g1, _, g3, _⟩ := hp.gone hn
    refine h.transfer ?_ (by rw [e]; exact g3) ?_
    · intro g c' k' hc' hk'
      by_cases hg : g = c0.id
      · subst hg
        rw [e] at hc'
        have : (w.clients.filter fun x => x.id != c0.id).find? (·.id == c0.id) = some c' := hc'
        rw [find_filter_self] at this; cases this
      · rw [cliStep_other envs w c0 g hg] at hc'; exact ⟨c', k', hc', hk', rfl⟩
    · intro nd hnd a ha
      rw [e] at hnd
      have hnd : nd ∈ (clientPass w c0 (envs.find? (·.fd == c0.fd))).1.devs := hnd
      rw [g1] at hnd
      exact Or.inr ⟨nd, hnd, a, ha, rfl, rfl⟩

/-- both invariants together -/
def Iso (w : W) : Prop := IdsFresh w ∧ ArgScope w

theorem foldl_cliStep_iso (envs : List FdEnv) (l : List Cli) (w : W) (h : Iso w) (hl : ∀ c ∈ l, c ∈ w.clients)
    (hnd : (l.map (·.id)).Nodup) : Iso (l.foldl (ClientPf.cliStep envs) w) := by
  induction l generalizing w with
  | nil => exact h
  | cons c r ih =>
    rw [List.foldl_cons]
    have hc := hl c (by simp)
    have hidm : c.id ∈ ids w := List.mem_map.mpr ⟨c, hc, rfl⟩
    have h1 := cliStep_ids envs w c h.1 (h.1.below c.id hidm)
    have h2 := cliStep_scope envs w c h.2 (h.1.cliRec_of_mem hc) (Nat.ne_of_gt (h.1.pos c.id hidm))
    rw [List.map_cons, List.nodup_cons] at hnd
    refine ih _ ⟨h1.1, h2⟩ ?_ hnd.2
    intro x hx
    refine cliStep_mem envs w c x (hl x (by simp [hx])) ?_
    intro e
    exact hnd.1 (e ▸ List.mem_map.mpr ⟨x, hx, rfl⟩)

theorem cliPostPoll_iso (w : W) (acc : Nat) (envs : List FdEnv) (h : Iso w) : Iso (cliPostPoll w acc envs) := by
  rw [ClientPf.cliPostPoll_eq]
  have h1 : Iso { w with sys := [], caps := envs.map fun (e : FdEnv) => (e.fd, e.cap) } :=
    ⟨h.1.congr rfl rfl rfl, ⟨h.2.cmds, h.2.acts, h.2.owned, h.2.apart, h.2.internal⟩⟩
  have h2 : Iso (ClientPf.cliAccept _ acc) := ⟨cliAccept_ids _ acc h1.1, cliAccept_scope _ acc h1.2⟩
  exact foldl_cliStep_iso envs _ _ h2 (fun c hc => hc) h2.1.nodup

/-! ### callbacks never give a client a command, and never move a command to another arglist -/

theorem actFinish_cmd (w : W) (id : Nat) (e : ActErr) (name : Bytes) (g : Nat) (c' : Cli) (k' : CmdC)
    (hc' : cliRec (actFinish w id e name).1 g = some c') (hk' : c'.cmd = some k') :
    ∃ c k, cliRec w g = some c ∧ c.cmd = some k ∧ k.al = k'.al := by
  by_cases hid : id = g
  · subst hid
    by_cases hsame : (actFinish w id e name).1 = w
    · rw [hsame] at hc'; exact ⟨c', k', hc', hk', rfl⟩
    · cases hq : cliRec w id with
      | none => exact absurd (by rw [Reply.actFinish_absent w id e name hq]) hsame
      | some c =>
        cases hcmd : c.cmd with
        | none => exact absurd (by rw [Reply.actFinish_nocmd w id e name c hq hcmd]) hsame
        | some k =>
          by_cases hp : k.pending = 1
          · cases hr : finalReply c.exprange (Reply.withStore w k e) with
            | none => exact absurd (by rw [Reply.actFinish_last_abort w id e name c k hq hcmd hp hr]) hsame
            | some r =>
              have h2 : cliRec (actFinish w id e name).1 id = some { c with cmd := none, toBuf := c.toBuf ++ (Reply.errPre e name ++ r ++ prompt) } :=
                (Reply.actFinish_last w id e name c k r hq hcmd hp hr).2
              rw [h2] at hc'
              cases hc'
              cases hk'
          · have h2 : cliRec (actFinish w id e name).1 id =
                some { c with cmd := some { k with error := k.error || (e != .success), pending := k.pending - 1 },
                              toBuf := c.toBuf ++ Reply.errPre e name } :=
              (Reply.actFinish_more w id e name c k hq hcmd hp).2
            rw [h2] at hc'
            cases hc'
            simp only [Option.some.injEq] at hk'
            subst hk'
            exact ⟨c, k, rfl, hcmd, rfl⟩
  · rw [Pm.Daemon.actFinish_other w id g e name hid] at hc'
    exact ⟨c', k', hc', hk', rfl⟩

theorem updCli_put_cmd (w : W) (id : Nat) (b : Bytes) (g : Nat) (c' : Cli) (k' : CmdC)
    (hc' : cliRec (updCli w id fun c => put c b) g = some c') (hk' : c'.cmd = some k') :
    ∃ c k, cliRec w g = some c ∧ c.cmd = some k ∧ k.al = k'.al := by
  by_cases hid : id = g
  · subst hid
    rw [updCli_self w id (fun c => put c b) (fun _ => rfl)] at hc'
    cases hq : cliRec w id with
    | none => rw [hq] at hc'; cases hc'
    | some c =>
      rw [hq] at hc'
      simp only [Option.map_some, Option.some.injEq] at hc'
      subst hc'
      exact ⟨c, k', rfl, hk', rfl⟩
  · rw [updCli_other w id g (fun c => put c b) (fun _ => rfl) hid] at hc'
    exact ⟨c', k', hc', hk', rfl⟩

theorem applyOut_cmd (name : Bytes) (acc : W × List String) (o : DOut) (g : Nat) (c' : Cli) (k' : CmdC)
    (hc' : cliRec (applyOut name acc o).1 g = some c') (hk' : c'.cmd = some k') :
    ∃ c k, cliRec acc.1 g = some c ∧ c.cmd = some k ∧ k.al = k'.al := by
  obtain ⟨w, msgs⟩ := acc
  cases o with
  | finish cid e => exact actFinish_cmd w cid e name g c' k' hc' hk'
  | telemetry cid t => exact updCli_put_cmd w cid _ g c' k' hc' hk'
  | diag cid t => exact updCli_put_cmd w cid _ g c' k' hc' hk'
  | sent _ => exact ⟨c', k', hc', hk', rfl⟩
  | rxMismatch _ _ => exact ⟨c', k', hc', hk', rfl⟩
  | abortAssert _ => exact ⟨c', k', hc', hk', rfl⟩

theorem foldl_applyOut_cmd (name : Bytes) (g : Nat) (outs : List DOut) : ∀ (acc : W × List String) (c1 : Cli) (k1 : CmdC),
    cliRec (outs.foldl (applyOut name) acc).1 g = some c1 → c1.cmd = some k1 →
    ∃ c k, cliRec acc.1 g = some c ∧ c.cmd = some k ∧ k.al = k1.al := by
  induction outs with
  | nil => intro acc c1 k1 h1 h2; exact ⟨c1, k1, h1, h2, rfl⟩
  | cons o r ih =>
    intro acc c1 k1 h1 h2
    rw [List.foldl_cons] at h1
    obtain ⟨c2, k2, g1, g2, g3⟩ := ih _ c1 k1 h1 h2
    obtain ⟨c0, k0, f1, f2, f3⟩ := applyOut_cmd name acc o g c2 k2 g1 g2
    exact ⟨c0, k0, f1, f2, f3.trans g3⟩

theorem applyOuts_cmd (w : W) (name : Bytes) (outs : List DOut) (g : Nat) (c' : Cli) (k' : CmdC)
    (hc' : cliRec (applyOuts w name outs).1 g = some c') (hk' : c'.cmd = some k') :
    ∃ c k, cliRec w g = some c ∧ c.cmd = some k ∧ k.al = k'.al := by
  rw [Pm.Daemon.applyOuts_eq] at hc'
  exact foldl_applyOut_cmd name g outs _ c' k' hc' hk'

theorem devPass_scope (p : PassIn) (a : DevAcc) (nd : Bytes × Dev) (rest : List (Bytes × Dev))
    (h : ArgScope (worldAt a (nd :: rest))) : ArgScope (worldAt (devPass p a nd) rest) := by
  refine h.transfer ?_ (devPass_ids_eq p a nd).2.2 ?_
  · intro g c' k' hc' hk'
    have hc' : cliRec (devPass p a nd).w g = some c' := hc'
    show ∃ c k, cliRec a.w g = some c ∧ c.cmd = some k ∧ k.al = k'.al
    cases hd : a.dead with
    | true => rw [devPass_dead _ _ _ hd] at hc'; exact ⟨c', k', hc', hk', rfl⟩
    | false =>
      rw [devPass_w p a nd hd] at hc'
      exact applyOuts_cmd (afterStep a.w (devStep p a.w a.oracle nd).1) nd.1 _ g c' k' hc' hk'
  · intro x hx b hb
    exact worldAt_devPass_keys
      (fun cid al => (cid = 0 ∧ al = 0) ∨ ∃ nd0 ∈ (worldAt a (nd :: rest)).devs, ∃ a0 ∈ nd0.2.acts, a0.clientId = cid ∧ a0.arglist = al)
      (Or.inl ⟨rfl, rfl⟩) p a nd rest (fun y hy b hb => Or.inr ⟨y, hy, b, hb, rfl, rfl⟩) x hx b hb

theorem devPass_iso (p : PassIn) (a : DevAcc) (nd : Bytes × Dev) (rest : List (Bytes × Dev))
    (h : Iso (worldAt a (nd :: rest))) : Iso (worldAt (devPass p a nd) rest) :=
  ⟨devPass_idsFresh p a nd rest h.1, devPass_scope p a nd rest h.2⟩

theorem foldl_devPass_iso (p : PassIn) (l : List (Bytes × Dev)) (a : DevAcc) (h : Iso (worldAt a l)) :
    Iso (worldAt (l.foldl (devPass p) a) []) := by
  induction l generalizing a with
  | nil => exact h
  | cons nd r ih => rw [List.foldl_cons]; exact ih _ (devPass_iso p a nd r h)

theorem ArgScope.congr {w w' : W} (h : ArgScope w) (h1 : w'.clients = w.clients) (h2 : w'.alNext = w.alNext)
    (h3 : w'.devs = w.devs) : ArgScope w' := by
  have hc : ∀ g, cliRec w' g = cliRec w g := fun g => by unfold cliRec; rw [h1]
  exact h.transfer (fun g c' k' hc' hk' => ⟨c', k', hc g ▸ hc', hk', rfl⟩) h2
    (fun nd hnd a ha => Or.inr ⟨nd, h3 ▸ hnd, a, ha, rfl, rfl⟩)

/-- **a whole pass keeps both disciplines** -/
theorem daemonPass_iso (w : W) (p : PassIn) (h : Iso w) : Iso (daemonPass w p).1 := by
  rw [daemonPass_fst]
  have h0 := cliPostPoll_iso w p.acc p.envs h
  dsimp only
  split
  · exact h0
  · have := foldl_devPass_iso p (cliPostPoll w p.acc p.envs).devs (acc0 (cliPostPoll w p.acc p.envs))
      (by rw [worldAt_acc0]; exact h0)
    exact ⟨this.1.congr rfl rfl (by simp [worldAt]), this.2.congr rfl rfl (by simp [worldAt])⟩

/-- the daemon starts in a state that satisfies both: no client, empty queues, counters at their initial values -/
theorem iso_init (w : W) (hc : w.clients = []) (hq : ∀ nd ∈ w.devs, nd.2.acts = []) (hn : 0 < w.nextId) : Iso w := by
  refine ⟨⟨by simp [ids, hc], by simp [ids, hc], by simp [ids, hc], ?_, hn⟩, ⟨?_, ?_, ?_, ?_, ?_⟩⟩
  · intro nd hnd a ha; rw [hq nd hnd] at ha; cases ha
  · intro g c k h; simp [cliRec, hc] at h
  · intro nd hnd a ha; rw [hq nd hnd] at ha; cases ha
  · intro g c k h; simp [cliRec, hc] at h
  · intro g g' c c' k k' h; simp [cliRec, hc] at h
  · intro nd hnd a ha; rw [hq nd hnd] at ha; cases ha

/-- any number of passes -/
def runPasses (w : W) (ps : List PassIn) : W := ps.foldl (fun w p => (daemonPass w p).1) w

theorem runPasses_iso (w : W) (ps : List PassIn) (h : Iso w) : Iso (runPasses w ps) := by
  unfold runPasses
  induction ps generalizing w with
  | nil => exact h
  | cons p r ih => rw [List.foldl_cons]; exact ih _ (daemonPass_iso w p h)

/-! ### `dev_initial_connect` (start-up) only adds login actions -/

/-- one step of the loop of `dev_initial_connect` -/
def icStep (now : Nat) (con soe : List Nat) (acc : W × List String × List (Bytes × Dev)) (nd : Bytes × Dev) : W × List String × List (Bytes × Dev) :=
  let (w, lines, devs) := acc
  let env := mkDevEnv w nd.2 now con soe []
  let c := Pm.Dev2.connectDev { dev := nd.2, env := env, sys := [] }
  ({ w with nsock := w.nsock + countSock c.sys, npair := w.npair + countPair c.sys, nfork := w.nfork + countFork c.sys },
   lines ++ showSys [] c.sys, devs ++ [(nd.1, c.dev)])

theorem initialConnect_eq (w : W) (now : Nat) (con soe : List Nat) :
    (initialConnect w now con soe).1 =
      { (w.devs.foldl (icStep now con soe) (w, [], [])).1 with devs := (w.devs.foldl (icStep now con soe) (w, [], [])).2.2 } := by
  unfold initialConnect icStep
  rfl

theorem foldl_icStep (S : Nat → Nat → Prop) (h0 : S 0 0) (now : Nat) (con soe : List Nat) (l : List (Bytes × Dev))
    (acc : W × List String × List (Bytes × Dev)) (hl : ∀ nd ∈ l, Keys S nd.2.acts) (ha : ∀ nd ∈ acc.2.2, Keys S nd.2.acts) :
    (l.foldl (icStep now con soe) acc).1.clients = acc.1.clients ∧ (l.foldl (icStep now con soe) acc).1.nextId = acc.1.nextId ∧
    (l.foldl (icStep now con soe) acc).1.alNext = acc.1.alNext ∧ ∀ nd ∈ (l.foldl (icStep now con soe) acc).2.2, Keys S nd.2.acts := by
  induction l generalizing acc with
  | nil => exact ⟨rfl, rfl, rfl, ha⟩
  | cons nd r ih =>
    rw [List.foldl_cons]
    obtain ⟨w, lines, devs⟩ := acc
    have := ih (icStep now con soe (w, lines, devs) nd) (fun x hx => hl x (by simp [hx])) (by
      intro x hx
      simp only [icStep, List.mem_append, List.mem_singleton] at hx
      rcases hx with hx | rfl
      · exact ha x hx
      · exact DevFrame.keys (Pm.Dev2.connectDev_devFrame { dev := nd.2, env := mkDevEnv w nd.2 now con soe [], sys := [] }) h0 (hl nd (by simp)))
    exact this

theorem initialConnect_iso (w : W) (now : Nat) (con soe : List Nat) (h : Iso w) : Iso (initialConnect w now con soe).1 := by
  rw [initialConnect_eq]
  constructor
  · obtain ⟨h1, h2, _, h4⟩ := foldl_icStep (fun cid _ => cid < w.nextId) h.1.one now con soe w.devs (w, [], [])
      (fun nd hnd a ha => h.1.acts nd hnd a ha) (by intro nd hnd; cases hnd)
    refine h.1.transfer (by unfold ids; rw [show _ = w.clients from h1]; exact List.Sublist.refl _) h2 ?_
    intro nd hnd a ha
    rw [show _ = w.nextId from h2]
    exact h4 nd hnd a ha
  · obtain ⟨h1, _, h3, h4⟩ := foldl_icStep
      (fun cid al => (cid = 0 ∧ al = 0) ∨ ∃ nd0 ∈ w.devs, ∃ a0 ∈ nd0.2.acts, a0.clientId = cid ∧ a0.arglist = al)
      (Or.inl ⟨rfl, rfl⟩) now con soe w.devs (w, [], [])
      (fun nd hnd a ha => Or.inr ⟨nd, hnd, a, ha, rfl, rfl⟩) (by intro nd hnd; cases hnd)
    have hc : ∀ g, cliRec { (w.devs.foldl (icStep now con soe) (w, [], [])).1 with devs := (w.devs.foldl (icStep now con soe) (w, [], [])).2.2 } g = cliRec w g := by
      intro g; unfold cliRec; rw [show _ = w.clients from h1]
    exact h.2.transfer (fun g c' k' hc' hk' => ⟨c', k', hc g ▸ hc', hk', rfl⟩) h3 (fun nd hnd a ha => h4 nd hnd a ha)

/-! ### what the disciplines give: only `g`'s own actions write `g`'s arglist -/

/-- under the arglist discipline, while client `g` has a command with arglist `k.al ≠ 0`: a device on which `g` has no
    action queued leaves `g`'s arglist exactly as it is — whatever the other clients' actions on that device do, even
    on the very same nodes -/
theorem devPass_result_scope (p : PassIn) (a : DevAcc) (nd : Bytes × Dev) (rest : List (Bytes × Dev)) (g : Nat) (c : Cli) (k : CmdC)
    (h : ArgScope (worldAt a (nd :: rest))) (hc : cliRec a.w g = some c) (hk : c.cmd = some k) (hal : k.al ≠ 0)
    (hq : ∀ x ∈ nd.2.acts, x.clientId ≠ g) : storeArgs (devPass p a nd).w k.al = storeArgs a.w k.al := by
  have hnd : nd ∈ (worldAt a (nd :: rest)).devs := by simp [worldAt]
  have : ∀ x ∈ nd.2.acts, x.arglist ≠ k.al := by
    intro x hx e
    by_cases h0 : x.clientId = 0
    · exact hal (e ▸ h.internal nd hnd x hx h0)
    · exact hq x hx (h.owned g c k hc hk nd hnd x hx h0 e)
  unfold storeArgs
  rw [devPass_store_cell p a nd k.al hal this]

/-- under the arglist discipline an action of somebody else (another client, or the internal login/ping) does not carry the
    arglist id of `g`'s command (`k.al ≠ 0`: see the finding about the internal actions' dummy id) -/
theorem ArgScope.foreign {w : W} (h : ArgScope w) {g : Nat} {c : Cli} {k : CmdC} (hc : cliRec w g = some c) (hk : c.cmd = some k)
    (hal : k.al ≠ 0) {nd : Bytes × Dev} (hnd : nd ∈ w.devs) {x : Action} (hx : x ∈ nd.2.acts) (hne : x.clientId ≠ g) :
    x.arglist ≠ k.al := by
  intro e
  by_cases h0 : x.clientId = 0
  · exact hal (e ▸ h.internal nd hnd x hx h0)
  · exact hne (h.owned g c k hc hk nd hnd x hx h0 e)

/-- one statement of a script, run for action `a`, writes no arglist but `a`'s own -/
theorem processStmt_own_arglist (d : Dev) (a : Action) (o : Oracle) (now : Nat) (al : Nat) (h : al ≠ a.arglist) :
    (Pm.Dev2.processStmt d a o now).dev.args.lookup al = d.args.lookup al :=
  (Pm.Dev2.processStmt_frame (fun _ => false) d a o now (fun _ _ _ _ => rfl)).cellOther al h

/-! ## 6. back-pressure: a client that does not read -/

theorem written_other (ss ext : List Sys) (fd fd0 : Nat) (h : ∀ s ∈ ext, sysFd s = some fd0) (hne : fd ≠ fd0) :
    ClientPf.written (ss ++ ext) fd = ClientPf.written ss fd := by
  rw [ClientPf.written_append]
  have : ClientPf.written ext fd = [] := by
    unfold ClientPf.written
    rw [List.flatMap_eq_nil_iff]
    intro s hs
    have hf := h s hs
    cases s with
    | write f b e bl =>
      simp only [sysFd, Option.some.injEq] at hf
      have : (f == fd) = false := by rw [hf]; simpa using fun e => hne e.symm
      simp [this]
    | accept _ => rfl
    | close _ => rfl
    | read _ _ => rfl
  rw [this, List.append_nil]

/-- one turn of the client loop logs system calls on the served client's descriptor only, and changes the write capacity
    of that descriptor only -/
theorem cliStep_sys (envs : List FdEnv) (w : W) (c0 : Cli) :
    ∃ ext, (ClientPf.cliStep envs w c0).sys = w.sys ++ ext ∧ (∀ s ∈ ext, sysFd s = some c0.fd) ∧
      ∀ fd, fd ≠ c0.fd → capOf (ClientPf.cliStep envs w c0) fd = capOf w fd := by
  rcases cliStep_cases envs w c0 with ⟨_, e⟩ | ⟨_, ext, hp, ⟨c, _, e⟩ | ⟨_, e⟩⟩
  · exact ⟨[], by rw [e]; simp, by simp, fun _ _ => by rw [e]⟩
  · exact ⟨ext, by rw [e]; exact hp.sys, hp.sysfd, fun fd hfd => by rw [e]; exact hp.caps fd hfd⟩
  · exact ⟨ext, by rw [e]; exact hp.sys, hp.sysfd, fun fd hfd => by rw [e]; exact hp.caps fd hfd⟩

/-- **frame of the client loop**: the turns of clients other than `x` (other id, other descriptor) leave `x`'s record, the
    bytes written to `x`'s descriptor and the capacity of `x`'s descriptor exactly as they are -/
theorem foldl_cliStep_frame (envs : List FdEnv) (x : Cli) (l : List Cli) (w : W) (hid : ∀ c ∈ l, c.id ≠ x.id)
    (hfd : ∀ c ∈ l, c.fd ≠ x.fd) :
    cliRec (l.foldl (ClientPf.cliStep envs) w) x.id = cliRec w x.id ∧
    ClientPf.written (l.foldl (ClientPf.cliStep envs) w).sys x.fd = ClientPf.written w.sys x.fd ∧
    capOf (l.foldl (ClientPf.cliStep envs) w) x.fd = capOf w x.fd := by
  induction l generalizing w with
  | nil => exact ⟨rfl, rfl, rfl⟩
  | cons c r ih =>
    rw [List.foldl_cons]
    obtain ⟨i1, i2, i3⟩ := ih (ClientPf.cliStep envs w c) (fun y hy => hid y (by simp [hy])) (fun y hy => hfd y (by simp [hy]))
    obtain ⟨ext, s1, s2, s3⟩ := cliStep_sys envs w c
    refine ⟨i1.trans (cliStep_other envs w c x.id (fun e => hid c (by simp) e.symm)), ?_, i3.trans (s3 x.fd (fun e => hfd c (by simp) e.symm))⟩
    rw [i2, s1]
    exact written_other w.sys ext x.fd c.fd s2 (fun e => hfd c (by simp) e.symm)

/-- in the loop of `cli_post_poll` a client's record is read and written in its own turn only: the turns before it leave
    it as it is (so the record the loop serves is the one in the table), the turns after it leave what its own turn made
    of it -/
theorem foldl_cliStep_split (envs : List FdEnv) (x : Cli) (pre post : List Cli) (w : W)
    (hpre : ∀ c ∈ pre, c.id ≠ x.id) (hpost : ∀ c ∈ post, c.id ≠ x.id) :
    cliRec (pre.foldl (ClientPf.cliStep envs) w) x.id = cliRec w x.id ∧
    cliRec ((pre ++ x :: post).foldl (ClientPf.cliStep envs) w) x.id =
      cliRec (ClientPf.cliStep envs (pre.foldl (ClientPf.cliStep envs) w) x) x.id := by
  refine ⟨foldl_cliStep_other envs x.id pre w hpre, ?_⟩
  rw [List.foldl_append, List.foldl_cons]
  exact foldl_cliStep_other envs x.id post _ hpost

/-- the turn of a client for which the pass brings nothing (no event on its descriptor — in particular it is not reported
    writable although output is waiting —, no complete request line buffered, not about to be destroyed) is the identity -/
theorem cliStep_quiet' (envs : List FdEnv) (w : W) (s : Cli) (h : IdsFresh w) (hs : s ∈ w.clients) (hq : QuietCli envs s) :
    ClientPf.cliStep envs w s = w :=
  cliStep_quiet envs w s hs hq h.unique

/-- ... so the loop of `cli_post_poll` runs exactly as if that client's turn were skipped: a client that has stopped
    reading and is silent costs the other sessions nothing in the client phase -/
theorem foldl_cliStep_skip (envs : List FdEnv) (s : Cli) (pre post : List Cli) (w : W) (h : IdsFresh w)
    (hl : ∀ c ∈ pre, c.id < w.nextId) (hs : s ∈ w.clients) (hpre : ∀ c ∈ pre, c.id ≠ s.id) (hq : QuietCli envs s) :
    (pre ++ s :: post).foldl (ClientPf.cliStep envs) w = (pre ++ post).foldl (ClientPf.cliStep envs) w := by
  rw [List.foldl_append, List.foldl_append, List.foldl_cons]
  have hmem : ∀ (l : List Cli) (w : W), s ∈ w.clients → (∀ c ∈ l, c.id ≠ s.id) → s ∈ (l.foldl (ClientPf.cliStep envs) w).clients := by
    intro l
    induction l with
    | nil => intro w hw _; exact hw
    | cons c r ih =>
      intro w hw hne
      rw [List.foldl_cons]
      exact ih _ (cliStep_mem envs w c s hw (fun e => hne c (by simp) e.symm)) (fun y hy => hne y (by simp [hy]))
  rw [cliStep_quiet' envs _ s (foldl_cliStep_ids envs pre w h hl) (hmem pre w hs hpre) hq]

/-- `_handle_write` on a non-blocking descriptor that takes nothing (the model's `cap = 0`: the `write` fails with EAGAIN and
    `cbuf_read_to_fd` returns -1): an empty write is logged and the client is marked as gone; nothing else happens -/
theorem handleWrite_stuck (w : W) (c : Cli) (hcap : capOf w c.fd = 0) (hq : c.quit = false) (hb : c.blocking = false)
    (hne : c.toBuf ≠ []) :
    handleWrite w c = ({ w with sys := w.sys ++ [Sys.write c.fd [] false false] }, { c with quit := true }) := by
  unfold handleWrite
  have he : c.toBuf.isEmpty = false := by simpa using hne
  simp [hq, hb, he, hcap]

/-- a client whose descriptor is not reported writable in this pass, and which survives the pass without having quit:
    nothing was written to its descriptor and its output buffer only grew -/
theorem clientPass_unwritable (w : W) (c : Cli) (e : Option FdEnv) (c' : Cli) (hrev : ClientPf.cpRev c e &&& 2 = 0)
    (h : (clientPass w c e).2 = some c') (hq : c'.quit = false) :
    (∃ b, c'.toBuf = c.toBuf ++ b) ∧ ClientPf.written (clientPass w c e).1.sys c.fd = ClientPf.written w.sys c.fd := by
  obtain ⟨ext, hp, hw⟩ := clientPass_iso w c e
  have hno : ∀ s ∈ ext, isWrite s = false := by
    intro s hs
    cases hws : isWrite s with
    | false => rfl
    | true => have := hw hrev c' h ⟨s, hs, hws⟩; rw [hq] at this; cases this
  obtain ⟨_, _, _, _, hbuf⟩ := hp.alive c' h
  constructor
  · rcases hbuf with hb | ⟨s, hs, hws⟩
    · exact hb
    · rw [hno s hs] at hws; cases hws
  · rw [hp.sys, ClientPf.written_append]
    have : ClientPf.written ext c.fd = [] := by
      unfold ClientPf.written
      rw [List.flatMap_eq_nil_iff]
      intro s hs
      have := hno s hs
      cases s <;> simp_all [isWrite]
    rw [this, List.append_nil]

/-- `_handle_write` for a client that has quit: the descriptor is made blocking and the *whole* buffer is handed to one
    `write`, whatever the capacity `cap ≥ 0` of the descriptor; that the daemon then sleeps in `write` (finding F23) is
    visible in the model only as the `blocks` flag of the logged call -/
theorem handleWrite_quit (w : W) (c : Cli) (hq : c.quit = true) (hne : c.toBuf ≠ []) (hcap : ¬ capOf w c.fd < 0) :
    handleWrite w c =
      (setCap { w with sys := w.sys ++ [Sys.write c.fd c.toBuf false (decide (capOf w c.fd < (c.toBuf.length : Int)))] } c.fd
         (if capOf w c.fd < (c.toBuf.length : Int) then 0 else capOf w c.fd - (c.toBuf.length : Int)),
       { c with blocking := true, toBuf := [] }) := by
  unfold handleWrite
  have he : c.toBuf.isEmpty = false := by simpa using hne
  simp [hq, he, hcap]

/-! ## example worlds for the non-vacuity examples of `Props/C11`

One device `A` with one plug (`1` ↦ node `a1`) and a `status` script (`send "st %s\n"`, `expect`, `setplugstate $1 $2`).  Two
clients connect and both ask `status a1` — the same node, at the same time. -/
namespace Two
open Pm.Dev2 (Stmt Plug Arg RxCall)

def nodeA : Bytes := [97, 49]
def plugA : Plug := { name := [49], node := some nodeA }
def statScript : List Stmt := [.send [115, 116, 32, 37, 115, 10], .expect 1, .setplugstate none 1 2 [(.on, 2), (.off, 3)]]
def scripts : Nat → Option (List Stmt) := fun k => if k == 2 then some statScript else none
def devA : Dev :=
  { plugs := [plugA], scripts := scripts, timeout := 5000000, acts := [], toBuf := [], fromBuf := [], xmStr := none, xmOffs := [],
    xmResult := false, xmUsed := false, args := [], nextUid := 1, shortCircuitDelay := false, conn := 2, loggedIn := true,
    fd := some 2000, statConnects := 1 }
/-- the daemon after start-up: no client, an empty queue -/
def w0 : W :=
  { cfg := { plugs := [], has := [], nodes := pushHost [] ['a', '1'], version := [50] }, clients := [],
    devs := [([65], devA)], nsock := 1 }
def line : Bytes := bstr "status a1\n"
/-- pass 1: a connection is accepted (client 1, descriptor 1000) -/
def p1 : PassIn := { now := 1000, acc := 1, con := [0], soe := [0], envs := [] }
/-- pass 2: a second connection is accepted (client 2, descriptor 1001); client 1 sends `status a1` -/
def p2 : PassIn := { now := 2000, acc := 1, con := [0], soe := [0], envs := [{ fd := 1000, rev := 1, rk := 0, data := line, cap := 100 }] }
/-- pass 3: client 2 sends `status a1` too; the device takes the bytes of client 1's action -/
def p3 : PassIn :=
  { now := 3000, acc := 0, con := [0], soe := [0],
    envs := [{ fd := 1001, rev := 1, rk := 0, data := line, cap := 100 }, { fd := 2000, rev := 2, rk := 0, data := [], cap := 100 }] }
/-- both requests in flight: the queue of `A` holds client 1's action (arglist 0) and client 2's (arglist 1) -/
def w3 : W := runPasses w0 [p1, p2, p3]
/-- the regex answers for the device's reply `1 on\n` -/
def xs4 : List RxCall :=
  [{ pat := 1, subject := bstr "1 on\n", answer := some [(0, 5), (0, 1), (2, 4)] }, { pat := 2, subject := bstr "on", answer := some [(0, 2)] }]
/-- pass 4: the device answers client 1's action -/
def p4 : PassIn := { now := 4000, acc := 0, con := [0], soe := [0], envs := [{ fd := 2000, rev := 1, rk := 0, data := bstr "1 on\n", cap := 100 }] }
def w3x : W := { w3 with pendingX := xs4 }
def w4 : W := (daemonPass w3x p4).1
/-- instead of pass 4: client 1's descriptor reports an error -/
def pErr : PassIn := { now := 3500, acc := 0, con := [0], soe := [0], envs := [{ fd := 1000, rev := 8, rk := 0, data := [], cap := 0 }] }
def w3d : W := (daemonPass w3 pErr).1
def w4d : W := (daemonPass { w3d with pendingX := xs4 } p4).1

theorem iso0 : Iso w0 := iso_init w0 rfl (by intro nd hnd; simp [w0] at hnd; subst hnd; rfl) (by decide)
theorem iso3 : Iso w3 := runPasses_iso w0 _ iso0

/-- the state reached: two clients, each with a `status` command on the one node `a1`, pending on one action each; the
    queue of `A` holds the two actions, stamped (1, arglist 1) and (2, arglist 2) -/
theorem reached : ids w3 = [1, 2] ∧ w3.clients.map (·.fd) = [1000, 1001] ∧
    w3.clients.map (fun c => c.cmd.map fun k => k.names) = [some [['a', '1']], some [['a', '1']]] ∧
    w3.clients.map (fun c => c.cmd.map fun k => (comIdx k.com, k.al, k.pending)) = [some (2, 1, 1), some (2, 2, 1)] ∧
    w3.devs.map (fun nd => nd.2.acts.map fun a => (a.clientId, a.arglist)) = [[(1, 1), (2, 2)]] ∧
    w3.nextId = 3 ∧ w3.alNext = 3 := by decide +kernel

end Two

end Pm.Daemon.Isolation

section AxiomChecks
open Pm.Daemon.Isolation
end AxiomChecks
