import Pm.CbufRingProof
import Pm.Cbuf
/-! Refinement proof of the index-level cbuf model, part 2a: `cbuf_grow` and the ring as a byte-wise queue (used by
`Pm/CbufRingWrite.lean`). -/
namespace Pm.CbufRing

/-! ### `cbuf_grow` -/

/-- the size `cbuf_grow (cb, n)` arrives at -/
def grownSize (r : Ring) (n : Nat) : Nat :=
  if r.size = r.maxsize then r.size else
  min (r.alloc + n + (chunk - (r.alloc + n) % chunk)) (r.maxsize + (r.alloc - r.size)) - (r.alloc - r.size)

theorem grownSize_eq_growTo (r : Ring) (n : Nat) (h : ValidP r) :
    grownSize r n = Pm.Cbuf.growTo r.size n r.maxsize := by
  unfold grownSize Pm.Cbuf.growTo
  have ha := h.alloc
  have : r.alloc - r.size = 17 := by simp [magicLen] at ha; omega
  have h2 : r.alloc = r.size + Pm.Cbuf.sizeMeta := by simp [magicLen] at ha; simp [Pm.Cbuf.sizeMeta]; omega
  by_cases hs : r.size = r.maxsize
  · simp [hs]
  · have : (r.size == r.maxsize) = false := by simp [hs]
    simp only [hs, this, ↓reduceIte, Bool.false_eq_true]
    rw [‹r.alloc - r.size = 17›, h2]
    rfl

theorem grownSize_bounds (r : Ring) (n : Nat) (h : ValidP r) (hn : 0 < n) (hs : r.size ≠ r.maxsize) :
    r.size < grownSize r n ∧ grownSize r n ≤ r.maxsize := by
  unfold grownSize
  rw [if_neg hs]
  have ha := h.alloc
  have := h.le_max
  have hc : chunk = 1000 := rfl
  have hm : (r.alloc + n) % chunk < chunk := Nat.mod_lt _ (by decide)
  simp [magicLen] at ha
  omega

/-- `realloc` to `size' + 1` slots -/
def ext (r : Ring) (m size' : Nat) : Ring :=
  { r with data := r.data ++ List.replicate (size' + 1 - r.data.length) 0, alloc := m, size := size' }

/-- the re-layout of a ring whose replay region wraps around the old end -/
def relay (r1 : Ring) (size_old : Nat) : Ring :=
  if r1.i_rep > r1.i_in then
    { r1 with data := blit r1.data (r1.size + 1 - (size_old + 1 - r1.i_rep)) ((r1.data.drop r1.i_rep).take (size_old + 1 - r1.i_rep)),
              i_out := if r1.i_out ≥ r1.i_rep then r1.i_out + (r1.size + 1 - (size_old + 1 - r1.i_rep) - r1.i_rep) else r1.i_out,
              i_rep := r1.size + 1 - (size_old + 1 - r1.i_rep) }
  else r1

theorem grow_eq (r : Ring) (n : Nat) (hs : r.size ≠ r.maxsize) :
    grow r n =
      (relay (ext r (min (r.alloc + n + (chunk - (r.alloc + n) % chunk)) (r.maxsize + (r.alloc - r.size))) (grownSize r n)) r.size,
       (relay (ext r (min (r.alloc + n + (chunk - (r.alloc + n) % chunk)) (r.maxsize + (r.alloc - r.size))) (grownSize r n)) r.size).size - r.size,
       decide (n > 0) && decide (r.alloc - r.size > 0) &&
         decide (min (r.alloc + n + (chunk - (r.alloc + n) % chunk)) (r.maxsize + (r.alloc - r.size)) > r.alloc) &&
         (relay (ext r (min (r.alloc + n + (chunk - (r.alloc + n) % chunk)) (r.maxsize + (r.alloc - r.size))) (grownSize r n)) r.size).valid) := by
  unfold grow grownSize
  rw [if_neg hs, if_neg hs]
  rfl

theorem relay_fields (r1 : Ring) (so : Nat) :
    (relay r1 so).size = r1.size ∧ (relay r1 so).alloc = r1.alloc ∧ (relay r1 so).used = r1.used ∧
    (relay r1 so).maxsize = r1.maxsize ∧ (relay r1 so).minsize = r1.minsize ∧ (relay r1 so).overwrite = r1.overwrite ∧
    (relay r1 so).i_in = r1.i_in ∧ (relay r1 so).got_wrap = r1.got_wrap := by
  unfold relay; split <;> simp

/-! index arithmetic of the re-layout, on plain numbers (`S` old size, `s'` new size, `i o p` = `i_in i_out i_rep`) -/

/-- replay region moved, read position inside it (`i < p ≤ o`: the unread data is wrapped) -/
theorem relay_arith_hi (S s' i o p u : Nat) (hs : S < s') (ho : o ≤ S) (hp : p ≤ S)
    (hc : (o ≤ i ∧ u + o = i) ∨ (i < o ∧ u + o = i + (S + 1))) (hr : p > i) (hop : o ≥ p) :
    o + (s' + 1 - (S + 1 - p) - p) ≤ s' ∧ s' + 1 - (S + 1 - p) ≤ s' ∧
    (o + (s' + 1 - (S + 1 - p) - p) ≤ i → s' + 1 - (S + 1 - p) > i ∨ s' + 1 - (S + 1 - p) ≤ o + (s' + 1 - (S + 1 - p) - p)) ∧
    (i < o + (s' + 1 - (S + 1 - p) - p) → s' + 1 - (S + 1 - p) > i ∧ s' + 1 - (S + 1 - p) ≤ o + (s' + 1 - (S + 1 - p) - p)) ∧
    s' - u = (o + (s' + 1 - (S + 1 - p) - p) + (s' + 1) - i - 1) % (s' + 1) := by
  have m := mod2 (o + (s' + 1 - (S + 1 - p) - p) + (s' + 1) - i - 1) (s' + 1) (by omega)
  rcases hc with ⟨c1, c2⟩ | ⟨c1, c2⟩
  · omega
  · rcases m with ⟨m1, m2⟩ | ⟨m1, m2⟩ <;> omega

/-- replay region moved, read position before it (`o ≤ i < p`) -/
theorem relay_arith_lo (S s' i o p u : Nat) (hs : S < s') (hi : i ≤ S) (hp : p ≤ S)
    (hc : (o ≤ i ∧ u + o = i) ∨ (i < o ∧ u + o = i + (S + 1))) (r2 : i < o → p > i ∧ p ≤ o) (hr : p > i) (hop : ¬ o ≥ p) :
    s' + 1 - (S + 1 - p) ≤ s' ∧
    (o ≤ i → s' + 1 - (S + 1 - p) > i ∨ s' + 1 - (S + 1 - p) ≤ o) ∧
    (i < o → s' + 1 - (S + 1 - p) > i ∧ s' + 1 - (S + 1 - p) ≤ o) ∧
    s' - u = (o + (s' + 1) - i - 1) % (s' + 1) := by
  have m := mod2 (o + (s' + 1) - i - 1) (s' + 1) (by omega)
  rcases hc with ⟨c1, c2⟩ | ⟨c1, c2⟩
  · rcases m with ⟨m1, m2⟩ | ⟨m1, m2⟩ <;> omega
  · omega

/-- nothing moved (`p ≤ i`, hence `o ≤ i`) -/
theorem relay_arith_stay (S s' i o p u : Nat) (hs : S < s') (hi : i ≤ S)
    (hc : (o ≤ i ∧ u + o = i) ∨ (i < o ∧ u + o = i + (S + 1))) (r2 : i < o → p > i ∧ p ≤ o) (hr : ¬ p > i) :
    s' - u = (o + (s' + 1) - i - 1) % (s' + 1) := by
  have m := mod2 (o + (s' + 1) - i - 1) (s' + 1) (by omega)
  rcases hc with ⟨c1, c2⟩ | ⟨c1, c2⟩
  · rcases m with ⟨m1, m2⟩ | ⟨m1, m2⟩ <;> omega
  · omega

/-- where the `t`-th unread byte is before and after the move, read position inside the moved region -/
theorem relay_slot_hi (S s' i o p u t : Nat) (hs : S < s') (ho : o ≤ S)
    (hc : (o ≤ i ∧ u + o = i) ∨ (i < o ∧ u + o = i + (S + 1))) (hr : p > i) (hop : o ≥ p) (ht : t < u) :
    (o + t < S + 1 → (o + (s' + 1 - (S + 1 - p) - p) + t) % (s' + 1) = o + t + (s' - S) ∧ (o + t) % (S + 1) = o + t) ∧
    (¬ o + t < S + 1 → (o + (s' + 1 - (S + 1 - p) - p) + t) % (s' + 1) = o + t - (S + 1) ∧
      (o + t) % (S + 1) = o + t - (S + 1) ∧ o + t - (S + 1) < p) := by
  have m1 := mod2 (o + (s' + 1 - (S + 1 - p) - p) + t) (s' + 1) (by omega)
  have m2 := mod2 (o + t) (S + 1) (by omega)
  rcases hc with ⟨c1, c2⟩ | ⟨c1, c2⟩
  · omega
  · rcases m1 with ⟨a1, a2⟩ | ⟨a1, a2⟩ <;> rcases m2 with ⟨b1, b2⟩ | ⟨b1, b2⟩ <;> omega

/-- the same when the unread bytes do not wrap (`o ≤ i`) -/
theorem relay_slot_flat (S s' i o u t : Nat) (hs : S < s') (hi : i ≤ S)
    (hc : (o ≤ i ∧ u + o = i) ∨ (i < o ∧ u + o = i + (S + 1))) (hoi : o ≤ i) (ht : t < u) :
    (o + t) % (s' + 1) = o + t ∧ (o + t) % (S + 1) = o + t ∧ o + t < i := by
  have m1 := mod2 (o + t) (s' + 1) (by omega)
  have m2 := mod2 (o + t) (S + 1) (by omega)
  rcases hc with ⟨c1, c2⟩ | ⟨c1, c2⟩
  · rcases m1 with ⟨a1, a2⟩ | ⟨a1, a2⟩ <;> rcases m2 with ⟨b1, b2⟩ | ⟨b1, b2⟩ <;> omega
  · omega

/-- after `realloc` and re-layout the ring is valid again and holds the same unread bytes -/
theorem relay_ext_spec (r : Ring) (m s' : Nat) (h : ValidP r) (hs : r.size < s') (hmax : s' ≤ r.maxsize)
    (hm : m = s' + 1 + 2 * magicLen) :
    ValidP (relay (ext r m s') r.size) ∧ (relay (ext r m s') r.size).contents = r.contents := by
  have ⟨h1, h2, h5, h6, h7, h8, h9, h10, h11, h12, h13, h14, h15, h16⟩ := h
  have hc := h.used_cases
  have hlen : (ext r m s').data.length = s' + 1 := by simp [ext]; omega
  have hs0 : 0 < s' := by omega
  have hmin : r.minsize ≤ s' := by omega
  have hus : r.used ≤ s' := by omega
  have his : r.i_in ≤ s' := by omega
  have hv : ValidP (relay (ext r m s') r.size) := by
    unfold relay
    by_cases hr : (ext r m s').i_rep > (ext r m s').i_in
    · rw [if_pos hr]
      simp only [ext] at hr hlen ⊢
      have hgw : r.got_wrap = true := by rcases h10 with h | h; exact h; omega
      have hbl := blit_length (r.data ++ List.replicate (s' + 1 - r.data.length) 0) (s' + 1 - (r.size + 1 - r.i_rep))
        ((List.drop r.i_rep (r.data ++ List.replicate (s' + 1 - r.data.length) 0)).take (r.size + 1 - r.i_rep)) (by simp; omega)
      by_cases ho : r.i_out ≥ r.i_rep
      · simp only [ho, ↓reduceIte]
        obtain ⟨a1, a2, a3, a4, a5⟩ := relay_arith_hi r.size s' r.i_in r.i_out r.i_rep r.used hs h12 h13 hc hr ho
        exact ⟨by rw [hbl]; exact hlen, hm, hs0, hmin, hmax, h8, hus, Or.inl hgw, his, a1, a2, a3, a4, a5⟩
      · simp only [ho, ↓reduceIte]
        obtain ⟨a2, a3, a4, a5⟩ := relay_arith_lo r.size s' r.i_in r.i_out r.i_rep r.used hs h11 h13 hc h15 hr ho
        exact ⟨by rw [hbl]; exact hlen, hm, hs0, hmin, hmax, h8, hus, Or.inl hgw, his, by dsimp only; omega, a2, a3, a4, a5⟩
    · rw [if_neg hr]
      simp only [ext] at hr hlen ⊢
      exact ⟨hlen, hm, hs0, hmin, hmax, h8, hus, h10, his, by dsimp only; omega, by dsimp only; omega, h14, h15,
        relay_arith_stay r.size s' r.i_in r.i_out r.i_rep r.used hs h11 hc h15 hr⟩
  refine ⟨hv, ?_⟩
  rw [hv.contents_eq, h.contents_eq]
  have hf := relay_fields (ext r m s') r.size
  rw [hf.1, hf.2.2.1]
  have e0 : (ext r m s').size = s' := rfl
  have e00 : (ext r m s').used = r.used := rfl
  rw [e0, e00]
  apply rslice_congr
  intro t ht
  have hext : ∀ j, j < r.size + 1 → (r.data ++ List.replicate (s' + 1 - r.data.length) 0).getD j 0 = r.data.getD j 0 := by
    intro j hj
    simp only [List.getD_eq_getElem?_getD]
    rw [List.getElem?_append_left (by omega)]
  unfold relay
  by_cases hr : (ext r m s').i_rep > (ext r m s').i_in
  · rw [if_pos hr]
    simp only [ext] at hr ⊢
    rw [getD_blit _ _ _ (by simp; omega)]
    simp only [List.length_take, List.length_drop, List.length_append, List.length_replicate]
    have hk : min (r.size + 1 - r.i_rep) (r.data.length + (s' + 1 - r.data.length) - r.i_rep) = r.size + 1 - r.i_rep := by omega
    rw [hk]
    by_cases ho : r.i_out ≥ r.i_rep
    · simp only [ho, ↓reduceIte]
      obtain ⟨q1, q2⟩ := relay_slot_hi r.size s' r.i_in r.i_out r.i_rep r.used t hs h12 hc hr ho ht
      by_cases hw : r.i_out + t < r.size + 1
      · -- before the old end: the byte was moved
        obtain ⟨e1, e2⟩ := q1 hw
        rw [e1, e2, if_pos (by omega)]
        simp only [List.getD_eq_getElem?_getD, List.getElem?_take, List.getElem?_drop]
        rw [if_pos (by omega), List.getElem?_append_left (by omega)]
        congr 2; omega
      · -- after the wrap: the byte stays at the front
        obtain ⟨e1, e2, e3⟩ := q2 hw
        rw [e1, e2, if_neg (by omega)]
        exact hext _ (by omega)
    · simp only [ho, ↓reduceIte]
      have hoi : r.i_out ≤ r.i_in := by
        rcases Nat.lt_or_ge r.i_in r.i_out with hh | hh
        · have := (h15 hh).2; omega
        · exact hh
      obtain ⟨e1, e2, e3⟩ := relay_slot_flat r.size s' r.i_in r.i_out r.used t hs h11 hc hoi ht
      rw [e1, e2, if_neg (by omega)]
      exact hext _ (by omega)
  · rw [if_neg hr]
    simp only [ext] at hr ⊢
    have hoi : r.i_out ≤ r.i_in := by
      rcases Nat.lt_or_ge r.i_in r.i_out with hh | hh
      · have := (h15 hh).1; omega
      · exact hh
    obtain ⟨e1, e2, e3⟩ := relay_slot_flat r.size s' r.i_in r.i_out r.used t hs h11 hc hoi ht
    rw [e1, e2]
    exact hext _ (by omega)

/-- `cbuf_grow (cb, n)` on a valid ring with `n > 0`: the result is valid, no assertion fires, the unread bytes are the
    same, the new size is `grownSize` (= `Pm.Cbuf.growTo`), the return value is the difference, and nothing else moves. -/
theorem grow_spec (r : Ring) (n : Nat) (h : ValidP r) (hn : 0 < n) :
    ValidP (grow r n).1 ∧ (grow r n).2.2 = true ∧ (grow r n).1.contents = r.contents ∧
    (grow r n).1.size = grownSize r n ∧ (grow r n).2.1 = grownSize r n - r.size ∧
    (grow r n).1.used = r.used ∧ (grow r n).1.maxsize = r.maxsize ∧ (grow r n).1.minsize = r.minsize ∧
    (grow r n).1.overwrite = r.overwrite ∧ (grow r n).1.i_in = r.i_in := by
  by_cases hs : r.size = r.maxsize
  · have e : grow r n = (r, 0, decide (n > 0)) := by unfold grow; rw [if_pos hs]
    have g : grownSize r n = r.size := by unfold grownSize; rw [if_pos hs]
    rw [e, g]
    simp [h, hn]
  · rw [grow_eq r n hs]
    dsimp only
    have hb := grownSize_bounds r n h hn hs
    have ha := h.alloc
    have hmeta : r.alloc - r.size = 1 + 2 * magicLen := by omega
    have hM : min (r.alloc + n + (chunk - (r.alloc + n) % chunk)) (r.maxsize + (r.alloc - r.size)) = grownSize r n + 1 + 2 * magicLen := by
      have hg : grownSize r n = min (r.alloc + n + (chunk - (r.alloc + n) % chunk)) (r.maxsize + (r.alloc - r.size)) - (r.alloc - r.size) := by
        unfold grownSize; rw [if_neg hs]
      have hc : chunk = 1000 := rfl
      have hm : (r.alloc + n) % chunk < chunk := Nat.mod_lt _ (by decide)
      have := h.le_max
      simp only [magicLen] at hmeta ha ⊢
      omega
    rw [hM]
    have hsp := relay_ext_spec r (grownSize r n + 1 + 2 * magicLen) (grownSize r n) h hb.1 hb.2 rfl
    have hf := relay_fields (ext r (grownSize r n + 1 + 2 * magicLen) (grownSize r n)) r.size
    refine ⟨hsp.1, ?_, hsp.2, hf.1, by rw [hf.1]; rfl, hf.2.2.1, hf.2.2.2.1, hf.2.2.2.2.1, hf.2.2.2.2.2.1, hf.2.2.2.2.2.2.1⟩
    simp only [Bool.and_eq_true, decide_eq_true_eq]
    refine ⟨⟨⟨hn, by omega⟩, by simp only [magicLen] at ha ⊢; omega⟩, (valid_iff _).mpr hsp.1⟩

/-! ### the ring as a byte-wise queue: one byte at a time -/

/-- the part of a ring that the unread bytes depend on: the array, the read position, the count (the write position is
    `(o + u) % N`) -/
structure AR where
  data : List UInt8
  o : Nat
  u : Nat

/-- store one byte at the write position; a full ring (`u = N - 1`) loses its oldest byte -/
def AR.step (N : Nat) (a : AR) (b : UInt8) : AR :=
  if a.u < N - 1 then { data := a.data.set ((a.o + a.u) % N) b, o := a.o, u := a.u + 1 }
  else { data := a.data.set ((a.o + a.u) % N) b, o := (a.o + 1) % N, u := a.u }

def AR.steps (N : Nat) (a : AR) (bs : List UInt8) : AR := bs.foldl (AR.step N) a

def AR.cont (N : Nat) (a : AR) : List UInt8 := rslice a.data N a.o a.u

structure AR.Inv (N : Nat) (a : AR) : Prop where
  len : a.data.length = N
  o_lt : a.o < N
  u_le : a.u ≤ N - 1
  two : 2 ≤ N

theorem getD_set_ne (data : List UInt8) (i j : Nat) (b : UInt8) (h : i ≠ j) : (data.set i b).getD j 0 = data.getD j 0 := by
  simp only [List.getD_eq_getElem?_getD, List.getElem?_set, h, ↓reduceIte]

theorem getD_set_eq (data : List UInt8) (i : Nat) (b : UInt8) (h : i < data.length) : (data.set i b).getD i 0 = b := by
  simp [List.getD_eq_getElem?_getD, h]

theorem AR.step_inv (N : Nat) (a : AR) (b : UInt8) (h : a.Inv N) : (a.step N b).Inv N := by
  have ⟨h1, h2, h3, h4⟩ := h
  unfold AR.step
  split
  · exact ⟨by simp [h1], h2, by dsimp only; omega, h4⟩
  · exact ⟨by simp [h1], Nat.mod_lt _ (by omega), h3, h4⟩

theorem AR.step_cont (N : Nat) (a : AR) (b : UInt8) (h : a.Inv N) :
    (a.step N b).cont N = (a.cont N ++ [b]).drop (if a.u < N - 1 then 0 else 1) := by
  have ⟨h1, h2, h3, h4⟩ := h
  have hi : (a.o + a.u) % N < a.data.length := by rw [h1]; exact Nat.mod_lt _ (by omega)
  unfold AR.step AR.cont
  by_cases hu : a.u < N - 1
  · simp only [hu, ↓reduceIte, List.drop_zero]
    rw [rslice_succ, getD_set_eq _ _ _ hi]
    congr 1
    apply rslice_congr
    intro k hk
    apply getD_set_ne
    have := mod2 (a.o + a.u) N (by omega)
    have := mod2 (a.o + k) N (by omega)
    omega
  · simp only [hu, ↓reduceIte]
    have hm0 := mod2 (a.o + 1) N (by omega)
    rw [List.drop_append_of_le_length (by simp; omega), rslice_drop]
    have hsucc := rslice_succ (a.data.set ((a.o + a.u) % N) b) N ((a.o + 1) % N) (a.u - 1)
    rw [show a.u - 1 + 1 = a.u from by omega] at hsucc
    rw [hsucc]
    have e1 : ((a.o + 1) % N + (a.u - 1)) % N = (a.o + a.u) % N := by
      rw [mod_add_mod']; congr 1; omega
    rw [e1, getD_set_eq _ _ _ hi]
    congr 1
    apply rslice_congr
    intro k hk
    apply getD_set_ne
    have := mod2 (a.o + a.u) N (by omega)
    have := mod2 ((a.o + 1) % N + k) N (by omega)
    omega

theorem AR.step_pos (N : Nat) (a : AR) (b : UInt8) (h : a.Inv N) :
    ((a.step N b).o + (a.step N b).u) % N = ((a.o + a.u) % N + 1) % N := by
  have ⟨h1, h2, h3, h4⟩ := h
  unfold AR.step
  split
  · dsimp only; rw [mod_succ_mod]; congr 1
  · dsimp only; rw [mod_add_mod', mod_succ_mod]; congr 1; omega

theorem AR.steps_spec (N : Nat) (a : AR) (bs : List UInt8) (h : a.Inv N) :
    (a.steps N bs).Inv N ∧
    (a.steps N bs).cont N = (a.cont N ++ bs).drop (a.u + bs.length - min (a.u + bs.length) (N - 1)) ∧
    (a.steps N bs).u = min (a.u + bs.length) (N - 1) ∧
    (a.steps N bs).data = pokes a.data N ((a.o + a.u) % N) bs ∧
    ((a.steps N bs).o + (a.steps N bs).u) % N = ((a.o + a.u) % N + bs.length) % N ∧
    (a.u + bs.length ≤ N - 1 → (a.steps N bs).o = a.o) := by
  induction bs generalizing a with
  | nil =>
    have ⟨h1, h2, h3, h4⟩ := h
    refine ⟨h, ?_, ?_, rfl, ?_, fun _ => rfl⟩
    · have : a.u - min a.u (N - 1) = 0 := by omega
      simp [AR.steps, this]
    · simp [AR.steps]; omega
    · simp [AR.steps]
  | cons b bs ih =>
    have ⟨h1, h2, h3, h4⟩ := h
    have hs := AR.step_inv N a b h
    obtain ⟨i1, i2, i3, i4, i5, i6⟩ := ih (a.step N b) hs
    have e : a.steps N (b :: bs) = (a.step N b).steps N bs := rfl
    rw [e]
    have hsu : (a.step N b).u = if a.u < N - 1 then a.u + 1 else a.u := by unfold AR.step; split <;> rfl
    refine ⟨i1, ?_, ?_, ?_, ?_, ?_⟩
    · rw [i2, AR.step_cont N a b h, hsu]
      have hcl : (a.cont N).length = a.u := by simp [AR.cont]
      by_cases hu : a.u < N - 1
      · simp only [hu, ↓reduceIte, List.drop_zero, List.length_cons]
        have e1 : a.cont N ++ [b] ++ bs = a.cont N ++ b :: bs := by simp
        rw [e1]
        congr 1; omega
      · simp only [hu, ↓reduceIte, List.length_cons]
        have e1 : a.cont N ++ [b] ++ bs = a.cont N ++ b :: bs := by simp
        rw [← List.drop_append_of_le_length (by simp), List.drop_drop, e1]
        congr 1; omega
    · rw [i3, hsu]; simp only [List.length_cons]; split <;> omega
    · rw [i4]
      have hd : (a.step N b).data = a.data.set ((a.o + a.u) % N) b := by unfold AR.step; split <;> rfl
      rw [hd, AR.step_pos N a b h]
      rfl
    · rw [i5, AR.step_pos N a b h, mod_add_mod']
      simp only [List.length_cons]
      congr 1; omega
    · intro hle
      simp only [List.length_cons] at hle
      have hu : a.u < N - 1 := by omega
      rw [i6 (by rw [hsu]; simp only [hu, ↓reduceIte]; omega)]
      unfold AR.step; simp only [hu, ↓reduceIte]

end Pm.CbufRing
