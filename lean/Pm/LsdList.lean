/-! # liblsd's list (`liblsd/list.c`) at node level

A mirror of `list.c`, one definition per C function, with the nodes *as memory cells with addresses*: the node memory is an
array of cells `(data, next)`; a node pointer (`ListNode`) is an index into it (`none` = `NULL`); a pointer to a node pointer
(`ListNode *`: `l->tail`, `i->prev`, the `pp` arguments of `list_node_create` / `list_node_destroy`, `pp` / `ppPrev` / `ppPos` of
`list_sort`) is a `Ref`: the address of `l->head` or the address of the `next` field of a cell.  The iterators registered with
the list (`l->iNext` chain) are carried with their `pos` / `prev` and are patched by `list_node_create` / `list_node_destroy`
exactly as in C.  The per-process free list of nodes (`list_free_nodes`, LIFO, refilled in chunks of `LIST_ALLOC` = 32 cells)
is modelled, so that a node address is reused exactly when the C code reuses it.

Conventions.
* Data pointers (`void *`) are values of an arbitrary type `α`; a cell holds `Option α` (`none` = `NULL`, also the content
  of fresh memory).  `assert (x != NULL)` is therefore true by typing.
* Every function returns an `Option`: `none` = the C code would die here — an `assert` fires (the only structural one is
  `assert ((i->pos == *i->prev) || (i->pos == (*i->prev)->next))` in the two node functions; the `magic` assertions become
  "the iterator handle is registered"), or a `NULL` / wild pointer is dereferenced, or a loop does not end (fuel; in valid
  states the fuel provably suffices: `Pm/LsdListProof.lean`).
* `malloc` succeeds.  `list_node_free` leaves the cell as it is (in C its first word, `data`, is overwritten by the free-list
  link; nothing reads it).  The free lists of list headers and of iterator structs are not modelled (an iterator is named by a
  handle chosen by the caller); threads (`WITH_PTHREADS`) are not modelled.  `l->count` is a natural number.
* Callbacks (`ListFindF`, `ListForF`, `ListCmpF`, with their `key` / `arg` closed over) are pure functions: a callback that
  itself modifies the list is outside the model.  `fDel` is a flag; the functions that call it return the items it was called on.
* No proofs in this file.  It is compared with the real `list.c` by `harness/u_list.c` / `lib/listlayer.py` (driver `LlMain.lean`). -/
namespace Pm.LsdList

/-- `LIST_ALLOC` -/
def listAlloc : Nat := 32

/-- `struct listNode` -/
structure Cell (α : Type) where
  data : Option α
  next : Option Nat
  deriving Repr

/-- a `ListNode *`: `&l->head` or `&p->next` -/
inductive Ref where
  | head
  | next (p : Nat)
  deriving DecidableEq, Repr, Inhabited

/-- `struct listIterator` (without `list`, `iNext`, `magic`) -/
structure Iter where
  pos : Option Nat
  prev : Ref
  deriving DecidableEq, Repr, Inhabited

/-- the node memory and `list_free_nodes` (they outlive a list) -/
structure Heap (α : Type) where
  cells : Array (Cell α)
  free : List Nat

/-- `struct list`, together with the node memory and the iterator chain `l->iNext` (newest first), each iterator under the
    handle its creator chose -/
structure LList (α : Type) where
  cells : Array (Cell α)
  free : List Nat
  head : Option Nat
  tail : Ref
  count : Nat
  iters : List (Nat × Iter)
  fdel : Bool

variable {α : Type}

/-- `*r` (`none`: `r` is not the address of anything) -/
def load (l : LList α) : Ref → Option (Option Nat)
  | .head => some l.head
  | .next p => (l.cells[p]?).map (·.next)

/-- `*r = v` -/
def store (l : LList α) (r : Ref) (v : Option Nat) : Option (LList α) :=
  match r with
  | .head => some { l with head := v }
  | .next p =>
    match l.cells[p]? with
    | none => none
    | some c => some { l with cells := l.cells.setIfInBounds p { c with next := v } }

/-- `*r` when it must not be `NULL` (it is dereferenced next) -/
def ptr (l : LList α) (r : Ref) : Option Nat :=
  match load l r with
  | some (some p) => some p
  | _ => none

/-- `p->data` when it must not be `NULL` (it is handed to a callback) -/
def dataOf (l : LList α) (p : Nat) : Option α :=
  match l.cells[p]? with
  | some c => c.data
  | none => none

/-- `(*r)->data` -/
def dataAt (l : LList α) (r : Ref) : Option α :=
  match ptr l r with
  | some p => dataOf l p
  | none => none

/-- `list_node_alloc` (`list_alloc_aux`): the first cell of the free list; an empty free list is first refilled with a chunk
    of `LIST_ALLOC` fresh cells, chained in address order -/
def nodeAlloc (l : LList α) : Nat × LList α :=
  match l.free with
  | p :: rest => (p, { l with free := rest })
  | [] =>
    let n := l.cells.size
    (n, { l with cells := l.cells ++ Array.replicate listAlloc { data := none, next := none },
                 free := (List.range (listAlloc - 1)).map (fun k => n + 1 + k) })

/-- `list_node_free` -/
def nodeFree (l : LList α) (p : Nat) : LList α := { l with free := p :: l.free }

/-- `assert ((i->pos == *i->prev) || (i->pos == (*i->prev)->next))` -/
def iterAssert (l : LList α) (i : Iter) : Bool :=
  match load l i.prev with
  | none => false
  | some a =>
    if i.pos = a then true else
    match a with
    | none => false
    | some n => load l (.next n) == some i.pos

/-- the body of the iterator loop of `list_node_create` -/
def fixCreate (pp : Ref) (p : Nat) (pnext : Option Nat) (i : Iter) : Iter :=
  if i.prev = pp then { i with prev := .next p }
  else if i.pos = pnext then { i with pos := some p }
  else i

/-- the body of the iterator loop of `list_node_destroy` -/
def fixDestroy (pp : Ref) (p : Nat) (pnext : Option Nat) (i : Iter) : Iter :=
  if i.pos = some p then { pos := pnext, prev := pp }
  else if i.prev = .next p then { i with prev := pp }
  else i

/-- `for (i=l->iNext; i; i=i->iNext) { fix-up; assert }` -/
def fixIters (l : LList α) (fix : Iter → Iter) : List (Nat × Iter) → Option (List (Nat × Iter))
  | [] => some []
  | (k, i) :: rest =>
    if iterAssert l (fix i) then (fixIters l fix rest).map ((k, fix i) :: ·) else none

/-- `list_node_create (l, pp, x)` -/
def nodeCreate (l : LList α) (pp : Ref) (x : α) : Option (LList α) :=
  let (p, l1) := nodeAlloc l
  match load l1 pp with
  | none => none
  | some pnext =>
    let l2 := { l1 with cells := l1.cells.setIfInBounds p { data := some x, next := pnext } }
    let l3 := if pnext.isNone then { l2 with tail := .next p } else l2
    match store l3 pp (some p) with
    | none => none
    | some l4 =>
      let l5 := { l4 with count := l4.count + 1 }
      match fixIters l5 (fixCreate pp p pnext) l5.iters with
      | none => none
      | some its => some { l5 with iters := its }

/-- `list_node_destroy (l, pp)`: the data of the removed node (`NULL` when `*pp` is `NULL`) -/
def nodeDestroy (l : LList α) (pp : Ref) : Option (Option α × LList α) :=
  match load l pp with
  | none => none
  | some none => some (none, l)
  | some (some p) =>
    match l.cells[p]? with
    | none => none
    | some c =>
      match store l pp c.next with
      | none => none
      | some l1 =>
        let l2 := if c.next.isNone then { l1 with tail := pp } else l1
        let l3 := { l2 with count := l2.count - 1 }
        match fixIters l3 (fixDestroy pp p c.next) l3.iters with
        | none => none
        | some its => some (c.data, nodeFree { l3 with iters := its } p)

/-! ## general-purpose functions -/

/-- `list_create (f)` on the given node memory -/
def create (h : Heap α) (fdel : Bool) : LList α :=
  { cells := h.cells, free := h.free, head := none, tail := .head, count := 0, iters := [], fdel := fdel }

/-- the node loop of `list_destroy` -/
def destroyLoop : Nat → LList α → Option Nat → List α → Option (List α × LList α)
  | _, l, none, del => some (del, l)
  | 0, _, some _, _ => none
  | fuel + 1, l, some p, del =>
    match l.cells[p]? with
    | none => none
    | some c =>
      destroyLoop fuel (nodeFree l p) c.next (match c.data with | some d => if l.fdel then del ++ [d] else del | none => del)

/-- `list_destroy`: the items `fDel` was called on, and the node memory -/
def destroy (l : LList α) : Option (List α × Heap α) :=
  match destroyLoop (l.cells.size + 1) l l.head [] with
  | none => none
  | some (del, l') => some (del, { cells := l'.cells, free := l'.free })

/-- `list_is_empty` -/
def isEmpty (l : LList α) : Bool := l.count == 0

/-- `list_count` -/
def countOf (l : LList α) : Nat := l.count

/-- `list_append` -/
def append (l : LList α) (x : α) : Option (LList α) := nodeCreate l l.tail x

/-- `list_prepend` -/
def prepend (l : LList α) (x : α) : Option (LList α) := nodeCreate l .head x

/-- the loop of `list_find_first` -/
def findFirstLoop (l : LList α) (f : α → Bool) : Nat → Option Nat → Option (Option α)
  | _, none => some none
  | 0, some _ => none
  | fuel + 1, some p =>
    match l.cells[p]? with
    | none => none
    | some c =>
      match c.data with
      | none => none
      | some d => if f d then some (some d) else findFirstLoop l f fuel c.next

/-- `list_find_first (l, f, key)` -/
def findFirst (l : LList α) (f : α → Bool) : Option (Option α) := findFirstLoop l f (l.cells.size + 1) l.head

/-- the loop of `list_delete_all`: count so far, items handed to `fDel` so far -/
def deleteAllLoop (f : α → Bool) : Nat → LList α → Ref → Nat → List α → Option (Nat × List α × LList α)
  | 0, _, _, _, _ => none
  | fuel + 1, l, pp, n, del =>
    match load l pp with
    | none => none
    | some none => some (n, del, l)
    | some (some p) =>
      match dataOf l p with
      | none => none
      | some d =>
        if f d then
          match nodeDestroy l pp with
          | none => none
          | some (some v, l') => deleteAllLoop f fuel l' pp (n + 1) (if l.fdel then del ++ [v] else del)
          | some (none, l') => deleteAllLoop f fuel l' pp n del
        else deleteAllLoop f fuel l (.next p) n del

/-- `list_delete_all (l, f, key)`: the count, the items `fDel` was called on -/
def deleteAll (l : LList α) (f : α → Bool) : Option (Nat × List α × LList α) :=
  deleteAllLoop f (l.cells.size + 1) l .head 0 []

/-- the loop of `list_for_each` -/
def forEachLoop (l : LList α) (f : α → Int) : Nat → Option Nat → Int → Option Int
  | _, none, n => some n
  | 0, some _, _ => none
  | fuel + 1, some p, n =>
    match l.cells[p]? with
    | none => none
    | some c =>
      match c.data with
      | none => none
      | some d => if f d < 0 then some (-(n + 1)) else forEachLoop l f fuel c.next (n + 1)

/-- `list_for_each (l, f, arg)` -/
def forEach (l : LList α) (f : α → Int) : Option Int := forEachLoop l f (l.cells.size + 1) l.head 0

/-- the inner loop of `list_sort`: `while (f ((*pp)->data, (*ppPos)->data) >= 0) ppPos = &(*ppPos)->next;` (`x` = `(*pp)->data`) -/
def sortFindPos (l : LList α) (f : α → α → Int) (x : α) : Nat → Ref → Option Ref
  | 0, _ => none
  | fuel + 1, ppPos =>
    match ptr l ppPos with
    | none => none
    | some q =>
      match dataOf l q with
      | none => none
      | some y => if f x y ≥ 0 then sortFindPos l f x fuel (.next q) else some ppPos

/-- `pTmp = (*pp)->next; (*pp)->next = *ppPos; *ppPos = *pp; *pp = pTmp;` -/
def sortMove (l : LList α) (pp ppPos : Ref) : Option (LList α) :=
  match ptr l pp with
  | none => none
  | some q =>
    match load l (.next q), load l ppPos with
    | some pTmp, some a =>
      match store l (.next q) a with
      | none => none
      | some l1 =>
        match store l1 ppPos (some q) with
        | none => none
        | some l2 => store l2 pp pTmp
    | _, _ => none

/-- the outer loop of `list_sort`: the list and the final `pp` -/
def sortLoop (f : α → α → Int) : Nat → LList α → Ref → Ref → Option (LList α × Ref)
  | 0, _, _, _ => none
  | fuel + 1, l, ppPrev, pp =>
    match load l pp with
    | none => none
    | some none => some (l, pp)
    | some (some q) =>
      match dataOf l q, dataAt l ppPrev with
      | some x, some y =>
        if f x y < 0 then
          match sortFindPos l f x (l.cells.size + 1) .head with
          | none => none
          | some ppPos =>
            match sortMove l pp ppPos with
            | none => none
            | some l' =>
              if ppPrev = ppPos then
                match ptr l' ppPrev with
                | none => none
                | some r => sortLoop f fuel l' (.next r) pp
              else sortLoop f fuel l' ppPrev pp
        else sortLoop f fuel l pp (.next q)
      | _, _ => none

/-- `list_sort (l, f)` -/
def sort (l : LList α) (f : α → α → Int) : Option (LList α) :=
  if l.count > 1 then
    match ptr l .head with
    | none => none
    | some h =>
      match sortLoop f (l.cells.size + 1) l .head (.next h) with
      | none => none
      | some (l', pp) =>
        some { l' with tail := pp, iters := l'.iters.map (fun ki => (ki.1, { pos := l'.head, prev := .head })) }
  else some l

/-! ## stack and queue access -/

/-- `list_push` -/
def push (l : LList α) (x : α) : Option (LList α) := nodeCreate l .head x

/-- `list_pop` -/
def pop (l : LList α) : Option (Option α × LList α) := nodeDestroy l .head

/-- `list_peek` -/
def peek (l : LList α) : Option (Option α) :=
  match l.head with
  | none => some none
  | some p => (l.cells[p]?).map (·.data)

/-- `list_enqueue` -/
def enqueue (l : LList α) (x : α) : Option (LList α) := nodeCreate l l.tail x

/-- `list_dequeue` -/
def dequeue (l : LList α) : Option (Option α × LList α) := nodeDestroy l .head

/-! ## iterators -/

/-- the registered iterator with handle `k` (`assert (i->magic == LIST_MAGIC)`) -/
def iterOf (l : LList α) (k : Nat) : Option Iter := l.iters.lookup k

/-- `*i = v` for the registered iterator with handle `k` -/
def setIter (l : LList α) (k : Nat) (v : Iter) : LList α :=
  { l with iters := l.iters.map (fun ki => if ki.1 = k then (k, v) else ki) }

/-- `list_iterator_create (l)`; the new iterator gets the handle `k` -/
def iteratorCreate (l : LList α) (k : Nat) : LList α :=
  { l with iters := (k, { pos := l.head, prev := .head }) :: l.iters }

/-- `list_iterator_reset (i)` -/
def iteratorReset (l : LList α) (k : Nat) : Option (LList α) :=
  match iterOf l k with
  | none => none
  | some _ => some (setIter l k { pos := l.head, prev := .head })

/-- `list_iterator_destroy (i)`: unlinked from the chain -/
def iteratorDestroy (l : LList α) (k : Nat) : Option (LList α) :=
  match iterOf l k with
  | none => none
  | some _ => some { l with iters := l.iters.eraseP (fun ki => ki.1 == k) }

/-- `list_next (i)` -/
def next (l : LList α) (k : Nat) : Option (Option α × LList α) :=
  match iterOf l k with
  | none => none
  | some i =>
    -- if ((p = i->pos)) i->pos = p->next;
    let pos' : Option (Option Nat) := match i.pos with | none => some none | some p => (l.cells[p]?).map (·.next)
    match pos', load l i.prev with
    | some pos1, some a =>
      -- if (*i->prev != p) i->prev = &(*i->prev)->next;
      let prev' : Option Ref := if a ≠ i.pos then (match a with | some n => some (.next n) | none => none) else some i.prev
      match prev' with
      | none => none
      | some prev1 =>
        let v : Option (Option α) := match i.pos with | none => some none | some p => (l.cells[p]?).map (·.data)
        match v with
        | none => none
        | some v => some (v, setIter l k { pos := pos1, prev := prev1 })
    | _, _ => none

/-- `list_insert (i, x)` -/
def insert (l : LList α) (k : Nat) (x : α) : Option (LList α) :=
  match iterOf l k with
  | none => none
  | some i => nodeCreate l i.prev x

/-- `list_find (i, f, key)`: `while ((v=list_next(i)) && !f(v,key)) {;}` -/
def find (f : α → Bool) : Nat → LList α → Nat → Option (Option α × LList α)
  | 0, _, _ => none
  | fuel + 1, l, k =>
    match next l k with
    | none => none
    | some (none, l') => some (none, l')
    | some (some v, l') => if f v then some (some v, l') else find f fuel l' k

/-- `list_remove (i)` -/
def remove (l : LList α) (k : Nat) : Option (Option α × LList α) :=
  match iterOf l k with
  | none => none
  | some i =>
    match load l i.prev with
    | none => none
    | some a => if a ≠ i.pos then nodeDestroy l i.prev else some (none, l)

/-- `list_delete (i)`: 1 or 0, the item `fDel` was called on -/
def delete (l : LList α) (k : Nat) : Option (Nat × List α × LList α) :=
  match remove l k with
  | none => none
  | some (some v, l') => some (1, if l'.fdel then [v] else [], l')
  | some (none, l') => some (0, [], l')

/-! ## the state as the harness prints it, and the representation invariant -/

/-- the nodes from `p` on, following `next` to `NULL` (`none`: a wild pointer, or no end within the fuel) -/
def walk (cells : Array (Cell α)) : Nat → Option Nat → Option (List Nat)
  | _, none => some []
  | 0, some _ => none
  | fuel + 1, some p =>
    match cells[p]? with
    | none => none
    | some c => (walk cells fuel c.next).map (p :: ·)

/-- the nodes of the list in order -/
def nodes (l : LList α) : Option (List Nat) := walk l.cells (l.cells.size + 1) l.head

/-- the items in order: the chain from `head` (`NULL` data and wild pointers are skipped; `valid` excludes them) -/
def contents (l : LList α) : List α :=
  ((nodes l).getD []).filterMap (fun p => dataOf l p)

/-- the `next` fields along the chain: `&l->head`, then `&p->next` for every node -/
def fieldsOf (ns : List Nat) : List Ref := .head :: ns.map .next

/-- what these fields hold: every node, then `NULL` -/
def targetsOf (ns : List Nat) : List (Option Nat) := ns.map some ++ [none]

/-- an iterator's place: `prev` is the `j`-th field of the chain and `pos` is what that field holds (`gap = false`:
    nothing to remove) or the node after that (`gap = true`: the node the `j`-th field holds is the item last returned) -/
def iterPlace (ns : List Nat) (i : Iter) : Option (Nat × Bool) :=
  let j := (fieldsOf ns).idxOf i.prev
  if j ≤ ns.length then
    if (targetsOf ns)[j]? = some i.pos then some (j, false)
    else if (targetsOf ns)[j + 1]? = some i.pos then some (j, true)
    else none
  else none

/-- the representation invariant (it implies every assertion of `list.c`): the chain from `head` ends in `NULL`, has
    `count` nodes, all with data; `tail` is the address of the field that holds the final `NULL`; the free cells are
    distinct, exist, and are not in the chain; the iterator handles are distinct and every iterator has a place. -/
def valid (l : LList α) : Bool :=
  match nodes l with
  | none => false
  | some ns =>
    l.count == ns.length
    && l.tail == (fieldsOf ns).getLast!
    && ns.all (fun p => (dataOf l p).isSome)
    && decide l.free.Nodup
    && l.free.all (fun p => decide (p < l.cells.size) && !ns.contains p)
    && decide (l.iters.map (·.1)).Nodup
    && l.iters.all (fun ki => (iterPlace ns ki.2).isSome)

/-! ## sequences of calls -/

/-- one call of the API (`find` / `pred`: the callback and its key; `cmp`: the comparison) -/
inductive Op (α : Type) where
  | append (x : α) | prepend (x : α) | push (x : α) | enqueue (x : α)
  | pop | dequeue | peek | isEmpty | count
  | findFirst (f : α → Bool) | deleteAll (f : α → Bool) | forEach (f : α → Int) | sort (cmp : α → α → Int)
  | itCreate (k : Nat) | itReset (k : Nat) | itDestroy (k : Nat)
  | next (k : Nat) | insert (k : Nat) (x : α) | find (k : Nat) (f : α → Bool) | remove (k : Nat) | delete (k : Nat)

/-- what a call answers -/
inductive Res (α : Type) where
  | unit
  | item (v : Option α)
  | num (n : Int)
  | flag (b : Bool)
  | deleted (n : Nat) (items : List α)
  deriving Repr, DecidableEq

/-- the answer and the list after the call; `none`: the C code dies in it -/
def Op.apply (l : LList α) : Op α → Option (Res α × LList α)
  | .append x => (LsdList.append l x).map (.item (some x), ·)
  | .prepend x => (LsdList.prepend l x).map (.item (some x), ·)
  | .push x => (LsdList.push l x).map (.item (some x), ·)
  | .enqueue x => (LsdList.enqueue l x).map (.item (some x), ·)
  | .pop => (LsdList.pop l).map (fun r => (.item r.1, r.2))
  | .dequeue => (LsdList.dequeue l).map (fun r => (.item r.1, r.2))
  | .peek => (LsdList.peek l).map (fun v => (.item v, l))
  | .isEmpty => some (.flag (LsdList.isEmpty l), l)
  | .count => some (.num (LsdList.countOf l), l)
  | .findFirst f => (LsdList.findFirst l f).map (fun v => (.item v, l))
  | .deleteAll f => (LsdList.deleteAll l f).map (fun r => (.deleted r.1 r.2.1, r.2.2))
  | .forEach f => (LsdList.forEach l f).map (fun n => (.num n, l))
  | .sort cmp => (LsdList.sort l cmp).map (.unit, ·)
  | .itCreate k => if (iterOf l k).isSome then none else some (.unit, iteratorCreate l k)
  | .itReset k => (iteratorReset l k).map (.unit, ·)
  | .itDestroy k => (iteratorDestroy l k).map (.unit, ·)
  | .next k => (LsdList.next l k).map (fun r => (.item r.1, r.2))
  | .insert k x => (LsdList.insert l k x).map (.item (some x), ·)
  | .find k f => (LsdList.find f (l.cells.size + 2) l k).map (fun r => (.item r.1, r.2))
  | .remove k => (LsdList.remove l k).map (fun r => (.item r.1, r.2))
  | .delete k => (LsdList.delete l k).map (fun r => (.deleted r.1 r.2.1, r.2.2))

/-- a sequence of calls: the answers and the list at the end; `none`: the C code dies on the way -/
def run (l : LList α) : List (Op α) → Option (List (Res α) × LList α)
  | [] => some ([], l)
  | op :: ops =>
    match op.apply l with
    | none => none
    | some (r, l') => (run l' ops).map (fun x => (r :: x.1, x.2))

end Pm.LsdList
