import Pm.RedfishOne
import Pm.RedfishSpec
/-! helper lemmas for C19, part 9: `stat` — the machine prints exactly the lines of `specStat` -/
namespace Pm.Redfish

/-- every ancestor of `p` is on under the status assignment `f` -/
def clearPath (c : Cfg) (f : Nat → Stat) (p : Nat) : Prop := ∀ b ∈ ancUp c p, f b = .on

theorem resStat_eq (c : Cfg) (m : M) (i : PM) : resStat c m i = statOf c m.st i.plug := by
  unfold resStat statOf statStr; rfl

theorem clearPath_child {c : Cfg} (hw : WF c = true) {f : Nat → Stat} {x a : Nat} (hp : parentOf c x = some a)
    (ha : clearPath c f a) (hon : f a = .on) : clearPath c f x := by
  intro b hb
  rw [ancUp_cons hw hp] at hb
  rcases List.mem_cons.1 hb with rfl | hb
  · exact hon
  · exact ha b hb

structure StatInv (c : Cfg) (st0 : St) (_d : Nat) (P rest new : List PM) (m : M) : Prop where
  act : m.active = P ++ rest ++ new
  st : m.st = st0
  dl : m.delayed = []
  items : ∀ i ∈ rest ++ new, i.cmd = .stat ∧ known c i.plug = true ∧ clearPath c (statOf c st0) i.plug
  waiters : ∀ w ∈ m.waiting, w.cmd = .stat ∧ known c w.plug = true

theorem stat_not_fresh (c : Cfg) (i : PM) (h : i.cmd = .stat) : isFresh c i = false := by simp [isFresh, h]
theorem stat_not_again (c : Cfg) (m : M) (i : PM) (h : i.cmd = .stat) : isAgain c m i = false := by simp [isAgain, h]

theorem outIf_fields (m : M) (b : Bool) (l : Line) :
    (outIf m b l).active = m.active ∧ (outIf m b l).delayed = m.delayed ∧ (outIf m b l).waiting = m.waiting ∧
    (outIf m b l).st = m.st := by
  cases b <;> simp [outIf]

theorem StatInv_justifies {c : Cfg} (hw : WF c = true) (st0 : St) :
    Justifies (statLine c st0) (fun l => l) c (StatInv c st0) where
  act := fun _ _ _ _ _ h => h.act
  outp := by
    intro d P i rest new m h hc
    exact absurd (h.items i (by simp)).1 hc
  own := by
    intro d P i rest new m h _ _ _
    have hi := h.items i (by simp)
    rw [specStat_clear st0 hi.2.1 hi.2.2]
    unfold ownLine statOf statStr
    rw [h.st]
    by_cases hf : hostFails c i.plug = true
    · simp [hf]
    · simp [hf, hi.1]
  waiters := by
    intro d P i rest new m h _ _ hs w hwm ha _
    have hi := h.items i (by simp)
    have hwt := h.waiters w hwm
    rw [resStat_eq, h.st] at hs ⊢
    rw [specStat_blocked hw st0 hwt.2 ha hs hi.2.2]
    simp [wline1, hwt.1]
  step := by
    intro d P i rest new m h
    have hi := h.items i (by simp)
    rw [processOne_shape c m i (fun hc => absurd hi.1 hc), stat_not_fresh c i hi.1, stat_not_again c m i hi.1]
    simp only [Bool.false_eq_true, if_false]
    obtain ⟨added, e1, e2, e3, e4, e5⟩ := pw_shape c (outIf m i.output (ownLine c m i)) i.plug (resStat c m i)
    obtain ⟨f1, f2, f3, f4⟩ := outIf_fields m i.output (ownLine c m i)
    rw [f1] at e1; rw [f2] at e2; rw [f4] at e3; rw [f3] at e4 e5
    refine ⟨new ++ added, ⟨by rw [e1, h.act]; simp, by rw [e3, h.st], by rw [e2, h.dl], ?_, ?_⟩⟩
    · intro j hj
      simp only [List.mem_append] at hj
      rcases hj with hj | hj | hj
      · exact h.items j (by simp [hj])
      · exact h.items j (by simp [hj])
      · obtain ⟨hs, hj⟩ := e5 j hj
        rw [resStat_eq, h.st] at hs
        rcases hj with ⟨hjw, hp⟩ | ⟨w, _, ha, _, rfl⟩
        · have := h.waiters j hjw
          exact ⟨this.1, this.2, clearPath_child hw hp hi.2.2 hs⟩
        · have hx := childOf_spec hw ha
          exact ⟨rfl, parentOf_known hx.1, clearPath_child hw hx.1 hi.2.2 hs⟩
    · intro w hwk
      rw [e4] at hwk
      by_cases hs : resStat c m i = .on
      · rw [hs] at hwk; exact h.waiters w (mem_keepF_on.1 hwk).1
      · exact h.waiters w ((mem_keepF_off hs).1 hwk).1
  turn := by
    intro d P new m h
    refine ⟨by simp, h.st, rfl, ?_, h.waiters⟩
    intro j hj
    simp only [h.dl, List.append_nil] at hj
    exact h.items j (by simp [hj])

/-- `stat`: the machine's lines are the specification's lines, and the plug states are untouched -/
theorem runCmd_stat {c : Cfg} (hw : WF c = true) (st : St) (ts : List Nat) :
    (runCmd c st .stat ts).1.Perm (specStat c st ts) ∧ (runCmd c st .stat ts).2.1 = st := by
  have hdone := runCmd_done hw st .stat ts
  rw [runCmd_eq] at hdone ⊢
  simp only at hdone ⊢
  have hph : phasedT c st .stat ts = false := by simp [phasedT, phasedB]
  obtain ⟨qs, e, hq⟩ := setup_plain hph
  have h0 : StatInv c st 0 [] ((setup c .stat (enq c st .stat ts)).active ++ (setup c .stat (enq c st .stat ts)).delayed) []
      { setup c .stat (enq c st .stat ts) with
        active := (setup c .stat (enq c st .stat ts)).active ++ (setup c .stat (enq c st .stat ts)).delayed,
        delayed := [] } := by
    rw [e, enq_eq]
    refine ⟨by simp, rfl, rfl, ?_, ?_⟩
    · intro j hj
      simp at hj
      rcases hj with ⟨t, ht, rfl⟩ | hj
      · simp only [isRootT, Bool.and_eq_true, Option.isNone_iff_eq_none] at ht
        refine ⟨rfl, ht.2.1, ?_⟩
        intro b hb; rw [show (mk Cmd.stat t).plug = t from rfl, ancUp_root ht.2.2] at hb; simp at hb
      · obtain ⟨w, hwm, rfl⟩ := hq j hj
        rw [enq_eq] at hwm
        simp at hwm
        obtain ⟨t, ht, rfl⟩ := hwm
        have hq : ∃ q, parentOf c t = some q := by
          unfold isChildT at ht
          cases hp : parentOf c t with
          | none => simp [hp] at ht
          | some q => exact ⟨q, rfl⟩
        have hr := rootOf_spec hw t hq
        refine ⟨rfl, anc_known hw _ _ hr.1, ?_⟩
        intro b hb; rw [show (query (rootOf c (mk Cmd.stat t).plug)).plug = rootOf c t from rfl, ancUp_root hr.2] at hb
        simp at hb
    · intro w hwm
      simp at hwm
      obtain ⟨t, ht, rfl⟩ := hwm
      refine ⟨rfl, ?_⟩
      unfold isChildT at ht
      cases hp : parentOf c t with
      | none => simp [hp] at ht
      | some q => exact parentOf_known hp
  constructor
  · rw [List.perm_iff_count]
    intro x
    have hb := loop_books (statLine c st) (fun l => l) (StatInv_justifies hw st) x (fuelOf c ts) 0 _ h0
    rw [done_TT _ _ _ _ hdone, setup_TT_plain _ _ hph] at hb
    rw [specStat_eq, List.count_eq_countP, List.count_eq_countP, List.countP_map]
    have hcc := count_classes c ((fun y => y == x) ∘ statLine c st) ts
    have h1 : (ts.filter (fun t => !known c t)).countP ((fun y => y == x) ∘ statLine c st)
        = lc (fun l => l) x ((ts.filter (fun t => !known c t)).map Line.unknown) := by
      unfold lc
      rw [List.countP_map]
      apply List.countP_congr
      intro t ht
      simp only [List.mem_filter, Bool.not_eq_true'] at ht
      have : (lookup c t).isNone = true := by
        have := ht.2; unfold known at this; cases h : lookup c t <;> simp_all
      simp [statLine, this]
    rw [h1] at hcc
    simp only [lc] at hb hcc
    simp only [Function.comp_def] at hcc ⊢
    rw [hcc, ← hb]
  · obtain ⟨d', hfin⟩ := loop_inv (statLine c st) (fun l => l) (StatInv_justifies hw st) (fuelOf c ts) 0 _ h0
    exact hfin.st

end Pm.Redfish
