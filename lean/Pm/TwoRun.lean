import Pm.IsolationProof
/-! Two runs of the client phase (`cli_post_poll`), stage by stage.

    `clientPass` (one client's share of `cli_post_poll`) never reads the client table, reads the write capacity of its own
    descriptor only, and reads of the devices only what `install` (`dev_check_actions`/`dev_enqueue_actions`) and the
    `device` query look at.  This file states that *relationally*: two worlds `w`, `w'` related by `CRel` (same
    configuration, counters, exit flag; device lists related by an abstract `DRL`, arglist stores by an abstract `SR`; write
    capacities and system-call log equal on the descriptors outside a set `F`) and two records related by `RecRel`
    (equal — except, for a descriptor of `F`, the output buffer and the blocking flag) go through every stage of
    `clientPass` to related worlds and related records.

    Used three times: `DRL = SR = Eq`, `F = {descriptor of the stuck client}` for C11 (back-pressure: `Pm/TwoRunC11.lean`; the client
    that vanishes: `Pm/TwoRunGone.lean`), and `DRL` = "equal except at the sick device", `SR` = `SAgree Q` for C05
    (`Pm/TwoRunC05.lean`).  Also in here: the loop of `cli_post_poll` over two client tables that agree only on the clients outside
    `F` (`foldl_merge`, `cliPostPoll_merge`), the share of an inert client (`clientPass_inert`), which command a client ends a pass
    with (`clientPass_cmd`), and the client table through the device phase (`KeepIdFd`, `filter_after_keep`). -/
namespace Pm.Daemon.TwoRun
open Pm Pm.Client Pm.Daemon Pm.Daemon.Isolation
open Pm.Dev2 (Dev)

abbrev Devs := List (Bytes × Dev)
abbrev Store := Pm.Dev2.Store

/-! ### a pointwise list relation (core has no `Forall₂`) -/

inductive L2 {α β : Type} (R : α → β → Prop) : List α → List β → Prop
  | nil : L2 R [] []
  | cons {a : α} {b : β} {l : List α} {l' : List β} : R a b → L2 R l l' → L2 R (a :: l) (b :: l')

theorem L2.length {α β : Type} {R : α → β → Prop} {l : List α} {l' : List β} (h : L2 R l l') : l.length = l'.length := by
  induction h with
  | nil => rfl
  | cons _ _ ih => simp [ih]

theorem L2.mono {α β : Type} {R S : α → β → Prop} {l : List α} {l' : List β} (h : L2 R l l')
    (hrs : ∀ a ∈ l, ∀ b ∈ l', R a b → S a b) : L2 S l l' := by
  induction h with
  | nil => exact .nil
  | cons hab _ ih =>
    exact .cons (hrs _ (by simp) _ (by simp) hab) (ih (fun a ha b hb => hrs a (by simp [ha]) b (by simp [hb])))

theorem L2.append {α β : Type} {R : α → β → Prop} {l₁ l₂ : List α} {l₁' l₂' : List β} (h1 : L2 R l₁ l₁') (h2 : L2 R l₂ l₂') :
    L2 R (l₁ ++ l₂) (l₁' ++ l₂') := by
  induction h1 with
  | nil => exact h2
  | cons hab _ ih => exact .cons hab ih

theorem L2.map {α β γ δ : Type} {R : α → β → Prop} {S : γ → δ → Prop} {l : List α} {l' : List β} (f : α → γ) (g : β → δ)
    (h : L2 R l l') (hfg : ∀ a b, R a b → S (f a) (g b)) : L2 S (l.map f) (l'.map g) := by
  induction h with
  | nil => exact .nil
  | cons hab _ ih => exact .cons (hfg _ _ hab) ih

theorem L2.refl {α : Type} {R : α → α → Prop} (hr : ∀ a, R a a) (l : List α) : L2 R l l := by
  induction l with
  | nil => exact .nil
  | cons a r ih => exact .cons (hr a) ih

theorem L2.eq {α : Type} {l l' : List α} (h : L2 (fun a b => b = a) l l') : l' = l := by
  induction h with
  | nil => rfl
  | cons hab _ ih => rw [hab, ih]

/-- both tables filtered by predicates that agree on related entries -/
theorem L2.filter {α β : Type} {R : α → β → Prop} {l : List α} {l' : List β} (p : α → Bool) (q : β → Bool) (h : L2 R l l')
    (hpq : ∀ a b, R a b → p a = q b) : L2 R (l.filter p) (l'.filter q) := by
  induction h with
  | nil => exact .nil
  | cons hab _ ih =>
    rw [List.filter_cons, List.filter_cons, ← hpq _ _ hab]
    split
    · exact .cons hab ih
    · exact ih

/-- the first entries satisfying predicates that agree on related entries are related -/
theorem L2.find {α β : Type} {R : α → β → Prop} {l : List α} {l' : List β} (p : α → Bool) (q : β → Bool) (h : L2 R l l')
    (hpq : ∀ a b, R a b → p a = q b) :
    (l.find? p = none ∧ l'.find? q = none) ∨ ∃ a b, l.find? p = some a ∧ l'.find? q = some b ∧ R a b := by
  induction h with
  | nil => exact Or.inl ⟨rfl, rfl⟩
  | cons hab _ ih =>
    rw [List.find?_cons, List.find?_cons, ← hpq _ _ hab]
    split
    · exact Or.inr ⟨_, _, rfl, rfl, hab⟩
    · exact ih

/-! ### records: equal, except — on a descriptor of `F` — for the output buffer and the blocking flag -/

/-- `c'` is `c` except for the output buffer `to` and the `blocking` flag of the descriptor; on a descriptor outside `F` it
    is `c` -/
def RecRel (F : Nat → Bool) (c c' : Cli) : Prop :=
  ∃ (t : Bytes) (b : Bool), c' = { c with toBuf := t, blocking := b } ∧ (F c.fd = false → t = c.toBuf ∧ b = c.blocking)

theorem RecRel.refl (F : Nat → Bool) (c : Cli) : RecRel F c c := ⟨c.toBuf, c.blocking, rfl, fun _ => ⟨rfl, rfl⟩⟩

theorem RecRel.eq {F : Nat → Bool} {c c' : Cli} (h : RecRel F c c') (hF : F c.fd = false) : c' = c := by
  obtain ⟨t, b, rfl, hf⟩ := h
  obtain ⟨rfl, rfl⟩ := hf hF
  rfl

theorem RecRel.id {F : Nat → Bool} {c c' : Cli} (h : RecRel F c c') : c'.id = c.id := by obtain ⟨t, b, rfl, _⟩ := h; rfl
theorem RecRel.fd {F : Nat → Bool} {c c' : Cli} (h : RecRel F c c') : c'.fd = c.fd := by obtain ⟨t, b, rfl, _⟩ := h; rfl
theorem RecRel.quit {F : Nat → Bool} {c c' : Cli} (h : RecRel F c c') : c'.quit = c.quit := by obtain ⟨t, b, rfl, _⟩ := h; rfl
theorem RecRel.cmd {F : Nat → Bool} {c c' : Cli} (h : RecRel F c c') : c'.cmd = c.cmd := by obtain ⟨t, b, rfl, _⟩ := h; rfl
theorem RecRel.fromBuf {F : Nat → Bool} {c c' : Cli} (h : RecRel F c c') : c'.fromBuf = c.fromBuf := by obtain ⟨t, b, rfl, _⟩ := h; rfl
theorem RecRel.telemetry {F : Nat → Bool} {c c' : Cli} (h : RecRel F c c') : c'.telemetry = c.telemetry := by obtain ⟨t, b, rfl, _⟩ := h; rfl
theorem RecRel.exprange {F : Nat → Bool} {c c' : Cli} (h : RecRel F c c') : c'.exprange = c.exprange := by obtain ⟨t, b, rfl, _⟩ := h; rfl

/-- built from the fields -/
theorem RecRel.mk' {F : Nat → Bool} {c c' : Cli} (h1 : c'.id = c.id) (h2 : c'.fd = c.fd) (h3 : c'.quit = c.quit)
    (h4 : c'.telemetry = c.telemetry) (h5 : c'.exprange = c.exprange) (h6 : c'.cmd = c.cmd) (h7 : c'.fromBuf = c.fromBuf)
    (h8 : c'.fromSize = c.fromSize) (hF : F c.fd = false → c'.toBuf = c.toBuf ∧ c'.blocking = c.blocking) : RecRel F c c' := by
  refine ⟨c'.toBuf, c'.blocking, ?_, hF⟩
  obtain ⟨a1, a2, a3, a4, a5, a6, a7, a8, a9, a10⟩ := c
  obtain ⟨b1, b2, b3, b4, b5, b6, b7, b8, b9, b10⟩ := c'
  simp only at h1 h2 h3 h4 h5 h6 h7 h8
  subst h1 h2 h3 h4 h5 h6 h7 h8
  rfl

/-- the same bytes appended to both output buffers -/
theorem RecRel.put {F : Nat → Bool} {c c' : Cli} (h : RecRel F c c') (x : Bytes) : RecRel F (put c x) (put c' x) := by
  obtain ⟨t, b, rfl, hf⟩ := h
  exact ⟨t ++ x, b, rfl, fun hF => by obtain ⟨rfl, rfl⟩ := hf hF; exact ⟨rfl, rfl⟩⟩

/-! ### worlds -/

/-- the logged system call is not about a descriptor of `F` -/
def offF (F : Nat → Bool) (x : Sys) : Bool := match sysFd x with | some fd => !F fd | none => true

/-- what one client's share of `cli_post_poll` reads of the world, related between the two runs.  (Not in here: the client
    table and the counters `nextId nacc nsock npair nfork tmo pendingX`, which `clientPass` neither reads nor writes.) -/
structure CRel (F : Nat → Bool) (DRL : Devs → Devs → Prop) (SR : Store → Store → Prop) (als : List (Name × List Name))
    (w w' : W) : Prop where
  aliases : w.cfg.aliases = als
  cfg : w'.cfg = w.cfg
  specs : w'.specs = w.specs
  alNext : w'.alNext = w.alNext
  exited : w'.exited = w.exited
  devs : DRL w.devs w'.devs
  store : SR w.store w'.store
  caps : ∀ fd, F fd = false → capOf w' fd = capOf w fd
  sys : w'.sys.filter (offF F) = w.sys.filter (offF F)

section Leaves
variable {F : Nat → Bool} {DRL : Devs → Devs → Prop} {SR : Store → Store → Prop} {als : List (Name × List Name)} {w w' : W}

theorem CRel.exit (h : CRel F DRL SR als w w') : CRel F DRL SR als { w with exited := true } { w' with exited := true } :=
  ⟨h.aliases, h.cfg, h.specs, h.alNext, rfl, h.devs, h.store, h.caps, h.sys⟩

theorem CRel.nodes (h : CRel F DRL SR als w w') (hl : Hostlist) :
    CRel F DRL SR als { w with cfg := { w.cfg with nodes := hl } } { w' with cfg := { w'.cfg with nodes := hl } } :=
  ⟨h.aliases, by show ({ w'.cfg with nodes := hl } : Cfg) = { w.cfg with nodes := hl }; rw [h.cfg], h.specs, h.alNext, h.exited, h.devs, h.store, h.caps, h.sys⟩

/-- the same system call logged in both runs -/
theorem CRel.log (h : CRel F DRL SR als w w') (x : Sys) :
    CRel F DRL SR als { w with sys := w.sys ++ [x] } { w' with sys := w'.sys ++ [x] } :=
  ⟨h.aliases, h.cfg, h.specs, h.alNext, h.exited, h.devs, h.store, h.caps, by
    show (w'.sys ++ [x]).filter (offF F) = (w.sys ++ [x]).filter (offF F)
    rw [List.filter_append, List.filter_append, h.sys]⟩

/-- a system call on a descriptor of `F` logged in the first run only -/
theorem CRel.logL (h : CRel F DRL SR als w w') (x : Sys) (fd : Nat) (hx : sysFd x = some fd) (hF : F fd = true) :
    CRel F DRL SR als { w with sys := w.sys ++ [x] } w' :=
  ⟨h.aliases, h.cfg, h.specs, h.alNext, h.exited, h.devs, h.store, h.caps, by
    show w'.sys.filter (offF F) = (w.sys ++ [x]).filter (offF F)
    rw [List.filter_append, h.sys]
    have : offF F x = false := by simp [offF, hx, hF]
    simp [this]⟩

theorem CRel.logR (h : CRel F DRL SR als w w') (x : Sys) (fd : Nat) (hx : sysFd x = some fd) (hF : F fd = true) :
    CRel F DRL SR als w { w' with sys := w'.sys ++ [x] } :=
  ⟨h.aliases, h.cfg, h.specs, h.alNext, h.exited, h.devs, h.store, h.caps, by
    show (w'.sys ++ [x]).filter (offF F) = w.sys.filter (offF F)
    rw [List.filter_append, h.sys]
    have : offF F x = false := by simp [offF, hx, hF]
    simp [this]⟩

theorem capOf_setCap_self (w : W) (fd : Nat) (v : Int) : capOf (setCap w fd v) fd = v := by
  simp [capOf, setCap]

theorem capOf_setCap (w : W) (fd fd' : Nat) (v : Int) : capOf (setCap w fd v) fd' = if fd' = fd then v else capOf w fd' := by
  by_cases h : fd' = fd
  · subst h; simp [capOf_setCap_self]
  · simp [h, capOf_setCap_ne w fd fd' v h]

theorem CRel.capSet (h : CRel F DRL SR als w w') (fd : Nat) (v : Int) : CRel F DRL SR als (setCap w fd v) (setCap w' fd v) :=
  ⟨h.aliases, h.cfg, h.specs, h.alNext, h.exited, h.devs, h.store,
   fun fd' hf => by rw [capOf_setCap, capOf_setCap, h.caps fd' hf], h.sys⟩

theorem CRel.capSetL (h : CRel F DRL SR als w w') (fd : Nat) (v : Int) (hF : F fd = true) : CRel F DRL SR als (setCap w fd v) w' :=
  ⟨h.aliases, h.cfg, h.specs, h.alNext, h.exited, h.devs, h.store,
   fun fd' hf => by
     have : fd' ≠ fd := fun e => by rw [e, hF] at hf; cases hf
     rw [capOf_setCap_ne w fd fd' v this, h.caps fd' hf], h.sys⟩

theorem CRel.capSetR (h : CRel F DRL SR als w w') (fd : Nat) (v : Int) (hF : F fd = true) : CRel F DRL SR als w (setCap w' fd v) :=
  ⟨h.aliases, h.cfg, h.specs, h.alNext, h.exited, h.devs, h.store,
   fun fd' hf => by
     have : fd' ≠ fd := fun e => by rw [e, hF] at hf; cases hf
     rw [capOf_setCap_ne w' fd fd' v this, h.caps fd' hf], h.sys⟩

end Leaves

/-- the outcome of a stage in the two runs: related worlds, related records -/
def StageOut (F : Nat → Bool) (DRL : Devs → Devs → Prop) (SR : Store → Store → Prop) (als : List (Name × List Name)) (r r' : W × Cli) : Prop :=
  CRel F DRL SR als r.1 r'.1 ∧ RecRel F r.2 r'.2

/-! ### `_handle_write` -/

section Write
variable {F : Nat → Bool} {DRL : Devs → Devs → Prop} {SR : Store → Store → Prop} {als : List (Name × List Name)}

/-- `_handle_write` on a descriptor outside `F`: the same in both runs -/
theorem hwCore_rel (w w' : W) (c : Cli) (h : CRel F DRL SR als w w') (hF : F c.fd = false) :
    StageOut F DRL SR als (ClientPf.hwCore w c) (ClientPf.hwCore w' c) := by
  unfold ClientPf.hwCore
  rw [h.caps c.fd hF]
  split
  · exact ⟨h, RecRel.refl F c⟩
  · dsimp only
    split
    · exact ⟨h.log _, RecRel.refl F _⟩
    · split
      · exact ⟨(h.log _).capSet _ _, RecRel.refl F _⟩
      · split
        · exact ⟨h.log _, RecRel.refl F _⟩
        · exact ⟨(h.log _).capSet _ _, RecRel.refl F _⟩

/-- a stage that touches, of the world, only the system-call log (calls on the client's own descriptor) and the write capacity
    of the client's own descriptor, and, of the record, only the output buffer and — towards `true` — the `quit` flag -/
structure SelfOnly (w : W) (c : Cli) (r : W × Cli) : Prop where
  world : r.1 = { w with sys := r.1.sys, caps := r.1.caps }
  sys : ∃ xs, r.1.sys = w.sys ++ xs ∧ ∀ x ∈ xs, sysFd x = some c.fd
  caps : ∀ fd, fd ≠ c.fd → capOf r.1 fd = capOf w fd
  recd : r.2 = { c with toBuf := r.2.toBuf, quit := r.2.quit, blocking := r.2.blocking }
  quit : c.quit = true → r.2.quit = true

theorem SelfOnly.refl (w : W) (c : Cli) : SelfOnly w c (w, c) :=
  ⟨rfl, ⟨[], by simp, by simp⟩, fun _ _ => rfl, rfl, fun h => h⟩

/-- `_handle_write` is such a stage; it sets `quit` only on a write error or when the non-blocking descriptor takes nothing -/
theorem hwCore_self (w : W) (c : Cli) :
    SelfOnly w c (ClientPf.hwCore w c) ∧
    ((ClientPf.hwCore w c).2.quit = true → c.quit = true ∨
      (c.toBuf ≠ [] ∧ (capOf w c.fd < 0 ∨ (c.blocking = false ∧ capOf w c.fd = 0)))) := by
  unfold ClientPf.hwCore
  split
  · exact ⟨SelfOnly.refl w c, fun h => Or.inl h⟩
  · rename_i hne
    have hne' : c.toBuf ≠ [] := by simpa using hne
    dsimp only
    split
    · rename_i hlt
      exact ⟨⟨rfl, ⟨[Sys.write c.fd [] true false], rfl, by simp [sysFd]⟩, fun _ _ => rfl, rfl, fun _ => rfl⟩,
        fun _ => Or.inr ⟨hne', Or.inl hlt⟩⟩
    · split
      · exact ⟨⟨rfl, ⟨[Sys.write c.fd c.toBuf false (decide (capOf w c.fd < (c.toBuf.length : Int)))], rfl, by simp [sysFd]⟩,
          fun fd hfd => capOf_setCap_ne _ _ _ _ hfd, rfl, fun h => h⟩, fun h => Or.inl h⟩
      · split
        · rename_i hb h0
          exact ⟨⟨rfl, ⟨[Sys.write c.fd [] false false], rfl, by simp [sysFd]⟩, fun _ _ => rfl, rfl, fun _ => rfl⟩,
            fun _ => Or.inr ⟨hne', Or.inr ⟨by simpa using hb, by simpa using h0⟩⟩⟩
        · exact ⟨⟨rfl, ⟨[Sys.write c.fd (c.toBuf.take (min (capOf w c.fd).toNat c.toBuf.length)) false false], rfl, by simp [sysFd]⟩,
            fun fd hfd => capOf_setCap_ne _ _ _ _ hfd, rfl, fun h => h⟩, fun h => Or.inl h⟩

/-- `_handle_write` with the blocking switch -/
theorem handleWrite_self (w : W) (c : Cli) :
    SelfOnly w c (handleWrite w c) ∧
    ((handleWrite w c).2.quit = true → c.quit = true ∨
      (c.toBuf ≠ [] ∧ (capOf w c.fd < 0 ∨ (c.blocking = false ∧ capOf w c.fd = 0)))) := by
  rw [ClientPf.handleWrite_eq]
  by_cases hq : c.quit = true
  · rw [if_pos hq]
    obtain ⟨h1, _⟩ := hwCore_self w { c with blocking := true }
    refine ⟨⟨h1.world, h1.sys, h1.caps, ?_, fun _ => h1.quit hq⟩, fun _ => Or.inl hq⟩
    have := h1.recd
    rw [this]
  · rw [if_neg hq]
    exact hwCore_self w c

/-- a `SelfOnly` stage of a client on a descriptor of `F`, in the first run only -/
theorem CRel.selfL {w w' : W} {c : Cli} {r : W × Cli} (h : CRel F DRL SR als w w') (hs : SelfOnly w c r) (hF : F c.fd = true) :
    CRel F DRL SR als r.1 w' := by
  obtain ⟨xs, hx, hxs⟩ := hs.sys
  have hw := hs.world
  refine ⟨by rw [hw]; exact h.aliases, by rw [hw]; exact h.cfg, by rw [hw]; exact h.specs, by rw [hw]; exact h.alNext, by rw [hw]; exact h.exited,
    by rw [hw]; exact h.devs, by rw [hw]; exact h.store, ?_, ?_⟩
  · intro fd hf
    have : fd ≠ c.fd := fun e => by rw [e, hF] at hf; cases hf
    rw [hs.caps fd this, h.caps fd hf]
  · rw [hx, List.filter_append, h.sys]
    have : xs.filter (offF F) = [] := by
      rw [List.filter_eq_nil_iff]
      intro x hxm
      simp [offF, hxs x hxm, hF]
    rw [this, List.append_nil]

theorem CRel.selfR {w w' : W} {c : Cli} {r : W × Cli} (h : CRel F DRL SR als w w') (hs : SelfOnly w' c r) (hF : F c.fd = true) :
    CRel F DRL SR als w r.1 := by
  obtain ⟨xs, hx, hxs⟩ := hs.sys
  have hw := hs.world
  refine ⟨h.aliases, by rw [hw]; exact h.cfg, by rw [hw]; exact h.specs, by rw [hw]; exact h.alNext, by rw [hw]; exact h.exited,
    by rw [hw]; exact h.devs, by rw [hw]; exact h.store, ?_, ?_⟩
  · intro fd hf
    have : fd ≠ c.fd := fun e => by rw [e, hF] at hf; cases hf
    rw [hs.caps fd this, h.caps fd hf]
  · rw [hx, List.filter_append, h.sys]
    have : xs.filter (offF F) = [] := by
      rw [List.filter_eq_nil_iff]
      intro x hxm
      simp [offF, hxs x hxm, hF]
    rw [this, List.append_nil]

/-- the records after a `SelfOnly` stage in each run, on a descriptor of `F`: related, provided the `quit` flags agree -/
theorem SelfOnly.recRel {w w' : W} {c c' : Cli} {r r' : W × Cli} (hs : SelfOnly w c r) (hs' : SelfOnly w' c' r')
    (hc : RecRel F c c') (hF : F c.fd = true) (hq : r'.2.quit = r.2.quit) : RecRel F r.2 r'.2 := by
  obtain ⟨t, b, rfl, _⟩ := hc
  have e1 := hs.recd
  have e2 := hs'.recd
  have hfd : r.2.fd = c.fd := by rw [e1]
  refine RecRel.mk' (by rw [e1, e2]) (by rw [e1, e2]) hq (by rw [e1, e2]) (by rw [e1, e2]) (by rw [e1, e2]) (by rw [e1, e2])
    (by rw [e1, e2]) (fun h => ?_)
  rw [hfd, hF] at h; cases h

/-- … and when only the first run goes through the stage -/
theorem SelfOnly.recRelL {w : W} {c c' : Cli} {r : W × Cli} (hs : SelfOnly w c r)
    (hc : RecRel F c c') (hF : F c.fd = true) (hq : r.2.quit = c.quit) : RecRel F r.2 c' := by
  have := SelfOnly.recRel (F := F) hs (SelfOnly.refl w c') hc hF (by rw [hq]; exact hc.quit)
  exact this

theorem SelfOnly.recRelR {w' : W} {c c' : Cli} {r' : W × Cli} (hs' : SelfOnly w' c' r')
    (hc : RecRel F c c') (hF : F c.fd = true) (hq : r'.2.quit = c'.quit) : RecRel F c r'.2 := by
  have := SelfOnly.recRel (F := F) (SelfOnly.refl w' c) hs' hc hF (by rw [hq]; exact hc.quit)
  exact this

/-- **`_handle_write` in both runs.**  On a descriptor outside `F` the two calls are the same call.  On a descriptor of `F`
    (where buffer and capacity may differ) the worlds stay related, and so do the records when the client had already quit
    (the caller is the `quit` command). -/
theorem handleWrite_rel (w w' : W) (c c' : Cli) (h : CRel F DRL SR als w w') (hc : RecRel F c c')
    (hq : F c.fd = true → c.quit = true) : StageOut F DRL SR als (handleWrite w c) (handleWrite w' c') := by
  cases hF : F c.fd with
  | false =>
    rw [hc.eq hF, ClientPf.handleWrite_eq, ClientPf.handleWrite_eq]
    exact hwCore_rel w w' _ h (by split <;> exact hF)
  | true =>
    obtain ⟨s1, _⟩ := handleWrite_self w c
    obtain ⟨s2, _⟩ := handleWrite_self w' c'
    have hF' : F c'.fd = true := by rw [hc.fd]; exact hF
    refine ⟨(h.selfL s1 hF).selfR s2 hF', SelfOnly.recRel s1 s2 hc hF ?_⟩
    rw [s1.quit (hq hF), s2.quit (by rw [hc.quit]; exact hq hF)]

/-- `_handle_write` called in the first run only (the descriptor, of `F`, is reported writable there and not in the second
    run): related again, provided the call does not mark the client as gone -/
theorem handleWrite_relL (w w' : W) (c c' : Cli) (h : CRel F DRL SR als w w') (hc : RecRel F c c') (hF : F c.fd = true)
    (hq : (handleWrite w c).2.quit = c.quit) : StageOut F DRL SR als (handleWrite w c) (w', c') := by
  obtain ⟨s1, _⟩ := handleWrite_self w c
  exact ⟨h.selfL s1 hF, s1.recRelL hc hF hq⟩

end Write

/-! ### `_handle_read` -/

section Read
variable {F : Nat → Bool} {DRL : Devs → Devs → Prop} {SR : Store → Store → Prop} {als : List (Name × List Name)}

/-- the kernel hands the same bytes (or the same error / end of file) to the two runs -/
def SameIn (e e' : Option FdEnv) : Prop := (e'.map fun x => (x.rk, x.data)) = e.map fun x => (x.rk, x.data)

theorem clipC_rel (c c' : Cli) (e e' : Option FdEnv) (hc : RecRel F c c') (he : SameIn e e') :
    RecRel F (clipC c e) (clipC c' e') ∧ SameIn (clipE c e) (clipE c' e') := by
  obtain ⟨t, b, rfl, hf⟩ := hc
  cases e with
  | none =>
    cases e' with
    | none => exact ⟨⟨t, b, rfl, hf⟩, rfl⟩
    | some x' => simp [SameIn] at he
  | some x =>
    cases e' with
    | none => simp [SameIn] at he
    | some x' =>
      simp only [SameIn, Option.map_some, Option.some.injEq, Prod.mk.injEq] at he
      obtain ⟨h1, h2⟩ := he
      have hp : cliReadPlan { c with toBuf := t, blocking := b } x' = cliReadPlan c x := by
        unfold cliReadPlan; simp only [h1, h2]
      constructor
      · refine ⟨t, b, ?_, hf⟩
        simp only [clipC, clipCli, hp]
      · simp only [SameIn, clipE, clipEnv, Option.map_some, hp, h1, h2]

/-- what `_handle_read` does with the bytes read: the same in both runs -/
theorem cpRead_rel (w w' : W) (c c' : Cli) (e e' : Option FdEnv) (h : CRel F DRL SR als w w') (hc : RecRel F c c')
    (he : SameIn e e') : StageOut F DRL SR als (ClientPf.cpRead w c e) (ClientPf.cpRead w' c' e') := by
  obtain ⟨t, b, rfl, hf⟩ := hc
  cases e with
  | none =>
    cases e' with
    | none => exact ⟨h, ⟨t, b, rfl, hf⟩⟩
    | some x' => simp [SameIn] at he
  | some x =>
    cases e' with
    | none => simp [SameIn] at he
    | some x' =>
      simp only [SameIn, Option.map_some, Option.some.injEq, Prod.mk.injEq] at he
      obtain ⟨h1, h2⟩ := he
      unfold ClientPf.cpRead
      dsimp only
      rw [h1, h2]
      split
      · exact ⟨h.log _, ⟨t, b, rfl, hf⟩⟩
      · split
        · exact ⟨h.log _, ⟨t, b, rfl, hf⟩⟩
        · split
          · exact ⟨h.log _, ⟨t, b, rfl, hf⟩⟩
          · exact ⟨h.log _, ⟨t, b, rfl, hf⟩⟩

end Read

/-! ### `_parse_input`, branch by branch -/

section Parse
variable {F : Nat → Bool} {DRL : Devs → Devs → Prop} {SR : Store → Store → Prop} {als : List (Name × List Name)}

/-- what `install` needs of the relation between the device lists, for the target list `bn`: the capability check
    (`dev_check_actions`) has the same outcome, the same number of actions is created, and the device lists after
    `dev_enqueue_actions` are related again -/
def InstOK (DRL : Devs → Devs → Prop) (bn : List Bytes) : Prop :=
  ∀ l l', DRL l l' → ∀ (com cid : Nat) (tele : Bool) (al : Nat),
    (l'.any fun (nd : Bytes × Dev) => needsDev nd.2 bn && !handles nd.2 com bn) =
      (l.any fun (nd : Bytes × Dev) => needsDev nd.2 bn && !handles nd.2 com bn) ∧
    Enq.installTotal com bn cid tele al l' = Enq.installTotal com bn cid tele al l ∧
    DRL (l.map (Enq.installDev com bn cid tele al)) (l'.map (Enq.installDev com bn cid tele al))

/-- what the `device` query needs, for the target `t`: the same reply -/
def DevOK (DRL : Devs → Devs → Prop) (t : Option Hostlist) : Prop :=
  ∀ l l', DRL l l' → ∀ (w w' : W), w'.specs = w.specs →
    l'.foldl (ClientPf.devStep w' t) (some []) = l.foldl (ClientPf.devStep w t) (some [])

/-- `install` with the loop of `dev_enqueue_actions` written as a `map` -/
theorem install_nf (w : W) (c : Cli) (com : Com) (names : List Name) :
    install w c com names =
      if w.devs.any (fun (nd : Bytes × Dev) => needsDev nd.2 (names.map ofChars) && !handles nd.2 (comIdx com) (names.map ofChars)) then Reply.refused w c else
      if Enq.installTotal (comIdx com) (names.map ofChars) c.id c.telemetry w.alNext w.devs == 0 then Reply.refused w c else
      ({ w with devs := w.devs.map (Enq.installDev (comIdx com) (names.map ofChars) c.id c.telemetry w.alNext),
                store := (w.alNext, Reply.freshArgs (names.map ofChars)) :: w.store, alNext := w.alNext + 1 },
       { c with cmd := some { com, names, pending := Enq.installTotal (comIdx com) (names.map ofChars) c.id c.telemetry w.alNext w.devs,
                              error := false, al := w.alNext } }) := by
  unfold install
  simp only [Enq.install_fold, List.nil_append, Nat.zero_add]
  rfl

theorem refused_rel (w w' : W) (c c' : Cli) (h : CRel F DRL SR als w w') (hc : RecRel F c c') :
    StageOut F DRL SR als (Reply.refused w c) (Reply.refused w' c') := by
  unfold Reply.refused
  rw [hc.quit]
  exact ⟨h, hc.put _⟩

theorem install_rel (hSR : ∀ s s' x, SR s s' → SR (x :: s) (x :: s')) (w w' : W) (c c' : Cli) (com : Com) (names : List Name)
    (h : CRel F DRL SR als w w') (hc : RecRel F c c') (hI : InstOK DRL (names.map ofChars)) :
    StageOut F DRL SR als (install w c com names) (install w' c' com names) := by
  obtain ⟨h1, h2, h3⟩ := hI w.devs w'.devs h.devs (comIdx com) c.id c.telemetry w.alNext
  rw [install_nf, install_nf, hc.id, hc.telemetry, h.alNext, h1, h2]
  split
  · exact refused_rel w w' c c' h hc
  · split
    · exact refused_rel w w' c c' h hc
    · refine ⟨⟨h.aliases, h.cfg, h.specs, rfl, h.exited, h3, hSR _ _ _ h.store, h.caps, h.sys⟩, ?_⟩
      obtain ⟨t, b, rfl, hf⟩ := hc
      exact ⟨t, b, rfl, hf⟩

theorem plFin_rel (w w' : W) (c c' : Cli) (x : Bytes) (h : CRel F DRL SR als w w') (hc : RecRel F c c') :
    StageOut F DRL SR als (ClientPf.plFin w c x) (ClientPf.plFin w' c' x) := by
  unfold ClientPf.plFin
  rw [hc.quit]
  exact ⟨h, hc.put _⟩

theorem plNodes_rel (w w' : W) (c c' : Cli) (h : CRel F DRL SR als w w') (hc : RecRel F c c') :
    StageOut F DRL SR als (ClientPf.plNodes w c) (ClientPf.plNodes w' c') := by
  unfold ClientPf.plNodes
  rw [show sortHL w'.cfg.nodes = sortHL w.cfg.nodes by rw [h.cfg]]
  split
  · exact ⟨h.exit, hc⟩
  · exact ⟨h.exit, hc⟩
  · dsimp only
    rw [hc.quit, hc.exprange]
    exact ⟨h.nodes _, hc.put _⟩

theorem plTelemetry_rel (w w' : W) (c c' : Cli) (h : CRel F DRL SR als w w') (hc : RecRel F c c') :
    StageOut F DRL SR als (ClientPf.plTelemetry w c) (ClientPf.plTelemetry w' c') := by
  unfold ClientPf.plTelemetry
  dsimp only
  rw [hc.telemetry]
  refine plFin_rel w w' _ _ _ h ?_
  obtain ⟨t, b, rfl, hf⟩ := hc
  exact ⟨t, b, rfl, hf⟩

theorem plExprange_rel (w w' : W) (c c' : Cli) (h : CRel F DRL SR als w w') (hc : RecRel F c c') :
    StageOut F DRL SR als (ClientPf.plExprange w c) (ClientPf.plExprange w' c') := by
  unfold ClientPf.plExprange
  dsimp only
  rw [hc.exprange]
  refine plFin_rel w w' _ _ _ h ?_
  obtain ⟨t, b, rfl, hf⟩ := hc
  exact ⟨t, b, rfl, hf⟩

theorem plQuit_rel (w w' : W) (c c' : Cli) (h : CRel F DRL SR als w w') (hc : RecRel F c c') :
    StageOut F DRL SR als (ClientPf.plQuit w c) (ClientPf.plQuit w' c') := by
  unfold ClientPf.plQuit
  refine handleWrite_rel w w' _ _ h ?_ (fun _ => rfl)
  obtain ⟨t, b, rfl, hf⟩ := hc
  exact ⟨t ++ (codeLine 101 ++ crlf), b, rfl, fun hF => by obtain ⟨rfl, rfl⟩ := hf hF; exact ⟨rfl, rfl⟩⟩

theorem plDevice_rel (w w' : W) (c c' : Cli) (str : Bytes) (h : CRel F DRL SR als w w') (hc : RecRel F c c')
    (hD : ∀ a, ClientPf.plDevArg str = some a → DevOK DRL (ClientPf.devTarg a)) :
    StageOut F DRL SR als (ClientPf.plDevice w c str) (ClientPf.plDevice w' c' str) := by
  unfold ClientPf.plDevice
  cases ha : ClientPf.plDevArg str with
  | none => exact plFin_rel w w' c c' _ h hc
  | some a =>
    dsimp only
    rw [ClientPf.deviceReply_eq, ClientPf.deviceReply_eq, hD a ha w.devs w'.devs h.devs w w' h.specs]
    split
    · exact ⟨h.exit, hc⟩
    · exact plFin_rel w w' c c' _ h hc

theorem plCmd_rel (hSR : ∀ s s' x, SR s s' → SR (x :: s) (x :: s')) (w w' : W) (c c' : Cli) (com : Com) (arg : Bytes)
    (h : CRel F DRL SR als w w') (hc : RecRel F c c')
    (hI : ∀ hl, createR (toChars arg) = .ok hl → InstOK DRL ((expAliases als (expand hl)).map ofChars)) :
    StageOut F DRL SR als (ClientPf.plCmd w c com arg) (ClientPf.plCmd w' c' com arg) := by
  unfold ClientPf.plCmd
  cases hcr : createR (toChars arg) with
  | fatal => exact ⟨h.exit, hc⟩
  | err => exact plFin_rel w w' c c' _ h hc
  | ok hl =>
    dsimp only
    rw [h.cfg]
    split
    · exact plFin_rel w w' c c' _ h hc
    · refine install_rel hSR w w' c c' com _ h hc ?_
      rw [h.aliases]
      exact hI hl hcr

/-- the cascade of `_parse_input` for a request string `str` that is not one of `help nodes telemetry exprange quit`, as a
    condition: a bare `status`/`temp`/`beacon` targets every configured node (`IOK` of every name list); a command with a
    target list targets its alias-expanded names (`IOK` of those); a `device` query reads the devices its argument selects
    (`DOK` of that selection); anything else needs nothing -/
def RestP (IOK : List Name → Prop) (DOK : Option Hostlist → Prop) (als : List (Name × List Name)) (str : Bytes) : Prop :=
  match ClientPf.plMatch str with
  | none =>
    if casePrefix kwStatus str || casePrefix kwTemp str || casePrefix kwBeacon str then ∀ names, IOK names
    else ∀ a, ClientPf.plDevArg str = some a → DOK (ClientPf.devTarg a)
  | some (_, arg) => ∀ hl, createR (toChars arg) = .ok hl → IOK (expAliases als (expand hl))

/-- the same for a whole request string: the five commands that do not look at the devices need nothing -/
def IdleP (IOK : List Name → Prop) (DOK : Option Hostlist → Prop) (als : List (Name × List Name)) (str : Bytes) : Prop :=
  casePrefix kwHelp str = false → casePrefix kwNodes str = false → casePrefix kwTelemetry str = false →
  casePrefix kwExprange str = false → casePrefix kwQuit str = false → RestP IOK DOK als str

/-- … and for a request line (a line of `CP_LINEMAX` bytes or more is answered 203 and needs nothing) -/
def LineP (IOK : List Name → Prop) (DOK : Option Hostlist → Prop) (als : List (Name × List Name)) (line : Bytes) : Prop :=
  ¬ ClientPf.TooLong line → IdleP IOK DOK als (ClientPf.reqStr line)

/-- what the request string `str` needs of the relation between the device lists -/
abbrev RestOK (DRL : Devs → Devs → Prop) (als : List (Name × List Name)) (str : Bytes) : Prop :=
  RestP (fun names => InstOK DRL (names.map ofChars)) (DevOK DRL) als str

theorem plRest_rel (hSR : ∀ s s' x, SR s s' → SR (x :: s) (x :: s')) (w w' : W) (c c' : Cli) (str : Bytes)
    (h : CRel F DRL SR als w w') (hc : RecRel F c c') (hR : RestOK DRL als str) :
    StageOut F DRL SR als (ClientPf.plRest w c str) (ClientPf.plRest w' c' str) := by
  unfold ClientPf.plRest
  unfold RestOK RestP at hR
  cases hm : ClientPf.plMatch str with
  | none =>
    rw [hm] at hR
    dsimp only at hR ⊢
    rw [h.cfg]
    by_cases h1 : casePrefix kwStatus str = true
    · rw [if_pos h1, if_pos h1]
      rw [if_pos (by simp [h1])] at hR
      exact install_rel hSR w w' c c' _ _ h hc (hR _)
    · rw [if_neg h1, if_neg h1]
      by_cases h2 : casePrefix kwTemp str = true
      · rw [if_pos h2, if_pos h2]
        rw [if_pos (by simp [h2])] at hR
        exact install_rel hSR w w' c c' _ _ h hc (hR _)
      · rw [if_neg h2, if_neg h2]
        by_cases h3 : casePrefix kwBeacon str = true
        · rw [if_pos h3, if_pos h3]
          rw [if_pos (by simp [h3])] at hR
          exact install_rel hSR w w' c c' _ _ h hc (hR _)
        · rw [if_neg h3, if_neg h3]
          rw [if_neg (by simp [h1, h2, h3])] at hR
          exact plDevice_rel w w' c c' str h hc hR
  | some ca =>
    obtain ⟨com, arg⟩ := ca
    rw [hm] at hR
    exact plCmd_rel hSR w w' c c' com arg h hc hR

abbrev IdleOK (DRL : Devs → Devs → Prop) (als : List (Name × List Name)) (str : Bytes) : Prop :=
  IdleP (fun names => InstOK DRL (names.map ofChars)) (DevOK DRL) als str

theorem plIdle_rel (hSR : ∀ s s' x, SR s s' → SR (x :: s) (x :: s')) (w w' : W) (c c' : Cli) (str : Bytes)
    (h : CRel F DRL SR als w w') (hc : RecRel F c c') (hR : IdleOK DRL als str) :
    StageOut F DRL SR als (ClientPf.plIdle w c str) (ClientPf.plIdle w' c' str) := by
  unfold ClientPf.plIdle
  split
  · exact plFin_rel w w' c c' _ h hc
  · split
    · exact plNodes_rel w w' c c' h hc
    · split
      · exact plTelemetry_rel w w' c c' h hc
      · split
        · exact plExprange_rel w w' c c' h hc
        · split
          · exact plQuit_rel w w' c c' h hc
          · rename_i a1 a2 a3 a4 a5
            exact plRest_rel hSR w w' c c' str h hc
              (hR (by simpa using a1) (by simpa using a2) (by simpa using a3) (by simpa using a4) (by simpa using a5))

/-- what a request line needs of the relation between the device lists -/
abbrev LineOK (DRL : Devs → Devs → Prop) (als : List (Name × List Name)) (line : Bytes) : Prop :=
  LineP (fun names => InstOK DRL (names.map ofChars)) (DevOK DRL) als line

/-- **one request line in both runs** -/
theorem parseLine_rel (hSR : ∀ s s' x, SR s s' → SR (x :: s) (x :: s')) (w w' : W) (c c' : Cli) (line : Bytes)
    (h : CRel F DRL SR als w w') (hc : RecRel F c c') (hL : LineOK DRL als line) :
    StageOut F DRL SR als (parseLine w c line) (parseLine w' c' line) := by
  rw [ClientPf.parseLine_eq, ClientPf.parseLine_eq]
  unfold ClientPf.parseLine'
  split
  · exact plFin_rel w w' c c' _ h hc
  · rename_i hl
    rw [hc.cmd]
    split
    · exact ⟨h, hc.put _⟩
    · exact plIdle_rel hSR w w' c c' _ h hc (hL hl)

theorem runLines_rel (hSR : ∀ s s' x, SR s s' → SR (x :: s) (x :: s')) : ∀ (ls : List Bytes) (w w' : W) (c c' : Cli),
    CRel F DRL SR als w w' → RecRel F c c' → (∀ l ∈ ls, LineOK DRL als l) →
    StageOut F DRL SR als (ClientPf.runLines w c ls) (ClientPf.runLines w' c' ls) := by
  intro ls
  induction ls with
  | nil => intro w w' c c' h hc _; exact ⟨h, hc⟩
  | cons l ls ih =>
    intro w w' c c' h hc hL
    unfold ClientPf.runLines
    rw [h.exited]
    split
    · exact ⟨h, hc⟩
    · have hc2 : RecRel F { c with fromBuf := c.fromBuf.drop l.length } { c' with fromBuf := c'.fromBuf.drop l.length } := by
        obtain ⟨t, b, rfl, hf⟩ := hc
        exact ⟨t, b, rfl, hf⟩
      obtain ⟨g1, g2⟩ := parseLine_rel hSR w w' _ _ l h hc2 (hL l (by simp))
      exact ih _ _ _ _ g1 g2 (fun x hx => hL x (by simp [hx]))

/-- **`_handle_input` in both runs** -/
theorem handleInput_rel (hSR : ∀ s s' x, SR s s' → SR (x :: s) (x :: s')) (w w' : W) (c c' : Cli)
    (h : CRel F DRL SR als w w') (hc : RecRel F c c') (hL : ∀ l ∈ (ClientPf.linesOf c.fromBuf).1, LineOK DRL als l) :
    StageOut F DRL SR als (handleInput w c) (handleInput w' c') := by
  rw [ClientPf.handleInput_lines, ClientPf.handleInput_lines, hc.fromBuf]
  exact runLines_rel hSR _ w w' c c' h hc hL

/-- device lists / arglist stores are the same in both runs -/
abbrev DEq : Devs → Devs → Prop := fun l l' => l' = l
abbrev SEq : Store → Store → Prop := fun s s' => s' = s

theorem instOK_eq (bn : List Bytes) : InstOK DEq bn := by
  intro l l' h com cid tele al
  cases h
  exact ⟨rfl, rfl, rfl⟩

theorem devOK_eq (t : Option Hostlist) : DevOK DEq t := by
  intro l l' h w w' hs
  cases h
  have : ClientPf.devStep w' t = ClientPf.devStep w t := by
    funext acc nd
    simp only [ClientPf.devStep, hs]
  rw [this]

theorem lineOK_eq (als : List (Name × List Name)) (line : Bytes) : LineOK DEq als line := by
  intro _ _ _ _ _ _
  unfold RestP
  split
  · split
    · exact fun names => instOK_eq _
    · exact fun a _ => devOK_eq _
  · exact fun hl _ => instOK_eq _

theorem hSEq : ∀ (s s' : Store) (x : Nat × List Pm.Dev2.Arg), SEq s s' → SEq (x :: s) (x :: s') := by
  intro s s' x h
  show x :: s' = x :: s
  rw [show s' = s from h]


/-- a request line leaves the alias table alone -/
theorem parseLine_aliases (w : W) (c : Cli) (line : Bytes) : (parseLine w c line).1.cfg.aliases = w.cfg.aliases := by
  have h : CRel (fun _ => false) DEq SEq w.cfg.aliases w w := ⟨rfl, rfl, rfl, rfl, rfl, rfl, rfl, fun _ _ => rfl, rfl⟩
  exact (parseLine_rel hSEq w w c c line h (RecRel.refl _ c) (lineOK_eq _ line)).1.aliases

/-! ### which command a client ends up with (single run) -/

/-- the command of `c1` is that of `c`, or a new one whose target list satisfies `NOK` -/
def CmdStep (NOK : List Name → Prop) (c c1 : Cli) : Prop := c1.cmd = c.cmd ∨ ∃ k, c1.cmd = some k ∧ NOK k.names

theorem CmdStep.refl (NOK : List Name → Prop) (c : Cli) : CmdStep NOK c c := Or.inl rfl

theorem CmdStep.trans {NOK : List Name → Prop} {a b c : Cli} (h1 : CmdStep NOK a b) (h2 : CmdStep NOK b c) : CmdStep NOK a c := by
  rcases h2 with h2 | h2
  · rcases h1 with h1 | h1
    · exact Or.inl (h2.trans h1)
    · exact Or.inr (by rw [h2]; exact h1)
  · exact Or.inr h2

theorem CmdStep.of_eq {NOK : List Name → Prop} {a b : Cli} (h : b.cmd = a.cmd) : CmdStep NOK a b := Or.inl h

theorem install_cmd (NOK : List Name → Prop) (w : W) (c : Cli) (com : Com) (names : List Name) (h : NOK names) :
    CmdStep NOK c (install w c com names).2 := by
  rw [install_nf]
  split
  · exact Or.inl rfl
  · split
    · exact Or.inl rfl
    · exact Or.inr ⟨_, rfl, h⟩

theorem plCmd_cmd (NOK : List Name → Prop) (w : W) (c : Cli) (com : Com) (arg : Bytes)
    (h : ∀ hl, createR (toChars arg) = .ok hl → NOK (expAliases w.cfg.aliases (expand hl))) :
    CmdStep NOK c (ClientPf.plCmd w c com arg).2 := by
  unfold ClientPf.plCmd
  cases hcr : createR (toChars arg) with
  | fatal => exact Or.inl rfl
  | err => exact Or.inl rfl
  | ok hl =>
    dsimp only
    split
    · exact Or.inl rfl
    · exact install_cmd NOK w c com _ (h hl hcr)

theorem plDevice_cmd (w : W) (c : Cli) (str : Bytes) : (ClientPf.plDevice w c str).2.cmd = c.cmd := by
  unfold ClientPf.plDevice
  split
  · rfl
  · split <;> rfl

theorem plRest_cmd (NOK : List Name → Prop) (w : W) (c : Cli) (str : Bytes) (h : RestP NOK (fun _ => True) w.cfg.aliases str) :
    CmdStep NOK c (ClientPf.plRest w c str).2 := by
  unfold ClientPf.plRest
  unfold RestP at h
  cases hm : ClientPf.plMatch str with
  | none =>
    rw [hm] at h
    dsimp only at h ⊢
    by_cases h1 : casePrefix kwStatus str = true
    · rw [if_pos h1]
      rw [if_pos (by simp [h1])] at h
      exact install_cmd NOK w c _ _ (h _)
    · rw [if_neg h1]
      by_cases h2 : casePrefix kwTemp str = true
      · rw [if_pos h2]
        rw [if_pos (by simp [h2])] at h
        exact install_cmd NOK w c _ _ (h _)
      · rw [if_neg h2]
        by_cases h3 : casePrefix kwBeacon str = true
        · rw [if_pos h3]
          rw [if_pos (by simp [h3])] at h
          exact install_cmd NOK w c _ _ (h _)
        · rw [if_neg h3]
          exact Or.inl (plDevice_cmd w c str)
  | some ca =>
    obtain ⟨com, arg⟩ := ca
    rw [hm] at h
    exact plCmd_cmd NOK w c com arg h

theorem plIdle_cmd (NOK : List Name → Prop) (w : W) (c : Cli) (str : Bytes) (h : IdleP NOK (fun _ => True) w.cfg.aliases str) :
    CmdStep NOK c (ClientPf.plIdle w c str).2 := by
  unfold ClientPf.plIdle
  split
  · exact Or.inl rfl
  · split
    · unfold ClientPf.plNodes
      split <;> exact Or.inl rfl
    · split
      · exact Or.inl rfl
      · split
        · exact Or.inl rfl
        · split
          · exact Or.inl (ClientPf.handleWrite_out _ _).2.2.2
          · rename_i a1 a2 a3 a4 a5
            exact plRest_cmd NOK w c str
              (h (by simpa using a1) (by simpa using a2) (by simpa using a3) (by simpa using a4) (by simpa using a5))

theorem parseLine_cmd (NOK : List Name → Prop) (w : W) (c : Cli) (line : Bytes) (h : LineP NOK (fun _ => True) w.cfg.aliases line) :
    CmdStep NOK c (parseLine w c line).2 := by
  rw [ClientPf.parseLine_eq]
  unfold ClientPf.parseLine'
  split
  · exact Or.inl rfl
  · rename_i hl
    split
    · exact Or.inl rfl
    · exact plIdle_cmd NOK w c _ (h hl)

theorem runLines_cmd (NOK : List Name → Prop) : ∀ (ls : List Bytes) (w : W) (c : Cli),
    (∀ l ∈ ls, LineP NOK (fun _ => True) w.cfg.aliases l) → CmdStep NOK c (ClientPf.runLines w c ls).2 := by
  intro ls
  induction ls with
  | nil => intro w c _; exact Or.inl rfl
  | cons l ls ih =>
    intro w c h
    unfold ClientPf.runLines
    split
    · exact Or.inl rfl
    · have h1 : CmdStep NOK c (parseLine w { c with fromBuf := c.fromBuf.drop l.length } l).2 :=
        parseLine_cmd NOK w { c with fromBuf := c.fromBuf.drop l.length } l (h l (by simp))
      refine h1.trans (ih _ _ ?_)
      rw [parseLine_aliases]
      exact fun x hx => h x (by simp [hx])

theorem handleInput_cmd (NOK : List Name → Prop) (w : W) (c : Cli)
    (h : ∀ l ∈ (ClientPf.linesOf c.fromBuf).1, LineP NOK (fun _ => True) w.cfg.aliases l) : CmdStep NOK c (handleInput w c).2 := by
  rw [ClientPf.handleInput_lines]
  exact runLines_cmd NOK _ w c h

end Parse

/-! ### one client's whole share of `cli_post_poll` -/

section Pass
variable {F : Nat → Bool} {DRL : Devs → Devs → Prop} {SR : Store → Store → Prop} {als : List (Name × List Name)}

/-- the outcome of `clientPass` in the two runs: related worlds; the client is destroyed in both or survives in both, with
    related records -/
def PassOut (F : Nat → Bool) (DRL : Devs → Devs → Prop) (SR : Store → Store → Prop) (als : List (Name × List Name))
    (r r' : W × Option Cli) : Prop :=
  CRel F DRL SR als r.1 r'.1 ∧ ((r.2 = none ∧ r'.2 = none) ∨ ∃ x x', r.2 = some x ∧ r'.2 = some x' ∧ RecRel F x x')

theorem cpDead_rel (w w' : W) (c c' : Cli) (h : CRel F DRL SR als w w') (hc : RecRel F c c') :
    PassOut F DRL SR als (ClientPf.cpDead w c) (ClientPf.cpDead w' c') := by
  unfold ClientPf.cpDead
  rw [hc.fd]
  exact ⟨h.log _, Or.inl ⟨rfl, rfl⟩⟩

theorem cpTail_rel (r r' : W × Cli) (h : StageOut F DRL SR als r r') :
    PassOut F DRL SR als (ClientPf.cpTail r) (ClientPf.cpTail r') := by
  unfold ClientPf.cpTail
  rw [h.1.exited, h.2.quit, h.2.cmd]
  split
  · exact ⟨h.1, Or.inr ⟨_, _, rfl, rfl, h.2⟩⟩
  · split
    · exact cpDead_rel _ _ _ _ h.1 h.2
    · exact ⟨h.1, Or.inr ⟨_, _, rfl, rfl, h.2⟩⟩

theorem cpRead_caps (w : W) (c : Cli) (e : Option FdEnv) (fd : Nat) : capOf (ClientPf.cpRead w c e).1 fd = capOf w fd := by
  unfold ClientPf.cpRead
  repeat' split
  all_goals rfl

/-- the complete request lines `_handle_input` will find in this pass: those of the input buffer after `_handle_read` (if
    the descriptor is reported readable) -/
def turnLines (c : Cli) (e : Option FdEnv) : List Bytes :=
  (ClientPf.linesOf (if (ClientPf.cpRev c e &&& 1 != 0 || ClientPf.cpRev c e &&& 4 != 0) = true
    then (ClientPf.cpRead { cfg := { plugs := [], has := [], nodes := [], version := [] }, clients := [] } (clipC c e) (clipE c e)).2
    else c).fromBuf).1

theorem cpRead_snd (w w0 : W) (c : Cli) (e : Option FdEnv) : (ClientPf.cpRead w c e).2 = (ClientPf.cpRead w0 c e).2 := by
  unfold ClientPf.cpRead
  repeat' split
  all_goals rfl

/-- **`clientPass` in both runs.**  The two records are related, the two worlds are related; the events reported for the
    descriptor lead to the same decisions (`hdead`: destroyed at once, `hread`: `_handle_read` called, and then with the
    same bytes `hin`); on a descriptor outside `F` also to the same decision about `_handle_write` (`hwr`); on a descriptor of
    `F` the second run is not reported writable, and in the first run a write — if there is one — does not mark the client
    as gone (`hst`); the request lines found need nothing more of the devices than the relation gives (`hL`). -/
theorem clientPass_rel (hSR : ∀ s s' x, SR s s' → SR (x :: s) (x :: s')) (w w' : W) (c c' : Cli) (e e' : Option FdEnv)
    (h : CRel F DRL SR als w w') (hc : RecRel F c c')
    (hdead : (ClientPf.cpRev c' e' &&& 8 != 0 || ClientPf.cpRev c' e' &&& 16 != 0) = (ClientPf.cpRev c e &&& 8 != 0 || ClientPf.cpRev c e &&& 16 != 0))
    (hread : (ClientPf.cpRev c' e' &&& 1 != 0 || ClientPf.cpRev c' e' &&& 4 != 0) = (ClientPf.cpRev c e &&& 1 != 0 || ClientPf.cpRev c e &&& 4 != 0))
    (hin : SameIn e e')
    (hwr : F c.fd = false → (ClientPf.cpRev c' e' &&& 2 != 0) = (ClientPf.cpRev c e &&& 2 != 0))
    (hst : F c.fd = true → (ClientPf.cpRev c' e' &&& 2 != 0) = false ∧
      ((ClientPf.cpRev c e &&& 2 != 0) = true → c.quit = false → 0 < capOf w c.fd))
    (hL : ∀ l ∈ turnLines c e, LineOK DRL als l) :
    PassOut F DRL SR als (clientPass w c e) (clientPass w' c' e') := by
  rw [ClientPf.clientPass_eq, ClientPf.clientPass_eq]
  unfold ClientPf.clientPass'
  dsimp only
  rw [hdead, hread]
  split
  · exact cpDead_rel w w' c c' h hc
  · -- `_handle_read`
    have h1 : StageOut F DRL SR als
        (if (ClientPf.cpRev c e &&& 1 != 0 || ClientPf.cpRev c e &&& 4 != 0) = true then ClientPf.cpRead w (clipC c e) (clipE c e) else (w, c))
        (if (ClientPf.cpRev c e &&& 1 != 0 || ClientPf.cpRev c e &&& 4 != 0) = true then ClientPf.cpRead w' (clipC c' e') (clipE c' e') else (w', c')) := by
      split
      · obtain ⟨g1, g2⟩ := clipC_rel c c' e e' hc hin
        exact cpRead_rel w w' _ _ _ _ h g1 g2
      · exact ⟨h, hc⟩
    have hfb : (if (ClientPf.cpRev c e &&& 1 != 0 || ClientPf.cpRev c e &&& 4 != 0) = true then ClientPf.cpRead w (clipC c e) (clipE c e) else (w, c)).2.fromBuf
        = (if (ClientPf.cpRev c e &&& 1 != 0 || ClientPf.cpRev c e &&& 4 != 0) = true
            then (ClientPf.cpRead { cfg := { plugs := [], has := [], nodes := [], version := [] }, clients := [] } (clipC c e) (clipE c e)).2 else c).fromBuf := by
      split
      · rw [cpRead_snd w]
      · rfl
    have hcap : capOf (if (ClientPf.cpRev c e &&& 1 != 0 || ClientPf.cpRev c e &&& 4 != 0) = true then ClientPf.cpRead w (clipC c e) (clipE c e) else (w, c)).1 c.fd
        = capOf w c.fd := by
      split
      · exact cpRead_caps _ _ _ _
      · rfl
    have hq1 : (if (ClientPf.cpRev c e &&& 1 != 0 || ClientPf.cpRev c e &&& 4 != 0) = true then ClientPf.cpRead w (clipC c e) (clipE c e) else (w, c)).2.quit = false → c.quit = false := by
      split
      · intro hq
        cases hcq : c.quit with
        | false => rfl
        | true =>
          obtain ⟨ext, hi, _⟩ := cpRead_iso w (clipC c e) (clipE c e)
          have := hi.quit (by simpa using hcq)
          rw [this] at hq; cases hq
      · exact fun h => h
    have hfd1 : (if (ClientPf.cpRev c e &&& 1 != 0 || ClientPf.cpRev c e &&& 4 != 0) = true then ClientPf.cpRead w (clipC c e) (clipE c e) else (w, c)).2.fd = c.fd := by
      split
      · obtain ⟨ext, hi, _⟩ := cpRead_iso w (clipC c e) (clipE c e)
        rw [hi.fd]; simp
      · rfl
    generalize (if (ClientPf.cpRev c e &&& 1 != 0 || ClientPf.cpRev c e &&& 4 != 0) = true then ClientPf.cpRead w (clipC c e) (clipE c e) else (w, c)) = r1 at *
    generalize (if (ClientPf.cpRev c e &&& 1 != 0 || ClientPf.cpRev c e &&& 4 != 0) = true then ClientPf.cpRead w' (clipC c' e') (clipE c' e') else (w', c')) = r1' at *
    -- `_handle_write`
    have h2 : StageOut F DRL SR als (if (ClientPf.cpRev c e &&& 2 != 0) = true then handleWrite r1.1 r1.2 else r1)
        (if (ClientPf.cpRev c' e' &&& 2 != 0) = true then handleWrite r1'.1 r1'.2 else r1') := by
      cases hF : F c.fd with
      | false =>
        rw [hwr hF]
        split
        · exact handleWrite_rel _ _ _ _ h1.1 h1.2 (fun hh => by rw [hfd1, hF] at hh; cases hh)
        · exact h1
      | true =>
        obtain ⟨hs1, hs2⟩ := hst hF
        rw [hs1]
        simp only [Bool.false_eq_true, ↓reduceIte]
        split
        · rename_i hw
          cases hq : r1.2.quit with
          | true =>
            -- the client had quit: `_handle_write` keeps the flag
            obtain ⟨s1, _⟩ := handleWrite_self r1.1 r1.2
            exact handleWrite_relL _ _ _ _ h1.1 h1.2 (by rw [hfd1]; exact hF) (by rw [s1.quit hq, hq])
          | false =>
            obtain ⟨s1, s2⟩ := handleWrite_self r1.1 r1.2
            refine handleWrite_relL _ _ _ _ h1.1 h1.2 (by rw [hfd1]; exact hF) ?_
            rw [hq]
            cases hq2 : (handleWrite r1.1 r1.2).2.quit with
            | false => rfl
            | true =>
              have hpos := hs2 hw (hq1 hq)
              rcases s2 hq2 with hh | ⟨_, hh | ⟨_, hh⟩⟩
              · rw [hq] at hh; cases hh
              · rw [hfd1, hcap] at hh; omega
              · rw [hfd1, hcap] at hh; omega
        · exact h1
    have hfb2 : (if (ClientPf.cpRev c e &&& 2 != 0) = true then handleWrite r1.1 r1.2 else r1).2.fromBuf = r1.2.fromBuf := by
      split
      · obtain ⟨s1, _⟩ := handleWrite_self r1.1 r1.2
        rw [s1.recd]
      · rfl
    generalize (if (ClientPf.cpRev c e &&& 2 != 0) = true then handleWrite r1.1 r1.2 else r1) = r2 at *
    generalize (if (ClientPf.cpRev c' e' &&& 2 != 0) = true then handleWrite r1'.1 r1'.2 else r1') = r2' at *
    -- `_handle_input`
    refine cpTail_rel _ _ (handleInput_rel hSR _ _ _ _ h2.1 h2.2 ?_)
    rw [hfb2, hfb]
    exact hL

/-- the same for a client whose record and whose events are the same in both runs (descriptor outside `F`) -/
theorem clientPass_rel_eq (hSR : ∀ s s' x, SR s s' → SR (x :: s) (x :: s')) (w w' : W) (c : Cli) (e : Option FdEnv)
    (h : CRel F DRL SR als w w') (hF : F c.fd = false) (hL : ∀ l ∈ turnLines c e, LineOK DRL als l) :
    PassOut F DRL SR als (clientPass w c e) (clientPass w' c e) :=
  clientPass_rel hSR w w' c c e e h (RecRel.refl F c) rfl rfl rfl (fun _ => rfl) (fun hh => by rw [hF] at hh; cases hh) hL

/-- one client's share leaves the alias table alone -/
theorem clientPass_aliases (w : W) (c : Cli) (e : Option FdEnv) : (clientPass w c e).1.cfg.aliases = w.cfg.aliases := by
  have h : CRel (fun _ => false) DEq SEq w.cfg.aliases w w := ⟨rfl, rfl, rfl, rfl, rfl, rfl, rfl, fun _ _ => rfl, rfl⟩
  exact (clientPass_rel_eq hSEq w w c e h rfl (fun l _ => lineOK_eq _ l)).1.aliases

/-- the command a client ends its share of the pass with: the old one, or one whose targets satisfy `NOK` -/
theorem clientPass_cmd (NOK : List Name → Prop) (w : W) (c : Cli) (e : Option FdEnv) (x : Cli) (hx : (clientPass w c e).2 = some x)
    (hL : ∀ l ∈ turnLines c e, LineP NOK (fun _ => True) w.cfg.aliases l) : CmdStep NOK c x := by
  rw [ClientPf.clientPass_eq] at hx
  unfold ClientPf.clientPass' at hx
  dsimp only at hx
  split at hx
  · simp [ClientPf.cpDead] at hx
  · have h1 : (if (ClientPf.cpRev c e &&& 1 != 0 || ClientPf.cpRev c e &&& 4 != 0) = true then ClientPf.cpRead w (clipC c e) (clipE c e) else (w, c)).2.cmd = c.cmd
        ∧ (if (ClientPf.cpRev c e &&& 1 != 0 || ClientPf.cpRev c e &&& 4 != 0) = true then ClientPf.cpRead w (clipC c e) (clipE c e) else (w, c)).1.cfg.aliases = w.cfg.aliases
        ∧ (if (ClientPf.cpRev c e &&& 1 != 0 || ClientPf.cpRev c e &&& 4 != 0) = true then ClientPf.cpRead w (clipC c e) (clipE c e) else (w, c)).2.fromBuf
          = (if (ClientPf.cpRev c e &&& 1 != 0 || ClientPf.cpRev c e &&& 4 != 0) = true
              then (ClientPf.cpRead { cfg := { plugs := [], has := [], nodes := [], version := [] }, clients := [] } (clipC c e) (clipE c e)).2 else c).fromBuf := by
      split
      · refine ⟨by rw [(ClientPf.cpRead_out w _ _).2.2.2]; simp, ?_, by rw [cpRead_snd w]⟩
        unfold ClientPf.cpRead
        repeat' split
        all_goals rfl
      · exact ⟨rfl, rfl, rfl⟩
    generalize (if (ClientPf.cpRev c e &&& 1 != 0 || ClientPf.cpRev c e &&& 4 != 0) = true then ClientPf.cpRead w (clipC c e) (clipE c e) else (w, c)) = r1 at *
    have h2 : (if (ClientPf.cpRev c e &&& 2 != 0) = true then handleWrite r1.1 r1.2 else r1).2.cmd = r1.2.cmd
        ∧ (if (ClientPf.cpRev c e &&& 2 != 0) = true then handleWrite r1.1 r1.2 else r1).1.cfg.aliases = r1.1.cfg.aliases
        ∧ (if (ClientPf.cpRev c e &&& 2 != 0) = true then handleWrite r1.1 r1.2 else r1).2.fromBuf = r1.2.fromBuf := by
      split
      · obtain ⟨s1, _⟩ := handleWrite_self r1.1 r1.2
        refine ⟨(ClientPf.handleWrite_out _ _).2.2.2, by rw [s1.world], by rw [s1.recd]⟩
      · exact ⟨rfl, rfl, rfl⟩
    generalize (if (ClientPf.cpRev c e &&& 2 != 0) = true then handleWrite r1.1 r1.2 else r1) = r2 at *
    have h3 : CmdStep NOK r2.2 (handleInput r2.1 r2.2).2 := by
      apply handleInput_cmd
      rw [h2.2.1, h1.2.1, h2.2.2, h1.2.2]
      exact hL
    have hx2 : x = (handleInput r2.1 r2.2).2 := cpTail_some _ x hx
    rw [hx2]
    exact (CmdStep.of_eq (h2.1.trans h1.1)).trans h3

/-! ### a turn that brings nothing from the peer -/

/-- nothing arrives from this client in this pass: its descriptor is not reported readable (nor hung up), and no complete
    request line waits in its input buffer.  (It may be written to, and it may be destroyed.) -/
def Inert (envs : List FdEnv) (c : Cli) : Prop :=
  ClientPf.cpRev c (envs.find? (·.fd == c.fd)) &&& 1 = 0 ∧ ClientPf.cpRev c (envs.find? (·.fd == c.fd)) &&& 4 = 0 ∧
  c.fromBuf.idxOf? 10 = none

/-- the world changes only in the log (calls on `fd`) and in the write capacity of `fd` -/
structure SelfW (w : W) (fd : Nat) (w1 : W) : Prop where
  world : w1 = { w with sys := w1.sys, caps := w1.caps }
  sys : ∃ xs, w1.sys = w.sys ++ xs ∧ ∀ x ∈ xs, sysFd x = some fd
  caps : ∀ fd', fd' ≠ fd → capOf w1 fd' = capOf w fd'

theorem SelfW.refl (w : W) (fd : Nat) : SelfW w fd w := ⟨rfl, ⟨[], by simp, by simp⟩, fun _ _ => rfl⟩

theorem SelfW.close {w w1 : W} {fd : Nat} (h : SelfW w fd w1) : SelfW w fd { w1 with sys := w1.sys ++ [Sys.close fd] } := by
  obtain ⟨xs, h1, h2⟩ := h.sys
  refine ⟨?_, ⟨xs ++ [Sys.close fd], by simp [h1], ?_⟩, h.caps⟩
  · have := h.world
    show ({ w1 with sys := w1.sys ++ [Sys.close fd] } : W) = { w with sys := w1.sys ++ [Sys.close fd], caps := w1.caps }
    rw [this]
  · intro x hx
    rcases List.mem_append.mp hx with hx | hx
    · exact h2 x hx
    · simp only [List.mem_singleton] at hx; subst hx; rfl

/-- **the share of an inert client**: only its own descriptor's log and capacity, and its own record -/
theorem clientPass_inert (w : W) (c : Cli) (e : Option FdEnv) (h1 : ClientPf.cpRev c e &&& 1 = 0) (h4 : ClientPf.cpRev c e &&& 4 = 0)
    (hl : c.fromBuf.idxOf? 10 = none) : SelfW w c.fd (clientPass w c e).1 := by
  rw [ClientPf.clientPass_eq]
  unfold ClientPf.clientPass'
  dsimp only
  split
  · exact (SelfW.refl w c.fd).close
  · simp only [h1, h4, bne_self_eq_false, Bool.or_self, Bool.false_eq_true, ↓reduceIte]
    have h2 : SelfW w c.fd (if (ClientPf.cpRev c e &&& 2 != 0) = true then handleWrite w c else (w, c)).1 ∧
        (if (ClientPf.cpRev c e &&& 2 != 0) = true then handleWrite w c else (w, c)).2.fromBuf = c.fromBuf ∧
        (if (ClientPf.cpRev c e &&& 2 != 0) = true then handleWrite w c else (w, c)).2.fd = c.fd := by
      split
      · obtain ⟨s1, _⟩ := handleWrite_self w c
        exact ⟨⟨s1.world, s1.sys, s1.caps⟩, by rw [s1.recd], by rw [s1.recd]⟩
      · exact ⟨SelfW.refl w c.fd, rfl, rfl⟩
    generalize (if (ClientPf.cpRev c e &&& 2 != 0) = true then handleWrite w c else (w, c)) = r2 at *
    rw [handleInput_quiet r2.1 r2.2 (by rw [h2.2.1]; exact hl)]
    unfold ClientPf.cpTail
    split
    · exact h2.1
    · split
      · show SelfW w c.fd { r2.1 with sys := r2.1.sys ++ [Sys.close r2.2.fd] }
        rw [h2.2.2]
        exact h2.1.close
      · exact h2.1

end Pass

/-! ### the loop of `cli_post_poll` -/

section Loop
variable {F : Nat → Bool} {DRL : Devs → Devs → Prop} {SR : Store → Store → Prop} {als : List (Name × List Name)}

theorem CRel.setClients {w w' : W} (h : CRel F DRL SR als w w') (X X' : List Cli) :
    CRel F DRL SR als { w with clients := X } { w' with clients := X' } :=
  ⟨h.aliases, h.cfg, h.specs, h.alNext, h.exited, h.devs, h.store, h.caps, h.sys⟩

/-- the counters `clientPass` neither reads nor writes -/
def ctrs (w : W) : Nat × Nat × Nat × Nat × Nat × Option Nat × List Pm.Dev2.RxCall :=
  (w.nextId, w.nacc, w.nsock, w.npair, w.nfork, w.tmo, w.pendingX)

theorem cliStep_ctrs (envs : List FdEnv) (w : W) (c0 : Cli) : ctrs (ClientPf.cliStep envs w c0) = ctrs w := by
  rcases cliStep_cases envs w c0 with ⟨_, e⟩ | ⟨_, ext, hp, ⟨c, _, e⟩ | ⟨_, e⟩⟩
  · rw [e]
  · rw [e]
    have := hp.kept
    simp only [kept, Prod.mk.injEq] at this
    obtain ⟨_, _, a1, a2, a3, a4, a5, a6, a7⟩ := this
    simp only [ctrs, a1, a2, a3, a4, a5, a6, a7]
  · rw [e]
    have := hp.kept
    simp only [kept, Prod.mk.injEq] at this
    obtain ⟨_, _, a1, a2, a3, a4, a5, a6, a7⟩ := this
    simp only [ctrs, a1, a2, a3, a4, a5, a6, a7]

theorem foldl_cliStep_ctrs (envs : List FdEnv) (l : List Cli) (w : W) : ctrs (l.foldl (ClientPf.cliStep envs) w) = ctrs w := by
  induction l generalizing w with
  | nil => rfl
  | cons c r ih => rw [List.foldl_cons, ih, cliStep_ctrs]

/-- **one turn of the loop in both runs**: given the two-run outcome of `clientPass`, the worlds and the client tables are
    related again -/
theorem cliStep_rel (envs envs' : List FdEnv) (w w' : W) (c c' : Cli)
    (h : CRel F DRL SR als w w') (ht : L2 (RecRel F) w.clients w'.clients) (hc : RecRel F c c')
    (hp : w.exited = false → PassOut F DRL SR als (clientPass w c (envs.find? (·.fd == c.fd))) (clientPass w' c' (envs'.find? (·.fd == c'.fd)))) :
    CRel F DRL SR als (ClientPf.cliStep envs w c) (ClientPf.cliStep envs' w' c') ∧
    L2 (RecRel F) (ClientPf.cliStep envs w c).clients (ClientPf.cliStep envs' w' c').clients := by
  unfold ClientPf.cliStep
  rw [h.exited]
  cases hex : w.exited with
  | true => simp only [↓reduceIte]; exact ⟨h, ht⟩
  | false =>
    simp only [Bool.false_eq_true, ↓reduceIte]
    have hk := kept_clients (clientPass_iso w c (envs.find? (·.fd == c.fd))).choose_spec.1.kept
    have hk' := kept_clients (clientPass_iso w' c' (envs'.find? (·.fd == c'.fd))).choose_spec.1.kept
    obtain ⟨g1, g2⟩ := hp hex
    generalize clientPass w c (envs.find? (·.fd == c.fd)) = r at *
    generalize clientPass w' c' (envs'.find? (·.fd == c'.fd)) = r' at *
    obtain ⟨w1, o⟩ := r
    obtain ⟨w1', o'⟩ := r'
    rcases g2 with ⟨e1, e2⟩ | ⟨x, x', e1, e2, hx⟩
    · simp only at e1 e2 hk hk'
      subst e1 e2
      dsimp only
      refine ⟨g1.setClients _ _, ?_⟩
      rw [hk, hk']
      exact L2.filter _ _ ht (fun a b hab => by rw [hab.id, hc.id])
    · simp only at e1 e2 hk hk'
      subst e1 e2
      dsimp only
      refine ⟨g1.setClients _ _, ?_⟩
      rw [hk, hk']
      refine L2.map _ _ ht (fun a b hab => ?_)
      rw [hab.id, hx.id]
      split
      · exact hx
      · exact hab

/-- **a stretch of the loop served identically in both runs**: clients on descriptors outside `F`, with the same events in both
    pass inputs, whose request lines need nothing more of the devices than the relation gives -/
theorem foldl_cliStep_rel (hSR : ∀ s s' x, SR s s' → SR (x :: s) (x :: s')) (envs envs' : List FdEnv) (l : List Cli)
    (hl : ∀ c ∈ l, F c.fd = false ∧ envs'.find? (·.fd == c.fd) = envs.find? (·.fd == c.fd) ∧
      ∀ x ∈ turnLines c (envs.find? (·.fd == c.fd)), LineOK DRL als x) :
    ∀ (w w' : W), CRel F DRL SR als w w' → L2 (RecRel F) w.clients w'.clients →
      CRel F DRL SR als (l.foldl (ClientPf.cliStep envs) w) (l.foldl (ClientPf.cliStep envs') w') ∧
      L2 (RecRel F) (l.foldl (ClientPf.cliStep envs) w).clients (l.foldl (ClientPf.cliStep envs') w').clients := by
  induction l with
  | nil => intro w w' h ht; exact ⟨h, ht⟩
  | cons c r ih =>
    intro w w' h ht
    rw [List.foldl_cons, List.foldl_cons]
    obtain ⟨h1, h2, h3⟩ := hl c (by simp)
    obtain ⟨g1, g2⟩ := cliStep_rel envs envs' w w' c c h ht (RecRel.refl F c) (fun _ => by
      rw [h2]; exact clientPass_rel_eq hSR w w' c _ h h1 h3)
    exact ih (fun x hx => hl x (by simp [hx])) _ _ g1 g2

theorem L2.split {α β : Type} {R : α → β → Prop} : ∀ (a : List α) (x : α) (b : List α) (l' : List β), L2 R (a ++ x :: b) l' →
    ∃ a' x' b', l' = a' ++ x' :: b' ∧ L2 R a a' ∧ R x x' ∧ L2 R b b' := by
  intro a
  induction a with
  | nil =>
    intro x b l' h
    cases h with
    | cons hx hb => exact ⟨[], _, _, rfl, .nil, hx, hb⟩
  | cons y a ih =>
    intro x b l' h
    cases h with
    | cons hy hr =>
      obtain ⟨a', x', b', e, h1, h2, h3⟩ := ih x b _ hr
      exact ⟨_ :: a', x', b', by rw [e]; rfl, .cons hy h1, h2, h3⟩

/-- entries on descriptors outside `F` are the same -/
theorem L2.eq_of_off {l l' : List Cli} (h : L2 (RecRel F) l l') (hF : ∀ c ∈ l, F c.fd = false) : l' = l := by
  induction h with
  | nil => rfl
  | cons hab _ ih =>
    rw [hab.eq (hF _ (by simp)), ih (fun c hc => hF c (by simp [hc]))]

/-! ### tables that agree on the clients outside `F` only; clients of `F` inert -/

theorem CRel.selfWL {w w' w1 : W} {fd : Nat} (h : CRel F DRL SR als w w') (hs : SelfW w fd w1) (hF : F fd = true) :
    CRel F DRL SR als w1 w' := by
  obtain ⟨xs, hx, hxs⟩ := hs.sys
  have hw := hs.world
  refine ⟨by rw [hw]; exact h.aliases, by rw [hw]; exact h.cfg, by rw [hw]; exact h.specs, by rw [hw]; exact h.alNext,
    by rw [hw]; exact h.exited, by rw [hw]; exact h.devs, by rw [hw]; exact h.store, ?_, ?_⟩
  · intro fd' hf
    have : fd' ≠ fd := fun e => by rw [e, hF] at hf; cases hf
    rw [h.caps fd' hf, hs.caps fd' this]
  · rw [hx, List.filter_append, h.sys]
    have : xs.filter (offF F) = [] := by
      rw [List.filter_eq_nil_iff]
      intro x hxm
      simp [offF, hxs x hxm, hF]
    rw [this, List.append_nil]

theorem CRel.selfWR {w w' w1 : W} {fd : Nat} (h : CRel F DRL SR als w w') (hs : SelfW w' fd w1) (hF : F fd = true) :
    CRel F DRL SR als w w1 := by
  obtain ⟨xs, hx, hxs⟩ := hs.sys
  have hw := hs.world
  refine ⟨h.aliases, by rw [hw]; exact h.cfg, by rw [hw]; exact h.specs, by rw [hw]; exact h.alNext,
    by rw [hw]; exact h.exited, by rw [hw]; exact h.devs, by rw [hw]; exact h.store, ?_, ?_⟩
  · intro fd' hf
    have : fd' ≠ fd := fun e => by rw [e, hF] at hf; cases hf
    rw [hs.caps fd' this, h.caps fd' hf]
  · rw [hx, List.filter_append, h.sys]
    have : xs.filter (offF F) = [] := by
      rw [List.filter_eq_nil_iff]
      intro x hxm
      simp [offF, hxs x hxm, hF]
    rw [this, List.append_nil]

/-- the write-back of the loop of `cli_post_poll`: the served record replaces the table entry, or the entry is unlinked -/
def tabUpd (o : Option Cli) (id : Nat) (T : List Cli) : List Cli :=
  match o with
  | some c => T.map fun x => if x.id == id then c else x
  | none => T.filter fun x => x.id != id

theorem cliStep_tab (envs : List FdEnv) (w : W) (c0 : Cli) (hex : w.exited = false) :
    ClientPf.cliStep envs w c0 = { (clientPass w c0 (envs.find? (·.fd == c0.fd))).1 with
      clients := tabUpd (clientPass w c0 (envs.find? (·.fd == c0.fd))).2 c0.id w.clients } ∧
    (∀ x, (clientPass w c0 (envs.find? (·.fd == c0.fd))).2 = some x → x.id = c0.id ∧ x.fd = c0.fd) := by
  rcases cliStep_cases envs w c0 with ⟨hx, _⟩ | ⟨_, ext, hp, ⟨c, hc, e⟩ | ⟨hn, e⟩⟩
  · rw [hex] at hx; cases hx
  · refine ⟨?_, fun x hx => ⟨(hp.alive x hx).1, (hp.alive x hx).2.1⟩⟩
    rw [e, hc]; rfl
  · refine ⟨?_, fun x hx => by rw [hn] at hx; cases hx⟩
    rw [e, hn]; rfl

/-- the table entry is on a descriptor outside `F` -/
def nonF (F : Nat → Bool) (c : Cli) : Bool := !F c.fd

theorem filter_tabUpd_foreign (o : Option Cli) (id : Nat) (T : List Cli) (hT : ∀ x ∈ T, x.id = id → F x.fd = true)
    (ho : ∀ x, o = some x → F x.fd = true) : (tabUpd o id T).filter (nonF F) = T.filter (nonF F) := by
  induction T with
  | nil => cases o <;> rfl
  | cons y r ih =>
    have ih' := ih (fun x hx => hT x (by simp [hx]))
    cases o with
    | none =>
      simp only [tabUpd] at ih' ⊢
      rw [List.filter_cons]
      by_cases hy : y.id = id
      · have h1 : (y.id != id) = false := by simpa using hy
        have h2 : nonF F y = false := by simp [nonF, hT y (by simp) hy]
        rw [h1]
        simp only [Bool.false_eq_true, ↓reduceIte]
        rw [ih', List.filter_cons, h2]
        simp
      · have h1 : (y.id != id) = true := by simpa using hy
        rw [h1]
        simp only [↓reduceIte]
        rw [List.filter_cons, List.filter_cons, ih']
    | some c =>
      simp only [tabUpd] at ih' ⊢
      rw [List.map_cons, List.filter_cons, List.filter_cons, ih']
      by_cases hy : y.id = id
      · have h1 : (y.id == id) = true := by simpa using hy
        have h2 : nonF F y = false := by simp [nonF, hT y (by simp) hy]
        have h3 : nonF F c = false := by simp [nonF, ho c rfl]
        simp only [h1, ↓reduceIte, h2, h3, Bool.false_eq_true]
      · have h1 : (y.id == id) = false := by simpa using hy
        simp only [h1, Bool.false_eq_true, ↓reduceIte]

theorem filter_tabUpd_tracked (o : Option Cli) (id : Nat) (T : List Cli) (hT : ∀ x ∈ T, x.id = id → F x.fd = false)
    (ho : ∀ x, o = some x → F x.fd = false) : (tabUpd o id T).filter (nonF F) = tabUpd o id (T.filter (nonF F)) := by
  induction T with
  | nil => cases o <;> rfl
  | cons y r ih =>
    have ih' := ih (fun x hx => hT x (by simp [hx]))
    cases o with
    | none =>
      simp only [tabUpd] at ih' ⊢
      rw [List.filter_cons]
      by_cases hy : y.id = id
      · have h1 : (y.id != id) = false := by simpa using hy
        have h2 : nonF F y = true := by simp [nonF, hT y (by simp) hy]
        rw [h1]
        simp only [Bool.false_eq_true, ↓reduceIte]
        rw [ih', List.filter_cons, h2]
        simp only [↓reduceIte]
        rw [List.filter_cons, h1]
        simp
      · have h1 : (y.id != id) = true := by simpa using hy
        rw [h1]
        simp only [↓reduceIte]
        rw [List.filter_cons, ih', List.filter_cons]
        split
        · rw [List.filter_cons, h1]; simp
        · rfl
    | some c =>
      simp only [tabUpd] at ih' ⊢
      rw [List.map_cons, List.filter_cons, ih', List.filter_cons]
      by_cases hy : y.id = id
      · have h1 : (y.id == id) = true := by simpa using hy
        have h2 : nonF F y = true := by simp [nonF, hT y (by simp) hy]
        have h3 : nonF F c = true := by simp [nonF, ho c rfl]
        simp only [h1, ↓reduceIte, h2, h3, List.map_cons]
      · have h1 : (y.id == id) = false := by simpa using hy
        simp only [h1, Bool.false_eq_true, ↓reduceIte]
        split
        · simp only [List.map_cons, h1, Bool.false_eq_true, ↓reduceIte]
        · rfl

/-- the two lists of clients to be served, merged: a client outside `F` is served in both runs (`both`), a client of `F` in
    one run only -/
inductive Merge (F : Nat → Bool) : List Cli → List Cli → Prop
  | nil : Merge F [] []
  | both {c : Cli} {l l' : List Cli} : F c.fd = false → Merge F l l' → Merge F (c :: l) (c :: l')
  | left {c : Cli} {l l' : List Cli} : F c.fd = true → Merge F l l' → Merge F (c :: l) l'
  | right {c' : Cli} {l l' : List Cli} : F c'.fd = true → Merge F l l' → Merge F l (c' :: l')

theorem merge_of_filter : ∀ (l l' : List Cli), l.filter (nonF F) = l'.filter (nonF F) → Merge F l l' := by
  intro l
  induction l with
  | nil =>
    intro l'
    induction l' with
    | nil => intro _; exact .nil
    | cons c' r' ih' =>
      intro h
      rw [List.filter_cons] at h
      split at h
      · simp at h
      · rename_i hc
        exact .right (by simpa [nonF] using hc) (ih' h)
  | cons c r ih =>
    intro l' h
    by_cases hc : F c.fd = true
    · rw [List.filter_cons, show nonF F c = false by simp [nonF, hc]] at h
      exact .left hc (ih l' h)
    · have hc' : F c.fd = false := by simpa using hc
      rw [List.filter_cons, show nonF F c = true by simp [nonF, hc']] at h
      simp only [↓reduceIte] at h
      induction l' with
      | nil => simp at h
      | cons c' r' ih' =>
        rw [List.filter_cons] at h
        split at h
        · simp only [List.cons.injEq] at h
          obtain ⟨rfl, h2⟩ := h
          exact .both hc' (ih r' h2)
        · rename_i hn
          exact .right (by simpa [nonF] using hn) (ih' h)

/-- the table records of the clients still to be served sit on those clients' descriptors -/
def FdOf (T L : List Cli) : Prop := ∀ x ∈ T, ∀ c ∈ L, x.id = c.id → x.fd = c.fd

theorem FdOf.step {T L : List Cli} {c0 : Cli} {o : Option Cli} (h : FdOf T (c0 :: L)) (hnd : ((c0 :: L).map (·.id)).Nodup)
    (ho : ∀ x, o = some x → x.id = c0.id ∧ x.fd = c0.fd) : FdOf (tabUpd o c0.id T) L := by
  rw [List.map_cons, List.nodup_cons] at hnd
  intro x' hx' c hc hid
  cases o with
  | none =>
    simp only [tabUpd, List.mem_filter] at hx'
    exact h x' hx'.1 c (by simp [hc]) hid
  | some x1 =>
    simp only [tabUpd, List.mem_map] at hx'
    obtain ⟨x, hx, rfl⟩ := hx'
    by_cases hxi : x.id = c0.id
    · have h1 : (x.id == c0.id) = true := by simpa using hxi
      simp only [h1, ↓reduceIte] at hid ⊢
      exfalso
      apply hnd.1
      rw [← (ho x1 rfl).1, hid]
      exact List.mem_map.mpr ⟨c, hc, rfl⟩
    · have h1 : (x.id == c0.id) = false := by simpa using hxi
      simp only [h1, Bool.false_eq_true, ↓reduceIte] at hid ⊢
      exact h x hx c (by simp [hc]) hid

theorem FdOf.tail {T L : List Cli} {c0 : Cli} (h : FdOf T (c0 :: L)) : FdOf T L :=
  fun x hx c hc => h x hx c (by simp [hc])

/-- **the loop of `cli_post_poll` in both runs, general tables.**  The lists served are merged (`Merge`): a client outside `F` is
    in both lists with the same record, has the same events in both pass inputs, and its request lines need nothing more of
    the devices than the relation gives; a client of `F` is in one list (or, unrelated, in both) and is inert.  Then the
    worlds stay related and the tables still agree on the clients outside `F`. -/
theorem foldl_merge (hSR : ∀ s s' x, SR s s' → SR (x :: s) (x :: s')) (envs envs' : List FdEnv) :
    ∀ (L L' : List Cli), Merge F L L' → (L.map (·.id)).Nodup → (L'.map (·.id)).Nodup →
    (∀ c ∈ L, F c.fd = false → envs'.find? (·.fd == c.fd) = envs.find? (·.fd == c.fd) ∧
      ∀ x ∈ turnLines c (envs.find? (·.fd == c.fd)), LineOK DRL als x) →
    (∀ c ∈ L, F c.fd = true → Inert envs c) → (∀ c ∈ L', F c.fd = true → Inert envs' c) →
    ∀ (w w' : W), CRel F DRL SR als w w' → w'.clients.filter (nonF F) = w.clients.filter (nonF F) →
      FdOf w.clients L → FdOf w'.clients L' →
      CRel F DRL SR als (L.foldl (ClientPf.cliStep envs) w) (L'.foldl (ClientPf.cliStep envs') w') ∧
      (L'.foldl (ClientPf.cliStep envs') w').clients.filter (nonF F) = (L.foldl (ClientPf.cliStep envs) w).clients.filter (nonF F) := by
  intro L L' hm
  induction hm with
  | nil => intro _ _ _ _ _ w w' h ht _ _; exact ⟨h, ht⟩
  | @both c l l' hc _ ih =>
    intro hnd hnd' hb hl hr w w' h ht hj hj'
    rw [List.foldl_cons, List.foldl_cons]
    have hnd2 := hnd; have hnd2' := hnd'
    rw [List.map_cons, List.nodup_cons] at hnd2 hnd2'
    by_cases hex : w.exited = true
    · have hex' : w'.exited = true := by rw [h.exited]; exact hex
      have e1 : ClientPf.cliStep envs w c = w := by unfold ClientPf.cliStep; simp [hex]
      have e2 : ClientPf.cliStep envs' w' c = w' := by unfold ClientPf.cliStep; simp [hex']
      rw [e1, e2]
      exact ih hnd2.2 hnd2'.2 (fun x hx => hb x (by simp [hx])) (fun x hx => hl x (by simp [hx])) (fun x hx => hr x (by simp [hx]))
        w w' h ht hj.tail hj'.tail
    · have hex0 : w.exited = false := by simpa using hex
      have hex0' : w'.exited = false := by rw [h.exited]; exact hex0
      obtain ⟨t1, t2⟩ := cliStep_tab envs w c hex0
      obtain ⟨t1', t2'⟩ := cliStep_tab envs' w' c hex0'
      obtain ⟨b1, b2⟩ := hb c (by simp) hc
      have hp : PassOut F DRL SR als (clientPass w c (envs.find? (·.fd == c.fd))) (clientPass w' c (envs'.find? (·.fd == c.fd))) := by
        rw [b1]; exact clientPass_rel_eq hSR w w' c (envs.find? (·.fd == c.fd)) h hc b2
      obtain ⟨p1, p2⟩ := hp
      have hoo : (clientPass w' c (envs'.find? (·.fd == c.fd))).2 = (clientPass w c (envs.find? (·.fd == c.fd))).2 := by
        rcases p2 with ⟨e1, e2⟩ | ⟨x, x', e1, e2, hx⟩
        · rw [e1, e2]
        · rw [e1, e2, hx.eq (by rw [(t2 x e1).2]; exact hc)]
      have hof : ∀ x, (clientPass w c (envs.find? (·.fd == c.fd))).2 = some x → F x.fd = false :=
        fun x hx => by rw [(t2 x hx).2]; exact hc
      refine ih hnd2.2 hnd2'.2 (fun x hx => hb x (by simp [hx])) (fun x hx => hl x (by simp [hx])) (fun x hx => hr x (by simp [hx]))
        _ _ ?_ ?_ ?_ ?_
      · rw [t1, t1']
        exact p1.setClients _ _
      · rw [t1, t1']
        show (tabUpd _ c.id w'.clients).filter (nonF F) = (tabUpd _ c.id w.clients).filter (nonF F)
        rw [hoo, filter_tabUpd_tracked _ c.id w'.clients (fun x hx hid => by rw [hj' x hx c (by simp) hid]; exact hc) hof,
          filter_tabUpd_tracked _ c.id w.clients (fun x hx hid => by rw [hj x hx c (by simp) hid]; exact hc) hof, ht]
      · rw [t1]; exact hj.step hnd t2
      · rw [t1']; exact hj'.step hnd' t2'
  | @left c l l' hc _ ih =>
    intro hnd hnd' hb hl hr w w' h ht hj hj'
    rw [List.foldl_cons]
    have hnd2 := hnd
    rw [List.map_cons, List.nodup_cons] at hnd2
    by_cases hex : w.exited = true
    · have e1 : ClientPf.cliStep envs w c = w := by unfold ClientPf.cliStep; simp [hex]
      rw [e1]
      exact ih hnd2.2 hnd' (fun x hx => hb x (by simp [hx])) (fun x hx => hl x (by simp [hx])) hr w w' h ht hj.tail hj'
    · have hex0 : w.exited = false := by simpa using hex
      obtain ⟨t1, t2⟩ := cliStep_tab envs w c hex0
      obtain ⟨i1, i4, il⟩ := hl c (by simp) hc
      have hs := clientPass_inert w c (envs.find? (·.fd == c.fd)) i1 i4 il
      refine ih hnd2.2 hnd' (fun x hx => hb x (by simp [hx])) (fun x hx => hl x (by simp [hx])) hr _ w' ?_ ?_ ?_ hj'
      · rw [t1]
        exact ((h.selfWL hs hc).setClients _ w'.clients)
      · rw [t1]
        show w'.clients.filter (nonF F) = (tabUpd _ c.id w.clients).filter (nonF F)
        rw [filter_tabUpd_foreign _ _ _ (fun x hx hid => by rw [hj x hx c (by simp) hid]; exact hc)
          (fun x hx => by rw [(t2 x hx).2]; exact hc), ht]
      · rw [t1]; exact hj.step hnd t2
  | @right c l l' hc _ ih =>
    intro hnd hnd' hb hl hr w w' h ht hj hj'
    rw [List.foldl_cons]
    have hnd2' := hnd'
    rw [List.map_cons, List.nodup_cons] at hnd2'
    by_cases hex : w'.exited = true
    · have e1 : ClientPf.cliStep envs' w' c = w' := by unfold ClientPf.cliStep; simp [hex]
      rw [e1]
      exact ih hnd hnd2'.2 hb hl (fun x hx => hr x (by simp [hx])) w w' h ht hj hj'.tail
    · have hex0 : w'.exited = false := by simpa using hex
      obtain ⟨t1, t2⟩ := cliStep_tab envs' w' c hex0
      obtain ⟨i1, i4, il⟩ := hr c (by simp) hc
      have hs := clientPass_inert w' c (envs'.find? (·.fd == c.fd)) i1 i4 il
      refine ih hnd hnd2'.2 hb hl (fun x hx => hr x (by simp [hx])) w _ ?_ ?_ hj ?_
      · rw [t1]
        have := (h.selfWR hs hc).setClients w.clients (tabUpd (clientPass w' c (envs'.find? (·.fd == c.fd))).2 c.id w'.clients)
        exact this
      · rw [t1]
        show (tabUpd _ c.id w'.clients).filter (nonF F) = w.clients.filter (nonF F)
        rw [filter_tabUpd_foreign _ _ _ (fun x hx hid => by rw [hj' x hx c (by simp) hid]; exact hc)
          (fun x hx => by rw [(t2 x hx).2]; exact hc), ht]
      · rw [t1]; exact hj'.step hnd' t2

theorem lookup_envs (envs : List FdEnv) (fd : Nat) :
    (envs.map fun (e : FdEnv) => (e.fd, e.cap)).lookup fd = (envs.find? (·.fd == fd)).map (·.cap) := by
  induction envs with
  | nil => rfl
  | cons e r ih =>
    rw [List.map_cons, List.lookup_cons, List.find?_cons]
    by_cases h : e.fd = fd
    · have h1 : (fd == e.fd) = true := by simpa using h.symm
      have h2 : (e.fd == fd) = true := by simpa using h
      simp [h1, h2]
    · have h1 : (fd == e.fd) = false := by simpa using fun x => h x.symm
      have h2 : (e.fd == fd) = false := by simpa using h
      simp only [h1, h2, ih]

theorem capOf_envs (w : W) (envs : List FdEnv) (ss : List Sys) (fd : Nat) :
    capOf { w with sys := ss, caps := envs.map fun (e : FdEnv) => (e.fd, e.cap) } fd = ((envs.find? (·.fd == fd)).map (·.cap)).getD 0 := by
  unfold capOf
  dsimp only
  rw [lookup_envs]

/-- the clients served in the pass `p` from world `w`: the table, and the client accepted in this pass -/
def servedIn (w : W) (p : PassIn) : List Cli :=
  (ClientPf.cliAccept { w with sys := [], caps := p.envs.map fun (e : FdEnv) => (e.fd, e.cap) } p.acc).clients

theorem cliPostPoll_counters (w : W) (acc : Nat) (envs : List FdEnv) :
    (cliPostPoll w acc envs).nsock = w.nsock ∧ (cliPostPoll w acc envs).npair = w.npair ∧ (cliPostPoll w acc envs).nfork = w.nfork ∧
    (cliPostPoll w acc envs).pendingX = w.pendingX ∧
    (cliPostPoll w acc envs).nextId = w.nextId + (if acc == 1 || acc == 2 then 1 else 0) ∧
    (cliPostPoll w acc envs).nacc = w.nacc + (if acc == 1 then 1 else 0) := by
  rw [ClientPf.cliPostPoll_eq]
  have h := foldl_cliStep_ctrs envs (ClientPf.cliAccept { w with sys := [], caps := envs.map fun (e : FdEnv) => (e.fd, e.cap) } acc).clients
    (ClientPf.cliAccept { w with sys := [], caps := envs.map fun (e : FdEnv) => (e.fd, e.cap) } acc)
  simp only [ctrs, Prod.mk.injEq] at h
  obtain ⟨h1, h2, h3, h4, h5, _, h7⟩ := h
  rw [h1, h2, h3, h4, h5, h7]
  unfold ClientPf.cliAccept
  by_cases a1 : acc = 1
  · subst a1; simp
  · by_cases a2 : acc = 2
    · subst a2; simp
    · simp [a1, a2]

theorem fdOf_self {w : W} (h : IdsFresh w) : FdOf w.clients w.clients :=
  fun x hx c hc hid => by rw [h.unique x hx c hc hid]

/-- **`cli_post_poll` in both runs, general tables**: the worlds agree (up to `DRL`, `SR`) on what the client phase reads; the
    tables agree on the clients outside `F`; the same `accept` verdict; the same events outside `F`; a client accepted in this
    pass is outside `F`; the lines of the clients outside `F` need no more of the devices than `DRL` gives; the clients of
    `F` are inert; the id discipline holds in both worlds -/
theorem cliPostPoll_merge (hSR : ∀ s s' x, SR s s' → SR (x :: s) (x :: s')) (w w' : W) (p p' : PassIn)
    (hcfg : w'.cfg = w.cfg) (hspecs : w'.specs = w.specs) (halNext : w'.alNext = w.alNext) (hexited : w'.exited = w.exited)
    (hdevs : DRL w.devs w'.devs) (hstore : SR w.store w'.store) (hnextId : w'.nextId = w.nextId) (hnacc : w'.nacc = w.nacc)
    (htab : w'.clients.filter (nonF F) = w.clients.filter (nonF F))
    (hacc : p'.acc = p.acc) (hevs : ∀ fd, F fd = false → p'.envs.find? (·.fd == fd) = p.envs.find? (·.fd == fd))
    (hnewfd : F (1000 + w.nacc) = false)
    (hlines : ∀ c ∈ servedIn w p, F c.fd = false → ∀ l ∈ turnLines c (p.envs.find? (·.fd == c.fd)), LineOK DRL w.cfg.aliases l)
    (hinert : ∀ c ∈ w.clients, F c.fd = true → Inert p.envs c) (hinert' : ∀ c ∈ w'.clients, F c.fd = true → Inert p'.envs c)
    (hids : IdsFresh w) (hids' : IdsFresh w') :
    CRel F DRL SR w.cfg.aliases (cliPostPoll w p.acc p.envs) (cliPostPoll w' p'.acc p'.envs) ∧
    (cliPostPoll w' p'.acc p'.envs).clients.filter (nonF F) = (cliPostPoll w p.acc p.envs).clients.filter (nonF F) := by
  rw [ClientPf.cliPostPoll_eq, ClientPf.cliPostPoll_eq, hacc]
  have hv : CRel F DRL SR w.cfg.aliases
      { w with sys := [], caps := p.envs.map fun (e : FdEnv) => (e.fd, e.cap) }
      { w' with sys := [], caps := p'.envs.map fun (e : FdEnv) => (e.fd, e.cap) } := by
    refine ⟨rfl, hcfg, hspecs, halNext, hexited, hdevs, hstore, ?_, rfl⟩
    intro fd hfd
    unfold capOf
    dsimp only
    rw [lookup_envs, lookup_envs, hevs fd hfd]
  have hiv : IdsFresh { w with sys := [], caps := p.envs.map fun (e : FdEnv) => (e.fd, e.cap) } := hids.congr rfl rfl rfl
  have hiv' : IdsFresh { w' with sys := [], caps := p'.envs.map fun (e : FdEnv) => (e.fd, e.cap) } := hids'.congr rfl rfl rfl
  have hin : ∀ c ∈ servedIn w p, F c.fd = true → c ∈ w.clients := by
    intro c hcm hF
    unfold servedIn ClientPf.cliAccept at hcm
    split at hcm
    · have hcm : c ∈ w.clients ++ [ClientPf.newClient { w with sys := [], caps := p.envs.map fun (e : FdEnv) => (e.fd, e.cap) }] := hcm
      rcases List.mem_append.mp hcm with h | h
      · exact h
      · simp only [List.mem_singleton] at h
        subst h
        have : F (1000 + w.nacc) = true := hF
        rw [hnewfd] at this; cases this
    · split at hcm <;> exact hcm
  have hin' : ∀ c ∈ (ClientPf.cliAccept { w' with sys := [], caps := p'.envs.map fun (e : FdEnv) => (e.fd, e.cap) } p.acc).clients,
      F c.fd = true → c ∈ w'.clients := by
    intro c hcm hF
    unfold ClientPf.cliAccept at hcm
    split at hcm
    · have hcm : c ∈ w'.clients ++ [ClientPf.newClient { w' with sys := [], caps := p'.envs.map fun (e : FdEnv) => (e.fd, e.cap) }] := hcm
      rcases List.mem_append.mp hcm with h | h
      · exact h
      · simp only [List.mem_singleton] at h
        subst h
        have : F (1000 + w'.nacc) = true := hF
        rw [hnacc, hnewfd] at this; cases this
    · split at hcm <;> exact hcm
  have hserved : servedIn w p = (ClientPf.cliAccept { w with sys := [], caps := p.envs.map fun (e : FdEnv) => (e.fd, e.cap) } p.acc).clients := rfl
  generalize hv0 : ({ w with sys := [], caps := p.envs.map fun (e : FdEnv) => (e.fd, e.cap) } : W) = v at *
  generalize hv0' : ({ w' with sys := [], caps := p'.envs.map fun (e : FdEnv) => (e.fd, e.cap) } : W) = v' at *
  have hvc : v.clients = w.clients := by rw [← hv0]
  have hvc' : v'.clients = w'.clients := by rw [← hv0']
  have hvn : v.nextId = w.nextId ∧ v.nacc = w.nacc ∧ v'.nextId = w.nextId ∧ v'.nacc = w.nacc := by
    rw [← hv0, ← hv0']; exact ⟨rfl, rfl, hnextId, hnacc⟩
  obtain ⟨n1, n2, n3, n4⟩ := hvn
  -- `accept`
  have ha : CRel F DRL SR w.cfg.aliases (ClientPf.cliAccept v p.acc) (ClientPf.cliAccept v' p.acc) ∧
      (ClientPf.cliAccept v' p.acc).clients.filter (nonF F) = (ClientPf.cliAccept v p.acc).clients.filter (nonF F) := by
    have hnew : ClientPf.newClient v' = ClientPf.newClient v := by
      unfold ClientPf.newClient; rw [n1, n2, n3, n4, hv.cfg]
    unfold ClientPf.cliAccept
    split
    · refine ⟨⟨hv.aliases, hv.cfg, hv.specs, hv.alNext, hv.exited, hv.devs, hv.store, hv.caps, ?_⟩, ?_⟩
      · show (v'.sys ++ [Sys.accept ((1000 + v'.nacc : Nat) : Int)]).filter _ = (v.sys ++ [Sys.accept ((1000 + v.nacc : Nat) : Int)]).filter _
        rw [List.filter_append, List.filter_append, hv.sys, n2, n4]
      · show (v'.clients ++ [ClientPf.newClient v']).filter _ = (v.clients ++ [ClientPf.newClient v]).filter _
        rw [List.filter_append, List.filter_append, hnew, hvc, hvc', htab]
    · split
      · refine ⟨⟨hv.aliases, hv.cfg, hv.specs, hv.alNext, hv.exited, hv.devs, hv.store, hv.caps, ?_⟩, ?_⟩
        · show (v'.sys ++ [Sys.accept (-1)]).filter _ = (v.sys ++ [Sys.accept (-1)]).filter _
          rw [List.filter_append, List.filter_append, hv.sys]
        · show v'.clients.filter _ = v.clients.filter _
          rw [hvc, hvc', htab]
      · exact ⟨hv, by rw [hvc, hvc', htab]⟩
  obtain ⟨a1, a2⟩ := ha
  have hia : IdsFresh (ClientPf.cliAccept v p.acc) := cliAccept_ids v p.acc hiv
  have hia' : IdsFresh (ClientPf.cliAccept v' p.acc) := cliAccept_ids v' p.acc hiv'
  generalize ClientPf.cliAccept v p.acc = u at *
  generalize ClientPf.cliAccept v' p.acc = u' at *
  -- the loop
  exact foldl_merge hSR p.envs p'.envs u.clients u'.clients (merge_of_filter _ _ a2.symm) hia.nodup hia'.nodup
    (fun c hcm hF => ⟨hevs c.fd hF, fun x hx => hlines c (hserved ▸ hcm) hF x hx⟩)
    (fun c hcm hF => hinert c (hin c (hserved ▸ hcm) hF) hF)
    (fun c hcm hF => hinert' c (hin' c hcm hF) hF)
    u u' a1 a2 (fdOf_self hia) (fdOf_self hia')


end Loop

/-! ### the client phase does not change which descriptor a device sits on -/

theorem installDev_fd (com : Nat) (bn : List Bytes) (cid : Nat) (tele : Bool) (al : Nat) (nd : Bytes × Dev) :
    (Enq.installDev com bn cid tele al nd).2.fd = nd.2.fd := by
  unfold Enq.installDev
  rw [Enq.enqueue_eq]
  dsimp only
  split <;> rfl

theorem Enq_devfds {cid : Nat} {w w' : W} {cmd cmd' : Option CmdC} (h : Enq cid w w' cmd cmd') :
    w'.devs.map (·.2.fd) = w.devs.map (·.2.fd) := by
  rcases h with ⟨h1, _⟩ | ⟨_, k, args, com, bn, tele, _, _, _, _, h5⟩
  · rw [h1]
  · rw [h5, List.map_map]
    apply List.map_congr_left
    intro nd _
    exact installDev_fd com bn cid tele w.alNext nd

theorem cliStep_devfds (envs : List FdEnv) (w : W) (c0 : Cli) : (ClientPf.cliStep envs w c0).devs.map (·.2.fd) = w.devs.map (·.2.fd) := by
  rcases cliStep_cases envs w c0 with ⟨_, e⟩ | ⟨_, ext, hp, ⟨c, hc, e⟩ | ⟨hn, e⟩⟩
  · rw [e]
  · rw [e]; exact Enq_devfds (hp.alive c hc).2.2.2.1
  · rw [e]
    show (clientPass w c0 (envs.find? (·.fd == c0.fd))).1.devs.map (·.2.fd) = _
    rw [(hp.gone hn).1]

theorem cliPostPoll_devfds (w : W) (acc : Nat) (envs : List FdEnv) : (cliPostPoll w acc envs).devs.map (·.2.fd) = w.devs.map (·.2.fd) := by
  rw [ClientPf.cliPostPoll_eq]
  have h1 : ∀ (l : List Cli) (u : W), (l.foldl (ClientPf.cliStep envs) u).devs.map (·.2.fd) = u.devs.map (·.2.fd) := by
    intro l
    induction l with
    | nil => intro u; rfl
    | cons c r ih => intro u; rw [List.foldl_cons, ih, cliStep_devfds]
  rw [h1]
  unfold ClientPf.cliAccept
  split
  · rfl
  · split <;> rfl

/-! ### the client table through the device phase -/

/-- the second table is the first with every entry mapped by a function that keeps id and descriptor -/
def KeepIdFd (T T' : List Cli) : Prop := ∃ G : Cli → Cli, T' = T.map G ∧ ∀ x, (G x).id = x.id ∧ (G x).fd = x.fd

theorem KeepIdFd.refl (T : List Cli) : KeepIdFd T T := ⟨id, by simp, fun _ => ⟨rfl, rfl⟩⟩

theorem KeepIdFd.trans {A B C : List Cli} (h1 : KeepIdFd A B) (h2 : KeepIdFd B C) : KeepIdFd A C := by
  obtain ⟨G1, e1, k1⟩ := h1
  obtain ⟨G2, e2, k2⟩ := h2
  refine ⟨G2 ∘ G1, by rw [e2, e1, List.map_map], fun x => ?_⟩
  simp only [Function.comp_apply]
  exact ⟨(k2 (G1 x)).1.trans (k1 x).1, (k2 (G1 x)).2.trans (k1 x).2⟩

theorem devPass_keep (p : PassIn) (a : DevAcc) (nd : Bytes × Dev) : KeepIdFd a.w.clients (devPass p a nd).w.clients := by
  cases hd : a.dead with
  | true => rw [devPass_dead _ _ _ hd]; exact KeepIdFd.refl _
  | false =>
    rw [devPass_w p a nd hd]
    obtain ⟨_, G, hG, hA⟩ := ClientPf.applyOuts_shape (afterStep a.w (devStep p a.w a.oracle nd).1) nd.1 (devStep p a.w a.oracle nd).2.2.1
    refine ⟨G, hG, fun x => ?_⟩
    obtain ⟨items, hap, _⟩ := hA x
    exact ⟨hap.id, hap.fd⟩

theorem foldl_devPass_keep (p : PassIn) (l : Devs) (a : DevAcc) : KeepIdFd a.w.clients (l.foldl (devPass p) a).w.clients := by
  induction l generalizing a with
  | nil => exact KeepIdFd.refl _
  | cons nd r ih => rw [List.foldl_cons]; exact (devPass_keep p a nd).trans (ih _)

theorem filter_map_keep (F : Nat → Bool) (G : Cli → Cli) (hG : ∀ x, (G x).fd = x.fd) (T : List Cli) :
    (T.map G).filter (nonF F) = (T.filter (nonF F)).map G := by
  induction T with
  | nil => rfl
  | cons x r ih =>
    rw [List.map_cons, List.filter_cons, List.filter_cons, ih]
    have : nonF F (G x) = nonF F x := by simp [nonF, hG x]
    rw [this]
    split <;> rfl

theorem find_of_mem_nodup {T : List Cli} {c : Cli} (hc : c ∈ T) (hnd : (T.map (·.id)).Nodup) : T.find? (·.id == c.id) = some c := by
  induction T with
  | nil => cases hc
  | cons x r ih =>
    rw [List.map_cons, List.nodup_cons] at hnd
    rw [List.find?_cons]
    rcases List.mem_cons.mp hc with rfl | hr
    · rw [show (c.id == c.id) = true from beq_self_eq_true _]
    · have : ¬ x.id = c.id := fun e => hnd.1 (e ▸ List.mem_map.mpr ⟨c, hr, rfl⟩)
      have h2 : (x.id == c.id) = false := by simpa using this
      rw [h2]
      exact ih hr hnd.2

/-- tables that agree on the clients outside `F`, each taken through maps that keep ids and descriptors: if every client outside
    `F` ends with the same record, the tables agree on the clients outside `F` again -/
theorem filter_after_keep (F : Nat → Bool) (T T' Tf Tf' : List Cli) (hT : T'.filter (nonF F) = T.filter (nonF F))
    (hk : KeepIdFd T Tf) (hk' : KeepIdFd T' Tf') (hnd : (T.map (·.id)).Nodup) (hnd' : (T'.map (·.id)).Nodup)
    (hrec : ∀ c ∈ T, F c.fd = false → Tf'.find? (·.id == c.id) = Tf.find? (·.id == c.id)) :
    Tf'.filter (nonF F) = Tf.filter (nonF F) := by
  obtain ⟨G, eG, kG⟩ := hk
  obtain ⟨G', eG', kG'⟩ := hk'
  rw [eG, eG', filter_map_keep F G (fun x => (kG x).2), filter_map_keep F G' (fun x => (kG' x).2), hT]
  apply List.map_congr_left
  intro c hcm
  obtain ⟨hcm0, hnF⟩ := List.mem_filter.mp hcm
  have hF : F c.fd = false := by simpa [nonF] using hnF
  have hcm0' : c ∈ T' := by
    have : c ∈ T'.filter (nonF F) := by rw [hT]; exact hcm
    exact (List.mem_filter.mp this).1
  have r1 : Tf.find? (·.id == c.id) = some (G c) := by
    rw [eG, find_map_id G (fun x => (kG x).1) c.id, find_of_mem_nodup hcm0 hnd]; rfl
  have r2 : Tf'.find? (·.id == c.id) = some (G' c) := by
    rw [eG', find_map_id G' (fun x => (kG' x).1) c.id, find_of_mem_nodup hcm0' hnd']; rfl
  have := hrec c hcm0 hF
  rw [r1, r2] at this
  exact Option.some.inj this

end Pm.Daemon.TwoRun
