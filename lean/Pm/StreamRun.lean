import Pm.StreamLine
/-! Helper lemmas for C15 over whole runs, part 3: **a client's share of a pass, the loop of `cli_post_poll`, and the ghost
    history** of what was written to each descriptor in earlier passes. -/
namespace Pm.Daemon.StreamPf
open Pm Pm.Client Pm.Daemon Pm.Daemon.ClientPf Pm.Daemon.Isolation
open Pm.Dev2 (Dev ActErr)

/-! ### from the outcome of a line to `Ext` -/

theorem termP_term : ∀ c ∈ termCodesP, c ≠ 208 → c ∈ termCodes := by decide

theorem LineOut.ext {cl : Prop} {w : W} {c : Cli} {r : W × Cli} (h : LineOut cl w c r) (hg : cl → Good w) :
    ∃ items, outOf r.1 r.2 = outOf w c ++ render items ∧ Ext cl c r.2 items ∧ (Good w → Good r.1) := by
  cases h with
  | exit h =>
    subst h
    exact ⟨[], by simp [outOf], Ext.refl cl c, fun g => g.congr rfl rfl rfl⟩
  | reply infos code text out hi hc h101 h208 cmd quit clean good _ =>
    refine ⟨_, out, ?_, good⟩
    constructor
    · intro s hs
      exact srun_reply s hs infoCodesP termCodesP _ _ (by decide) (by decide)
        (by intro c hc; simp [promptAfter] at hc; exact hc.1.1) ⟨infos, code, text, rfl, hi, hc⟩
    · intro hq
      have hinf : trun .open infos = some .open := trun_infos infos infoCodesP (by decide) hi
      by_cases h8 : code = 208
      · subst h8
        have : promptAfter r.2.quit 208 = false := by simp [promptAfter]
        rw [this, trun_append, trun_append, hinf]
        simp only [Option.bind_some, trun, tstep_open_info 208 text (Or.inr rfl)]
        rfl
      · have h1 : code ≠ 101 := fun e => by rw [h101 e] at hq; cases hq
        have : promptAfter r.2.quit code = true := by simp [promptAfter, hq, h8, h1]
        rw [this, if_pos rfl, List.append_assoc]
        exact trun_block infos infoCodesP (by decide) hi code text (termP_term code hc h8)
    · exact quit
    · intro items0 _ hc' hq
      have hcc : c.cmd = none := cmd ▸ hc'
      have h8 : code ≠ 208 := fun e => by have := h208 e; rw [hcc] at this; cases this
      have h1 : code ≠ 101 := fun e => by rw [h101 e] at hq; cases hq
      have : promptAfter r.2.quit code = true := by simp [promptAfter, hq, h8, h1]
      rw [this, if_pos rfl]
      exact AtPrompt.of_last (c := r.2) items0 _ (by simp) hc' hq
    · intro hcl hcc
      refine ⟨?_, fun k hk => hcc k (cmd ▸ hk)⟩
      intro i hi'
      rcases List.mem_append.mp hi' with hi' | hi'
      · exact LineOK.of_clean (clean hcl (hg hcl) i hi')
      · split at hi'
        · simp at hi'; subst hi'; exact LineOK.of_clean rfl
        · cases hi'
  | installed k idle cmd out quit names good _ =>
    refine ⟨[], by simp [out], ?_, good⟩
    constructor
    · exact fun s hs => ⟨s, rfl, hs⟩
    · exact fun _ => rfl
    · intro h; rw [quit]; exact h
    · intro items0 _ hc'; rw [cmd] at hc'; cases hc'
    · intro hcl _
      refine ⟨by simp, ?_⟩
      intro k' hk'
      rw [cmd] at hk'; cases hk'
      exact names (hg hcl)

/-- one request line extends the client's stream grammatically (and cleanly, the static data being clean) -/
theorem parseLine_ext (cl : Prop) (w : W) (c : Cli) (line : Bytes) (hg : cl → Good w) :
    ∃ items, outOf (parseLine w c line).1 (parseLine w c line).2 = outOf w c ++ render items ∧
      Ext cl c (parseLine w c line).2 items ∧ (Good w → Good (parseLine w c line).1) :=
  (parseLine_out cl w c line).ext hg

theorem runLines_ext (cl : Prop) : ∀ (ls : List Bytes) (w : W) (c : Cli), (cl → Good w) →
    ∃ items, outOf (runLines w c ls).1 (runLines w c ls).2 = outOf w c ++ render items ∧
      Ext cl c (runLines w c ls).2 items ∧ (Good w → Good (runLines w c ls).1) := by
  intro ls; induction ls with
  | nil => intro w c _; exact ⟨[], by simp [runLines], Ext.refl cl c, fun g => g⟩
  | cons l ls ih =>
    intro w c hg
    unfold runLines
    by_cases hex : w.exited = true
    · rw [if_pos hex]; exact ⟨[], by simp, Ext.refl cl c, fun g => g⟩
    · rw [if_neg hex]
      generalize hc1 : ({ c with fromBuf := c.fromBuf.drop l.length } : Cli) = c1
      have ho : outOf w c1 = outOf w c := by subst hc1; rfl
      have he1 : Ext cl c c1 [] := by subst hc1; exact Ext.record cl c _ (fun h => h) rfl
      obtain ⟨i1, o1, e1, g1⟩ := parseLine_ext cl w c1 l hg
      obtain ⟨i2, o2, e2, g2⟩ := ih (parseLine w c1 l).1 (parseLine w c1 l).2 (fun h => g1 (hg h))
      refine ⟨i1 ++ i2, ?_, ?_, fun g => g2 (g1 g)⟩
      · rw [o2, o1, ho, render_append, List.append_assoc]
      · have := (he1.trans e1).trans e2
        simpa using this

theorem handleInput_ext (cl : Prop) (w : W) (c : Cli) (hg : cl → Good w) :
    ∃ items, outOf (handleInput w c).1 (handleInput w c).2 = outOf w c ++ render items ∧
      Ext cl c (handleInput w c).2 items ∧ (Good w → Good (handleInput w c).1) := by
  rw [handleInput_lines]; exact runLines_ext cl _ w c hg

/-! ### the stages before `_handle_input` -/

theorem cpRead_good (w : W) (c : Cli) (e : Option FdEnv) (h : Good w) : Good (cpRead w c e).1 := by
  apply h.congr
  all_goals
    unfold cpRead
    repeat' split
    all_goals rfl

theorem cpTail_good (r : W × Cli) (h : Good r.1) : Good (cpTail r).1 := by
  apply h.congr
  all_goals
    unfold cpTail cpDead
    repeat' split
    all_goals rfl

theorem cpTail_world (r : W × Cli) (c' : Cli) (h : (cpTail r).2 = some c') : (cpTail r).1 = r.1 := by
  unfold cpTail at h ⊢
  split
  · rfl
  · split
    · rename_i h1 h2; rw [if_neg h1, if_pos h2] at h; simp [cpDead] at h
    · rfl

/-- **a client's whole share of a pass**: if the client survives, its cumulative output grew by a grammatical extension;
    if it is destroyed, the same holds of the record `c3` as it was at that moment (what had not been written stays unsent) -/
theorem clientPass_ext (cl : Prop) (w : W) (c : Cli) (e : Option FdEnv) (hg : cl → Good w) :
    (Good w → Good (clientPass w c e).1) ∧
    (∀ c', (clientPass w c e).2 = some c' →
      ∃ items, outOf (clientPass w c e).1 c' = outOf w c ++ render items ∧ Ext cl c c' items) ∧
    ((clientPass w c e).2 = none →
      ∃ c3 items, written (clientPass w c e).1.sys c.fd ++ c3.toBuf = outOf w c ++ render items ∧ Ext cl c c3 items) := by
  rw [ClientPf.clientPass_eq]
  generalize hR : ClientPf.clientPass' w c e = R
  unfold ClientPf.clientPass' at hR
  dsimp only at hR
  split at hR
  · subst hR
    refine ⟨fun g => g.congr rfl rfl rfl, fun c' h => by simp [cpDead] at h, fun _ => ⟨c, [], ?_, Ext.refl cl c⟩⟩
    simp [cpDead, outOf, written]
  · generalize hr1 : (if (cpRev c e &&& 1 != 0 || cpRev c e &&& 4 != 0) = true then cpRead w (clipC c e) (clipE c e) else (w, c)) = r1 at hR
    have h1 : outOf r1.1 r1.2 = outOf w c ∧ Ext cl c r1.2 [] ∧ (Good w → Good r1.1) ∧ r1.2.fd = c.fd := by
      subst hr1; split
      · obtain ⟨ext, hiso, _⟩ := cpRead_iso w (clipC c e) (clipE c e)
        refine ⟨by rw [(cpRead_out w _ _).1]; simp [outOf], ?_, cpRead_good w _ _, by rw [(cpRead_out w _ _).2.1]; simp⟩
        exact Ext.record cl c _ (fun h => hiso.quit (by simpa using h)) (by rw [(cpRead_out w _ _).2.2.2]; simp)
      · exact ⟨rfl, Ext.refl cl c, fun g => g, rfl⟩
    generalize hr2 : (if (cpRev c e &&& 2 != 0) = true then handleWrite r1.1 r1.2 else r1) = r2 at hR
    have h2 : outOf r2.1 r2.2 = outOf w c ∧ Ext cl c r2.2 [] ∧ (Good w → Good r2.1) ∧ r2.2.fd = c.fd := by
      subst hr2; split
      · obtain ⟨ext, hiso⟩ := handleWrite_iso r1.1 r1.2
        refine ⟨by rw [(handleWrite_out r1.1 r1.2).1, h1.1], ?_, fun g => handleWrite_good _ _ (h1.2.2.1 g),
          by rw [(handleWrite_out r1.1 r1.2).2.1]; exact h1.2.2.2⟩
        have := h1.2.1.trans (Ext.record cl r1.2 (handleWrite r1.1 r1.2).2 hiso.quit (handleWrite_out r1.1 r1.2).2.2.2)
        simpa using this
      · exact h1
    obtain ⟨items, hout, hext, hgood⟩ := handleInput_ext cl r2.1 r2.2 (fun h => h2.2.2.1 (hg h))
    obtain ⟨_, hiso3, _⟩ := handleInput_iso r2.1 r2.2
    have hfd3 : (handleInput r2.1 r2.2).2.fd = c.fd := hiso3.fd.trans h2.2.2.2
    generalize handleInput r2.1 r2.2 = r3 at hout hext hgood hR hfd3
    subst hR
    have hE : Ext cl c r3.2 items := by
      have := h2.2.1.trans hext
      simpa using this
    refine ⟨fun g => cpTail_good r3 (hgood (h2.2.2.1 g)), ?_, ?_⟩
    · intro c' h
      have e1 := (cpTail_some r3 c' h).symm
      subst e1
      exact ⟨items, by rw [cpTail_world r3 _ h, hout, h2.1], hE⟩
    · intro h
      refine ⟨r3.2, items, ?_, hE⟩
      rw [← h2.1, ← hout]
      unfold cpTail at h ⊢
      split at h
      · cases h
      · split at h
        · rename_i h1' h2'
          rw [if_neg h1', if_pos h2']
          simp [cpDead, outOf, written, hfd3]
        · cases h

/-! ### the ledger through a client's share of a pass -/

/-- what a step of client `c` does to the ledger between commands and device queues: the counts of other clients' queued
    actions are unchanged, and if `c`'s own count was covered by `pending` before, it still is -/
structure LedStep (w : W) (c : Cli) (r : W × Cli) : Prop where
  other : ∀ g, g ≠ c.id → queued r.1.devs g = queued w.devs g
  own : queued w.devs c.id ≤ pend c → queued r.1.devs c.id ≤ pend r.2
  id : r.2.id = c.id

theorem LedStep.same {w : W} {c : Cli} {r : W × Cli} (hd : r.1.devs = w.devs) (hc : r.2.cmd = c.cmd) (hid : r.2.id = c.id) :
    LedStep w c r :=
  ⟨fun g _ => by rw [hd], fun h => by rw [hd]; simpa [pend, hc] using h, hid⟩

theorem LedStep.trans {w : W} {c : Cli} {r r' : W × Cli} (h1 : LedStep w c r) (h2 : LedStep r.1 r.2 r') : LedStep w c r' :=
  ⟨fun g hg => (h2.other g (by rw [h1.id]; exact hg)).trans (h1.other g hg),
   fun h => by have := h2.own (by rw [h1.id]; exact h1.own h); rwa [h1.id] at this, h2.id.trans h1.id⟩

theorem LineOut.led {cl : Prop} {w : W} {c : Cli} {r : W × Cli} (h : LineOut cl w c r) (hid : r.2.id = c.id) : LedStep w c r := by
  cases h with
  | exit h => subst h; exact .same rfl rfl rfl
  | reply infos code text out hi hc h101 h208 cmd quit clean good devs => exact .same devs cmd hid
  | installed k idle cmd out quit names good led =>
    obtain ⟨com, bn, tele, al, hd, hp⟩ := led
    refine ⟨?_, ?_, hid⟩
    · intro g hg
      rw [hd, queued_installDev, if_neg hg]; rfl
    · intro h0
      have h0 : queued w.devs c.id = 0 := by simpa [pend, idle] using h0
      rw [hd, queued_installDev, if_pos rfl, h0]
      simp [pend, cmd, hp]

theorem parseLine_led (w : W) (c : Cli) (line : Bytes) : LedStep w c (parseLine w c line) :=
  (parseLine_out False w c line).led (parseLine_frame w c line).id

theorem runLines_led : ∀ (ls : List Bytes) (w : W) (c : Cli), LedStep w c (runLines w c ls) := by
  intro ls; induction ls with
  | nil => intro w c; exact .same rfl rfl rfl
  | cons l ls ih =>
    intro w c
    unfold runLines
    split
    · exact .same rfl rfl rfl
    · have h0 : LedStep w c (w, { c with fromBuf := c.fromBuf.drop l.length }) := .same rfl rfl rfl
      exact (h0.trans (parseLine_led w _ l)).trans (ih _ _)

theorem handleInput_led (w : W) (c : Cli) : LedStep w c (handleInput w c) := by
  rw [handleInput_lines]; exact runLines_led _ w c

theorem cpRead_devs (w : W) (c : Cli) (e : Option FdEnv) : (cpRead w c e).1.devs = w.devs := by
  unfold cpRead
  repeat' split
  all_goals rfl

/-- the ledger through `clientPass`: other clients' counts are unchanged whatever happens; if the client survives, its own
    count stays covered -/
theorem clientPass_led (w : W) (c : Cli) (e : Option FdEnv) :
    (∀ g, g ≠ c.id → queued (clientPass w c e).1.devs g = queued w.devs g) ∧
    ∀ c', (clientPass w c e).2 = some c' → queued w.devs c.id ≤ pend c → queued (clientPass w c e).1.devs c.id ≤ pend c' := by
  rw [ClientPf.clientPass_eq]
  generalize hR : ClientPf.clientPass' w c e = R
  unfold ClientPf.clientPass' at hR
  dsimp only at hR
  split at hR
  · subst hR
    exact ⟨fun g _ => rfl, fun c' h => by simp [cpDead] at h⟩
  · generalize hr1 : (if (cpRev c e &&& 1 != 0 || cpRev c e &&& 4 != 0) = true then cpRead w (clipC c e) (clipE c e) else (w, c)) = r1 at hR
    have h1 : LedStep w c r1 := by
      subst hr1; split
      · exact .same (cpRead_devs w _ _) (by rw [(cpRead_out w _ _).2.2.2]; simp) (by rw [(cpRead_out w _ _).2.2.1]; simp)
      · exact .same rfl rfl rfl
    generalize hr2 : (if (cpRev c e &&& 2 != 0) = true then handleWrite r1.1 r1.2 else r1) = r2 at hR
    have h2 : LedStep w c r2 := by
      subst hr2; split
      · exact h1.trans (.same (handleWrite_devs _ _) (handleWrite_out r1.1 r1.2).2.2.2 (handleWrite_out r1.1 r1.2).2.2.1)
      · exact h1
    have h3 := h2.trans (handleInput_led r2.1 r2.2)
    generalize handleInput r2.1 r2.2 = r3 at h3 hR
    subst hR
    have hdevs : (cpTail r3).1.devs = r3.1.devs := by
      unfold cpTail cpDead
      repeat' split
      all_goals rfl
    refine ⟨fun g hg => by rw [hdevs]; exact h3.other g hg, ?_⟩
    intro c' h h0
    have e1 := (cpTail_some r3 c' h).symm
    subst e1
    rw [hdevs]; exact h3.own h0

/-! ### the ghost history and the invariant of a run -/

/-- ghost: for every descriptor number, the bytes handed to `write(2)` on it in earlier passes (the log `w.sys` of system
    calls is reset at the beginning of every pass) -/
abbrev Hist := Nat → Bytes

/-- everything ever queued for the client: written in earlier passes, written in this pass, still waiting in `to` -/
def total (H : Hist) (w : W) (c : Cli) : Bytes := H c.fd ++ outOf w c

/-- the history after the log of the pass is discarded -/
def histNext (H : Hist) (w : W) : Hist := fun fd => H fd ++ written w.sys fd

/-- Descriptor `fd` was handed out and its client is gone: what was written to it, followed by what the client had queued
    but was not sent when it was destroyed (`rest`), satisfies the per-client invariant for the record `c` of that moment.
    (Descriptor numbers are not reused in the model, so nothing is written to `fd` afterwards.) -/
def Departed (cl : Prop) (H : Hist) (w : W) (fd : Nat) : Prop :=
  ∃ (c : Cli) (rest : Bytes), SInv cl (H fd ++ written w.sys fd ++ rest) c

/-- **the invariant of a run**: ids and descriptors of the live clients are pairwise distinct and below the counters, no
    history is recorded for a descriptor number not handed out yet, the static data is clean (when `cl`), and every client's
    cumulative output satisfies the per-client invariant — and so does, for every descriptor whose client is gone, what was
    written to it (`Departed`); and no client has more actions queued than its command waits for (`ledger`) -/
structure RunInv (cl : Prop) (H : Hist) (w : W) : Prop where
  ids : IdsFresh w
  fds : (w.clients.map (·.fd)).Nodup
  fdFresh : ∀ c ∈ w.clients, c.fd < 1000 + w.nacc
  histFresh : ∀ fd, 1000 + w.nacc ≤ fd → H fd = [] ∧ written w.sys fd = []
  good : cl → Good w
  cli : ∀ c ∈ w.clients, SInv cl (total H w c) c
  gone : ∀ fd, 1000 ≤ fd → fd < 1000 + w.nacc → (∀ c ∈ w.clients, c.fd ≠ fd) → Departed cl H w fd
  ledger : ∀ c ∈ w.clients, queued w.devs c.id ≤ pend c

theorem queued_fresh (devs : List (Bytes × Dev)) (g : Nat) (h : ∀ nd ∈ devs, ∀ a ∈ nd.2.acts, a.clientId ≠ g) : queued devs g = 0 := by
  unfold queued
  induction devs with
  | nil => rfl
  | cons nd r ih =>
    have h0 : Pm.Dev2.qcount g nd.2.acts = 0 := by
      unfold Pm.Dev2.qcount
      rw [List.countP_eq_zero]
      intro a ha
      simpa using h nd (by simp) a ha
    simp only [List.map_cons, List.sum_cons, h0, Nat.zero_add]
    exact ih (fun x hx => h x (by simp [hx]))

theorem fds_unique (l : List Cli) (h : (l.map (·.fd)).Nodup) (x y : Cli) (hx : x ∈ l) (hy : y ∈ l) (he : x.fd = y.fd) : x = y := by
  induction l with
  | nil => cases hx
  | cons z r ih =>
    simp only [List.map_cons, List.nodup_cons, List.mem_map, not_exists, not_and] at h
    rcases List.mem_cons.mp hx with rfl | hx' <;> rcases List.mem_cons.mp hy with rfl | hy'
    · rfl
    · exact absurd he.symm (h.1 y hy')
    · exact absurd he (h.1 x hx')
    · exact ih h.2 hx' hy'

/-- the start of `cli_post_poll`: the log is discarded (and goes into the history), the capacities are set -/
theorem RunInv.reset {cl : Prop} {H : Hist} {w : W} (h : RunInv cl H w) (caps : List (Nat × Int)) :
    RunInv cl (histNext H w) { w with sys := [], caps := caps } where
  ids := h.ids.congr rfl rfl rfl
  fds := h.fds
  fdFresh := h.fdFresh
  histFresh := by
    intro fd hfd
    obtain ⟨a, b⟩ := h.histFresh fd hfd
    exact ⟨by simp [histNext, a, b], rfl⟩
  good := fun hcl => (h.good hcl).congr rfl rfl rfl
  cli := by
    intro c hc
    have := h.cli c hc
    simpa [total, histNext, outOf, written] using this
  gone := by
    intro fd h1 h2 h3
    obtain ⟨c, rest, hs⟩ := h.gone fd h1 h2 h3
    exact ⟨c, rest, by simpa [histNext, written] using hs⟩
  ledger := h.ledger

/-- `accept`: the new client starts with banner and prompt on a descriptor without history -/
theorem RunInv.accept {cl : Prop} {H : Hist} {w : W} (h : RunInv cl H w) (acc : Nat) : RunInv cl H (cliAccept w acc) := by
  have hsysacc : ∀ (ss : List Sys) (a : Int) (fd : Nat), written (ss ++ [Sys.accept a]) fd = written ss fd := by
    intro ss a fd; simp [written]
  unfold cliAccept
  split
  · refine ⟨by have := cliAccept_ids w 1 h.ids; simpa [cliAccept] using this, ?_, ?_, ?_, ?_, ?_, ?_, ?_⟩
    · show ((w.clients ++ [newClient w]).map (·.fd)).Nodup
      rw [List.map_append, List.nodup_append]
      refine ⟨h.fds, by simp, ?_⟩
      intro a ha b hb
      simp only [List.map_cons, List.map_nil, List.mem_singleton, newClient] at hb
      simp only [List.mem_map] at ha
      obtain ⟨c, hc, rfl⟩ := ha
      have := h.fdFresh c hc
      omega
    · intro c hc
      show c.fd < 1000 + (w.nacc + 1)
      have hc : c ∈ w.clients ++ [newClient w] := hc
      rcases List.mem_append.mp hc with hc | hc
      · have := h.fdFresh c hc; omega
      · simp only [List.mem_singleton] at hc; subst hc; simp only [newClient]; omega
    · intro fd hfd
      have hfd : 1000 + (w.nacc + 1) ≤ fd := hfd
      obtain ⟨a, b⟩ := h.histFresh fd (by omega)
      exact ⟨a, by show written (w.sys ++ [Sys.accept _]) fd = []; rw [hsysacc]; exact b⟩
    · exact fun hcl => (h.good hcl).congr rfl rfl rfl
    · intro c hc
      have hc : c ∈ w.clients ++ [newClient w] := hc
      rcases List.mem_append.mp hc with hc | hc
      · have := h.cli c hc
        simpa [total, outOf, hsysacc] using this
      · simp only [List.mem_singleton] at hc; subst hc
        obtain ⟨a, b⟩ := h.histFresh (1000 + w.nacc) (Nat.le_refl _)
        have hfd : (newClient w).fd = 1000 + w.nacc := rfl
        simp only [total, outOf, hsysacc]
        rw [hfd, a, b]
        exact SInv.banner cl w (fun hcl => (h.good hcl).version)
    · intro fd h1 h2 h3
      have h2 : fd < 1000 + (w.nacc + 1) := h2
      have h3 : ∀ c ∈ w.clients ++ [newClient w], c.fd ≠ fd := h3
      have hne : fd ≠ 1000 + w.nacc := fun e => h3 (newClient w) (by simp) (by rw [e]; rfl)
      obtain ⟨c, rest, hs⟩ := h.gone fd h1 (by omega) (fun c hc => h3 c (by simp [hc]))
      exact ⟨c, rest, by show SInv cl (H fd ++ written (w.sys ++ [Sys.accept _]) fd ++ rest) c; rw [hsysacc]; exact hs⟩
    · intro c hc
      have hc : c ∈ w.clients ++ [newClient w] := hc
      show queued w.devs c.id ≤ pend c
      rcases List.mem_append.mp hc with hc | hc
      · exact h.ledger c hc
      · simp only [List.mem_singleton] at hc; subst hc
        rw [queued_fresh w.devs _ (fun nd hnd a ha => by have := h.ids.acts nd hnd a ha; simp only [newClient]; omega)]
        exact Nat.zero_le _
  · split
    · exact ⟨by have := cliAccept_ids w 2 h.ids; simpa [cliAccept] using this, h.fds, h.fdFresh,
        fun fd hfd => ⟨(h.histFresh fd hfd).1, by show written (w.sys ++ [Sys.accept _]) fd = []; rw [hsysacc]; exact (h.histFresh fd hfd).2⟩,
        fun hcl => (h.good hcl).congr rfl rfl rfl,
        fun c hc => by have := h.cli c hc; simpa [total, outOf, hsysacc] using this,
        fun fd h1 h2 h3 => by
          obtain ⟨c, rest, hs⟩ := h.gone fd h1 h2 h3
          exact ⟨c, rest, by show SInv cl (H fd ++ written (w.sys ++ [Sys.accept _]) fd ++ rest) c; rw [hsysacc]; exact hs⟩,
        h.ledger⟩
    · exact h


/-! ### the loop of `cli_post_poll` -/

theorem kept_nacc {w w' : W} (h : kept w' = kept w) : w'.nacc = w.nacc := by
  simp only [kept, Prod.mk.injEq] at h; exact h.2.2.2.1

theorem fd_map_replace (xs : List Cli) (id : Nat) (c : Cli) (h : ∀ x ∈ xs, x.id = id → x.fd = c.fd) :
    (xs.map fun x => if x.id == id then c else x).map (·.fd) = xs.map (·.fd) := by
  rw [List.map_map]
  apply List.map_congr_left
  intro x hx
  by_cases hx' : x.id = id
  · simp [hx', h x hx hx']
  · simp [hx']

/-- a record of another client (other id, hence other descriptor) is not affected by the calls logged for `c0` -/
theorem total_other (H : Hist) (w w' : W) (ext : List Sys) (c0 y : Cli) (hsys : w'.sys = w.sys ++ ext)
    (hext : ∀ s ∈ ext, sysFd s = some c0.fd) (hfd : y.fd ≠ c0.fd) : total H w' y = total H w y := by
  simp only [total, outOf, hsys]
  rw [written_other w.sys ext y.fd c0.fd hext hfd]

/-- **one turn of the loop of `cli_post_poll` keeps the invariant** -/
theorem RunInv.cliStep {cl : Prop} {H : Hist} {w : W} (h : RunInv cl H w) (envs : List FdEnv) (c0 : Cli) (hc0 : c0 ∈ w.clients) :
    RunInv cl H (ClientPf.cliStep envs w c0) := by
  have hbelow : c0.id < w.nextId := h.ids.below c0.id (List.mem_map.mpr ⟨c0, hc0, rfl⟩)
  have hids := (cliStep_ids envs w c0 h.ids hbelow).1
  have huniq := h.ids.unique
  have hother : ∀ y ∈ w.clients, y.id ≠ c0.id → y.fd ≠ c0.fd := by
    intro y hy hne hfd
    exact hne (by rw [fds_unique w.clients h.fds y c0 hy hc0 hfd])
  rcases cliStep_cases envs w c0 with ⟨_, e⟩ | ⟨_, ext, hp, ⟨c, hc, e⟩ | ⟨hn, e⟩⟩
  · rw [e]; exact h
  · obtain ⟨hgood, hsome, _⟩ := clientPass_ext cl w c0 (envs.find? (·.fd == c0.fd)) h.good
    obtain ⟨items, hout, hext⟩ := hsome c hc
    obtain ⟨hcid, hcfd, _⟩ := hp.alive c hc
    have hfresh : ∀ fd, 1000 + w.nacc ≤ fd → fd ≠ c0.fd := by
      intro fd hfd e; have := h.fdFresh c0 hc0; omega
    obtain ⟨hlo, hlown⟩ := clientPass_led w c0 (envs.find? (·.fd == c0.fd))
    rw [e] at hids ⊢
    refine ⟨hids, ?_, ?_, ?_, ?_, ?_, ?_, ?_⟩
    · show ((w.clients.map fun x => if x.id == c0.id then c else x).map (·.fd)).Nodup
      rw [fd_map_replace _ _ _ (by intro x hx hid; rw [huniq x hx c0 hc0 hid, hcfd])]
      exact h.fds
    · intro x hx
      show x.fd < 1000 + (clientPass w c0 (envs.find? (·.fd == c0.fd))).1.nacc
      rw [kept_nacc hp.kept]
      have hx : x ∈ w.clients.map fun x => if x.id == c0.id then c else x := hx
      simp only [List.mem_map] at hx
      obtain ⟨y, hy, rfl⟩ := hx
      split
      · rw [hcfd]; exact h.fdFresh c0 hc0
      · exact h.fdFresh y hy
    · intro fd hfd
      have hfd : 1000 + (clientPass w c0 (envs.find? (·.fd == c0.fd))).1.nacc ≤ fd := hfd
      rw [kept_nacc hp.kept] at hfd
      obtain ⟨a, b⟩ := h.histFresh fd hfd
      refine ⟨a, ?_⟩
      show written (clientPass w c0 (envs.find? (·.fd == c0.fd))).1.sys fd = []
      rw [hp.sys, written_other w.sys ext fd c0.fd hp.sysfd (hfresh fd hfd)]; exact b
    · intro hcl; exact (hgood (h.good hcl)).congr rfl rfl rfl
    · intro x hx
      have hx : x ∈ w.clients.map fun x => if x.id == c0.id then c else x := hx
      simp only [List.mem_map] at hx
      obtain ⟨y, hy, rfl⟩ := hx
      by_cases hyid : y.id = c0.id
      · have hy0 : y = c0 := huniq y hy c0 hc0 hyid
        subst hy0
        simp only [beq_self_eq_true, if_true]
        have : total H { (clientPass w y (envs.find? (·.fd == y.fd))).1 with
            clients := w.clients.map fun x => if x.id == y.id then c else x } c = total H w y ++ render items := by
          show H c.fd ++ outOf (clientPass w y (envs.find? (·.fd == y.fd))).1 c = _
          rw [hout, hcfd]; simp [total]
        rw [this]
        exact (h.cli y hy).ext hext
      · have : (y.id == c0.id) = false := by simpa using hyid
        simp only [this, Bool.false_eq_true, if_false]
        have : total H { (clientPass w c0 (envs.find? (·.fd == c0.fd))).1 with
            clients := w.clients.map fun x => if x.id == c0.id then c else x } y = total H w y :=
          total_other H w _ ext c0 y hp.sys hp.sysfd (hother y hy hyid)
        rw [this]
        exact h.cli y hy
    · intro fd h1 h2 h3
      have h2 : fd < 1000 + (clientPass w c0 (envs.find? (·.fd == c0.fd))).1.nacc := h2
      rw [kept_nacc hp.kept] at h2
      have h3 : ∀ x ∈ w.clients.map (fun x => if x.id == c0.id then c else x), x.fd ≠ fd := h3
      have hne : fd ≠ c0.fd := by
        intro e'
        exact h3 c (List.mem_map.mpr ⟨c0, hc0, by simp⟩) (by rw [hcfd, e'])
      obtain ⟨cc, rest, hs⟩ := h.gone fd h1 h2 (by
        intro y hy e'
        by_cases hyid : y.id = c0.id
        · rw [huniq y hy c0 hc0 hyid] at e'; exact hne e'.symm
        · exact h3 y (List.mem_map.mpr ⟨y, hy, by simp [hyid]⟩) e')
      refine ⟨cc, rest, ?_⟩
      show SInv cl (H fd ++ written (clientPass w c0 (envs.find? (·.fd == c0.fd))).1.sys fd ++ rest) cc
      rw [hp.sys, written_other w.sys ext fd c0.fd hp.sysfd hne]; exact hs
    · intro x hx
      have hx : x ∈ w.clients.map fun x => if x.id == c0.id then c else x := hx
      show queued (clientPass w c0 (envs.find? (·.fd == c0.fd))).1.devs x.id ≤ pend x
      simp only [List.mem_map] at hx
      obtain ⟨y, hy, rfl⟩ := hx
      by_cases hyid : y.id = c0.id
      · simp only [hyid, beq_self_eq_true, if_true]
        rw [hcid]; exact hlown c hc (h.ledger c0 hc0)
      · have : (y.id == c0.id) = false := by simpa using hyid
        simp only [this, Bool.false_eq_true, if_false]
        rw [hlo y.id hyid]; exact h.ledger y hy
  · obtain ⟨hgood, _, hnone⟩ := clientPass_ext cl w c0 (envs.find? (·.fd == c0.fd)) h.good
    have hfresh : ∀ fd, 1000 + w.nacc ≤ fd → fd ≠ c0.fd := by
      intro fd hfd e; have := h.fdFresh c0 hc0; omega
    obtain ⟨hlo, _⟩ := clientPass_led w c0 (envs.find? (·.fd == c0.fd))
    rw [e] at hids ⊢
    refine ⟨hids, ?_, ?_, ?_, ?_, ?_, ?_, ?_⟩
    · exact List.Nodup.sublist ((List.filter_sublist).map _) h.fds
    · intro x hx
      show x.fd < 1000 + (clientPass w c0 (envs.find? (·.fd == c0.fd))).1.nacc
      rw [kept_nacc hp.kept]
      have hx : x ∈ w.clients.filter fun x => x.id != c0.id := hx
      exact h.fdFresh x (List.mem_filter.mp hx).1
    · intro fd hfd
      have hfd : 1000 + (clientPass w c0 (envs.find? (·.fd == c0.fd))).1.nacc ≤ fd := hfd
      rw [kept_nacc hp.kept] at hfd
      obtain ⟨a, b⟩ := h.histFresh fd hfd
      refine ⟨a, ?_⟩
      show written (clientPass w c0 (envs.find? (·.fd == c0.fd))).1.sys fd = []
      rw [hp.sys, written_other w.sys ext fd c0.fd hp.sysfd (hfresh fd hfd)]; exact b
    · intro hcl; exact (hgood (h.good hcl)).congr rfl rfl rfl
    · intro y hy
      have hy : y ∈ w.clients.filter fun x => x.id != c0.id := hy
      obtain ⟨hy, hyid⟩ := List.mem_filter.mp hy
      have hyid : y.id ≠ c0.id := by simpa using hyid
      have : total H { (clientPass w c0 (envs.find? (·.fd == c0.fd))).1 with
          clients := w.clients.filter fun x => x.id != c0.id } y = total H w y :=
        total_other H w _ ext c0 y hp.sys hp.sysfd (hother y hy hyid)
      rw [this]
      exact h.cli y hy
    · intro fd h1 h2 h3
      have h2 : fd < 1000 + (clientPass w c0 (envs.find? (·.fd == c0.fd))).1.nacc := h2
      rw [kept_nacc hp.kept] at h2
      have h3 : ∀ x ∈ w.clients.filter (fun x => x.id != c0.id), x.fd ≠ fd := h3
      by_cases hfd : fd = c0.fd
      · -- the descriptor of the client destroyed in this turn
        obtain ⟨c3, items, hout, hext⟩ := hnone hn
        refine ⟨c3, c3.toBuf, ?_⟩
        show SInv cl (H fd ++ written (clientPass w c0 (envs.find? (·.fd == c0.fd))).1.sys fd ++ c3.toBuf) c3
        rw [hfd, List.append_assoc, hout]
        have := (h.cli c0 hc0).ext hext
        simpa [total, List.append_assoc] using this
      · obtain ⟨cc, rest, hs⟩ := h.gone fd h1 h2 (by
          intro y hy e'
          by_cases hyid : y.id = c0.id
          · rw [huniq y hy c0 hc0 hyid] at e'; exact hfd e'.symm
          · exact h3 y (List.mem_filter.mpr ⟨hy, by simpa using hyid⟩) e')
        refine ⟨cc, rest, ?_⟩
        show SInv cl (H fd ++ written (clientPass w c0 (envs.find? (·.fd == c0.fd))).1.sys fd ++ rest) cc
        rw [hp.sys, written_other w.sys ext fd c0.fd hp.sysfd hfd]; exact hs
    · intro y hy
      have hy : y ∈ w.clients.filter fun x => x.id != c0.id := hy
      show queued (clientPass w c0 (envs.find? (·.fd == c0.fd))).1.devs y.id ≤ pend y
      obtain ⟨hy, hyid⟩ := List.mem_filter.mp hy
      have hyid : y.id ≠ c0.id := by simpa using hyid
      rw [hlo y.id hyid]; exact h.ledger y hy

theorem RunInv.foldl_cliStep {cl : Prop} {H : Hist} (envs : List FdEnv) (l : List Cli) (w : W) (h : RunInv cl H w)
    (hl : ∀ c ∈ l, c ∈ w.clients) (hn : (l.map (·.id)).Nodup) : RunInv cl H (l.foldl (ClientPf.cliStep envs) w) := by
  induction l generalizing w with
  | nil => exact h
  | cons c r ih =>
    rw [List.foldl_cons]
    simp only [List.map_cons, List.nodup_cons, List.mem_map, not_exists, not_and] at hn
    refine ih _ (h.cliStep envs c (hl c (by simp))) ?_ hn.2
    intro x hx
    exact cliStep_mem envs w c x (hl x (by simp [hx])) (fun e => hn.1 x hx e)

/-- **`cli_post_poll` keeps the invariant**, the history taking in the log that is discarded -/
theorem RunInv.cliPostPoll {cl : Prop} {H : Hist} {w : W} (h : RunInv cl H w) (acc : Nat) (envs : List FdEnv) :
    RunInv cl (histNext H w) (cliPostPoll w acc envs) := by
  rw [cliPostPoll_eq]
  have h2 := (h.reset (envs.map fun (e : FdEnv) => (e.fd, e.cap))).accept acc
  exact h2.foldl_cliStep envs _ _ (fun c hc => hc) h2.ids.nodup

end Pm.Daemon.StreamPf

/-! axiom audit (expected: at most `propext`, `Classical.choice`, `Quot.sound`) -/
#print axioms Pm.Daemon.StreamPf.RunInv.cliPostPoll
#print axioms Pm.Daemon.StreamPf.clientPass_ext
#print axioms Pm.Daemon.StreamPf.clientPass_led
