import Pm.LsdListProof
/-! # `liblsd/list.c`: handle discipline, what stays ahead of an iterator, and the statements under `valid`

* `Abs.okOp` / `Abs.okRun`: the only way a call of the list with cursors is undefined is misuse of an iterator handle.
* `Abs.apply_ahead`: no call moves an item from behind an iterator to ahead of it.
* `Abs.run_next_drain`: an iterator left alone returns what is ahead of it, in order, then `NULL`.
* `*_valid`, `run_valid`: the same statements about the node-level model (`Pm/LsdList.lean`) under its executable check `valid`.
* `run_enqueues` / `run_dequeues`: the queue discipline. -/
namespace Pm.LsdList
variable {α : Type}

/-! ## handle discipline: the only way a call can be undefined -/

/-- the call uses iterator handles properly: a new handle is not in use, a used handle is registered -/
def Abs.okOp (a : Abs α) : Op α → Bool
  | .itCreate k => (a.curOf k).isNone
  | .itReset k => (a.curOf k).isSome
  | .itDestroy k => (a.curOf k).isSome
  | .next k => (a.curOf k).isSome
  | .insert k _ => (a.curOf k).isSome
  | .find k _ => (a.curOf k).isSome
  | .remove k => (a.curOf k).isSome
  | .delete k => (a.curOf k).isSome
  | _ => true

theorem Abs.apply_isSome (a : Abs α) (op : Op α) : (a.apply op).isSome = a.okOp op := by
  cases op with
  | deleteAll f =>
    obtain ⟨a', e, _⟩ := Abs.deleteAll_spec a f
    simp [Abs.apply, Abs.okOp, e]
  | find k f =>
    cases hc : a.curOf k with
    | none => simp [Abs.apply, Abs.okOp, Abs.findOp, Abs.find_none_of_curOf f a k hc, hc]
    | some c =>
      obtain ⟨r, hr⟩ := Abs.find_some f (a.items.length + 2) a k c.1 c.2 hc (by omega)
      simp [Abs.apply, Abs.okOp, Abs.findOp, hr, hc]
  | itCreate k => cases hc : a.curOf k <;> simp [Abs.apply, Abs.okOp, hc]
  | itReset k => cases hc : a.curOf k <;> simp [Abs.apply, Abs.okOp, Abs.itReset, hc]
  | itDestroy k => cases hc : a.curOf k <;> simp [Abs.apply, Abs.okOp, Abs.itDestroy, hc]
  | next k => cases hc : a.curOf k <;> simp [Abs.apply, Abs.okOp, Abs.next, hc]
  | insert k x => cases hc : a.curOf k <;> simp [Abs.apply, Abs.okOp, Abs.insert, hc]
  | remove k => cases hc : a.curOf k <;> simp [Abs.apply, Abs.okOp, Abs.remove, hc]
  | delete k => cases hc : a.curOf k <;> simp [Abs.apply, Abs.okOp, Abs.delete, Abs.remove, hc]
  | _ => simp [Abs.apply, Abs.okOp]

/-- a sequence of calls uses iterator handles properly -/
def Abs.okRun : Abs α → List (Op α) → Prop
  | _, [] => True
  | a, op :: ops => a.okOp op = true ∧ ∀ r a', a.apply op = some (r, a') → Abs.okRun a' ops

theorem Abs.run_isSome : ∀ (ops : List (Op α)) (a : Abs α), a.okRun ops → (a.run ops).isSome = true := by
  intro ops
  induction ops with
  | nil => intro a _; rfl
  | cons op ops ih =>
    intro a h
    obtain ⟨h1, h2⟩ := h
    rw [← Abs.apply_isSome] at h1
    obtain ⟨⟨r, a'⟩, e⟩ := Option.isSome_iff_exists.mp h1
    have := ih a' (h2 r a' e)
    obtain ⟨x, hx⟩ := Option.isSome_iff_exists.mp this
    simp [Abs.run, e, hx]

/-! ## no call moves an item from behind an iterator to ahead of it -/

/-- every cursor lies within the list -/
def Abs.Wf (a : Abs α) : Prop := ∀ k c, a.curOf k = some c → c.1 + c.2.toNat ≤ a.items.length

theorem RepA.wf {l : LList α} {ns : List Nat} {a : Abs α} (h : RepA l ns a) : a.Wf := by
  intro k c hc
  rw [h.curOf] at hc
  cases hi : iterOf l k with
  | none => simp [hi] at hc
  | some i =>
    have pl := iterOf_place h.rep k i hi
    simp only [hi, Option.map_some, Option.some.injEq] at hc
    subst hc
    rw [h.len]; exact pl.le

/-- the items a call puts into the list -/
def Op.inserted : Op α → List α
  | .append x => [x]
  | .prepend x => [x]
  | .push x => [x]
  | .enqueue x => [x]
  | .insert _ x => [x]
  | _ => []

/-- the calls that restart (or create, or destroy) the iterator with handle `k` -/
def Op.restarts (k : Nat) : Op α → Bool
  | .itReset k' => k' == k
  | .itCreate k' => k' == k
  | .itDestroy k' => k' == k
  | .sort _ => true
  | _ => false

theorem Abs.ahead_createAt_mem (a : Abs α) (f : Nat) (x : α) (k : Nat) (hk : (a.curOf k).isSome) (hf : f ≤ a.items.length) :
    ((a.createAt f x).curOf k).isSome ∧ ∀ y ∈ (a.createAt f x).ahead k, y ∈ a.ahead k ∨ y = x := by
  obtain ⟨⟨j, g⟩, hc⟩ := Option.isSome_iff_exists.mp hk
  refine ⟨by simp [Abs.curOf_createAt, hc], ?_⟩
  intro y hy
  rw [Abs.ahead_createAt a f x k j g hc hf] at hy
  split at hy
  · exact Or.inl hy
  · by_cases hle : f - (j + g.toNat) ≤ (a.ahead k).length
    · rcases (List.mem_insertIdx hle).mp hy with h | h
      · exact Or.inr h
      · exact Or.inl h
    · rw [List.insertIdx_of_length_lt (by omega)] at hy
      exact Or.inl hy

theorem Abs.ahead_destroyAt_mem (a : Abs α) (f : Nat) (k : Nat) (hk : (a.curOf k).isSome) :
    ((a.destroyAt f).curOf k).isSome ∧ ∀ y ∈ (a.destroyAt f).ahead k, y ∈ a.ahead k := by
  obtain ⟨⟨j, g⟩, hc⟩ := Option.isSome_iff_exists.mp hk
  refine ⟨by simp [Abs.curOf_destroyAt, hc], ?_⟩
  intro y hy
  rw [Abs.ahead_destroyAt a f k j g hc] at hy
  split at hy
  · exact hy
  · exact List.mem_of_mem_eraseIdx hy

theorem Abs.ahead_setCur_ne (a : Abs α) (k k' : Nat) (c : Nat × Bool) (hne : k ≠ k') : (a.setCur k' c).ahead k = a.ahead k := by
  simp only [Abs.ahead, Abs.curOf_setCur_ne a k' k c hne]
  rfl

theorem Abs.deleteAllFrom_ahead (f : α → Bool) (k : Nat) :
    ∀ (fuel : Nat) (a : Abs α) (i n : Nat) (del : List α) r, Abs.deleteAllFrom f fuel a i n del = some r → (a.curOf k).isSome →
      (r.2.2.curOf k).isSome ∧ ∀ y ∈ r.2.2.ahead k, y ∈ a.ahead k := by
  intro fuel
  induction fuel with
  | zero => intro a i n del r h; simp [Abs.deleteAllFrom] at h
  | succ fuel ih =>
    intro a i n del r h hk
    rw [Abs.deleteAllFrom] at h
    cases hd : a.items[i]? with
    | none =>
      simp only [hd, Option.some.injEq] at h; subst h
      exact ⟨hk, fun y hy => hy⟩
    | some d =>
      simp only [hd] at h
      split at h
      · obtain ⟨h1, h2⟩ := Abs.ahead_destroyAt_mem a i k hk
        obtain ⟨h3, h4⟩ := ih _ _ _ _ _ h h1
        exact ⟨h3, fun y hy => h2 y (h4 y hy)⟩
      · exact ih _ _ _ _ _ h hk

theorem Abs.next_ahead (a : Abs α) (k k' : Nat) (r : Option α) (a' : Abs α) (h : a.next k' = some (r, a')) (hk : (a.curOf k).isSome) :
    (a'.curOf k).isSome ∧ ∀ y ∈ a'.ahead k, y ∈ a.ahead k := by
  have hk' : (a.curOf k').isSome := by
    cases hc : a.curOf k' with
    | none => simp [Abs.next, hc] at h
    | some c => rfl
  obtain ⟨a1, e, hitems, hah, _, hoth⟩ := Abs.next_spec a k' hk'
  rw [e] at h
  simp only [Option.some.injEq, Prod.mk.injEq] at h
  obtain ⟨_, rfl⟩ := h
  by_cases hkk : k = k'
  · subst hkk
    refine ⟨Abs.next_curOf a k _ _ e, ?_⟩
    intro y hy; rw [hah] at hy; exact List.mem_of_mem_tail hy
  · refine ⟨by rw [hoth k hkk]; exact hk, ?_⟩
    intro y hy
    simp only [Abs.ahead, hoth k hkk, hitems] at hy
    exact hy

theorem Abs.find_ahead (f : α → Bool) (k k' : Nat) :
    ∀ (fuel : Nat) (a : Abs α) r a', Abs.find f fuel a k' = some (r, a') → (a.curOf k).isSome →
      (a'.curOf k).isSome ∧ ∀ y ∈ a'.ahead k, y ∈ a.ahead k := by
  intro fuel
  induction fuel with
  | zero => intro a r a' h; simp [Abs.find] at h
  | succ fuel ih =>
    intro a r a' h hk
    rw [Abs.find] at h
    cases hn : a.next k' with
    | none => simp [hn] at h
    | some x =>
      obtain ⟨v, a1⟩ := x
      obtain ⟨h1, h2⟩ := Abs.next_ahead a k k' v a1 hn hk
      cases v with
      | none =>
        simp only [hn, Option.some.injEq, Prod.mk.injEq] at h
        obtain ⟨_, rfl⟩ := h; exact ⟨h1, h2⟩
      | some v =>
        simp only [hn] at h
        split at h
        · simp only [Option.some.injEq, Prod.mk.injEq] at h
          obtain ⟨_, rfl⟩ := h; exact ⟨h1, h2⟩
        · obtain ⟨h3, h4⟩ := ih a1 r a' h h1
          exact ⟨h3, fun y hy => h2 y (h4 y hy)⟩

theorem lookup_eraseP_ne {β : Type} (k k' : Nat) (hne : k ≠ k') : ∀ (l : List (Nat × β)),
    (l.eraseP (fun kc => kc.1 == k')).lookup k = l.lookup k := by
  intro l
  induction l with
  | nil => simp
  | cons a rest ih =>
    obtain ⟨k0, v0⟩ := a
    rw [List.eraseP_cons]
    by_cases e : k0 = k'
    · subst e
      have e1 : (k == k0) = false := by simpa using hne
      simp [List.lookup_cons, e1]
    · have e2 : (k0 == k') = false := by simpa using e
      simp only [e2, cond_false, List.lookup_cons, ih]

/-- **no call moves an item from behind an iterator to ahead of it**: after any call that does not restart the iterator `k`
    (`list_iterator_reset` of it, `list_sort`), everything `k` has still to return was already ahead of it before the call, or
    is the item this very call inserted.  (`list_next` on `k` takes the first of them away: `Abs.next_spec`.) -/
theorem Abs.apply_ahead (a : Abs α) (hw : a.Wf) (op : Op α) (k : Nat) (r : Res α) (a' : Abs α) (h : a.apply op = some (r, a'))
    (hk : (a.curOf k).isSome) (hr : op.restarts k = false) :
    (a'.curOf k).isSome ∧ ∀ y ∈ a'.ahead k, y ∈ a.ahead k ∨ y ∈ op.inserted := by
  have same : a' = a → (a'.curOf k).isSome ∧ ∀ y ∈ a'.ahead k, y ∈ a.ahead k ∨ y ∈ op.inserted := by
    intro e; subst e; exact ⟨hk, fun y hy => Or.inl hy⟩
  have crt : ∀ f x, f ≤ a.items.length → a' = a.createAt f x → op.inserted = [x] →
      (a'.curOf k).isSome ∧ ∀ y ∈ a'.ahead k, y ∈ a.ahead k ∨ y ∈ op.inserted := by
    intro f x hf e hi; subst e
    obtain ⟨h1, h2⟩ := Abs.ahead_createAt_mem a f x k hk hf
    exact ⟨h1, fun y hy => by rw [hi]; simpa using h2 y hy⟩
  have dst : ∀ f, a' = a.destroyAt f → (a'.curOf k).isSome ∧ ∀ y ∈ a'.ahead k, y ∈ a.ahead k ∨ y ∈ op.inserted := by
    intro f e; subst e
    obtain ⟨h1, h2⟩ := Abs.ahead_destroyAt_mem a f k hk
    exact ⟨h1, fun y hy => Or.inl (h2 y hy)⟩
  cases op with
  | append x => simp only [Abs.apply, Option.some.injEq, Prod.mk.injEq] at h; exact crt _ x (Nat.le_refl _) h.2.symm rfl
  | enqueue x => simp only [Abs.apply, Option.some.injEq, Prod.mk.injEq] at h; exact crt _ x (Nat.le_refl _) h.2.symm rfl
  | prepend x => simp only [Abs.apply, Option.some.injEq, Prod.mk.injEq] at h; exact crt 0 x (Nat.zero_le _) h.2.symm rfl
  | push x => simp only [Abs.apply, Option.some.injEq, Prod.mk.injEq] at h; exact crt 0 x (Nat.zero_le _) h.2.symm rfl
  | pop =>
    simp only [Abs.apply, Option.some.injEq, Prod.mk.injEq] at h
    unfold Abs.pop at h
    cases h0 : a.items[0]? with
    | none => simp only [h0] at h; exact same h.2.symm
    | some v => simp only [h0] at h; exact dst 0 h.2.symm
  | dequeue =>
    simp only [Abs.apply, Option.some.injEq, Prod.mk.injEq] at h
    unfold Abs.pop at h
    cases h0 : a.items[0]? with
    | none => simp only [h0] at h; exact same h.2.symm
    | some v => simp only [h0] at h; exact dst 0 h.2.symm
  | peek => simp only [Abs.apply, Option.some.injEq, Prod.mk.injEq] at h; exact same h.2.symm
  | isEmpty => simp only [Abs.apply, Option.some.injEq, Prod.mk.injEq] at h; exact same h.2.symm
  | count => simp only [Abs.apply, Option.some.injEq, Prod.mk.injEq] at h; exact same h.2.symm
  | findFirst f => simp only [Abs.apply, Option.some.injEq, Prod.mk.injEq] at h; exact same h.2.symm
  | forEach f => simp only [Abs.apply, Option.some.injEq, Prod.mk.injEq] at h; exact same h.2.symm
  | deleteAll f =>
    simp only [Abs.apply] at h
    cases hd : a.deleteAll f with
    | none => simp [hd] at h
    | some x =>
      simp only [hd, Option.map_some, Option.some.injEq, Prod.mk.injEq] at h
      obtain ⟨h1, h2⟩ := Abs.deleteAllFrom_ahead f k _ a 0 0 [] x hd hk
      rw [h.2] at h1 h2
      exact ⟨h1, fun y hy => Or.inl (h2 y hy)⟩
  | sort cmp => simp [Op.restarts] at hr
  | itCreate k' =>
    have hne : ¬ k = k' := by intro e; subst e; simp [Op.restarts] at hr
    simp only [Abs.apply] at h
    split at h
    · simp at h
    · simp only [Option.some.injEq, Prod.mk.injEq] at h
      obtain ⟨_, rfl⟩ := h
      have e1 : (k == k') = false := by simpa using hne
      have hcur : (a.itCreate k').curOf k = a.curOf k := by simp [Abs.itCreate, Abs.curOf, List.lookup_cons, e1]
      have hah : (a.itCreate k').ahead k = a.ahead k := by simp only [Abs.ahead, hcur]; rfl
      exact ⟨by rw [hcur]; exact hk, fun y hy => Or.inl (by rwa [hah] at hy)⟩
  | itReset k' =>
    have hne : ¬ k = k' := by intro e; subst e; simp [Op.restarts] at hr
    simp only [Abs.apply, Abs.itReset] at h
    cases hc : a.curOf k' with
    | none => simp [hc] at h
    | some c =>
      simp only [hc, Option.map_some, Option.some.injEq, Prod.mk.injEq] at h
      obtain ⟨_, rfl⟩ := h
      exact ⟨by rw [Abs.curOf_setCur_ne a k' k _ hne]; exact hk, fun y hy => Or.inl (by rwa [Abs.ahead_setCur_ne a k k' _ hne] at hy)⟩
  | itDestroy k' =>
    have hne : ¬ k = k' := by intro e; subst e; simp [Op.restarts] at hr
    simp only [Abs.apply, Abs.itDestroy] at h
    cases hc : a.curOf k' with
    | none => simp [hc] at h
    | some c =>
      simp only [hc, Option.map_some, Option.some.injEq, Prod.mk.injEq] at h
      obtain ⟨_, rfl⟩ := h
      have hcur : Abs.curOf { a with curs := a.curs.eraseP (fun kc => kc.1 == k') } k = a.curOf k := lookup_eraseP_ne k k' hne a.curs
      have hah : Abs.ahead { a with curs := a.curs.eraseP (fun kc => kc.1 == k') } k = a.ahead k := by
        simp only [Abs.ahead, hcur]
      exact ⟨by rw [hcur]; exact hk, fun y hy => Or.inl (by rwa [hah] at hy)⟩
  | next k' =>
    simp only [Abs.apply] at h
    cases hn : a.next k' with
    | none => simp [hn] at h
    | some x =>
      simp only [hn, Option.map_some, Option.some.injEq, Prod.mk.injEq] at h
      obtain ⟨h1, h2⟩ := Abs.next_ahead a k k' x.1 x.2 hn hk
      rw [h.2] at h1 h2
      exact ⟨h1, fun y hy => Or.inl (h2 y hy)⟩
  | insert k' x =>
    simp only [Abs.apply, Abs.insert] at h
    cases hc : a.curOf k' with
    | none => simp [hc] at h
    | some c =>
      simp only [hc, Option.map_some, Option.some.injEq, Prod.mk.injEq] at h
      exact crt c.1 x (by have := hw k' c hc; omega) h.2.symm rfl
  | find k' f =>
    simp only [Abs.apply, Abs.findOp] at h
    cases hn : Abs.find f (a.items.length + 2) a k' with
    | none => simp [hn] at h
    | some x =>
      simp only [hn, Option.map_some, Option.some.injEq, Prod.mk.injEq] at h
      obtain ⟨h1, h2⟩ := Abs.find_ahead f k k' _ a x.1 x.2 hn hk
      rw [h.2] at h1 h2
      exact ⟨h1, fun y hy => Or.inl (h2 y hy)⟩
  | remove k' =>
    simp only [Abs.apply, Abs.remove] at h
    cases hc : a.curOf k' with
    | none => simp [hc] at h
    | some c =>
      simp only [hc, Option.map_some, Option.some.injEq, Prod.mk.injEq] at h
      split at h
      · exact dst c.1 h.2.symm
      · exact same h.2.symm
  | delete k' =>
    simp only [Abs.apply, Abs.delete, Abs.remove] at h
    cases hc : a.curOf k' with
    | none => simp [hc] at h
    | some c =>
      obtain ⟨j, g⟩ := c
      cases g with
      | false =>
        simp only [hc, Option.map_some, Option.some.injEq, Prod.mk.injEq] at h
        exact same h.2.symm
      | true =>
        simp only [hc, Option.map_some, Option.some.injEq, Prod.mk.injEq, if_true] at h
        refine dst j ?_
        rw [← h.2]
        cases a.items[j]? <;> rfl

/-! ## an iterator left alone returns what is ahead of it, in order -/

theorem Abs.run_next_drain (k : Nat) : ∀ (n : Nat) (a : Abs α), (a.curOf k).isSome →
    ∃ a', a.run (List.replicate n (Op.next k)) = some ((List.range n).map (fun i => Res.item (a.ahead k)[i]?), a') ∧
      a'.items = a.items ∧ a'.ahead k = (a.ahead k).drop n ∧ (a'.curOf k).isSome := by
  intro n
  induction n with
  | zero => intro a hk; exact ⟨a, rfl, rfl, by simp, hk⟩
  | succ n ih =>
    intro a hk
    obtain ⟨a1, e, hitems, hah, _, _⟩ := Abs.next_spec a k hk
    have hk1 := Abs.next_curOf a k _ _ e
    obtain ⟨a2, e2, hitems2, hah2, hk2⟩ := ih a1 hk1
    refine ⟨a2, ?_, by rw [hitems2, hitems], by rw [hah2, hah, List.drop_tail], hk2⟩
    simp only [List.replicate_succ, Abs.run, Abs.apply, e, Option.map_some, e2]
    rw [List.range_succ_eq_map]
    simp only [List.map_cons, List.map_map, hah, List.head?_eq_getElem?]
    congr 2
    congr 1
    apply List.map_congr_left
    intro i _
    simp [List.getElem?_tail]

/-! ## under `valid`: the statements about the node-level model itself -/

theorem valid_repA {l : LList α} (h : valid l = true) : ∃ ns, RepA l ns (absOf l) := by
  obtain ⟨ns, items, hr⟩ := (valid_iff l).mp h
  exact ⟨ns, hr.repA⟩

theorem RepA.valid' {l : LList α} {ns : List Nat} {a : Abs α} (h : RepA l ns a) : LsdList.valid l = true :=
  (valid_iff l).mpr h.valid

theorem RepA.contents {l : LList α} {ns : List Nat} {a : Abs α} (h : RepA l ns a) : LsdList.contents l = a.items :=
  h.rep.toChain.contents

/-- **any sequence of calls**: from a valid state, a sequence of calls that uses iterator handles properly never dies, every
    state on the way is valid, and answers and final state are those of the list with cursors. -/
theorem run_valid {l : LList α} (h : valid l = true) (ops : List (Op α)) (hok : (absOf l).okRun ops) :
    ∃ rs l', run l ops = some (rs, l') ∧ valid l' = true ∧ (absOf l).run ops = some (rs, absOf l') := by
  obtain ⟨ns, hr⟩ := valid_repA h
  obtain ⟨⟨rs, a'⟩, e⟩ := Option.isSome_iff_exists.mp (Abs.run_isSome ops _ hok)
  obtain ⟨l', ns', e', hr'⟩ := (run_refines ops l ns _ hr).2 rs a' e
  exact ⟨rs, l', e', hr'.valid', by rw [e, hr'.abs]⟩

/-- the C code dies in a sequence of calls exactly when the list with cursors is undefined there (handle misuse) -/
theorem run_none_iff {l : LList α} (h : valid l = true) (ops : List (Op α)) : run l ops = none ↔ (absOf l).run ops = none := by
  obtain ⟨ns, hr⟩ := valid_repA h
  obtain ⟨h1, h2⟩ := run_refines ops l ns _ hr
  refine ⟨?_, h1⟩
  intro e
  cases ha : (absOf l).run ops with
  | none => rfl
  | some x =>
    obtain ⟨l', ns', e', _⟩ := h2 x.1 x.2 ha
    rw [e] at e'; simp at e'

theorem create_valid (hp : Heap α) (fdel : Bool) (ho : HeapOk hp) :
    valid (create hp fdel) = true ∧ contents (create hp fdel) = [] ∧ (create hp fdel).iters = [] :=
  ⟨(valid_iff _).mpr ⟨[], [], create_rep hp fdel ho⟩, (create_rep hp fdel ho).toChain.contents, rfl⟩

theorem heapOk_empty : HeapOk ({ cells := #[], free := [] } : Heap α) := ⟨List.nodup_nil, by simp⟩

theorem destroy_valid {l : LList α} (h : valid l = true) :
    ∃ hp, destroy l = some (if l.fdel then contents l else [], hp) ∧ HeapOk hp := by
  obtain ⟨ns, items, hr⟩ := (valid_iff l).mp h
  rw [hr.toChain.contents]
  exact destroy_spec hr

theorem append_valid {l : LList α} (h : valid l = true) (x : α) :
    ∃ l', append l x = some l' ∧ valid l' = true ∧ contents l' = contents l ++ [x] ∧ absOf l' = (absOf l).append x := by
  obtain ⟨ns, hr⟩ := valid_repA h
  obtain ⟨l', ns', e, hr'⟩ := append_abs hr x
  exact ⟨l', e, hr'.valid', by rw [hr'.contents]; simp [Abs.append, Abs.createAt, absOf, List.insertIdx_length_self], hr'.abs⟩

theorem prepend_valid {l : LList α} (h : valid l = true) (x : α) :
    ∃ l', prepend l x = some l' ∧ valid l' = true ∧ contents l' = x :: contents l ∧ absOf l' = (absOf l).prepend x := by
  obtain ⟨ns, hr⟩ := valid_repA h
  obtain ⟨l', ns', e, hr'⟩ := prepend_abs hr x
  exact ⟨l', e, hr'.valid', by rw [hr'.contents]; simp [Abs.prepend, Abs.createAt, absOf], hr'.abs⟩

theorem Abs.pop_items (a : Abs α) : a.pop.1 = a.items.head? ∧ a.pop.2.items = a.items.tail := by
  unfold Abs.pop
  cases h : a.items with
  | nil => simp [h]
  | cons x xs => simp [Abs.destroyAt, h]

theorem pop_valid {l : LList α} (h : valid l = true) :
    ∃ l', pop l = some ((contents l).head?, l') ∧ valid l' = true ∧ contents l' = (contents l).tail ∧ absOf l' = (absOf l).pop.2 := by
  obtain ⟨ns, hr⟩ := valid_repA h
  obtain ⟨l', ns', e, hr'⟩ := pop_abs hr
  obtain ⟨h1, h2⟩ := Abs.pop_items (absOf l)
  rw [h1] at e
  exact ⟨l', e, hr'.valid', by rw [hr'.contents, h2]; rfl, hr'.abs⟩

theorem peek_valid {l : LList α} (h : valid l = true) : peek l = some (contents l).head? := by
  obtain ⟨ns, hr⟩ := valid_repA h
  rw [peek_abs hr, List.head?_eq_getElem?]; rfl

theorem count_valid {l : LList α} (h : valid l = true) : countOf l = (contents l).length ∧ isEmpty l = (contents l).isEmpty := by
  obtain ⟨ns, hr⟩ := valid_repA h
  exact ⟨count_abs hr, isEmpty_abs hr⟩

theorem findFirst_valid {l : LList α} (h : valid l = true) (f : α → Bool) : findFirst l f = some ((contents l).find? f) := by
  obtain ⟨ns, hr⟩ := valid_repA h
  exact findFirst_abs hr f

theorem forEach_valid {l : LList α} (h : valid l = true) (f : α → Int) : forEach l f = some (forEachAbs f (contents l) 0) := by
  obtain ⟨ns, hr⟩ := valid_repA h
  exact forEach_abs hr f

theorem deleteAll_valid {l : LList α} (h : valid l = true) (f : α → Bool) :
    ∃ l', deleteAll l f = some ((contents l).countP f, if l.fdel then (contents l).filter f else [], l') ∧ valid l' = true ∧
      contents l' = (contents l).filter (fun x => !f x) ∧ l'.fdel = l.fdel := by
  obtain ⟨ns, hr⟩ := valid_repA h
  obtain ⟨l', ns', r, a', e1, e2, hr'⟩ := deleteAll_abs hr f
  obtain ⟨a0, e0, h1, h2⟩ := Abs.deleteAll_spec (absOf l) f
  rw [e0] at e2
  simp only [Option.some.injEq, Prod.mk.injEq] at e2
  obtain ⟨e3, e4, e5⟩ := e2
  subst e5
  rw [← e3, ← e4] at e1
  refine ⟨l', e1, hr'.valid', by rw [hr'.contents, h1]; rfl, ?_⟩
  rw [← hr'.fdel, h2]; rfl

theorem sortList_short (f : α → α → Int) (l : List α) (h : ¬ l.length > 1) : sortList f l = l := by
  cases l with
  | nil => rfl
  | cons x rest =>
    cases rest with
    | nil => rfl
    | cons y r => simp at h

theorem sort_valid {l : LList α} (h : valid l = true) (f : α → α → Int) :
    ∃ l', sort l f = some l' ∧ valid l' = true ∧ contents l' = sortList f (contents l) ∧ absOf l' = (absOf l).sort f := by
  obtain ⟨ns, hr⟩ := valid_repA h
  obtain ⟨l', ns', e, hr'⟩ := sort_abs hr f
  refine ⟨l', e, hr'.valid', ?_, hr'.abs⟩
  rw [hr'.contents]
  unfold Abs.sort
  split
  · rfl
  · rename_i hlen; exact (sortList_short f _ hlen).symm

theorem absOf_curOf {l : LList α} {ns : List Nat} (hr : RepA l ns (absOf l)) (k : Nat) :
    ((absOf l).curOf k).isSome = (iterOf l k).isSome := by
  rw [hr.curOf]; cases iterOf l k <;> rfl

theorem next_valid {l : LList α} (h : valid l = true) (k : Nat) (hk : (iterOf l k).isSome) :
    ∃ l', next l k = some (((absOf l).ahead k).head?, l') ∧ valid l' = true ∧ contents l' = contents l ∧
      (absOf l').ahead k = ((absOf l).ahead k).tail ∧ (absOf l').removable k = ((absOf l).ahead k).head? ∧
      ∀ k', k' ≠ k → (absOf l').curOf k' = (absOf l).curOf k' := by
  obtain ⟨ns, hr⟩ := valid_repA h
  obtain ⟨i, hi⟩ := Option.isSome_iff_exists.mp hk
  obtain ⟨l', r, a', e1, e2, hr'⟩ := next_abs hr k i hi
  obtain ⟨a1, e, hitems, hah, hrem, hoth⟩ := Abs.next_spec (absOf l) k (by rw [absOf_curOf hr]; exact hk)
  rw [e] at e2
  simp only [Option.some.injEq, Prod.mk.injEq] at e2
  obtain ⟨rfl, rfl⟩ := e2
  rw [← hr'.abs] at hitems hah hrem hoth
  exact ⟨l', e1, hr'.valid', hitems, hah, hrem, hoth⟩

theorem insert_valid {l : LList α} (h : valid l = true) (k : Nat) (x : α) (hk : (iterOf l k).isSome) :
    ∃ l' c, (absOf l).curOf k = some c ∧ insert l k x = some l' ∧ valid l' = true ∧ absOf l' = (absOf l).createAt c.1 x ∧
      c.1 + c.2.toNat ≤ (contents l).length := by
  obtain ⟨ns, hr⟩ := valid_repA h
  obtain ⟨i, hi⟩ := Option.isSome_iff_exists.mp hk
  obtain ⟨l', ns', a', e1, e2, hr'⟩ := insert_abs hr k i x hi
  have hc : (absOf l).curOf k = some (cur ns i) := by rw [hr.curOf, hi]; rfl
  simp only [Abs.insert, hc, Option.map_some, Option.some.injEq] at e2
  subst e2
  exact ⟨l', _, hc, e1, hr'.valid', hr'.abs, hr.wf k _ hc⟩

theorem remove_valid {l : LList α} (h : valid l = true) (k : Nat) (hk : (iterOf l k).isSome) :
    ∃ l' c, (absOf l).curOf k = some c ∧ remove l k = some ((absOf l).removable k, l') ∧ valid l' = true ∧
      absOf l' = (if c.2 then (absOf l).destroyAt c.1 else absOf l) := by
  obtain ⟨ns, hr⟩ := valid_repA h
  obtain ⟨i, hi⟩ := Option.isSome_iff_exists.mp hk
  obtain ⟨l', ns', r, a', e1, e2, hr'⟩ := remove_abs hr k i hi
  have hc : (absOf l).curOf k = some (cur ns i) := by rw [hr.curOf, hi]; rfl
  simp only [Abs.remove, hc, Option.map_some, Option.some.injEq] at e2
  refine ⟨l', _, hc, ?_, hr'.valid', ?_⟩
  · rw [e1]; simp only [Abs.removable, hc]
    split at e2 <;> simp_all
  · rw [hr'.abs]
    split at e2 <;> simp_all

/-! ## the queue discipline -/

theorem run_append (l : LList α) (o1 o2 : List (Op α)) :
    run l (o1 ++ o2) = match run l o1 with
      | none => none
      | some (r1, l1) => (run l1 o2).map (fun x => (r1 ++ x.1, x.2)) := by
  induction o1 generalizing l with
  | nil => simp [run]
  | cons op ops ih =>
    simp only [List.cons_append, run]
    cases Op.apply l op with
    | none => rfl
    | some x =>
      obtain ⟨r, l'⟩ := x
      simp only [ih l']
      cases run l' ops with
      | none => rfl
      | some y =>
        obtain ⟨r1, l1⟩ := y
        simp only [Option.map_some]
        cases run l1 o2 <;> simp

theorem run_enqueues : ∀ (xs : List α) (l : LList α), valid l = true →
    ∃ l', run l (xs.map Op.enqueue) = some (xs.map (fun x => Res.item (some x)), l') ∧ valid l' = true ∧
      contents l' = contents l ++ xs := by
  intro xs
  induction xs with
  | nil => intro l h; exact ⟨l, rfl, h, by simp⟩
  | cons x xs ih =>
    intro l h
    obtain ⟨l1, e1, h1, c1, _⟩ := append_valid h x
    have e1' : enqueue l x = some l1 := e1
    obtain ⟨l2, e2, h2, c2⟩ := ih l1 h1
    exact ⟨l2, by simp [run, Op.apply, e1', e2], h2, by rw [c2, c1]; simp⟩

theorem run_dequeues : ∀ (n : Nat) (l : LList α), valid l = true → n ≤ (contents l).length →
    ∃ l', run l (List.replicate n Op.dequeue) = some (((contents l).take n).map (fun x => Res.item (some x)), l') ∧
      valid l' = true ∧ contents l' = (contents l).drop n := by
  intro n
  induction n with
  | zero => intro l h _; exact ⟨l, rfl, h, by simp⟩
  | succ n ih =>
    intro l h hn
    obtain ⟨l1, e1, h1, c1, _⟩ := pop_valid h
    have e1' : dequeue l = some ((contents l).head?, l1) := e1
    obtain ⟨l2, e2, h2, c2⟩ := ih l1 h1 (by rw [c1]; simp; omega)
    cases hc : contents l with
    | nil => rw [hc] at hn; simp at hn
    | cons y ys =>
      rw [hc] at e1' c1
      refine ⟨l2, ?_, h2, by rw [c2, c1]; simp⟩
      simp [run, List.replicate_succ, Op.apply, e1', e2, c1]
/-! ## `list_delete_all` under live iterators -/

theorem curDestroy_pos (i j : Nat) (g : Bool) :
    (curDestroy i (j, g)).1 + (curDestroy i (j, g)).2.toNat = if i < j + g.toNat then j + g.toNat - 1 else j + g.toNat := by
  have hg1 : g.toNat ≤ 1 := by cases g <;> simp
  unfold curDestroy
  by_cases h1 : j + g.toNat = i ∨ j = i
  · simp only [h1, if_true]
    rcases h1 with h1 | h1
    · have : ¬ i < j + g.toNat := by omega
      simp [this]; omega
    · subst h1
      by_cases hg : g = true
      · subst hg; simp
      · have : g = false := by simpa using hg
        subst this; simp
  · simp only [h1, if_false]
    have h1' : ¬ j + g.toNat = i ∧ ¬ j = i := by
      constructor
      · intro e; exact h1 (Or.inl e)
      · intro e; exact h1 (Or.inr e)
    by_cases h2 : i < j
    · have : i < j + g.toNat := by omega
      simp only [h2, if_true, this]; omega
    · have : ¬ i < j + g.toNat := by omega
      simp only [h2, if_false, this]

theorem take_eraseIdx_same (l : List α) (k : Nat) : (l.eraseIdx k).take k = l.take k := take_eraseIdx_self l k

theorem drop_eraseIdx_same (l : List α) (k : Nat) : (l.eraseIdx k).drop k = l.drop (k + 1) := by
  have := drop_eraseIdx_lt l k (k + 1) (by omega)
  simpa using this

/-- `list_delete_all`, seen from an iterator: from index `i` on, the marked items disappear from what the iterator has still
    to return, the others stay in order -/
theorem Abs.deleteAllFrom_ahead_eq (f : α → Bool) (k : Nat) :
    ∀ (fuel : Nat) (a : Abs α) (i n : Nat) (del : List α) (j : Nat) (g : Bool) r,
      Abs.deleteAllFrom f fuel a i n del = some r → a.curOf k = some (j, g) →
      r.2.2.ahead k = (a.ahead k).take (i - (j + g.toNat)) ++ ((a.ahead k).drop (i - (j + g.toNat))).filter (fun x => !f x) := by
  intro fuel
  induction fuel with
  | zero => intro a i n del j g r h; simp [Abs.deleteAllFrom] at h
  | succ fuel ih =>
    intro a i n del j g r h hc
    have hah : a.ahead k = a.items.drop (j + g.toNat) := by simp [Abs.ahead, hc]
    rw [Abs.deleteAllFrom] at h
    cases hd : a.items[i]? with
    | none =>
      simp only [hd, Option.some.injEq] at h; subst h
      have hlen : a.items.length ≤ i := by simpa using hd
      have h1 : (a.ahead k).length ≤ i - (j + g.toNat) := by rw [hah]; simp; omega
      show a.ahead k = _
      rw [List.take_of_length_le h1, List.drop_eq_nil_of_le h1]; simp
    | some d =>
      have hi : i < a.items.length := by
        rcases Nat.lt_or_ge i a.items.length with h1 | h1
        · exact h1
        · simp [List.getElem?_eq_none h1] at hd
      simp only [hd] at h
      by_cases hp : i < j + g.toNat
      · -- the item is behind the iterator (or is the one it returned last): nothing ahead of it changes
        have e0 : i - (j + g.toNat) = 0 := by omega
        rw [e0]; simp only [List.take_zero, List.drop_zero, List.nil_append]
        split at h
        · have hpos := curDestroy_pos i j g
          rcases hcd : curDestroy i (j, g) with ⟨j1, g1⟩
          rw [hcd, if_pos hp] at hpos
          simp only at hpos
          have hc1 : (a.destroyAt i).curOf k = some (j1, g1) := by rw [Abs.curOf_destroyAt, hc, ← hcd]; rfl
          have := ih _ _ _ _ j1 g1 _ h hc1
          rw [this, hpos]
          have e1 : i - (j + g.toNat - 1) = 0 := by omega
          rw [e1, Abs.ahead_destroyAt a i k j g hc, if_pos hp]; simp
        · have := ih _ _ _ _ _ _ _ h hc
          have e1 : i + 1 - (j + g.toNat) = 0 := by omega
          rw [this, e1]; simp
      · -- the item is ahead of the iterator, at offset i - p
        have hoff : (a.ahead k)[i - (j + g.toNat)]? = some d := by
          rw [hah, List.getElem?_drop]; rw [← hd]; congr 1; omega
        have hlt : i - (j + g.toNat) < (a.ahead k).length := by
          rcases Nat.lt_or_ge (i - (j + g.toNat)) (a.ahead k).length with h1 | h1
          · exact h1
          · simp [List.getElem?_eq_none h1] at hoff
        have hdrop : (a.ahead k).drop (i - (j + g.toNat)) = d :: (a.ahead k).drop (i - (j + g.toNat) + 1) := by
          rw [List.drop_eq_getElem_cons hlt]
          have : (a.ahead k)[i - (j + g.toNat)] = d := by simpa [List.getElem?_eq_getElem hlt] using hoff
          rw [this]
        split at h
        · rename_i hf
          have hpos := curDestroy_pos i j g
          rcases hcd : curDestroy i (j, g) with ⟨j1, g1⟩
          rw [hcd, if_neg hp] at hpos
          simp only at hpos
          have hc1 : (a.destroyAt i).curOf k = some (j1, g1) := by rw [Abs.curOf_destroyAt, hc, ← hcd]; rfl
          have := ih _ _ _ _ j1 g1 _ h hc1
          rw [this, hpos, Abs.ahead_destroyAt a i k j g hc, if_neg hp,
            take_eraseIdx_same, drop_eraseIdx_same, hdrop]
          simp [hf]
        · rename_i hf
          have := ih _ _ _ _ _ _ _ h hc
          have e1 : i + 1 - (j + g.toNat) = i - (j + g.toNat) + 1 := by omega
          rw [this, e1, hdrop, List.take_succ_eq_append_getElem hlt]
          have : (a.ahead k)[i - (j + g.toNat)] = d := by simpa [List.getElem?_eq_getElem hlt] using hoff
          simp [this, hf]

/-- **`list_delete_all` under a live iterator**: afterwards the iterator has still to return exactly the surviving items it
    had still to return, in order. -/
theorem Abs.deleteAll_ahead (a : Abs α) (f : α → Bool) (k : Nat) (hk : (a.curOf k).isSome) (r : Nat × List α × Abs α)
    (h : a.deleteAll f = some r) : r.2.2.ahead k = (a.ahead k).filter (fun x => !f x) := by
  obtain ⟨⟨j, g⟩, hc⟩ := Option.isSome_iff_exists.mp hk
  have := Abs.deleteAllFrom_ahead_eq f k _ a 0 0 [] j g r h hc
  simpa using this

theorem deleteAll_ahead_valid {l : LList α} (h : valid l = true) (f : α → Bool) (k : Nat) (hk : (iterOf l k).isSome) :
    ∃ n dl l', deleteAll l f = some (n, dl, l') ∧ valid l' = true ∧
      (absOf l').ahead k = ((absOf l).ahead k).filter (fun x => !f x) := by
  obtain ⟨ns, hr⟩ := valid_repA h
  obtain ⟨l', ns', r, a', e1, e2, hr'⟩ := deleteAll_abs hr f
  have := Abs.deleteAll_ahead (absOf l) f k (by rw [absOf_curOf hr]; exact hk) _ e2
  exact ⟨r.1, r.2, l', e1, hr'.valid', by rw [hr'.abs]; exact this⟩

/-! ## `list_find` in closed form -/

theorem Abs.find_spec (f : α → Bool) (k : Nat) :
    ∀ (fuel : Nat) (a : Abs α), (a.curOf k).isSome → (a.ahead k).length < fuel →
      ∃ a', Abs.find f fuel a k = some ((a.ahead k).find? f, a') ∧ a'.items = a.items ∧
        a'.ahead k = ((a.ahead k).dropWhile (fun x => !f x)).tail ∧ (a'.curOf k).isSome := by
  intro fuel
  induction fuel with
  | zero => intro a _ h; omega
  | succ fuel ih =>
    intro a hk hfuel
    obtain ⟨a1, e, hitems, hah, _, _⟩ := Abs.next_spec a k hk
    have hk1 := Abs.next_curOf a k _ _ e
    rw [Abs.find, e]
    cases hx : a.ahead k with
    | nil =>
      rw [hx] at hah
      exact ⟨a1, by simp, hitems, by simp [hah], hk1⟩
    | cons v rest =>
      rw [hx] at hah hfuel
      simp only [List.head?_cons, List.tail_cons] at hah ⊢
      by_cases hf : f v = true
      · exact ⟨a1, by simp [hf], hitems, by simp [hf, hah], hk1⟩
      · have hf' : f v = false := by simpa using hf
        obtain ⟨a2, e2, hi2, ha2, hk2⟩ := ih a1 hk1 (by rw [hah]; simp at hfuel; omega)
        refine ⟨a2, ?_, by rw [hi2, hitems], ?_, hk2⟩
        · simp only [hf', Bool.false_eq_true, if_false, e2, hah, List.find?_cons]
        · rw [ha2, hah]; simp [hf']

/-- **`list_find (i, f, key)`** returns the first item the callback accepts among those the iterator has still to return
    (`NULL` when there is none — the iterator is then at the end); afterwards the iterator has still to return what follows
    that item. -/
theorem find_valid {l : LList α} (h : valid l = true) (k : Nat) (f : α → Bool) (hk : (iterOf l k).isSome) :
    ∃ l', find f (l.cells.size + 2) l k = some (((absOf l).ahead k).find? f, l') ∧ valid l' = true ∧
      contents l' = contents l ∧ (absOf l').ahead k = (((absOf l).ahead k).dropWhile (fun x => !f x)).tail := by
  obtain ⟨ns, hr⟩ := valid_repA h
  obtain ⟨l', r, a', e1, e2, hr'⟩ := findOp_abs hr k f hk
  have hk' : ((absOf l).curOf k).isSome := by rw [absOf_curOf hr]; exact hk
  have hlen : ((absOf l).ahead k).length < (absOf l).items.length + 2 := by
    obtain ⟨c, hc⟩ := Option.isSome_iff_exists.mp hk'
    simp [Abs.ahead, hc]; omega
  obtain ⟨a1, e, hitems, hah, _⟩ := Abs.find_spec f k _ (absOf l) hk' hlen
  unfold Abs.findOp at e2
  rw [e] at e2
  simp only [Option.some.injEq, Prod.mk.injEq] at e2
  obtain ⟨rfl, rfl⟩ := e2
  exact ⟨l', e1, hr'.valid', by rw [hr'.contents, hitems]; rfl, by rw [hr'.abs]; exact hah⟩
/-! ## `list_sort` is stable -/

theorem sublist_singleton_cases (x : α) (b : List α) (h : b.Sublist [x]) : b = [] ∨ b = [x] := by
  cases b with
  | nil => exact Or.inl rfl
  | cons y ys =>
    right
    have hl := h.length_le
    have : ys = [] := by
      cases ys with
      | nil => rfl
      | cons _ _ => simp at hl
    subst this
    have := h.subset (List.mem_singleton.mpr rfl)
    simp at this; rw [this]

theorem insBefore_stable (f : α → α → Int) (hsym : ∀ a b, f a b ≤ 0 ↔ 0 ≤ f b a)
    (htrans : ∀ a b c, f a b ≤ 0 → f b c ≤ 0 → f a c ≤ 0) (x : α) :
    ∀ (done l1 : List α), l1.Sublist (done ++ [x]) → SortedBy f l1 → SortedBy f done → l1.Sublist (insBefore f x done) := by
  have hlt : ∀ a b c, f a b < 0 → f b c ≤ 0 → f a c < 0 := by
    intro a b c h1 h2
    rcases Int.lt_or_le (f a c) 0 with h | h
    · exact h
    · have h3 : f c a ≤ 0 := (hsym c a).mpr h
      have h4 : f b a ≤ 0 := htrans _ _ _ h2 h3
      have h5 : 0 ≤ f a b := (hsym b a).mp h4
      omega
  intro done
  induction done with
  | nil => intro l1 h _ _; simpa [insBefore] using h
  | cons y ys ih =>
    intro l1 h hs1 hsd
    have hsd' := List.pairwise_cons.mp hsd
    simp only [insBefore]
    -- what a sorted sublist of `ys ++ [x]` looks like when `x < y ≤ ys`
    have key : f x y < 0 → ∀ l : List α, l.Sublist (ys ++ [x]) → SortedBy f l → l.Sublist ys ∨ l = [x] := by
      intro hxy l hl hsl
      obtain ⟨a, b, rfl, ha, hb⟩ := List.sublist_append_iff.mp hl
      rcases sublist_singleton_cases x b hb with rfl | rfl
      · left; simpa using ha
      · right
        cases a with
        | nil => rfl
        | cons z zs =>
          exfalso
          have hz : z ∈ ys := ha.subset (by simp)
          have h1 : f x z < 0 := hlt _ _ _ hxy (hsd'.1 z hz)
          have h2 : f z x ≤ 0 := by
            have := List.pairwise_append.mp hsl
            exact this.2.2 z (by simp) x (by simp)
          have := (hsym z x).mp h2
          omega
    cases h with
    | cons _ h' =>
      -- `y` is not used
      split
      · exact (ih l1 h' hs1 hsd'.2).cons y
      · rename_i hf
        rcases key (by omega) l1 h' hs1 with h1 | h1
        · exact (h1.cons y).cons x
        · subst h1; exact (List.Sublist.refl _).cons_cons x |>.trans (by simp)
    | cons_cons _ h' =>
      rename_i l1'
      have hs1' := (List.pairwise_cons.mp hs1)
      split
      · exact (ih l1' h' hs1'.2 hsd'.2).cons_cons y
      · rename_i hf
        rcases key (by omega) l1' h' hs1'.2 with h1 | h1
        · exact (h1.cons_cons y).cons x
        · exfalso
          subst h1
          have h2 : f y x ≤ 0 := hs1'.1 x (by simp)
          have := (hsym y x).mp h2
          omega

theorem insLast_stable (f : α → α → Int) (hsym : ∀ a b, f a b ≤ 0 ↔ 0 ≤ f b a)
    (htrans : ∀ a b c, f a b ≤ 0 → f b c ≤ 0 → f a c ≤ 0) (x : α) (done l1 : List α)
    (h : l1.Sublist (done ++ [x])) (hs1 : SortedBy f l1) (hsd : SortedBy f done) : l1.Sublist (insLast f x done) := by
  unfold insLast
  split
  · split
    · exact insBefore_stable f hsym htrans x done l1 h hs1 hsd
    · exact h
  · exact h

theorem sortAux_stable (f : α → α → Int) (hsym : ∀ a b, f a b ≤ 0 ↔ 0 ≤ f b a)
    (htrans : ∀ a b c, f a b ≤ 0 → f b c ≤ 0 → f a c ≤ 0) :
    ∀ (rest done l' : List α), l'.Sublist (done ++ rest) → SortedBy f l' → SortedBy f done → l'.Sublist (sortAux f done rest) := by
  have hanti : ∀ a b, 0 ≤ f a b → f b a ≤ 0 := fun a b h => (hsym b a).mpr h
  intro rest
  induction rest with
  | nil => intro done l' h _ _; simpa [sortAux] using h
  | cons x rest ih =>
    intro done l' h hs hsd
    simp only [sortAux]
    have h' : l'.Sublist ((done ++ [x]) ++ rest) := by simpa using h
    obtain ⟨a, b, rfl, ha, hb⟩ := List.sublist_append_iff.mp h'
    have hsa : SortedBy f a := (List.pairwise_append.mp hs).1
    have h1 := insLast_stable f hsym htrans x done a ha hsa hsd
    exact ih _ _ (List.Sublist.append h1 hb) hs (insLast_sorted f hanti htrans x done hsd)

/-- **`list_sort` is stable** (for a sign-consistent, transitive comparison): whatever was in ascending order before — in
    particular two items that compare equal — is still in that order afterwards: every ascending subsequence of the list is a
    subsequence of the sorted list. -/
theorem sortList_stable (f : α → α → Int) (hsym : ∀ a b, f a b ≤ 0 ↔ 0 ≤ f b a)
    (htrans : ∀ a b c, f a b ≤ 0 → f b c ≤ 0 → f a c ≤ 0) (l l' : List α) (h : l'.Sublist l) (hs : SortedBy f l') :
    l'.Sublist (sortList f l) := by
  cases l with
  | nil => simpa [sortList] using h
  | cons x rest =>
    exact sortAux_stable f hsym htrans rest [x] l' (by simpa using h) hs (by simp [SortedBy])
end Pm.LsdList

section audit
open Pm.LsdList
/--
info: 'Pm.LsdList.run_valid' depends on axioms: [propext, Classical.choice, Quot.sound]
-/
#guard_msgs in #print axioms run_valid
/--
info: 'Pm.LsdList.valid_iff' depends on axioms: [propext, Classical.choice, Quot.sound]
-/
#guard_msgs in #print axioms valid_iff
/--
info: 'Pm.LsdList.apply_refines' depends on axioms: [propext, Classical.choice, Quot.sound]
-/
#guard_msgs in #print axioms apply_refines
/--
info: 'Pm.LsdList.run_refines' depends on axioms: [propext, Classical.choice, Quot.sound]
-/
#guard_msgs in #print axioms run_refines
/--
info: 'Pm.LsdList.sort_abs' depends on axioms: [propext, Classical.choice, Quot.sound]
-/
#guard_msgs in #print axioms sort_abs
/--
info: 'Pm.LsdList.Abs.apply_ahead' depends on axioms: [propext, Classical.choice, Quot.sound]
-/
#guard_msgs in #print axioms Abs.apply_ahead
/--
info: 'Pm.LsdList.nodeCreate_spec' depends on axioms: [propext, Classical.choice, Quot.sound]
-/
#guard_msgs in #print axioms nodeCreate_spec
/--
info: 'Pm.LsdList.nodeDestroy_spec' depends on axioms: [propext, Classical.choice, Quot.sound]
-/
#guard_msgs in #print axioms nodeDestroy_spec
/--
info: 'Pm.LsdList.Abs.deleteAll_spec' depends on axioms: [propext, Classical.choice, Quot.sound]
-/
#guard_msgs in #print axioms Abs.deleteAll_spec
/--
info: 'Pm.LsdList.Abs.run_next_drain' depends on axioms: [propext, Classical.choice, Quot.sound]
-/
#guard_msgs in #print axioms Abs.run_next_drain
/--
info: 'Pm.LsdList.sortList_sorted' depends on axioms: [propext, Quot.sound]
-/
#guard_msgs in #print axioms sortList_sorted
/--
info: 'Pm.LsdList.sortList_perm' depends on axioms: [propext]
-/
#guard_msgs in #print axioms sortList_perm
/--
info: 'Pm.LsdList.sortList_stable' depends on axioms: [propext, Quot.sound]
-/
#guard_msgs in #print axioms sortList_stable
end audit
