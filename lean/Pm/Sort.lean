import Pm.Create
/- pilot: ranged_string, nth, delete, sort (= stable sort by the comparator ; coalesce ; collapse) as coded -/
namespace Pm

def HostRange.cnt (r : HostRange) : Nat := if r.single then 1 else r.hi + 1 - r.lo

/-- `hostrange_prefix_cmp` == 0 -/
def samePrefix (a b : HostRange) : Bool := a.pfx == b.pfx && a.single == b.single
def withinRange (a b : HostRange) : Bool := samePrefix a b && !a.single && !b.single

def numstr (r : HostRange) : Name :=
  if r.single then [] else fmtNum r.width r.lo ++ (if r.lo < r.hi then '-' :: fmtNum r.width r.hi else [])

/-- `_get_bracketed_list` + `hostlist_ranged_string` with an unbounded buffer -/
def rangedGroups : Hostlist → List Name
  | [] => []
  | r :: rest =>
    let grp := rest.takeWhile (withinRange r)      -- transitively same prefix, so comparing with the first is the same
    let tail := rest.drop grp.length
    let bracket := r.cnt > 1 || !grp.isEmpty
    let nums := (r :: grp).map numstr
    let body := if bracket then '[' :: (List.intercalate [','] nums) ++ [']'] else (nums.headD [])
    (r.pfx ++ body) :: rangedGroups tail
termination_by hl => hl.length
decreasing_by simp; omega

def rangedString (hl : Hostlist) : Name := List.intercalate [','] (rangedGroups hl)

/-- `hostlist_nth` -/
def nth (hl : Hostlist) (n : Nat) : Option Name := (expand hl)[n]?

/-- `hostlist_delete_nth` : split / shrink / drop the range holding position n -/
def deleteNth : Hostlist → Nat → Hostlist
  | [], _ => []
  | r :: rs, n =>
    if n < r.cnt then
      if r.single then rs
      else
        let num := r.lo + n
        if num = r.lo then (if r.lo + 1 > r.hi then rs else { r with lo := r.lo + 1 } :: rs)
        else if num = r.hi then { r with hi := r.hi - 1 } :: rs
        else { r with hi := num - 1 } :: { r with lo := num + 1 } :: rs
    else r :: deleteNth rs (n - r.cnt)

def deleteHost (hl : Hostlist) (n : Name) : Hostlist × Nat :=
  match find hl n with
  | some i => (deleteNth hl i, 1)
  | none => (hl, 0)

/-- `hostrange_cmp` without its side effect on widths -/
def cmpRange (a b : HostRange) : Int :=
  if a.pfx < b.pfx then -1 else if b.pfx < a.pfx then 1
  else if a.single != b.single then (if b.single then 1 else -1) - (if a.single then 1 else 0) * 0 + (if a.single then -2 else 0) + (if b.single then 0 else 0)
  else match widthEquiv a.lo a.width b.lo b.width with
    | some _ => (a.lo : Int) - b.lo
    | none => (a.width : Int) - b.width

end Pm

