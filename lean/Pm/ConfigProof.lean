import Pm.ConfigModel
import Pm.HLFind
/-! helper lemmas for C13 over `Pm.ConfigModel` (the reader-facing statements are in `Pm/Props/C13.lean`).
The counting lemmas follow the pilot `Pm/Config.lean` (same proofs, names are strings here). -/
namespace Pm.ConfigModel.Proof
open Pm Pm.ConfigModel

/-! ### definitions used in the statements -/

/-- how many plugs of the list carry node `m` -/
def mappedIn (ps : List Plug) (m : Name) : Nat := ps.countP (·.node = some m)

/-- how many plugs of all devices carry node `m` -/
def mapped (devs : List Dev) (m : Name) : Nat := (devs.map fun d => mappedIn d.plugs m).sum

/-- plug names of a device, in list order -/
def plugNames (d : Dev) : List Name := d.plugs.map (·.name)

/-- names of the plugs that carry no node yet, in list order -/
def freeNames (d : Dev) : List Name := (d.plugs.filter (·.node.isNone)).map (·.name)

/-- the lines from number `i` on, WITHOUT the final `_validate_config` -/
def steps (specs : List Spec) : Cfg → Nat → List Stmt → Except Diag Cfg
  | c, _, [] => .ok c
  | c, i, s :: rest =>
    match step specs c i s with
    | .error e => .error (e, i)
    | .ok c' => steps specs c' (i + 1) rest

/-- the names the `node` lines configure, in line order -/
def nodesOf : List Stmt → List Name
  | [] => []
  | .node ns _ _ :: rest => (match create ns with | .ok hl => expand hl | .error _ => []) ++ nodesOf rest
  | _ :: rest => nodesOf rest

/-! ### `run` = `steps` then `validate` -/

theorem run_append (specs : List Spec) : ∀ (pre rest : List Stmt) (c : Cfg) (i : Nat),
    run specs c i (pre ++ rest) = match steps specs c i pre with
      | .error e => .error e
      | .ok c' => run specs c' (i + pre.length) rest
  | [], rest, c, i => by simp [steps]
  | s :: pre, rest, c, i => by
    simp only [List.cons_append, run, steps]
    cases hs : step specs c i s with
    | error e => simp
    | ok c' =>
      simp only
      rw [run_append specs pre rest c' (i + 1)]
      have : i + 1 + pre.length = i + (pre.length + 1) := by omega
      simp [this]

theorem run_eq_steps (specs : List Spec) (stmts : List Stmt) (c : Cfg) (i : Nat) :
    run specs c i stmts = match steps specs c i stmts with
      | .error e => .error e
      | .ok c' => validate c' (i + stmts.length) := by
  have := run_append specs stmts [] c i
  simpa [run] using this

theorem build_eq_steps (specs : List Spec) (stmts : List Stmt) :
    build specs stmts = match steps specs empty 0 stmts with
      | .error e => .error e
      | .ok c' => validate c' stmts.length := by
  have := run_eq_steps specs stmts empty 0
  simpa [build] using this

theorem steps_append (specs : List Spec) : ∀ (pre rest : List Stmt) (c : Cfg) (i : Nat),
    steps specs c i (pre ++ rest) = match steps specs c i pre with
      | .error e => .error e
      | .ok c' => steps specs c' (i + pre.length) rest
  | [], rest, c, i => by simp [steps]
  | s :: pre, rest, c, i => by
    simp only [List.cons_append, steps]
    cases hs : step specs c i s with
    | error e => simp
    | ok c' =>
      simp only
      rw [steps_append specs pre rest c' (i + 1)]
      have : i + 1 + pre.length = i + (pre.length + 1) := by omega
      simp [this]

/-- an accepted configuration: the lines before line `k`, line `k`, the lines after it -/
theorem build_split (specs : List Spec) (pre post : List Stmt) (s : Stmt) (cfg : Cfg)
    (h : build specs (pre ++ s :: post) = .ok cfg) :
    ∃ c1 c2, steps specs empty 0 pre = .ok c1 ∧ step specs c1 pre.length s = .ok c2 ∧
      run specs c2 (pre.length + 1) post = .ok cfg := by
  unfold build at h
  rw [run_append] at h
  cases h1 : steps specs empty 0 pre with
  | error e => rw [h1] at h; cases h
  | ok c1 =>
    rw [h1] at h
    simp only [run, Nat.zero_add] at h
    cases h2 : step specs c1 pre.length s with
    | error e => rw [h2] at h; cases h
    | ok c2 => rw [h2] at h; exact ⟨c1, c2, rfl, h2, h⟩

/-- the general rejection lemma: the earlier lines are fine, line `k` is refused with class `e` -/
theorem build_reject (specs : List Spec) (pre post : List Stmt) (s : Stmt) (c : Cfg) (e : DiagClass)
    (hpre : steps specs empty 0 pre = .ok c) (hs : step specs c pre.length s = .error e) :
    build specs (pre ++ s :: post) = .error (e, pre.length) := by
  unfold build
  rw [run_append, hpre]
  simp [run, hs]

/-! ### how often is a node mapped (after `Pm/Config.lean`) -/

theorem setFirst_count (name node m : Name) : ∀ (ps : List Plug) (p : Plug), ps.find? (·.name = name) = some p → p.node = none →
    mappedIn (setFirst name node ps) m = mappedIn ps m + (if node = m then 1 else 0)
  | [], _, h, _ => by simp at h
  | q :: qs, p, h, hn => by
    simp only [List.find?_cons] at h
    by_cases hq : q.name = name
    · simp only [hq, decide_true] at h
      have : q = p := Option.some.inj h
      subst this
      simp only [setFirst, hq, if_true, mappedIn, List.countP_cons, hn]
      split <;> simp_all
    · simp only [hq, decide_false] at h
      have := setFirst_count name node m qs p h hn
      simp only [setFirst, hq, if_false, mappedIn, List.countP_cons] at this ⊢
      omega

theorem mapOne_count (d d' : Dev) (node name m : Name) (h : mapOne d node name = .ok d') :
    mappedIn d'.plugs m = mappedIn d.plugs m + (if node = m then 1 else 0) := by
  unfold mapOne at h
  cases hf : d.plugs.find? (·.name = name) with
  | none =>
    rw [hf] at h
    simp only at h
    split at h
    · cases h
    · cases h
      simp only [mappedIn, List.countP_cons]
      split <;> simp_all
  | some p =>
    rw [hf] at h
    simp only at h
    split at h
    · cases h
    · rename_i hnone
      cases h
      exact setFirst_count name node m d.plugs p hf (by simpa using hnone)

theorem setNextFree_count (node m : Name) : ∀ (ps ps' : List Plug), setNextFree node ps = some ps' →
    mappedIn ps' m = mappedIn ps m + (if node = m then 1 else 0)
  | [], _, h => by simp [setNextFree] at h
  | p :: ps, ps', h => by
    simp only [setNextFree] at h
    split at h
    · rename_i hfree
      cases h
      have : p.node = none := by simpa using hfree
      simp only [mappedIn, List.countP_cons, this]
      split <;> simp_all
    · cases hr : setNextFree node ps with
      | none => rw [hr] at h; cases h
      | some r =>
        rw [hr] at h
        simp only [Option.map_some, Option.some.injEq] at h
        subst h
        have := setNextFree_count node m ps r hr
        simp only [mappedIn, List.countP_cons] at this ⊢
        omega

theorem mapNext_count (d d' : Dev) (node m : Name) (h : mapNext d node = .ok d') :
    mappedIn d'.plugs m = mappedIn d.plugs m + (if node = m then 1 else 0) := by
  unfold mapNext at h
  cases hs : setNextFree node d.plugs with
  | none => rw [hs] at h; cases h
  | some ps => rw [hs] at h; cases h; exact setNextFree_count node m d.plugs ps hs

/-- case analysis of one `mapLine` step without plug list -/
theorem mapLine_none_cons {d d' : Dev} {n : Name} {ns : List Name} (h : mapLine d (n :: ns) none = .ok d') :
    ∃ d1, (if d.hard then mapNext d n else mapOne d n n) = .ok d1 ∧ mapLine d1 ns none = .ok d' := by
  simp only [mapLine] at h
  split at h
  · cases h
  · rename_i d1 h1; exact ⟨d1, h1, h⟩

theorem mapLine_some_cons {d d' : Dev} {n p : Name} {ns ps : List Name} (h : mapLine d (n :: ns) (some (p :: ps)) = .ok d') :
    ∃ d1, mapOne d n p = .ok d1 ∧ mapLine d1 ns (some ps) = .ok d' := by
  simp only [mapLine] at h
  split at h
  · cases h
  · rename_i d1 h1; exact ⟨d1, h1, h⟩

theorem mapLine_count (m : Name) : ∀ (nodes : List Name) (plugs : Option (List Name)) (d d' : Dev),
    mapLine d nodes plugs = .ok d' → mappedIn d'.plugs m = mappedIn d.plugs m + nodes.count m
  | [], none, d, d', h => by simp only [mapLine] at h; cases h; simp
  | n :: ns, none, d, d', h => by
    obtain ⟨d1, h1, h2⟩ := mapLine_none_cons h
    have e2 := mapLine_count m ns none d1 d' h2
    have e1 : mappedIn d1.plugs m = mappedIn d.plugs m + (if n = m then 1 else 0) := by
      by_cases hh : d.hard = true
      · simp only [hh, if_true] at h1; exact mapNext_count d d1 n m h1
      · simp only [hh] at h1; exact mapOne_count d d1 n n m h1
    rw [e2, e1, List.count_cons]
    split <;> simp_all <;> omega
  | [], some [], d, d', h => by simp only [mapLine] at h; cases h; simp
  | [], some (_ :: _), d, d', h => by simp [mapLine] at h
  | _ :: _, some [], d, d', h => by simp [mapLine] at h
  | n :: ns, some (p :: ps), d, d', h => by
    obtain ⟨d1, h1, h2⟩ := mapLine_some_cons h
    have e2 := mapLine_count m ns (some ps) d1 d' h2
    have e1 := mapOne_count d d1 n p m h1
    rw [e2, e1, List.count_cons]
    split <;> simp_all <;> omega

/-- what `nodeOnDev` accepted: both strings parse and `pluglist_map` succeeded -/
theorem nodeOnDev_ok {nodestr : List Char} {plugstr : Option (List Char)} {d d' : Dev} (h : nodeOnDev nodestr plugstr d = .ok d') :
    ∃ nhl, create nodestr = .ok nhl ∧
      ((plugstr = none ∧ mapLine d (expand nhl) none = .ok d') ∨
       (∃ ps phl, plugstr = some ps ∧ create ps = .ok phl ∧ mapLine d (expand nhl) (some (expand phl)) = .ok d')) := by
  unfold nodeOnDev at h
  cases hn : create nodestr with
  | error e => rw [hn] at h; cases h
  | ok nhl =>
    rw [hn] at h
    simp only at h
    cases plugstr with
    | none => exact ⟨nhl, rfl, Or.inl ⟨rfl, h⟩⟩
    | some ps =>
      simp only at h
      cases hp : create ps with
      | error e => rw [hp] at h; cases h
      | ok phl => rw [hp] at h; exact ⟨nhl, rfl, Or.inr ⟨ps, phl, rfl, hp, h⟩⟩

theorem nodeOnDev_count {nodestr : List Char} {plugstr : Option (List Char)} {d d' : Dev} {nhl : Hostlist}
    (hn : create nodestr = .ok nhl) (h : nodeOnDev nodestr plugstr d = .ok d') (m : Name) :
    mappedIn d'.plugs m = mappedIn d.plugs m + (expand nhl).count m := by
  obtain ⟨nhl', hn', hc⟩ := nodeOnDev_ok h
  rw [hn] at hn'; cases hn'
  rcases hc with ⟨_, hl⟩ | ⟨ps, phl, _, _, hl⟩
  · exact mapLine_count m _ _ d d' hl
  · exact mapLine_count m _ _ d d' hl

/-- `updDev` changes exactly one device -/
theorem updDev_ok {name : Name} {f : Dev → Except DiagClass Dev} : ∀ {ds ds' : List Dev}, updDev name f ds = .ok ds' →
    ∃ pre d d' post, ds = pre ++ d :: post ∧ ds' = pre ++ d' :: post ∧ (∀ x ∈ pre, x.name ≠ name) ∧ d.name = name ∧ f d = .ok d'
  | [], _, h => by simp [updDev] at h
  | x :: xs, ds', h => by
    simp only [updDev] at h
    by_cases hx : x.name = name
    · simp only [hx, if_true] at h
      cases hf : f x with
      | error e => rw [hf] at h; cases h
      | ok d' =>
        rw [hf] at h; cases h
        exact ⟨[], x, d', xs, rfl, rfl, by simp, hx, hf⟩
    · simp only [hx, if_false] at h
      cases hr : updDev name f xs with
      | error e => rw [hr] at h; cases h
      | ok r =>
        rw [hr] at h; cases h
        obtain ⟨pre, d, d', post, e1, e2, hpre, hd, hf⟩ := updDev_ok hr
        refine ⟨x :: pre, d, d', post, by simp [e1], by simp [e2], ?_, hd, hf⟩
        intro y hy
        rcases List.mem_cons.mp hy with rfl | hy
        · exact hx
        · exact hpre y hy

theorem mapped_append (a b : List Dev) (m : Name) : mapped (a ++ b) m = mapped a m + mapped b m := by
  simp [mapped, List.sum_append]

theorem mapped_cons (d : Dev) (ds : List Dev) (m : Name) : mapped (d :: ds) m = mappedIn d.plugs m + mapped ds m := by
  simp [mapped]

/-- `conf_addnodes` on a list built by pushes: accepted exactly when the new names are fresh and distinct -/
theorem addNodes_spec : ∀ (ns : List Name) (known known' : Hostlist), Built known → addNodes known ns = .ok known' →
    Built known' ∧ expand known' = expand known ++ ns ∧ (∀ n ∈ ns, n ∉ expand known) ∧ ns.Nodup
  | [], known, known', hb, h => by simp only [addNodes] at h; cases h; simp [hb]
  | n :: ns, known, known', hb, h => by
    simp only [addNodes] at h
    split at h
    · cases h
    · rename_i hn
      have hnot : n ∉ expand known := by
        intro hmem
        apply hn
        simp [nodeExists, find_built known n hb hmem]
      obtain ⟨h0, h1, h2, h3⟩ := addNodes_spec ns (pushHost known n) known' (Built.push known n hb) h
      have hex : expand (pushHost known n) = expand known ++ [n] := expand_pushHost' known n hb.inv.1.toHWF
      refine ⟨h0, by rw [h1, hex]; simp, ?_, ?_⟩
      · intro x hx
        rcases List.mem_cons.mp hx with rfl | hx
        · exact hnot
        · intro hk; exact h2 x hx (by rw [hex]; simp [hk])
      · rw [List.nodup_cons]
        exact ⟨fun hmem => h2 n hmem (by rw [hex]; simp), h3⟩

/-- … and refused with `duplicate node name` otherwise -/
theorem addNodes_error : ∀ (ns : List Name) (known : Hostlist), Built known →
    ((∃ n ∈ ns, n ∈ expand known) ∨ ¬ ns.Nodup) → addNodes known ns = .error .dupNodeName
  | [], known, _, h => by simp at h
  | n :: ns, known, hb, h => by
    simp only [addNodes]
    split
    · rfl
    · rename_i hn
      have hnot : n ∉ expand known := by
        intro hmem
        apply hn
        simp [nodeExists, find_built known n hb hmem]
      have hex : expand (pushHost known n) = expand known ++ [n] := expand_pushHost' known n hb.inv.1.toHWF
      apply addNodes_error ns (pushHost known n) (Built.push known n hb)
      rcases h with ⟨x, hx, hk⟩ | hnd
      · rcases List.mem_cons.mp hx with rfl | hx
        · exact absurd hk hnot
        · exact Or.inl ⟨x, hx, by rw [hex]; simp [hk]⟩
      · rw [List.nodup_cons] at hnd
        by_cases hmem : n ∈ ns
        · exact Or.inl ⟨n, hmem, by rw [hex]; simp⟩
        · exact Or.inr (fun hn' => hnd ⟨hmem, hn'⟩)

/-- `addNodes` has one diagnostic only -/
theorem addNodes_error_class : ∀ (ns : List Name) (known : Hostlist) (e : DiagClass), addNodes known ns = .error e → e = .dupNodeName
  | [], known, e, h => by simp [addNodes] at h
  | n :: ns, known, e, h => by
    simp only [addNodes] at h
    split at h
    · cases h; rfl
    · exact addNodes_error_class ns _ e h

/-! ### what an accepted `node` line did -/

theorem makeNode_ok {c c' : Cfg} {nodestr : List Char} {dev : Name} {plugstr : Option (List Char)}
    (h : makeNode c nodestr dev plugstr = .ok c') :
    ∃ devs nhl nodes, updDev dev (nodeOnDev nodestr plugstr) c.devs = .ok devs ∧ create nodestr = .ok nhl ∧
      addNodes c.nodes (expand nhl) = .ok nodes ∧ c' = { c with devs := devs, nodes := nodes } := by
  unfold makeNode at h
  cases h1 : updDev dev (nodeOnDev nodestr plugstr) c.devs with
  | error e => rw [h1] at h; cases h
  | ok devs =>
    rw [h1] at h
    simp only at h
    cases h2 : create nodestr with
    | error e => rw [h2] at h; cases h
    | ok nhl =>
      rw [h2] at h
      simp only at h
      cases h3 : addNodes c.nodes (expand nhl) with
      | error e => rw [h3] at h; cases h
      | ok nodes => rw [h3] at h; cases h; exact ⟨devs, nhl, nodes, rfl, rfl, h3, rfl⟩

theorem makeDevice_ok {specs : List Spec} {c c' : Cfg} {name spec : Name} (h : makeDevice specs c name spec = .ok c') :
    ∃ s, findSpec specs spec = some s ∧
      c' = { c with devs := c.devs ++ [{ name, spec, hard := s.plugs.isSome, plugs := newPlugs s }] } := by
  unfold makeDevice at h
  cases hs : findSpec specs spec with
  | none => rw [hs] at h; cases h
  | some s => rw [hs] at h; cases h; exact ⟨s, rfl, rfl⟩

theorem makeAlias_ok {c c' : Cfg} {i : Nat} {name : Name} {hosts : List Char} (h : makeAlias c i name hosts = .ok c') :
    ∃ hl, create hosts = .ok hl ∧ (∀ a ∈ c.aliases, a.name ≠ name) ∧ c' = { c with aliases := ⟨name, hl, i⟩ :: c.aliases } := by
  unfold makeAlias at h
  split at h
  · cases h
  · rename_i hany
    cases hc : create hosts with
    | error e => rw [hc] at h; cases h
    | ok hl =>
      rw [hc] at h; cases h
      refine ⟨hl, rfl, ?_, rfl⟩
      intro a ha hn
      apply hany
      simp only [List.any_eq_true, decide_eq_true_eq]
      exact ⟨a, ha, hn⟩

theorem mappedIn_newPlugs (s : Spec) (m : Name) : mappedIn (newPlugs s) m = 0 := by
  unfold mappedIn newPlugs
  apply List.countP_eq_zero.mpr
  intro p hp
  simp only [List.mem_map] at hp
  obtain ⟨n, _, rfl⟩ := hp
  simp

/-! ### C13_functional: the invariant of accepted prefixes -/

/-- the node list is built by pushes, holds no name twice, and a name is carried by exactly one plug if it is in the
    node list and by none otherwise -/
structure Inv (c : Cfg) : Prop where
  built : Built c.nodes
  nodup : (expand c.nodes).Nodup
  count : ∀ m, mapped c.devs m = if m ∈ expand c.nodes then 1 else 0

theorem Inv_empty : Inv empty := by
  refine ⟨Built.nil, by simp [empty, expand_nil], ?_⟩
  intro m; simp [empty, mapped, expand_nil]

theorem step_Inv {specs : List Spec} {c c' : Cfg} {i : Nat} {s : Stmt} (hc : Inv c) (h : step specs c i s = .ok c') : Inv c' := by
  cases s with
  | device name spec =>
    obtain ⟨s, _, rfl⟩ := makeDevice_ok h
    refine ⟨hc.built, hc.nodup, ?_⟩
    intro m
    have := hc.count m
    simp only [mapped_append, mapped_cons, mappedIn_newPlugs] at this ⊢
    simpa [mapped] using this
  | alias name hosts =>
    obtain ⟨hl, _, _, rfl⟩ := makeAlias_ok h
    exact ⟨hc.built, hc.nodup, hc.count⟩
  | node nodestr dev plugstr =>
    obtain ⟨devs, nhl, nodes, hu, hn, ha, rfl⟩ := makeNode_ok h
    obtain ⟨hb, hex, hnew, hnd⟩ := addNodes_spec _ _ _ hc.built ha
    obtain ⟨pre, d, d', post, e1, e2, _, _, hf⟩ := updDev_ok hu
    refine ⟨hb, ?_, ?_⟩
    · show (expand nodes).Nodup
      rw [hex, List.nodup_append]
      exact ⟨hc.nodup, hnd, fun a ha b hb hab => hnew b hb (hab ▸ ha)⟩
    · intro m
      show mapped devs m = if m ∈ expand nodes then 1 else 0
      have hold := hc.count m
      have hline := nodeOnDev_count hn hf m
      rw [e1] at hold
      rw [e2, hex]
      simp only [mapped_append, mapped_cons, List.mem_append] at hold ⊢
      have hcount : (expand nhl).count m = if m ∈ expand nhl then 1 else 0 := hnd.count
      by_cases h1 : m ∈ expand c.nodes
      · have h2 : m ∉ expand nhl := fun hm => hnew m hm h1
        simp only [h1, h2, if_true, if_false, true_or] at hold hcount ⊢
        omega
      · by_cases h2 : m ∈ expand nhl
        · simp only [h1, h2, if_true, if_false, or_true] at hold hcount ⊢
          omega
        · simp only [h1, h2, if_false, or_self] at hold hcount ⊢
          omega

theorem steps_Inv {specs : List Spec} : ∀ (stmts : List Stmt) (c c' : Cfg) (i : Nat), Inv c → steps specs c i stmts = .ok c' → Inv c'
  | [], c, c', i, hc, h => by simp only [steps] at h; cases h; exact hc
  | s :: rest, c, c', i, hc, h => by
    simp only [steps] at h
    cases hs : step specs c i s with
    | error e => rw [hs] at h; cases h
    | ok c1 => rw [hs] at h; exact steps_Inv rest c1 c' (i + 1) (step_Inv hc hs) h

/-- `validate` returns the configuration it was given -/
theorem validate_ok {c c' : Cfg} {n : Nat} (h : validate c n = .ok c') :
    c' = c ∧ c.aliases.find? (aliasBad c.nodes) = none ∧ expand c.nodes ≠ [] := by
  unfold validate at h
  cases hf : c.aliases.find? (aliasBad c.nodes) with
  | some a => rw [hf] at h; cases h
  | none =>
    rw [hf] at h
    simp only at h
    split at h
    · cases h
    · rename_i hne
      cases h
      exact ⟨rfl, rfl, by simpa using hne⟩

/-- an accepted configuration is what the lines built, and `_validate_config` found nothing -/
theorem build_ok {specs : List Spec} {stmts : List Stmt} {cfg : Cfg} (h : build specs stmts = .ok cfg) :
    steps specs empty 0 stmts = .ok cfg ∧ cfg.aliases.find? (aliasBad cfg.nodes) = none ∧ expand cfg.nodes ≠ [] := by
  rw [build_eq_steps] at h
  cases hs : steps specs empty 0 stmts with
  | error e => rw [hs] at h; cases h
  | ok c =>
    rw [hs] at h
    obtain ⟨rfl, h2, h3⟩ := validate_ok h
    exact ⟨rfl, h2, h3⟩

theorem run_ok {specs : List Spec} {stmts : List Stmt} {c cfg : Cfg} {i : Nat} (h : run specs c i stmts = .ok cfg) :
    steps specs c i stmts = .ok cfg := by
  rw [run_eq_steps] at h
  cases hs : steps specs c i stmts with
  | error e => rw [hs] at h; cases h
  | ok c1 =>
    rw [hs] at h
    obtain ⟨rfl, _, _⟩ := validate_ok h
    rfl


/-! ### properties of single devices kept by every line -/

theorem setFirst_names (name node : Name) : ∀ ps : List Plug, (setFirst name node ps).map (·.name) = ps.map (·.name)
  | [] => rfl
  | p :: ps => by
    simp only [setFirst]
    split
    · simp
    · simp [setFirst_names name node ps]

theorem setNextFree_names (node : Name) : ∀ ps ps' : List Plug, setNextFree node ps = some ps' → ps'.map (·.name) = ps.map (·.name)
  | [], _, h => by simp [setNextFree] at h
  | p :: ps, ps', h => by
    simp only [setNextFree] at h
    split at h
    · cases h; simp
    · cases hr : setNextFree node ps with
      | none => rw [hr] at h; cases h
      | some r =>
        rw [hr] at h
        simp only [Option.map_some, Option.some.injEq] at h
        subst h
        simp [setNextFree_names node ps r hr]

/-- `_pluglist_map_one`: the three outcomes -/
theorem mapOne_cases {d d' : Dev} {node name : Name} (h : mapOne d node name = .ok d') :
    (d.plugs.find? (·.name = name) = none ∧ d.hard = false ∧ d' = { d with plugs := ⟨name, some node⟩ :: d.plugs }) ∨
    (∃ p, d.plugs.find? (·.name = name) = some p ∧ p.node = none ∧ d' = { d with plugs := setFirst name node d.plugs }) := by
  unfold mapOne at h
  cases hf : d.plugs.find? (·.name = name) with
  | none =>
    rw [hf] at h
    simp only at h
    split at h
    · cases h
    · rename_i hh; cases h; exact Or.inl ⟨rfl, by simpa using hh, rfl⟩
  | some p =>
    rw [hf] at h
    simp only at h
    split at h
    · cases h
    · rename_i hn; cases h; exact Or.inr ⟨p, rfl, by simpa using hn, rfl⟩

theorem mapNext_cases {d d' : Dev} {node : Name} (h : mapNext d node = .ok d') :
    ∃ ps, setNextFree node d.plugs = some ps ∧ d' = { d with plugs := ps } := by
  unfold mapNext at h
  cases hs : setNextFree node d.plugs with
  | none => rw [hs] at h; cases h
  | some ps => rw [hs] at h; cases h; exact ⟨ps, rfl, rfl⟩

/-- a property of devices that `_pluglist_map_one` and `_pluglist_map_next` keep is kept by `pluglist_map` -/
theorem mapLine_keeps (P : Dev → Prop) (hOne : ∀ d n p d', P d → mapOne d n p = .ok d' → P d')
    (hNext : ∀ d n d', P d → mapNext d n = .ok d' → P d') :
    ∀ (nodes : List Name) (plugs : Option (List Name)) (d d' : Dev), P d → mapLine d nodes plugs = .ok d' → P d'
  | [], none, d, d', hp, h => by simp only [mapLine] at h; cases h; exact hp
  | n :: ns, none, d, d', hp, h => by
    obtain ⟨d1, h1, h2⟩ := mapLine_none_cons h
    refine mapLine_keeps P hOne hNext ns none d1 d' ?_ h2
    by_cases hh : d.hard = true
    · simp only [hh, if_true] at h1; exact hNext d n d1 hp h1
    · simp only [hh] at h1; exact hOne d n n d1 hp h1
  | [], some [], d, d', hp, h => by simp only [mapLine] at h; cases h; exact hp
  | [], some (_ :: _), d, d', _, h => by simp [mapLine] at h
  | _ :: _, some [], d, d', _, h => by simp [mapLine] at h
  | n :: ns, some (p :: ps), d, d', hp, h => by
    obtain ⟨d1, h1, h2⟩ := mapLine_some_cons h
    exact mapLine_keeps P hOne hNext ns (some ps) d1 d' (hOne d n p d1 hp h1) h2

theorem nodeOnDev_keeps (P : Dev → Prop) (hOne : ∀ d n p d', P d → mapOne d n p = .ok d' → P d')
    (hNext : ∀ d n d', P d → mapNext d n = .ok d' → P d') {nodestr : List Char} {plugstr : Option (List Char)} {d d' : Dev}
    (hp : P d) (h : nodeOnDev nodestr plugstr d = .ok d') : P d' := by
  obtain ⟨nhl, _, hc⟩ := nodeOnDev_ok h
  rcases hc with ⟨_, hl⟩ | ⟨ps, phl, _, _, hl⟩
  · exact mapLine_keeps P hOne hNext _ _ d d' hp hl
  · exact mapLine_keeps P hOne hNext _ _ d d' hp hl

/-- … and by every configuration line, if new devices have it -/
theorem step_keeps (specs : List Spec) (P : Dev → Prop) (hOne : ∀ d n p d', P d → mapOne d n p = .ok d' → P d')
    (hNext : ∀ d n d', P d → mapNext d n = .ok d' → P d')
    (hNew : ∀ name spec s, findSpec specs spec = some s → P { name, spec, hard := s.plugs.isSome, plugs := newPlugs s })
    {c c' : Cfg} {i : Nat} {s : Stmt} (hc : ∀ d ∈ c.devs, P d) (h : step specs c i s = .ok c') : ∀ d ∈ c'.devs, P d := by
  cases s with
  | device name spec =>
    obtain ⟨s, hs, rfl⟩ := makeDevice_ok h
    intro d hd
    simp only [List.mem_append, List.mem_singleton] at hd
    rcases hd with hd | rfl
    · exact hc d hd
    · exact hNew name spec s hs
  | alias name hosts =>
    obtain ⟨hl, _, _, rfl⟩ := makeAlias_ok h
    exact hc
  | node nodestr dev plugstr =>
    obtain ⟨devs, nhl, nodes, hu, _, _, rfl⟩ := makeNode_ok h
    obtain ⟨pre, d0, d1, post, e1, e2, _, _, hf⟩ := updDev_ok hu
    intro d hd
    simp only at hd
    rw [e2] at hd
    simp only [List.mem_append, List.mem_cons] at hd
    rcases hd with hd | rfl | hd
    · exact hc d (by rw [e1]; simp [hd])
    · exact nodeOnDev_keeps P hOne hNext (hc d0 (by rw [e1]; simp)) hf
    · exact hc d (by rw [e1]; simp [hd])

theorem steps_keeps (specs : List Spec) (P : Dev → Prop) (hOne : ∀ d n p d', P d → mapOne d n p = .ok d' → P d')
    (hNext : ∀ d n d', P d → mapNext d n = .ok d' → P d')
    (hNew : ∀ name spec s, findSpec specs spec = some s → P { name, spec, hard := s.plugs.isSome, plugs := newPlugs s }) :
    ∀ (stmts : List Stmt) (c c' : Cfg) (i : Nat), (∀ d ∈ c.devs, P d) → steps specs c i stmts = .ok c' → ∀ d ∈ c'.devs, P d
  | [], c, c', i, hc, h => by simp only [steps] at h; cases h; exact hc
  | s :: rest, c, c', i, hc, h => by
    simp only [steps] at h
    cases hs : step specs c i s with
    | error e => rw [hs] at h; cases h
    | ok c1 =>
      rw [hs] at h
      exact steps_keeps specs P hOne hNext hNew rest c1 c' (i + 1) (step_keeps specs P hOne hNext hNew hc hs) h

/-- the device follows its specification: hard-wired iff the specification has a plug list, and then the plug names
    are that list in order -/
def FollowsSpec (specs : List Spec) (d : Dev) : Prop :=
  ∃ s, findSpec specs d.spec = some s ∧ d.hard = s.plugs.isSome ∧ ∀ l, s.plugs = some l → plugNames d = l

theorem plugNames_newPlugs (s : Spec) : (newPlugs s).map (·.name) = s.plugs.getD [] := by
  unfold newPlugs
  simp [List.map_map, Function.comp_def]

theorem mapOne_FollowsSpec (specs : List Spec) (d : Dev) (n p : Name) (d' : Dev) (hd : FollowsSpec specs d)
    (h : mapOne d n p = .ok d') : FollowsSpec specs d' := by
  obtain ⟨s, hs, hh, hl⟩ := hd
  rcases mapOne_cases h with ⟨_, hfree, rfl⟩ | ⟨q, _, _, rfl⟩
  · refine ⟨s, hs, hh, ?_⟩
    intro l hsl
    rw [hfree, hsl] at hh
    cases hh
  · refine ⟨s, hs, hh, ?_⟩
    intro l hsl
    have := hl l hsl
    simpa [plugNames, setFirst_names] using this

theorem mapNext_FollowsSpec (specs : List Spec) (d : Dev) (n : Name) (d' : Dev) (hd : FollowsSpec specs d)
    (h : mapNext d n = .ok d') : FollowsSpec specs d' := by
  obtain ⟨s, hs, hh, hl⟩ := hd
  obtain ⟨ps, hps, rfl⟩ := mapNext_cases h
  refine ⟨s, hs, hh, ?_⟩
  intro l hsl
  have := hl l hsl
  simpa [plugNames, setNextFree_names n d.plugs ps hps] using this

theorem steps_FollowsSpec (specs : List Spec) (stmts : List Stmt) (cfg : Cfg) (h : steps specs empty 0 stmts = .ok cfg) :
    ∀ d ∈ cfg.devs, FollowsSpec specs d := by
  refine steps_keeps specs (FollowsSpec specs) (mapOne_FollowsSpec specs) (mapNext_FollowsSpec specs) ?_ stmts empty cfg 0 ?_ h
  · intro name spec s hs
    refine ⟨s, hs, rfl, ?_⟩
    intro l hl
    simp [plugNames, plugNames_newPlugs, hl]
  · intro d hd; simp [empty] at hd

/-- no two plugs of the device share a name -/
def DistinctPlugs (d : Dev) : Prop := (plugNames d).Nodup

theorem mapOne_DistinctPlugs (d : Dev) (n p : Name) (d' : Dev) (hd : DistinctPlugs d) (h : mapOne d n p = .ok d') :
    DistinctPlugs d' := by
  rcases mapOne_cases h with ⟨hnone, _, rfl⟩ | ⟨q, _, _, rfl⟩
  · unfold DistinctPlugs plugNames at hd ⊢
    simp only [List.map_cons, List.nodup_cons]
    refine ⟨?_, hd⟩
    intro hmem
    simp only [List.mem_map] at hmem
    obtain ⟨q, hq, hqn⟩ := hmem
    have := List.find?_eq_none.mp hnone q hq
    simp [hqn] at this
  · simpa [DistinctPlugs, plugNames, setFirst_names] using hd

theorem mapNext_DistinctPlugs (d : Dev) (n : Name) (d' : Dev) (hd : DistinctPlugs d) (h : mapNext d n = .ok d') :
    DistinctPlugs d' := by
  obtain ⟨ps, hps, rfl⟩ := mapNext_cases h
  simpa [DistinctPlugs, plugNames, setNextFree_names n d.plugs ps hps] using hd

theorem steps_DistinctPlugs (specs : List Spec) (hspecs : ∀ s ∈ specs, ∀ l, s.plugs = some l → l.Nodup)
    (stmts : List Stmt) (cfg : Cfg) (h : steps specs empty 0 stmts = .ok cfg) : ∀ d ∈ cfg.devs, DistinctPlugs d := by
  refine steps_keeps specs DistinctPlugs mapOne_DistinctPlugs mapNext_DistinctPlugs ?_ stmts empty cfg 0 ?_ h
  · intro name spec s hs
    have hmem : s ∈ specs := List.mem_of_find?_eq_some hs
    unfold DistinctPlugs plugNames
    simp only [plugNames_newPlugs]
    cases hp : s.plugs with
    | none => simp
    | some l => simpa using hspecs s hmem l hp
  · intro d hd; simp [empty] at hd

/-! ### the node listing -/

theorem steps_nodes (specs : List Spec) : ∀ (stmts : List Stmt) (c c' : Cfg) (i : Nat), Built c.nodes →
    steps specs c i stmts = .ok c' → expand c'.nodes = expand c.nodes ++ nodesOf stmts
  | [], c, c', i, _, h => by simp only [steps] at h; cases h; simp [nodesOf]
  | s :: rest, c, c', i, hb, h => by
    simp only [steps] at h
    cases hs : step specs c i s with
    | error e => rw [hs] at h; cases h
    | ok c1 =>
      rw [hs] at h
      simp only at h
      cases s with
      | device name spec =>
        obtain ⟨s, _, rfl⟩ := makeDevice_ok hs
        have := (fun hb' => steps_nodes specs rest _ c' (i + 1) hb' h) hb
        simpa [nodesOf] using this
      | alias name hosts =>
        obtain ⟨hl, _, _, rfl⟩ := makeAlias_ok hs
        have := (fun hb' => steps_nodes specs rest _ c' (i + 1) hb' h) hb
        simpa [nodesOf] using this
      | node nodestr dev plugstr =>
        obtain ⟨devs, nhl, nodes, _, hn, ha, rfl⟩ := makeNode_ok hs
        obtain ⟨hb', hex, _, _⟩ := addNodes_spec _ _ _ hb ha
        have := steps_nodes specs rest _ c' (i + 1) hb' h
        simp only at this
        rw [this, hex]
        simp [nodesOf, hn]

/-! ### aliases -/

theorem validate_alias {c : Cfg} (hf : c.aliases.find? (aliasBad c.nodes) = none) :
    ∀ a ∈ c.aliases, ∀ h ∈ expand a.hl, h ∈ expand c.nodes := by
  intro a ha h hh
  have hb := List.find?_eq_none.mp hf a ha
  simp only [aliasBad, List.any_eq_true, Bool.not_eq_true', not_exists, not_and, Bool.not_eq_false] at hb
  have hx := hb h hh
  unfold nodeExists at hx
  cases hfi : find c.nodes h with
  | none => simp [hfi] at hx
  | some i => exact find_mem c.nodes h i hfi

/-- every alias of the configuration comes from an alias line: its line number, name and host string -/
def AliasFrom (stmts : List Stmt) (a : Alias) : Prop :=
  ∃ hosts, stmts[a.stmt]? = some (.alias a.name hosts) ∧ create hosts = .ok a.hl

theorem steps_aliases (specs : List Spec) : ∀ (stmts pre : List Stmt) (c c' : Cfg), (∀ a ∈ c.aliases, AliasFrom (pre ++ stmts) a) →
    steps specs c pre.length stmts = .ok c' → ∀ a ∈ c'.aliases, AliasFrom (pre ++ stmts) a
  | [], pre, c, c', hc, h => by simp only [steps] at h; cases h; exact hc
  | s :: rest, pre, c, c', hc, h => by
    simp only [steps] at h
    cases hs : step specs c pre.length s with
    | error e => rw [hs] at h; cases h
    | ok c1 =>
      rw [hs] at h
      have e : pre ++ s :: rest = (pre ++ [s]) ++ rest := by simp
      have hl : (pre ++ [s]).length = pre.length + 1 := by simp
      rw [e]
      rw [e] at hc
      refine steps_aliases specs rest (pre ++ [s]) c1 c' ?_ (by rw [hl]; exact h)
      cases s with
      | device name spec => obtain ⟨s, _, rfl⟩ := makeDevice_ok hs; exact hc
      | node nodestr dev plugstr => obtain ⟨devs, nhl, nodes, _, _, _, rfl⟩ := makeNode_ok hs; exact hc
      | alias name hosts =>
        obtain ⟨hl', hcr, _, rfl⟩ := makeAlias_ok hs
        intro a ha
        simp only [List.mem_cons] at ha
        rcases ha with rfl | ha
        · exact ⟨hosts, by simp, hcr⟩
        · exact hc a ha


/-! ### what is assigned stays assigned -/

/-- the later device is the earlier one with more nodes assigned: same name, specification and kind, and every
    (plug, node) pair of the earlier one is still there -/
def Keeps (d d' : Dev) : Prop :=
  d'.name = d.name ∧ d'.spec = d.spec ∧ d'.hard = d.hard ∧ ∀ p n, (⟨p, some n⟩ : Plug) ∈ d.plugs → (⟨p, some n⟩ : Plug) ∈ d'.plugs

theorem Keeps.refl (d : Dev) : Keeps d d := ⟨rfl, rfl, rfl, fun _ _ h => h⟩

theorem Keeps.trans {a b c : Dev} (h1 : Keeps a b) (h2 : Keeps b c) : Keeps a c :=
  ⟨h2.1.trans h1.1, h2.2.1.trans h1.2.1, h2.2.2.1.trans h1.2.2.1, fun p n h => h2.2.2.2 p n (h1.2.2.2 p n h)⟩

theorem setFirst_mem (name node : Name) (x : Plug) (hx : x.node ≠ none) : ∀ ps : List Plug,
    (∀ q, ps.find? (·.name = name) = some q → q.node = none) → x ∈ ps → x ∈ setFirst name node ps
  | [], _, h => by simp at h
  | p :: ps, hq, h => by
    simp only [setFirst]
    by_cases hp : p.name = name
    · simp only [hp, if_true]
      have hpn : p.node = none := hq p (by simp [hp])
      rcases List.mem_cons.mp h with rfl | h
      · exact absurd hpn hx
      · simp [h]
    · simp only [hp, if_false]
      rcases List.mem_cons.mp h with rfl | h
      · simp
      · have := setFirst_mem name node x hx ps (fun q hf => hq q (by simp [hp, hf])) h
        simp [this]

theorem setFirst_places (name node : Name) : ∀ (ps : List Plug) (q : Plug), ps.find? (·.name = name) = some q →
    (⟨name, some node⟩ : Plug) ∈ setFirst name node ps
  | [], _, h => by simp at h
  | p :: ps, q, h => by
    simp only [setFirst]
    by_cases hp : p.name = name
    · simp only [hp, if_true]
      simp
    · simp only [hp, if_false]
      simp only [List.find?_cons, hp, decide_false] at h
      have := setFirst_places name node ps q h
      exact List.mem_cons_of_mem _ this

theorem setNextFree_mem (node : Name) (x : Plug) (hx : x.node ≠ none) : ∀ ps ps' : List Plug,
    setNextFree node ps = some ps' → x ∈ ps → x ∈ ps'
  | [], _, h, _ => by simp [setNextFree] at h
  | p :: ps, ps', h, hm => by
    simp only [setNextFree] at h
    split at h
    · rename_i hfree
      cases h
      rcases List.mem_cons.mp hm with rfl | hm
      · exact absurd (by simpa using hfree) hx
      · simp [hm]
    · cases hr : setNextFree node ps with
      | none => rw [hr] at h; cases h
      | some r =>
        rw [hr] at h
        simp only [Option.map_some, Option.some.injEq] at h
        subst h
        rcases List.mem_cons.mp hm with rfl | hm
        · simp
        · simp [setNextFree_mem node x hx ps r hr hm]

theorem mapOne_Keeps {d d' : Dev} {n p : Name} (h : mapOne d n p = .ok d') : Keeps d d' := by
  rcases mapOne_cases h with ⟨_, _, rfl⟩ | ⟨q, hq, hqn, rfl⟩
  · exact ⟨rfl, rfl, rfl, fun _ _ hm => by simp [hm]⟩
  · refine ⟨rfl, rfl, rfl, fun p' n' hm => ?_⟩
    exact setFirst_mem p n _ (by simp) d.plugs (fun q' hq' => by rw [hq] at hq'; cases hq'; exact hqn) hm

theorem mapNext_Keeps {d d' : Dev} {n : Name} (h : mapNext d n = .ok d') : Keeps d d' := by
  obtain ⟨ps, hps, rfl⟩ := mapNext_cases h
  exact ⟨rfl, rfl, rfl, fun p' n' hm => setNextFree_mem n _ (by simp) d.plugs ps hps hm⟩

theorem mapLine_Keeps {d d' : Dev} {nodes : List Name} {plugs : Option (List Name)} (h : mapLine d nodes plugs = .ok d') :
    Keeps d d' :=
  mapLine_keeps (Keeps d) (fun _ _ _ _ hk h1 => hk.trans (mapOne_Keeps h1)) (fun _ _ _ hk h1 => hk.trans (mapNext_Keeps h1))
    nodes plugs d d' (Keeps.refl d) h

theorem nodeOnDev_Keeps {nodestr : List Char} {plugstr : Option (List Char)} {d d' : Dev} (h : nodeOnDev nodestr plugstr d = .ok d') :
    Keeps d d' :=
  nodeOnDev_keeps (Keeps d) (fun _ _ _ _ hk h1 => hk.trans (mapOne_Keeps h1)) (fun _ _ _ hk h1 => hk.trans (mapNext_Keeps h1))
    (Keeps.refl d) h

/-- device lists: the later list holds the earlier devices in the same places (each with more nodes assigned), then new ones -/
inductive Ext : List Dev → List Dev → Prop
  | nil (ds' : List Dev) : Ext [] ds'
  | cons {d d' : Dev} {ds ds' : List Dev} : Keeps d d' → Ext ds ds' → Ext (d :: ds) (d' :: ds')

theorem Ext.refl : ∀ ds : List Dev, Ext ds ds
  | [] => .nil []
  | d :: ds => .cons (Keeps.refl d) (Ext.refl ds)

theorem Ext.trans : ∀ {a b c : List Dev}, Ext a b → Ext b c → Ext a c
  | [], _, c, _, _ => .nil c
  | _ :: _, _ :: _, _ :: _, .cons k1 e1, .cons k2 e2 => .cons (k1.trans k2) (Ext.trans e1 e2)

theorem Ext_append (ds extra : List Dev) : Ext ds (ds ++ extra) := by
  induction ds with
  | nil => exact .nil _
  | cons d ds ih => exact .cons (Keeps.refl d) ih

theorem Ext_upd (pre post : List Dev) {d d' : Dev} (hk : Keeps d d') : Ext (pre ++ d :: post) (pre ++ d' :: post) := by
  induction pre with
  | nil => exact .cons hk (Ext.refl post)
  | cons x xs ih => exact .cons (Keeps.refl x) ih

theorem Ext_find (x : Name) : ∀ {ds ds' : List Dev}, Ext ds ds' → ∀ d, ds.find? (·.name = x) = some d →
    ∃ d', ds'.find? (·.name = x) = some d' ∧ Keeps d d'
  | [], _, _, d, h => by simp at h
  | a :: as, _ :: _, .cons (d' := a') hk he, d, h => by
    simp only [List.find?_cons] at h ⊢
    by_cases ha : a.name = x
    · have ha' : a'.name = x := hk.1.trans ha
      simp only [ha, decide_true, Option.some.injEq] at h
      subst h
      exact ⟨a', by simp [ha'], hk⟩
    · have ha' : ¬ a'.name = x := fun e => ha (hk.1.symm.trans e)
      simp only [ha, decide_false] at h
      simp only [ha', decide_false]
      exact Ext_find x he d h

theorem find_first (x : Name) (pre post : List Dev) (d : Dev) (hpre : ∀ y ∈ pre, y.name ≠ x) (hd : d.name = x) :
    (pre ++ d :: post).find? (·.name = x) = some d := by
  induction pre with
  | nil => simp [hd]
  | cons y ys ih =>
    have hy : ¬ y.name = x := hpre y (by simp)
    simp only [List.cons_append, List.find?_cons, hy, decide_false]
    exact ih (fun z hz => hpre z (by simp [hz]))

/-- an accepted `node` line ran `pluglist_map` on the first device of that name -/
theorem makeNode_dev {c c' : Cfg} {nodestr : List Char} {dev : Name} {plugstr : Option (List Char)}
    (h : makeNode c nodestr dev plugstr = .ok c') :
    ∃ d d', c.devs.find? (·.name = dev) = some d ∧ c'.devs.find? (·.name = dev) = some d' ∧
      nodeOnDev nodestr plugstr d = .ok d' ∧ Ext c.devs c'.devs := by
  obtain ⟨devs, nhl, nodes, hu, _, _, rfl⟩ := makeNode_ok h
  obtain ⟨pre, d, d', post, e1, e2, hpre, hd, hf⟩ := updDev_ok hu
  have hk := nodeOnDev_Keeps hf
  refine ⟨d, d', ?_, ?_, hf, ?_⟩
  · rw [e1]; exact find_first dev pre post d hpre hd
  · show devs.find? _ = _
    rw [e2]; exact find_first dev pre post d' hpre (hk.1.trans hd)
  · show Ext c.devs devs
    rw [e1, e2]; exact Ext_upd pre post hk

theorem step_Ext {specs : List Spec} {c c' : Cfg} {i : Nat} {s : Stmt} (h : step specs c i s = .ok c') : Ext c.devs c'.devs := by
  cases s with
  | device name spec => obtain ⟨s, _, rfl⟩ := makeDevice_ok h; exact Ext_append _ _
  | alias name hosts => obtain ⟨hl, _, _, rfl⟩ := makeAlias_ok h; exact Ext.refl _
  | node nodestr dev plugstr => obtain ⟨_, _, _, _, _, he⟩ := makeNode_dev h; exact he

theorem steps_Ext {specs : List Spec} : ∀ (stmts : List Stmt) (c c' : Cfg) (i : Nat), steps specs c i stmts = .ok c' → Ext c.devs c'.devs
  | [], c, c', i, h => by simp only [steps] at h; cases h; exact Ext.refl _
  | s :: rest, c, c', i, h => by
    simp only [steps] at h
    cases hs : step specs c i s with
    | error e => rw [hs] at h; cases h
    | ok c1 => rw [hs] at h; exact (step_Ext hs).trans (steps_Ext rest c1 c' (i + 1) h)

/-! ### where the nodes of one line go -/

theorem mapOne_places {d d' : Dev} {n p : Name} (h : mapOne d n p = .ok d') : (⟨p, some n⟩ : Plug) ∈ d'.plugs := by
  rcases mapOne_cases h with ⟨_, _, rfl⟩ | ⟨q, hq, _, rfl⟩
  · simp
  · exact setFirst_places p n d.plugs q hq

/-- with a plug list: as many plugs as nodes, and the i-th node sits on the plug named by the i-th plug name -/
theorem mapLine_pairs : ∀ (ns ps : List Name) (d d' : Dev), mapLine d ns (some ps) = .ok d' →
    ns.length = ps.length ∧ ∀ (i : Nat) (n p : Name), ns[i]? = some n → ps[i]? = some p → (⟨p, some n⟩ : Plug) ∈ d'.plugs
  | [], [], d, d', h => by simp
  | [], _ :: _, d, d', h => by simp [mapLine] at h
  | _ :: _, [], d, d', h => by simp [mapLine] at h
  | n :: ns, p :: ps, d, d', h => by
    obtain ⟨d1, h1, h2⟩ := mapLine_some_cons h
    obtain ⟨hl, hi⟩ := mapLine_pairs ns ps d1 d' h2
    refine ⟨by simp [hl], ?_⟩
    intro i n' p' hn hp
    cases i with
    | zero =>
      simp only [List.getElem?_cons_zero, Option.some.injEq] at hn hp
      subst hn; subst hp
      exact (mapLine_Keeps h2).2.2.2 _ _ (mapOne_places h1)
    | succ j =>
      simp only [List.getElem?_cons_succ] at hn hp
      exact hi j n' p' hn hp

/-- without a plug list on a device with free plug names: every node sits on a plug named like it -/
theorem mapLine_free : ∀ (ns : List Name) (d d' : Dev), d.hard = false → mapLine d ns none = .ok d' →
    ∀ n ∈ ns, (⟨n, some n⟩ : Plug) ∈ d'.plugs
  | [], d, d', _, h => by simp
  | n :: ns, d, d', hh, h => by
    obtain ⟨d1, h1, h2⟩ := mapLine_none_cons h
    simp only [hh, Bool.false_eq_true, if_false] at h1
    have hk1 := mapOne_Keeps h1
    intro x hx
    rcases List.mem_cons.mp hx with rfl | hx
    · exact (mapLine_Keeps h2).2.2.2 _ _ (mapOne_places h1)
    · exact mapLine_free ns d1 d' (hk1.2.2.1.trans hh) h2 x hx

theorem setNextFree_places (node : Name) : ∀ ps ps' : List Plug, setNextFree node ps = some ps' →
    ∃ p rest, (ps.filter (·.node.isNone)).map (·.name) = p :: rest ∧ (ps'.filter (·.node.isNone)).map (·.name) = rest ∧
      (⟨p, some node⟩ : Plug) ∈ ps'
  | [], _, h => by simp [setNextFree] at h
  | q :: qs, ps', h => by
    simp only [setNextFree] at h
    split at h
    · rename_i hfree
      cases h
      refine ⟨q.name, (qs.filter (·.node.isNone)).map (·.name), ?_, ?_, ?_⟩
      · simp [hfree]
      · simp
      · simp
    · rename_i hfree
      cases hr : setNextFree node qs with
      | none => rw [hr] at h; cases h
      | some r =>
        rw [hr] at h
        simp only [Option.map_some, Option.some.injEq] at h
        subst h
        obtain ⟨p, rest, e1, e2, hm⟩ := setNextFree_places node qs r hr
        refine ⟨p, rest, ?_, ?_, ?_⟩
        · simpa [List.filter_cons, hfree] using e1
        · simpa [List.filter_cons, hfree] using e2
        · simp [hm]

theorem setNextFree_none (node : Name) : ∀ ps : List Plug, (ps.filter (·.node.isNone)) = [] → setNextFree node ps = none
  | [], _ => rfl
  | q :: qs, h => by
    simp only [List.filter_cons] at h
    split at h
    · cases h
    · rename_i hq
      simp only [setNextFree, hq, Bool.false_eq_true, if_false]
      rw [setNextFree_none node qs h]; rfl

/-- without a plug list on a hard-wired device: the i-th node sits on the i-th plug that was free before the line -/
theorem mapLine_hard : ∀ (ns : List Name) (d d' : Dev), d.hard = true → mapLine d ns none = .ok d' →
    ∀ (i : Nat) (n : Name), ns[i]? = some n → ∃ p, (freeNames d)[i]? = some p ∧ (⟨p, some n⟩ : Plug) ∈ d'.plugs
  | [], d, d', _, h => by simp
  | n :: ns, d, d', hh, h => by
    obtain ⟨d1, h1, h2⟩ := mapLine_none_cons h
    simp only [hh, if_true] at h1
    obtain ⟨ps, hps, rfl⟩ := mapNext_cases h1
    obtain ⟨p, rest, e1, e2, hm⟩ := setNextFree_places n d.plugs ps hps
    intro i x hx
    cases i with
    | zero =>
      simp only [List.getElem?_cons_zero, Option.some.injEq] at hx
      subst hx
      exact ⟨p, by simp [freeNames, e1], (mapLine_Keeps h2).2.2.2 _ _ hm⟩
    | succ j =>
      simp only [List.getElem?_cons_succ] at hx
      obtain ⟨p', hp', hm'⟩ := mapLine_hard ns { d with plugs := ps } d' hh h2 j x hx
      refine ⟨p', ?_, hm'⟩
      simp only [freeNames] at hp' ⊢
      rw [e1, List.getElem?_cons_succ, ← e2]
      exact hp'

/-- … and more nodes than free plugs are refused -/
theorem mapLine_hard_error : ∀ (ns : List Name) (d : Dev), d.hard = true → (freeNames d).length < ns.length →
    mapLine d ns none = .error .moreNodes
  | [], d, _, h => by simp at h
  | n :: ns, d, hh, h => by
    simp only [mapLine, hh, if_true]
    cases h1 : mapNext d n with
    | error e =>
      unfold mapNext at h1
      split at h1
      · cases h1
      · cases h1; rfl
    | ok d1 =>
      simp only
      obtain ⟨ps, hps, rfl⟩ := mapNext_cases h1
      obtain ⟨p, rest, e1, e2, _⟩ := setNextFree_places n d.plugs ps hps
      refine mapLine_hard_error ns { d with plugs := ps } hh ?_
      simp only [freeNames, e1, e2, List.length_cons] at h ⊢
      omega

/-! ### refused lines -/

theorem updDev_unknown {name : Name} {f : Dev → Except DiagClass Dev} : ∀ {ds : List Dev}, (∀ d ∈ ds, d.name ≠ name) →
    updDev name f ds = .error .unknownDevice
  | [], _ => rfl
  | d :: ds, h => by
    have hd : ¬ d.name = name := h d (by simp)
    simp only [updDev, hd, if_false]
    rw [updDev_unknown (fun x hx => h x (by simp [hx]))]

theorem updDev_error {name : Name} {f : Dev → Except DiagClass Dev} {e : DiagClass} : ∀ {ds : List Dev} {d : Dev},
    ds.find? (·.name = name) = some d → f d = .error e → updDev name f ds = .error e
  | [], _, h, _ => by simp at h
  | x :: xs, d, h, hf => by
    simp only [List.find?_cons] at h
    by_cases hx : x.name = name
    · simp only [hx, decide_true, Option.some.injEq] at h
      subst h
      simp [updDev, hx, hf]
    · simp only [hx, decide_false] at h
      simp only [updDev, hx, if_false]
      rw [updDev_error h hf]

theorem makeNode_error_dev {c : Cfg} {nodestr : List Char} {dev : Name} {plugstr : Option (List Char)} {d : Dev} {e : DiagClass}
    (hd : c.devs.find? (·.name = dev) = some d) (hf : nodeOnDev nodestr plugstr d = .error e) :
    makeNode c nodestr dev plugstr = .error e := by
  unfold makeNode
  rw [updDev_error hd hf]

theorem updDev_found {name : Name} {f : Dev → Except DiagClass Dev} : ∀ {ds : List Dev} {d d' : Dev},
    ds.find? (·.name = name) = some d → f d = .ok d' → ∃ ds', updDev name f ds = .ok ds'
  | [], _, _, h, _ => by simp at h
  | x :: xs, d, d', h, hf => by
    simp only [List.find?_cons] at h
    by_cases hx : x.name = name
    · simp only [hx, decide_true, Option.some.injEq] at h
      subst h
      exact ⟨d' :: xs, by simp [updDev, hx, hf]⟩
    · simp only [hx, decide_false] at h
      obtain ⟨r, hr⟩ := updDev_found h hf
      exact ⟨x :: r, by simp [updDev, hx, hr]⟩

/-- the earlier pairs of a line with a plug list are fine: the rest of the line decides -/
theorem mapLine_append : ∀ (ns1 ps1 ns2 ps2 : List Name) (d d1 : Dev), ns1.length = ps1.length →
    mapLine d ns1 (some ps1) = .ok d1 → mapLine d (ns1 ++ ns2) (some (ps1 ++ ps2)) = mapLine d1 ns2 (some ps2)
  | [], [], ns2, ps2, d, d1, _, h => by simp only [mapLine] at h; cases h; rfl
  | [], _ :: _, _, _, _, _, hl, _ => by simp at hl
  | _ :: _, [], _, _, _, _, hl, _ => by simp at hl
  | n :: ns1, p :: ps1, ns2, ps2, d, d1, hl, h => by
    obtain ⟨d0, h0, h1⟩ := mapLine_some_cons h
    simp only [List.cons_append, mapLine, h0]
    exact mapLine_append ns1 ps1 ns2 ps2 d0 d1 (by simpa using hl) h1

theorem mapOne_unknown {d : Dev} {n p : Name} (hh : d.hard = true) (hp : p ∉ plugNames d) : mapOne d n p = .error .unknownPlug := by
  unfold mapOne
  have : d.plugs.find? (·.name = p) = none := by
    apply List.find?_eq_none.mpr
    intro q hq hqn
    apply hp
    simp only [plugNames, List.mem_map]
    exact ⟨q, hq, by simpa using hqn⟩
  simp [this, hh]

theorem mapOne_assigned {d : Dev} {n p : Name} {q : Plug} (hq : d.plugs.find? (·.name = p) = some q) (hn : q.node.isSome = true) :
    mapOne d n p = .error .plugAssigned := by
  unfold mapOne
  simp [hq, hn]

/-- on a hard-wired device `pluglist_map` never changes the plug names -/
theorem mapLine_hard_names {d d' : Dev} {nodes : List Name} {plugs : Option (List Name)} (hh : d.hard = true)
    (h : mapLine d nodes plugs = .ok d') : plugNames d' = plugNames d := by
  have := mapLine_keeps (fun x => x.hard = true ∧ plugNames x = plugNames d)
    (fun a n p a' ha h1 => by
      rcases mapOne_cases h1 with ⟨_, hfree, _⟩ | ⟨q, _, _, rfl⟩
      · rw [ha.1] at hfree; cases hfree
      · exact ⟨ha.1, by simpa [plugNames, setFirst_names] using ha.2⟩)
    (fun a n a' ha h1 => by
      obtain ⟨ps, hps, rfl⟩ := mapNext_cases h1
      exact ⟨ha.1, by simpa [plugNames, setNextFree_names n a.plugs ps hps] using ha.2⟩)
    nodes plugs d d' ⟨hh, rfl⟩ h
  exact this.2


theorem mapLine_append_none : ∀ (ns1 ns2 : List Name) (d d1 : Dev),
    mapLine d ns1 none = .ok d1 → mapLine d (ns1 ++ ns2) none = mapLine d1 ns2 none
  | [], ns2, d, d1, h => by simp only [mapLine] at h; cases h; rfl
  | n :: ns1, ns2, d, d1, h => by
    obtain ⟨d0, h0, h1⟩ := mapLine_none_cons h
    simp only [List.cons_append, mapLine, h0]
    exact mapLine_append_none ns1 ns2 d0 d1 h1

/-! ### the accepted configuration as a whole -/

theorem build_Inv {specs : List Spec} {stmts : List Stmt} {cfg : Cfg} (h : build specs stmts = .ok cfg) : Inv cfg :=
  steps_Inv stmts empty cfg 0 Inv_empty (build_ok h).1

theorem steps_aliases_mono {specs : List Spec} : ∀ (stmts : List Stmt) (c c' : Cfg) (i : Nat), steps specs c i stmts = .ok c' →
    ∀ a ∈ c.aliases, a ∈ c'.aliases
  | [], c, c', i, h => by simp only [steps] at h; cases h; exact fun _ h => h
  | s :: rest, c, c', i, h => by
    simp only [steps] at h
    cases hs : step specs c i s with
    | error e => rw [hs] at h; cases h
    | ok c1 =>
      rw [hs] at h
      intro a ha
      apply steps_aliases_mono rest c1 c' (i + 1) h
      cases s with
      | device name spec => obtain ⟨s, _, rfl⟩ := makeDevice_ok hs; exact ha
      | node nodestr dev plugstr => obtain ⟨devs, nhl, nodes, _, _, _, rfl⟩ := makeNode_ok hs; exact ha
      | alias name hosts => obtain ⟨hl', _, _, rfl⟩ := makeAlias_ok hs; simp [ha]

/-- an accepted `node` line, seen from the final configuration: `d1` is the device the line found, `d2` the device it left,
    `d` the device of the final configuration -/
theorem node_line {specs : List Spec} {pre post : List Stmt} {nodestr : List Char} {dev : Name} {plugstr : Option (List Char)}
    {cfg : Cfg} (h : build specs (pre ++ .node nodestr dev plugstr :: post) = .ok cfg) :
    ∃ c1 d1 d2 d, steps specs empty 0 pre = .ok c1 ∧ c1.devs.find? (·.name = dev) = some d1 ∧
      nodeOnDev nodestr plugstr d1 = .ok d2 ∧ cfg.devs.find? (·.name = dev) = some d ∧ Keeps d1 d2 ∧ Keeps d2 d := by
  obtain ⟨c1, c2, h1, h2, h3⟩ := build_split specs pre post _ cfg h
  obtain ⟨d1, d2, hf1, hf2, hn, _⟩ := makeNode_dev (show makeNode c1 nodestr dev plugstr = .ok c2 from h2)
  have he := steps_Ext post c2 cfg _ (run_ok h3)
  obtain ⟨d, hfd, hk⟩ := Ext_find dev he d2 hf2
  exact ⟨c1, d1, d2, d, h1, hf1, hn, hfd, nodeOnDev_Keeps hn, hk⟩

/-! ### refused lines, at the level of one line -/

theorem step_unknown_spec {specs : List Spec} {c : Cfg} {i : Nat} {name spec : Name} (h : findSpec specs spec = none) :
    step specs c i (.device name spec) = .error .specNotFound := by
  simp [step, makeDevice, h]

theorem step_unknown_device {specs : List Spec} {c : Cfg} {i : Nat} {nodestr : List Char} {dev : Name} {plugstr : Option (List Char)}
    (h : ∀ d ∈ c.devs, d.name ≠ dev) : step specs c i (.node nodestr dev plugstr) = .error .unknownDevice := by
  simp only [step, makeNode]
  rw [updDev_unknown h]

theorem step_node_error {specs : List Spec} {c : Cfg} {i : Nat} {nodestr : List Char} {dev : Name} {plugstr : Option (List Char)}
    {d : Dev} {e : DiagClass} (hd : c.devs.find? (·.name = dev) = some d) (hf : nodeOnDev nodestr plugstr d = .error e) :
    step specs c i (.node nodestr dev plugstr) = .error e := makeNode_error_dev hd hf

theorem nodeOnDev_invalid_nodes {nodestr : List Char} {plugstr : Option (List Char)} {d : Dev} {e : PErr}
    (h : create nodestr = .error e) : nodeOnDev nodestr plugstr d = .error .invalidNodeList := by
  simp [nodeOnDev, h]

theorem nodeOnDev_invalid_plugs {nodestr ps : List Char} {d : Dev} {nhl : Hostlist} {e : PErr}
    (hn : create nodestr = .ok nhl) (h : create ps = .error e) : nodeOnDev nodestr (some ps) d = .error .invalidPlugList := by
  simp [nodeOnDev, hn, h]

theorem nodeOnDev_some {nodestr ps : List Char} {d : Dev} {nhl phl : Hostlist}
    (hn : create nodestr = .ok nhl) (hp : create ps = .ok phl) :
    nodeOnDev nodestr (some ps) d = mapLine d (expand nhl) (some (expand phl)) := by
  simp [nodeOnDev, hn, hp]

theorem nodeOnDev_none {nodestr : List Char} {d : Dev} {nhl : Hostlist} (hn : create nodestr = .ok nhl) :
    nodeOnDev nodestr none d = mapLine d (expand nhl) none := by
  simp [nodeOnDev, hn]

theorem mapLine_unknown_plug {d d1 : Dev} {ns1 ps1 ns2 ps2 : List Name} {n p : Name} (hh : d.hard = true)
    (hl : ns1.length = ps1.length) (h1 : mapLine d ns1 (some ps1) = .ok d1) (hp : p ∉ plugNames d) :
    mapLine d (ns1 ++ n :: ns2) (some (ps1 ++ p :: ps2)) = .error .unknownPlug := by
  rw [mapLine_append ns1 ps1 _ _ d d1 hl h1]
  have hh1 : d1.hard = true := (mapLine_Keeps h1).2.2.1.trans hh
  have hn1 : p ∉ plugNames d1 := by rw [mapLine_hard_names hh h1]; exact hp
  simp [mapLine, mapOne_unknown hh1 hn1]

theorem mapLine_plug_assigned {d d1 : Dev} {ns1 ps1 ns2 ps2 : List Name} {n p : Name} {q : Plug}
    (hl : ns1.length = ps1.length) (h1 : mapLine d ns1 (some ps1) = .ok d1)
    (hq : d1.plugs.find? (·.name = p) = some q) (hn : q.node.isSome = true) :
    mapLine d (ns1 ++ n :: ns2) (some (ps1 ++ p :: ps2)) = .error .plugAssigned := by
  rw [mapLine_append ns1 ps1 _ _ d d1 hl h1]
  simp [mapLine, mapOne_assigned hq hn]

theorem mapLine_more_nodes {d d1 : Dev} {ns1 ps1 ns2 : List Name} {n : Name}
    (hl : ns1.length = ps1.length) (h1 : mapLine d ns1 (some ps1) = .ok d1) :
    mapLine d (ns1 ++ n :: ns2) (some ps1) = .error .moreNodes := by
  have := mapLine_append ns1 ps1 (n :: ns2) [] d d1 hl h1
  simp only [List.append_nil] at this
  rw [this]; rfl

theorem mapLine_more_plugs {d d1 : Dev} {ns1 ps1 ps2 : List Name} {p : Name}
    (hl : ns1.length = ps1.length) (h1 : mapLine d ns1 (some ps1) = .ok d1) :
    mapLine d ns1 (some (ps1 ++ p :: ps2)) = .error .morePlugs := by
  have := mapLine_append ns1 ps1 [] (p :: ps2) d d1 hl h1
  simp only [List.append_nil] at this
  rw [this]; rfl

theorem mapLine_named_assigned {d d1 : Dev} {ns1 ns2 : List Name} {n : Name} {q : Plug} (hh : d.hard = false)
    (h1 : mapLine d ns1 none = .ok d1) (hq : d1.plugs.find? (·.name = n) = some q) (hn : q.node.isSome = true) :
    mapLine d (ns1 ++ n :: ns2) none = .error .plugAssigned := by
  rw [mapLine_append_none ns1 _ d d1 h1]
  have hh1 : d1.hard = false := (mapLine_Keeps h1).2.2.1.trans hh
  simp [mapLine, hh1, mapOne_assigned hq hn]

/-- the plug stage passed and a name of the line is configured already, or occurs twice in the line -/
theorem step_duplicate_node {specs : List Spec} {c : Cfg} {i : Nat} {nodestr : List Char} {dev : Name} {plugstr : Option (List Char)}
    {d d' : Dev} {nhl : Hostlist} (hb : Built c.nodes) (hd : c.devs.find? (·.name = dev) = some d)
    (hf : nodeOnDev nodestr plugstr d = .ok d') (hn : create nodestr = .ok nhl)
    (hdup : (∃ n ∈ expand nhl, n ∈ expand c.nodes) ∨ ¬ (expand nhl).Nodup) :
    step specs c i (.node nodestr dev plugstr) = .error .dupNodeName := by
  obtain ⟨devs, hu⟩ := updDev_found hd hf
  simp only [step, makeNode, hu, hn, addNodes_error _ _ hb hdup]

/-- whatever the plug stage says: a line that names a configured node is refused -/
theorem step_duplicate_node_any {specs : List Spec} {c : Cfg} {i : Nat} {nodestr : List Char} {dev : Name} {plugstr : Option (List Char)}
    {nhl : Hostlist} (hb : Built c.nodes) (hn : create nodestr = .ok nhl)
    (hdup : (∃ n ∈ expand nhl, n ∈ expand c.nodes) ∨ ¬ (expand nhl).Nodup) :
    ∃ e, step specs c i (.node nodestr dev plugstr) = .error e := by
  cases hs : step specs c i (.node nodestr dev plugstr) with
  | error e => exact ⟨e, rfl⟩
  | ok c' =>
    obtain ⟨devs, nhl', nodes, _, hn', ha, _⟩ := makeNode_ok (show makeNode c nodestr dev plugstr = .ok c' from hs)
    rw [hn] at hn'; cases hn'
    obtain ⟨_, _, hnew, hnd⟩ := addNodes_spec _ _ _ hb ha
    rcases hdup with ⟨n, h1, h2⟩ | h
    · exact absurd h2 (hnew n h1)
    · exact absurd hnd h

theorem step_alias_dup {specs : List Spec} {c : Cfg} {i : Nat} {name : Name} {hosts : List Char} {a : Alias}
    (ha : a ∈ c.aliases) (hn : a.name = name) : step specs c i (.alias name hosts) = .error .badAlias := by
  have : c.aliases.any (·.name = name) = true := by
    simp only [List.any_eq_true, decide_eq_true_eq]; exact ⟨a, ha, hn⟩
  simp [step, makeAlias, this]

theorem step_alias_invalid {specs : List Spec} {c : Cfg} {i : Nat} {name : Name} {hosts : List Char} {e : PErr}
    (h : create hosts = .error e) : step specs c i (.alias name hosts) = .error .badAlias := by
  simp only [step, makeAlias, h]
  split <;> rfl

/-! ### refused at the end -/

theorem aliasBad_iff {nodes : Hostlist} (hb : Built nodes) (a : Alias) :
    aliasBad nodes a = true ↔ ∃ h ∈ expand a.hl, h ∉ expand nodes := by
  simp only [aliasBad, List.any_eq_true, Bool.not_eq_true', nodeExists]
  constructor
  · rintro ⟨h, hh, hf⟩
    refine ⟨h, hh, fun hmem => ?_⟩
    simp [find_built nodes h hb hmem] at hf
  · rintro ⟨h, hh, hnot⟩
    exact ⟨h, hh, by simp [find_none_of_not_mem nodes h hnot]⟩

theorem build_alias_missing {specs : List Spec} {stmts : List Stmt} {c : Cfg} (hs : steps specs empty 0 stmts = .ok c)
    (a : Alias) (ha : a ∈ c.aliases) (h : Name) (hh : h ∈ expand a.hl) (hnot : h ∉ expand c.nodes) :
    ∃ b ∈ c.aliases, (∃ h' ∈ expand b.hl, h' ∉ expand c.nodes) ∧ build specs stmts = .error (.aliasMissing, b.stmt) := by
  have hb : Built c.nodes := (steps_Inv stmts empty c 0 Inv_empty hs).built
  have hbad : aliasBad c.nodes a = true := (aliasBad_iff hb a).mpr ⟨h, hh, hnot⟩
  cases hf : c.aliases.find? (aliasBad c.nodes) with
  | none => exact absurd hbad (by simpa using List.find?_eq_none.mp hf a ha)
  | some b =>
    refine ⟨b, List.mem_of_find?_eq_some hf, (aliasBad_iff hb b).mp (List.find?_some hf), ?_⟩
    rw [build_eq_steps, hs]
    simp [validate, hf]

theorem build_no_nodes {specs : List Spec} {stmts : List Stmt} {c : Cfg} (hs : steps specs empty 0 stmts = .ok c)
    (hno : nodesOf stmts = []) :
    build specs stmts = .error (.noNodes, stmts.length) ∨ ∃ b ∈ c.aliases, build specs stmts = .error (.aliasMissing, b.stmt) := by
  have hex : expand c.nodes = [] := by
    have := steps_nodes specs stmts empty c 0 Built.nil hs
    simpa [empty, expand_nil, hno] using this
  cases hf : c.aliases.find? (aliasBad c.nodes) with
  | none =>
    left
    rw [build_eq_steps, hs]
    simp [validate, hf, hex]
  | some b =>
    right
    refine ⟨b, List.mem_of_find?_eq_some hf, ?_⟩
    rw [build_eq_steps, hs]
    simp [validate, hf]

/-! ### where the nodes of an accepted line sit in the final configuration -/

theorem ith_pluglist {specs : List Spec} {pre post : List Stmt} {nodestr ps : List Char} {dev : Name} {cfg : Cfg}
    (h : build specs (pre ++ .node nodestr dev (some ps) :: post) = .ok cfg) :
    ∃ nhl phl d, create nodestr = .ok nhl ∧ create ps = .ok phl ∧ cfg.devs.find? (·.name = dev) = some d ∧
      (expand nhl).length = (expand phl).length ∧
      ∀ (i : Nat) (n p : Name), (expand nhl)[i]? = some n → (expand phl)[i]? = some p → (⟨p, some n⟩ : Plug) ∈ d.plugs := by
  obtain ⟨c1, d1, d2, d, _, _, hn, hfd, _, hk⟩ := node_line h
  obtain ⟨nhl, hcn, hc⟩ := nodeOnDev_ok hn
  rcases hc with ⟨hnone, _⟩ | ⟨ps', phl, hps, hcp, hl⟩
  · cases hnone
  · cases hps
    obtain ⟨hlen, hi⟩ := mapLine_pairs _ _ d1 d2 hl
    exact ⟨nhl, phl, d, hcn, hcp, hfd, hlen, fun i n p h1 h2 => hk.2.2.2 _ _ (hi i n p h1 h2)⟩

theorem ith_noplugs {specs : List Spec} {pre post : List Stmt} {nodestr : List Char} {dev : Name} {cfg : Cfg}
    (h : build specs (pre ++ .node nodestr dev none :: post) = .ok cfg) :
    ∃ nhl c1 d1 d, create nodestr = .ok nhl ∧ steps specs empty 0 pre = .ok c1 ∧ c1.devs.find? (·.name = dev) = some d1 ∧
      cfg.devs.find? (·.name = dev) = some d ∧ d.hard = d1.hard ∧
      (d1.hard = true → ∀ (i : Nat) (n : Name), (expand nhl)[i]? = some n →
          ∃ p, (freeNames d1)[i]? = some p ∧ (⟨p, some n⟩ : Plug) ∈ d.plugs) ∧
      (d1.hard = false → ∀ n ∈ expand nhl, (⟨n, some n⟩ : Plug) ∈ d.plugs) := by
  obtain ⟨c1, d1, d2, d, hs, hf1, hn, hfd, hk1, hk⟩ := node_line h
  obtain ⟨nhl, hcn, hc⟩ := nodeOnDev_ok hn
  rcases hc with ⟨_, hl⟩ | ⟨ps', phl, hps, _, _⟩
  · refine ⟨nhl, c1, d1, d, hcn, hs, hf1, hfd, hk.2.2.1.trans hk1.2.2.1, ?_, ?_⟩
    · intro hh i n hi
      obtain ⟨p, hp, hm⟩ := mapLine_hard _ d1 d2 hh hl i n hi
      exact ⟨p, hp, hk.2.2.2 _ _ hm⟩
    · intro hh n hmem
      exact hk.2.2.2 _ _ (mapLine_free _ d1 d2 hh hl n hmem)
  · cases hps

theorem alias_line {specs : List Spec} {pre post : List Stmt} {name : Name} {hosts : List Char} {cfg : Cfg}
    (h : build specs (pre ++ .alias name hosts :: post) = .ok cfg) :
    ∃ hl, create hosts = .ok hl ∧ (⟨name, hl, pre.length⟩ : Alias) ∈ cfg.aliases ∧ ∀ x ∈ expand hl, x ∈ expand cfg.nodes := by
  obtain ⟨c1, c2, _, h2, h3⟩ := build_split specs pre post _ cfg h
  obtain ⟨hl, hc, _, rfl⟩ := makeAlias_ok (show makeAlias c1 pre.length name hosts = .ok c2 from h2)
  have hmem := steps_aliases_mono post _ cfg _ (run_ok h3) ⟨name, hl, pre.length⟩ (by simp)
  exact ⟨hl, hc, hmem, fun x hx => validate_alias (build_ok h).2.1 _ hmem x hx⟩

/-! ### axiom audit -/

end Pm.ConfigModel.Proof
