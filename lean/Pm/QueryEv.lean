import Pm.IsolationProof
/-! # The writes of one device's turn, as a function of the turn (device level; used by `Pm/QueryRun.lean`, `Props/C03`)

`setplugstate` and `setresult` are the only statements that write the shared arglist store.  This module defines, beside
each mirror function of `Pm/Dev2.lean` on the path from `_process_stmt` up to `dev_post_poll`, a *ghost* function with the
same arguments and the same control flow that returns the list of **write events** (`WEv`) of that piece of the turn, in
the order the writes happen — `stmtEv`, `innerLoopEv`, `onRunEv`, `processActionFEv`, `postPollEv` — and proves that the
store after the piece is exactly the store before with the events applied in order (`…_args`).  The model functions
themselves are not touched; the ghost functions call them for every state they need.

A second family of lemmas (`…_ok`) says where an event comes from: from a `setplugstate`/`setresult` statement at the
current position of an action of the device's queue (`S` of its client id and arglist id), executed in a device state with
the device's own plug list. -/
namespace Pm.Dev2.QEv
open Pm.Dev2

/-- what is written: a state (by `setplugstate`) or a result (by `setresult`) -/
inductive WKind where
  | state (st : PState)
  | result (r : PResult)
deriving DecidableEq, Repr

/-- one write into an arglist: by which action (client id, arglist id, script slot), for which plug / node, what, the
    captured text that was interpreted (it becomes the cell's value), and the subject of the regex match it was cut from
    (the device's match register `xmatch` at that moment).  `dev` is the device's name; it is filled in at the daemon
    level (`Pm/QueryRun.lean`). -/
structure WEv where
  dev : Bytes := []
  cid : Nat
  al : Nat
  com : Nat
  plug : Bytes
  node : Bytes
  kind : WKind
  text : Bytes
  subject : Option Bytes
deriving DecidableEq, Repr

/-- what the write does to one arglist element -/
def upd (ev : WEv) (g : Arg) : Arg :=
  if g.node == ev.node then
    match ev.kind with
    | .state st => { g with state := st, val := some ev.text }
    | .result r => { g with result := r, val := some ev.text }
  else g

/-- … to an arglist -/
def applyEv (as : List Arg) (ev : WEv) : List Arg := as.map (upd ev)

/-- … to the store (`setArgs` on the event's arglist) -/
def applyStore (s : Store) (ev : WEv) : Store := (ev.al, applyEv (cell s ev.al) ev) :: s.filter (·.1 ≠ ev.al)

theorem upd_node (ev : WEv) (g : Arg) : (upd ev g).node = g.node := by
  unfold upd; split
  · split <;> rfl
  · rfl

/-! ## one statement -/

/-- the write of the statement the action stands at: one event if it is a `setplugstate` / `setresult` that finds its
    plug and its captured text, none otherwise -/
def stmtEv (d : Dev) (a : Action) (o : Oracle) : List WEv :=
  match (topCtx a).block[(topCtx a).pos]? with
  | some (.setplugstate lit pm sm is) =>
    (match spsTarget d (topCtx a) lit pm sm with
     | none => []
     | some (s, plug) =>
       [{ cid := a.clientId, al := a.arglist, com := a.com, plug := plug.name, node := plug.node.getD [],
          kind := .state (pickState askRx s is o []).2.1, text := s, subject := d.xmStr }])
  | some (.setresult pm sm is) =>
    (match srTarget d pm sm with
     | none => []
     | some (s, plug) =>
       [{ cid := a.clientId, al := a.arglist, com := a.com, plug := plug.name, node := plug.node.getD [],
          kind := .result (pickResult askRx s is o []).2.1, text := s, subject := d.xmStr }])
  | _ => []

theorem stmtExpect_args (d a o pat) : (stmtExpect d a o pat).dev.args = d.args := by
  unfold stmtExpect; grind
theorem stmtSend_args (d a o e fmt) : (stmtSend d a o e fmt).dev.args = d.args := by
  unfold stmtSend; grind
theorem stmtDelay_args (d a o e now us) : (stmtDelay d a o e now us).dev.args = d.args := by
  unfold stmtDelay; grind
theorem stmtForeach_args (d a o e b n) : (stmtForeach d a o e b n).dev.args = d.args := by
  unfold stmtForeach; grind
theorem stmtIf_args (d a o e b n) : (stmtIf d a o e b n).dev.args = d.args := by
  unfold stmtIf; grind

/-- **the store after one statement is the store before with the statement's event applied** -/
theorem processStmt_args (d : Dev) (a : Action) (o : Oracle) (now : Time) :
    (processStmt d a o now).dev.args = (stmtEv d a o).foldl applyStore d.args := by
  unfold processStmt stmtEv
  dsimp only
  cases h : (topCtx a).block[(topCtx a).pos]? with
  | none => rfl
  | some s =>
    cases s with
    | send fmt => exact stmtSend_args ..
    | expect pat => exact stmtExpect_args ..
    | delay us => exact stmtDelay_args ..
    | foreachplug b => exact stmtForeach_args ..
    | foreachnode b => exact stmtForeach_args ..
    | ifoff b => exact stmtIf_args ..
    | ifon b => exact stmtIf_args ..
    | setplugstate lit pm sm is =>
      dsimp only
      rw [stmtSetplugstate_eq]
      unfold stmtSetplugstate'
      cases ht : spsTarget d (topCtx a) lit pm sm with
      | none => rfl
      | some sp =>
        obtain ⟨s, plug⟩ := sp
        simp only [List.foldl_cons, List.foldl_nil, applyStore, setArgs, applyEv, getArgs_eq]
        rfl
    | setresult pm sm is =>
      dsimp only
      rw [stmtSetresult_eq]
      unfold stmtSetresult'
      cases ht : srTarget d pm sm with
      | none => rfl
      | some sp =>
        obtain ⟨s, plug⟩ := sp
        simp only [List.foldl_cons, List.foldl_nil, applyStore, setArgs, applyEv, getArgs_eq]
        rfl

/-! ## the `do … while` loop of `_process_action` -/

/-- the writes of `innerLoop`: the statement's own, then those of the rest of the loop -/
def innerLoopEv (now : Time) : Nat → Dev → Action → Oracle → List WEv
  | 0, d, a, o => stmtEv d a o
  | fuel + 1, d, a, o =>
    let r := processStmt d a o now
    if r.finished && r.act.exec.length > a.exec.length then stmtEv d a o ++ innerLoopEv now fuel r.dev r.act r.oracle
    else stmtEv d a o

theorem innerLoop_args (now : Time) (fuel : Nat) (d : Dev) (a : Action) (o : Oracle) (acc : List Out) :
    (innerLoop now fuel d a o acc).dev.args = (innerLoopEv now fuel d a o).foldl applyStore d.args := by
  induction fuel generalizing d a o acc with
  | zero => unfold innerLoop innerLoopEv; exact processStmt_args d a o now
  | succ n ih =>
    unfold innerLoop innerLoopEv
    dsimp only
    split
    · rw [ih, List.foldl_append, processStmt_args]
    · exact processStmt_args d a o now

/-! ## one iteration of `_process_action`'s `while` loop -/

abbrev KEv := CS → Oracle → List Out → Option Time → List WEv

/-- the writes of the rest of the loop after a statement run that ended without error (`onRunOk`) -/
def onRunOkEv (kEv : KEv) (rest : List Action) (c : CS) (r : StepR) (out : List Out) (tmo : Option Time) : List WEv :=
  let a' := advance r.act
  if a'.exec.isEmpty then
    let fin := if a'.clientId != 0 then [Out.finish a'.clientId .success] else []
    let dev := { r.dev with acts := rest, loggedIn := r.dev.loggedIn || a'.com == 0, statActions := r.dev.statActions + 1, xmStr := none, xmResult := false, xmUsed := false }
    kEv { c with dev := dev } r.oracle (out ++ fin) tmo
  else kEv { c with dev := { r.dev with acts := a' :: rest } } r.oracle out tmo

/-- the writes after the statement loop (`onRunTail`): none when the pass stops here (assertion, stall, failure) -/
def onRunTailEv (kEv : KEv) (rest : List Action) (c : CS) (r : StepR) (out0 : List Out) (tmo : Option Time) : List WEv :=
  if hasAbort r.out then [] else
  if !r.finished then []
  else if r.act.errnum == .success then onRunOkEv kEv rest c r (out0 ++ r.out) tmo
  else []

/-- the writes of `onRun`: those of the statement loop for the head action, then those of the rest of the `while` loop -/
def onRunEv (kEv : KEv) (rest : List Action) (c : CS) (a : Action) (o : Oracle) (out : List Out) (tmo : Option Time) : List WEv :=
  innerLoopEv c.env.now (loopBound a) { c.dev with wake := none } a o ++
    onRunTailEv kEv rest c (innerLoop c.env.now (loopBound a) { c.dev with wake := none } a o []) out tmo

theorem failAll_args (rest : List Action) (c : CS) (a : Action) (o : Oracle) (out : List Out) (tmo : Option Time) :
    (failAll rest c a o out tmo).1.dev.args = c.dev.args := by
  have hr := reconnectDev_devFrame { c with dev := { c.dev with acts := [], xmStr := none, xmResult := false, xmUsed := false } } tmo
  unfold failAll
  dsimp only
  split
  · exact hr.args
  · rfl

theorem onRunTail_args (k : CS → Oracle → List Out → Option Time → PA) (kEv : KEv)
    (hk : ∀ c' o' out' tmo', (k c' o' out' tmo').1.dev.args = (kEv c' o' out' tmo').foldl applyStore c'.dev.args)
    (rest : List Action) (c : CS) (r : StepR) (out0 : List Out) (tmo : Option Time) (left : Time) :
    (onRunTail k rest c r out0 tmo left).1.dev.args = (onRunTailEv kEv rest c r out0 tmo).foldl applyStore r.dev.args := by
  unfold onRunTail onRunTailEv
  dsimp only
  split
  · rfl
  · split
    · rfl
    · split
      · unfold onRunOk onRunOkEv
        dsimp only
        split
        · rw [hk]
        · rw [hk]
      · exact failAll_args ..

theorem onRun_args (k : CS → Oracle → List Out → Option Time → PA) (kEv : KEv)
    (hk : ∀ c' o' out' tmo', (k c' o' out' tmo').1.dev.args = (kEv c' o' out' tmo').foldl applyStore c'.dev.args)
    (rest : List Action) (c : CS) (a : Action) (o : Oracle) (out : List Out) (tmo : Option Time) (left : Time) :
    (onRun k rest c a o out tmo left).1.dev.args = (onRunEv kEv rest c a o out tmo).foldl applyStore c.dev.args := by
  rw [onRun_eq]
  unfold onRunEv
  rw [List.foldl_append, onRunTail_args k kEv hk, innerLoop_args]

/-! ## `_process_action` -/

/-- the writes of `processActionF`, same fuel -/
def processActionFEv : Nat → CS → Oracle → List Out → Option Time → List WEv
  | 0, _, _, _, _ => []
  | fuel + 1, c, o, out, tmo =>
    if c.aborted then [] else
    match c.dev.acts with
    | [] => []
    | a0 :: rest =>
      if c.env.now ≥ (stamp c.env.now a0).timeStamp.getD c.env.now + c.dev.timeout then []
      else if c.dev.conn != 2 then []
      else onRunEv (processActionFEv fuel) rest c (stamp c.env.now a0) o out tmo

theorem onTimeout_args (rest : List Action) (c : CS) (a : Action) (o : Oracle) (out : List Out) (tmo : Option Time) :
    (onTimeout rest c a o out tmo).1.dev.args = c.dev.args := by
  unfold onTimeout
  dsimp only
  generalize (if a.telemetry = true then
      (if (c.dev.conn != 2) = true then [Out.telemetry a.clientId (str "connect(dev): timeout")]
       else teleMem a.clientId "recv(dev): '" c.dev.fromBuf) else []) = tele
  split
  · rfl
  · exact failAll_args ..

theorem processActionF_args (fuel : Nat) (c : CS) (o : Oracle) (out : List Out) (tmo : Option Time) :
    (processActionF fuel c o out tmo).1.dev.args = (processActionFEv fuel c o out tmo).foldl applyStore c.dev.args := by
  induction fuel generalizing c o out tmo with
  | zero => rfl
  | succ n ih =>
    unfold processActionF processActionBody processActionFEv
    by_cases hab : c.aborted = true
    · simp only [hab, if_true, List.foldl_nil]
    · simp only [hab, Bool.false_eq_true, if_false]
      cases hq : c.dev.acts with
      | nil => simp only [List.foldl_nil]
      | cons a0 rest =>
        dsimp only
        by_cases hto : c.env.now ≥ (stamp c.env.now a0).timeStamp.getD c.env.now + c.dev.timeout
        · simp only [hto, if_true, List.foldl_nil]
          exact onTimeout_args ..
        · simp only [hto, if_false]
          by_cases hcn : (c.dev.conn != 2) = true
          · simp only [hcn, if_true, List.foldl_nil]
          · simp only [hcn, Bool.false_eq_true, if_false]
            exact onRun_args _ _ (fun c' o' out' tmo' => ih c' o' out' tmo') ..

/-- **a device that cannot be talked to writes nothing**: an iteration of `_process_action` that finds the device not connected
    (the head action waits, or times out with `connect timeout`), or the head action's deadline passed (it fails with a
    time-out and everything queued behind it is aborted), executes no statement — no write — and ends the loop -/
theorem processActionFEv_nothing (fuel : Nat) (c : CS) (o : Oracle) (out : List Out) (tmo : Option Time)
    (h : c.dev.conn ≠ 2 ∨ ∃ a0 rest, c.dev.acts = a0 :: rest ∧
      c.env.now ≥ (stamp c.env.now a0).timeStamp.getD c.env.now + c.dev.timeout) :
    processActionFEv fuel c o out tmo = [] := by
  cases fuel with
  | zero => rfl
  | succ n =>
    unfold processActionFEv
    split
    · rfl
    · split
      · rfl
      · rename_i a0 rest hq
        split
        · rfl
        · rename_i hto
          split
          · rfl
          · rename_i hcn
            rcases h with h | ⟨b0, rest', hb, hd⟩
            · exact absurd (by simpa using hcn) h
            · rw [hq] at hb
              simp only [List.cons.injEq] at hb
              obtain ⟨rfl, rfl⟩ := hb
              exact absurd hd hto

/-! ## `dev_post_poll` for one device -/

/-- the writes of one device's `dev_post_poll`: `_handle_ready_device`, `_reconnect` and `_enqueue_ping` write nothing -/
def postPollEv (d : Dev) (env : Env) (o : Oracle) : List WEv :=
  if (ppReady d env).1.aborted then [] else
  processActionFEv (passFuel (ppPing (ppReconnect (ppReady d env).1 (ppReady d env).2).1 env.now (ppReconnect (ppReady d env).1 (ppReady d env).2).2).1.dev)
    (ppPing (ppReconnect (ppReady d env).1 (ppReady d env).2).1 env.now (ppReconnect (ppReady d env).1 (ppReady d env).2).2).1 o []
    (ppPing (ppReconnect (ppReady d env).1 (ppReady d env).2).1 env.now (ppReconnect (ppReady d env).1 (ppReady d env).2).2).2

/-- **the store after one device's `dev_post_poll` is the store before with the turn's writes applied in order** -/
theorem postPoll_args (d : Dev) (env : Env) (o : Oracle) :
    (postPoll d env o).1.dev.args = (postPollEv d env o).foldl applyStore d.args := by
  rw [postPoll_eq]
  unfold postPoll' postPollEv
  have h1 := ppReady_devFrame d env
  generalize ppReady d env = r at *
  dsimp only
  split
  · exact h1.args
  · have h2 := ppReconnect_devFrame r.1 r.2
    generalize ppReconnect r.1 r.2 = r2 at *
    have h3 := (ppPing_frame r2.1 env.now r2.2).2.2.1
    generalize ppPing r2.1 env.now r2.2 = r3 at *
    unfold processAction
    rw [processActionF_args, h3, h2.args, h1.args]

/-! ## where an event comes from -/

open Pm.Daemon.Isolation (Keys) in
/-- the event is the write of a statement executed in a device state with plug list `pl`, for an action whose client id
    and arglist id satisfy `S` -/
def EvOK (pl : List Plug) (S : Nat → Nat → Prop) (ev : WEv) : Prop :=
  ∃ (d : Dev) (a : Action) (o : Oracle), d.plugs = pl ∧ S a.clientId a.arglist ∧ ev ∈ stmtEv d a o

theorem processStmt_arglist (d : Dev) (a : Action) (o : Oracle) (now : Time) : (processStmt d a o now).act.arglist = a.arglist :=
  (processStmt_frame (fun _ => false) d a o now (fun _ _ _ _ => rfl)).al

theorem innerLoopEv_ok (pl : List Plug) (S : Nat → Nat → Prop) (now : Time) (fuel : Nat) (d : Dev) (a : Action) (o : Oracle)
    (hp : d.plugs = pl) (ha : S a.clientId a.arglist) : ∀ ev ∈ innerLoopEv now fuel d a o, EvOK pl S ev := by
  induction fuel generalizing d a o with
  | zero => intro ev hev; exact ⟨d, a, o, hp, ha, hev⟩
  | succ n ih =>
    intro ev hev
    unfold innerLoopEv at hev
    dsimp only at hev
    split at hev
    · rcases List.mem_append.mp hev with h | h
      · exact ⟨d, a, o, hp, ha, h⟩
      · exact ih _ _ _ ((processStmt_plugs d a o now).trans hp)
          (by rw [processStmt_clientId, processStmt_arglist]; exact ha) ev h
    · exact ⟨d, a, o, hp, ha, hev⟩

section
open Pm.Daemon.Isolation (Keys)

theorem onRunEv_ok (pl : List Plug) (S : Nat → Nat → Prop) (kEv : KEv)
    (hk : ∀ c' o' out' tmo', c'.dev.plugs = pl → Keys S c'.dev.acts → ∀ ev ∈ kEv c' o' out' tmo', EvOK pl S ev)
    (rest : List Action) (c : CS) (a : Action) (o : Oracle) (out : List Out) (tmo : Option Time)
    (hp : c.dev.plugs = pl) (ha : S a.clientId a.arglist) (hrest : Keys S rest) :
    ∀ ev ∈ onRunEv kEv rest c a o out tmo, EvOK pl S ev := by
  intro ev hev
  unfold onRunEv at hev
  rcases List.mem_append.mp hev with h | h
  · exact innerLoopEv_ok pl S _ _ { c.dev with wake := none } a o hp ha ev h
  · have hIL := innerLoop_frame (fun _ => false) c.env.now (loopBound a) { c.dev with wake := none } a o []
      (fun _ _ _ _ => rfl) (by simp)
    generalize innerLoop c.env.now (loopBound a) { c.dev with wake := none } a o [] = r at *
    have hrp : r.dev.plugs = pl := hIL.plugs.trans hp
    have ha' : S (advance r.act).clientId (advance r.act).arglist := by
      rw [advance_clientId, advance_arglist, hIL.cid, hIL.al]; exact ha
    unfold onRunTailEv at h
    split at h
    · cases h
    · split at h
      · cases h
      · split at h
        · unfold onRunOkEv at h
          dsimp only at h
          split at h
          · exact hk _ _ _ _ hrp hrest ev h
          · refine hk _ _ _ _ hrp ?_ ev h
            intro b hb
            rcases List.mem_cons.mp hb with rfl | hb
            · exact ha'
            · exact hrest b hb
        · cases h

theorem processActionFEv_ok (pl : List Plug) (S : Nat → Nat → Prop) (fuel : Nat) (c : CS) (o : Oracle) (out : List Out)
    (tmo : Option Time) (hp : c.dev.plugs = pl) (hk : Keys S c.dev.acts) :
    ∀ ev ∈ processActionFEv fuel c o out tmo, EvOK pl S ev := by
  induction fuel generalizing c o out tmo with
  | zero => intro ev hev; cases hev
  | succ n ih =>
    intro ev hev
    unfold processActionFEv at hev
    split at hev
    · cases hev
    · split at hev
      · cases hev
      · rename_i a0 rest hq
        split at hev
        · cases hev
        · split at hev
          · cases hev
          · refine onRunEv_ok pl S _ (fun c' o' out' tmo' h1 h2 => ih c' o' out' tmo' h1 h2) rest c _ o out tmo hp ?_ ?_ ev hev
            · rw [stamp_clientId, stamp_arglist]; exact hk a0 (by simp [hq])
            · intro b hb; exact hk b (by simp [hq, hb])

/-- **every write of a device's turn is the write of a `setplugstate` / `setresult` statement executed for an action of
    the device's queue** (or for the login / ping action, client id and arglist id `0`), in a device state with the
    device's own plug list -/
theorem postPollEv_ok (S : Nat → Nat → Prop) (h0 : S 0 0) (d : Dev) (env : Env) (o : Oracle) (hk : Keys S d.acts) :
    ∀ ev ∈ postPollEv d env o, EvOK d.plugs S ev := by
  intro ev hev
  unfold postPollEv at hev
  have h1 := ppReady_devFrame d env
  generalize ppReady d env = r at *
  split at hev
  · cases hev
  · have h2 := ppReconnect_devFrame r.1 r.2
    generalize ppReconnect r.1 r.2 = r2 at *
    have hk2 : Keys S r2.1.dev.acts := Pm.Daemon.Isolation.DevFrame.keys (h1.trans h2) h0 hk
    have h3 := ppPing_frame r2.1 env.now r2.2
    have hk3 : Keys S (ppPing r2.1 env.now r2.2).1.dev.acts := by
      rcases h3.2.2.2 with h | h
      · rw [h]; exact hk2
      · rw [h]; intro a ha
        rcases List.mem_append.mp ha with ha | ha
        · exact hk2 a ha
        · simp only [List.mem_singleton] at ha; subst ha; exact h0
    generalize ppPing r2.1 env.now r2.2 = r3 at *
    exact processActionFEv_ok d.plugs S _ r3.1 o [] r3.2 (h3.1.trans ((h1.trans h2).plugs)) hk3 ev hev

end

/-! ## what an event says -/

open Pm.Dev2.Interp (chosenName ctxName) in
theorem spsTarget_eq (d : Dev) (e : ExecCtx) (lit : Option Bytes) (pm sm : Int) :
    spsTarget d e lit pm sm =
      match chosenName d lit pm (ctxName e.plugs) with
      | none => none
      | some pn => match subOf d sm, findPlug d pn with
        | some s, some plug => some (s, plug)
        | _, _ => none := by
  unfold spsTarget chosenName ctxName
  rcases lit with _ | n
  · rcases subOf d pm with _ | n
    · rcases e.plugs with _ | (_ | ⟨p, t⟩) <;> rfl
    · rfl
  · rfl

open Pm.Dev2.Interp (chosenName ctxName) in
/-- **an event records exactly what its statement did**: the statement the action stands at is a `setplugstate` whose plug
    name — literal, capture or script argument (`chosenName`) — is a plug of the device wired to the event's node
    (`findPlug`), whose status capture took part in the last regex match and is the event's text (`subOf`), and the state
    written is that of the first interpretation matching the text (`pickState`, `C08_first_matching_interp`); or a
    `setresult`, likewise with the plug named by its capture.  The event carries the action's client id, arglist id and
    script slot and the subject of the match the text was cut from. -/
theorem mem_stmtEv {d : Dev} {a : Action} {o : Oracle} {ev : WEv} (h : ev ∈ stmtEv d a o) :
    ev.cid = a.clientId ∧ ev.al = a.arglist ∧ ev.com = a.com ∧ ev.subject = d.xmStr ∧ ev.dev = [] ∧
    ∃ plug, plug ∈ d.plugs ∧ plug.name = ev.plug ∧ plug.node = some ev.node ∧
      ((∃ lit pm sm is pn, (topCtx a).block[(topCtx a).pos]? = some (.setplugstate lit pm sm is) ∧
          chosenName d lit pm (ctxName (topCtx a).plugs) = some pn ∧ findPlug d pn = some plug ∧
          subOf d sm = some ev.text ∧ ev.kind = .state (pickState askRx ev.text is o []).2.1) ∨
       (∃ pm sm is pn, (topCtx a).block[(topCtx a).pos]? = some (.setresult pm sm is) ∧
          subOf d pm = some pn ∧ findPlug d pn = some plug ∧
          subOf d sm = some ev.text ∧ ev.kind = .result (pickResult askRx ev.text is o []).2.1)) := by
  unfold stmtEv at h
  split at h
  · rename_i lit pm sm is hst
    split at h
    · cases h
    · rename_i s plug ht
      simp only [List.mem_singleton] at h
      subst h
      rw [spsTarget_eq] at ht
      split at ht
      · cases ht
      · rename_i pn hpn
        split at ht
        · rename_i s' plug' hs hf
          simp only [Option.some.injEq, Prod.mk.injEq] at ht
          obtain ⟨rfl, rfl⟩ := ht
          obtain ⟨hm, n, hn⟩ := findPlug_node d pn _ hf
          exact ⟨rfl, rfl, rfl, rfl, rfl, _, hm, rfl, by simp [hn], Or.inl ⟨lit, pm, sm, is, pn, hst, hpn, hf, hs, rfl⟩⟩
        · cases ht
  · rename_i pm sm is hst
    split at h
    · cases h
    · rename_i s plug ht
      simp only [List.mem_singleton] at h
      subst h
      unfold srTarget at ht
      split at ht
      · cases ht
      · rename_i pn hpn
        split at ht
        · rename_i s' plug' hs hf
          simp only [Option.some.injEq, Prod.mk.injEq] at ht
          obtain ⟨rfl, rfl⟩ := ht
          obtain ⟨hm, n, hn⟩ := findPlug_node d pn _ hf
          exact ⟨rfl, rfl, rfl, rfl, rfl, _, hm, rfl, by simp [hn], Or.inr ⟨pm, sm, is, pn, hst, hpn, hf, hs, rfl⟩⟩
        · cases ht
  · cases h

/-- the captured text is a piece of the subject of the last successful regex match of this device -/
theorem subOf_infix {d : Dev} {i : Int} {s : Bytes} (h : subOf d i = some s) :
    d.xmUsed = true ∧ d.xmResult = true ∧ ∃ subj, d.xmStr = some subj ∧ s <:+: subj := by
  unfold subOf at h
  split at h
  · cases h
  · rename_i hc
    simp only [Bool.or_eq_true, Bool.not_eq_true', decide_eq_true_eq, not_or, Bool.not_eq_false, Int.not_lt] at hc
    split at h
    · split at h
      · cases h
      · cases hx : d.xmStr with
        | none => rw [hx] at h; cases h
        | some subj =>
          rw [hx] at h
          simp only [Option.map_some, Option.some.injEq] at h
          subst h
          exact ⟨hc.1.1, hc.1.2, subj, rfl, List.IsInfix.trans (List.take_prefix _ _).isInfix (List.drop_suffix _ _).isInfix⟩
    · cases h

/-! ## the match register -/

/-- the device's match register (`dev->xmatch`): used / result / subject copy / offsets -/
def reg (d : Dev) : Bool × Bool × Option Bytes × List (Int × Int) := (d.xmUsed, d.xmResult, d.xmStr, d.xmOffs)

theorem stmtSend_reg (d a o e fmt) : reg (stmtSend d a o e fmt).dev = reg d := by
  unfold stmtSend; grind [reg]
theorem stmtDelay_reg (d a o e now us) : reg (stmtDelay d a o e now us).dev = reg d := by
  unfold stmtDelay; grind [reg]
theorem stmtForeach_reg (d a o e b n) : reg (stmtForeach d a o e b n).dev = reg d := by
  unfold stmtForeach; grind [reg]
theorem stmtIf_reg (d a o e b n) : reg (stmtIf d a o e b n).dev = reg d := by
  unfold stmtIf; grind [reg]
theorem stmtSetplugstate_reg (d a o e l p s i) : reg (stmtSetplugstate d a o e l p s i).dev = reg d := by
  unfold stmtSetplugstate; grind [reg, setArgs]
theorem stmtSetresult_reg (d a o p s i) : reg (stmtSetresult d a o p s i).dev = reg d := by
  unfold stmtSetresult; grind [reg, setArgs]

/-- **only `expect` touches the match register** -/
theorem processStmt_reg (d : Dev) (a : Action) (o : Oracle) (now : Time)
    (h : ∀ pat, (topCtx a).block[(topCtx a).pos]? ≠ some (.expect pat)) : reg (processStmt d a o now).dev = reg d := by
  unfold processStmt
  dsimp only
  cases hs : (topCtx a).block[(topCtx a).pos]? with
  | none => rfl
  | some s =>
    cases s with
    | expect pat => exact absurd hs (h pat)
    | send fmt => exact stmtSend_reg ..
    | delay us => exact stmtDelay_reg ..
    | foreachplug b => exact stmtForeach_reg ..
    | foreachnode b => exact stmtForeach_reg ..
    | ifoff b => exact stmtIf_reg ..
    | ifon b => exact stmtIf_reg ..
    | setplugstate lit pm sm is => exact stmtSetplugstate_reg ..
    | setresult pm sm is => exact stmtSetresult_reg ..

/-- `_disconnect` does not recycle the match register (it empties the two buffers, not `dev->xmatch`) -/
theorem disconnectDev_reg (c : CS) : reg (disconnectDev c).dev = reg c.dev := by
  unfold disconnectDev; grind [reg]

/-- a write made in the state a matching `expect` leaves carries the subject of that match: the device's input buffer as it
    was when the `expect` matched (NUL bytes shown as 0xff) -/
theorem stmtEv_after_expect (d : Dev) (a a' : Action) (o o' : Oracle) (pat : Nat) (offs : List (Int × Int))
    (h : d.fromBuf ≠ []) (hm : (askRx o pat (Interp.rxSubject d.fromBuf)).2.1 = some offs) :
    ∀ ev ∈ stmtEv (stmtExpect d a o pat).dev a' o', ev.subject = some (Interp.rxSubject d.fromBuf) := by
  intro ev hev
  rw [(mem_stmtEv hev).2.2.2.1, (Interp.stmtExpect_match d a o pat offs h hm).2.2.2.1]

end Pm.Dev2.QEv

section AxiomChecks
open Pm.Dev2.QEv
/-- info: 'Pm.Dev2.QEv.postPoll_args' depends on axioms: [propext, Classical.choice, Quot.sound] -/
#guard_msgs in #print axioms postPoll_args
/-- info: 'Pm.Dev2.QEv.postPollEv_ok' depends on axioms: [propext, Classical.choice, Quot.sound] -/
#guard_msgs in #print axioms postPollEv_ok
/-- info: 'Pm.Dev2.QEv.mem_stmtEv' depends on axioms: [propext, Quot.sound] -/
#guard_msgs in #print axioms mem_stmtEv
end AxiomChecks
