import Pm.FrameDev
/-! Helper lemmas for C05: the regex oracle is consumed from the front.  If a piece of the pass, run on the answer list
    `l`, never finds the oracle out of step (no `rxMismatch` output), then run on `l ++ r` it behaves identically and
    hands back its own remainder followed by `r` untouched. -/
namespace Pm.Dev2

def isMis : Out → Bool | .rxMismatch _ _ => true | _ => false
/-- the oracle always had the answer to the question that was asked -/
def NoMis (l : List Out) : Prop := ∀ x ∈ l, isMis x = false
/-- the same oracle with further answers behind -/
def ext (o : Oracle) (r : List RxCall) : Oracle := { calls := o.calls ++ r }

theorem NoMis.left {l m : List Out} (h : NoMis (l ++ m)) : NoMis l := fun x hx => h x (by simp [hx])
theorem NoMis.right {l m : List Out} (h : NoMis (l ++ m)) : NoMis m := fun x hx => h x (by simp [hx])
theorem NoMis.of_subset {l m : List Out} (h : NoMis m) (hs : ∀ x ∈ l, x ∈ m) : NoMis l := fun x hx => h x (hs x hx)

theorem askRx_ext (o : Oracle) (pat : Nat) (s : Bytes) (r : List RxCall) (h : NoMis (askRx o pat s).2.2) :
    askRx (ext o r) pat s = (ext (askRx o pat s).1 r, (askRx o pat s).2.1, (askRx o pat s).2.2) := by
  unfold askRx ext at *
  cases hq : o.calls with
  | nil => simp [hq, NoMis, isMis] at h
  | cons c rest =>
    simp only [hq, List.cons_append] at h ⊢
    split <;> rfl

theorem pickState_mono (s : Bytes) (l : List (PState × Nat)) (o : Oracle) (errs : List Out) :
    ∀ x ∈ errs, x ∈ (pickState askRx s l o errs).2.2 := by
  induction l generalizing o errs with
  | nil => intro x hx; simpa [pickState] using hx
  | cons p rest ih =>
    obtain ⟨st, pat⟩ := p
    intro x hx
    unfold pickState
    dsimp only
    split
    · simp [hx]
    · exact ih _ _ x (by simp [hx])

theorem pickResult_mono (s : Bytes) (l : List (PResult × Nat)) (o : Oracle) (errs : List Out) :
    ∀ x ∈ errs, x ∈ (pickResult askRx s l o errs).2.2 := by
  induction l generalizing o errs with
  | nil => intro x hx; simpa [pickResult] using hx
  | cons p rest ih =>
    obtain ⟨st, pat⟩ := p
    intro x hx
    unfold pickResult
    dsimp only
    split
    · simp [hx]
    · exact ih _ _ x (by simp [hx])

theorem pickState_ext (s : Bytes) (l : List (PState × Nat)) (o : Oracle) (errs : List Out) (r : List RxCall)
    (h : NoMis (pickState askRx s l o errs).2.2) :
    pickState askRx s l (ext o r) errs =
      (ext (pickState askRx s l o errs).1 r, (pickState askRx s l o errs).2.1, (pickState askRx s l o errs).2.2) := by
  induction l generalizing o errs with
  | nil => simp [pickState]
  | cons p rest ih =>
    obtain ⟨st, pat⟩ := p
    have hm := pickState_mono s rest (askRx o pat s).1 (errs ++ (askRx o pat s).2.2)
    unfold pickState at h ⊢
    dsimp only at h ⊢
    have ha : NoMis (askRx o pat s).2.2 := by
      split at h
      · exact h.right
      · exact (h.of_subset hm).right
    rw [askRx_ext o pat s r ha]
    dsimp only
    split
    · rfl
    · rename_i hs
      simp only [hs] at h
      exact ih _ _ h

theorem pickResult_ext (s : Bytes) (l : List (PResult × Nat)) (o : Oracle) (errs : List Out) (r : List RxCall)
    (h : NoMis (pickResult askRx s l o errs).2.2) :
    pickResult askRx s l (ext o r) errs =
      (ext (pickResult askRx s l o errs).1 r, (pickResult askRx s l o errs).2.1, (pickResult askRx s l o errs).2.2) := by
  induction l generalizing o errs with
  | nil => simp [pickResult]
  | cons p rest ih =>
    obtain ⟨st, pat⟩ := p
    have hm := pickResult_mono s rest (askRx o pat s).1 (errs ++ (askRx o pat s).2.2)
    unfold pickResult at h ⊢
    dsimp only at h ⊢
    have ha : NoMis (askRx o pat s).2.2 := by
      split at h
      · exact h.right
      · exact (h.of_subset hm).right
    rw [askRx_ext o pat s r ha]
    dsimp only
    split
    · rfl
    · rename_i hs
      simp only [hs] at h
      exact ih _ _ h

/-- the step result with further answers behind its oracle -/
def StepR.ext (x : StepR) (r : List RxCall) : StepR := { x with oracle := Pm.Dev2.ext x.oracle r }

theorem stmtExpect_ext (d a o pat) (r : List RxCall) (h : NoMis (stmtExpect d a o pat).out) :
    stmtExpect d a (ext o r) pat = (stmtExpect d a o pat).ext r := by
  unfold stmtExpect at h ⊢
  dsimp only at h ⊢
  split
  · rfl
  · rename_i hne
    simp only [hne] at h
    have ha : NoMis (askRx o pat (d.fromBuf.map fun b => if b == 0 then 255 else b)).2.2 := by
      generalize askRx o pat _ = q at *
      obtain ⟨o1, ans, errs⟩ := q
      cases ans with
      | none => exact h
      | some offs => exact h.left
    rw [askRx_ext _ _ _ r ha]
    generalize askRx o pat _ = q at *
    obtain ⟨o1, ans, errs⟩ := q
    cases ans <;> rfl

theorem stmtSend_ext (d a o e fmt) (r : List RxCall) : stmtSend d a (ext o r) e fmt = (stmtSend d a o e fmt).ext r := by
  unfold stmtSend StepR.ext; grind
theorem stmtDelay_ext (d a o e now us) (r : List RxCall) : stmtDelay d a (ext o r) e now us = (stmtDelay d a o e now us).ext r := by
  unfold stmtDelay StepR.ext; grind
theorem stmtForeach_ext (d a o e b n) (r : List RxCall) : stmtForeach d a (ext o r) e b n = (stmtForeach d a o e b n).ext r := by
  unfold stmtForeach StepR.ext; grind
theorem stmtIf_ext (d a o e b n) (r : List RxCall) : stmtIf d a (ext o r) e b n = (stmtIf d a o e b n).ext r := by
  unfold stmtIf StepR.ext; grind

theorem stmtSetplugstate_ext (d a o e l p s i) (r : List RxCall) (h : NoMis (stmtSetplugstate d a o e l p s i).out) :
    stmtSetplugstate d a (ext o r) e l p s i = (stmtSetplugstate d a o e l p s i).ext r := by
  rw [stmtSetplugstate_eq] at h ⊢
  rw [stmtSetplugstate_eq]
  unfold stmtSetplugstate' at h ⊢
  split
  · rfl
  · rename_i s0 plug hs
    simp only [hs] at h
    dsimp only at h ⊢
    rw [pickState_ext _ _ _ _ r h]
    rfl

theorem stmtSetresult_ext (d a o p s i) (r : List RxCall) (h : NoMis (stmtSetresult d a o p s i).out) :
    stmtSetresult d a (ext o r) p s i = (stmtSetresult d a o p s i).ext r := by
  rw [stmtSetresult_eq] at h ⊢
  rw [stmtSetresult_eq]
  unfold stmtSetresult' at h ⊢
  split
  · rfl
  · rename_i s0 plug hs
    simp only [hs] at h
    dsimp only at h ⊢
    rw [pickResult_ext _ _ _ _ r h.left]
    rfl

theorem processStmt_ext (d : Dev) (a : Action) (o : Oracle) (now : Time) (r : List RxCall) (h : NoMis (processStmt d a o now).out) :
    processStmt d a (ext o r) now = (processStmt d a o now).ext r := by
  unfold processStmt at h ⊢
  dsimp only at h ⊢
  split
  · rfl
  all_goals first
    | exact stmtExpect_ext _ _ _ _ r (by simp_all)
    | exact stmtSend_ext ..
    | exact stmtDelay_ext ..
    | exact stmtSetplugstate_ext _ _ _ _ _ _ _ _ r (by simp_all)
    | exact stmtSetresult_ext _ _ _ _ _ _ r (by simp_all)
    | exact stmtForeach_ext ..
    | exact stmtIf_ext ..

theorem innerLoop_mono (now : Time) (fuel : Nat) (d : Dev) (a : Action) (o : Oracle) (acc : List Out) :
    ∀ x ∈ acc, x ∈ (innerLoop now fuel d a o acc).out := by
  induction fuel generalizing d a o acc with
  | zero => intro x hx; simp [innerLoop, hx]
  | succ n ih =>
    intro x hx
    unfold innerLoop; dsimp only; split
    · exact ih _ _ _ _ x (by simp [hx])
    · simp [hx]

theorem innerLoop_ext (now : Time) (fuel : Nat) (d : Dev) (a : Action) (o : Oracle) (acc : List Out) (r : List RxCall)
    (h : NoMis (innerLoop now fuel d a o acc).out) :
    innerLoop now fuel d a (ext o r) acc = (innerLoop now fuel d a o acc).ext r := by
  induction fuel generalizing d a o acc with
  | zero =>
    unfold innerLoop at h ⊢
    dsimp only at h ⊢
    rw [processStmt_ext _ _ _ _ r h.right]; rfl
  | succ n ih =>
    have hm := innerLoop_mono now n (processStmt d a o now).dev (processStmt d a o now).act (processStmt d a o now).oracle
      (acc ++ (processStmt d a o now).out)
    rw [innerLoop_succ] at h ⊢
    rw [innerLoop_succ]
    have hp : NoMis (processStmt d a o now).out := by
      unfold innerStep at h
      split at h
      · exact (h.of_subset hm).right
      · exact h.right
    rw [processStmt_ext _ _ _ _ r hp]
    generalize processStmt d a o now = q at *
    unfold innerStep at h ⊢
    by_cases hc : (q.finished && decide (q.act.exec.length > a.exec.length)) = true
    · have hc' : ((q.ext r).finished && decide ((q.ext r).act.exec.length > a.exec.length)) = true := hc
      rw [if_pos hc', if_pos hc]
      rw [if_pos hc] at h
      exact ih _ _ _ _ h
    · have hc' : ¬ ((q.ext r).finished && decide ((q.ext r).act.exec.length > a.exec.length)) = true := hc
      rw [if_neg hc', if_neg hc]
      rfl

/-! ### `_process_action` -/

def PA.ext (x : PA) (r : List RxCall) : PA := (x.1, Pm.Dev2.ext x.2.1 r, x.2.2.1, x.2.2.2)

theorem failAll_out (rest c a o out tmo) : ∃ fin, (failAll rest c a o out tmo).2.2.1 = out ++ fin := by
  unfold failAll; dsimp only; split <;> exact ⟨_, rfl⟩
theorem failAll_ext (rest c a o out tmo) (r : List RxCall) : failAll rest c a (ext o r) out tmo = (failAll rest c a o out tmo).ext r := by
  unfold failAll PA.ext; dsimp only; split <;> rfl

theorem onTimeout_out (rest c a o out tmo) : ∃ fin, (onTimeout rest c a o out tmo).2.2.1 = out ++ fin := by
  unfold onTimeout; dsimp only
  generalize (if a.telemetry = true then
      (if (c.dev.conn != 2) = true then [Out.telemetry a.clientId (str "connect(dev): timeout")]
       else teleMem a.clientId "recv(dev): '" c.dev.fromBuf) else []) = tele
  split
  · exact ⟨_, rfl⟩
  · obtain ⟨fin, h⟩ := failAll_out rest c { a with errnum := _ } o (out ++ _) tmo
    exact ⟨_, by rw [h, List.append_assoc]⟩
theorem onTimeout_ext (rest c a o out tmo) (r : List RxCall) : onTimeout rest c a (ext o r) out tmo = (onTimeout rest c a o out tmo).ext r := by
  unfold onTimeout; dsimp only
  generalize (if a.telemetry = true then
      (if (c.dev.conn != 2) = true then [Out.telemetry a.clientId (str "connect(dev): timeout")]
       else teleMem a.clientId "recv(dev): '" c.dev.fromBuf) else []) = tele
  split
  · rfl
  · exact failAll_ext ..

/-- outputs only accumulate -/
def OutMono (k : CS → Oracle → List Out → Option Time → PA) : Prop :=
  ∀ c o out tmo, ∀ x ∈ out, x ∈ (k c o out tmo).2.2.1
/-- `k` does not look at answers behind the ones it consumes, provided it is never out of step -/
def ExtOk (r : List RxCall) (k : CS → Oracle → List Out → Option Time → PA) : Prop :=
  ∀ c o out tmo, NoMis (k c o out tmo).2.2.1 → k c (ext o r) out tmo = (k c o out tmo).ext r

theorem onRunOk_mono (k rest c q out tmo) (hk : OutMono k) : ∀ x ∈ out, x ∈ (onRunOk k rest c q out tmo).2.2.1 := by
  intro x hx
  unfold onRunOk; dsimp only
  split
  · exact hk _ _ _ _ x (by simp [hx])
  · exact hk _ _ _ _ x hx

theorem onRunTail_mono (k rest c q out tmo left) (hk : OutMono k) : ∀ x ∈ out ++ q.out, x ∈ (onRunTail k rest c q out tmo left).2.2.1 := by
  intro x hx
  unfold onRunTail; dsimp only
  split
  · exact hx
  · split
    · exact hx
    · split
      · exact onRunOk_mono _ _ _ _ _ _ hk x hx
      · obtain ⟨fin, h⟩ := failAll_out rest { c with dev := q.dev } q.act q.oracle (out ++ q.out) tmo
        rw [h]; simp only [List.mem_append] at hx ⊢; exact Or.inl hx

theorem onRun_mono (k rest c a o out tmo left) (hk : OutMono k) : ∀ x ∈ out, x ∈ (onRun k rest c a o out tmo left).2.2.1 := by
  intro x hx
  rw [onRun_eq]
  exact onRunTail_mono _ _ _ _ _ _ _ hk x (by simp [hx])

theorem onRunOk_ext (k rest c q out tmo) (r : List RxCall) (hk : ExtOk r k) (h : NoMis (onRunOk k rest c q out tmo).2.2.1) :
    onRunOk k rest c (q.ext r) out tmo = (onRunOk k rest c q out tmo).ext r := by
  unfold onRunOk at h ⊢; dsimp only at h ⊢
  by_cases hc : (advance q.act).exec.isEmpty = true
  · have hc' : (advance (q.ext r).act).exec.isEmpty = true := hc
    rw [if_pos hc', if_pos hc]; rw [if_pos hc] at h
    exact hk _ _ _ _ h
  · have hc' : ¬ (advance (q.ext r).act).exec.isEmpty = true := hc
    rw [if_neg hc', if_neg hc]; rw [if_neg hc] at h
    exact hk _ _ _ _ h

theorem onRunTail_ext (k rest c q out tmo left) (r : List RxCall) (hk : ExtOk r k) (h : NoMis (onRunTail k rest c q out tmo left).2.2.1) :
    onRunTail k rest c (q.ext r) out tmo left = (onRunTail k rest c q out tmo left).ext r := by
  unfold onRunTail at h ⊢; dsimp only at h ⊢
  by_cases h1 : hasAbort q.out = true
  · have h1' : hasAbort (q.ext r).out = true := h1
    rw [if_pos h1', if_pos h1]; rfl
  · have h1' : ¬ hasAbort (q.ext r).out = true := h1
    rw [if_neg h1', if_neg h1]; rw [if_neg h1] at h
    by_cases h2 : (!q.finished) = true
    · have h2' : (!(q.ext r).finished) = true := h2
      rw [if_pos h2', if_pos h2]; rfl
    · have h2' : ¬ (!(q.ext r).finished) = true := h2
      rw [if_neg h2', if_neg h2]; rw [if_neg h2] at h
      by_cases h3 : (q.act.errnum == ActErr.success) = true
      · have h3' : ((q.ext r).act.errnum == ActErr.success) = true := h3
        rw [if_pos h3', if_pos h3]; rw [if_pos h3] at h
        exact onRunOk_ext _ _ _ _ _ _ r hk h
      · have h3' : ¬ ((q.ext r).act.errnum == ActErr.success) = true := h3
        rw [if_neg h3', if_neg h3]
        exact failAll_ext ..

theorem onRun_ext (k rest c a o out tmo left) (r : List RxCall) (hm : OutMono k) (hk : ExtOk r k)
    (h : NoMis (onRun k rest c a o out tmo left).2.2.1) :
    onRun k rest c a (ext o r) out tmo left = (onRun k rest c a o out tmo left).ext r := by
  rw [onRun_eq] at h ⊢
  rw [onRun_eq]
  have hq : NoMis (innerLoop c.env.now (loopBound a) { c.dev with wake := none } a o []).out :=
    (h.of_subset (onRunTail_mono _ _ _ _ _ _ _ hm)).right
  rw [innerLoop_ext _ _ _ _ _ _ r hq]
  exact onRunTail_ext _ _ _ _ _ _ _ r hk h

theorem processActionF_mono (fuel : Nat) : OutMono (processActionF fuel) := by
  induction fuel with
  | zero => intro c o out tmo x hx; simp [processActionF, hx]
  | succ n ih =>
    intro c o out tmo x hx
    unfold processActionF processActionBody
    split
    · exact hx
    · split
      · exact hx
      · dsimp only
        split
        · obtain ⟨fin, h⟩ := onTimeout_out _ c (stamp c.env.now _) o out tmo
          rw [h]; simp [hx]
        · split
          · exact hx
          · exact onRun_mono _ _ _ _ _ _ _ _ ih x hx

/-- `_process_action` does not look behind the answers it consumes -/
theorem processActionF_ext (r : List RxCall) (fuel : Nat) : ExtOk r (processActionF fuel) := by
  induction fuel with
  | zero => intro c o out tmo _; rfl
  | succ n ih =>
    intro c o out tmo h
    unfold processActionF processActionBody at h ⊢
    split
    · rfl
    · rename_i h0
      split
      · rfl
      · rename_i a0 rest hq
        dsimp only at h ⊢
        split
        · exact onTimeout_ext ..
        · split
          · rfl
          · rename_i h1 h2
            simp only [hq, h0, h1, h2] at h
            exact onRun_ext _ _ _ _ _ _ _ _ r (processActionF_mono n) ih (by simpa using h)

/-- **one device's share of `dev_post_poll` consumes oracle answers from the front only**: if, run on the answers `o`, it
    is never out of step with the oracle, then with any further answers `r` behind them it does exactly the same and
    leaves `r` behind its own remainder -/
theorem postPoll_ext (d : Dev) (env : Env) (o : Oracle) (r : List RxCall) (h : NoMis (postPoll d env o).2.2.1) :
    postPoll d env (ext o r) = PA.ext (postPoll d env o) r := by
  rw [postPoll_eq] at h ⊢
  rw [postPoll_eq]
  unfold postPoll' at h ⊢
  dsimp only at h ⊢
  split
  · rfl
  · rename_i h0
    simp only [h0] at h
    unfold processAction at h ⊢
    exact processActionF_ext r _ _ _ _ _ h


end Pm.Dev2
