import Pm.QueryCell
import Pm.RunXE2E
/-! # The writes of a run, and what a query's arglist holds when its reply is built (daemon level; used by `Props/C03`)

* `devStepEv`, `devPassEv`, `foldEv`, `passEv`, `runEvX`: the write events (`Pm/QueryEv.lean`) of one device's turn, of the
  device phase of a pass, of a run — each a function of exactly the arguments of the corresponding model function, each
  event stamped with the name of the device whose turn produced it; the store after is the store before with these
  writes applied in order (`devPass_store`, `daemonPass_store`), and for one arglist only the writes to that arglist
  count (`daemonPass_cell`, `runX_cell`).
* `PassX`, `runX`: a run in which every pass brings its own recorded `regexec` answers — the shared definition of
  `Pm/RunX.lean`.  (`Isolation.runPasses` cannot: the answers are the field `pendingX` of the world, `daemonPass` clears it,
  and the driver refills it between passes — so in `runPasses w ps` every pass but the first sees "no match" for every
  `expect`.  `runX w (ps.map (⟨·, []⟩)) = runPasses w ps`.)  The run-level lemmas of `Pm/EndToEnd.lean` for `runX`
  (`AliveX`, `runFinsX`, `runX_inv`, `run_trackX`, `run_answerX`, …) are in `Pm/RunXE2E.lean` (namespace `E2E`).
* `cliPostPoll_fresh_cells`: a command accepted in the client phase of a pass starts from a fresh arglist. -/
namespace Pm.Daemon.QRun
open Pm Pm.Client Pm.Daemon
open Pm.Daemon.Reply (cliOf withStore entriesOf freshArgs distinctOf ByteName)
open Pm.Daemon.Isolation (Iso IdsFresh ArgScope worldAt ids Keys)
open Pm.Daemon.E2E
open Pm.Dev2 (Dev Action ActErr Oracle cell RxCall Plug)
open Pm.Dev2.QEv

/-! ## A. the writes of the device phase -/

/-- the writes of device `nd`'s own share of `dev_post_poll`, stamped with the device's name -/
def devStepEv (p : PassIn) (w : W) (o : Oracle) (nd : Bytes × Dev) : List WEv :=
  (postPollEv { nd.2 with args := w.store } (devEnv p w nd) o).map fun ev => { ev with dev := nd.1 }

/-- the writes of device `nd`'s turn; none once the pass is dead -/
def devPassEv (p : PassIn) (a : DevAcc) (nd : Bytes × Dev) : List WEv := if a.dead then [] else devStepEv p a.w a.oracle nd

theorem devStep_store (p : PassIn) (w : W) (o : Oracle) (nd : Bytes × Dev) :
    (devStep p w o nd).1.dev.args = (devStepEv p w o nd).foldl applyStore w.store := by
  unfold devStep devStepEv
  rw [postPoll_args, foldl_applyStore_dev]

/-- **the store after one device's turn is the store before with the turn's writes applied in order** -/
theorem devPass_store (p : PassIn) (a : DevAcc) (nd : Bytes × Dev) :
    (devPass p a nd).w.store = (devPassEv p a nd).foldl applyStore a.w.store := by
  unfold devPassEv
  cases hd : a.dead with
  | true => rw [devPass_dead _ _ _ hd]; rfl
  | false =>
    rw [devPass_store_eq _ _ _ hd, devStep_store]
    rfl

/-- the writes of the device phase, device by device in configuration order -/
def foldEv (p : PassIn) : DevAcc → List (Bytes × Dev) → List WEv
  | _, [] => []
  | a, nd :: r => devPassEv p a nd ++ foldEv p (devPass p a nd) r

theorem foldl_devPass_store (p : PassIn) (l : List (Bytes × Dev)) (a : DevAcc) :
    (l.foldl (devPass p) a).w.store = (foldEv p a l).foldl applyStore a.w.store := by
  induction l generalizing a with
  | nil => rfl
  | cons nd r ih => rw [List.foldl_cons, ih, foldEv, List.foldl_append, devPass_store]

/-- the writes of a pass (all in its device phase: the client phase writes no cell, it only opens fresh arglists) -/
def passEv (w : W) (p : PassIn) : List WEv :=
  if (cliPostPoll w p.acc p.envs).exited then []
  else foldEv p (acc0 (cliPostPoll w p.acc p.envs)) (cliPostPoll w p.acc p.envs).devs

/-- **the store after a pass is the store the client phase left with the writes of the device phase applied in order** -/
theorem daemonPass_store (w : W) (p : PassIn) :
    (daemonPass w p).1.store = (passEv w p).foldl applyStore (cliPostPoll w p.acc p.envs).store := by
  rw [daemonPass_fst]
  unfold passEv
  dsimp only
  split
  · rfl
  · exact foldl_devPass_store p _ _

/-! ## B. the client phase: arglists already opened are not touched -/

theorem cliAccept_store (w : W) (acc : Nat) : (ClientPf.cliAccept w acc).store = w.store ∧ (ClientPf.cliAccept w acc).alNext = w.alNext := by
  unfold ClientPf.cliAccept
  split
  · exact ⟨rfl, rfl⟩
  · split <;> exact ⟨rfl, rfl⟩

/-- one turn of the loop of `cli_post_poll`: the store is what it was, or one fresh arglist was opened under the id `alNext` -/
theorem cliStep_store (envs : List FdEnv) (w : W) (c0 : Cli) :
    ((ClientPf.cliStep envs w c0).store = w.store ∧ (ClientPf.cliStep envs w c0).alNext = w.alNext) ∨
    (∃ args, (ClientPf.cliStep envs w c0).store = (w.alNext, args) :: w.store ∧ (ClientPf.cliStep envs w c0).alNext = w.alNext + 1) := by
  rcases Isolation.cliStep_cases envs w c0 with ⟨_, e⟩ | ⟨_, ext, hp, ⟨c, hc, e⟩ | ⟨hn, e⟩⟩
  · rw [e]; exact Or.inl ⟨rfl, rfl⟩
  · rw [e]
    rcases (hp.alive c hc).2.2.2.1 with ⟨_, a2, a3, _⟩ | ⟨_, _, args, _, _, _, _, _, b3, b4, _⟩
    · exact Or.inl ⟨a2, a3⟩
    · exact Or.inr ⟨args, b4, b3⟩
  · rw [e]
    exact Or.inl ⟨(hp.gone hn).2.1, (hp.gone hn).2.2.1⟩

theorem lookup_cons_ne {s : List (Nat × List Pm.Dev2.Arg)} {A id : Nat} {args : List Pm.Dev2.Arg} (h : A ≠ id) : ((id, args) :: s).lookup A = s.lookup A := by
  have : (A == id) = false := by simp [h]
  rw [List.lookup_cons, this]

theorem cliStep_lookup (envs : List FdEnv) (w : W) (c0 : Cli) (A : Nat) (hA : A < w.alNext) :
    (ClientPf.cliStep envs w c0).store.lookup A = w.store.lookup A ∧ A < (ClientPf.cliStep envs w c0).alNext := by
  rcases cliStep_store envs w c0 with ⟨h1, h2⟩ | ⟨args, h1, h2⟩
  · rw [h1, h2]; exact ⟨rfl, hA⟩
  · rw [h1, h2]; exact ⟨lookup_cons_ne (by omega), by omega⟩

/-- **the client phase leaves every arglist that exists alone** -/
theorem cliPostPoll_lookup (w : W) (acc : Nat) (envs : List FdEnv) (A : Nat) (h : Inv w) (hA : A < w.alNext) :
    (cliPostPoll w acc envs).store.lookup A = w.store.lookup A ∧ A < (cliPostPoll w acc envs).alNext := by
  refine cliPostPoll_gen w acc envs (fun x => x.store.lookup A = w.store.lookup A ∧ A < x.alNext) h ?_ ?_
  · obtain ⟨h1, h2⟩ := cliAccept_store { w with sys := [], caps := envs.map fun (e : FdEnv) => (e.fd, e.cap) } acc
    rw [h1, h2]; exact ⟨rfl, hA⟩
  · intro x c0 _ hx _
    obtain ⟨h1, h2⟩ := cliStep_lookup envs x c0 A hx.2
    exact ⟨h1.trans hx.1, h2⟩

/-- the arglist `A` as it stands in the store -/
theorem storeArgs_eq_cell (w : W) (A : Nat) : storeArgs w A = cell w.store A := rfl

/-- **one pass, one arglist**: an arglist that exists when the pass begins is, after the pass, what it was with the
    writes of the pass *to that arglist* applied in order -/
theorem daemonPass_cell (w : W) (p : PassIn) (A : Nat) (h : Inv w) (hA : A < w.alNext) :
    storeArgs (daemonPass w p).1 A = ((passEv w p).filter fun ev => ev.al == A).foldl applyEv (storeArgs w A) := by
  rw [storeArgs_eq_cell, storeArgs_eq_cell, daemonPass_store, cell_foldl_applyStore]
  unfold cell
  rw [(cliPostPoll_lookup w p.acc p.envs A h hA).1]

/-- the same from the middle of the pass: from the store the client phase left -/
theorem devPhase_cell (w : W) (p : PassIn) (A : Nat) :
    storeArgs (daemonPass w p).1 A = ((passEv w p).filter fun ev => ev.al == A).foldl applyEv (storeArgs (cliPostPoll w p.acc p.envs) A) := by
  rw [storeArgs_eq_cell, storeArgs_eq_cell, daemonPass_store, cell_foldl_applyStore]

/-! ## C. runs in which every pass brings its regex answers -/

/- `PassX`, `feed`, `stepX`, `runX` (+ `runX_cons`, `runX_append`, `feed_nil`) are the shared definitions of `Pm/RunX.lean`;
   `runX_runPasses`, `feed_inv`, `AliveX`, `runFinsX`, `runX_inv`, `runX_alNext`, `runX_over`, `run_trackX`, `run_answerX` are in
   `Pm/RunXE2E.lean` (namespace `Pm.Daemon.E2E`). -/

/-- the writes of a run, in order -/
def runEvX : W → List PassX → List WEv
  | _, [] => []
  | w, q :: qs => passEv (feed w q.rx) q.p ++ runEvX (stepX w q) qs

theorem runEvX_append (w : W) (qs rs : List PassX) : runEvX w (qs ++ rs) = runEvX w qs ++ runEvX (runX w qs) rs := by
  induction qs generalizing w with
  | nil => rfl
  | cons q qs ih => rw [List.cons_append, runEvX, runEvX, ih, runX_cons, List.append_assoc]

/-- **a run, one arglist**: an arglist that exists at the start of a run (none of whose passes ends in an assertion) is,
    after the run, what it was with the writes of the run to that arglist applied in order -/
theorem runX_cell (w : W) (qs : List PassX) (A : Nat) (h : Inv w) (ha : AliveX w qs) (hA : A < w.alNext) :
    storeArgs (runX w qs) A = ((runEvX w qs).filter fun ev => ev.al == A).foldl applyEv (storeArgs w A) := by
  induction qs generalizing w with
  | nil => rfl
  | cons q qs ih =>
    rw [runX_cons, ih _ (stepX_inv w q h ha.1) ha.2 (Nat.lt_of_lt_of_le hA (stepX_alNext w q h)), runEvX, List.filter_append,
      List.foldl_append]
    congr 1
    exact daemonPass_cell (feed w q.rx) q.p A (feed_inv q.rx h) hA

/-! ## D. a command accepted in the client phase starts from a fresh arglist -/

/-- what a stage of one client's share of `cli_post_poll` does to the arglist store and to the client's command: nothing;
    or — only when the client had no command — one accepted request, whose arglist is opened *fresh for its own target
    list* (`arglist_create`) under the id `alNext` -/
def Opens (w w' : W) (cmd cmd' : Option CmdC) : Prop :=
  (w'.store = w.store ∧ w'.alNext = w.alNext ∧ cmd' = cmd) ∨
  (cmd = none ∧ ∃ k, cmd' = some k ∧ k.al = w.alNext ∧ w'.alNext = w.alNext + 1 ∧
    w'.store = (w.alNext, freshArgs (k.names.map ofChars)) :: w.store)

theorem Opens.refl (w : W) (cmd : Option CmdC) : Opens w w cmd cmd := Or.inl ⟨rfl, rfl, rfl⟩

theorem Opens.trans {a b c : W} {x y z : Option CmdC} (h1 : Opens a b x y) (h2 : Opens b c y z) : Opens a c x z := by
  rcases h1 with ⟨a1, a2, a3⟩ | ⟨hn, k, b1, b2, b3, b4⟩
  · rcases h2 with ⟨c1, c2, c3⟩ | ⟨hn', k, d1, d2, d3, d4⟩
    · exact Or.inl ⟨c1.trans a1, c2.trans a2, c3.trans a3⟩
    · exact Or.inr ⟨a3 ▸ hn', k, d1, by rw [d2, a2], by rw [d3, a2], by rw [d4, a2, a1]⟩
  · rcases h2 with ⟨c1, c2, c3⟩ | ⟨hn', _⟩
    · exact Or.inr ⟨hn, k, c3.trans b1, b2, c2.trans b3, c1.trans b4⟩
    · rw [b1] at hn'; cases hn'

theorem enq_same_cmd {cid : Nat} {w w' : W} {cmd cmd' : Option CmdC} (h : Isolation.Enq cid w w' cmd cmd') (hc : cmd' = cmd) :
    w'.store = w.store ∧ w'.alNext = w.alNext := by
  rcases h with ⟨_, a2, a3, _⟩ | ⟨hn, k, _, _, _, _, hk, _⟩
  · exact ⟨a2, a3⟩
  · rw [hc, hn] at hk; cases hk

theorem install_opens (w : W) (c : Cli) (com : Com) (names : List Name) (hidle : c.cmd = none) :
    Opens w (install w c com names).1 c.cmd (install w c com names).2.cmd := by
  rw [Reply.install_eq]
  split
  · exact Or.inl ⟨rfl, rfl, rfl⟩
  · dsimp only
    split
    · exact Or.inl ⟨rfl, rfl, rfl⟩
    · exact Or.inr ⟨hidle, _, rfl, rfl, rfl, rfl⟩

theorem parseLine_opens (w : W) (c : Cli) (line : Bytes) : Opens w (parseLine w c line).1 c.cmd (parseLine w c line).2.cmd := by
  rcases Enq.parseLine_cases' w c line with ⟨_, h2⟩ | ⟨com, names, h, hidle, _⟩
  · obtain ⟨e1, e2⟩ := enq_same_cmd (Isolation.parseLine_enq w c line) h2
    exact Or.inl ⟨e1, e2, h2⟩
  · rw [h]; exact install_opens w c com names hidle

theorem runLines_opens : ∀ (ls : List Bytes) (w : W) (c : Cli),
    Opens w (ClientPf.runLines w c ls).1 c.cmd (ClientPf.runLines w c ls).2.cmd := by
  intro ls
  induction ls with
  | nil => intro w c; exact Opens.refl _ _
  | cons l ls ih =>
    intro w c
    unfold ClientPf.runLines
    split
    · exact Opens.refl _ _
    · have h1 := parseLine_opens w { c with fromBuf := c.fromBuf.drop l.length } l
      exact h1.trans (ih _ _)

theorem handleInput_opens (w : W) (c : Cli) : Opens w (handleInput w c).1 c.cmd (handleInput w c).2.cmd := by
  rw [ClientPf.handleInput_lines]; exact runLines_opens _ w c

/-- **one client's whole share of `cli_post_poll`**, when the client survives it -/
theorem clientPass_opens (w : W) (c : Cli) (e : Option FdEnv) (c' : Cli) (h : (clientPass w c e).2 = some c') :
    Opens w (clientPass w c e).1 c.cmd c'.cmd := by
  rw [ClientPf.clientPass_eq] at h ⊢
  unfold ClientPf.clientPass' at h ⊢
  dsimp only at h ⊢
  split at h
  · simp [ClientPf.cpDead] at h
  · rename_i hdead
    rw [if_neg hdead]
    obtain ⟨g1, g2⟩ : Opens w (if (ClientPf.cpRev c e &&& 1 != 0 || ClientPf.cpRev c e &&& 4 != 0) = true then ClientPf.cpRead w (clipC c e) (clipE c e) else (w, c)).1
          c.cmd (if (ClientPf.cpRev c e &&& 1 != 0 || ClientPf.cpRev c e &&& 4 != 0) = true then ClientPf.cpRead w (clipC c e) (clipE c e) else (w, c)).2.cmd ∧ True := by
      refine ⟨?_, trivial⟩
      split
      · obtain ⟨_, a2, _⟩ := cpRead_same w (clipC c e) (clipE c e)
        obtain ⟨ext, hiso, _⟩ := Isolation.cpRead_iso w (clipC c e) (clipE c e)
        obtain ⟨e1, e2⟩ := enq_same_cmd hiso.enq a2
        exact Or.inl ⟨e1, e2, a2.trans (clipC_cmd c e)⟩
      · exact Opens.refl _ _
    generalize (if (ClientPf.cpRev c e &&& 1 != 0 || ClientPf.cpRev c e &&& 4 != 0) = true then ClientPf.cpRead w (clipC c e) (clipE c e) else (w, c)) = r1 at *
    have k1 : Opens w (if (ClientPf.cpRev c e &&& 2 != 0) = true then handleWrite r1.1 r1.2 else r1).1 c.cmd
        (if (ClientPf.cpRev c e &&& 2 != 0) = true then handleWrite r1.1 r1.2 else r1).2.cmd := by
      split
      · obtain ⟨ext, hiso⟩ := Isolation.handleWrite_iso r1.1 r1.2
        obtain ⟨e1, e2⟩ := enq_same_cmd hiso.enq (Enq.handleWrite_cmd _ _)
        exact g1.trans (Or.inl ⟨e1, e2, Enq.handleWrite_cmd _ _⟩)
      · exact g1
    generalize (if (ClientPf.cpRev c e &&& 2 != 0) = true then handleWrite r1.1 r1.2 else r1) = r2 at *
    have h3 := handleInput_opens r2.1 r2.2
    have hc' := Isolation.cpTail_some _ c' h
    have hw : (ClientPf.cpTail (handleInput r2.1 r2.2)).1 = (handleInput r2.1 r2.2).1 := by
      unfold ClientPf.cpTail at h ⊢
      split
      · rfl
      · split
        · rename_i hq; rw [if_neg (by assumption), if_pos hq] at h; simp [ClientPf.cpDead] at h
        · rfl
    rw [hw, hc']
    exact k1.trans h3

/-- one turn of the loop of `cli_post_poll`, seen from client `g`: the arglist of `g`'s command is fresh if the command
    was accepted in this turn, and untouched if it was there before -/
theorem cliStep_fresh_cells (envs : List FdEnv) (g : Nat) (lo : Nat) (w : W) (c0 : Cli) (hI : Inv w) (hc0 : c0 ∈ w.clients)
    (hlo : lo ≤ w.alNext)
    (h : ∀ c k, cliRec w g = some c → c.cmd = some k → storeArgs w k.al = freshArgs (k.names.map ofChars) ∧ lo ≤ k.al) :
    lo ≤ (ClientPf.cliStep envs w c0).alNext ∧
    ∀ c k, cliRec (ClientPf.cliStep envs w c0) g = some c → c.cmd = some k →
      storeArgs (ClientPf.cliStep envs w c0) k.al = freshArgs (k.names.map ofChars) ∧ lo ≤ k.al := by
  refine ⟨Nat.le_trans hlo (cliStep_alNext envs w c0), ?_⟩
  intro c k hc hk
  by_cases hg : g = c0.id
  · subst hg
    have hrec0 : cliRec w c0.id = some c0 := hI.1.1.cliRec_of_mem hc0
    rcases Isolation.cliStep_cases envs w c0 with ⟨_, e⟩ | ⟨_, ext, hp, ⟨c1, hc1, e⟩ | ⟨hn, e⟩⟩
    · rw [e] at hc ⊢; exact h c k hc hk
    · have hid := (hp.alive c1 hc1).1
      have hself : cliRec (ClientPf.cliStep envs w c0) c0.id = some c1 := by
        rw [e]; exact Isolation.find_map_replace_self w.clients c0.id c1 c0 hid hrec0
      rw [hself] at hc; cases hc
      have hst : (ClientPf.cliStep envs w c0).store = (clientPass w c0 (envs.find? (·.fd == c0.fd))).1.store := by rw [e]
      unfold storeArgs
      rw [hst]
      rcases clientPass_opens w c0 _ c hc1 with ⟨a1, _, a3⟩ | ⟨_, k', b1, b2, _, b4⟩
      · rw [a1]; exact h c0 k hrec0 (a3 ▸ hk)
      · rw [b1] at hk; cases hk
        rw [b4, b2]
        simp only [List.lookup_cons, beq_self_eq_true, Option.getD_some]
        exact ⟨trivial, hlo⟩
    · rw [e] at hc
      have : (w.clients.filter fun x => x.id != c0.id).find? (·.id == c0.id) = some c := hc
      rw [Isolation.find_filter_self] at this; cases this
  · rw [Isolation.cliStep_other envs w c0 g hg] at hc
    obtain ⟨h1, h2⟩ := h c k hc hk
    refine ⟨?_, h2⟩
    unfold storeArgs
    rw [(cliStep_lookup envs w c0 k.al (hI.1.2.cmds g c k hc hk)).1]
    exact h1

/-- **a command accepted in this pass starts from nothing**: if client `g` has no command (or is not there yet) when the
    pass begins, then whatever command `k` it has when the client phase is over has an arglist id not yet handed out when the
    pass began, and that arglist holds exactly `freshArgs` of `k`'s own target list — one element per distinct target,
    state unknown, no result, no value -/
theorem cliPostPoll_fresh_cells (w : W) (acc : Nat) (envs : List FdEnv) (g : Nat) (h : Inv w)
    (hidle : ∀ c k, cliRec w g = some c → c.cmd = some k → False) :
    ∀ c k, cliRec (cliPostPoll w acc envs) g = some c → c.cmd = some k →
      storeArgs (cliPostPoll w acc envs) k.al = freshArgs (k.names.map ofChars) ∧ w.alNext ≤ k.al := by
  have := cliPostPoll_gen w acc envs (fun x => w.alNext ≤ x.alNext ∧ ∀ c k, cliRec x g = some c → c.cmd = some k →
      storeArgs x k.al = freshArgs (k.names.map ofChars) ∧ w.alNext ≤ k.al) h ?_ ?_
  · exact this.2
  · refine ⟨by rw [(cliAccept_store _ acc).2]; exact Nat.le_refl _, ?_⟩
    intro c k hc hk
    exfalso
    unfold ClientPf.cliAccept at hc
    split at hc
    · have hc : (w.clients ++ [ClientPf.newClient w]).find? (·.id == g) = some c := hc
      exact hidle c k (Isolation.cliRec_append_new w.clients (ClientPf.newClient w) g c k rfl hc hk) hk
    · split at hc <;> exact hidle c k hc hk
  · intro x c0 hI hx hc0
    exact cliStep_fresh_cells envs g w.alNext x c0 hI hc0 hx.1 hx.2

/-! ## F. where the writes of a run come from -/

/-- the static part of the device table: names and plug lists (no pass changes it) -/
def plugsOf (devs : List (Bytes × Dev)) : List (Bytes × List Plug) := devs.map fun nd => (nd.1, nd.2.plugs)

/-- the event was produced by the turn of a device of the table `cfg` (it carries that device's name), by a
    `setplugstate` / `setresult` statement executed in a state of that device (its own plug list) for an action whose
    client id and arglist id satisfy `S` -/
def EvAt (cfg : List (Bytes × List Plug)) (S : Nat → Nat → Prop) (ev : WEv) : Prop :=
  ∃ x ∈ cfg, ev.dev = x.1 ∧ EvOK x.2 S { ev with dev := [] }

theorem stmtEv_dev_nil {d : Dev} {a : Action} {o : Oracle} {ev : WEv} (h : ev ∈ stmtEv d a o) : { ev with dev := [] } = ev := by
  have := (mem_stmtEv h).2.2.2.2.1
  cases ev
  simp_all

theorem devStepEv_at (S : Nat → Nat → Prop) (h0 : S 0 0) (p : PassIn) (w : W) (o : Oracle) (nd : Bytes × Dev)
    (hk : Keys S nd.2.acts) : ∀ ev ∈ devStepEv p w o nd, ev.dev = nd.1 ∧ EvOK nd.2.plugs S { ev with dev := [] } := by
  intro ev hev
  unfold devStepEv at hev
  obtain ⟨ev0, h0', rfl⟩ := List.mem_map.mp hev
  refine ⟨rfl, ?_⟩
  obtain ⟨d, a, o', hp, hs, hm⟩ := postPollEv_ok S h0 { nd.2 with args := w.store } (devEnv p w nd) o hk ev0 h0'
  refine ⟨d, a, o', hp, hs, ?_⟩
  have := stmtEv_dev_nil hm
  rw [show ({ ({ ev0 with dev := nd.1 } : WEv) with dev := [] } : WEv) = { ev0 with dev := [] } from rfl, this]
  exact hm

theorem foldEv_at (S : Nat → Nat → Prop) (h0 : S 0 0) (p : PassIn) : ∀ (l : List (Bytes × Dev)) (a : DevAcc),
    (∀ nd ∈ l, Keys S nd.2.acts) → ∀ ev ∈ foldEv p a l, EvAt (plugsOf l) S ev := by
  intro l
  induction l with
  | nil => intro a _ ev hev; cases hev
  | cons nd r ih =>
    intro a hk ev hev
    rw [foldEv] at hev
    rcases List.mem_append.mp hev with h | h
    · unfold devPassEv at h
      split at h
      · cases h
      · obtain ⟨h1, h2⟩ := devStepEv_at S h0 p a.w a.oracle nd (hk nd (by simp)) ev h
        exact ⟨(nd.1, nd.2.plugs), by simp [plugsOf], h1, h2⟩
    · obtain ⟨x, hx, h1, h2⟩ := ih (devPass p a nd) (fun y hy => hk y (by simp [hy])) ev h
      exact ⟨x, by simp only [plugsOf, List.map_cons, List.mem_cons]; exact Or.inr hx, h1, h2⟩

/-- the writes of a pass come from the queues as the client phase left them -/
theorem passEv_at (S : Nat → Nat → Prop) (h0 : S 0 0) (w : W) (p : PassIn)
    (hk : ∀ nd ∈ (cliPostPoll w p.acc p.envs).devs, Keys S nd.2.acts) :
    ∀ ev ∈ passEv w p, EvAt (plugsOf (cliPostPoll w p.acc p.envs).devs) S ev := by
  intro ev hev
  unfold passEv at hev
  split at hev
  · cases hev
  · exact foldEv_at S h0 p _ _ hk ev hev

/-! ### the static part does not change -/

theorem cliAccept_devs (w : W) (acc : Nat) : (ClientPf.cliAccept w acc).devs = w.devs := by
  unfold ClientPf.cliAccept
  split
  · rfl
  · split <;> rfl

/-- one turn of the loop of `cli_post_poll`: the queues are what they were, or every device went through `installDev` for a
    request of the client served, stamped with the arglist id `alNext` -/
theorem cliStep_devs (envs : List FdEnv) (w : W) (c0 : Cli) :
    (ClientPf.cliStep envs w c0).devs = w.devs ∨
    ∃ com bn tele, (ClientPf.cliStep envs w c0).devs = w.devs.map (Enq.installDev com bn c0.id tele w.alNext) := by
  rcases Isolation.cliStep_cases envs w c0 with ⟨_, e⟩ | ⟨_, ext, hp, ⟨c, hc, e⟩ | ⟨hn, e⟩⟩
  · rw [e]; exact Or.inl rfl
  · rw [e]
    rcases (hp.alive c hc).2.2.2.1 with ⟨a1, _⟩ | ⟨_, _, _, com, bn, tele, _, _, _, _, b5⟩
    · exact Or.inl a1
    · exact Or.inr ⟨com, bn, tele, b5⟩
  · rw [e]; exact Or.inl (hp.gone hn).1

theorem plugsOf_installDev (com : Nat) (bn : List Bytes) (cid : Nat) (tele : Bool) (al : Nat) (devs : List (Bytes × Dev)) :
    plugsOf (devs.map (Enq.installDev com bn cid tele al)) = plugsOf devs := by
  unfold plugsOf
  rw [List.map_map]
  apply List.map_congr_left
  intro nd _
  simp only [Function.comp_apply]
  rw [(Enq.installDev_spec com bn cid tele al nd).1]
  rfl

theorem cliStep_plugsOf (envs : List FdEnv) (w : W) (c0 : Cli) : plugsOf (ClientPf.cliStep envs w c0).devs = plugsOf w.devs := by
  rcases cliStep_devs envs w c0 with h | ⟨com, bn, tele, h⟩
  · rw [h]
  · rw [h, plugsOf_installDev]

theorem cliPostPoll_plugsOf (w : W) (acc : Nat) (envs : List FdEnv) (h : Inv w) :
    plugsOf (cliPostPoll w acc envs).devs = plugsOf w.devs := by
  refine cliPostPoll_gen w acc envs (fun x => plugsOf x.devs = plugsOf w.devs) h ?_ ?_
  · rw [cliAccept_devs]
  · intro x c0 _ hx _
    exact (cliStep_plugsOf envs x c0).trans hx

theorem stepped_plugsOf (p : PassIn) (a : DevAcc) (nd : Bytes × Dev) :
    ((stepped p a nd).1, (stepped p a nd).2.plugs) = (nd.1, nd.2.plugs) := by
  obtain ⟨d', h1, h2, _⟩ := devPass_devs p a nd
  rw [devPass_devs_eq] at h1
  have := List.append_cancel_left h1
  simp only [List.cons.injEq, and_true] at this
  rw [this]
  simp [h2]

theorem foldl_devPass_plugsOf (p : PassIn) (l : List (Bytes × Dev)) (a : DevAcc) :
    plugsOf (l.foldl (devPass p) a).devs = plugsOf a.devs ++ plugsOf l := by
  induction l generalizing a with
  | nil => simp [plugsOf]
  | cons nd r ih =>
    rw [List.foldl_cons, ih, devPass_devs_eq]
    simp only [plugsOf, List.map_append, List.map_cons, List.map_nil, List.append_assoc, List.cons_append, List.nil_append]
    rw [stepped_plugsOf]

/-- **no pass changes the names and plug lists of the devices** -/
theorem daemonPass_plugsOf (w : W) (p : PassIn) (h : Inv w) : plugsOf (daemonPass w p).1.devs = plugsOf w.devs := by
  rw [daemonPass_fst]
  dsimp only
  split
  · exact cliPostPoll_plugsOf w p.acc p.envs h
  · show plugsOf ((cliPostPoll w p.acc p.envs).devs.foldl (devPass p) (acc0 (cliPostPoll w p.acc p.envs))).devs = _
    rw [foldl_devPass_plugsOf, ← cliPostPoll_plugsOf w p.acc p.envs h]
    simp [plugsOf, acc0]

/-! ### an arglist id stays with its client -/

/-- every queued action that carries the arglist id `A` is an action of client `g` -/
def OwnQ (g A : Nat) (devs : List (Bytes × Dev)) : Prop := ∀ nd ∈ devs, Keys (fun cid al => al = A → cid = g) nd.2.acts

theorem cliStep_ownQ (envs : List FdEnv) (g A : Nat) (w : W) (c0 : Cli) (hA : A < w.alNext) (h : OwnQ g A w.devs) :
    OwnQ g A (ClientPf.cliStep envs w c0).devs := by
  rcases cliStep_devs envs w c0 with e | ⟨com, bn, tele, e⟩
  · rw [e]; exact h
  · rw [e]
    intro nd' hnd' a ha hal
    obtain ⟨nd, hnd, rfl⟩ := List.mem_map.mp hnd'
    rcases Isolation.installDev_acts com bn c0.id tele w.alNext nd a ha with h1 | ⟨_, h2, _⟩
    · exact h nd hnd a h1 hal
    · omega

theorem cliPostPoll_ownQ (w : W) (acc : Nat) (envs : List FdEnv) (g A : Nat) (hI : Inv w) (hA : A < w.alNext) (h : OwnQ g A w.devs) :
    OwnQ g A (cliPostPoll w acc envs).devs := by
  have := cliPostPoll_gen w acc envs (fun x => A < x.alNext ∧ OwnQ g A x.devs) hI ?_ ?_
  · exact this.2
  · rw [cliAccept_devs, (cliAccept_store _ acc).2]; exact ⟨hA, h⟩
  · intro x c0 _ hx _
    exact ⟨(cliStep_lookup envs x c0 A hx.1).2, cliStep_ownQ envs g A x c0 hx.1 hx.2⟩

theorem foldl_devPass_ownQ (g A : Nat) (hA : A ≠ 0) (p : PassIn) (l : List (Bytes × Dev)) (a : DevAcc)
    (h : OwnQ g A (worldAt a l).devs) : OwnQ g A (worldAt (l.foldl (devPass p) a) []).devs := by
  induction l generalizing a with
  | nil => exact h
  | cons nd r ih =>
    rw [List.foldl_cons]
    exact ih _ (Isolation.worldAt_devPass_keys _ (fun e => absurd e.symm hA) p a nd r h)

/-- the device phase keeps "arglist id `A` belongs to client `g`" -/
theorem devPhase_ownQ (g A : Nat) (hA : A ≠ 0) (w : W) (p : PassIn) (h : OwnQ g A (cliPostPoll w p.acc p.envs).devs) :
    OwnQ g A (daemonPass w p).1.devs := by
  rw [daemonPass_fst]
  dsimp only
  split
  · exact h
  · have := foldl_devPass_ownQ g A hA p (cliPostPoll w p.acc p.envs).devs (acc0 (cliPostPoll w p.acc p.envs))
      (by rw [Isolation.worldAt_acc0]; exact h)
    simpa [worldAt] using this

theorem daemonPass_ownQ (g A : Nat) (hA : A ≠ 0) (w : W) (p : PassIn) (hI : Inv w) (hlt : A < w.alNext) (h : OwnQ g A w.devs) :
    OwnQ g A (daemonPass w p).1.devs :=
  devPhase_ownQ g A hA w p (cliPostPoll_ownQ w p.acc p.envs g A hI hlt h)

/-- under the arglist discipline, the arglist id of a command in progress belongs to its client -/
theorem ownQ_of_cmd (w : W) (g : Nat) (c : Cli) (k : CmdC) (h : Inv w) (hc : cliRec w g = some c) (hk : c.cmd = some k) :
    OwnQ g k.al w.devs := by
  intro nd hnd a ha hal
  by_cases h0 : a.clientId = 0
  · have := h.1.2.internal nd hnd a ha h0
    have hp := h.2.alpos g c k hc hk
    omega
  · exact h.1.2.owned g c k hc hk nd hnd a ha h0 hal

/-- **every write of a run to arglist `A` is the write of an action of client `g`**, made by a `setplugstate` / `setresult`
    statement in the turn of a device of the configuration — provided `A` has been handed out, and belongs to `g`, when the
    run begins -/
theorem runEvX_at (g A : Nat) (hA : A ≠ 0) : ∀ (qs : List PassX) (w : W), Inv w → AliveX w qs → A < w.alNext → OwnQ g A w.devs →
    ∀ ev ∈ runEvX w qs, EvAt (plugsOf w.devs) (fun cid al => al = A → cid = g) ev := by
  intro qs
  induction qs with
  | nil => intro w _ _ _ _ ev hev; cases hev
  | cons q qs ih =>
    intro w hI ha hlt hown ev hev
    rw [runEvX] at hev
    have hI' := feed_inv q.rx hI
    rcases List.mem_append.mp hev with h | h
    · have := passEv_at (fun cid al => al = A → cid = g) (fun e => absurd e.symm hA) (feed w q.rx) q.p
        (cliPostPoll_ownQ (feed w q.rx) q.p.acc q.p.envs g A hI' hlt hown) ev h
      rw [cliPostPoll_plugsOf _ _ _ hI'] at this
      exact this
    · have := ih (stepX w q) (stepX_inv w q hI ha.1) ha.2 (Nat.lt_of_lt_of_le hlt (stepX_alNext w q hI))
        (daemonPass_ownQ g A hA (feed w q.rx) q.p hI' hlt hown) ev h
      rw [show plugsOf (stepX w q).devs = plugsOf w.devs from daemonPass_plugsOf (feed w q.rx) q.p hI'] at this
      exact this

end Pm.Daemon.QRun

section AxiomChecks
open Pm.Daemon.QRun
/-- info: 'Pm.Daemon.QRun.runEvX_at' depends on axioms: [propext, Classical.choice, Quot.sound] -/
#guard_msgs in #print axioms runEvX_at
/-- info: 'Pm.Daemon.QRun.cliPostPoll_fresh_cells' depends on axioms: [propext, Classical.choice, Quot.sound] -/
#guard_msgs in #print axioms cliPostPoll_fresh_cells
/-- info: 'Pm.Daemon.QRun.runX_cell' depends on axioms: [propext, Classical.choice, Quot.sound] -/
#guard_msgs in #print axioms runX_cell
/-- info: 'Pm.Daemon.QRun.daemonPass_store' depends on axioms: [propext, Classical.choice, Quot.sound] -/
#guard_msgs in #print axioms daemonPass_store
end AxiomChecks
