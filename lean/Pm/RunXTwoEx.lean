import Pm.RunXTwo
import Pm.TwoRunEx
/-! Example runs for the non-vacuity examples of the `runX` statements of `Props/C11`: **the regex answers arrive in the second
pass of the run** (no run of `runPasses` has that).

World `Two.w3` (`Pm/IsolationProof.lean`): device `A` (node `a1`), clients 1 (descriptor 1000) and 2 (descriptor 1001), both with
`status a1` in flight; **no regex answer is pending**.  The passes are those of `Pm/TwoRunEx.lean`, preceded by a pass in which
nothing happens; the answers `Two.xs4` for the device's reply are fed before the second pass. -/
namespace Pm.Daemon.TwoRun.ExX
open Pm Pm.Client Pm.Daemon Pm.Daemon.Isolation Pm.Daemon.TwoRun

/-- a pass in which nothing happens -/
def p0 : PassIn := { now := 3500, acc := 0, con := [0], soe := [0], envs := [] }
/-- first run: nothing; then the device answers client 1's action (regex answers fed before this pass); then pass B of
    `Pm/TwoRunEx.lean` (a third client connects, client 1 asks again, client 2 sends `help`) -/
def qs : List PassX := [⟨p0, []⟩, ⟨Ex.pA, Two.xs4⟩, ⟨Ex.pB, []⟩]
/-- second run: descriptor 1001 is never reported writable; the same regex answers -/
def qs' : List PassX := qs.map (stuckInX 1001)

theorem onlyS : ∀ c ∈ Two.w3.clients, c.fd = 1001 → c.id = 2 := Ex.onlyS
theorem fresh : 1001 < 1000 + Two.w3.nacc := Ex.fresh
theorem noPending : Two.w3.pendingX = [] := by decide +kernel

theorem devfd (k : Nat) (hk : k ≤ 2) : ∀ nd ∈ (runX Two.w3 (qs.take k)).devs, nd.2.fd ≠ some 1001 := by
  have h : ((runX Two.w3 (qs.take k)).devs.all fun nd => nd.2.fd != some 1001) = true := by
    have : k = 0 ∨ k = 1 ∨ k = 2 := by omega
    rcases this with rfl | rfl | rfl <;> decide +kernel
  intro nd hnd
  simpa using List.all_eq_true.mp h nd hnd

theorem reader0 : ReaderOK 1001 p0 := by
  intro e he
  have : p0.envs.find? (·.fd == 1001) = none := rfl
  rw [this] at he
  cases he

theorem readerRun : ReaderRunX 1001 Two.w3 qs :=
  ⟨⟨reader0, devfd 0 (by omega)⟩, ⟨Ex.readerA, devfd 1 (by omega)⟩, ⟨Ex.readerB, devfd 2 (by omega)⟩, trivial⟩

theorem takeAll (l : List PassX) (n : Nat) (h : l.length ≤ n) : l.take n = l := List.take_of_length_le h

theorem faithful : FaithfulX 2 1001 Two.w3 qs' := by
  constructor
  · intro n
    have h : ∀ k, k ≤ 3 → ((runX Two.w3 (qs'.take k)).sys.all fun x => !blocksOn 1001 x) = true := by
      intro k hk
      have : k = 0 ∨ k = 1 ∨ k = 2 ∨ k = 3 := by omega
      rcases this with rfl | rfl | rfl | rfl <;> decide +kernel
    intro x hx
    by_cases hn : n ≤ 3
    · simpa using List.all_eq_true.mp (h n hn) x hx
    · rw [takeAll qs' n (by simp [qs', qs]; omega)] at hx
      have := h 3 (Nat.le_refl _)
      rw [takeAll qs' 3 (by simp [qs', qs])] at this
      simpa using List.all_eq_true.mp this x hx
  · intro n c hc
    have h : ∀ k, k ≤ 3 → (match cliRec (runX Two.w3 (qs'.take k)) 2 with | some c => decide (c.toBuf.length ≤ cliBufMax) | none => true) = true := by
      intro k hk
      have : k = 0 ∨ k = 1 ∨ k = 2 ∨ k = 3 := by omega
      rcases this with rfl | rfl | rfl | rfl <;> decide +kernel
    by_cases hn : n ≤ 3
    · have := h n hn
      rw [hc] at this
      simpa using this
    · rw [takeAll qs' n (by simp [qs', qs]; omega)] at hc
      have := h 3 (Nat.le_refl _)
      rw [takeAll qs' 3 (by simp [qs', qs]), hc] at this
      simpa using this

/-- what the two runs end in: client 2's buffer holds 25 bytes in the first run and 42 in the second; everything else is the
    same; client 1's command is completed in pass number 1 — the second pass, the one the regex answers were fed before — in
    both runs -/
theorem outcome :
    (runX Two.w3 qs).clients.map (fun c => (c.id, c.fd, c.toBuf.length, c.cmd.isSome)) =
      [(1, 1000, 0, true), (2, 1001, 25, true), (3, 1002, 17, false)] ∧
    (runX Two.w3 qs').clients.map (fun c => (c.id, c.fd, c.toBuf.length, c.cmd.isSome)) =
      [(1, 1000, 0, true), (2, 1001, 42, true), (3, 1002, 17, false)] ∧
    (runX Two.w3 qs).devs.map (fun nd => nd.2.acts.map fun a => (a.clientId, a.arglist)) = [[(2, 2), (1, 3)]] ∧
    replyPassRunX Two.w3 qs 1 = some 1 ∧ replyPassRunX Two.w3 qs' 1 = some 1 := by decide +kernel

/-- the same passes without the regex answers (all a run of `runPasses` from `Two.w3` can have): client 1's command is never completed -/
theorem without_answer : replyPassRunX Two.w3 [⟨p0, []⟩, ⟨Ex.pA, []⟩, ⟨Ex.pB, []⟩] 1 = none := by decide +kernel

/-! ### the client that vanishes -/

/-- nothing; then the device answers client 1's action (regex answers fed before the pass) and, in the second run, descriptor
    1001 reports `POLLERR`; then the device takes the bytes of client 2's action -/
def ppV : List (PassX × PassX) := [(⟨p0, []⟩, ⟨p0, []⟩), (⟨Ex.pV, Two.xs4⟩, ⟨Ex.pV', Two.xs4⟩), (⟨Ex.pW, []⟩, ⟨Ex.pW, []⟩)]

theorem brel0 : BRel 1001 Two.w3 Two.w3 := (ARel.init 2 1001 Two.w3 onlyS fresh).toB

theorem goneRun : AlongX (GoneX 1001) Two.w3 Two.w3 ppV :=
  ⟨⟨rfl, Ex.mkGonePass 1001 _ _ p0 p0 rfl rfl rfl rfl rfl (by decide +kernel) (by decide +kernel) (by decide +kernel) (by decide +kernel)
      (by decide +kernel) (by decide +kernel) (by decide +kernel)⟩,
   ⟨rfl, Ex.mkGonePass 1001 _ _ Ex.pV Ex.pV' rfl rfl rfl rfl rfl (by decide +kernel) (by decide +kernel) (by decide +kernel) (by decide +kernel)
      (by decide +kernel) (by decide +kernel) (by decide +kernel)⟩,
   ⟨rfl, Ex.mkGonePass 1001 _ _ Ex.pW Ex.pW rfl rfl rfl rfl rfl (by decide +kernel) (by decide +kernel) (by decide +kernel) (by decide +kernel)
      (by decide +kernel) (by decide +kernel) (by decide +kernel)⟩,
   trivial⟩

theorem outcomeV :
    ids (runX Two.w3 (ppV.map (·.1))) = [1, 2] ∧ ids (runX Two.w3 (ppV.map (·.2))) = [1] ∧
    (runX Two.w3 (ppV.map (·.1))).devs.map (fun nd => (nd.2.acts.map fun a => (a.clientId, a.arglist), nd.2.toBuf)) = [([(2, 2)], [])] ∧
    (runX Two.w3 (ppV.map (·.2))).devs.map (fun nd => (nd.2.acts.map fun a => (a.clientId, a.arglist), nd.2.toBuf)) = [([(2, 2)], [])] ∧
    (cliRec (runX Two.w3 (ppV.map (·.1))) 1).map (·.cmd.isNone) = some true ∧
    (cliRec (runX Two.w3 (ppV.map (·.2))) 1).map (·.cmd.isNone) = some true := by decide +kernel

/-- after the three stuck passes `qs`/`qs'`: a pass in which descriptor 1001 reports `POLLERR` in the second run only -/
def pp1 : List (PassX × PassX) := qs.map fun q => (q, stuckInX 1001 q)

/-- the vanishing phase after the stuck phase -/
def ppZ : List (PassX × PassX) := [(⟨Ex.pZ, []⟩, ⟨Ex.pZ', []⟩)]

theorem goneAfterStuck : AlongX (GoneX 1001) (runX Two.w3 (pp1.map (·.1))) (runX Two.w3 (pp1.map (·.2))) ppZ :=
  ⟨⟨rfl, Ex.mkGonePass 1001 _ _ Ex.pZ Ex.pZ' rfl rfl rfl rfl rfl (by decide +kernel) (by decide +kernel) (by decide +kernel) (by decide +kernel)
      (by decide +kernel) (by decide +kernel) (by decide +kernel)⟩, trivial⟩

theorem outcomeZ :
    ids (runX Two.w3 ((pp1 ++ ppZ).map (·.1))) = [1, 2, 3] ∧
    ids (runX Two.w3 ((pp1 ++ ppZ).map (·.2))) = [1, 3] := by decide +kernel

end Pm.Daemon.TwoRun.ExX

section AxiomChecks
open Pm.Daemon.TwoRun
/-- info: 'Pm.Daemon.TwoRun.ExX.readerRun' depends on axioms: [propext, Classical.choice, Quot.sound] -/
#guard_msgs in #print axioms ExX.readerRun
/-- info: 'Pm.Daemon.TwoRun.ExX.faithful' depends on axioms: [propext, Classical.choice, Quot.sound] -/
#guard_msgs in #print axioms ExX.faithful
/-- info: 'Pm.Daemon.TwoRun.ExX.goneRun' depends on axioms: [propext, Classical.choice, Quot.sound] -/
#guard_msgs in #print axioms ExX.goneRun
end AxiomChecks
