import Pm.Create
/-! # Configuration model (C13): `device` / `node` / `alias` lines → node-to-plug map

Executable mirror, over strings, of what `powermand` does with the `device`, `node` and `alias` lines of `powerman.conf`:
`parse_tab.y` (`makeDevice`, `makeNode`, `makeAlias`, `findSpec`), `pluglist.c` (`pluglist_create`, `pluglist_map`,
`_pluglist_map_one`, `_pluglist_map_next`), `parse_util.c` (`conf_addnodes`, `conf_node_exists`, `conf_add_alias`,
`_alias_create`, `_validate_config`).  Host-range strings are expanded with the hostlist mirrors (`create`, `expand`);
`conf_nodes` is a hostlist built by `pushHost`, `conf_node_exists` is `find` on it.

The model is compared with the real parser on every run (`harness/u_confdump.c` against the `cfdriver` executable,
`lib/config.py`).  The order of checks and of effects is the order of the C code:

* `makeDevice`: `findSpec` (first specification of that name) or `device specification not found`; the device is APPENDED to the
  device list; there is no check for a duplicate device name (two devices of one name may exist; `dev_findbyname` returns the first).
* `makeNode`: `dev_findbyname` or `unknown device` → `hostlist_create(nodestr)` or `invalid node list` → `hostlist_create(plugstr)`
  or `invalid plug list` → `pluglist_map` (`unknown plug name` / `plug already assigned` / `more nodes than plugs` /
  `more plugs than nodes`) → `conf_addnodes` or `duplicate node name`.  `pluglist_map` runs to its end before `conf_addnodes` starts.
* `makeAlias`: `bad alias` for a duplicate alias name, and for a host string `hostlist_create` refuses; aliases are PUSHED (prepended).
* `_validate_config`, after the last line: per alias in list order `alias 'a' references nonexistent node 'n'`, then
  `no nodes are defined`.  The real code prints every such message and exits 1; the model reports the first one printed. -/
namespace Pm.ConfigModel
open Pm

/-- a device specification as far as plugs go: `plugs = some l` for a `plug name { … }` list (hard-wired plugs) -/
structure Spec where
  name : Name
  plugs : Option (List Name)
deriving Repr

/-- one configuration line -/
inductive Stmt where
  | device (name spec : Name)
  | node (nodes : List Char) (dev : Name) (plugs : Option (List Char))
  | alias (name : Name) (hosts : List Char)
deriving Repr

/-- `Plug` of `pluglist.h` -/
structure Plug where
  name : Name
  node : Option Name
deriving DecidableEq, Repr

/-- the part of `Device` the configuration lines touch; `hard` = `pl->hardwired` -/
structure Dev where
  name : Name
  spec : Name
  hard : Bool
  plugs : List Plug
deriving DecidableEq, Repr

/-- `alias_t`, plus the index of the line that declared it (for the diagnostic) -/
structure Alias where
  name : Name
  hl : Hostlist
  stmt : Nat
deriving DecidableEq, Repr

/-- `dev_devices` (plugs in the C list order), `conf_nodes`, `conf_aliases` (C list order) -/
structure Cfg where
  devs : List Dev
  nodes : Hostlist
  aliases : List Alias
deriving DecidableEq, Repr

/-- one constructor per message text -/
inductive DiagClass where
  | specNotFound        -- device specification not found
  | unknownDevice       -- unknown device
  | invalidNodeList     -- invalid node list
  | invalidPlugList     -- invalid plug list
  | unknownPlug         -- unknown plug name
  | plugAssigned        -- plug already assigned
  | moreNodes           -- more nodes than plugs
  | morePlugs           -- more plugs than nodes
  | dupNodeName         -- duplicate node name
  | badAlias            -- bad alias
  | aliasMissing        -- alias '…' references nonexistent node '…'
  | noNodes             -- no nodes are defined
deriving DecidableEq, Repr

/-- diagnostic class and index of the offending line (`noNodes`: the number of lines) -/
abbrev Diag := DiagClass × Nat

def DiagClass.text : DiagClass → String
  | .specNotFound => "specNotFound" | .unknownDevice => "unknownDevice" | .invalidNodeList => "invalidNodeList"
  | .invalidPlugList => "invalidPlugList" | .unknownPlug => "unknownPlug" | .plugAssigned => "plugAssigned"
  | .moreNodes => "moreNodes" | .morePlugs => "morePlugs" | .dupNodeName => "dupNodeName" | .badAlias => "badAlias"
  | .aliasMissing => "aliasMissing" | .noNodes => "noNodes"

/-! ### `pluglist.c` -/

/-- assign `node` to the first plug called `name` (`_pluglist_find_any` returns the first) -/
def setFirst (name node : Name) : List Plug → List Plug
  | [] => []
  | p :: ps => if p.name = name then { p with node := some node } :: ps else p :: setFirst name node ps

/-- `_pluglist_map_one` -/
def mapOne (d : Dev) (node name : Name) : Except DiagClass Dev :=
  match d.plugs.find? (·.name = name) with
  | none => if d.hard then .error .unknownPlug else .ok { d with plugs := ⟨name, some node⟩ :: d.plugs }   -- list_push prepends
  | some p => if p.node.isSome then .error .plugAssigned else .ok { d with plugs := setFirst name node d.plugs }

/-- assign `node` to the first free plug -/
def setNextFree (node : Name) : List Plug → Option (List Plug)
  | [] => none
  | p :: ps => if p.node.isNone then some ({ p with node := some node } :: ps)
               else (setNextFree node ps).map (p :: ·)

/-- `_pluglist_map_next` -/
def mapNext (d : Dev) (node : Name) : Except DiagClass Dev :=
  match setNextFree node d.plugs with
  | some ps => .ok { d with plugs := ps }
  | none => .error .moreNodes

/-- `pluglist_map` on the expanded node list and the expanded plug list (`none`: no plug list given) -/
def mapLine (d : Dev) : List Name → Option (List Name) → Except DiagClass Dev
  | [], none => .ok d
  | n :: ns, none =>
    match (if d.hard then mapNext d n else mapOne d n n) with
    | .error e => .error e
    | .ok d' => mapLine d' ns none
  | [], some [] => .ok d
  | [], some (_ :: _) => .error .morePlugs
  | _ :: _, some [] => .error .moreNodes
  | n :: ns, some (p :: ps) =>
    match mapOne d n p with
    | .error e => .error e
    | .ok d' => mapLine d' ns (some ps)

/-! ### `parse_util.c` -/

/-- `conf_node_exists` -/
def nodeExists (known : Hostlist) (n : Name) : Bool := (find known n).isSome

/-- `conf_addnodes` -/
def addNodes (known : Hostlist) : List Name → Except DiagClass Hostlist
  | [] => .ok known
  | n :: ns => if nodeExists known n then .error .dupNodeName else addNodes (pushHost known n) ns

/-! ### `parse_tab.y` -/

/-- `findSpec`: the first specification of that name -/
def findSpec (specs : List Spec) (name : Name) : Option Spec := specs.find? (·.name = name)

/-- `pluglist_create` -/
def newPlugs (s : Spec) : List Plug := (s.plugs.getD []).map fun n => ⟨n, none⟩

/-- `makeDevice` -/
def makeDevice (specs : List Spec) (c : Cfg) (name spec : Name) : Except DiagClass Cfg :=
  match findSpec specs spec with
  | none => .error .specNotFound
  | some s => .ok { c with devs := c.devs ++ [{ name, spec, hard := s.plugs.isSome, plugs := newPlugs s }] }   -- list_append

/-- run `f` on the first device called `name` (`dev_findbyname`), or `unknown device` -/
def updDev (name : Name) (f : Dev → Except DiagClass Dev) : List Dev → Except DiagClass (List Dev)
  | [] => .error .unknownDevice
  | d :: ds =>
    if d.name = name then
      match f d with
      | .error e => .error e
      | .ok d' => .ok (d' :: ds)
    else
      match updDev name f ds with
      | .error e => .error e
      | .ok ds' => .ok (d :: ds')

/-- the two `hostlist_create` validations of `makeNode`, then `pluglist_map` -/
def nodeOnDev (nodestr : List Char) (plugstr : Option (List Char)) (d : Dev) : Except DiagClass Dev :=
  match create nodestr with
  | .error _ => .error .invalidNodeList
  | .ok nhl =>
    match plugstr with
    | none => mapLine d (expand nhl) none
    | some ps =>
      match create ps with
      | .error _ => .error .invalidPlugList
      | .ok phl => mapLine d (expand nhl) (some (expand phl))

/-- `makeNode` -/
def makeNode (c : Cfg) (nodestr : List Char) (dev : Name) (plugstr : Option (List Char)) : Except DiagClass Cfg :=
  match updDev dev (nodeOnDev nodestr plugstr) c.devs with
  | .error e => .error e
  | .ok devs =>
    match create nodestr with
    | .error _ => .error .invalidNodeList            -- not reached: `nodeOnDev` has refused already
    | .ok nhl =>
      match addNodes c.nodes (expand nhl) with
      | .error e => .error e
      | .ok nodes => .ok { c with devs := devs, nodes := nodes }

/-- `makeAlias` / `conf_add_alias` / `_alias_create` -/
def makeAlias (c : Cfg) (idx : Nat) (name : Name) (hosts : List Char) : Except DiagClass Cfg :=
  if c.aliases.any (·.name = name) then .error .badAlias
  else match create hosts with
    | .error _ => .error .badAlias
    | .ok hl => .ok { c with aliases := ⟨name, hl, idx⟩ :: c.aliases }                  -- list_push prepends

/-- the first member of the alias that is not a configured node -/
def aliasBad (nodes : Hostlist) (a : Alias) : Bool := (expand a.hl).any fun h => !nodeExists nodes h

/-- `_validate_config` (the first message it prints) -/
def validate (c : Cfg) (n : Nat) : Except Diag Cfg :=
  match c.aliases.find? (aliasBad c.nodes) with
  | some a => .error (.aliasMissing, a.stmt)
  | none => if (expand c.nodes).isEmpty then .error (.noNodes, n) else .ok c

/-- one configuration line -/
def step (specs : List Spec) (c : Cfg) (i : Nat) : Stmt → Except DiagClass Cfg
  | .device name spec => makeDevice specs c name spec
  | .node nodes dev plugs => makeNode c nodes dev plugs
  | .alias name hosts => makeAlias c i name hosts

/-- the lines from number `i` on, then `_validate_config` -/
def run (specs : List Spec) : Cfg → Nat → List Stmt → Except Diag Cfg
  | c, i, [] => validate c i
  | c, i, s :: rest =>
    match step specs c i s with
    | .error e => .error (e, i)
    | .ok c' => run specs c' (i + 1) rest

def empty : Cfg := ⟨[], [], []⟩

/-- `conf_init` on a configuration with the given specifications and lines -/
def build (specs : List Spec) (stmts : List Stmt) : Except Diag Cfg := run specs empty 0 stmts

end Pm.ConfigModel
