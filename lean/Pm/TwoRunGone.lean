import Pm.TwoRunC11
/-! C11, the client that vanishes (or whose descriptor events do not matter because it sends nothing).

    Two runs from related worlds.  The client on descriptor `fs` sends nothing in either run (`Inert`: not reported readable,
    no complete line buffered) — but what its descriptor reports otherwise is arbitrary and may differ: writable or not, any
    capacity, `POLLERR`/`POLLNVAL` (it is destroyed at once).  It may therefore be present in one run and gone in the other.
    Everything else is the same, pass by pass.  (The relation `BRel` is weaker than `ARel` of `Pm/TwoRunC11.lean`, so a stuck
    phase can be followed by this one.) -/
namespace Pm.Daemon.TwoRun
open Pm Pm.Client Pm.Daemon Pm.Daemon.Isolation
open Pm.Dev2 (Dev Oracle)

/-- the relation between the two worlds: everything the same except the client table — which is the same on the clients that
    are not on `fs` —, the capacities, and the log of the last pass — the same on every descriptor but `fs` -/
structure BRel (fs : Nat) (w w' : W) : Prop where
  core : coreOf w' = coreOf w
  tab : w'.clients.filter (nonF (isFd fs)) = w.clients.filter (nonF (isFd fs))
  fresh : fs < 1000 + w.nacc
  sys : w'.sys.filter (offF (isFd fs)) = w.sys.filter (offF (isFd fs))

theorem l2_filter {fs : Nat} {l l' : List Cli} (h : L2 (RecRel (isFd fs)) l l') :
    l'.filter (nonF (isFd fs)) = l.filter (nonF (isFd fs)) := by
  induction h with
  | nil => rfl
  | @cons a b l l' hab _ ih =>
    rw [List.filter_cons, List.filter_cons, ih]
    have hfd : nonF (isFd fs) b = nonF (isFd fs) a := by simp [nonF, hab.fd]
    rw [hfd]
    split
    · rename_i hn
      rw [hab.eq (by simpa [nonF] using hn)]
    · rfl

/-- the relation of the stuck phase is a special case -/
theorem ARel.toB {s fs : Nat} {w w' : W} (h : ARel s fs w w') : BRel fs w w' :=
  ⟨h.core, l2_filter h.tab, h.fresh, h.sys⟩

/-- what is assumed of the two inputs of one pass: the same clock, `accept` verdict and `connect()` answers; the same events
    on every descriptor but `fs`; no device sits on the number `fs`; the client on `fs` — in either run, if it is there — is
    inert; both worlds satisfy the id discipline; neither run hits a modelled `assert` in the device phase -/
structure GonePass (fs : Nat) (w w' : W) (p p' : PassIn) : Prop where
  now : p'.now = p.now
  acc : p'.acc = p.acc
  con : p'.con = p.con
  soe : p'.soe = p.soe
  others : ∀ fd, fd ≠ fs → p'.envs.find? (·.fd == fd) = p.envs.find? (·.fd == fd)
  devfd : ∀ nd ∈ w.devs, nd.2.fd ≠ some fs
  inert : ∀ c ∈ w.clients, c.fd = fs → Inert p.envs c
  inert' : ∀ c ∈ w'.clients, c.fd = fs → Inert p'.envs c
  ids : IdsFresh w
  ids' : IdsFresh w'
  alive : ((cliPostPoll w p.acc p.envs).devs.foldl (devPass p) (acc0 (cliPostPoll w p.acc p.envs))).dead = false
  alive' : ((cliPostPoll w' p'.acc p'.envs).devs.foldl (devPass p') (acc0 (cliPostPoll w' p'.acc p'.envs))).dead = false

theorem cliPostPoll_ctrs_eq (w w' : W) (acc : Nat) (envs envs' : List FdEnv) (h : ctrs w' = ctrs w) :
    ctrs (cliPostPoll w' acc envs') = ctrs (cliPostPoll w acc envs) := by
  rw [ClientPf.cliPostPoll_eq, ClientPf.cliPostPoll_eq, foldl_cliStep_ctrs, foldl_cliStep_ctrs]
  simp only [ctrs, Prod.mk.injEq] at h
  obtain ⟨h1, h2, h3, h4, h5, h6, h7⟩ := h
  unfold ClientPf.cliAccept
  split
  · simp only [ctrs, h1, h2, h3, h4, h5, h6, h7]
  · split
    · simp only [ctrs, h1, h2, h3, h4, h5, h6, h7]
    · simp only [ctrs, h1, h2, h3, h4, h5, h6, h7]

/-- **the device phase in both runs**: the accumulators agree on everything but the client tables; every device does the same;
    a client that has the same record in both tables before has the same record after -/
theorem foldl_devPass_gone (fs : Nat) (p p' : PassIn) (hn : p'.now = p.now) (hc : p'.con = p.con) (he : p'.soe = p.soe)
    (l : Devs) (hev : ∀ nd ∈ l, SameEvents p p' nd) : ∀ (a a' : DevAcc),
    coreOf a'.w = coreOf a.w → a'.oracle = a.oracle → a'.devs = a.devs → a'.tmo = a.tmo →
    a'.w.sys.filter (offF (isFd fs)) = a.w.sys.filter (offF (isFd fs)) →
    (l.foldl (devPass p) a).dead = false → (l.foldl (devPass p') a').dead = false →
    coreOf (l.foldl (devPass p') a').w = coreOf (l.foldl (devPass p) a).w ∧
    (l.foldl (devPass p') a').devs = (l.foldl (devPass p) a).devs ∧ (l.foldl (devPass p') a').tmo = (l.foldl (devPass p) a).tmo ∧
    (l.foldl (devPass p') a').w.sys.filter (offF (isFd fs)) = (l.foldl (devPass p) a).w.sys.filter (offF (isFd fs)) ∧
    stepsList p' a' l = stepsList p a l ∧
    ∀ g, cliRec a'.w g = cliRec a.w g → cliRec (l.foldl (devPass p') a').w g = cliRec (l.foldl (devPass p) a).w g := by
  induction l with
  | nil => intro a a' h1 _ h3 h4 h5 _ _; exact ⟨h1, h3, h4, h5, rfl, fun _ h => h⟩
  | cons nd r ih =>
    intro a a' hcore hor hdv htm hsy hal hal'
    rw [List.foldl_cons] at hal hal' ⊢
    rw [List.foldl_cons]
    have hd : a.dead = false := by
      cases h : a.dead with
      | false => rfl
      | true =>
        have := devPass_dead_sticky p a nd h
        rw [foldl_dead_sticky p r _ this] at hal; cases hal
    have hd' : a'.dead = false := by
      cases h : a'.dead with
      | false => rfl
      | true =>
        have := devPass_dead_sticky p' a' nd h
        rw [foldl_dead_sticky p' r _ this] at hal'; cases hal'
    have hstore : a'.w.store = a.w.store := by have : (coreOf a'.w).store = (coreOf a.w).store := congrArg W.store hcore; exact this
    have c1 : a'.w.nsock = a.w.nsock := by have : (coreOf a'.w).nsock = (coreOf a.w).nsock := congrArg W.nsock hcore; exact this
    have c2 : a'.w.npair = a.w.npair := by have : (coreOf a'.w).npair = (coreOf a.w).npair := congrArg W.npair hcore; exact this
    have c3 : a'.w.nfork = a.w.nfork := by have : (coreOf a'.w).nfork = (coreOf a.w).nfork := congrArg W.nfork hcore; exact this
    have hstep : devStep p' a'.w a'.oracle nd = devStep p a.w a.oracle nd := by
      rw [hor]
      exact (devStep_reads p p' a.w a'.w a.oracle nd hstore.symm c1.symm c2.symm c3.symm hn.symm hc.symm he.symm (hev nd (by simp))).symm
    -- one device
    have hone : coreOf (devPass p' a' nd).w = coreOf (devPass p a nd).w ∧ (devPass p' a' nd).oracle = (devPass p a nd).oracle ∧
        (devPass p' a' nd).devs = (devPass p a nd).devs ∧ (devPass p' a' nd).tmo = (devPass p a nd).tmo ∧
        (devPass p' a' nd).w.sys.filter (offF (isFd fs)) = (devPass p a nd).w.sys.filter (offF (isFd fs)) ∧
        ∀ g, cliRec a'.w g = cliRec a.w g → cliRec (devPass p' a' nd).w g = cliRec (devPass p a nd).w g := by
      have e1 : devPass p a nd = devPass' p a nd := devPass_eq p a nd
      have e2 : devPass p' a' nd = devPass' p' a' nd := devPass_eq p' a' nd
      rw [e1, e2]
      unfold devPass'
      simp only [hd, hd', Bool.false_eq_true, ↓reduceIte]
      rw [hstep]
      generalize devStep p a.w a.oracle nd = rr
      have s1 := applyOuts_sans (afterStep a.w rr.1) nd.1 rr.2.2.1
      have s2 := applyOuts_sans (afterStep a'.w rr.1) nd.1 rr.2.2.1
      have hco : coreOf (afterStep a'.w rr.1) = coreOf (afterStep a.w rr.1) := by
        have : ∀ u : W, coreOf (afterStep u rr.1) = afterStep (coreOf u) rr.1 := fun _ => rfl
        rw [this, this, hcore]
      refine ⟨?_, rfl, ?_, ?_, ?_, ?_⟩
      · show coreOf (applyOuts (afterStep a'.w rr.1) nd.1 rr.2.2.1).1 = coreOf (applyOuts (afterStep a.w rr.1) nd.1 rr.2.2.1).1
        rw [coreOf_sans s1, coreOf_sans s2, hco]
      · show a'.devs ++ [(nd.1, rr.1.dev)] = a.devs ++ [(nd.1, rr.1.dev)]
        rw [hdv]
      · show minOpt a'.tmo rr.2.2.2 = minOpt a.tmo rr.2.2.2
        rw [htm]
      · show (applyOuts (afterStep a'.w rr.1) nd.1 rr.2.2.1).1.sys.filter _ = (applyOuts (afterStep a.w rr.1) nd.1 rr.2.2.1).1.sys.filter _
        rw [sys_sans s1, sys_sans s2]
        exact hsy
      · intro g hg
        show cliRec (applyOuts (afterStep a'.w rr.1) nd.1 rr.2.2.1).1 g = cliRec (applyOuts (afterStep a.w rr.1) nd.1 rr.2.2.1).1 g
        have hv : OwnView g (afterStep a'.w rr.1) (afterStep a.w rr.1) := ⟨hg, fun _ _ _ _ => by
          show storeArgs (afterStep a'.w rr.1) _ = storeArgs (afterStep a.w rr.1) _
          rfl⟩
        exact (applyOuts_own _ _ nd.1 _ _ g hv rfl).1
    obtain ⟨o1, o2, o3, o4, o5, o6⟩ := hone
    obtain ⟨i1, i2, i3, i4, i5, i6⟩ := ih (fun x hx => hev x (by simp [hx])) _ _ o1 o2 o3 o4 o5 hal hal'
    refine ⟨i1, i2, i3, i4, ?_, fun g hg => i6 g (o6 g hg)⟩
    simp only [stepsList]
    rw [i5, hstep, hd, hd']

/-- **one whole pass keeps the relation**, and every device does the same in both runs -/
theorem daemonPass_gone (fs : Nat) (w w' : W) (p p' : PassIn) (hr : BRel fs w w') (hp : GonePass fs w w' p p') :
    BRel fs (daemonPass w p).1 (daemonPass w' p').1 ∧ passSteps w' p' = passSteps w p := by
  obtain ⟨f1, f2, f3, f4, f5, f6, f7⟩ := coreOf_fields hr.core
  have f7' := f7
  simp only [ctrs, Prod.mk.injEq] at f7
  obtain ⟨k1, k2, _, _, _, _, _⟩ := f7
  have hF : ∀ c : Cli, isFd fs c.fd = true → c.fd = fs := fun c h => by simpa [isFd] using h
  obtain ⟨g1, g2⟩ := cliPostPoll_merge (F := isFd fs) (DRL := DEq) (SR := SEq) hSEq w w' p p' f1 f3 f5 f6 f2 f4 k1 k2 hr.tab hp.acc
    (fun fd hfd => hp.others fd (by simpa [isFd] using hfd))
    (by have := hr.fresh; simp [isFd]; omega)
    (fun c _ _ l _ => lineOK_eq _ l)
    (fun c hc h => hp.inert c hc (hF c h)) (fun c hc h => hp.inert' c hc (hF c h)) hp.ids hp.ids'
  have g3 : ctrs (cliPostPoll w' p'.acc p'.envs) = ctrs (cliPostPoll w p.acc p.envs) := by
    rw [hp.acc]; exact cliPostPoll_ctrs_eq w w' p.acc p.envs p'.envs f7'
  have hi0 := cliPostPoll_ids w p.acc p.envs hp.ids
  have hi0' := cliPostPoll_ids w' p'.acc p'.envs hp.ids'
  have hfds := cliPostPoll_devfds w p.acc p.envs
  have hnacc := (cliPostPoll_counters w p.acc p.envs).2.2.2.2.2
  have halive := hp.alive
  have halive' := hp.alive'
  unfold passSteps
  rw [daemonPass_fst, daemonPass_fst]
  dsimp only
  generalize cliPostPoll w p.acc p.envs = w0 at *
  generalize cliPostPoll w' p'.acc p'.envs = w0' at *
  have hdv : w0'.devs = w0.devs := g1.devs
  have hco : coreOf w0' = coreOf w0 := coreOf_mk g1.cfg hdv g1.specs g1.store g1.alNext g1.exited g3
  have hfresh0 : fs < 1000 + w0.nacc := by rw [hnacc]; have := hr.fresh; omega
  rw [g1.exited]
  cases hex : w0.exited with
  | true =>
    simp only [↓reduceIte]
    exact ⟨⟨hco, g2, hfresh0, g1.sys⟩, trivial⟩
  | false =>
    simp only [Bool.false_eq_true, ↓reduceIte]
    have hpx : w0'.pendingX = w0.pendingX := by
      simp only [ctrs, Prod.mk.injEq] at g3; exact g3.2.2.2.2.2.2
    have hev : ∀ nd ∈ w0.devs, SameEvents p p' nd := by
      intro nd hnd fd hfd
      have hm : nd.2.fd ∈ w0.devs.map (·.2.fd) := List.mem_map.mpr ⟨nd, hnd, rfl⟩
      rw [hfds] at hm
      obtain ⟨nd0, hnd0, e0⟩ := List.mem_map.mp hm
      have hne : fd ≠ fs := by
        intro e
        apply hp.devfd nd0 hnd0
        rw [e0, hfd, e]
      exact (hp.others fd hne).symm
    rw [hdv] at halive' ⊢
    obtain ⟨r1, r2, r3, r4, r5, r6⟩ := foldl_devPass_gone fs p p' hp.now hp.con hp.soe w0.devs hev (acc0 w0) (acc0 w0') hco
      (by simp [acc0, hpx]) rfl rfl g1.sys halive halive'
    refine ⟨?_, r5⟩
    have hk := foldl_devPass_keep p w0.devs (acc0 w0)
    have hk' := foldl_devPass_keep p' w0.devs (acc0 w0')
    obtain ⟨_, i2⟩ := foldl_devPass_idfd p w0.devs (acc0 w0)
    generalize w0.devs.foldl (devPass p) (acc0 w0) = a at *
    generalize w0.devs.foldl (devPass p') (acc0 w0') = a' at *
    refine ⟨?_, ?_, ?_, r4⟩
    · have : ∀ (u : W) (d : Devs) (t : Option Nat), coreOf { u with devs := d, pendingX := [], tmo := t } = { coreOf u with devs := d, pendingX := [], tmo := t } :=
        fun _ _ _ => rfl
      rw [this, this, r1, r2, r3]
    · show a'.w.clients.filter _ = a.w.clients.filter _
      refine filter_after_keep (isFd fs) w0.clients w0'.clients a.w.clients a'.w.clients g2 hk hk' hi0.nodup hi0'.nodup ?_
      intro c hc hcF
      have hc' : c ∈ w0'.clients := by
        have : c ∈ w0'.clients.filter (nonF (isFd fs)) := by
          rw [g2]; exact List.mem_filter.mpr ⟨hc, by simp [nonF, hcF]⟩
        exact (List.mem_filter.mp this).1
      exact r6 c.id (by
        show cliRec w0' c.id = cliRec w0 c.id
        rw [hi0.cliRec_of_mem hc, hi0'.cliRec_of_mem hc'])
    · show fs < 1000 + a.w.nacc
      rw [i2]; exact hfresh0

/-- the per-pass hypotheses along the two runs -/
def GoneRun (fs : Nat) : W → W → List (PassIn × PassIn) → Prop
  | _, _, [] => True
  | w, w', pp :: r => GonePass fs w w' pp.1 pp.2 ∧ GoneRun fs (daemonPass w pp.1).1 (daemonPass w' pp.2).1 r

/-- **any number of passes** -/
theorem runs_gone (fs : Nat) (pp : List (PassIn × PassIn)) : ∀ (w w' : W), BRel fs w w' → GoneRun fs w w' pp →
    BRel fs (runPasses w (pp.map (·.1))) (runPasses w' (pp.map (·.2))) := by
  induction pp with
  | nil => intro w w' h _; exact h
  | cons x r ih =>
    intro w w' h hs
    rw [List.map_cons, List.map_cons, runPasses_cons, runPasses_cons]
    exact ih _ _ (daemonPass_gone fs w w' x.1 x.2 h hs.1).1 hs.2

theorem GoneRun.take {fs : Nat} : ∀ (pp : List (PassIn × PassIn)) (n : Nat) (w w' : W), GoneRun fs w w' pp → GoneRun fs w w' (pp.take n) := by
  intro pp
  induction pp with
  | nil => intro n w w' h; simpa using h
  | cons x r ih =>
    intro n w w' h
    cases n with
    | zero => trivial
    | succ n => exact ⟨h.1, ih n _ _ h.2⟩

theorem GoneRun.nth {fs : Nat} : ∀ (pp : List (PassIn × PassIn)) (n : Nat) (w w' : W) (x : PassIn × PassIn), GoneRun fs w w' pp →
    pp[n]? = some x → GonePass fs (runPasses w ((pp.take n).map (·.1))) (runPasses w' ((pp.take n).map (·.2))) x.1 x.2 := by
  intro pp
  induction pp with
  | nil => intro n w w' x _ hx; simp at hx
  | cons y r ih =>
    intro n w w' x h hx
    cases n with
    | zero =>
      simp only [List.getElem?_cons_zero, Option.some.injEq] at hx
      subst hx
      exact h.1
    | succ n =>
      simp only [List.getElem?_cons_succ] at hx
      rw [List.take_succ_cons, List.map_cons, List.map_cons, runPasses_cons, runPasses_cons]
      exact ih n _ _ x h.2 hx

/-- **what the relation gives for everybody else** (in reachable worlds) -/
theorem BRel.others {fs : Nat} {w w' : W} (h : BRel fs w w') (hi' : IdsFresh w') :
    (∀ g c, cliRec w g = some c → c.fd ≠ fs → cliRec w' g = some c) ∧
    (∀ fd, fd ≠ fs → ClientPf.written w'.sys fd = ClientPf.written w.sys fd) ∧
    w'.devs = w.devs ∧ w'.store = w.store ∧ w'.alNext = w.alNext ∧ w'.exited = w.exited ∧
    w'.clients.filter (fun c => c.fd != fs) = w.clients.filter (fun c => c.fd != fs) := by
  obtain ⟨f1, f2, f3, f4, f5, f6, f7⟩ := coreOf_fields h.core
  have hflt : ∀ l : List Cli, l.filter (nonF (isFd fs)) = l.filter (fun c => c.fd != fs) := by
    intro l
    apply List.filter_congr
    intro c _
    rfl
  refine ⟨?_, ?_, f2, f4, f5, f6, by rw [← hflt, ← hflt, h.tab]⟩
  · intro g c hc hfd
    obtain ⟨hm, hid⟩ := cliRec_mem hc
    have : c ∈ w.clients.filter (nonF (isFd fs)) := List.mem_filter.mpr ⟨hm, by simpa [nonF, isFd] using hfd⟩
    rw [← h.tab] at this
    have := hi'.cliRec_of_mem (List.mem_filter.mp this).1
    rw [hid] at this
    exact this
  · intro fd hfd
    rw [← written_filter fs fd hfd w'.sys, ← written_filter fs fd hfd w.sys, h.sys]

/-- **two runs, `n` passes into them** -/
theorem vanish (fs : Nat) (w w' : W) (pp : List (PassIn × PassIn)) (hr : BRel fs w w') (hs : GoneRun fs w w' pp) (n : Nat) :
    BRel fs (runPasses w ((pp.take n).map (·.1))) (runPasses w' ((pp.take n).map (·.2))) ∧
    ∀ x, pp[n]? = some x →
      passSteps (runPasses w' ((pp.take n).map (·.2))) x.2 = passSteps (runPasses w ((pp.take n).map (·.1))) x.1 := by
  have h := runs_gone fs (pp.take n) w w' hr (hs.take pp n w w')
  exact ⟨h, fun x hx => (daemonPass_gone fs _ _ x.1 x.2 h (hs.nth pp n w w' x hx)).2⟩

theorem runPasses_append (w : W) (a b : List PassIn) : runPasses w (a ++ b) = runPasses (runPasses w a) b := by
  unfold runPasses
  rw [List.foldl_append]

/-- **a stuck phase followed by a vanishing phase**: the relation of the second phase holds throughout the second phase -/
theorem stuck_then_gone (s fs : Nat) (w : W) (pp1 pp2 : List (PassIn × PassIn)) (hi : Iso w)
    (h1 : ∀ c ∈ w.clients, c.fd = fs → c.id = s) (h2 : fs < 1000 + w.nacc) (hs1 : StuckRun fs w pp1)
    (hs2 : GoneRun fs (runPasses w (pp1.map (·.1))) (runPasses w (pp1.map (·.2))) pp2) (n : Nat) :
    BRel fs (runPasses w ((pp1 ++ pp2.take n).map (·.1))) (runPasses w ((pp1 ++ pp2.take n).map (·.2))) := by
  rw [List.map_append, List.map_append, runPasses_append, runPasses_append]
  exact (vanish fs _ _ pp2 (runs_stuck s fs pp1 w w (ARel.init s fs w h1 h2) hi hs1).toB hs2 n).1

theorem find_filter_fd (envs : List FdEnv) (fs fd : Nat) (h : fd ≠ fs) :
    (envs.filter (fun e => e.fd != fs)).find? (·.fd == fd) = envs.find? (·.fd == fd) := by
  induction envs with
  | nil => rfl
  | cons e r ih =>
    rw [List.filter_cons, List.find?_cons]
    by_cases he : e.fd = fs
    · have h1 : (e.fd != fs) = false := by simpa using he
      have h2 : (e.fd == fd) = false := by rw [he]; simpa using fun x => h x.symm
      rw [h1, h2]
      simpa using ih
    · have h1 : (e.fd != fs) = true := by simpa using he
      rw [h1]
      simp only [↓reduceIte]
      rw [List.find?_cons, ih]

/-- the two event lists agree on every descriptor but `fs` when they are equal once the entries for `fs` are removed -/
theorem others_of_filter (envs envs' : List FdEnv) (fs : Nat) (h : envs'.filter (fun e => e.fd != fs) = envs.filter (fun e => e.fd != fs)) :
    ∀ fd, fd ≠ fs → envs'.find? (·.fd == fd) = envs.find? (·.fd == fd) := by
  intro fd hfd
  rw [← find_filter_fd envs' fs fd hfd, ← find_filter_fd envs fs fd hfd, h]

end Pm.Daemon.TwoRun
