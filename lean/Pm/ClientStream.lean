import Pm.ClientProof
/-! Second helper module for C04 (client half), C06, C15: the completion path (`finalReply`, `_act_finish`, the
    telemetry/diagnostic callbacks) and the grammar of the whole output stream. -/
namespace Pm.Daemon.ClientPf
open Pm Pm.Client
open Pm.Dev2 (Dev Action Stmt Plug Arg ExecCtx PState PResult ActErr RxCall Oracle Env CS getArgs)

/-! ### the completion path: `finalReply`, `_act_finish`, the device callbacks -/

def finalInfoCodes : List Nat := [302, 303]
def finalTermCodes : List Nat := [102, 103, 210, 211]

theorem flatMap_render' {α : Type} (l : List α) (g : α → Bytes) (it : α → List Item) (h : ∀ a, g a = render (it a)) :
    l.flatMap g = render (l.flatMap it) := by
  induction l with
  | nil => rfl
  | cons a r ih => simp only [List.flatMap_cons, render_append, ih, h]

theorem bstr_211 : bstr "211 Query completed with errors" ++ crlf = render [Item.line 211 (bstr "Query completed with errors")] := by decide +kernel
theorem bstr_210 : bstr "210 Command completed with errors" ++ crlf = render [Item.line 210 (bstr "Command completed with errors")] := by decide +kernel
theorem bstr_102 : bstr "102 Command completed successfully" ++ crlf = render [Item.line 102 (bstr "Command completed successfully")] := by decide +kernel
theorem bstr_303 : bstr "303 " = code3 303 ++ [32] := by decide +kernel

/-- the terminal line of a query -/
def qryTerm (error : Bool) : Item := if error then .line 211 (bstr "Query completed with errors") else .line 103 (bstr "Query complete")
/-- the terminal line of a power command -/
def comTerm (bad : Bool) : Item := if bad then .line 210 (bstr "Command completed with errors") else .line 102 (bstr "Command completed successfully")

theorem qryTerm_eq (e : Bool) : (if e then bstr "211 Query completed with errors" else bstr "103 Query complete") ++ crlf = render [qryTerm e] := by
  cases e
  · exact bstr_103
  · exact bstr_211
theorem comTerm_eq (e : Bool) : (if e then bstr "210 Command completed with errors" else bstr "102 Command completed successfully") ++ crlf = render [comTerm e] := by
  cases e
  · exact bstr_102
  · exact bstr_210

def stateName (st : Nat) : String := if st == 2 then "on" else if st == 1 then "off" else "unknown"

/-- the entries of the argument list in the order of the target list -/
def entriesOf (c : CmdC) : List ArgC := c.names.filterMap fun n => c.args.find? (·.node == n)

/-- informational items of a final reply (`none`: the sort assertion) -/
def finalInfos (exprange : Bool) (c : CmdC) : Option (List Item) :=
  let entries := entriesOf c
  match c.com with
  | .status | .beacon =>
    if exprange then some (entries.map fun a => Item.line 303 (ofChars a.node ++ bstr ": " ++ bstr (stateName a.state)))
    else do
      let unk ← sortedRanged ((entries.filter (·.state == 0)).map (·.node))
      let on ← sortedRanged ((entries.filter (·.state == 2)).map (·.node))
      let off ← sortedRanged ((entries.filter (·.state == 1)).map (·.node))
      pure [Item.line 302 (bstr "on:      " ++ on), Item.line 302 (bstr "off:     " ++ off), Item.line 302 (bstr "unknown: " ++ unk)]
  | .temp => do
    let lines := entries.flatMap fun a => match a.val with
      | some v => [Item.line 303 (ofChars a.node ++ bstr ": " ++ firstLine v)]
      | none => []
    let missing := (entries.filter (·.val.isNone)).map (·.node)
    let tail ← if missing.isEmpty then some [] else (sortedRanged missing).map fun r => [Item.line 303 (r ++ bstr ": unknown")]
    pure (lines ++ tail)
  | _ => some []

/-- the terminal item of a final reply -/
def finalTerm (c : CmdC) : Item :=
  match c.com with
  | .status | .beacon | .temp => qryTerm c.error
  | _ => comTerm (c.error || (entriesOf c).any (·.result == 1))


theorem stateLine_eq (a : ArgC) :
    bstr "303 " ++ ofChars a.node ++ bstr ": " ++ bstr (if a.state == 2 then "on" else if a.state == 1 then "off" else "unknown") ++ crlf =
      render [Item.line 303 (ofChars a.node ++ bstr ": " ++ bstr (stateName a.state))] := by
  simp [render, Item.render, bstr_303, stateName, List.append_assoc]

theorem bstr_302a : bstr "302 on:      " = code3 302 ++ [32] ++ bstr "on:      " := by decide +kernel
theorem bstr_302b : bstr "302 off:     " = code3 302 ++ [32] ++ bstr "off:     " := by decide +kernel
theorem bstr_302c : bstr "302 unknown: " = code3 302 ++ [32] ++ bstr "unknown: " := by decide +kernel

theorem status302_eq (on off unk : Bytes) :
    bstr "302 on:      " ++ on ++ crlf ++ bstr "302 off:     " ++ off ++ crlf ++ bstr "302 unknown: " ++ unk ++ crlf =
      render [Item.line 302 (bstr "on:      " ++ on), Item.line 302 (bstr "off:     " ++ off), Item.line 302 (bstr "unknown: " ++ unk)] := by
  simp [render, Item.render, bstr_302a, bstr_302b, bstr_302c, List.append_assoc]

theorem statusX_eq (entries : List ArgC) :
    (entries.flatMap fun a => bstr "303 " ++ ofChars a.node ++ bstr ": " ++ bstr (if a.state == 2 then "on" else if a.state == 1 then "off" else "unknown") ++ crlf) =
      render (entries.map fun a => Item.line 303 (ofChars a.node ++ bstr ": " ++ bstr (stateName a.state))) := by
  rw [flatMap_render' _ _ (fun a => [Item.line 303 (ofChars a.node ++ bstr ": " ++ bstr (stateName a.state))]) stateLine_eq]
  congr 1
  induction entries with
  | nil => rfl
  | cons a r ih => rw [List.flatMap_cons, List.map_cons, ih]; rfl

def tempBytes (a : ArgC) : Bytes := match a.val with
  | some v => bstr "303 " ++ ofChars a.node ++ bstr ": " ++ firstLine v ++ crlf
  | none => []
def tempItems (a : ArgC) : List Item := match a.val with
  | some v => [Item.line 303 (ofChars a.node ++ bstr ": " ++ firstLine v)]
  | none => []
theorem tempLine_eq (a : ArgC) : tempBytes a = render (tempItems a) := by
  unfold tempBytes tempItems
  cases a.val with
  | none => rfl
  | some v => simp [render, Item.render, bstr_303, List.append_assoc]

theorem tempUnknown_eq (r : Bytes) : bstr "303 " ++ r ++ bstr ": unknown" ++ crlf = render [Item.line 303 (r ++ bstr ": unknown")] := by
  simp [render, Item.render, bstr_303, List.append_assoc]

theorem qryTail (x : Bytes) (e : Bool) :
    (x ++ if e then bstr "211 Query completed with errors" else bstr "103 Query complete") ++ crlf = x ++ render [qryTerm e] := by
  rw [List.append_assoc, qryTerm_eq]

/-- `finalReply` is the rendering of its items: informational lines, then the terminal line -/
theorem finalReply_eq (ex : Bool) (c : CmdC) :
    finalReply ex c = (finalInfos ex c).map fun infos => render (infos ++ [finalTerm c]) := by
  have hstatus : (Option.map (fun x => (x ++ if c.error = true then bstr "211 Query completed with errors" else bstr "103 Query complete") ++ crlf)
      (if ex = true then
        some ((entriesOf c).flatMap fun a => bstr "303 " ++ ofChars a.node ++ bstr ": " ++ bstr (if a.state == 2 then "on" else if a.state == 1 then "off" else "unknown") ++ crlf)
      else do
        let unk ← sortedRanged (((entriesOf c).filter (·.state == 0)).map (·.node))
        let on ← sortedRanged (((entriesOf c).filter (·.state == 2)).map (·.node))
        let off ← sortedRanged (((entriesOf c).filter (·.state == 1)).map (·.node))
        pure (bstr "302 on:      " ++ on ++ crlf ++ bstr "302 off:     " ++ off ++ crlf ++ bstr "302 unknown: " ++ unk ++ crlf))) =
    Option.map (fun infos => render (infos ++ [qryTerm c.error]))
      (if ex = true then
        some ((entriesOf c).map fun a => Item.line 303 (ofChars a.node ++ bstr ": " ++ bstr (stateName a.state)))
      else do
        let unk ← sortedRanged (((entriesOf c).filter (·.state == 0)).map (·.node))
        let on ← sortedRanged (((entriesOf c).filter (·.state == 2)).map (·.node))
        let off ← sortedRanged (((entriesOf c).filter (·.state == 1)).map (·.node))
        pure [Item.line 302 (bstr "on:      " ++ on), Item.line 302 (bstr "off:     " ++ off), Item.line 302 (bstr "unknown: " ++ unk)]) := by
    cases ex
    · simp only [Bool.false_eq_true, if_false]
      generalize sortedRanged (((entriesOf c).filter (·.state == 0)).map (·.node)) = a
      generalize sortedRanged (((entriesOf c).filter (·.state == 2)).map (·.node)) = b
      generalize sortedRanged (((entriesOf c).filter (·.state == 1)).map (·.node)) = d
      cases a <;> cases b <;> cases d <;> simp only [Option.bind_eq_bind, Option.bind_some, Option.bind_none, Option.pure_def, Option.map_some, Option.map_none, qryTail, status302_eq, render_append]
    · simp only [if_true, Option.map_some, qryTail, statusX_eq, render_append]
  unfold finalReply finalInfos finalTerm
  cases hcom : c.com
  case status => exact hstatus
  case beacon => exact hstatus
  case temp =>
    have htemp : (do
        let tail ← if (((entriesOf c).filter (·.val.isNone)).map (·.node)).isEmpty then some []
          else (sortedRanged (((entriesOf c).filter (·.val.isNone)).map (·.node))).map fun r => bstr "303 " ++ r ++ bstr ": unknown" ++ crlf
        pure ((entriesOf c).flatMap tempBytes ++ tail ++ (if c.error then bstr "211 Query completed with errors" else bstr "103 Query complete") ++ crlf)) =
      Option.map (fun infos => render (infos ++ [qryTerm c.error])) (do
        let tail ← if (((entriesOf c).filter (·.val.isNone)).map (·.node)).isEmpty then some []
          else (sortedRanged (((entriesOf c).filter (·.val.isNone)).map (·.node))).map fun r => [Item.line 303 (r ++ bstr ": unknown")]
        pure ((entriesOf c).flatMap tempItems ++ tail)) := by
      generalize sortedRanged (((entriesOf c).filter (·.val.isNone)).map (·.node)) = a
      generalize (((entriesOf c).filter (·.val.isNone)).map (·.node)).isEmpty = e
      rw [flatMap_render' _ _ _ tempLine_eq]
      cases e <;> cases a <;> simp only [Bool.false_eq_true, if_false, if_true, Option.bind_eq_bind, Option.bind_some, Option.bind_none, Option.pure_def, Option.map_some, Option.map_none, qryTail, render_append, tempUnknown_eq, List.append_nil]
    exact htemp
  all_goals simp only [Option.map_some, List.nil_append, comTerm_eq]; rfl


theorem finalInfos_info (ex : Bool) (c : CmdC) (infos : List Item) (h : finalInfos ex c = some infos) :
    ∀ i ∈ infos, i.lineIn finalInfoCodes = true := by
  unfold finalInfos at h
  cases hcom : c.com <;> simp only [hcom] at h
  case status | beacon =>
    split at h
    · cases h; intro i hi; simp at hi; obtain ⟨a, _, rfl⟩ := hi; rfl
    · simp only [Option.bind_eq_bind, Option.pure_def, Option.bind_eq_some_iff] at h
      obtain ⟨_, _, _, _, _, _, h⟩ := h
      cases h; intro i hi; simp at hi; rcases hi with rfl | rfl | rfl <;> rfl
  case temp =>
    generalize (((entriesOf c).filter (·.val.isNone)).map (·.node)).isEmpty = e at h
    have h : ∃ tail, (if e = true then some [] else Option.map (fun r => [Item.line 303 (r ++ bstr ": unknown")])
        (sortedRanged (((entriesOf c).filter (·.val.isNone)).map (·.node)))) = some tail ∧
        some ((entriesOf c).flatMap tempItems ++ tail) = some infos := by
      cases e
      · simp only [Bool.false_eq_true, if_false] at h ⊢
        cases hs : sortedRanged (((entriesOf c).filter (·.val.isNone)).map (·.node)) with
        | none => rw [hs] at h; simp at h
        | some r => rw [hs] at h; exact ⟨_, rfl, h⟩
      · exact ⟨[], rfl, h⟩
    obtain ⟨tail, ht, h⟩ := h
    cases h
    intro i hi
    rcases List.mem_append.mp hi with hi | hi
    · rw [List.mem_flatMap] at hi
      obtain ⟨a, _, hia⟩ := hi
      unfold tempItems at hia
      cases hv : a.val <;> simp [hv] at hia
      subst hia; rfl
    · split at ht
      · cases ht; simp at hi
      · simp only [Option.map_eq_some_iff] at ht
        obtain ⟨r, _, rfl⟩ := ht
        simp at hi; subst hi; rfl
  all_goals (cases h; simp)

theorem finalTerm_spec (c : CmdC) : ∃ code text, finalTerm c = Item.line code text ∧ code ∈ finalTermCodes ∧ cleanText text = true := by
  unfold finalTerm
  cases c.com <;> simp only [qryTerm, comTerm] <;> split <;>
    first
    | exact ⟨211, _, rfl, by decide, by decide +kernel⟩
    | exact ⟨103, _, rfl, by decide, by decide +kernel⟩
    | exact ⟨210, _, rfl, by decide, by decide +kernel⟩
    | exact ⟨102, _, rfl, by decide, by decide +kernel⟩

/-! ### `_act_finish` -/

def finishText (err : ActErr) (name : Bytes) : Bytes :=
  match err with
  | .expfail => name ++ bstr ": action timed out waiting for expected response"
  | .abort => name ++ bstr ": action aborted due to previous action timeout"
  | .connectTimeout => name ++ bstr ": connect timeout"
  | .loginTimeout => name ++ bstr ": login timeout"
  | .success => []

/-- the `308` line `_act_finish` writes at once for a failed action -/
def finishPre (err : ActErr) (name : Bytes) : List Item := if err != .success then [Item.line 308 (finishText err name)] else []

theorem bstr_308 : bstr "308 " = code3 308 ++ [32] := by decide +kernel

/-- the command with the error flag of this completion merged in and the argument list of the store attached -/
def finishCmd (w : W) (k : CmdC) (err : ActErr) : CmdC :=
  { k with error := k.error || (err != .success), args := (storeArgs w k.al).map argC }

theorem actFinish_eq (w : W) (id : Nat) (err : ActErr) (name : Bytes) :
    actFinish w id err name =
      match w.clients.find? (·.id == id) with
      | none => (w, false)
      | some c =>
        match c.cmd with
        | none => (w, true)
        | some k =>
          if k.pending == 1 then
            match finalInfos c.exprange (finishCmd w k err) with
            | some infos => (updCli w c.id fun c => put { c with cmd := none }
                (render (finishPre err name ++ infos ++ [finalTerm (finishCmd w k err), Item.prompt])), false)
            | none => (w, true)
          else (updCli w c.id fun c => put { c with cmd := some { k with error := k.error || (err != .success), pending := k.pending - 1 } }
                (render (finishPre err name)), false) := by
  have hpre : (if (err != ActErr.success) = true then bstr "308 " ++ finishText err name ++ crlf else []) = render (finishPre err name) := by
    unfold finishPre; split
    · simp [render, Item.render, bstr_308]
    · rfl
  unfold actFinish
  cases hf : List.find? (fun x => x.id == id) w.clients with
  | none => rfl
  | some c =>
    dsimp only
    cases hk : c.cmd with
    | none => rfl
    | some k =>
      dsimp only
      rw [finalReply_eq]
      show (if (k.pending == 1) = true then
          match Option.map (fun infos => render (infos ++ [finalTerm (finishCmd w k err)])) (finalInfos c.exprange (finishCmd w k err)) with
          | some r => (updCli w c.id fun c => put { c with cmd := none } ((if (err != ActErr.success) = true then bstr "308 " ++ finishText err name ++ crlf else []) ++ r ++ prompt), false)
          | none => (w, true)
        else (updCli w c.id fun c => put { c with cmd := some { k with error := k.error || (err != .success), pending := k.pending - 1 } }
          (if (err != ActErr.success) = true then bstr "308 " ++ finishText err name ++ crlf else []), false)) = _
      rw [hpre]
      split
      · cases finalInfos c.exprange (finishCmd w k err) with
        | none => rfl
        | some infos =>
          simp only [Option.map_some]
          congr 2; funext c; congr 1
          simp [render_append, render_cons, Item.render, List.append_assoc]
      · rfl


/-! ### what the completion path appends, as item chunks -/

def progressCodes : List Nat := [305, 308, 309]

/-- a chunk written while the command is still running: `305` telemetry, `308` action error, `309` diagnostic lines -/
def Progress (items : List Item) : Prop := ∀ i ∈ items, i.lineIn progressCodes = true

/-- the chunk written when the last action reports back: an optional `308`, the `302`/`303` lines, exactly one terminal
    line (`102`/`103`/`210`/`211`) and the prompt -/
def FinalReply (items : List Item) : Prop :=
  ∃ pre infos code text, items = pre ++ infos ++ [Item.line code text, Item.prompt] ∧
    (∀ i ∈ pre, i.lineIn [308] = true) ∧ (∀ i ∈ infos, i.lineIn finalInfoCodes = true) ∧
    code ∈ finalTermCodes ∧ cleanText text = true

/-- a sequence of such chunks -/
inductive Chunks : List Item → Prop where
  | nil : Chunks []
  | snoc {a b : List Item} : Chunks a → (Progress b ∨ FinalReply b) → Chunks (a ++ b)

theorem Chunks.one {b : List Item} (h : Progress b ∨ FinalReply b) : Chunks b := by
  simpa using Chunks.snoc Chunks.nil h

theorem Chunks.append {a b : List Item} (ha : Chunks a) (hb : Chunks b) : Chunks (a ++ b) := by
  induction hb with
  | nil => simpa using ha
  | snoc _ hc ih => rw [← List.append_assoc]; exact .snoc ih hc

/-- `y` is `x` with `render items` appended to `to`; `cmd` may change, nothing else does -/
structure Appends (x y : Cli) (items : List Item) : Prop where
  buf : y.toBuf = x.toBuf ++ render items
  id : y.id = x.id
  fd : y.fd = x.fd
  quit : y.quit = x.quit
  fromBuf : y.fromBuf = x.fromBuf
  telemetry : y.telemetry = x.telemetry
  exprange : y.exprange = x.exprange
  blocking : y.blocking = x.blocking

theorem Appends.refl (x : Cli) : Appends x x [] := ⟨by simp, rfl, rfl, rfl, rfl, rfl, rfl, rfl⟩

theorem Appends.trans {x y z : Cli} {a b : List Item} (h1 : Appends x y a) (h2 : Appends y z b) : Appends x z (a ++ b) :=
  ⟨by rw [h2.buf, h1.buf, render_append, List.append_assoc], h2.id.trans h1.id, h2.fd.trans h1.fd, h2.quit.trans h1.quit,
   h2.fromBuf.trans h1.fromBuf, h2.telemetry.trans h1.telemetry, h2.exprange.trans h1.exprange, h2.blocking.trans h1.blocking⟩

theorem put_appends (x : Cli) (cmd : Option CmdC) (items : List Item) : Appends x (put { x with cmd := cmd } (render items)) items :=
  ⟨rfl, rfl, rfl, rfl, rfl, rfl, rfl, rfl⟩

theorem finishPre_308 (err : ActErr) (name : Bytes) : ∀ i ∈ finishPre err name, i.lineIn [308] = true := by
  unfold finishPre; split
  · intro i hi; simp at hi; subst hi; rfl
  · simp

/-- the outcome of `_act_finish` -/
inductive FinishOutcome (w : W) (id : Nat) (err : ActErr) (name : Bytes) (r : W × Bool) : Prop where
  /-- the client has gone: nothing happens -/
  | gone (h : w.clients.find? (·.id == id) = none) (hr : r = (w, false))
  /-- `assert(c->cmd != NULL)` -/
  | noCmd (c : Cli) (h : w.clients.find? (·.id == id) = some c) (hc : c.cmd = none) (hr : r = (w, true))
  /-- the sort assertion inside the final reply -/
  | sortAbort (c : Cli) (k : CmdC) (h : w.clients.find? (·.id == id) = some c) (hc : c.cmd = some k) (hp : k.pending = 1)
      (hn : finalInfos c.exprange (finishCmd w k err) = none) (hr : r = (w, true))
  /-- more actions outstanding: at most a `308` line, `pending` decremented -/
  | progress (c : Cli) (k : CmdC) (h : w.clients.find? (·.id == id) = some c) (hc : c.cmd = some k) (hp : k.pending ≠ 1)
      (hr : r = (updCli w id (fun x => put { x with cmd := some { k with error := k.error || (err != .success), pending := k.pending - 1 } }
              (render (finishPre err name))), false))
  /-- the last action: the final reply and the prompt, `cmd` cleared -/
  | final (c : Cli) (k : CmdC) (items : List Item) (h : w.clients.find? (·.id == id) = some c) (hc : c.cmd = some k) (hp : k.pending = 1)
      (hi : FinalReply items) (hr : r = (updCli w id (fun x => put { x with cmd := none } (render items)), false))

theorem actFinish_shape (w : W) (id : Nat) (err : ActErr) (name : Bytes) : FinishOutcome w id err name (actFinish w id err name) := by
  rw [actFinish_eq]
  cases hf : List.find? (fun x => x.id == id) w.clients with
  | none => exact .gone hf rfl
  | some c =>
    have hid : c.id = id := by have := List.find?_some hf; simpa using this
    dsimp only
    cases hk : c.cmd with
    | none => exact .noCmd c hf hk rfl
    | some k =>
      dsimp only
      split
      · rename_i hp
        have hp : k.pending = 1 := by simpa using hp
        cases hi : finalInfos c.exprange (finishCmd w k err) with
        | none => exact .sortAbort c k hf hk hp hi rfl
        | some infos =>
          obtain ⟨code, text, ht, hcode, hclean⟩ := finalTerm_spec (finishCmd w k err)
          refine .final c k _ hf hk hp ⟨finishPre err name, infos, code, text, by rw [← ht], finishPre_308 err name,
            finalInfos_info _ _ _ hi, hcode, hclean⟩ (by rw [hid])
      · rename_i hp
        exact .progress c k hf hk (by simpa using hp) (by rw [hid])


/-! ### `applyOuts`: the device callbacks of one device pass -/

/-- the text of a `305` line: the device's telemetry text with `(dev)` replaced by the device name -/
def teleText (name t : Bytes) : Bytes :=
  ((String.fromUTF8! ⟨t.toArray⟩).replace "(dev)" ("(" ++ String.fromUTF8! ⟨name.toArray⟩ ++ ")")).toUTF8.toList

def outStep (name : Bytes) (acc : W × List String) (o : Pm.Dev2.Out) : W × List String :=
  match o with
  | .finish cid e => ((actFinish acc.1 cid e name).1, if (actFinish acc.1 cid e name).2 then acc.2 ++ ["O ABORT act_finish"] else acc.2)
  | .telemetry cid t => (updCli acc.1 cid fun c => put c (render [Item.line 305 (teleText name t)]), acc.2)
  | .diag cid t => (updCli acc.1 cid fun c => put c (render [Item.line 309 t]), acc.2)
  | .sent _ => acc
  | .rxMismatch want got => (acc.1, acc.2 ++ [s!"O RXMISMATCH want pat {want.pat} subj {hexOf want.subject} asked pat {got.1} subj {hexOf got.2}"])
  | .abortAssert site => (acc.1, acc.2 ++ [s!"O ABORT {site}"])

theorem bstr_305 : bstr "305 " = code3 305 ++ [32] := by decide +kernel
theorem bstr_309 : bstr "309 " = code3 309 ++ [32] := by decide +kernel

theorem applyOuts_eq (w : W) (name : Bytes) (outs : List Pm.Dev2.Out) :
    applyOuts w name outs = outs.foldl (outStep name) (w, []) := by
  unfold applyOuts
  congr 1
  funext acc o
  obtain ⟨w, msgs⟩ := acc
  cases o with
  | telemetry cid t => simp [outStep, teleText, render, Item.render, bstr_305]
  | diag cid t => simp [outStep, render, Item.render, bstr_309]
  | _ => rfl

/-- the clients of `w'` are those of `w`, each with a sequence of completion chunks appended; nothing else in the world
    changes -/
def ClientsAppended (w w' : W) : Prop :=
  { w' with clients := w.clients } = w ∧
  ∃ G : Cli → Cli, w'.clients = w.clients.map G ∧ ∀ x, ∃ items, Appends x (G x) items ∧ Chunks items

theorem ClientsAppended.refl (w : W) : ClientsAppended w w :=
  ⟨rfl, id, by simp, fun x => ⟨[], .refl x, .nil⟩⟩

theorem ClientsAppended.trans {a b c : W} (h1 : ClientsAppended a b) (h2 : ClientsAppended b c) : ClientsAppended a c := by
  obtain ⟨e1, G1, hg1, hG1⟩ := h1
  obtain ⟨e2, G2, hg2, hG2⟩ := h2
  refine ⟨?_, G2 ∘ G1, by rw [hg2, hg1, List.map_map], fun x => ?_⟩
  · rw [← e1, ← e2]
  · obtain ⟨i1, a1, c1⟩ := hG1 x
    obtain ⟨i2, a2, c2⟩ := hG2 (G1 x)
    exact ⟨i1 ++ i2, a1.trans a2, c1.append c2⟩

theorem updCli_appended (w : W) (id : Nat) (f : Cli → Cli) (items : List Item) (hf : ∀ x, Appends x (f x) items)
    (hc : Progress items ∨ FinalReply items) : ClientsAppended w (updCli w id f) := by
  refine ⟨rfl, fun x => if x.id == id then f x else x, rfl, fun x => ?_⟩
  dsimp only
  split
  · exact ⟨items, hf x, .one hc⟩
  · exact ⟨[], .refl x, .nil⟩

theorem actFinish_appended (w : W) (id : Nat) (err : ActErr) (name : Bytes) : ClientsAppended w (actFinish w id err name).1 := by
  cases actFinish_shape w id err name with
  | gone h hr => rw [hr]; exact .refl w
  | noCmd c h hc hr => rw [hr]; exact .refl w
  | sortAbort c k h hc hp hn hr => rw [hr]; exact .refl w
  | progress c k h hc hp hr =>
    rw [hr]; exact updCli_appended w id _ _ (fun x => put_appends x _ _) (Or.inl fun i hi => lineIn_mono (by decide) i (finishPre_308 err name i hi))
  | final c k items h hc hp hi hr =>
    rw [hr]; exact updCli_appended w id _ _ (fun x => put_appends x _ _) (Or.inr hi)

theorem outStep_appended (name : Bytes) (acc : W × List String) (o : Pm.Dev2.Out) : ClientsAppended acc.1 (outStep name acc o).1 := by
  cases o with
  | finish cid e => exact actFinish_appended acc.1 cid e name
  | telemetry cid t =>
    exact updCli_appended acc.1 cid _ [Item.line 305 (teleText name t)] (fun x => put_appends x x.cmd _) (Or.inl (by intro i hi; simp at hi; subst hi; rfl))
  | diag cid t =>
    exact updCli_appended acc.1 cid _ [Item.line 309 t] (fun x => put_appends x x.cmd _) (Or.inl (by intro i hi; simp at hi; subst hi; rfl))
  | _ => exact .refl _

/-- whatever a device pass reports, every client only gets completion chunks appended -/
theorem applyOuts_shape (w : W) (name : Bytes) (outs : List Pm.Dev2.Out) : ClientsAppended w (applyOuts w name outs).1 := by
  rw [applyOuts_eq]
  have : ∀ (l : List Pm.Dev2.Out) (acc : W × List String), ClientsAppended acc.1 (l.foldl (outStep name) acc).1 := by
    intro l; induction l with
    | nil => intro acc; exact .refl _
    | cons o r ih => intro acc; exact (outStep_appended name acc o).trans (ih _)
  exact this outs (w, [])


/-! ### the grammar of the whole output stream -/

/-- documented informational codes (`client_proto.h`) -/
def infoCodes : List Nat := [301, 302, 303, 304, 305, 306, 307, 308, 309]
/-- documented terminal codes after which the prompt may be re-issued (`208` is handled separately: never a prompt) -/
def termCodes : List Nat := [101, 102, 103, 104, 105, 201, 202, 203, 204, 205, 209, 210, 211, 213]

inductive SState where
  | start      -- nothing sent yet: the banner must come
  | banner     -- banner sent: the prompt must come
  | noPrompt   -- after a prompt, a 3xx line or a 208 line: a prompt is not allowed here
  | afterTerm  -- directly after a terminal line: a prompt is allowed
deriving DecidableEq, Repr

def SState.live : SState → Bool
  | .noPrompt | .afterTerm => true
  | _ => false

/-- one step of the recogniser -/
def sstep : SState → Item → Option SState
  | .start, .line c _ => if c == 1 then some .banner else none
  | .start, .prompt => none
  | .banner, .prompt => some .noPrompt
  | .banner, .line _ _ => none
  | .noPrompt, .prompt => none
  | .afterTerm, .prompt => some .noPrompt
  | _, .line c _ =>
    if infoCodes.contains c || c == 208 then some .noPrompt
    else if termCodes.contains c then some .afterTerm
    else none

def srun : SState → List Item → Option SState
  | s, [] => some s
  | s, i :: r => match sstep s i with
    | some s' => srun s' r
    | none => none

/-- prefix validity of a server output stream: the `001` banner, a prompt, then lines with documented codes where a
    prompt occurs only directly after a terminal (1xx/2xx, not 208) line -/
def wfStream (items : List Item) : Bool := (srun .start items).isSome

theorem srun_append (s : SState) (a b : List Item) : srun s (a ++ b) = (srun s a).bind fun s' => srun s' b := by
  induction a generalizing s with
  | nil => rfl
  | cons i r ih =>
    simp only [List.cons_append, srun]
    cases sstep s i with
    | none => rfl
    | some s' => exact ih s'

theorem sstep_line_live (s : SState) (hs : s.live = true) (c : Nat) (t : Bytes) (hc : c ∈ infoCodes ∨ c = 208) :
    sstep s (.line c t) = some .noPrompt := by
  have : (infoCodes.contains c || c == 208) = true := by
    rcases hc with h | h
    · rw [List.contains_iff_mem.mpr h]; rfl
    · simp [h]
  cases s <;> simp_all [sstep, SState.live]

theorem sstep_term_live (s : SState) (hs : s.live = true) (c : Nat) (t : Bytes) (hc : c ∈ termCodes) :
    sstep s (.line c t) = some .afterTerm := by
  have h1 : (infoCodes.contains c || c == 208) = false := by
    have : ∀ c ∈ termCodes, (infoCodes.contains c || c == 208) = false := by decide
    exact this c hc
  have h2 : termCodes.contains c = true := List.contains_iff_mem.mpr hc
  cases s <;> simp_all [sstep, SState.live]

/-- informational (and 208) lines keep a live stream live, in the state where no prompt is allowed -/
theorem srun_infos (s : SState) (hs : s.live = true) (l : List Item) (cs : List Nat) (hcs : ∀ c ∈ cs, c ∈ infoCodes ∨ c = 208)
    (hl : ∀ i ∈ l, i.lineIn cs = true) : ∃ s', srun s l = some s' ∧ s'.live = true ∧ (l ≠ [] → s' = .noPrompt) := by
  induction l generalizing s with
  | nil => exact ⟨s, rfl, hs, fun h => absurd rfl h⟩
  | cons i r ih =>
    cases i with
    | prompt => have := hl .prompt (by simp); simp [Item.lineIn] at this
    | line c t =>
      have hc : c ∈ cs := by have := hl (.line c t) (by simp); simpa [Item.lineIn] using this
      simp only [srun, sstep_line_live s hs c t (hcs c hc)]
      obtain ⟨s', h1, h2, h3⟩ := ih .noPrompt rfl (fun i hi => hl i (by simp [hi]))
      refine ⟨s', h1, h2, fun _ => ?_⟩
      cases r with
      | nil => simpa [srun] using h1.symm
      | cons _ _ => exact h3 (by simp)


/-- a reply of the shape `3xx* terminal [prompt]` keeps a live stream live -/
theorem srun_reply (s : SState) (hs : s.live = true) (ics tcs : List Nat) (pr : Nat → Bool) (items : List Item)
    (hics : ∀ c ∈ ics, c ∈ infoCodes) (htcs : ∀ c ∈ tcs, c ∈ termCodes ∨ c = 208) (hpr : ∀ c, pr c = true → c ≠ 208)
    (h : Reply ics tcs pr items) : ∃ s', srun s items = some s' ∧ s'.live = true := by
  obtain ⟨infos, code, text, rfl, hi, hc⟩ := h
  obtain ⟨s1, h1, hl1, _⟩ := srun_infos s hs infos ics (fun c hc => Or.inl (hics c hc)) hi
  rw [srun_append, srun_append, h1]
  simp only [Option.bind_some, srun]
  rcases htcs code hc with ht | h208
  · rw [sstep_term_live s1 hl1 code text ht]
    simp only [Option.bind_some]
    split
    · exact ⟨.noPrompt, rfl, rfl⟩
    · exact ⟨.afterTerm, rfl, rfl⟩
  · rw [sstep_line_live s1 hl1 code text (Or.inr h208)]
    simp only [Option.bind_some]
    split
    · rename_i hp; exact absurd h208 (hpr code hp)
    · exact ⟨.noPrompt, rfl, rfl⟩

theorem srun_progress (s : SState) (hs : s.live = true) (items : List Item) (h : Progress items) :
    ∃ s', srun s items = some s' ∧ s'.live = true := by
  obtain ⟨s', h1, h2, _⟩ := srun_infos s hs items progressCodes (by decide) h
  exact ⟨s', h1, h2⟩

theorem srun_final (s : SState) (hs : s.live = true) (items : List Item) (h : FinalReply items) :
    srun s items = some .noPrompt := by
  obtain ⟨pre, infos, code, text, rfl, hp, hi, hc, _⟩ := h
  obtain ⟨s1, h1, hl1, _⟩ := srun_infos s hs pre [308] (by decide) hp
  obtain ⟨s2, h2, hl2, _⟩ := srun_infos s1 hl1 infos finalInfoCodes (by decide) hi
  have ht : code ∈ termCodes := by
    have : ∀ c ∈ finalTermCodes, c ∈ termCodes := by decide
    exact this code hc
  rw [srun_append, srun_append, h1]
  simp only [Option.bind_some, h2, srun, sstep_term_live s2 hl2 code text ht]
  rfl

theorem srun_chunks (s : SState) (hs : s.live = true) (items : List Item) (h : Chunks items) :
    ∃ s', srun s items = some s' ∧ s'.live = true := by
  induction h with
  | nil => exact ⟨s, rfl, hs⟩
  | snoc _ hb ih =>
    obtain ⟨s1, h1, hl1⟩ := ih
    rw [srun_append, h1]
    simp only [Option.bind_some]
    rcases hb with hb | hb
    · exact srun_progress s1 hl1 _ hb
    · exact ⟨.noPrompt, srun_final s1 hl1 _ hb, rfl⟩

/-- `bytes` is a grammatical stream of clean protocol lines that has got past the banner and the first prompt -/
def StreamOK (bytes : Bytes) : Prop :=
  ∃ items s, bytes = render items ∧ srun .start items = some s ∧ s.live = true ∧ ∀ i ∈ items, i.clean = true

theorem StreamOK.wf {bytes : Bytes} (h : StreamOK bytes) : ∃ items, bytes = render items ∧ wfStream items = true ∧ ∀ i ∈ items, i.clean = true := by
  obtain ⟨items, s, h1, h2, _, h4⟩ := h
  exact ⟨items, h1, by simp [wfStream, h2], h4⟩

/-- appending item lists that keep a live state live preserves `StreamOK` -/
theorem StreamOK.extend {bytes : Bytes} (h : StreamOK bytes) (items : List Item)
    (hrun : ∀ s : SState, s.live = true → ∃ s', srun s items = some s' ∧ s'.live = true)
    (hclean : ∀ i ∈ items, i.clean = true) : StreamOK (bytes ++ render items) := by
  obtain ⟨items0, s, h1, h2, h3, h4⟩ := h
  obtain ⟨s', h5, h6⟩ := hrun s h3
  refine ⟨items0 ++ items, s', by rw [h1, render_append], by rw [srun_append, h2]; exact h5, h6, ?_⟩
  intro i hi; rcases List.mem_append.mp hi with hi | hi
  · exact h4 i hi
  · exact hclean i hi

/-- the banner and the first prompt start a stream -/
theorem banner_streamOK (w : W) (hv : cleanText w.cfg.version = true) : StreamOK (newClient w).toBuf := by
  refine ⟨[Item.line 1 w.cfg.version, Item.prompt], .noPrompt, newClient_banner w, rfl, rfl, ?_⟩
  intro i hi; simp at hi; rcases hi with rfl | rfl
  · exact hv
  · rfl

/-- every item of `items` that embeds data (code in `dcs`) is a clean line -/
def DataClean (dcs : List Nat) (items : List Item) : Prop := ∀ i ∈ items, i.lineIn dcs = true → i.clean = true

theorem clean_of_fixed_data {dcs : List Nat} {items : List Item} (hf : FixedClean dcs items) (hd : DataClean dcs items) :
    ∀ i ∈ items, i.clean = true := by
  intro i hi
  cases h : i.lineIn dcs
  · exact hf i hi h
  · exact hd i hi h

/-- preservation over one request line: the line is answered by an item list of the reply shape (or installs a command,
    or the daemon exits through the sort assertion); if the data-carrying lines of the answer are clean, the client's
    cumulative output stays a grammatical stream -/
theorem parseLine_stream (pre : Bytes) (w : W) (c : Cli) (line : Bytes) (h : StreamOK (pre ++ outOf w c)) :
    (parseLine w c line).1.exited = true ∨
    (∃ items, outOf (parseLine w c line).1 (parseLine w c line).2 = outOf w c ++ render items ∧
      (items = [] ∨ Reply infoCodesP termCodesP (promptAfter (parseLine w c line).2.quit) items) ∧
      FixedClean dataCodesP items ∧
      (DataClean dataCodesP items → StreamOK (pre ++ outOf (parseLine w c line).1 (parseLine w c line).2))) := by
  cases parseLine_shape w c line with
  | exit h _ => left; rw [h]
  | reply items shape out buf cmd ex clean prompted =>
    right
    refine ⟨items, out, Or.inr shape, clean, fun hd => ?_⟩
    rw [out, ← List.append_assoc]
    refine h.extend items (fun s hs => ?_) (clean_of_fixed_data clean hd)
    exact srun_reply s hs _ _ _ items (by decide) (by decide) (by intro c hc; simp [promptAfter] at hc; exact hc.1.1) shape
  | installed k idle cmd pending buf sys ex =>
    right
    have hfd := (parseLine_frame w c line).fd
    have : outOf (parseLine w c line).1 (parseLine w c line).2 = outOf w c := by simp [outOf, buf, sys, hfd]
    exact ⟨[], by simp [this], Or.inl rfl, fun _ h => by simp at h, fun _ => by rw [this]; exact h⟩

/-- preservation over the device callbacks of a pass (`_act_finish`, telemetry, diagnostics): every client gets a sequence
    of completion chunks appended, and if those lines are clean its output stays a grammatical stream -/
theorem applyOuts_stream (w : W) (name : Bytes) (outs : List Pm.Dev2.Out) :
    ∃ G : Cli → Cli, (applyOuts w name outs).1.clients = w.clients.map G ∧
      ∀ x, ∃ items, Appends x (G x) items ∧ Chunks items ∧
        ∀ pre, StreamOK (pre ++ x.toBuf) → (∀ i ∈ items, i.clean = true) → StreamOK (pre ++ (G x).toBuf) := by
  obtain ⟨_, G, hG, hx⟩ := applyOuts_shape w name outs
  refine ⟨G, hG, fun x => ?_⟩
  obtain ⟨items, ha, hc⟩ := hx x
  refine ⟨items, ha, hc, fun pre hs hcl => ?_⟩
  rw [ha.buf, ← List.append_assoc]
  exact hs.extend items (fun s hs => srun_chunks s hs items hc) hcl

theorem actFinish_stream (w : W) (id : Nat) (err : ActErr) (name : Bytes) :
    ∃ G : Cli → Cli, (actFinish w id err name).1.clients = w.clients.map G ∧
      ∀ x, ∃ items, Appends x (G x) items ∧ Chunks items ∧
        ∀ pre, StreamOK (pre ++ x.toBuf) → (∀ i ∈ items, i.clean = true) → StreamOK (pre ++ (G x).toBuf) := by
  obtain ⟨_, G, hG, hx⟩ := actFinish_appended w id err name
  refine ⟨G, hG, fun x => ?_⟩
  obtain ⟨items, ha, hc⟩ := hx x
  refine ⟨items, ha, hc, fun pre hs hcl => ?_⟩
  rw [ha.buf, ← List.append_assoc]
  exact hs.extend items (fun s hs => srun_chunks s hs items hc) hcl


/-! ### `_handle_input`: one answer per complete line -/

/-- a chunk answering one request line: empty when the line installed a command, else `3xx* terminal [prompt]` -/
def AnswerChunk (ch : List Item) : Prop := ch = [] ∨ ((∃ q, Reply infoCodesP termCodesP (promptAfter q) ch) ∧ FixedClean dataCodesP ch)

theorem Reply.ne_nil {ics tcs : List Nat} {pr : Nat → Bool} {items : List Item} (h : Reply ics tcs pr items) : items ≠ [] := by
  obtain ⟨infos, code, text, rfl, _⟩ := h
  simp

/-- the outcome of `runLines`, hence of `_handle_input`: unless the daemon exits, there is exactly one chunk per line, in
    order; at most one of them is empty (a command was installed — possible only when none was in progress) -/
theorem runLines_answers : ∀ (ls : List Bytes) (w : W) (c : Cli),
    (runLines w c ls).1.exited = true ∨
    ∃ chunks : List (List Item), chunks.length = ls.length ∧
      outOf (runLines w c ls).1 (runLines w c ls).2 = outOf w c ++ render chunks.flatten ∧
      (∀ ch ∈ chunks, AnswerChunk ch) ∧
      (((runLines w c ls).2.cmd = c.cmd ∧ chunks.count [] = 0) ∨
       (c.cmd = none ∧ ∃ k, (runLines w c ls).2.cmd = some k ∧ 0 < k.pending ∧ chunks.count [] = 1)) := by
  intro ls; induction ls with
  | nil => intro w c; right; exact ⟨[], rfl, by simp [runLines], by simp, Or.inl ⟨rfl, rfl⟩⟩
  | cons l ls ih =>
    intro w c
    unfold runLines
    by_cases hex : w.exited = true
    · left; rw [if_pos hex]; exact hex
    · rw [if_neg hex]
      generalize hc1 : ({ c with fromBuf := c.fromBuf.drop l.length } : Cli) = c1
      have ho : outOf w c1 = outOf w c := by subst hc1; rfl
      have hcmd : c1.cmd = c.cmd := by subst hc1; rfl
      cases parseLine_shape w c1 l with
      | exit h _ => left; rw [h, runLines_exited _ _ _ rfl]
      | reply items shape out buf cmd ex clean prompted =>
        rcases ih (parseLine w c1 l).1 (parseLine w c1 l).2 with h | ⟨chunks, hlen, hout, hch, hcnt⟩
        · exact Or.inl h
        · right
          refine ⟨items :: chunks, by simp [hlen], ?_, ?_, ?_⟩
          · rw [hout, out, ho]; simp [List.append_assoc]
          · intro ch hch'; simp only [List.mem_cons] at hch'
            rcases hch' with rfl | hch'
            · exact Or.inr ⟨⟨_, shape⟩, clean⟩
            · exact hch ch hch'
          · have hne : items ≠ [] := shape.ne_nil
            have hc0 : (items :: chunks).count [] = chunks.count [] := by
              rw [List.count_cons]; simp [hne]
            rw [hc0, ← hcmd, ← cmd]
            exact hcnt
      | installed k idle cmd pending buf sys ex =>
        rcases ih (parseLine w c1 l).1 (parseLine w c1 l).2 with h | ⟨chunks, hlen, hout, hch, hcnt⟩
        · exact Or.inl h
        · right
          have hfd := (parseLine_frame w c1 l).fd
          have hout1 : outOf (parseLine w c1 l).1 (parseLine w c1 l).2 = outOf w c := by
            rw [← ho]; simp [outOf, buf, sys, hfd]
          refine ⟨[] :: chunks, by simp [hlen], ?_, ?_, Or.inr ⟨by rw [← hcmd]; exact idle, ?_⟩⟩
          · rw [hout, hout1]; simp
          · intro ch hch'; simp only [List.mem_cons] at hch'
            rcases hch' with rfl | hch'
            · exact Or.inl rfl
            · exact hch ch hch'
          · rcases hcnt with ⟨h1, h2⟩ | ⟨h1, _⟩
            · exact ⟨k, by rw [h1, cmd], pending, by rw [List.count_cons]; simp [h2]⟩
            · rw [cmd] at h1; cases h1

/-- C04/C06 at the level of `_handle_input`: every complete line in `from` gets exactly one answer chunk, in order -/
theorem handleInput_answers (w : W) (c : Cli) :
    (handleInput w c).1.exited = true ∨
    ∃ chunks : List (List Item), chunks.length = (linesOf c.fromBuf).1.length ∧
      outOf (handleInput w c).1 (handleInput w c).2 = outOf w c ++ render chunks.flatten ∧
      (∀ ch ∈ chunks, AnswerChunk ch) ∧
      (((handleInput w c).2.cmd = c.cmd ∧ chunks.count [] = 0) ∨
       (c.cmd = none ∧ ∃ k, (handleInput w c).2.cmd = some k ∧ 0 < k.pending ∧ chunks.count [] = 1)) := by
  rw [handleInput_lines]; exact runLines_answers _ w c


/-! ### C06: the only way out is the sort assertion -/

/-- `hostlist_sort` never trips `assert(hostrange_cmp(h1, h2) <= 0)` (known finding F19 says it can) — nor, in the logic,
    exhausts the iteration bound of its mirror (`SortRes.Died` covers both; the second is a modelling artefact) -/
def NoSortAbort : Prop := ∀ hl, ¬ (sortHL hl).Died

theorem parseLine_exited (hs : NoSortAbort) (w : W) (c : Cli) (line : Bytes) : (parseLine w c line).1.exited = w.exited := by
  cases parseLine_shape w c line with
  | exit h cause =>
    rcases cause with h1 | ⟨nd, _, h1⟩
    · exact absurd h1 (hs _)
    · exact absurd h1 (hs _)
  | reply items shape out buf cmd ex clean prompted => exact ex
  | installed k idle cmd pending buf sys ex => exact ex

theorem runLines_exited_eq (hs : NoSortAbort) : ∀ (ls : List Bytes) (w : W) (c : Cli), (runLines w c ls).1.exited = w.exited := by
  intro ls; induction ls with
  | nil => intro w c; rfl
  | cons l ls ih =>
    intro w c
    unfold runLines
    split
    · rfl
    · rw [ih, parseLine_exited hs]

theorem handleInput_exited (hs : NoSortAbort) (w : W) (c : Cli) : (handleInput w c).1.exited = w.exited := by
  rw [handleInput_lines]; exact runLines_exited_eq hs _ w c

theorem handleWrite_exited (w : W) (c : Cli) : (handleWrite w c).1.exited = w.exited := by
  unfold handleWrite
  dsimp only
  repeat' split
  all_goals rfl

/-! `clientPass` cut into its stages -/

def cpRev (c : Cli) (e : Option FdEnv) : Nat :=
  let interest := (if c.quit then 0 else 1) ||| (if c.toBuf.isEmpty then 0 else 2)
  match e with | some e => if interest == 0 then 0 else (e.rev &&& interest) ||| (e.rev &&& 28) | none => 0

def cpDead (w : W) (c : Cli) : W × Option Cli := ({ w with sys := w.sys ++ [.close c.fd] }, none)

/-- `_handle_read` once the capacity half (`clipC`, `clipE`) is done: what happens with the bytes read -/
def cpRead (w : W) (c : Cli) (e : Option FdEnv) : W × Cli :=
  match e with
  | some e =>
    if e.rk == 1 then ({ w with sys := w.sys ++ [.read c.fd (-1)] }, { c with quit := true })
    else if e.rk == 2 then ({ w with sys := w.sys ++ [.read c.fd 0] }, { c with quit := true })
    else if e.data.isEmpty then ({ w with sys := w.sys ++ [.read c.fd (-1)] }, { c with quit := true })
    else ({ w with sys := w.sys ++ [.read c.fd e.data.length] }, { c with fromBuf := c.fromBuf ++ e.data })
  | none => (w, c)

/-! the capacity half of `_handle_read` touches nothing but the input buffer and its size -/
@[simp] theorem clipC_id (c : Cli) (e : Option FdEnv) : (clipC c e).id = c.id := by unfold clipC clipCli; split <;> rfl
@[simp] theorem clipC_fd (c : Cli) (e : Option FdEnv) : (clipC c e).fd = c.fd := by unfold clipC clipCli; split <;> rfl
@[simp] theorem clipC_quit (c : Cli) (e : Option FdEnv) : (clipC c e).quit = c.quit := by unfold clipC clipCli; split <;> rfl
@[simp] theorem clipC_telemetry (c : Cli) (e : Option FdEnv) : (clipC c e).telemetry = c.telemetry := by unfold clipC clipCli; split <;> rfl
@[simp] theorem clipC_exprange (c : Cli) (e : Option FdEnv) : (clipC c e).exprange = c.exprange := by unfold clipC clipCli; split <;> rfl
@[simp] theorem clipC_cmd (c : Cli) (e : Option FdEnv) : (clipC c e).cmd = c.cmd := by unfold clipC clipCli; split <;> rfl
@[simp] theorem clipC_toBuf (c : Cli) (e : Option FdEnv) : (clipC c e).toBuf = c.toBuf := by unfold clipC clipCli; split <;> rfl
@[simp] theorem clipC_blocking (c : Cli) (e : Option FdEnv) : (clipC c e).blocking = c.blocking := by unfold clipC clipCli; split <;> rfl

def cpTail (r : W × Cli) : W × Option Cli :=
  if r.1.exited then (r.1, some r.2) else
  if r.2.quit && r.2.cmd.isNone then cpDead r.1 r.2 else (r.1, some r.2)

def clientPass' (w : W) (c : Cli) (e : Option FdEnv) : W × Option Cli :=
  let rev := cpRev c e
  if rev &&& 8 != 0 || rev &&& 16 != 0 then cpDead w c else
  let r1 := if rev &&& 1 != 0 || rev &&& 4 != 0 then cpRead w (clipC c e) (clipE c e) else (w, c)
  let r2 := if rev &&& 2 != 0 then handleWrite r1.1 r1.2 else r1
  cpTail (handleInput r2.1 r2.2)

theorem clientPass_eq (w : W) (c : Cli) (e : Option FdEnv) : clientPass w c e = clientPass' w c e := by
  cases e <;> rfl

theorem cpRead_exited (w : W) (c : Cli) (e : Option FdEnv) : (cpRead w c e).1.exited = w.exited := by
  unfold cpRead
  repeat' split
  all_goals rfl

theorem cpTail_exited (r : W × Cli) : (cpTail r).1.exited = r.1.exited := by
  unfold cpTail cpDead
  repeat' split
  all_goals rfl

theorem clientPass_exited (hs : NoSortAbort) (w : W) (c : Cli) (e : Option FdEnv) : (clientPass w c e).1.exited = w.exited := by
  rw [clientPass_eq]; unfold clientPass'
  dsimp only
  split
  · rfl
  · rw [cpTail_exited, handleInput_exited hs]
    have h1 : (if (cpRev c e &&& 1 != 0 || cpRev c e &&& 4 != 0) = true then cpRead w (clipC c e) (clipE c e) else (w, c)).1.exited = w.exited := by
      split
      · exact cpRead_exited w _ _
      · rfl
    split
    · rw [handleWrite_exited, h1]
    · exact h1

theorem cliStep_exited (hs : NoSortAbort) (envs : List FdEnv) (w : W) (c0 : Cli) : (cliStep envs w c0).exited = w.exited := by
  unfold cliStep
  split
  · rfl
  · have := clientPass_exited hs w c0 (envs.find? (·.fd == c0.fd))
    generalize clientPass w c0 (envs.find? (·.fd == c0.fd)) = r at this
    obtain ⟨w', r⟩ := r
    cases r <;> exact this

theorem cliAccept_exited (w : W) (acc : Nat) : (cliAccept w acc).exited = w.exited := by
  unfold cliAccept; repeat' split
  all_goals rfl

/-- C06 for the client side of a pass: whatever arrives on whatever connections, `cli_post_poll` does not leave the
    process — as long as `hostlist_sort` does not trip its assertion -/
theorem cliPostPoll_exited (hs : NoSortAbort) (w : W) (acc : Nat) (envs : List FdEnv) : (cliPostPoll w acc envs).exited = w.exited := by
  rw [cliPostPoll_eq]
  have : ∀ (l : List Cli) (w : W), (l.foldl (cliStep envs) w).exited = w.exited := by
    intro l; induction l with
    | nil => intro w; rfl
    | cons a r ih => intro w; rw [List.foldl_cons, ih, cliStep_exited hs]
  rw [this, cliAccept_exited]


theorem applyOuts_exited (w : W) (name : Bytes) (outs : List Pm.Dev2.Out) : (applyOuts w name outs).1.exited = w.exited := by
  have := (applyOuts_shape w name outs).1
  have := congrArg W.exited this
  exact this

theorem devPass_exited (p : PassIn) (a : DevAcc) (nd : Bytes × Dev) : (devPass p a nd).w.exited = a.w.exited := by
  unfold devPass
  split
  · rfl
  · dsimp only
    generalize Pm.Dev2.postPoll _ _ _ = r
    obtain ⟨c, o', outs, tmo⟩ := r
    dsimp only
    rw [applyOuts_exited]

/-- the device half of a pass never sets `exited`; so a whole pass leaves the process only where `cli_post_poll` does -/
theorem daemonPass_exited (w : W) (p : PassIn) : (daemonPass w p).1.exited = (cliPostPoll w p.acc p.envs).exited := by
  unfold daemonPass
  dsimp only
  split
  · rfl
  · rename_i h
    have : ∀ (l : List (Bytes × Dev)) (a : DevAcc), (l.foldl (devPass p) a).w.exited = a.w.exited := by
      intro l; induction l with
      | nil => intro a; rfl
      | cons x r ih => intro a; rw [List.foldl_cons, ih, devPass_exited]
    dsimp only
    rw [this]


/-! ### `_handle_input` does not depend on how the bytes arrived -/

def setFrom (c : Cli) (x : Bytes) : Cli := { c with fromBuf := x }

/-- `f` neither reads nor writes `from` -/
def FromBlind (f : W → Cli → W × Cli) : Prop := ∀ w c x, f w (setFrom c x) = ((f w c).1, setFrom (f w c).2 x)

theorem plFin_blind (b : Cli → Bytes) (hb : ∀ c x, b (setFrom c x) = b c) : FromBlind fun w c => plFin w c (b c) := by
  intro w c x; simp only [plFin, hb]; rfl

theorem plNodes_blind : FromBlind plNodes := by
  intro w c x; unfold plNodes; split <;> rfl

theorem plQuit_blind : FromBlind plQuit := by
  intro w c x
  unfold plQuit handleWrite
  simp only [put, setFrom]
  repeat' split
  all_goals rfl

theorem install_blind (com : Com) (names : List Name) : FromBlind fun w c => install w c com names := by
  intro w c x
  show install w (setFrom c x) com names = ((install w c com names).1, setFrom (install w c com names).2 x)
  unfold install
  dsimp only [setFrom]
  split
  · rfl
  · generalize List.foldl _ _ w.devs = r
    obtain ⟨devs, total⟩ := r
    dsimp only
    split <;> rfl

theorem plDevice_blind (str : Bytes) : FromBlind fun w c => plDevice w c str := by
  intro w c x
  show plDevice w (setFrom c x) str = ((plDevice w c str).1, setFrom (plDevice w c str).2 x)
  unfold plDevice
  cases plDevArg str with
  | none => rfl
  | some a =>
    dsimp only
    cases deviceReply w a <;> rfl

theorem plCmd_blind (com : Com) (arg : Bytes) : FromBlind fun w c => plCmd w c com arg := by
  intro w c x
  show plCmd w (setFrom c x) com arg = ((plCmd w c com arg).1, setFrom (plCmd w c com arg).2 x)
  unfold plCmd
  cases createR (toChars arg) with
  | fatal => rfl
  | err => rfl
  | ok hl =>
    dsimp only
    split
    · rfl
    · exact install_blind com _ w c x

theorem plRest_blind (str : Bytes) : FromBlind fun w c => plRest w c str := by
  intro w c x
  show plRest w (setFrom c x) str = ((plRest w c str).1, setFrom (plRest w c str).2 x)
  unfold plRest
  split
  · split
    · exact install_blind _ _ w c x
    · split
      · exact install_blind _ _ w c x
      · split
        · exact install_blind _ _ w c x
        · exact plDevice_blind str w c x
  · exact plCmd_blind _ _ w c x

theorem plIdle_blind (str : Bytes) : FromBlind fun w c => plIdle w c str := by
  intro w c x
  show plIdle w (setFrom c x) str = ((plIdle w c str).1, setFrom (plIdle w c str).2 x)
  unfold plIdle
  split
  · rfl
  · split
    · exact plNodes_blind w c x
    · split
      · rfl
      · split
        · rfl
        · split
          · exact plQuit_blind w c x
          · exact plRest_blind str w c x

/-- `_parse_input` neither reads nor writes the input buffer -/
theorem parseLine_blind (line : Bytes) : FromBlind fun w c => parseLine w c line := by
  intro w c x
  show parseLine w (setFrom c x) line = ((parseLine w c line).1, setFrom (parseLine w c line).2 x)
  simp only [parseLine_eq]
  unfold parseLine'
  by_cases hl : TooLong line
  · rw [if_pos hl, if_pos hl]; rfl
  rw [if_neg hl, if_neg hl]
  by_cases h : c.cmd.isSome = true
  · have h' : (setFrom c x).cmd.isSome = true := h
    rw [if_pos h, if_pos h']; rfl
  · have h' : ¬ (setFrom c x).cmd.isSome = true := h
    rw [if_neg h, if_neg h']
    exact plIdle_blind _ w c x


theorem linesOf_cons (x : UInt8) (r : Bytes) : linesOf (x :: r) =
    if x == 10 then ([x] :: (linesOf r).1, (linesOf r).2)
    else match (linesOf r).1 with
      | [] => ([], x :: (linesOf r).2)
      | l :: ls => ((x :: l) :: ls, (linesOf r).2) := by
  simp only [linesOf]; rfl

theorem linesOf_append (a b : Bytes) :
    linesOf (a ++ b) = ((linesOf a).1 ++ (linesOf ((linesOf a).2 ++ b)).1, (linesOf ((linesOf a).2 ++ b)).2) := by
  induction a with
  | nil => simp [linesOf]
  | cons x r ih =>
    rw [List.cons_append, linesOf_cons x (r ++ b), linesOf_cons x r]
    by_cases hx : (x == 10) = true
    · simp only [hx, if_true, ih]; simp
    · simp only [hx, if_false, Bool.false_eq_true]
      cases h1 : (linesOf r).1 with
      | nil =>
        simp only [ih, h1, List.nil_append, List.cons_append]
        rw [linesOf_cons x, if_neg hx]
      | cons l ls => simp only [ih, h1, List.cons_append]

theorem runLines_append (w : W) (c : Cli) (l1 l2 : List Bytes) :
    runLines w c (l1 ++ l2) = runLines (runLines w c l1).1 (runLines w c l1).2 l2 := by
  induction l1 generalizing w c with
  | nil => rfl
  | cons l ls ih =>
    simp only [List.cons_append, runLines]
    split
    · rename_i h; rw [runLines_exited _ _ _ h]
    · exact ih _ _

/-- bytes behind the lines being processed ride along untouched -/
theorem runLines_suffix (b : Bytes) : ∀ (ls : List Bytes) (w : W) (c : Cli) (f : Bytes), ls.flatten.length ≤ f.length →
    runLines w (setFrom c (f ++ b)) ls =
      ((runLines w (setFrom c f) ls).1, setFrom (runLines w (setFrom c f) ls).2 ((runLines w (setFrom c f) ls).2.fromBuf ++ b)) := by
  intro ls; induction ls with
  | nil => intro w c f _; rfl
  | cons l ls ih =>
    intro w c f hlen
    simp only [List.flatten_cons, List.length_append] at hlen
    unfold runLines
    by_cases hex : w.exited = true
    · simp only [hex, if_true]; rfl
    · simp only [hex]
      have hd : (f ++ b).drop l.length = f.drop l.length ++ b := by
        rw [List.drop_append_of_le_length (by omega)]
      have e1 : ({ setFrom c (f ++ b) with fromBuf := (setFrom c (f ++ b)).fromBuf.drop l.length } : Cli) = setFrom c (f.drop l.length ++ b) := by
        simp only [setFrom, hd]
      have e2 : ({ setFrom c f with fromBuf := (setFrom c f).fromBuf.drop l.length } : Cli) = setFrom c (f.drop l.length) := rfl
      rw [e1, e2]
      have p1 := parseLine_blind l w c (f.drop l.length ++ b)
      have p2 := parseLine_blind l w c (f.drop l.length)
      dsimp only at p1 p2
      rw [p1, p2]
      dsimp only
      have hfl : ls.flatten.length ≤ (f.drop l.length).length := by rw [List.length_drop]; omega
      exact ih (parseLine w c l).1 (parseLine w c l).2 (f.drop l.length) hfl

/-- arrival independence: handling `a ++ b` at once is the same as handling `a`, then appending `b` to what was left
    and handling again -/
theorem handleInput_split (w : W) (c : Cli) (a b : Bytes) :
    handleInput w (setFrom c (a ++ b)) =
      handleInput (handleInput w (setFrom c a)).1
        (setFrom (handleInput w (setFrom c a)).2 ((handleInput w (setFrom c a)).2.fromBuf ++ b)) := by
  have hfl : (linesOf a).1.flatten.length ≤ a.length := by
    have := congrArg List.length (linesOf_flatten a)
    rw [List.length_append] at this; omega
  have hl : runLines w (setFrom c a) (linesOf a).1 = handleInput w (setFrom c a) := (handleInput_lines w (setFrom c a)).symm
  have ht : (handleInput w (setFrom c a)).1.exited = false → (handleInput w (setFrom c a)).2.fromBuf = (linesOf a).2 :=
    handleInput_tail w (setFrom c a)
  generalize handleInput w (setFrom c a) = R at hl ht ⊢
  rw [handleInput_lines w (setFrom c (a ++ b))]
  show runLines w (setFrom c (a ++ b)) (linesOf (a ++ b)).1 = _
  rw [linesOf_append, runLines_append, runLines_suffix b _ w c a hfl, hl]
  dsimp only
  by_cases hex : R.1.exited = true
  · rw [runLines_exited _ _ _ hex, handleInput_lines, runLines_exited _ _ _ hex]
  · rw [handleInput_lines]
    show _ = runLines _ _ (linesOf (R.2.fromBuf ++ b)).1
    rw [ht (by simpa using hex)]


/-! ### C04: an idle client that has not quit has been prompted -/

/-- the client's cumulative output `items` ends with the prompt whenever no command is in progress and the client has not
    quit: the server is then waiting for a request and has said so -/
def Prompted (c : Cli) (items : List Item) : Prop := c.cmd = none → c.quit = false → items.getLast? = some Item.prompt

theorem getLast?_append_prompt (a b : List Item) (h : b.getLast? = some Item.prompt) : (a ++ b).getLast? = some Item.prompt := by
  cases b with
  | nil => simp at h
  | cons x r => rw [List.getLast?_append]; simp [h]

theorem newClient_prompted (w : W) : Prompted (newClient w) [Item.line 1 w.cfg.version, Item.prompt] := fun _ _ => rfl

theorem parseLine_prompted (w : W) (c : Cli) (line : Bytes) (items0 : List Item) :
    (parseLine w c line).1.exited = true ∨
    ∃ items, outOf (parseLine w c line).1 (parseLine w c line).2 = outOf w c ++ render items ∧
      Prompted (parseLine w c line).2 (items0 ++ items) := by
  cases parseLine_shape w c line with
  | exit h' _ => left; rw [h']
  | reply items shape out buf cmd ex clean prompted =>
    right
    refine ⟨items, out, fun hc hq => ?_⟩
    exact getLast?_append_prompt _ _ (prompted (by rw [← cmd]; exact hc) hq)
  | installed k idle cmd pending buf sys ex =>
    right
    have hfd := (parseLine_frame w c line).fd
    refine ⟨[], by simp [outOf, buf, sys, hfd], fun hc _ => ?_⟩
    rw [cmd] at hc; cases hc

theorem actFinish_prompted (w : W) (cid : Nat) (err : ActErr) (name : Bytes) :
    ∃ G : Cli → Cli, (actFinish w cid err name).1.clients = w.clients.map G ∧
      ∀ x, ∃ items, Appends x (G x) items ∧ ∀ items0, Prompted x items0 → Prompted (G x) (items0 ++ items) := by
  have hid : ∀ w : W, w.clients = w.clients.map id := by simp
  have hidp : ∀ x : Cli, ∃ items, Appends x (id x) items ∧ ∀ items0, Prompted x items0 → Prompted (id x) (items0 ++ items) :=
    fun x => ⟨[], .refl x, fun items0 h => by simpa using h⟩
  have hupd : ∀ (f : Cli → Cli) (items : List Item), (∀ x, Appends x (f x) items) →
      (∀ x items0, Prompted (f x) (items0 ++ items)) →
      ∃ G : Cli → Cli, (updCli w cid f).clients = w.clients.map G ∧
        ∀ x, ∃ items, Appends x (G x) items ∧ ∀ items0, Prompted x items0 → Prompted (G x) (items0 ++ items) := by
    intro f items hf hp
    refine ⟨fun x => if x.id == cid then f x else x, rfl, fun x => ?_⟩
    dsimp only
    split
    · exact ⟨items, hf x, fun items0 _ => hp x items0⟩
    · exact hidp x
  cases actFinish_shape w cid err name with
  | gone h hr => rw [hr]; exact ⟨id, hid w, hidp⟩
  | noCmd c h hc hr => rw [hr]; exact ⟨id, hid w, hidp⟩
  | sortAbort c k h hc hp hn hr => rw [hr]; exact ⟨id, hid w, hidp⟩
  | progress c k h hc hp hr =>
    rw [hr]
    exact hupd _ _ (fun x => put_appends x _ _) (fun x items0 hc _ => by simp [put] at hc)
  | final c k items h hc hp hi hr =>
    rw [hr]
    refine hupd _ _ (fun x => put_appends x _ _) (fun x items0 _ _ => ?_)
    obtain ⟨pre, infos, code, text, rfl, _⟩ := hi
    simp [List.getLast?_append]


/-! ### the `303` lines of a temperature reply show captured device text up to its first CR or LF (F16, fixed) -/

theorem mem_takeWhile_holds {α} (p : α → Bool) (l : List α) (b : α) (hb : b ∈ l.takeWhile p) : p b = true := by
  induction l with
  | nil => simp at hb
  | cons x xs ih =>
    simp only [List.takeWhile_cons] at hb
    split at hb
    · rcases List.mem_cons.mp hb with rfl | h
      · assumption
      · exact ih h
    · simp at hb

theorem firstLine_clean (v : Bytes) : cleanText (firstLine v) = true := by
  unfold cleanText firstLine
  rw [List.all_eq_true]
  intro b hb
  exact mem_takeWhile_holds (fun b => b != 13 && b != 10) v b hb

theorem bstr_colon_clean : cleanText (bstr ": ") = true := by decide +kernel
theorem bstr_unknown_clean : cleanText (bstr ": unknown") = true := by decide +kernel

/-- the informational lines of a temperature reply are clean protocol lines if the node names and the ranged string of the
    value-less nodes contain no CR/LF - whatever the captured values are -/
theorem finalInfos_temp_clean (ex : Bool) (c : CmdC) (infos : List Item) (hcom : c.com = .temp)
    (h : finalInfos ex c = some infos)
    (hn : ∀ a ∈ entriesOf c, cleanText (ofChars a.node) = true)
    (hr : ∀ r, sortedRanged (((entriesOf c).filter (·.val.isNone)).map (·.node)) = some r → cleanText r = true) :
    ∀ i ∈ infos, i.clean = true := by
  unfold finalInfos at h
  simp only [hcom] at h
  generalize (((entriesOf c).filter (·.val.isNone)).map (·.node)).isEmpty = e at h
  have h : ∃ tail, (if e = true then some [] else Option.map (fun r => [Item.line 303 (r ++ bstr ": unknown")])
      (sortedRanged (((entriesOf c).filter (·.val.isNone)).map (·.node)))) = some tail ∧
      some ((entriesOf c).flatMap tempItems ++ tail) = some infos := by
    cases e
    · simp only [Bool.false_eq_true, if_false] at h ⊢
      cases hs : sortedRanged (((entriesOf c).filter (·.val.isNone)).map (·.node)) with
      | none => rw [hs] at h; simp at h
      | some r => rw [hs] at h; exact ⟨_, rfl, h⟩
    · exact ⟨[], rfl, h⟩
  obtain ⟨tail, ht, h⟩ := h
  cases h
  intro i hi
  rcases List.mem_append.mp hi with hi | hi
  · rw [List.mem_flatMap] at hi
    obtain ⟨a, ha, hia⟩ := hi
    unfold tempItems at hia
    cases hval : a.val with
    | none => simp [hval] at hia
    | some v =>
      simp [hval] at hia; subst hia
      simp only [Item.clean, cleanText_append, hn a ha, firstLine_clean v, bstr_colon_clean, Bool.and_self]
  · split at ht
    · cases ht; simp at hi
    · simp only [Option.map_eq_some_iff] at ht
      obtain ⟨r, hsr, rfl⟩ := ht
      simp at hi; subst hi
      simp only [Item.clean, cleanText_append, hr r hsr, bstr_unknown_clean, Bool.and_self]

/-- a temperature command whose one captured value contains `\r\n102 x` -/
def f16Cmd : CmdC :=
  { com := .temp, names := [['n']], pending := 1, error := false,
    args := [{ node := ['n'], state := 0, result := 0, val := some (bstr "1\r\n102 x") }] }

/-- F16 (fixed): the reply is one `303` line showing the value up to its line end, and the real terminal line -/
theorem finalReply_not_forged :
    finalReply false f16Cmd = some (render [Item.line 303 (bstr "n: 1"), Item.line 103 (bstr "Query complete")]) := by
  decide +kernel


/-! ### C06: where the exit is, and that it is live -/

/-- a request line ends the process only through the sort assertion: on the configured node list (`nodes`) or on the
    plug list of a device (`device`) -/
theorem parseLine_exit_cause (w : W) (c : Cli) (line : Bytes) (h : (parseLine w c line).1.exited = true) :
    w.exited = true ∨ (sortHL w.cfg.nodes).Died ∨ ∃ nd ∈ w.devs, (sortHL (devHosts nd.2)).Died := by
  cases parseLine_shape w c line with
  | exit _ cause => exact Or.inr cause
  | reply items shape out buf cmd ex clean prompted => exact Or.inl (ex ▸ h)
  | installed k idle cmd pending buf sys ex => exact Or.inl (ex ▸ h)

/-- and that branch is live: if sorting the configured node list trips the assertion, the request `nodes` from any idle
    client ends the process (F19) -/
theorem nodes_exit (w : W) (c : Cli) (hidle : c.cmd = none) (h : sortHL w.cfg.nodes = .abort) :
    (parseLine w c (bstr "nodes\n")).1.exited = true := by
  have hs : reqStr (bstr "nodes\n") = kwNodes := by decide +kernel
  have h1 : casePrefix kwHelp kwNodes = false := by decide
  have h2 : casePrefix kwNodes kwNodes = true := by decide
  have hl : ¬ TooLong (bstr "nodes\n") := by unfold TooLong; rw [hs]; decide
  rw [parseLine_eq]; unfold parseLine'
  rw [if_neg hl]
  simp only [hidle, Option.isSome_none, Bool.false_eq_true, if_false, hs]
  unfold plIdle
  simp only [h1, h2, Bool.false_eq_true, if_false, if_true]
  unfold plNodes
  rw [h]

/-- a run of passes -/
def runPasses (w : W) (ps : List PassIn) : W := ps.foldl (fun w p => (daemonPass w p).1) w

theorem runPasses_exited (hs : NoSortAbort) (w : W) (ps : List PassIn) : (runPasses w ps).exited = w.exited := by
  unfold runPasses
  induction ps generalizing w with
  | nil => rfl
  | cons p r ih => rw [List.foldl_cons, ih, daemonPass_exited, cliPostPoll_exited hs]


/-! ### the stream over a whole `clientPass` -/

theorem answerChunks_stream {bytes : Bytes} (h : StreamOK bytes) : ∀ (chunks : List (List Item)),
    (∀ ch ∈ chunks, AnswerChunk ch) → (∀ ch ∈ chunks, DataClean dataCodesP ch) → StreamOK (bytes ++ render chunks.flatten) := by
  intro chunks
  induction chunks generalizing bytes with
  | nil => intro _ _; simpa using h
  | cons ch r ih =>
    intro ha hd
    rw [List.flatten_cons, render_append, ← List.append_assoc]
    refine ih ?_ (fun x hx => ha x (by simp [hx])) (fun x hx => hd x (by simp [hx]))
    rcases ha ch (by simp) with rfl | ⟨⟨q, shape⟩, clean⟩
    · simpa using h
    · refine h.extend ch (fun s hs => ?_) (clean_of_fixed_data clean (hd ch (by simp)))
      exact srun_reply s hs _ _ _ ch (by decide) (by decide) (by intro c hc; simp [promptAfter] at hc; exact hc.1.1) shape

/-- `_handle_write` after the descriptor has been made blocking for a client that quit -/
def hwCore (w : W) (c : Cli) : W × Cli :=
  if c.toBuf.isEmpty then (w, c) else
  let cap := capOf w c.fd
  if cap < 0 then ({ w with sys := w.sys ++ [.write c.fd [] true false] }, { c with quit := true })
  else if c.blocking then
    (setCap { w with sys := w.sys ++ [.write c.fd c.toBuf false (cap < c.toBuf.length)] } c.fd (if cap < c.toBuf.length then 0 else cap - c.toBuf.length), { c with toBuf := [] })
  else if cap == 0 then
    ({ w with sys := w.sys ++ [.write c.fd [] false false] }, { c with quit := true })
  else
    let n := min cap.toNat c.toBuf.length
    (setCap { w with sys := w.sys ++ [.write c.fd (c.toBuf.take n) false false] } c.fd (cap - n), { c with toBuf := c.toBuf.drop n })

theorem handleWrite_eq (w : W) (c : Cli) : handleWrite w c = hwCore w (if c.quit then { c with blocking := true } else c) := rfl

theorem hwCore_out (w : W) (c : Cli) :
    outOf (hwCore w c).1 (hwCore w c).2 = outOf w c ∧ (hwCore w c).2.fd = c.fd ∧ (hwCore w c).2.id = c.id ∧ (hwCore w c).2.cmd = c.cmd := by
  unfold hwCore
  split
  · exact ⟨rfl, rfl, rfl, rfl⟩
  · dsimp only
    split
    · exact ⟨by simp [outOf, written_append, written_write], rfl, rfl, rfl⟩
    · split
      · exact ⟨by simp [outOf, setCap, written_append, written_write], rfl, rfl, rfl⟩
      · split
        · exact ⟨by simp [outOf, written_append, written_write], rfl, rfl, rfl⟩
        · exact ⟨by simp [outOf, setCap, written_append, written_write], rfl, rfl, rfl⟩

/-- `_handle_write` moves bytes from `to` to the descriptor: the client's cumulative output is unchanged -/
theorem handleWrite_out (w : W) (c : Cli) :
    outOf (handleWrite w c).1 (handleWrite w c).2 = outOf w c ∧ (handleWrite w c).2.fd = c.fd ∧
      (handleWrite w c).2.id = c.id ∧ (handleWrite w c).2.cmd = c.cmd := by
  rw [handleWrite_eq]
  obtain ⟨h1, h2, h3, h4⟩ := hwCore_out w (if c.quit then { c with blocking := true } else c)
  rw [h1, h2, h3, h4]
  split <;> exact ⟨rfl, rfl, rfl, rfl⟩

theorem written_read (ss : List Sys) (fd fd' : Nat) (n : Int) : written (ss ++ [Sys.read fd' n]) fd = written ss fd := by
  simp [written]

theorem cpRead_out (w : W) (c : Cli) (e : Option FdEnv) :
    outOf (cpRead w c e).1 (cpRead w c e).2 = outOf w c ∧ (cpRead w c e).2.fd = c.fd ∧ (cpRead w c e).2.id = c.id ∧
      (cpRead w c e).2.cmd = c.cmd := by
  unfold cpRead
  repeat' split
  all_goals exact ⟨by simp [outOf, written_read], rfl, rfl, rfl⟩

/-- C15 over the client's share of a pass: if the client survives the pass, its cumulative output grew by one answer chunk
    per complete request line — whatever was read, written, or half-written in between; and if the data-carrying lines of
    those chunks are clean, a grammatical stream stays grammatical -/
theorem clientPass_stream (w : W) (c : Cli) (e : Option FdEnv) (c' : Cli) (h : (clientPass w c e).2 = some c') :
    (clientPass w c e).1.exited = true ∨
    ∃ chunks : List (List Item), outOf (clientPass w c e).1 c' = outOf w c ++ render chunks.flatten ∧
      (∀ ch ∈ chunks, AnswerChunk ch) ∧
      ∀ pre, StreamOK (pre ++ outOf w c) → (∀ ch ∈ chunks, DataClean dataCodesP ch) → StreamOK (pre ++ outOf (clientPass w c e).1 c') := by
  rw [clientPass_eq] at h ⊢
  unfold clientPass' at h ⊢
  dsimp only at h ⊢
  split at h
  · simp [cpDead] at h
  · rename_i hrev
    rw [if_neg hrev]
    generalize hr1 : (if (cpRev c e &&& 1 != 0 || cpRev c e &&& 4 != 0) = true then cpRead w (clipC c e) (clipE c e) else (w, c)) = r1 at h ⊢
    have h1 : outOf r1.1 r1.2 = outOf w c := by
      subst hr1; split
      · rw [(cpRead_out w _ _).1]; simp [outOf]
      · rfl
    generalize hr2 : (if (cpRev c e &&& 2 != 0) = true then handleWrite r1.1 r1.2 else r1) = r2 at h ⊢
    have h2 : outOf r2.1 r2.2 = outOf w c := by
      subst hr2; split
      · rw [(handleWrite_out r1.1 r1.2).1, h1]
      · exact h1
    rcases handleInput_answers r2.1 r2.2 with hex | ⟨chunks, _, hout, hch, _⟩
    · left; rw [cpTail_exited]; exact hex
    · right
      generalize handleInput r2.1 r2.2 = r3 at h hout ⊢
      have hc' : r3.2 = c' ∧ outOf (cpTail r3).1 c' = outOf r3.1 r3.2 := by
        unfold cpTail at h ⊢
        split at h
        · simp at h; subst h; simp [*]
        · split at h
          · simp [cpDead] at h
          · simp at h; subst h; simp [*]
      obtain ⟨rfl, ho⟩ := hc'
      refine ⟨chunks, by rw [ho, hout, h2], hch, fun pre hs hd => ?_⟩
      rw [ho, hout, h2, ← List.append_assoc]
      exact answerChunks_stream hs chunks hch hd


/-! ### concrete values for the non-vacuity examples in `Props/` -/
namespace Ex

/-- one device `d` with plug `1` = node `t1` and only an `on` script -/
def dev : Dev :=
  { plugs := [{ name := bstr "1", node := some (bstr "t1") }], scripts := fun c => if c == 7 then some [] else none,
    timeout := 0, acts := [], toBuf := [], fromBuf := [], xmStr := none, xmOffs := [], xmResult := false, xmUsed := false,
    args := [], nextUid := 0, shortCircuitDelay := false }

def world : W :=
  { cfg := { plugs := [("1".toList, some "t1".toList)], has := [7], nodes := pushHost [] "t1".toList, version := bstr "2.4.4" },
    clients := [], devs := [(bstr "d", dev)] }

/-- an idle client just after the banner has gone out -/
def idle : Cli := { id := 1, fd := 1000 }

/-- the same client with `on t1` in progress, one action outstanding -/
def busy : Cli := { idle with cmd := some { com := .on, names := ["t1".toList], pending := 1, error := false, al := 0 } }

def busyWorld : W :=
  { world with clients := [busy], store := [(0, [{ node := bstr "t1", val := none, state := .unknown, result := .success }])] }

end Ex

end Pm.Daemon.ClientPf

/-! axiom audit (expected: at most `propext`, `Classical.choice`, `Quot.sound`) -/
