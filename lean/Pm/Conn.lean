/- pilot for C07 / C20: device_tcp.c descriptor bookkeeping (F6) and C10: login comes first -/
namespace Pm.Conn

inductive CS where | notConnected | connecting | connected deriving DecidableEq, Repr
inductive Ans where | syncOk | inProgress | syncFail deriving DecidableEq, Repr

structure Dev where
  conn : CS
  fd : Option Nat          -- dev->fd (NO_FD = none); may name a descriptor the kernel no longer has open
  cur : Option Nat         -- tcp->cur as an index into the address list
  naddr : Nat
  opened : List Nat        -- descriptors the process really holds for this device
  nextFd : Nat
deriving DecidableEq, Repr

def advance (d : Dev) : Option Nat := match d.cur with
  | some i => if i + 1 < d.naddr then some (i + 1) else none
  | none => none

/-- `tcp_connect_one` over the remaining addresses; `fixed` = the repair (forget the closed number) -/
def tryAddrs (fixed : Bool) : Nat → Dev → List Ans → Dev
  | 0, d, _ => d
  | fuel + 1, d, anss =>
    match d.cur with
    | none => { d with conn := .notConnected }
    | some _ =>
      let fd := d.nextFd
      let d1 := { d with fd := some fd, opened := fd :: d.opened, nextFd := fd + 1 }       -- socket()
      match anss with
      | .syncOk :: _ => { d1 with conn := .connected }
      | .inProgress :: _ => d1
      | .syncFail :: rest =>                                                               -- close(dev->fd); return false
        let d2 := { d1 with opened := d1.opened.erase fd, fd := if fixed then none else d1.fd, cur := advance d1 }
        tryAddrs fixed fuel d2 rest
      | [] => d1

/-- `tcp_connect`: `none` = one of its two asserts fails -/
def tcpConnect (fixed : Bool) (d : Dev) (anss : List Ans) : Option Dev :=
  if d.conn ≠ .notConnected ∨ d.fd.isSome then none
  else
    let d0 := { d with conn := .connecting, cur := if fixed then (if d.naddr > 0 then some 0 else none) else d.cur }
    some (tryAddrs fixed (d.naddr + 1) d0 anss)

def Good (d : Dev) : Prop := (d.fd = none ↔ d.conn = .notConnected) ∧ (∀ k, d.fd = some k → k ∈ d.opened)

def dev0 : Dev := { conn := .notConnected, fd := none, cur := some 0, naddr := 1, opened := [], nextFd := 3 }

/-- as coded: after one synchronous failure the device is NOT_CONNECTED but still names descriptor 3,
    which the kernel has closed … -/
theorem C07_fd_state_counterexample :
    (tcpConnect false dev0 [.syncFail]).map (fun d => (d.conn, d.fd, d.opened)) = some (.notConnected, some 3, []) := by decide

/-- … and the next reconnect attempt trips `assert(dev->fd == NO_FD)` -/
theorem C07_reconnect_aborts :
    ((tcpConnect false dev0 [.syncFail]).bind fun d => tcpConnect false d [.inProgress]) = none := by decide

theorem tryAddrs_good : ∀ (fuel : Nat) (d : Dev) (anss : List Ans),
    d.conn = .connecting → d.fd = none → Good (tryAddrs true fuel d anss) ∨ (tryAddrs true fuel d anss).conn = .connecting ∧ (tryAddrs true fuel d anss).fd = none := by
  intro fuel
  induction fuel with
  | zero => intro d anss hc hf; exact Or.inr ⟨hc, hf⟩
  | succ n ih =>
    intro d anss hc hf
    simp only [tryAddrs]
    cases hcur : d.cur with
    | none => left; simp [Good, hf]
    | some i =>
      simp only
      cases anss with
      | nil => left; simp [Good, hc]
      | cons a rest =>
        cases a with
        | syncOk => left; simp [Good]
        | inProgress => left; simp [Good, hc]
        | syncFail => exact ih _ rest (by simp [hc]) (by simp)

/-! ## C10: login comes first.  Queue discipline only. -/
inductive Kind where | login | other deriving DecidableEq

structure Q where
  connected : Bool
  loggedIn : Bool
  acts : List Kind                 -- head runs

inductive Ev where
  | connect                        -- `_connect`/finish_connect success: login prepended
  | disconnect                     -- `_disconnect`: logged_in := false, stale login removed
  | enqueue                        -- client action or ping appended
  | headDone                       -- head action completes

def step (q : Q) : Ev → Q
  | .connect => if q.connected then q else { connected := true, loggedIn := false, acts := .login :: q.acts }
  | .disconnect => { connected := false, loggedIn := false, acts := match q.acts with | .login :: r => r | l => l }
  | .enqueue => { q with acts := q.acts ++ [.other] }
  | .headDone => if !q.connected then q else match q.acts with
      | .login :: r => { q with loggedIn := true, acts := r }
      | _ :: r => { q with acts := r }
      | [] => q

/-- whenever a connection is up and login has not completed on it, the action that may talk is the
    login action; and a login is never queued anywhere but at the head -/
def LoginFirst (q : Q) : Prop :=
  (q.connected = true ∧ q.loggedIn = false → q.acts.head? = some .login) ∧ (∀ k ∈ q.acts.tail, k = .other) ∧
  (q.connected = false ∨ q.loggedIn = true → ∀ k ∈ q.acts, k = .other)

theorem C10_login_first (evs : List Ev) : LoginFirst (evs.foldl step ⟨false, false, []⟩) := by
  have : ∀ q, LoginFirst q → LoginFirst (evs.foldl step q) := by
    induction evs with
    | nil => intro q h; exact h
    | cons e es ih =>
      intro q h
      apply ih
      obtain ⟨h1, h2, h3⟩ := h
      cases e with
      | connect =>
        simp only [step]
        split
        · exact ⟨h1, h2, h3⟩
        · rename_i hc
          have hc' : q.connected = false := by simpa using hc
          exact ⟨fun _ => rfl, by simpa using h3 (Or.inl hc'), by simp⟩
      | disconnect =>
        simp only [step]
        refine ⟨by simp, ?_, ?_⟩
        · intro k hk
          split at hk
          · rename_i r heq; exact h2 k (by rw [heq]; exact List.mem_of_mem_tail hk)
          · exact h2 k hk
        · intro _ k hk
          split at hk
          · rename_i r heq; exact h2 k (by rw [heq]; simpa using hk)
          · rename_i hne
            cases hacts : q.acts with
            | nil => rw [hacts] at hk; cases hk
            | cons x xs =>
              rw [hacts] at hk
              rcases List.mem_cons.mp hk with rfl | hk
              · cases k with
                | other => rfl
                | login => exact absurd hacts (hne xs)
              · exact h2 k (by rw [hacts]; simpa using hk)
      | enqueue =>
        simp only [step]
        refine ⟨?_, ?_, ?_⟩
        · intro hcl
          have := h1 hcl
          cases hacts : q.acts with
          | nil => rw [hacts] at this; cases this
          | cons x xs => rw [hacts] at this; simpa using this
        · intro k hk
          cases hacts : q.acts with
          | nil => rw [hacts] at hk; simp at hk
          | cons x xs =>
            rw [hacts] at hk
            simp only [List.cons_append, List.tail_cons, List.mem_append, List.mem_singleton] at hk
            rcases hk with hk | rfl
            · exact h2 k (by rw [hacts]; simpa using hk)
            · rfl
        · intro hcl k hk
          simp only [List.mem_append, List.mem_singleton] at hk
          rcases hk with hk | rfl
          · exact h3 hcl k hk
          · rfl
      | headDone =>
        simp only [step]
        split
        · exact ⟨h1, h2, h3⟩
        · rename_i hconn
          have hconn' : q.connected = true := by simpa using hconn
          split
          · rename_i r heq
            have htail : ∀ k ∈ r, k = .other := fun k hk => h2 k (by rw [heq]; simpa using hk)
            exact ⟨by simp, fun k hk => htail k (List.mem_of_mem_tail hk), fun _ => htail⟩
          · rename_i x r hne heq
            have hx : x = .other := by
              cases x with
              | other => rfl
              | login => exact absurd rfl hne
            have htail : ∀ k ∈ r, k = .other := fun k hk => h2 k (by rw [heq]; simpa using hk)
            refine ⟨?_, fun k hk => htail k (List.mem_of_mem_tail hk), fun _ => htail⟩
            intro hcl
            have := h1 hcl
            rw [heq, hx] at this
            simp at this
          · exact ⟨h1, h2, h3⟩
  exact this _ ⟨by simp, by simp, by simp⟩

end Pm.Conn

