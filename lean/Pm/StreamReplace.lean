import Pm.StreamWhole
/-! Helper lemmas for C15 over whole runs, part 6: **`String.replace` creates no CR/LF** (`ReplaceClean`).

    `String.replace` folds over the steps of a searcher; by `Std.Iter.foldl_toList` the result is a left fold over the list
    of steps, every step appending either the replacement or a sub-slice of the subject — whatever the steps are.  So the
    bytes of the result are bytes of the subject or of the replacement. -/
namespace Pm.Daemon.StreamPf
open Pm Pm.Client Pm.Daemon Pm.Daemon.ClientPf
open String.Slice.Pattern

/-- the UTF-8 bytes of the string contain neither CR nor LF -/
def StrClean (r : String) : Prop := cleanText (bstr r) = true

theorem bstr_eq_data (r : String) : bstr r = r.toByteArray.data.toList := by
  simp [bstr, String.toUTF8, byteArray_toList_eq_data]

theorem StrClean.append {a b : String} (ha : StrClean a) (hb : StrClean b) : StrClean (a ++ b) := by
  unfold StrClean at *
  rw [bstr_append, cleanText_append, ha, hb]; rfl

theorem StrClean.empty : StrClean "" := by unfold StrClean; decide +kernel

theorem cleanText_sub {a b : Bytes} (h : ∀ x ∈ a, x ∈ b) (hb : cleanText b = true) : cleanText a = true := by
  simp only [cleanText, List.all_eq_true] at hb ⊢
  exact fun x hx => hb x (h x hx)

/-- a slice of a clean string is clean -/
theorem StrClean.copy (sl : String.Slice) (h : StrClean sl.str) : StrClean sl.copy := by
  unfold StrClean at *
  refine cleanText_sub ?_ h
  intro x hx
  rw [bstr_eq_data] at hx ⊢
  rw [String.Slice.toByteArray_copy, ByteArray.data_extract] at hx
  simp only [Array.toList_extract] at hx
  exact List.mem_of_mem_drop (List.mem_of_mem_take hx)

theorem StrClean.slice! (sl : String.Slice) (a b : sl.Pos) (h : StrClean sl.str) : StrClean (sl.slice! a b).copy := by
  unfold String.Slice.slice!
  split
  · exact StrClean.copy _ (by rw [String.Slice.str_slice]; exact h)
  · show StrClean (default : String.Slice).copy
    have : (default : String.Slice).copy = "" := by decide
    rw [this]; exact StrClean.empty

/-- one step of the fold of `String.replace` -/
def replStep (s rep : String) (sofar : String) (st : SearchStep s.toSlice) : String :=
  match st with
  | .matched .. => sofar ++ String.ToSlice.toSlice rep
  | .rejected start stop => sofar ++ s.toSlice.slice! start stop

theorem replace_fold (s rep pat : String) :
    s.replace pat rep = ((ToForwardSearcher.toSearcher pat s.toSlice).toList).foldl (replStep s rep) "" := by
  unfold String.replace String.Slice.replace
  rw [Std.Iter.foldl_toList]
  congr 1
  funext x y
  cases y <;> rfl


theorem replStep_clean (s rep : String) (hs : StrClean s) (hr : StrClean rep) (sofar : String) (st : SearchStep s.toSlice)
    (h : StrClean sofar) : StrClean (replStep s rep sofar st) := by
  cases st with
  | matched a b =>
    show StrClean (sofar ++ (String.ToSlice.toSlice rep).copy)
    refine h.append ?_
    have : (String.ToSlice.toSlice rep).copy = rep := String.copy_toSlice
    rw [this]; exact hr
  | rejected a b =>
    show StrClean (sofar ++ (s.toSlice.slice! a b).copy)
    exact h.append (StrClean.slice! _ a b hs)

/-- **`String.replace` creates no CR/LF**: the result consists of pieces of the subject and copies of the replacement -/
theorem replace_clean (s rep pat : String) (hs : StrClean s) (hr : StrClean rep) : StrClean (s.replace pat rep) := by
  rw [replace_fold]
  exact foldl_inv StrClean (replStep s rep) (fun b a hb => replStep_clean s rep hs hr b a hb) _ _ StrClean.empty

/-- decoding clean bytes gives a clean string (the empty one if the bytes are not UTF-8) -/
theorem fromUTF8_clean (b : Bytes) (h : cleanText b = true) : StrClean (String.fromUTF8! ⟨b.toArray⟩) := by
  unfold String.fromUTF8!
  split
  · unfold StrClean
    rw [bstr_eq_data]
    show cleanText (ByteArray.mk b.toArray).data.toList = true
    simpa using h
  · show StrClean (default : String)
    exact StrClean.empty

/-- the fact about `String.replace` that the `305` line needs -/
theorem replaceClean : ReplaceClean := by
  intro name t hn ht
  unfold teleText
  have h1 : StrClean "(" := by unfold StrClean; decide +kernel
  have h2 : StrClean ")" := by unfold StrClean; decide +kernel
  exact replace_clean _ _ _ (fromUTF8_clean t ht) ((h1.append (fromUTF8_clean name hn)).append h2)

end Pm.Daemon.StreamPf

/-! axiom audit (expected: at most `propext`, `Classical.choice`, `Quot.sound`) -/
section AxiomChecks
open Pm.Daemon.StreamPf
#print axioms replaceClean
end AxiomChecks
