import Pm.Grammar
import Pm.LexProof
/-! # The token level: the scan of any file content ends (C18)

Helper module of `Pm/Props/C18.lean`, about the lexer part of `Pm/Grammar.lean`: flex's choice among the rules of `INITIAL`
always finds a rule with a non-empty match, every step consumes at least one byte, so the fuel `content.length + 1` per buffer
is never exhausted, and the `unmodelled` endings of `LexEnd` are unreachable; the string scanner `strGo` is `LexModel.go` with
the buffer kept at the end of the input, and keeps the buffer inside `string_buf` also when an included file hands over a partly
filled one. -/
namespace Pm.Grammar.Proof
open Pm.Grammar Pm.LexModel

theorem best_mono : ∀ (l : List (Nat × Rule)) (m : Nat) (b : Rule), ∃ n a, best l (some (m, b)) = some (n, a) ∧ m ≤ n
  | [], m, b => ⟨m, b, rfl, Nat.le_refl _⟩
  | (n, a) :: rest, m, b => by
    simp only [best]
    split
    · rename_i h
      obtain ⟨n', a', h1, h2⟩ := best_mono rest n a
      exact ⟨n', a', h1, by omega⟩
    · exact best_mono rest m b

/-- what `best` returns has a non-empty match -/
theorem best_pos : ∀ (l : List (Nat × Rule)) (b : Option (Nat × Rule)), (∀ m x, b = some (m, x) → 0 < m) →
    ∀ n a, best l b = some (n, a) → 0 < n
  | [], b, hb, n, a, h => by simp only [best] at h; exact hb n a h
  | (k, x) :: rest, none, _, n, a, h => by
    simp only [best] at h
    refine best_pos rest _ ?_ n a h
    intro m y hy
    split at hy
    · rename_i hk; cases hy; exact hk
    · cases hy
  | (k, x) :: rest, some (m, y), hb, n, a, h => by
    simp only [best] at h
    refine best_pos rest _ ?_ n a h
    intro m' y' hy
    have := hb m y rfl
    split at hy
    · cases hy; omega
    · cases hy; exact this

/-- if some candidate matches, `best` finds one -/
theorem best_some : ∀ (l : List (Nat × Rule)) (b : Option (Nat × Rule)), (b.isSome = true ∨ ∃ p ∈ l, 0 < p.1) → (best l b).isSome = true
  | [], b, h => by
    rcases h with h | ⟨p, hp, _⟩
    · simpa [best] using h
    · cases hp
  | (k, x) :: rest, none, h => by
    simp only [best]
    apply best_some
    rcases h with h | ⟨p, hp, hpos⟩
    · cases h
    · rcases List.mem_cons.mp hp with rfl | hp
      · left; simp [hpos]
      · exact .inr ⟨p, hp, hpos⟩
  | (k, x) :: rest, some (m, y), _ => by
    simp only [best]
    apply best_some
    left
    split <;> rfl

theorem matchInit_some (c : UInt8) (r : Bytes) : ∃ n rule, matchInit (c :: r) = some (n, rule) ∧ 0 < n := by
  have h : (matchInit (c :: r)).isSome = true := by
    unfold matchInit
    apply best_some
    right
    by_cases hc : c = 0x0a
    · refine ⟨(1, .newline), ?_, by simp⟩
      simp [candidates, litLen, hc]
    · refine ⟨(1, .any), ?_, by simp⟩
      simp [candidates, hc]
  cases hm : matchInit (c :: r) with
  | none => rw [hm] at h; cases h
  | some p =>
    refine ⟨p.1, p.2, rfl, ?_⟩
    exact best_pos _ none (by simp) p.1 p.2 (by simpa [matchInit] using hm)

/-- `strGo` is `LexModel.go` with the buffer kept at the end of the input -/
theorem strGo_forget : ∀ (s : List UInt8) (pend : Nat) (skip : Bool) (buf : Array UInt8), (strGo s pend skip buf).forget = go s pend skip buf := by
  intro s
  induction s with
  | nil => intro pend skip buf; simp [strGo, go, StrEnd.forget]
  | cons c r ih =>
    intro pend skip buf
    cases pend with
    | succ p => simp only [strGo, go]; exact ih p skip buf
    | zero =>
      simp only [strGo, go]
      by_cases h1 : c = 0x22
      · simp only [h1, if_true]; unfold closeQuote; split <;> rfl
      · simp only [h1, if_false]
        by_cases h2 : c = 0x0a
        · simp only [h2, if_true]; rfl
        · simp only [h2, if_false]
          by_cases h3 : c = 0x5c
          · simp only [h3, if_true]
            cases he : escTok r with
            | none => rfl
            | some p =>
              obtain ⟨v, n⟩ := p
              simp only []
              cases ha : stringBufAdd buf v with
              | cont b => simp only []; exact ih _ _ _
              | exitTooLong => rfl
              | overrun => rfl
          · simp only [h3, if_false]
            by_cases h4 : skip = true
            · simp only [h4, if_true]; exact ih _ _ _
            · simp only [h4, if_false]
              by_cases h5 : c = 0
              · simp only [h5, if_true]; exact ih _ _ _
              · simp only [h5, if_false]
                cases ha : stringBufAdd buf c with
                | cont b => simp only []; exact ih _ _ _
                | exitTooLong => rfl
                | overrun => rfl

/-- a string literal that is closed consumed at least its closing quote -/
theorem strGo_rest : ∀ (s : List UInt8) (pend : Nat) (skip : Bool) (buf b : Array UInt8) (rest : List UInt8),
    strGo s pend skip buf = .tok b rest → rest.length < s.length := by
  intro s
  induction s with
  | nil => intro pend skip buf b rest h; simp [strGo] at h
  | cons c r ih =>
    intro pend skip buf b rest h
    cases pend with
    | succ p => simp only [strGo] at h; have := ih p skip buf b rest h; simp; omega
    | zero =>
      simp only [strGo] at h
      split at h
      · split at h
        · cases h; simp
        · cases h
      · split at h
        · cases h
        · split at h
          · split at h
            · cases h
            · split at h
              · have := ih _ _ _ b rest h; simp; omega
              · cases h
              · cases h
          · split at h
            · have := ih _ _ _ b rest h; simp; omega
            · split at h
              · have := ih _ _ _ b rest h; simp; omega
              · split at h
                · have := ih _ _ _ b rest h; simp; omega
                · cases h
                · cases h

/-- the buffer of the scanner never holds more than `STRING_BUF - 1` bytes, whatever it held before (an included file may hand
    over a partly filled buffer), so no store goes outside `string_buf` -/
theorem strGo_inv : ∀ (s : List UInt8) (pend : Nat) (skip : Bool) (buf : Array UInt8), buf.size ≤ STRING_BUF - 1 →
    strGo s pend skip buf ≠ .overrun ∧ (∀ b rest, strGo s pend skip buf = .tok b rest → b.size ≤ STRING_BUF - 1) ∧
    (∀ b, strGo s pend skip buf = .eof b → b.size ≤ STRING_BUF - 1) := by
  intro s
  induction s with
  | nil => intro pend skip buf hb; simp [strGo]; exact hb
  | cons c rest ih =>
    intro pend skip buf hb
    cases pend with
    | succ p => simp only [strGo]; exact ih p skip buf hb
    | zero =>
      simp only [strGo]
      split
      · have : buf.size < STRING_BUF := by unfold STRING_BUF at *; omega
        simp only [this, if_true]
        refine ⟨nofun, ?_, nofun⟩
        intro b r h; cases h; exact hb
      · split
        · exact ⟨nofun, nofun, nofun⟩
        · split
          · split
            · refine ⟨nofun, nofun, ?_⟩
              intro b h; cases h; exact hb
            · split
              · rename_i b hadd
                have := Pm.LexModel.Proof.stringBufAdd_cont hadd
                apply ih
                rw [this.1, Array.size_push]; omega
              · exact ⟨nofun, nofun, nofun⟩
              · rename_i hadd; exact absurd hadd (Pm.LexModel.Proof.stringBufAdd_ne_overrun _ _)
          · split
            · exact ih 0 true buf hb
            · split
              · exact ih 0 true buf hb
              · split
                · rename_i b hadd
                  have := Pm.LexModel.Proof.stringBufAdd_cont hadd
                  apply ih
                  rw [this.1, Array.size_push]; omega
                · exact ⟨nofun, nofun, nofun⟩
                · rename_i hadd; exact absurd hadd (Pm.LexModel.Proof.stringBufAdd_ne_overrun _ _)

/-- an ending that is neither `fuel` nor `unmodelled` -/
def EndOK : LexEnd → Prop
  | .fuel => False
  | .unmodelled _ => False
  | _ => True

/-- a start condition whose buffer fits `string_buf` -/
def SCOK : SC → Prop
  | .str buf => buf.size ≤ STRING_BUF - 1
  | _ => True

def BufOK : BufEnd → Prop
  | .stop e => EndOK e
  | .done sc _ => SCOK sc

theorem lexBuf_ok (sub : Bytes → Array LTok → Array LTok × Except LexEnd SC)
    (hsub : ∀ n a, match (sub n a).2 with | .error e => EndOK e | .ok sc => SCOK sc) (file : Bytes) :
    ∀ (fuel : Nat) (st : SC) (r : Bytes) (line : Nat) (acc : Array LTok), r.length < fuel → SCOK st → BufOK (lexBuf sub file fuel st r line acc).2 := by
  intro fuel
  induction fuel with
  | zero => intro st r line acc h; omega
  | succ f ih =>
    intro st r line acc h hst
    cases st with
    | incl =>
      unfold lexBuf
      split
      · simp [BufOK, SCOK]
      · rename_i c r'
        simp only [List.length_cons] at h
        split
        · exact ih _ _ _ _ (by omega) (by simp [SCOK])
        · split
          · exact ih _ _ _ _ (by omega) (by simp [SCOK])
          · rename_i hnl hsp
            simp only []
            have hs := hsub (inclName (List.takeWhile isNameByte (c :: r'))) acc
            split
            · rename_i acc' e he
              rw [he] at hs
              simpa [BufOK] using hs
            · rename_i acc' sc he
              rw [he] at hs
              apply ih
              · have h1 : 0 < ((c :: r').takeWhile isNameByte).length := by
                  have : isNameByte c = true := by
                    simp only [isNameByte, isSpTab] at *
                    simp only [Bool.or_eq_true, decide_eq_true_eq, not_or] at hsp
                    simp [hsp.1, hsp.2, hnl]
                  simp [List.takeWhile, this]
                simp only [List.length_drop, List.length_cons]
                omega
              · exact hs
    | str buf =>
      unfold lexBuf
      have hi := strGo_inv r 0 false buf hst
      split
      · rename_i b rest' hq
        exact ih _ _ _ _ (by have := strGo_rest _ _ _ _ _ _ hq; omega) (by simp [SCOK])
      · simp [BufOK, EndOK]
      · simp [BufOK, EndOK]
      · rename_i b hq; simpa [BufOK, SCOK] using hi.2.2 b hq
      · rename_i hq; exact absurd hq hi.1
    | init =>
      unfold lexBuf
      split
      · simp [BufOK, SCOK]
      · rename_i c r'
        obtain ⟨n, rule, hm, hn⟩ := matchInit_some c r'
        rw [hm]
        simp only [List.length_cons] at h
        have hd : ((c :: r').drop n).length < f := by simp only [List.length_drop, List.length_cons]; omega
        cases rule with
        | comment => exact ih _ _ _ _ hd (by simp [SCOK])
        | newline => exact ih _ _ _ _ hd (by simp [SCOK])
        | blanks => exact ih _ _ _ _ hd (by simp [SCOK])
        | number => exact ih _ _ _ _ hd (by simp [SCOK])
        | dollar => exact ih _ _ _ _ hd (by simp [SCOK])
        | kw t => exact ih _ _ _ _ hd (by simp [SCOK])
        | any => exact ih _ _ _ _ hd (by simp [SCOK])
        | incl => exact ih _ _ _ _ hd (by simp [SCOK])
        | quote => exact ih _ _ _ _ hd (by simp [SCOK, STRING_BUF])

theorem lexAt_ok (fs : Bytes → Option Bytes) : ∀ (k : Nat) (file content : Bytes) (acc : Array LTok), BufOK (lexAt fs k file content acc).2
  | 0, file, content, acc => by
    unfold lexAt
    exact lexBuf_ok _ (by intro n a; simp [EndOK]) file _ _ _ _ _ (by omega) (by simp [SCOK])
  | k + 1, file, content, acc => by
    unfold lexAt
    refine lexBuf_ok _ ?_ file _ _ _ _ _ (by omega) (by simp [SCOK])
    intro n a
    split
    · rename_i e he
      split at he
      · simp at he; subst he; simp [EndOK]
      · rename_i c hc
        have ih := lexAt_ok fs k n c a
        split at he
        · simp at he
        · rename_i a' e' he'
          simp at he; subst he
          rw [he'] at ih
          simpa [BufOK] using ih
    · rename_i sc he
      split at he
      · simp at he
      · rename_i c hc
        have ih := lexAt_ok fs k n c a
        split at he
        · rename_i a' sc' ln he'
          simp at he; subst he
          rw [he'] at ih
          simpa [BufOK] using ih
        · simp at he

/-- **The scan ends.**  For every file system and every content the token stream ends in one of the ways the real scanner
    ends — never by exhausting the fuel, never `unmodelled`. -/
theorem lexFile_ok (fs : Bytes → Option Bytes) (main content : Bytes) : EndOK (lexFile fs main content).2 := by
  unfold lexFile
  have := lexAt_ok fs (MAX_INCLUDE_DEPTH - 1) main content #[]
  split
  · simp [EndOK]
  · rename_i acc e he
    rw [he] at this
    simpa [BufOK] using this

#print axioms lexFile_ok
#print axioms strGo_forget
end Pm.Grammar.Proof
