import Pm.Daemon
import Pm.AliasProof
import Pm.Dev2Fd
import Pm.ToBuf
/-! Helper lemmas for property C01 (a request commands only the plugs of the nodes it names).

`enqueue` (the mirror of `dev_enqueue_actions` + `_enqueue_targeted_actions` for one device) is cut into pieces
(`tgt`, `mkAct`, `singletActs`, `chosenActs`, `newActs`) and proved equal to the original (`enqueue_eq`); every
statement below is then derived from one case lemma, `newActs_cases`. -/
namespace Pm.Daemon.Enq
open Pm Pm.Client
open Pm.Dev2 (Dev Action Stmt Plug Arg ExecCtx StepR Oracle Out stmtSend hsprintf rangedNames setTop teleMem clipTo clipTo_append_of_le)

/-! ### the pieces -/

/-- "this plug is mapped to a node named in the request" (`plug->node != NULL && hostlist_find(hl, plug->node) != -1`) -/
def tgt (targets : List Bytes) (p : Plug) : Bool :=
  match p.node with | some n => targets.contains n | none => false

/-- `dev->scripts[c] != NULL` -/
def hasS (scripts : Nat → Option (List Stmt)) (c : Nat) : Bool := (scripts c).isSome
/-- `_get_all_script(dev, com) != -1` / `_get_ranged_script(dev, com) != -1` given the slot of the variant -/
def hasO (scripts : Nat → Option (List Stmt)) (o : Option Nat) : Bool := (o.map (hasS scripts)).getD false

/-- `_create_action`: depends on the device only through its script table -/
def mkAct (scripts : Nat → Option (List Stmt)) (com : Nat) (plugs : Option (List Plug)) (cid : Nat) (tele : Bool) (al : Nat) : Action :=
  { uid := 0, com, exec := [{ block := (scripts com).getD [], pos := 0, plugs, plugItr := none, plugCopy := none, processing := false }],
    clientId := cid, telemetry := tele, errnum := .success, timeStamp := none, delayStart := 0, arglist := al }

theorem mkAction_eq (d : Dev) (com : Nat) (plugs : Option (List Plug)) (cid : Nat) (tele : Bool) (al : Nat) :
    mkAction d com plugs cid tele al 0 = mkAct d.scripts com plugs cid tele al := rfl

/-- the list `new_acts` of `_enqueue_targeted_actions`: one singlet action per targeted plug, if the singlet script exists -/
def singletActs (plugs : List Plug) (scripts : Nat → Option (List Stmt)) (com : Nat) (targets : List Bytes)
    (cid : Nat) (tele : Bool) (al : Nat) : List Action :=
  if hasS scripts com then (plugs.filter (tgt targets)).map fun p => mkAct scripts com (some [p]) cid tele al else []

/-- the four-way choice at the end of `_enqueue_targeted_actions` -/
def chosenActs (plugs : List Plug) (scripts : Nat → Option (List Stmt)) (com : Nat) (targets : List Bytes)
    (cid : Nat) (tele : Bool) (al : Nat) : List Action :=
  if hasS scripts com && (singletActs plugs scripts com targets cid tele al).length == 1 then
    singletActs plugs scripts com targets cid tele al
  else if (plugs.all (tgt targets) || (isQuery com && !hasS scripts com)) && hasO scripts (allOf com) then
    [mkAct scripts ((allOf com).getD 0) none cid tele al]
  else if hasO scripts (rangedOf com) then
    [mkAct scripts ((rangedOf com).getD 0) (some (plugs.filter (tgt targets))) cid tele al]
  else singletActs plugs scripts com targets cid tele al

/-- what `dev_enqueue_actions` appends to one device's queue: a function of the device's plug list and script
    table and of the request only -/
def newActs (plugs : List Plug) (scripts : Nat → Option (List Stmt)) (com : Nat) (targets : List Bytes)
    (cid : Nat) (tele : Bool) (al : Nat) : List Action :=
  if !(hasS scripts com || hasO scripts (allOf com) || hasO scripts (rangedOf com)) || (plugs.filter (tgt targets)).isEmpty then []
  else chosenActs plugs scripts com targets cid tele al

/-- the cut-up definition is the original one -/
theorem enqueue_eq (d : Dev) (com : Nat) (targets : List Bytes) (cid : Nat) (tele : Bool) (al : Nat) :
    enqueue d com targets cid tele al =
      ({ d with acts := d.acts ++ newActs d.plugs d.scripts com targets cid tele al },
       (newActs d.plugs d.scripts com targets cid tele al).length) := by
  have key : enqueue d com targets cid tele al =
      if !(hasS d.scripts com || hasO d.scripts (allOf com) || hasO d.scripts (rangedOf com)) || (d.plugs.filter (tgt targets)).isEmpty
      then (d, 0)
      else ({ d with acts := d.acts ++ chosenActs d.plugs d.scripts com targets cid tele al },
            (chosenActs d.plugs d.scripts com targets cid tele al).length) := rfl
  rw [key]
  unfold newActs
  split <;> simp

theorem enqueue_acts (d : Dev) (com : Nat) (targets : List Bytes) (cid : Nat) (tele : Bool) (al : Nat) :
    (enqueue d com targets cid tele al).1.acts = d.acts ++ newActs d.plugs d.scripts com targets cid tele al := by
  rw [enqueue_eq]

theorem enqueue_count (d : Dev) (com : Nat) (targets : List Bytes) (cid : Nat) (tele : Bool) (al : Nat) :
    (enqueue d com targets cid tele al).2 = (newActs d.plugs d.scripts com targets cid tele al).length := by
  rw [enqueue_eq]


/-! ### the case lemma -/

theorem tgt_spec {targets : List Bytes} {p : Plug} (h : tgt targets p = true) : ∃ n, p.node = some n ∧ n ∈ targets := by
  unfold tgt at h
  cases hn : p.node with
  | none => rw [hn] at h; cases h
  | some n => rw [hn] at h; exact ⟨n, rfl, by simpa using h⟩

theorem tgt_of_mem {targets : List Bytes} {p : Plug} {n : Bytes} (hn : p.node = some n) (hm : n ∈ targets) : tgt targets p = true := by
  unfold tgt; rw [hn]; simpa using hm

theorem hasO_spec {scripts : Nat → Option (List Stmt)} {o : Option Nat} (h : hasO scripts o = true) :
    ∃ c, o = some c ∧ hasS scripts c = true ∧ o.getD 0 = c := by
  cases o with
  | none => simp [hasO] at h
  | some c => exact ⟨c, rfl, by simpa [hasO] using h, rfl⟩

theorem mem_singletActs {plugs : List Plug} {scripts : Nat → Option (List Stmt)} {com : Nat} {targets : List Bytes}
    {cid : Nat} {tele : Bool} {al : Nat} {a : Action} (h : a ∈ singletActs plugs scripts com targets cid tele al) :
    hasS scripts com = true ∧ ∃ p, p ∈ plugs.filter (tgt targets) ∧ a = mkAct scripts com (some [p]) cid tele al := by
  unfold singletActs at h
  split at h
  · rename_i hs
    obtain ⟨p, hp, rfl⟩ := List.mem_map.mp h
    exact ⟨hs, p, hp, rfl⟩
  · cases h

/-- every appended action is of one of three shapes, and each shape comes with the condition under which
    `_enqueue_targeted_actions` chooses it -/
theorem newActs_cases {plugs : List Plug} {scripts : Nat → Option (List Stmt)} {com : Nat} {targets : List Bytes}
    {cid : Nat} {tele : Bool} {al : Nat} {a : Action} (h : a ∈ newActs plugs scripts com targets cid tele al) :
    (hasS scripts com = true ∧ ∃ p, p ∈ plugs.filter (tgt targets) ∧ a = mkAct scripts com (some [p]) cid tele al) ∨
    (∃ c, allOf com = some c ∧ hasS scripts c = true ∧
        (plugs.all (tgt targets) = true ∨ (isQuery com = true ∧ hasS scripts com = false)) ∧
        a = mkAct scripts c none cid tele al) ∨
    (∃ c, rangedOf com = some c ∧ hasS scripts c = true ∧
        a = mkAct scripts c (some (plugs.filter (tgt targets))) cid tele al) := by
  unfold newActs at h
  split at h
  · cases h
  · unfold chosenActs at h
    split at h
    · exact .inl (mem_singletActs h)
    · split at h
      · rename_i hall
        simp only [Bool.and_eq_true, Bool.or_eq_true, Bool.not_eq_true'] at hall
        obtain ⟨c, hc, hs, hg⟩ := hasO_spec hall.2
        simp only [List.mem_singleton] at h
        rw [hg] at h
        exact .inr (.inl ⟨c, hc, hs, hall.1, h⟩)
      · split at h
        · rename_i hr
          obtain ⟨c, hc, hs, hg⟩ := hasO_spec hr
          simp only [List.mem_singleton] at h
          rw [hg] at h
          exact .inr (.inr ⟨c, hc, hs, h⟩)
        · exact .inl (mem_singletActs h)

/-! ### C01 over `newActs` -/

/-- the plug list given to the outer (first created, last on the stack) context of an action; `none` for an `_all` action -/
def _root_.Pm.Dev2.Action.outerPlugs (a : Action) : Option (List Plug) := a.exec.getLast?.bind (·.plugs)

/-- the plugs an action can command on device `d`: the plug list of its outer context (one plug for a singlet action,
    the argument list of a ranged one); every plug of the device for an `_all` action -/
def _root_.Pm.Dev2.Action.commanded (d : Dev) (a : Action) : List Plug := a.outerPlugs.getD d.plugs

@[simp] theorem outerPlugs_mkAct (scripts : Nat → Option (List Stmt)) (com : Nat) (plugs : Option (List Plug)) (cid : Nat) (tele : Bool) (al : Nat) :
    (mkAct scripts com plugs cid tele al).outerPlugs = plugs := rfl

/-- a freshly enqueued action has exactly one context, at the first statement of the script in the slot `a.com`,
    nothing in progress: the head of `exec` *is* the outer context -/
theorem newActs_exec {plugs : List Plug} {scripts : Nat → Option (List Stmt)} {com : Nat} {targets : List Bytes}
    {cid : Nat} {tele : Bool} {al : Nat} {a : Action} (h : a ∈ newActs plugs scripts com targets cid tele al) :
    a.exec = [{ block := (scripts a.com).getD [], pos := 0, plugs := a.outerPlugs, plugItr := none, plugCopy := none, processing := false }] ∧
    (scripts a.com).isSome = true := by
  rcases newActs_cases h with ⟨hs, p, _, rfl⟩ | ⟨c, _, hs, _, rfl⟩ | ⟨c, _, hs, rfl⟩ <;> exact ⟨rfl, hs⟩

theorem newActs_subset {plugs : List Plug} {scripts : Nat → Option (List Stmt)} {com : Nat} {targets : List Bytes}
    {cid : Nat} {tele : Bool} {al : Nat} {a : Action} (h : a ∈ newActs plugs scripts com targets cid tele al)
    {ps : List Plug} (hps : a.outerPlugs = some ps) :
    ∀ p ∈ ps, p ∈ plugs ∧ ∃ n, p.node = some n ∧ n ∈ targets := by
  have filt : ∀ q, q ∈ plugs.filter (tgt targets) → q ∈ plugs ∧ ∃ n, q.node = some n ∧ n ∈ targets :=
    fun q hq => ⟨(List.mem_filter.mp hq).1, tgt_spec (List.mem_filter.mp hq).2⟩
  rcases newActs_cases h with ⟨_, q, hq, rfl⟩ | ⟨c, _, _, _, rfl⟩ | ⟨c, _, _, rfl⟩
  · simp only [outerPlugs_mkAct, Option.some.injEq] at hps; subst hps
    intro p hp; simp only [List.mem_singleton] at hp; subst hp; exact filt _ hq
  · simp at hps
  · simp only [outerPlugs_mkAct, Option.some.injEq] at hps; subst hps
    exact filt

/-- sharper: the plug list is one targeted plug, or all the targeted plugs in configuration order -/
theorem newActs_plugs_shape {plugs : List Plug} {scripts : Nat → Option (List Stmt)} {com : Nat} {targets : List Bytes}
    {cid : Nat} {tele : Bool} {al : Nat} {a : Action} (h : a ∈ newActs plugs scripts com targets cid tele al) :
    (∃ p, p ∈ plugs.filter (tgt targets) ∧ a.outerPlugs = some [p] ∧ a.com = com) ∨
    (a.outerPlugs = none ∧ allOf com = some a.com) ∨
    (a.outerPlugs = some (plugs.filter (tgt targets)) ∧ rangedOf com = some a.com) := by
  rcases newActs_cases h with ⟨_, q, hq, rfl⟩ | ⟨c, hc, _, _, rfl⟩ | ⟨c, hc, _, rfl⟩
  · exact .inl ⟨q, hq, rfl, rfl⟩
  · exact .inr (.inl ⟨rfl, hc⟩)
  · exact .inr (.inr ⟨rfl, hc⟩)

theorem newActs_all {plugs : List Plug} {scripts : Nat → Option (List Stmt)} {com : Nat} {targets : List Bytes}
    {cid : Nat} {tele : Bool} {al : Nat} {a : Action} (h : a ∈ newActs plugs scripts com targets cid tele al)
    (hn : a.outerPlugs = none) :
    allOf com = some a.com ∧ (plugs.all (tgt targets) = true ∨ (isQuery com = true ∧ hasS scripts com = false)) := by
  rcases newActs_cases h with ⟨_, q, hq, rfl⟩ | ⟨c, hc, _, hall, rfl⟩ | ⟨c, hc, _, rfl⟩
  · simp at hn
  · exact ⟨hc, hall⟩
  · simp at hn

theorem newActs_kind {plugs : List Plug} {scripts : Nat → Option (List Stmt)} {com : Nat} {targets : List Bytes}
    {cid : Nat} {tele : Bool} {al : Nat} {a : Action} (h : a ∈ newActs plugs scripts com targets cid tele al) :
    (a.com = com ∨ allOf com = some a.com ∨ rangedOf com = some a.com) ∧
    a.clientId = cid ∧ a.arglist = al ∧ a.telemetry = tele := by
  rcases newActs_cases h with ⟨_, q, hq, rfl⟩ | ⟨c, hc, _, _, rfl⟩ | ⟨c, hc, _, rfl⟩
  · exact ⟨.inl rfl, rfl, rfl, rfl⟩
  · exact ⟨.inr (.inl hc), rfl, rfl, rfl⟩
  · exact ⟨.inr (.inr hc), rfl, rfl, rfl⟩

theorem filter_tgt_nil_of_not_any {plugs : List Plug} {targets : List Bytes} (h : plugs.any (tgt targets) = false) :
    plugs.filter (tgt targets) = [] := by
  apply List.filter_eq_nil_iff.mpr
  intro p hp ht
  have : plugs.any (tgt targets) = true := List.any_eq_true.mpr ⟨p, hp, ht⟩
  rw [h] at this; cases this

theorem newActs_uninvolved {plugs : List Plug} {scripts : Nat → Option (List Stmt)} {com : Nat} {targets : List Bytes}
    {cid : Nat} {tele : Bool} {al : Nat} (h : plugs.any (tgt targets) = false) :
    newActs plugs scripts com targets cid tele al = [] := by
  unfold newActs
  rw [filter_tgt_nil_of_not_any h]
  simp

theorem needsDev_eq (d : Dev) (targets : List Bytes) : needsDev d targets = d.plugs.any (tgt targets) := rfl
theorem implemented_eq (d : Dev) (com : Nat) :
    implemented d com = (hasS d.scripts com || hasO d.scripts (allOf com) || hasO d.scripts (rangedOf com)) := rfl
theorem handles_eq (d : Dev) (com : Nat) (targets : List Bytes) :
    handles d com targets =
      (if hasS d.scripts com || hasO d.scripts (rangedOf com) then true
       else if !hasO d.scripts (allOf com) then false
       else if isQuery com then true
       else d.plugs.all (tgt targets)) := rfl

theorem needsDev_false_iff (d : Dev) (targets : List Bytes) :
    needsDev d targets = false ↔ ∀ p ∈ d.plugs, ∀ n, p.node = some n → n ∉ targets := by
  rw [needsDev_eq]
  constructor
  · intro h p hp n hn hm
    have : d.plugs.any (tgt targets) = true := List.any_eq_true.mpr ⟨p, hp, tgt_of_mem hn hm⟩
    rw [h] at this; cases this
  · intro h
    cases ha : d.plugs.any (tgt targets) with
    | false => rfl
    | true =>
      obtain ⟨p, hp, ht⟩ := List.any_eq_true.mp ha
      obtain ⟨n, hn, hm⟩ := tgt_spec ht
      exact absurd hm (h p hp n hn)

theorem all_tgt_iff (plugs : List Plug) (targets : List Bytes) :
    plugs.all (tgt targets) = true ↔ ∀ p ∈ plugs, ∃ n, p.node = some n ∧ n ∈ targets := by
  rw [List.all_eq_true]
  constructor
  · intro h p hp; exact tgt_spec (h p hp)
  · intro h p hp; obtain ⟨n, hn, hm⟩ := h p hp; exact tgt_of_mem hn hm

theorem handles_implemented {d : Dev} {com : Nat} {targets : List Bytes} (h : handles d com targets = true) :
    implemented d com = true := by
  rw [handles_eq] at h; rw [implemented_eq]
  cases h1 : hasS d.scripts com <;> cases h2 : hasO d.scripts (rangedOf com) <;> cases h3 : hasO d.scripts (allOf com) <;> simp_all

/-- the F15 repair: an involved device that passed the capability check gets at least one action -/
theorem newActs_ne_nil {d : Dev} {com : Nat} {targets : List Bytes} {cid : Nat} {tele : Bool} {al : Nat}
    (hn : needsDev d targets = true) (hh : handles d com targets = true) :
    newActs d.plugs d.scripts com targets cid tele al ≠ [] := by
  rw [needsDev_eq] at hn
  have htp : d.plugs.filter (tgt targets) ≠ [] := by
    obtain ⟨p, hp, ht⟩ := List.any_eq_true.mp hn
    exact List.ne_nil_of_mem (List.mem_filter.mpr ⟨hp, ht⟩)
  have himp := handles_implemented hh
  rw [implemented_eq] at himp
  rw [handles_eq] at hh
  unfold newActs
  rw [if_neg (by simp [himp, htp])]
  unfold chosenActs
  have hlen : hasS d.scripts com = true → (singletActs d.plugs d.scripts com targets cid tele al) ≠ [] := by
    intro hs; unfold singletActs; rw [if_pos hs]; simpa using htp
  cases hs : hasS d.scripts com
  · cases hR : hasO d.scripts (rangedOf com) <;> cases hA : hasO d.scripts (allOf com) <;>
      cases hq : isQuery com <;> cases hall : d.plugs.all (tgt targets) <;>
      simp [hs, hR, hA, hq, hall] at hh ⊢
  · have := hlen hs
    split
    · exact this
    · split
      · simp
      · split
        · simp
        · exact this

/-! ### `enqueue` -/

theorem enqueue_uninvolved {d : Dev} {targets : List Bytes} (com cid : Nat) (tele : Bool) (al : Nat)
    (h : needsDev d targets = false) : enqueue d com targets cid tele al = (d, 0) := by
  rw [enqueue_eq, newActs_uninvolved (by rw [← needsDev_eq]; exact h)]
  simp

/-- `enqueue` touches nothing of the device but its queue -/
theorem enqueue_frame (d : Dev) (com : Nat) (targets : List Bytes) (cid : Nat) (tele : Bool) (al : Nat) :
    (enqueue d com targets cid tele al).1 = { d with acts := (enqueue d com targets cid tele al).1.acts } := by
  rw [enqueue_eq]

/-! ### `install`: the fold over the configured devices -/

/-- what the loop of `dev_enqueue_actions` does to one device -/
def installDev (com : Nat) (bnames : List Bytes) (cid : Nat) (tele : Bool) (al : Nat) (nd : Bytes × Dev) : Bytes × Dev :=
  (nd.1, if (enqueue nd.2 com bnames cid tele al).2 > 0 && (enqueue nd.2 com bnames cid tele al).1.conn != 2
         then { (enqueue nd.2 com bnames cid tele al).1 with retryCount := 0 } else (enqueue nd.2 com bnames cid tele al).1)

/-- total number of actions a request creates -/
def installTotal (com : Nat) (bnames : List Bytes) (cid : Nat) (tele : Bool) (al : Nat) (devs : List (Bytes × Dev)) : Nat :=
  (devs.map fun nd => (newActs nd.2.plugs nd.2.scripts com bnames cid tele al).length).sum

theorem install_fold (com : Nat) (bnames : List Bytes) (cid : Nat) (tele : Bool) (al : Nat) (devs : List (Bytes × Dev))
    (acc : List (Bytes × Dev) × Nat) :
    devs.foldl (fun (acc : List (Bytes × Dev) × Nat) (nd : Bytes × Dev) =>
      let (d1, n) := enqueue nd.2 com bnames cid tele al
      let d1 := if n > 0 && d1.conn != 2 then { d1 with retryCount := 0 } else d1
      (acc.1 ++ [(nd.1, d1)], acc.2 + n)) acc
    = (acc.1 ++ devs.map (installDev com bnames cid tele al), acc.2 + installTotal com bnames cid tele al devs) := by
  induction devs generalizing acc with
  | nil => simp [installTotal]
  | cons nd rest ih =>
    rw [List.foldl_cons, ih]
    simp only [installTotal, List.map_cons, List.sum_cons, installDev, enqueue_count]
    simp [Nat.add_assoc]

theorem installDev_fst (com : Nat) (bnames : List Bytes) (cid : Nat) (tele : Bool) (al : Nat) (nd : Bytes × Dev) :
    (installDev com bnames cid tele al nd).1 = nd.1 := rfl

/-- the device after the request: same plugs, same scripts, the queue extended by `newActs` -/
theorem installDev_spec (com : Nat) (bnames : List Bytes) (cid : Nat) (tele : Bool) (al : Nat) (nd : Bytes × Dev) :
    (installDev com bnames cid tele al nd).2.plugs = nd.2.plugs ∧
    (installDev com bnames cid tele al nd).2.scripts = nd.2.scripts ∧
    (installDev com bnames cid tele al nd).2.acts = nd.2.acts ++ newActs nd.2.plugs nd.2.scripts com bnames cid tele al ∧
    (installDev com bnames cid tele al nd).2.toBuf = nd.2.toBuf ∧
    (installDev com bnames cid tele al nd).2.fromBuf = nd.2.fromBuf ∧
    (installDev com bnames cid tele al nd).2.conn = nd.2.conn := by
  unfold installDev
  rw [enqueue_eq]
  split <;> simp

theorem installDev_uninvolved {com : Nat} {bnames : List Bytes} {cid : Nat} {tele : Bool} {al : Nat} {nd : Bytes × Dev}
    (h : needsDev nd.2 bnames = false) : installDev com bnames cid tele al nd = nd := by
  unfold installDev
  rw [enqueue_uninvolved com cid tele al h]
  simp

/-- `install` either refuses the request (reply 213, nothing else changes) or runs the loop of `dev_enqueue_actions`
    over all devices; in that case every involved device passed the capability check and the client waits for exactly
    the actions created -/
theorem install_cases (w : W) (c : Cli) (com : Com) (names : List Name) :
    install w c com names = (w, put c (codeLine 213 ++ crlf ++ (if c.quit then [] else prompt))) ∨
    ((∀ nd ∈ w.devs, needsDev nd.2 (names.map ofChars) = true → handles nd.2 (comIdx com) (names.map ofChars) = true) ∧
     (install w c com names).1.devs = w.devs.map (installDev (comIdx com) (names.map ofChars) c.id c.telemetry w.alNext) ∧
     0 < installTotal (comIdx com) (names.map ofChars) c.id c.telemetry w.alNext w.devs ∧
     (install w c com names).2 = { c with cmd := some { com, names, error := false, al := w.alNext, pending := installTotal (comIdx com) (names.map ofChars) c.id c.telemetry w.alNext w.devs } }) := by
  unfold install
  simp only [install_fold, List.nil_append, Nat.zero_add]
  split
  · exact .inl rfl
  · rename_i hany
    split
    · exact .inl rfl
    · rename_i htot
      refine .inr ⟨?_, rfl, ?_, rfl⟩
      · intro nd hnd hneed
        have := fun h => hany (List.any_eq_true.mpr ⟨nd, hnd, h⟩)
        simp only [hneed, Bool.true_and, Bool.not_eq_true'] at this
        cases hh : handles nd.2 (comIdx com) (names.map ofChars)
        · exact absurd hh (by simpa using this)
        · rfl
      · simp only [beq_iff_eq] at htot; omega

theorem install_devs (w : W) (c : Cli) (com : Com) (names : List Name) :
    (install w c com names).1.devs = w.devs ∨
    (install w c com names).1.devs = w.devs.map (installDev (comIdx com) (names.map ofChars) c.id c.telemetry w.alNext) := by
  rcases install_cases w c com names with h | ⟨_, h, _⟩
  · rw [h]; exact .inl rfl
  · exact .inr h

/-- position by position: a device no node of which is named is exactly what it was -/
theorem install_uninvolved (w : W) (c : Cli) (com : Com) (names : List Name) (i : Nat) (nd : Bytes × Dev)
    (hi : w.devs[i]? = some nd) (h : needsDev nd.2 (names.map ofChars) = false) :
    (install w c com names).1.devs[i]? = some nd := by
  rcases install_devs w c com names with e | e <;> rw [e]
  · exact hi
  · rw [List.getElem?_map, hi]; simp [installDev_uninvolved h]

/-- position by position: any device keeps its name, plugs and scripts; its queue is extended by nothing or by `newActs` -/
theorem install_device (w : W) (c : Cli) (com : Com) (names : List Name) (i : Nat) (nd : Bytes × Dev)
    (hi : w.devs[i]? = some nd) :
    ∃ d', (install w c com names).1.devs[i]? = some (nd.1, d') ∧ d'.plugs = nd.2.plugs ∧ d'.scripts = nd.2.scripts ∧
      (d'.acts = nd.2.acts ∨
       d'.acts = nd.2.acts ++ newActs nd.2.plugs nd.2.scripts (comIdx com) (names.map ofChars) c.id c.telemetry w.alNext) := by
  rcases install_devs w c com names with e | e <;> rw [e]
  · exact ⟨nd.2, hi, rfl, rfl, .inl rfl⟩
  · have hs := installDev_spec (comIdx com) (names.map ofChars) c.id c.telemetry w.alNext nd
    refine ⟨(installDev (comIdx com) (names.map ofChars) c.id c.telemetry w.alNext nd).2, ?_, hs.1, hs.2.1, .inr hs.2.2.1⟩
    rw [List.getElem?_map, hi]; rfl

/-- when the request is accepted, an involved device is never skipped -/
theorem install_involved (w : W) (c : Cli) (com : Com) (names : List Name) (i : Nat) (nd : Bytes × Dev)
    (hi : w.devs[i]? = some nd) (hneed : needsDev nd.2 (names.map ofChars) = true)
    (hacc : install w c com names ≠ (w, put c (codeLine 213 ++ crlf ++ (if c.quit then [] else prompt)))) :
    ∃ d', (install w c com names).1.devs[i]? = some (nd.1, d') ∧
      d'.acts = nd.2.acts ++ newActs nd.2.plugs nd.2.scripts (comIdx com) (names.map ofChars) c.id c.telemetry w.alNext ∧
      newActs nd.2.plugs nd.2.scripts (comIdx com) (names.map ofChars) c.id c.telemetry w.alNext ≠ [] := by
  rcases install_cases w c com names with h | ⟨hh, e, _⟩
  · exact absurd h hacc
  · have hs := installDev_spec (comIdx com) (names.map ofChars) c.id c.telemetry w.alNext nd
    refine ⟨(installDev (comIdx com) (names.map ofChars) c.id c.telemetry w.alNext nd).2, ?_, hs.2.2.1,
      newActs_ne_nil hneed (hh nd (List.mem_of_getElem? hi) hneed)⟩
    rw [e, List.getElem?_map, hi]; rfl

/-! ### `_process_send`: what goes on the wire -/

/-- first-time send of a singlet action: the format with the configured name of the one plug, queued behind what is queued;
    `dev->to` holds 65536 bytes: beyond that the oldest queued bytes give way (`clipTo`) -/
theorem stmtSend_singlet (d : Dev) (a : Action) (o : Oracle) (e : ExecCtx) (fmt : Bytes) (p : Plug)
    (hp : e.processing = false) (hs : e.plugs = some [p]) :
    (stmtSend d a o e fmt).dev = { d with toBuf := clipTo (d.toBuf ++ hsprintf fmt (some p.name)) } ∧
    (stmtSend d a o e fmt).out.head? = some (.sent (hsprintf fmt (some p.name))) := by
  unfold stmtSend
  simp only [hp, hs, Bool.not_false, ↓reduceIte]
  split <;> simp

/-- first-time send of a ranged action (two plugs or more): the format with the sorted, compressed list of the
    configured plug names; when the sort asserts (F19) nothing is written -/
theorem stmtSend_ranged (d : Dev) (a : Action) (o : Oracle) (e : ExecCtx) (fmt : Bytes) (p q : Plug) (r : List Plug)
    (hp : e.processing = false) (hs : e.plugs = some (p :: q :: r)) :
    match rangedNames ((p :: q :: r).map (·.name)) with
    | some n => (stmtSend d a o e fmt).dev = { d with toBuf := clipTo (d.toBuf ++ hsprintf fmt (some n)) } ∧
                (stmtSend d a o e fmt).out.head? = some (.sent (hsprintf fmt (some n)))
    | none => (stmtSend d a o e fmt).dev = d ∧ (stmtSend d a o e fmt).out = [.abortAssert "hostlist_sort assert in _process_send"] := by
  unfold stmtSend
  simp only [hp, hs, Bool.not_false, ↓reduceIte]
  cases rangedNames ((p :: q :: r).map (·.name)) with
  | none => simp
  | some n => simp only [Option.map_some]; split <;> simp

/-- first-time send of an `_all` action (no plug list; an empty one is treated alike): `%s` is not substituted -/
theorem stmtSend_all (d : Dev) (a : Action) (o : Oracle) (e : ExecCtx) (fmt : Bytes)
    (hp : e.processing = false) (hs : e.plugs = none ∨ e.plugs = some []) :
    (stmtSend d a o e fmt).dev = { d with toBuf := clipTo (d.toBuf ++ hsprintf fmt none) } ∧
    (stmtSend d a o e fmt).out.head? = some (.sent (hsprintf fmt none)) := by
  unfold stmtSend
  rcases hs with hs | hs <;> simp only [hp, hs, Bool.not_false, ↓reduceIte] <;> split <;> simp

/-- the statements as they read before the capacity of `dev->to` was modelled: as long as the text fits behind what is queued
    (`|queued ++ text| ≤ 65536`) the write is a plain append -/
theorem stmtSend_singlet_below (d : Dev) (a : Action) (o : Oracle) (e : ExecCtx) (fmt : Bytes) (p : Plug)
    (hp : e.processing = false) (hs : e.plugs = some [p]) (hfit : (d.toBuf ++ hsprintf fmt (some p.name)).length ≤ 65536) :
    (stmtSend d a o e fmt).dev = { d with toBuf := d.toBuf ++ hsprintf fmt (some p.name) } ∧
    (stmtSend d a o e fmt).out.head? = some (.sent (hsprintf fmt (some p.name))) := by
  have h := stmtSend_singlet d a o e fmt p hp hs
  rw [clipTo_append_of_le _ _ hfit] at h; exact h

theorem stmtSend_ranged_below (d : Dev) (a : Action) (o : Oracle) (e : ExecCtx) (fmt : Bytes) (p q : Plug) (r : List Plug)
    (hp : e.processing = false) (hs : e.plugs = some (p :: q :: r)) (n : Bytes)
    (hn : rangedNames ((p :: q :: r).map (·.name)) = some n) (hfit : (d.toBuf ++ hsprintf fmt (some n)).length ≤ 65536) :
    (stmtSend d a o e fmt).dev = { d with toBuf := d.toBuf ++ hsprintf fmt (some n) } ∧
    (stmtSend d a o e fmt).out.head? = some (.sent (hsprintf fmt (some n))) := by
  have h := stmtSend_ranged d a o e fmt p q r hp hs
  rw [hn] at h
  dsimp only at h
  rw [clipTo_append_of_le _ _ hfit] at h; exact h

theorem stmtSend_all_below (d : Dev) (a : Action) (o : Oracle) (e : ExecCtx) (fmt : Bytes)
    (hp : e.processing = false) (hs : e.plugs = none ∨ e.plugs = some []) (hfit : (d.toBuf ++ hsprintf fmt none).length ≤ 65536) :
    (stmtSend d a o e fmt).dev = { d with toBuf := d.toBuf ++ hsprintf fmt none } ∧
    (stmtSend d a o e fmt).out.head? = some (.sent (hsprintf fmt none)) := by
  have h := stmtSend_all d a o e fmt hp hs
  rw [clipTo_append_of_le _ _ hfit] at h; exact h

/-- a send that is waiting for its bytes to drain writes nothing more -/
theorem stmtSend_again (d : Dev) (a : Action) (o : Oracle) (e : ExecCtx) (fmt : Bytes) (hp : e.processing = true) :
    (stmtSend d a o e fmt).dev = d ∧ (stmtSend d a o e fmt).out = [] := by
  unfold stmtSend
  simp only [hp, Bool.not_true, Bool.false_eq_true, ↓reduceIte]
  split <;> simp

/-! ### the plugs a fresh action commands, and what its first `send` writes -/

theorem isQuery_comIdx (com : Com) :
    isQuery (comIdx com) = false ↔ com ∈ [Com.on, .off, .cycle, .reset, .flash, .unflash] := by
  cases com <;> decide

/-- for a power command (not a query) every plug an appended action can command — the plug list of a singlet or
    ranged action, every plug of the device for an `_all` action — is a plug of this device mapped to a named node -/
theorem newActs_commanded {d : Dev} {com : Nat} {targets : List Bytes} {cid : Nat} {tele : Bool} {al : Nat} {a : Action}
    (hq : isQuery com = false) (h : a ∈ newActs d.plugs d.scripts com targets cid tele al) :
    ∀ p ∈ a.commanded d, p ∈ d.plugs ∧ ∃ n, p.node = some n ∧ n ∈ targets := by
  intro p hp
  unfold Action.commanded at hp
  cases ho : a.outerPlugs with
  | some ps => rw [ho] at hp; exact newActs_subset h ho p hp
  | none =>
    rw [ho] at hp
    simp only [Option.getD_none] at hp
    rcases (newActs_all h ho).2 with hall | ⟨hq', _⟩
    · exact ⟨hp, tgt_spec (List.all_eq_true.mp hall p hp)⟩
    · rw [hq] at hq'; cases hq'

/-- the top context of a freshly enqueued action is its outer context, not yet processing -/
theorem newActs_topCtx {plugs : List Plug} {scripts : Nat → Option (List Stmt)} {com : Nat} {targets : List Bytes}
    {cid : Nat} {tele : Bool} {al : Nat} {a : Action} (h : a ∈ newActs plugs scripts com targets cid tele al) :
    (Pm.Dev2.topCtx a).plugs = a.outerPlugs ∧ (Pm.Dev2.topCtx a).processing = false ∧ (Pm.Dev2.topCtx a).pos = 0 ∧
    (Pm.Dev2.topCtx a).block = (scripts a.com).getD [] := by
  unfold Pm.Dev2.topCtx
  rw [(newActs_exec h).1]
  exact ⟨rfl, rfl, rfl, rfl⟩

/-- a `send` executed in the outer context of a freshly enqueued singlet action writes the format filled with the
    configured name of a plug of this device whose node the request names -/
theorem fresh_singlet_send {d : Dev} {com : Nat} {targets : List Bytes} {cid : Nat} {tele : Bool} {al : Nat} {a : Action}
    (h : a ∈ newActs d.plugs d.scripts com targets cid tele al) {p : Plug} (hp : a.outerPlugs = some [p])
    (d' : Dev) (o : Oracle) (fmt : Bytes) :
    (stmtSend d' a o (Pm.Dev2.topCtx a) fmt).dev.toBuf = clipTo (d'.toBuf ++ hsprintf fmt (some p.name)) ∧
    p ∈ d.plugs ∧ ∃ n, p.node = some n ∧ n ∈ targets := by
  obtain ⟨h1, h2, _, _⟩ := newActs_topCtx h
  refine ⟨?_, newActs_subset h hp p (by simp)⟩
  rw [(stmtSend_singlet d' a o _ fmt p h2 (h1.trans hp)).1]

/-! ### `parseLine`: which target list reaches `install` -/

def kwOf : Com → Bytes
  | .on => kwOn | .off => kwOff | .cycle => kwCycle | .reset => kwReset | .flash => kwFlash | .unflash => kwUnflash
  | .status => kwStatus | .temp => kwTemp | .beacon => kwBeacon

/-- the keyword scan of `_parse_input`, in the order of the `sscanf` chain -/
def matchCmd (str : Bytes) : Option (Com × Bytes) :=
  let try1 (kw : Bytes) (k : Com) : Option (Com × Bytes) := (scan kw str).map fun a => (k, a)
  (try1 kwOn .on).orElse fun _ => (try1 kwOff .off).orElse fun _ => (try1 kwCycle .cycle).orElse fun _ =>
  (try1 kwReset .reset).orElse fun _ => (try1 kwFlash .flash).orElse fun _ => (try1 kwUnflash .unflash).orElse fun _ =>
  (try1 kwStatus .status).orElse fun _ => (try1 kwTemp .temp).orElse fun _ => (try1 kwBeacon .beacon)

theorem orElse_step {str kw : Bytes} {k com : Com} {arg : Bytes} {rest : Option (Com × Bytes)}
    (h : ((scan kw str).map fun a => (k, a)).orElse (fun _ => rest) = some (com, arg)) :
    (k = com ∧ scan kw str = some arg) ∨ rest = some (com, arg) := by
  cases hs : scan kw str with
  | none => rw [hs] at h; exact .inr (by simpa using h)
  | some a => rw [hs] at h; simp at h; exact .inl ⟨h.1, by rw [h.2]⟩

theorem matchCmd_spec {str : Bytes} {com : Com} {arg : Bytes} (h : matchCmd str = some (com, arg)) :
    scan (kwOf com) str = some arg := by
  unfold matchCmd at h
  simp only [] at h
  have h0 := h
  rcases orElse_step h0 with ⟨rfl, g⟩ | h1; exact g
  rcases orElse_step h1 with ⟨rfl, g⟩ | h2; exact g
  rcases orElse_step h2 with ⟨rfl, g⟩ | h3; exact g
  rcases orElse_step h3 with ⟨rfl, g⟩ | h4; exact g
  rcases orElse_step h4 with ⟨rfl, g⟩ | h5; exact g
  rcases orElse_step h5 with ⟨rfl, g⟩ | h6; exact g
  rcases orElse_step h6 with ⟨rfl, g⟩ | h7; exact g
  rcases orElse_step h7 with ⟨rfl, g⟩ | h8; exact g
  cases hs : scan kwBeacon str with
  | none => rw [hs] at h8; simp at h8
  | some a => rw [hs] at h8; simp at h8; obtain ⟨rfl, rfl⟩ := h8; exact hs

theorem handleWrite_devs (w : W) (c : Cli) : (handleWrite w c).1.devs = w.devs := by
  unfold handleWrite setCap
  simp only []
  repeat' split
  all_goals rfl

theorem handleWrite_cmd (w : W) (c : Cli) : (handleWrite w c).2.cmd = c.cmd := by
  unfold handleWrite setCap
  simp only []
  repeat' split
  all_goals rfl

/-- what `_parse_input` does with a line, as far as the queues and the client's command go: nothing, or `install` on the
    target list `_hostlist_create_validated` returned (`conf_exp_aliases` of the expansion of the typed expression, every
    name a configured node), or on all nodes for a bare query -/
theorem parseLine_cases' (w : W) (c : Cli) (line : Bytes) :
    ((parseLine w c line).1.devs = w.devs ∧ (parseLine w c line).2.cmd = c.cmd) ∨
    ∃ com names, parseLine w c line = install w c com names ∧ c.cmd = none ∧
      ((isQuery (comIdx com) = true ∧ names = expand w.cfg.nodes) ∨
       (∃ arg hl, scan (kwOf com) (stripWs (line.takeWhile (· != 0))) = some arg ∧ createR (toChars arg) = .ok hl ∧
          names = expAliases w.cfg.aliases (expand hl) ∧ ∀ n ∈ names, (find w.cfg.nodes n).isSome = true)) := by
  generalize hr : parseLine w c line = r
  rw [parseLine] at hr
  extract_lets fin cfg0 c1 c2 c3 try1 m devArg at hr
  by_cases hlong : (stripWs (line.takeWhile (· != 0))).length ≥ lineMax
  · rw [if_pos hlong] at hr; subst hr; exact .inl ⟨rfl, rfl⟩
  rw [if_neg hlong] at hr
  split at hr
  · subst hr; exact .inl ⟨rfl, rfl⟩
  rename_i hcmd
  have hcmd : c.cmd = none := by simpa using hcmd
  split at hr
  · subst hr; exact .inl ⟨rfl, rfl⟩
  split at hr
  · split at hr <;> (subst hr; exact .inl ⟨rfl, rfl⟩)
  split at hr
  · subst hr; exact .inl ⟨rfl, rfl⟩
  split at hr
  · subst hr; exact .inl ⟨rfl, rfl⟩
  split at hr
  · subst hr; exact .inl ⟨handleWrite_devs _ _, (handleWrite_cmd _ _).trans rfl⟩
  have hm : m = matchCmd (stripWs (line.takeWhile (· != 0))) := rfl
  clear_value m devArg
  split at hr
  · split at hr
    · subst hr; exact .inr ⟨_, _, rfl, hcmd, .inl ⟨rfl, rfl⟩⟩
    split at hr
    · subst hr; exact .inr ⟨_, _, rfl, hcmd, .inl ⟨rfl, rfl⟩⟩
    split at hr
    · subst hr; exact .inr ⟨_, _, rfl, hcmd, .inl ⟨rfl, rfl⟩⟩
    split at hr
    · subst hr; exact .inl ⟨rfl, rfl⟩
    · split at hr <;> (subst hr; exact .inl ⟨rfl, rfl⟩)
  · rename_i com arg
    have hscan := matchCmd_spec hm.symm
    split at hr
    · subst hr; exact .inl ⟨rfl, rfl⟩
    · subst hr; exact .inl ⟨rfl, rfl⟩
    · rename_i hl hcr
      extract_lets names bad at hr
      split at hr
      · subst hr; exact .inl ⟨rfl, rfl⟩
      · rename_i hbad
        subst hr
        refine .inr ⟨com, names, rfl, hcmd, .inr ⟨arg, hl, hscan, hcr, rfl, ?_⟩⟩
        intro n hn
        have hb : bad = [] := by simpa using hbad
        have : n ∉ bad := by rw [hb]; simp
        have h2 := fun h => this (List.mem_filter.mpr ⟨hn, h⟩)
        cases hf : find w.cfg.nodes n with
        | none => exact absurd (by simp [hf]) h2
        | some i => rfl

theorem parseLine_cases (w : W) (c : Cli) (line : Bytes) :
    (parseLine w c line).1.devs = w.devs ∨
    ∃ com names, parseLine w c line = install w c com names ∧ c.cmd = none ∧
      ((isQuery (comIdx com) = true ∧ names = expand w.cfg.nodes) ∨
       (∃ arg hl, scan (kwOf com) (stripWs (line.takeWhile (· != 0))) = some arg ∧ createR (toChars arg) = .ok hl ∧
          names = expAliases w.cfg.aliases (expand hl) ∧ ∀ n ∈ names, (find w.cfg.nodes n).isSome = true)) := by
  rcases parseLine_cases' w c line with h | h
  · exact .inl h.1
  · exact .inr h

/-- **the validated target list.**  If a line typed while no command was in progress leaves the client with a command `k`,
    then `k` is the product of `install` for this line: all devices went through `installDev` for the target list
    `k.names`, and `k.names` is — for a bare query, all configured nodes — otherwise `conf_exp_aliases` applied to the
    expansion of the host expression typed after the keyword, every name of it a configured node -/
theorem parseLine_validated (w : W) (c : Cli) (line : Bytes) (k : CmdC) (h0 : c.cmd = none)
    (hk : (parseLine w c line).2.cmd = some k) :
    (parseLine w c line).1.devs = w.devs.map (installDev (comIdx k.com) (k.names.map ofChars) c.id c.telemetry w.alNext) ∧
    k.al = w.alNext ∧
    ((isQuery (comIdx k.com) = true ∧ k.names = expand w.cfg.nodes) ∨
     (∃ arg hl, scan (kwOf k.com) (stripWs (line.takeWhile (· != 0))) = some arg ∧ createR (toChars arg) = .ok hl ∧
        k.names = expAliases w.cfg.aliases (expand hl) ∧ ∀ n ∈ k.names, (find w.cfg.nodes n).isSome = true)) := by
  rcases parseLine_cases' w c line with ⟨_, hc⟩ | ⟨com, names, hp, _, hcase⟩
  · rw [hc, h0] at hk; cases hk
  · rw [hp] at hk ⊢
    rcases install_cases w c com names with hr | ⟨_, hdevs, _, hcli⟩
    · rw [hr] at hk; simp only [put] at hk; rw [h0] at hk; cases hk
    · rw [hcli] at hk
      simp only [Option.some.injEq] at hk
      subst hk
      exact ⟨hdevs, rfl, hcase⟩

/-- a plug commanded on behalf of a power request whose (validated) target list is `conf_exp_aliases` of the typed names:
    its node is a typed name that is not an alias name, or one of the hosts of a typed alias -/
theorem alias_commanded {d : Dev} {com : Nat} {als : List (Name × List Name)} {typed : List Name} {cid : Nat} {tele : Bool}
    {al : Nat} {a : Action} (hq : isQuery com = false)
    (h : a ∈ newActs d.plugs d.scripts com ((expAliases als typed).map ofChars) cid tele al) :
    ∀ p ∈ a.commanded d, p ∈ d.plugs ∧ ∃ m, p.node = some (ofChars m) ∧
      ((m ∈ typed ∧ aliasOf als m = none) ∨ ∃ b ∈ typed, ∃ hs, aliasOf als b = some hs ∧ m ∈ hs) := by
  intro p hp
  obtain ⟨h1, n, hn, hmem⟩ := newActs_commanded hq h p hp
  obtain ⟨m, hm, rfl⟩ := List.mem_map.mp hmem
  exact ⟨h1, m, hn, AliasPf.mem_expAliases.mp hm⟩

/-- the same for the plug list of any appended action (queries included) -/
theorem alias_subset {d : Dev} {com : Nat} {als : List (Name × List Name)} {typed : List Name} {cid : Nat} {tele : Bool}
    {al : Nat} {a : Action}
    (h : a ∈ newActs d.plugs d.scripts com ((expAliases als typed).map ofChars) cid tele al)
    {ps : List Plug} (hps : a.outerPlugs = some ps) :
    ∀ p ∈ ps, p ∈ d.plugs ∧ ∃ m, p.node = some (ofChars m) ∧
      ((m ∈ typed ∧ aliasOf als m = none) ∨ ∃ b ∈ typed, ∃ hs, aliasOf als b = some hs ∧ m ∈ hs) := by
  intro p hp
  obtain ⟨h1, n, hn, hmem⟩ := newActs_subset h hps p hp
  obtain ⟨m, hm, rfl⟩ := List.mem_map.mp hmem
  exact ⟨h1, m, hn, AliasPf.mem_expAliases.mp hm⟩

/-! ### concrete devices for the non-vacuity examples -/
def exP1 : Plug := ⟨[49], some [110, 49]⟩          -- plug "1" ↦ node "n1"
def exP2 : Plug := ⟨[50], none⟩                    -- plug "2" unused
def exP3 : Plug := ⟨[51], some [110, 51]⟩          -- plug "3" ↦ node "n3"
def exP4 : Plug := ⟨[52], some [110, 52]⟩          -- plug "4" ↦ node "n4"

def exDevWith (plugs : List Plug) (scripts : Nat → Option (List Stmt)) : Dev :=
  { plugs, scripts, timeout := 0, acts := [], toBuf := [], fromBuf := [], xmStr := none, xmOffs := [], xmResult := false,
    xmUsed := false, args := [], nextUid := 0, shortCircuitDelay := false }

/-- `off` (10), `off_ranged` (11) and `off_all` (12) scripts, each one `send` -/
def exScripts : Nat → Option (List Stmt)
  | 10 => some [.send [111, 102, 102, 32, 37, 115, 10]]      -- "off %s\n"
  | 11 => some [.send [111, 102, 102, 32, 37, 115, 10]]
  | 12 => some [.send [111, 102, 102, 32, 42, 10]]           -- "off *\n"
  | _ => none
/-- only the `_all` variant -/
def exScriptsAllOnly : Nat → Option (List Stmt)
  | 12 => some [.send [111, 102, 102, 32, 42, 10]]
  | _ => none
/-- only the singlet variant -/
def exScriptsSinglet : Nat → Option (List Stmt)
  | 10 => some [.send [111, 102, 102, 32, 37, 115, 10]]
  | _ => none

def exDev : Dev := exDevWith [exP1, exP2, exP3, exP4] exScripts
def exDevFull : Dev := exDevWith [exP1, exP3] exScripts

def summary (l : List Action) : List (Nat × Option (List Plug)) := l.map fun a => (a.com, a.outerPlugs)

-- two of three mapped plugs named: one ranged action for exactly those two plugs
example : needsDev exDev [[110, 49], [110, 51]] = true ∧ handles exDev 10 [[110, 49], [110, 51]] = true ∧
    summary (newActs exDev.plugs exDev.scripts 10 [[110, 49], [110, 51]] 5 false 2) = [(11, some [exP1, exP3])] := by decide +kernel
-- one plug named: the singlet script
example : summary (newActs exDev.plugs exDev.scripts 10 [[110, 51]] 5 false 2) = [(10, some [exP3])] := by decide +kernel
-- every plug of the device named (and none unused): the `_all` script
example : summary (newActs exDevFull.plugs exDevFull.scripts 10 [[110, 51], [110, 49], [120]] 5 false 2) = [(12, none)] ∧
    exDevFull.plugs.all (tgt [[110, 51], [110, 49], [120]]) = true := by decide +kernel
-- every *mapped* plug named but one plug unused: not `_all`
example : summary (newActs exDev.plugs exDev.scripts 10 [[110, 49], [110, 51], [110, 52]] 5 false 2) = [(11, some [exP1, exP3, exP4])] := by decide +kernel
-- no ranged, no all: one singlet action per named plug, in configuration order
example : summary (newActs exDev.plugs exScriptsSinglet 10 [[110, 52], [110, 49]] 5 false 2) = [(10, some [exP1]), (10, some [exP4])] := by decide +kernel
-- nothing named
example : needsDev exDev [[122]] = false ∧ (enqueue exDev 10 [[122]] 5 false 2).2 = 0 := by decide +kernel
-- the F15 shape: only `off_all` exists and part of the device is named.  `implemented` holds, `handles` does not
-- (the request is refused with 213), and indeed nothing would be enqueued
example : needsDev (exDevWith [exP1, exP3] exScriptsAllOnly) [[110, 49]] = true ∧
    implemented (exDevWith [exP1, exP3] exScriptsAllOnly) 10 = true ∧
    handles (exDevWith [exP1, exP3] exScriptsAllOnly) 10 [[110, 49]] = false ∧
    newActs [exP1, exP3] exScriptsAllOnly 10 [[110, 49]] 5 false 2 = [] := by decide +kernel
/-- a daemon with two devices (`exDev` and a one-plug device for node "z9"), nodes n1 n3 n4 configured, one idle client -/
def exW : W :=
  { cfg := { plugs := [], has := [], nodes := ([['n', '1'], ['n', '3'], ['n', '4']] : List Name).foldl pushHost [], version := [] },
    clients := [], devs := [([100], exDev), ([101], exDevWith [⟨[49], some [122, 57]⟩] exScripts)] }
def exC : Cli := { id := 5, fd := 1000 }
/-- the line `off n[1,3]\n` -/
def exLine : Bytes := [111, 102, 102, 32, 110, 91, 49, 44, 51, 93, 10]

-- from the client's line to the queues: one `off_ranged` action for plugs "1","3" on the first device, nothing on the second
example : (parseLine exW exC exLine).1.devs.map (fun nd => summary nd.2.acts) = [[(11, some [exP1, exP3])], []] ∧
    ((parseLine exW exC exLine).2.cmd.map fun k => (k.com, k.names, k.pending)) = some (Com.off, [['n', '1'], ['n', '3']], 1) := by
  decide +kernel

/-! ### a configuration with aliases

Two devices: `dt` with plugs "0"…"7" ↦ t0…t7, `du` with plugs "0"…"3" ↦ u0…u3; scripts `on`, `on_ranged`, `off`, `off_ranged`,
`status_all`.  Aliases `rackt = t0,t1,t2,t3`, `mix = t7,u1,u2`, `dupl = t1,t1`. -/

def alPlug (pfx : Char) (i : Nat) : Plug := ⟨bstr (toString i), some (ofChars (pfx :: (toString i).toList))⟩
def alScripts : Nat → Option (List Stmt)
  | 7 => some [.send (bstr "on %s\n")] | 8 => some [.send (bstr "on %s\n")]
  | 10 => some [.send (bstr "off %s\n")] | 11 => some [.send (bstr "off %s\n")]
  | 3 => some [.send (bstr "stat\n")]
  | _ => none
def alDevT : Dev := exDevWith ((List.range 8).map (alPlug 't')) alScripts
def alDevU : Dev := exDevWith ((List.range 4).map (alPlug 'u')) alScripts
def alNames : List Name := ((List.range 8).map fun i => 't' :: (toString i).toList) ++ ((List.range 4).map fun i => 'u' :: (toString i).toList)
def alW : W :=
  { cfg := { plugs := [], has := [], nodes := alNames.foldl pushHost [], version := [], aliases := AliasPf.exAls },
    clients := [], devs := [(bstr "dt", alDevT), (bstr "du", alDevU)] }

/-- what a request line does to `alW`: the client's target list as text, the number of actions awaited, and per device the
    appended actions (script slot, names of the plugs listed) -/
def alRun (line : String) : Option (List String × Nat) × List (List (Nat × Option (List String))) :=
  let r := parseLine alW exC (bstr line)
  (r.2.cmd.map fun k => (k.names.map String.ofList, k.pending),
   r.1.devs.map fun nd => nd.2.acts.map fun a => (a.com, a.outerPlugs.map fun ps => ps.map fun p => String.ofList (toChars p.name)))

-- `on rackt,u3`: the alias name is replaced by its four hosts, after the plain name; `on_ranged` for plugs 0-3 of `dt`, `on` for plug 3 of `du`
example : alRun "on rackt,u3\n" =
    (some (["u3", "t0", "t1", "t2", "t3"], 2), [[(8, some ["0", "1", "2", "3"])], [(7, some ["3"])]]) := by decide +kernel
-- `status mix,mix`: an alias typed twice is expanded twice; part of each device is named and there is no singlet `status`: `status_all`
example : alRun "status mix,mix\n" =
    (some (["t7", "u1", "u2", "t7", "u1", "u2"], 2), [[(3, none)], [(3, none)]]) := by decide +kernel
-- `off t2,rackt`: t2 is in the list twice (typed, and as a host of `rackt`); one `off_ranged` action, plug 2 listed once
example : alRun "off t2,rackt\n" =
    (some (["t2", "t0", "t1", "t2", "t3"], 1), [[(11, some ["0", "1", "2", "3"])], []]) := by decide +kernel
-- `off dupl` (`dupl = t1,t1`): duplicates inside an alias are kept; one singlet `off` for plug 1
example : alRun "off dupl\n" = (some (["t1", "t1"], 1), [[(10, some ["1"])], []]) := by decide +kernel
-- `on rackt,zz9`: the unknown name is reported (209), nothing is enqueued
example : (parseLine alW exC (bstr "on rackt,zz9\n")).2.toBuf = bstr "209 No such nodes: zz9\r\npowerman> " ∧
    (parseLine alW exC (bstr "on rackt,zz9\n")).1.devs.map (fun nd => nd.2.acts.length) = [0, 0] := by decide +kernel

/-! ### a limit of the property: `foreachplug` inside a singlet script

`_process_foreach` iterates the plug list of the *device* for every action that is not of a `_ranged` kind (mirrored by
`stmtForeach`).  A singlet script that contains `foreachplug`/`foreachnode` therefore addresses every plug of the
device although the action was created for one plug.  No shipped device file does this (they use `foreach*` only in
`_all` and `_ranged` scripts) and the configuration parser does not forbid it. -/

def exScriptsForeach : Nat → Option (List Stmt)
  | 10 => some [.foreachplug [.send [111, 102, 102, 32, 37, 115, 10]]]
  | _ => none

/-- the device's output buffer after the first two statements of `a` have run (nothing pending from the device) -/
def twoSteps (d : Dev) (a : Action) : Bytes :=
  let s1 := Pm.Dev2.processStmt d a ⟨[]⟩ 0
  (Pm.Dev2.processStmt s1.dev s1.act s1.oracle 0).dev.toBuf

/-- request `off n3` on a device with plugs "1" ↦ n1, "3" ↦ n3 whose `off` script is `foreachplug { send "off %s\n" }`:
    one singlet action for plug "3" is created, and the first thing it writes is `off 1\n` -/
theorem foreach_in_singlet_counterexample :
    (newActs [exP1, exP3] exScriptsForeach 10 [[110, 51]] 5 false 2).map
        (fun a => (a.com, a.outerPlugs, twoSteps (exDevWith [exP1, exP3] exScriptsForeach) a))
      = [(10, some [exP3], [111, 102, 102, 32, 49, 10])] := by decide +kernel

/-! ### `CP_ERR_TOOLONG`: a line of `CP_LINEMAX` bytes or more is answered 203 and goes no further -/

/-- `if (strlen(str) >= CP_LINEMAX)`, the first test of `_parse_input`: reply 203, then the prompt (the branch falls
    through to the end of the function); no command is created, the world is as it was -/
theorem parseLine_tooLong_eq (w : W) (c : Cli) (line : Bytes)
    (h : (stripWs (line.takeWhile (· != 0))).length ≥ lineMax) :
    parseLine w c line = (w, put c (codeLine 203 ++ crlf ++ (if c.quit then [] else prompt))) := by
  rw [parseLine]
  exact if_pos h

theorem takeWhile_all {p : UInt8 → Bool} (l : Bytes) (h : ∀ a ∈ l, p a = true) : l.takeWhile p = l := by
  induction l with
  | nil => rfl
  | cons a r ih => rw [List.takeWhile_cons_of_pos (h a (by simp)), ih (fun x hx => h x (by simp [hx]))]

/-- a request line made of `pre` (no NUL, not starting with white space), then `k + 1` times `x`, then LF: what
    `_parse_input` looks at is the line without the LF -/
theorem strip_long (pre : Bytes) (k : Nat) (h0 : ∀ a ∈ pre, (a != 0) = true) (hs : isSpace (pre.headD 120) = false) :
    stripWs ((pre ++ List.replicate (k + 1) 120 ++ [10]).takeWhile (· != 0)) = pre ++ List.replicate (k + 1) 120 := by
  rw [takeWhile_all _ (by
    intro a ha
    simp only [List.mem_append, List.mem_replicate, List.mem_singleton] at ha
    rcases ha with (ha | ⟨_, rfl⟩) | rfl
    · exact h0 a ha
    · decide
    · decide)]
  unfold stripWs
  have h1 : (pre ++ List.replicate (k + 1) 120 ++ [10]).dropWhile isSpace = pre ++ List.replicate (k + 1) 120 ++ [10] := by
    cases pre with
    | nil => rw [List.replicate_succ]; exact List.dropWhile_cons_of_neg (by decide)
    | cons a r => exact List.dropWhile_cons_of_neg (by rw [show isSpace a = false from hs]; decide)
  rw [h1, List.reverse_append, List.reverse_append, List.reverse_replicate]
  have h2 : ([10] : Bytes).reverse ++ (List.replicate (k + 1) 120 ++ pre.reverse) = 10 :: 120 :: (List.replicate k 120 ++ pre.reverse) := by
    rw [List.replicate_succ]; rfl
  rw [h2, List.dropWhile_cons_of_pos (by decide), List.dropWhile_cons_of_neg (by decide)]
  rw [← List.cons_append, ← List.replicate_succ, List.reverse_append, List.reverse_reverse, List.reverse_replicate]


end Pm.Daemon.Enq

section AxiomChecks
open Pm.Daemon
end AxiomChecks
