import Pm.Signal
import Pm.Dev2Fd
import Pm.Dev2Timer
import Pm.WalkProof
import Pm.StdioCli
/-! # C20 — no resource leaks: descriptors and coprocess children

Scope: the connection layer of one device (`device.c:_connect/_disconnect/_reconnect/_handle_ready_device/
_process_action/dev_post_poll`, `device_tcp.c`, `device_pipe.c`) on the mirror `Pm/Dev2.lean`, for every device,
queue, script, oracle answer, kernel answer and fuel.  No theorem here needs a "the pass did not abort" hypothesis.

How it is organised (`Pm/Dev2Fd.lean`): seen through (descriptor, connection state, child pid) and the system-call log,
every function of the layer performs a sequence (`Moves`) of nine kinds of move (`Tr`: nothing / a C assert from a
state where `fd` and `connect_state` disagree / tcp open / tcp open-and-fail / coprocess open / finish connect /
finish-connect fails / disconnect / the `finish_connect != NULL` assert on a coprocess device that is CONNECTING); the
invariants and the two ledgers are checked against the nine moves once
(`Keeps`).  A host with several addresses (`tcp->addrs`): `tcp_connect` and `tcp_finish_connect` walk the list — one
`tcp open-and-fail` move per address that fails, then at most one `tcp open` (`connectWalk_moves`); the log of a walk is
spelt out in `C20_fd_ledger_walk`.

Ranking: the state invariants ▸ they are kept by every function ▸ the descriptor ledger (no double close, no leak) ▸
the child ledger (no kill of a foreign pid, every signalled child reaped, no zombie) ▸ the same as count equations. -/
namespace Pm.Props.C20
open Pm.Dev2
open Pm.Dev2.Fd

/-! ## the invariants -/

/-- the state `dev_create` leaves a device in (`fd = NO_FD`, `DEV_NOT_CONNECTED`, no child) satisfies all three -/
theorem C20_invariants_hold_initially (d : Dev) (h0 : d.conn = 0) (hf : d.fd = none) (hc : d.cpid = none) :
    FdInv d ∧ ChildInv d ∧ ConnRange d := by
  simp [FdInv, ChildInv, ConnRange, h0, hf, hc]

/-- non-vacuity: a connected tcp device and a connected coprocess device satisfy them -/
example : FdInv exTcp ∧ ChildInv exTcp ∧ ConnRange exTcp := by simp [FdInv, ChildInv, ConnRange, exTcp, exDev]
example : FdInv exPipe ∧ ChildInv exPipe ∧ ConnRange exPipe := by simp [FdInv, ChildInv, ConnRange, exPipe, exDev]

/-- `dev->fd != NO_FD` exactly when `connect_state != DEV_NOT_CONNECTED`: kept by a whole `dev_post_poll` pass -/
theorem C20_fd_inv_preserved (d : Dev) (env : Env) (o : Oracle) (h : FdInv d) : FdInv (postPoll d env o).1.dev :=
  (postPoll_moves d env o).keeps_all.fdInv h

/-- a child pid is recorded exactly for a connected coprocess device, and a coprocess device is never CONNECTING:
    kept by a whole `dev_post_poll` pass -/
theorem C20_child_inv_preserved (d : Dev) (env : Env) (o : Oracle) (h : ChildInv d) : ChildInv (postPoll d env o).1.dev :=
  (postPoll_moves d env o).keeps_all.childInv h

/-- `connect_state` stays one of the three enum values -/
theorem C20_conn_range_preserved (d : Dev) (env : Env) (o : Oracle) (h : ConnRange d) : ConnRange (postPoll d env o).1.dev :=
  (postPoll_moves d env o).keeps_all.connRange h

/-- the transport kind never changes -/
theorem C20_transport_fixed (d : Dev) (env : Env) (o : Oracle) : (postPoll d env o).1.dev.isPipe = d.isPipe :=
  (postPoll_moves d env o).isPipe

/-- `ChildInv`'s third conjunct — a coprocess device is never CONNECTING — is what `_handle_ready_device` asserts
    (`assert(dev->finish_connect != NULL)`: only a tcp device has the method).  A coprocess device put in state CONNECTING
    satisfies the first two conjuncts; POLLOUT takes it to that assert: the daemon is gone, the device is as it was.
    (Before the assert was modelled the mirror let such a device run through `tcp_finish_connect`, which showed the
    two-conjunct version not inductive: NOT_CONNECTED with the child still recorded.) -/
theorem C20_pipe_connecting_asserts :
    let d := exPipeConnecting
    let r := (handleReady ⟨d, exEnvRefused, [], false⟩).1
    ((d.cpid.isSome = true → d.isPipe = true ∧ d.conn ≠ 0) ∧ (d.isPipe = true → d.conn ≠ 0 → d.cpid.isSome = true)) ∧
    ¬ ChildInv d ∧ r.aborted = true ∧
    (match r.sys with | [Sys.abort s] => s == "assert finish_connect != NULL" | _ => false) = true ∧
    r.dev.fd = d.fd ∧ r.dev.conn = d.conn ∧ r.dev.cpid = d.cpid := by
  unfold ChildInv; decide +kernel

/-- under `ChildInv` that assert is never reached: a coprocess device is not CONNECTING when `_handle_ready_device` looks -/
theorem C20_finish_connect_assert_unreachable (d : Dev) (h : ChildInv d) : ¬ (d.isPipe = true ∧ d.conn = 1) :=
  fun ⟨hp, h1⟩ => h.2.2 hp h1

/-! ## every function of the layer is a sequence of legal moves, hence keeps everything in `Keeps`

`Keeps c c'` (see `Pm/Dev2Fd.lean`) is: transport kind unchanged; `FdInv`, `ChildInv`, `ConnRange` each kept; no C
assert logged if `FdInv` held and none was logged; the descriptor audit of the log still succeeds and ends with the
descriptor held; the child audit of the log still succeeds (given `ChildInv`) and ends with the child recorded. -/

/-- the bridge: whatever is reached by legal moves keeps all of the above -/
theorem C20_moves_keep (c c' : CS) (h : Moves c c') : Keeps c c' := h.keeps_all

/-- `tcp_connect` (tcp device, called in state NOT_CONNECTED as `_reconnect` does) -/
theorem C20_tcpConnect (c : CS) (hp : c.dev.isPipe = false) (h0 : c.dev.conn = 0) : Moves c (tcpConnect c).1 :=
  tcpConnect_moves c hp h0
/-- `pipe_connect` (coprocess device, called in state NOT_CONNECTED) -/
theorem C20_pipeConnect (c : CS) (hp : c.dev.isPipe = true) (h0 : c.dev.conn = 0) : Moves c (pipeConnect c).1 :=
  pipeConnect_moves c hp h0
/-- `_connect` (called in state NOT_CONNECTED) -/
theorem C20_connectDev (c : CS) (h0 : c.dev.conn = 0) : Moves c (connectDev c) := connectDev_moves c h0
/-- `_disconnect` -/
theorem C20_disconnectDev (c : CS) : Moves c (disconnectDev c) := disconnectDev_moves c
/-- `_reconnect` -/
theorem C20_reconnectDev (c : CS) (tmo : Option Time) : Moves c (reconnectDev c tmo).1 := reconnectDev_moves c tmo
/-- `_handle_ready_device` (called, as `dev_post_poll` does, only when a descriptor is held) -/
theorem C20_handleReady (c : CS) (hfd : c.dev.fd.isSome = true) : Moves c (handleReady c).1 := handleReady_moves c hfd
/-- the error branch of `_process_action` -/
theorem C20_failAll (rest : List Action) (c : CS) (a : Action) (o : Oracle) (out : List Out) (tmo : Option Time) :
    Moves c (failAll rest c a o out tmo).1 := failAll_moves rest c a o out tmo
/-- the timeout branch of `_process_action` -/
theorem C20_onTimeout (rest : List Action) (c : CS) (a : Action) (o : Oracle) (out : List Out) (tmo : Option Time) :
    Moves c (onTimeout rest c a o out tmo).1 := onTimeout_moves rest c a o out tmo
/-- the statement-running branch of `_process_action`, with the rest of the loop as a parameter -/
theorem C20_onRun (k : CS → Oracle → List Out → Option Time → PA) (rest : List Action) (c : CS) (a : Action)
    (o : Oracle) (out : List Out) (tmo : Option Time) (left : Time)
    (hk : ∀ c' o' out' tmo', Moves c' (k c' o' out' tmo').1) : Moves c (onRun k rest c a o out tmo left).1 :=
  onRun_moves k rest c a o out tmo left hk
/-- the hypothesis on `k` is what the induction on the fuel supplies -/
example (fuel : Nat) : ∀ c' o' out' tmo', Moves c' (processActionF fuel c' o' out' tmo').1 := processActionF_moves fuel
/-- `_process_action`, every fuel -/
theorem C20_processActionF (fuel : Nat) (c : CS) (o : Oracle) (out : List Out) (tmo : Option Time) :
    Moves c (processActionF fuel c o out tmo).1 := processActionF_moves fuel c o out tmo
/-- `_process_action` with the fuel the pass really uses -/
theorem C20_processAction (c : CS) (o : Oracle) (out : List Out) (tmo : Option Time) :
    Moves c (processAction c o out tmo).1 := processAction_moves c o out tmo
/-- `dev_post_poll` -/
theorem C20_postPoll (d : Dev) (env : Env) (o : Oracle) : Moves { dev := d, env := env, sys := [] } (postPoll d env o).1 :=
  postPoll_moves d env o

/-- script statements never touch descriptor, connection state, child pid or transport kind -/
theorem C20_statements_leave_link_alone (now : Time) (fuel : Nat) (d : Dev) (a : Action) (o : Oracle) (acc : List Out) :
    SameFd d (innerLoop now fuel d a o acc).dev := innerLoop_sameFd now fuel d a o acc

/-- `_handle_ready_device` keeps the three state invariants also when called without a descriptor (it then stops at
    its assert without touching the device) -/
theorem C20_handleReady_invariants (c : CS) :
    (FdInv c.dev → FdInv (handleReady c).1.dev) ∧ (ChildInv c.dev → ChildInv (handleReady c).1.dev) ∧
    (ConnRange c.dev → ConnRange (handleReady c).1.dev) :=
  ⟨handleReady_keeps_dev stepInv_fdInv c, handleReady_keeps_dev stepInv_childInv c, handleReady_keeps_dev stepInv_connRange c⟩

/-! ### below `tcp_connect` the descriptor invariant is suspended

`tcp_connect` sets `connect_state = DEV_CONNECTING` before `tcp_connect_one` calls `socket()` and resets it after a
failure, so `FdInv` is not a property of `tcp_connect_one` taken alone; what holds is its contract. -/

/-- `tcp_connect_one` taken alone does not keep `FdInv` (EINPROGRESS from NOT_CONNECTED: descriptor held, state still
    NOT_CONNECTED — `tcp_connect` has set CONNECTING beforehand in the real call) -/
theorem C20_connectOne_alone_counterexample :
    let c : CS := ⟨exDev, exEnv, [], false⟩
    FdInv c.dev ∧ ¬ FdInv (connectOne c).1.dev := by
  unfold FdInv; decide

/-- `tcp_connect_one` as `tcp_connect` calls it (no descriptor, state already CONNECTING): on success the invariant
    holds again; on failure no descriptor is held and the state is left for `tcp_connect` to reset -/
theorem C20_connectOne_contract (c : CS) (hfd : c.dev.fd = none) (h0 : c.dev.conn ≠ 0) :
    ((connectOne c).2 = true → FdInv (connectOne c).1.dev) ∧
    ((connectOne c).2 = false → (connectOne c).1.dev.fd = none ∧ (connectOne c).1.dev.conn = c.dev.conn) :=
  connectOne_contract c hfd h0

example : ({ exDev with conn := 1 } : Dev).fd = none ∧ ({ exDev with conn := 1 } : Dev).conn ≠ 0 := by decide

/-- `tcp_finish_connect_one` with a descriptor held in a state other than NOT_CONNECTED (both call sites) -/
theorem C20_finishConnectOne_fdInv (c : CS) (hfd : c.dev.fd.isSome = true) (h0 : c.dev.conn ≠ 0) :
    FdInv (finishConnectOne c).1.dev := finishConnectOne_fdInv c hfd h0

example : ({ exDev with conn := 1, fd := some 7 } : Dev).fd.isSome = true ∧ ({ exDev with conn := 1, fd := some 7 } : Dev).conn ≠ 0 := by
  decide

/-- both keep `ChildInv` on a tcp device -/
theorem C20_tcp_helpers_childInv (c : CS) (hp : c.dev.isPipe = false) (h : ChildInv c.dev) :
    ChildInv (finishConnectOne c).1.dev ∧ ChildInv (connectOne c).1.dev :=
  ⟨finishConnectOne_childInv c hp h, connectOne_childInv c hp h⟩

/-! ## the descriptor ledger

`fdRun held log` replays the log on the list of open descriptors: `socket`/`socketpair` add, `close fd` removes one
occurrence of `fd` and *fails* if there is none. -/

/-- over one `dev_post_poll` pass, replaying the system-call log from the descriptor held at the start succeeds — no
    `close` is ever issued for a descriptor that is not open at that moment — and ends with exactly the descriptor
    the device holds at the end: nothing opened in the pass is left open and forgotten.  No hypothesis on the device. -/
theorem C20_fd_ledger (d : Dev) (env : Env) (o : Oracle) :
    fdRun d.fd.toList (postPoll d env o).1.sys = some (postPoll d env o).1.dev.fd.toList :=
  (postPoll_moves d env o).keeps_all.fdLedger d.fd.toList rfl

/-- the same as a count equation, per descriptor number: held before + opened = closed + held after -/
theorem C20_fd_balance (d : Dev) (env : Env) (o : Oracle) (n : Nat) :
    d.fd.toList.count n + (opened (postPoll d env o).1.sys).count n
      = (closed (postPoll d env o).1.sys).count n + (postPoll d env o).1.dev.fd.toList.count n :=
  fdRun_count _ _ _ (C20_fd_ledger d env o) n

/-- no double close: at every `close fd` in the log, `fd` was held at the start or opened earlier in the pass more
    often than it has been closed so far -/
theorem C20_no_double_close (d : Dev) (env : Env) (o : Oracle) (p r : List Sys) (fd : Nat)
    (h : (postPoll d env o).1.sys = p ++ Sys.close fd :: r) :
    (closed p).count fd < d.fd.toList.count fd + (opened p).count fd :=
  fdRun_close_held p r fd _ _ (h ▸ C20_fd_ledger d env o)

/-- non-vacuity: the hang-up pass on the tcp device starts with `close 2000` -/
example : ∃ p r, (postPoll exTcp exEnv ⟨[]⟩).1.sys = p ++ Sys.close 2000 :: r := ⟨[], [Sys.socket 2001, Sys.connect 1], rfl⟩

/-- a pass that ends NOT_CONNECTED (with `FdInv`: no descriptor) has closed everything it held or opened -/
theorem C20_no_descriptor_leak (d : Dev) (env : Env) (o : Oracle) (h : FdInv d) (h0 : (postPoll d env o).1.dev.conn = 0)
    (n : Nat) : (closed (postPoll d env o).1.sys).count n = d.fd.toList.count n + (opened (postPoll d env o).1.sys).count n := by
  have hb := C20_fd_balance d env o n
  have : (postPoll d env o).1.dev.fd = none := (C20_fd_inv_preserved d env o h).mpr h0
  rw [this] at hb; simp at hb; omega

/-- non-vacuity: hang-up, then the new `connect` fails at once — 2000 and the new socket 2001 both closed -/
example : FdInv exTcp ∧ (postPoll exTcp exEnvFail ⟨[]⟩).1.dev.conn = 0 ∧
    opened (postPoll exTcp exEnvFail ⟨[]⟩).1.sys = [2001] ∧ closed (postPoll exTcp exEnvFail ⟨[]⟩).1.sys = [2000, 2001] := by
  unfold FdInv; decide

/-- **The descriptor ledger over the address walk: every socket opened for an address that fails is closed before the next
    address is tried.**  `WalkLog δ fd`: the log `δ` consists, for every address that failed, of its `socket x`, entries that
    neither open nor close anything (`connect`, `SO_ERROR`), and the `close x` of that very socket — and only then the next
    address; at the end possibly one socket that stays open, which is then the descriptor `fd` the device holds.
    1. The walk (`while (tcp->cur && !tcp_connect_one(dev, tcp->cur)) tcp->cur = tcp->cur->ai_next`), entered without a
       descriptor (as `tcp_connect` enters it, and `tcp_finish_connect` after its `close`), appends such a log.
    2. Replayed from no open descriptor such a log never closes a descriptor that is not open, and leaves open exactly `fd`.
    3. At every `socket()` of the walk all sockets opened earlier in the walk have been closed: never two at once.
    4. So for `tcp_connect` (NOT_CONNECTED, no descriptor) and for the failure path of `tcp_finish_connect` (which first closes
       the pending socket — `closeOf`) the ledger holds from start to end.
    (Over whole passes: `C20_fd_ledger`, which needs no hypothesis.) -/
theorem C20_fd_ledger_walk :
    (∀ (n : Nat) (c : CS), c.dev.fd = none →
      ∃ δ, (connectWalk n c).sys = c.sys ++ δ ∧ Pm.Dev2.Walk.WalkLog δ (connectWalk n c).dev.fd) ∧
    (∀ (δ : List Sys) (fd : Option Nat), Pm.Dev2.Walk.WalkLog δ fd → fdRun [] δ = some fd.toList) ∧
    (∀ (δ : List Sys) (fd : Option Nat), Pm.Dev2.Walk.WalkLog δ fd →
      ∀ (p r : List Sys) (x : Nat), δ = p ++ Sys.socket x :: r → fdRun [] p = some []) ∧
    (∀ c : CS, c.dev.conn = 0 → c.dev.fd = none →
      ∃ δ, (tcpConnect c).1.sys = c.sys ++ δ ∧ Pm.Dev2.Walk.WalkLog δ (tcpConnect c).1.dev.fd) ∧
    (∀ c : CS, (∃ i, c.dev.cur = some i) →
      ∃ δ, (finishConnectFail c).sys = c.sys ++ closeOf c.dev.fd ++ δ ∧ Pm.Dev2.Walk.WalkLog δ (finishConnectFail c).dev.fd) := by
  refine ⟨Pm.Dev2.Walk.connectWalk_log, fun δ fd h => h.ledger, fun δ fd h => h.one_at_a_time, ?_, ?_⟩
  · intro c h0 hfd
    unfold tcpConnect
    have hfs : c.dev.fd.isSome = false := by simp [hfd]
    simp only [h0, bne_self_eq_false, Bool.false_eq_true, ↓reduceIte, hfs]
    obtain ⟨δ, e1, e2⟩ := Pm.Dev2.Walk.connectWalk_log c.dev.naddr { c with dev := { c.dev with conn := 1, cur := some 0 } } hfd
    generalize connectWalk c.dev.naddr _ = r at *
    refine ⟨δ, ?_, ?_⟩
    · split <;> exact e1
    · split <;> exact e2
  · rintro c ⟨i, hi⟩
    unfold finishConnectFail
    obtain ⟨a1, a2, _, _, _, a6, _⟩ := closeFd_shape c
    generalize closeFd c = c1 at *
    rw [a6, hi]
    dsimp only
    obtain ⟨δ, e1, e2⟩ := Pm.Dev2.Walk.connectWalk_log c1.dev.naddr { c1 with dev := { c1.dev with cur := aiNext c1.dev.naddr i } } a2
    generalize connectWalk c1.dev.naddr _ = r at *
    refine ⟨δ, ?_, ?_⟩
    · split
      · show r.sys = _; rw [e1]; show c1.sys ++ δ = _; rw [a1]
      · rw [e1]; show c1.sys ++ δ = _; rw [a1]
    · split <;> exact e2

/-- non-vacuity: three addresses, the first two fail at once, the third is in progress: sockets 2000 and 2001 are opened and
    closed one after the other, 2002 stays — the device's descriptor; with every address failing, all three are closed -/
example : opened (tcpConnect ⟨Pm.Dev2.Walk.ex3, Pm.Dev2.Walk.env221, [], false⟩).1.sys = [2000, 2001, 2002] ∧
    closed (tcpConnect ⟨Pm.Dev2.Walk.ex3, Pm.Dev2.Walk.env221, [], false⟩).1.sys = [2000, 2001] ∧
    (tcpConnect ⟨Pm.Dev2.Walk.ex3, Pm.Dev2.Walk.env221, [], false⟩).1.sys.length = 8 ∧
    (tcpConnect ⟨Pm.Dev2.Walk.ex3, Pm.Dev2.Walk.env221, [], false⟩).1.dev.fd = some 2002 ∧
    closed (tcpConnect ⟨Pm.Dev2.Walk.ex3, Pm.Dev2.Walk.env222, [], false⟩).1.sys = [2000, 2001, 2002] ∧
    (tcpConnect ⟨Pm.Dev2.Walk.ex3, Pm.Dev2.Walk.env222, [], false⟩).1.dev.fd = none := by decide
/-- … and a whole pass: POLLOUT on the pending socket 2000 (first address), `SO_ERROR` says refused; 2000 is closed, the second
    address connects at once (socket 2001, clean `SO_ERROR`): CONNECTED on address 2, login queued -/
example :
    let d : Dev := { Pm.Dev2.Walk.ex3 with conn := 1, fd := some 2000 }
    opened (postPoll d Pm.Dev2.Walk.envFin ⟨[]⟩).1.sys = [2001] ∧ closed (postPoll d Pm.Dev2.Walk.envFin ⟨[]⟩).1.sys = [2000] ∧
    (postPoll d Pm.Dev2.Walk.envFin ⟨[]⟩).1.dev.fd = some 2001 ∧ (postPoll d Pm.Dev2.Walk.envFin ⟨[]⟩).1.dev.conn = 2 ∧
    (postPoll d Pm.Dev2.Walk.envFin ⟨[]⟩).1.dev.cur = some 1 ∧ (postPoll d Pm.Dev2.Walk.envFin ⟨[]⟩).1.aborted = false := by decide

/-- the ledger for the single functions, in invariant form (the log may already contain earlier calls of the pass) -/
theorem C20_fd_ledger_steps (c : CS) (tmo : Option Time) (held0 : List Nat)
    (h : fdRun held0 c.sys = some c.dev.fd.toList) :
    (c.dev.conn = 0 → fdRun held0 (connectDev c).sys = some (connectDev c).dev.fd.toList) ∧
    fdRun held0 (disconnectDev c).sys = some (disconnectDev c).dev.fd.toList ∧
    fdRun held0 (reconnectDev c tmo).1.sys = some (reconnectDev c tmo).1.dev.fd.toList ∧
    (c.dev.fd.isSome = true → fdRun held0 (handleReady c).1.sys = some (handleReady c).1.dev.fd.toList) :=
  ⟨fun h0 => (connectDev_moves c h0).keeps_all.fdLedger _ h, (disconnectDev_moves c).keeps_all.fdLedger _ h,
   (reconnectDev_moves c tmo).keeps_all.fdLedger _ h, fun hfd => (handleReady_moves c hfd).keeps_all.fdLedger _ h⟩

example : fdRun [2000] ([] : List Sys) = some exTcp.fd.toList := by decide

/-- non-vacuity: hang-up on the connected tcp device — descriptor 2000 closed, 2001 opened and held, nothing aborted -/
example : opened (postPoll exTcp exEnv ⟨[]⟩).1.sys = [2001] ∧ closed (postPoll exTcp exEnv ⟨[]⟩).1.sys = [2000] ∧
    (postPoll exTcp exEnv ⟨[]⟩).1.dev.fd = some 2001 ∧ (postPoll exTcp exEnv ⟨[]⟩).1.aborted = false := by decide

/-! ## the child ledger

`kidRun (live, signalled) log` replays the log on the coprocess children: `fork pid` adds to `live`; `kill pid` moves
`pid` from `live` to `signalled` and *fails* if it is not live; `waitpid pid` removes it from `signalled` and *fails*
if it was not signalled. -/

/-- over one `dev_post_poll` pass, replaying the log from the child recorded at the start succeeds — `kill` only ever
    goes to a live child of ours, `waitpid` only to a child we have just signalled — and ends with exactly the child
    recorded in the device live and none signalled-but-unreaped (no zombie, no forgotten child) -/
theorem C20_child_ledger (d : Dev) (env : Env) (o : Oracle) (h : ChildInv d) :
    kidRun (d.cpid.toList, []) (postPoll d env o).1.sys = some ((postPoll d env o).1.dev.cpid.toList, []) :=
  (postPoll_moves d env o).keeps_all.kidLedger (d.cpid.toList, []) h rfl

/-- counts, per pid: recorded before + forked = signalled + recorded after, and signalled = waited for -/
theorem C20_children_reaped (d : Dev) (env : Env) (o : Oracle) (h : ChildInv d) (n : Nat) :
    d.cpid.toList.count n + (forked (postPoll d env o).1.sys).count n
      = (killed (postPoll d env o).1.sys).count n + (postPoll d env o).1.dev.cpid.toList.count n ∧
    (killed (postPoll d env o).1.sys).count n = (waited (postPoll d env o).1.sys).count n := by
  have := kidRun_count _ _ _ (C20_child_ledger d env o h) n
  simpa using this

/-- `kill pid` is only ever sent to a pid that was recorded at the start or forked earlier in the pass and not yet
    signalled (never to a pid that may have been reused by an unrelated process) -/
theorem C20_kill_only_own_child (d : Dev) (env : Env) (o : Oracle) (h : ChildInv d) (p r : List Sys) (pid : Nat)
    (hs : (postPoll d env o).1.sys = p ++ Sys.kill pid :: r) :
    (killed p).count pid < d.cpid.toList.count pid + (forked p).count pid :=
  kidRun_kill_live p r pid _ _ (hs ▸ C20_child_ledger d env o h)

/-- `waitpid pid` (blocking) is only ever called for a child that has just been sent SIGTERM -/
theorem C20_wait_only_signalled (d : Dev) (env : Env) (o : Oracle) (h : ChildInv d) (p r : List Sys) (pid : Nat)
    (hs : (postPoll d env o).1.sys = p ++ Sys.waitpid pid :: r) :
    (waited p).count pid < (killed p).count pid := by
  have := kidRun_wait_signalled p r pid _ _ (hs ▸ C20_child_ledger d env o h)
  simpa using this

/-- non-vacuity: in the hang-up pass on the coprocess device, `kill 5000` follows `close 3000` and `waitpid 5000`
    follows the `kill` -/
example : ∃ p r, (postPoll exPipe exEnv ⟨[]⟩).1.sys = p ++ Sys.kill 5000 :: r := ⟨[Sys.close 3000], _, rfl⟩
example : ∃ p r, (postPoll exPipe exEnv ⟨[]⟩).1.sys = p ++ Sys.waitpid 5000 :: r := ⟨[Sys.close 3000, Sys.kill 5000], _, rfl⟩

/-- the child ledger for the single functions, in invariant form -/
theorem C20_child_ledger_steps (c : CS) (tmo : Option Time) (k0 : List Nat × List Nat) (hi : ChildInv c.dev)
    (h : kidRun k0 c.sys = some (c.dev.cpid.toList, [])) :
    (c.dev.conn = 0 → kidRun k0 (connectDev c).sys = some ((connectDev c).dev.cpid.toList, [])) ∧
    kidRun k0 (disconnectDev c).sys = some ((disconnectDev c).dev.cpid.toList, []) ∧
    kidRun k0 (reconnectDev c tmo).1.sys = some ((reconnectDev c tmo).1.dev.cpid.toList, []) ∧
    (c.dev.fd.isSome = true → kidRun k0 (handleReady c).1.sys = some ((handleReady c).1.dev.cpid.toList, [])) :=
  ⟨fun h0 => (connectDev_moves c h0).keeps_all.kidLedger _ hi h, (disconnectDev_moves c).keeps_all.kidLedger _ hi h,
   (reconnectDev_moves c tmo).keeps_all.kidLedger _ hi h, fun hfd => (handleReady_moves c hfd).keeps_all.kidLedger _ hi h⟩

/-- without `ChildInv` the child ledger fails: from a coprocess device that is NOT_CONNECTED with a child 5000 still recorded
    (first conjunct violated) the next `_connect` forks 5001 over it — 5000 is never signalled nor reaped -/
theorem C20_child_ledger_needs_inv_counterexample :
    let d : Dev := { exDev with conn := 0, fd := none, isPipe := true, cpid := some 5000 }
    ¬ ChildInv d ∧
    kidRun (d.cpid.toList, []) (postPoll d exEnv ⟨[]⟩).1.sys ≠ some ((postPoll d exEnv ⟨[]⟩).1.dev.cpid.toList, []) := by
  unfold ChildInv; decide

/-- non-vacuity: hang-up on the connected coprocess device — descriptor 3000 closed, child 5000 signalled and reaped,
    new socketpair 3002/3003, child's end 3003 closed, child 5001 recorded, login done, nothing aborted -/
example : opened (postPoll exPipe exEnv ⟨[]⟩).1.sys = [3002, 3003] ∧ closed (postPoll exPipe exEnv ⟨[]⟩).1.sys = [3000, 3003] ∧
    killed (postPoll exPipe exEnv ⟨[]⟩).1.sys = [5000] ∧ waited (postPoll exPipe exEnv ⟨[]⟩).1.sys = [5000] ∧
    forked (postPoll exPipe exEnv ⟨[]⟩).1.sys = [5001] ∧ (postPoll exPipe exEnv ⟨[]⟩).1.dev.cpid = some 5001 ∧
    (postPoll exPipe exEnv ⟨[]⟩).1.dev.fd = some 3002 ∧ (postPoll exPipe exEnv ⟨[]⟩).1.dev.loggedIn = true ∧
    (postPoll exPipe exEnv ⟨[]⟩).1.aborted = false := by decide

/-! ## shutdown: what `main` does after `_select_loop` returns (`cli_fini`, `dev_fini`)

`Pm.Daemon.teardown w` is the mirror: a list of the strings the harness compares with the traced system calls of the real
daemon.  The strings are the rendering — by `showSys`, the function that prints every pass's calls — of a structured log:
one `close` per client, then `tdDev d` for every device `d` in configuration order, where `tdDev d` is the system-call
log of `_disconnect`'s transport half for a device that is CONNECTED and empty otherwise (`dev_destroy` tests exactly
`connect_state == DEV_CONNECTED`).  `openFds w` = the clients' descriptors followed by the descriptor of every device that
records one; `tdClosed w` = what is closed; `tdLeft w` = the recorded device descriptors that are not.  Helper lemmas:
`Pm/Dev2Timer.lean`. -/
section shutdown
open Pm.Daemon Pm.Dev2.Timer

/-- **The shutdown log.**  `teardown` issues one `close` per client (in list order, each client's own descriptor) and then
    each device's share; and the strings of a CONNECTED device's share are: `kill pid` and `waitpid pid` for exactly the
    recorded child if the device is a coprocess with one, then `close fd` for exactly the recorded descriptor
    (`showSys` prints closes last; `_disconnect` issues the close first — `C20_shutdown_device`). -/
theorem C20_shutdown_log (w : W) :
    teardown w = (w.clients.map fun c => s!"Y close {c.fd}") ++ (w.devs.flatMap fun nd => showSys [] (tdDev nd.2)) ∧
    ∀ d : Dev, d.conn = 2 →
      showSys [] (tdDev d) =
        (match d.isPipe, d.cpid with | true, some pid => [s!"Y kill {pid} 15", s!"Y waitpid {pid}"] | _, _ => []) ++
        (match d.fd with | some fd => [s!"Y close {fd}"] | none => []) :=
  ⟨teardown_eq w, showSys_tdDev⟩

/-- **One device's share of the shutdown**, structured.  (1) It is `close fd` for the recorded descriptor followed by
    `kill pid, waitpid pid` for the recorded child of a coprocess — if the device is CONNECTED — and nothing otherwise.
    (2) Descriptor audit, no hypothesis: replayed from the descriptor the device records, no `close` hits a descriptor
    that is not open, and afterwards nothing is held if the device was CONNECTED, while otherwise the descriptor is STILL
    held.  (3) Child audit under the invariants `ChildInv`, `ConnRange`: `kill` goes to the recorded child only,
    `waitpid` follows it, and afterwards no child is left, none is signalled but unreaped — for every device, because a
    device that records a child is a coprocess, hence (third conjunct of `ChildInv`) never CONNECTING, hence CONNECTED. -/
theorem C20_shutdown_device (d : Dev) :
    tdDev d = (if d.conn == 2 then closeOf d.fd ++ reapOf d.isPipe d.cpid else []) ∧
    fdRun d.fd.toList (tdDev d) = some (if d.conn == 2 then [] else d.fd.toList) ∧
    (ChildInv d → ConnRange d → kidRun (d.cpid.toList, []) (tdDev d) = some ([], [])) :=
  ⟨tdDev_eq d, tdDev_fdRun d, tdDev_kidRun d⟩

/-- **The descriptor ledger of the shutdown.**  For every descriptor number: held = closed + left open.  Under the
    invariants `FdInv`, `ConnRange` of every device, what is left open is exactly the descriptors of the devices that are
    still CONNECTING — `dev_destroy` disconnects CONNECTED devices only (recorded observation: such a descriptor stays
    open until the process exits).  And when the descriptors held are pairwise distinct numbers, every one of them that
    is not left open — every client's in particular — is closed EXACTLY once, and nothing else is closed. -/
theorem C20_shutdown (w : W) :
    (∀ n, (openFds w).count n = (tdClosed w).count n + (tdLeft w).count n) ∧
    ((∀ nd ∈ w.devs, FdInv nd.2 ∧ ConnRange nd.2) →
      tdLeft w = (w.devs.filter fun nd => nd.2.conn == 1).flatMap fun nd => nd.2.fd.toList) ∧
    ((openFds w).Nodup → ∀ n, (tdClosed w).count n = if n ∈ openFds w ∧ n ∉ tdLeft w then 1 else 0) ∧
    (∀ c ∈ w.clients, c.fd ∈ tdClosed w) :=
  ⟨teardown_balance w, tdLeft_connecting w, teardown_once w,
   fun c hc => by unfold tdClosed; exact List.mem_append_left _ (List.mem_map.mpr ⟨c, hc, rfl⟩)⟩

/-- non-vacuity: one client (descriptor 1000), the connected tcp device (2000), the connected coprocess device (3000, child
    5000), a tcp device still CONNECTING (2001), an idle device: the log; what is held, closed, left; the invariants -/
example : teardown tdWorld = ["Y close 1000", "Y close 2000", "Y kill 5000 15", "Y waitpid 5000", "Y close 3000"] := by
  decide +kernel
example : openFds tdWorld = [1000, 2000, 3000, 2001] ∧ tdClosed tdWorld = [1000, 2000, 3000] ∧ tdLeft tdWorld = [2001] ∧
    (openFds tdWorld).Nodup := by decide
example : ∀ nd ∈ tdWorld.devs, FdInv nd.2 ∧ ConnRange nd.2 ∧ ChildInv nd.2 := by
  simp [tdWorld, FdInv, ConnRange, ChildInv, exTcp, exPipe, exDev]

/-- without `ChildInv` a child can be left: the coprocess device (wrongly) CONNECTING with child 5000 recorded is not
    touched by `dev_destroy` -/
theorem C20_shutdown_needs_childInv_counterexample :
    kidRun (exPipeConnecting.cpid.toList, []) (tdDev exPipeConnecting) = some ([5000], []) := by decide

end shutdown


/-! ## the termination signal (`powermand.c`: exit pipe, `_exit_handler`, the `break` in `_select_loop`)

`Pm/Signal.lean`.  The correspondence harness runs the real `main()` and `_select_loop()`: the signal is raised while the daemon
sleeps in `xpoll`, its real handler writes to the real exit pipe, and what follows is compared with `signalPass`. -/
section signal
open Pm Pm.Daemon Pm.Dev2.Timer

/-- **A termination signal ends the daemon in the pass in which it arrives, whatever else is ready.**  `signalPass w p` is what
    the daemon does when `poll` returns with the exit pipe readable: it is the registration of the pass followed by the
    shutdown `teardown w` of the world *as it was when the daemon went to sleep* — for every `p` (connections waiting to be
    accepted, client lines, device bytes, expired timers, hang-ups): none of it is read, no request line is parsed, no action
    is started or completed, nothing is written.  So `C20_shutdown`, `C20_shutdown_log` and `C20_shutdown_device` describe
    exactly which descriptors are closed and which children are reaped, at any pass boundary of any history. -/
theorem C20_signal (w : W) (p q : PassIn) :
    signalPass w p = prePollLines w ++ teardown w ∧ signalPass w p = signalPass w q :=
  ⟨rfl, rfl⟩

/-- the first lines of every ordinary pass are the same registration: `signalPass` and `daemonPass` agree on what `poll` is
    asked, they differ in what happens after it returns -/
theorem C20_signal_same_registration (w : W) (p : PassIn) :
    ∃ rest, (daemonPass w p).2 = prePollLines w ++ rest := by
  unfold daemonPass prePollLines
  dsimp only
  split <;> (simp only [List.append_assoc]; exact ⟨_, rfl⟩)

/-- non-vacuity: the shutdown world of `C20_shutdown` asleep with a client line and a device answer ready -/
example (p : PassIn) : signalPass tdWorld p =
    prePollLines tdWorld ++ ["Y close 1000", "Y close 2000", "Y kill 5000 15", "Y waitpid 5000", "Y close 3000"] := by
  have h : teardown tdWorld = ["Y close 1000", "Y close 2000", "Y kill 5000 15", "Y waitpid 5000", "Y close 3000"] := by
    decide +kernel
  show prePollLines tdWorld ++ teardown tdWorld = _
  rw [h]

end signal

/-! ## the daemon-level descriptor ledger, client part

`daemonPass`'s output lines (`Y accept …`, `Y close …`, `Y socket …`) are strings; the ledger is therefore stated over the
structured client-side log `w.sys : List Pm.Daemon.Sys` that `cli_post_poll` starts empty and that the device phase does
not touch: `accepted log` = the descriptors of its successful `accept`s, `closedC log` = the descriptors of its `close`s.
The devices' descriptors are covered per device by `C20_fd_ledger` (their logs are `Pm.Dev2.Sys` lists, rendered to strings
by `daemonPass`). -/
section cliLedger
open Pm.Daemon Pm.Dev2.Timer

/-- **One client's share of `cli_post_poll`.**  `clientPass w c e` never touches the client list and never accepts; it
    closes the client's own descriptor — once — exactly when it destroys the client (result `none`: POLLERR/POLLNVAL, or
    the client has quit/hung up and has no command in progress), and closes nothing otherwise; a surviving client
    keeps its id and its descriptor. -/
theorem C20_client_pass (w : W) (c : Cli) (e : Option FdEnv) :
    (clientPass w c e).1.clients = w.clients ∧
    ∃ ext, (clientPass w c e).1.sys = w.sys ++ ext ∧ accepted ext = [] ∧
      closedC ext = (match (clientPass w c e).2 with | none => [c.fd] | some _ => []) ∧
      ∀ c', (clientPass w c e).2 = some c' → c'.id = c.id ∧ c'.fd = c.fd :=
  clientPass_ledger w c e

/-- **The clients' descriptor ledger of a pass.**  When the clients' ids are pairwise distinct and below `nextId` (true of
    the empty list; the first is kept by every pass, the second is how ids are handed out), then over `cli_post_poll` —
    and over the whole `daemonPass`, whose device phase changes neither the log nor any client's descriptor — for every
    descriptor number: held by a client before + accepted = closed + held by a client afterwards.  So no client
    descriptor is closed twice or forgotten: a client leaves the list exactly when its descriptor is closed. -/
theorem C20_client_ledger (w : W) (p : PassIn) (hid : (w.clients.map (·.id)).Nodup)
    (hfresh : ∀ c ∈ w.clients, c.id < w.nextId) :
    ((∀ n, (w.clients.map (·.fd)).count n + (accepted (cliPostPoll w p.acc p.envs).sys).count n =
        (closedC (cliPostPoll w p.acc p.envs).sys).count n + ((cliPostPoll w p.acc p.envs).clients.map (·.fd)).count n) ∧
      ((cliPostPoll w p.acc p.envs).clients.map (·.id)).Nodup) ∧
    ((∀ n, (w.clients.map (·.fd)).count n + (accepted (daemonPass w p).1.sys).count n =
        (closedC (daemonPass w p).1.sys).count n + ((daemonPass w p).1.clients.map (·.fd)).count n) ∧
      ((daemonPass w p).1.clients.map (·.id)).Nodup) :=
  ⟨cliPostPoll_ledger w p.acc p.envs hid hfresh, daemonPass_cli_ledger w p hid hfresh⟩

/-- non-vacuity: client 1 on descriptor 1000; in the pass a second client is accepted (1001) and `poll` reports POLLNVAL
    on 1000: 1001 accepted, 1000 closed, afterwards client 2 on 1001 -/
example : (cliWorld.clients.map (·.id)).Nodup ∧ (∀ c ∈ cliWorld.clients, c.id < cliWorld.nextId) ∧
    accepted (cliPostPoll cliWorld 1 cliEnvs).sys = [1001] ∧ closedC (cliPostPoll cliWorld 1 cliEnvs).sys = [1000] ∧
    (cliPostPoll cliWorld 1 cliEnvs).clients.map (·.fd) = [1001] := by decide +kernel

end cliLedger

/-! ## `--stdio` mode: the one client owns two descriptors -/

section Stdio
open Pm.Daemon Pm.Daemon.Stdio

/-- **Termination while the `--stdio` client is served.**  Whatever state the client is in (a command in progress, output
    queued, quit or not), the teardown that follows SIGTERM/SIGINT closes *both* its descriptors; and the devices are torn down
    exactly as without a client (`teardown` of the same world with no clients). -/
theorem C20_stdio_teardown (ofd : Nat) (w : W) (c : Cli) (h : c ∈ w.clients) :
    s!"Y close {c.fd}" ∈ signalPassIO ofd w ∧ s!"Y close {ofd}" ∈ signalPassIO ofd w ∧
    ∃ pre, signalPassIO ofd w = pre ++ teardown { w with clients := [] } := by
  refine ⟨?_, ?_, ?_⟩
  · unfold signalPassIO teardownIO
    refine List.mem_append_right _ (List.mem_append_left _ (List.mem_flatMap.mpr ⟨c, h, ?_⟩))
    exact List.mem_cons_self
  · unfold signalPassIO teardownIO
    refine List.mem_append_right _ (List.mem_append_left _ (List.mem_flatMap.mpr ⟨c, h, ?_⟩))
    exact List.mem_cons_of_mem _ List.mem_cons_self
  · unfold signalPassIO teardownIO
    exact ⟨_, (List.append_assoc _ _ _).symm⟩

/-- **When the client goes, both descriptors go**, on every path of `cli_post_poll` that destroys it (error bits on either
    descriptor, `quit` with nothing in progress): `deadIO` is the only way a client record disappears from a pass. -/
theorem C20_stdio_destroy_closes_both (ofd : Nat) (w : W) (c : Cli) :
    (deadIO ofd w c).1.sys = w.sys ++ [Pm.Daemon.Sys.close c.fd, Pm.Daemon.Sys.close ofd] ∧ (deadIO ofd w c).2 = none := ⟨rfl, rfl⟩

end Stdio

end Pm.Props.C20
