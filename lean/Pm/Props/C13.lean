import Pm.ConfigProof
import Pm.AliasConfig
/-! # C13 — an accepted configuration is an unambiguous node-to-plug map; a configuration that breaks a rule is refused

Theorems over `Pm.ConfigModel.build` (`Pm/ConfigModel.lean`), the executable mirror of `makeDevice` / `makeNode` / `makeAlias`
(`parse_tab.y`), `pluglist_map` (`pluglist.c`), `conf_addnodes` / `conf_add_alias` / `_validate_config` (`parse_util.c`) over
strings, with host ranges expanded by the hostlist mirrors.  The model is compared with the real parser on every run
(`harness/u_confdump.c` against `cfdriver`, `lib/config.py`: accept/refuse, diagnostic class, offending line, full dump).
Helper lemmas: `Pm/ConfigProof.lean` (namespace `Pm.ConfigModel.Proof`; its counting lemmas follow the pilot `Pm/Config.lean`);
hostlist facts used: `find_built` (membership is complete on a list built by pushes), `find_mem`, `expand_pushHost'`.

All theorems hold for ALL specification lists and ALL line lists (no bound on their number, on the names, on the ranges).

Contents: 1. accepted configurations (`C13_functional`, `C13_nodes_distinct`, `C13_injective`, `C13_hardwired`, `C13_ith`,
`C13_ith_hardwired`, `C13_ith_free`, `C13_alias`, `C13_alias_line`, `C13_alias_names_distinct`, `C13_alias_lookup`,
`C13_alias_expansion`, `C13_alias_request_accepted`, `C13_nodes_listing`) ▸ 2. one rejection theorem per rule
(`C13_reject_…`): the earlier lines are fine, line `k` breaks the rule ⇒ `build` refuses with that class at index `k`
▸ 3. behaviour worth knowing (`C13_duplicate_device_accepted`, `C13_empty_node_string_accepted`).

Vocabulary: `steps specs empty 0 pre = .ok c` — the lines `pre` are all accepted and leave the state `c` (`steps` is `run`
without the final `_validate_config`; `build = steps` then `validate`: `build_eq_steps`).  `mapped devs m` — the number of plugs,
over all devices, that carry node `m`.  `plugNames d` / `freeNames d` — the plug names of `d` / of its plugs without node, in
list order.  A `Plug` is a pair (name, optional node), so "no plug carries two nodes" holds by representation. -/
namespace Pm.Props.C13
open Pm Pm.ConfigModel Pm.ConfigModel.Proof

/-! ## sample configurations for the non-vacuity examples -/

def S (s : String) : List Char := s.toList

def sampleSpecs : List Spec := [⟨S "hw", some [S "1", S "2", S "3", S "4"]⟩, ⟨S "fr", none⟩]

/-- two devices (hard-wired / free), ranges against ranges, next-free assignment, zero padding, names that are prefixes of
    one another, an alias of a range -/
def sampleStmts : List Stmt := [
  .device (S "d0") (S "hw"), .device (S "d1") (S "fr"),
  .node (S "t[1-2]") (S "d0") (some (S "[3-4]")),
  .node (S "t10,t1a") (S "d0") none,
  .node (S "n[08-10]") (S "d1") none,
  .node (S "u1") (S "d1") (some (S "p7")),
  .alias (S "all") (S "t[1-2],n[09-10]")]

def accepts (specs : List Spec) (stmts : List Stmt) : Bool := match build specs stmts with | .ok _ => true | .error _ => false

def refusal (specs : List Spec) (stmts : List Stmt) : Option Diag := match build specs stmts with | .ok _ => none | .error e => some e

theorem accepts_iff {specs : List Spec} {stmts : List Stmt} : accepts specs stmts = true ↔ ∃ cfg, build specs stmts = .ok cfg := by
  unfold accepts
  cases build specs stmts with
  | ok c => simp
  | error e => simp

/-- the sample is accepted, and this is its map: d0 `1=t10 2=t1a 3=t1 4=t2`, d1 (plugs prepended) `p7=u1 n10 n09 n08` -/
example : (match build sampleSpecs sampleStmts with
    | .ok c => some (c.devs.map fun d => d.plugs.map fun p => (String.ofList p.name, p.node.map String.ofList), (expand c.nodes).map String.ofList)
    | .error _ => none)
  = some ([[("1", some "t10"), ("2", some "t1a"), ("3", some "t1"), ("4", some "t2")],
           [("p7", some "u1"), ("n10", some "n10"), ("n09", some "n09"), ("n08", some "n08")]],
          ["t1", "t2", "t10", "t1a", "n08", "n09", "n10", "u1"]) := by decide +kernel

/-! ## 1. accepted configurations -/

/-- **Every node name maps to exactly one plug of exactly one device.**  If the configuration is accepted, then for every
    name `m`: the number of plugs, counted over all devices, that carry `m` is 1 if `m` is in the node list and 0 otherwise. -/
theorem C13_functional (specs : List Spec) (stmts : List Stmt) (cfg : Cfg) (h : build specs stmts = .ok cfg) (m : Name) :
    mapped cfg.devs m = if m ∈ expand cfg.nodes then 1 else 0 := (build_Inv h).count m

/-- … and the node list of an accepted configuration holds no name twice -/
theorem C13_nodes_distinct (specs : List Spec) (stmts : List Stmt) (cfg : Cfg) (h : build specs stmts = .ok cfg) :
    (expand cfg.nodes).Nodup := (build_Inv h).nodup

example : accepts sampleSpecs sampleStmts = true := by decide +kernel

/-- **No plug carries two nodes** — immediate from the representation (`Plug.node : Option Name`, as in `pluglist.h`) —
    **and no two plugs of one device share a name**, provided no specification's `plug name` list repeats a name. -/
theorem C13_injective (specs : List Spec) (hspecs : ∀ s ∈ specs, ∀ l, s.plugs = some l → l.Nodup)
    (stmts : List Stmt) (cfg : Cfg) (h : build specs stmts = .ok cfg) : ∀ d ∈ cfg.devs, (plugNames d).Nodup :=
  steps_DistinctPlugs specs hspecs stmts cfg (build_ok h).1

example : ∀ s ∈ sampleSpecs, ∀ l, s.plugs = some l → l.Nodup := by decide +kernel

/-- the hypothesis is needed: the parser accepts `plug name { "1" "1" }`, and the device then has two plugs called `1` -/
theorem C13_injective_needs_distinct_spec :
    (match build [⟨S "hw", some [S "1", S "1"]⟩] [.device (S "d") (S "hw"), .node (S "a,b") (S "d") none] with
     | .ok c => some (c.devs.map fun d => d.plugs.map fun p => (String.ofList p.name, p.node.map String.ofList))
     | .error _ => none) = some [[("1", some "a"), ("1", some "b")]] := by decide +kernel

/-- **Hard-wired plug names are respected.**  Every device of an accepted configuration follows the first specification of
    its name: it is hard-wired exactly if that specification has a `plug name` list, and then its plug names are exactly that
    list, in order — whatever the node lines did. -/
theorem C13_hardwired (specs : List Spec) (stmts : List Stmt) (cfg : Cfg) (h : build specs stmts = .ok cfg) :
    ∀ d ∈ cfg.devs, ∃ s, findSpec specs d.spec = some s ∧ d.hard = s.plugs.isSome ∧ ∀ l, s.plugs = some l → plugNames d = l :=
  steps_FollowsSpec specs stmts cfg (build_ok h).1

/-- **A node range paired with a plug range maps the i-th node to the i-th plug.**  If line `k` of an accepted configuration
    is `node nodestr dev plugstr`, both strings parse, they expand to equally many names, and in the FINAL configuration the
    first device called `dev` holds, for every `i`, the plug named by the i-th plug name carrying the i-th node. -/
theorem C13_ith (specs : List Spec) (pre post : List Stmt) (nodestr plugstr : List Char) (dev : Name) (cfg : Cfg)
    (h : build specs (pre ++ .node nodestr dev (some plugstr) :: post) = .ok cfg) :
    ∃ nhl phl d, create nodestr = .ok nhl ∧ create plugstr = .ok phl ∧ cfg.devs.find? (·.name = dev) = some d ∧
      (expand nhl).length = (expand phl).length ∧
      ∀ (i : Nat) (n p : Name), (expand nhl)[i]? = some n → (expand phl)[i]? = some p → (⟨p, some n⟩ : Plug) ∈ d.plugs :=
  ith_pluglist h

example : accepts sampleSpecs (sampleStmts.take 2 ++ .node (S "t[1-2]") (S "d0") (some (S "[3-4]")) :: sampleStmts.drop 3) = true := by
  decide +kernel

/-- **Without a plug list, on a hard-wired device: the next free plugs in order.**  `d1` is the device as the lines before
    line `k` left it; the i-th node of the line sits, in the final configuration, on the plug named like the i-th plug of `d1`
    that carried no node. -/
theorem C13_ith_hardwired (specs : List Spec) (pre post : List Stmt) (nodestr : List Char) (dev : Name) (cfg : Cfg)
    (h : build specs (pre ++ .node nodestr dev none :: post) = .ok cfg) :
    ∃ nhl c1 d1 d, create nodestr = .ok nhl ∧ steps specs empty 0 pre = .ok c1 ∧ c1.devs.find? (·.name = dev) = some d1 ∧
      cfg.devs.find? (·.name = dev) = some d ∧ d.hard = d1.hard ∧
      (d1.hard = true → ∀ (i : Nat) (n : Name), (expand nhl)[i]? = some n →
          ∃ p, (freeNames d1)[i]? = some p ∧ (⟨p, some n⟩ : Plug) ∈ d.plugs) := by
  obtain ⟨nhl, c1, d1, d, a, b, c, e, f, g, _⟩ := ith_noplugs h
  exact ⟨nhl, c1, d1, d, a, b, c, e, f, g⟩

/-- **Without a plug list, on a device with free plug names: a plug named like the node.** -/
theorem C13_ith_free (specs : List Spec) (pre post : List Stmt) (nodestr : List Char) (dev : Name) (cfg : Cfg)
    (h : build specs (pre ++ .node nodestr dev none :: post) = .ok cfg) :
    ∃ nhl d, create nodestr = .ok nhl ∧ cfg.devs.find? (·.name = dev) = some d ∧
      (d.hard = false → ∀ n ∈ expand nhl, (⟨n, some n⟩ : Plug) ∈ d.plugs) := by
  obtain ⟨nhl, c1, d1, d, a, _, _, e, f, _, g⟩ := ith_noplugs h
  exact ⟨nhl, d, a, e, fun hh => g (f ▸ hh)⟩

example : accepts sampleSpecs (sampleStmts.take 3 ++ .node (S "t10,t1a") (S "d0") none :: sampleStmts.drop 4) = true := by decide +kernel
example : accepts sampleSpecs (sampleStmts.take 4 ++ .node (S "n[08-10]") (S "d1") none :: sampleStmts.drop 5) = true := by decide +kernel

/-- **Every alias expands only to existing nodes, and there is at least one node.**  Every alias of an accepted
    configuration comes from an alias line (its index, name, host string), and each of its members is in the node list. -/
theorem C13_alias (specs : List Spec) (stmts : List Stmt) (cfg : Cfg) (h : build specs stmts = .ok cfg) :
    (∀ a ∈ cfg.aliases, ∀ x ∈ expand a.hl, x ∈ expand cfg.nodes) ∧ expand cfg.nodes ≠ [] ∧
    (∀ a ∈ cfg.aliases, ∃ hosts, stmts[a.stmt]? = some (.alias a.name hosts) ∧ create hosts = .ok a.hl) :=
  ⟨validate_alias (build_ok h).2.1, (build_ok h).2.2,
   by
    have := steps_aliases specs stmts [] empty cfg (by intro a ha; simp [empty] at ha) (build_ok h).1
    simpa [AliasFrom] using this⟩

/-- … conversely every alias line of an accepted configuration is in the alias list, and every name its host string
    expands to is a configured node -/
theorem C13_alias_line (specs : List Spec) (pre post : List Stmt) (name : Name) (hosts : List Char) (cfg : Cfg)
    (h : build specs (pre ++ .alias name hosts :: post) = .ok cfg) :
    ∃ hl, create hosts = .ok hl ∧ (⟨name, hl, pre.length⟩ : Alias) ∈ cfg.aliases ∧ ∀ x ∈ expand hl, x ∈ expand cfg.nodes :=
  alias_line h

example : accepts sampleSpecs (sampleStmts.take 6 ++ .alias (S "all") (S "t[1-2],n[09-10]") :: sampleStmts.drop 7) = true := by
  decide +kernel

/-! ### aliases in requests

`aliasTable cfg` (`Pm/AliasConfig.lean`) is the alias list of the configuration as the request path of the daemon model holds it
(`Pm.Daemon.Cfg.aliases`): for every alias, in list order, its name and its hosts in iteration order.  `expAliases` is the mirror of
`conf_exp_aliases` (`Pm/Daemon.lean`; closed form, membership, no recursion: `Pm/Props/C01.lean`).  `isAlias tbl n`: `n` is the
name of an alias of the table; `standsFor tbl n`: the hosts of the alias `n`, or `[n]` when `n` is not an alias name;
`membersOf tbl n`: the hosts of the alias `n`, `[]` when there is none. -/

open Pm.ConfigModel.AliasCfg
open Pm.Daemon (aliasOf expAliases)
open Pm.Daemon.AliasPf (isAlias membersOf standsFor)

/-- **Alias names are pairwise distinct** (`_alias_create` refuses a second alias of a name), so which alias a name means does
    not depend on the order of the alias list. -/
theorem C13_alias_names_distinct (specs : List Spec) (stmts : List Stmt) (cfg : Cfg) (h : build specs stmts = .ok cfg) :
    (cfg.aliases.map (·.name)).Nodup :=
  alias_names_nodup h

/-- `list_find_first(conf_aliases, _alias_match, n)` answers with the hosts of THE alias called `n`. -/
theorem C13_alias_lookup (specs : List Spec) (stmts : List Stmt) (cfg : Cfg) (h : build specs stmts = .ok cfg)
    (n : Name) (hs : List Name) :
    aliasOf (aliasTable cfg) n = some hs ↔ ∃ a ∈ cfg.aliases, a.name = n ∧ expand a.hl = hs :=
  aliasOf_table_iff h n hs

/-- **Alias expansion on an accepted configuration.**  For every list `names` of typed names:
    1. as a multiset, `conf_exp_aliases` yields the typed names that are not alias names plus, for every typed occurrence of an
       alias name, the hosts of that alias (`Perm`, and the same by counting);
    2. the names `_hostlist_create_validated` reports as unknown (`209 No such nodes`) are the typed names that are neither
       alias names nor nodes, in the order typed — a host of an alias is never reported;
    3. if every typed name is an alias name, every name of the result is a configured node (`conf_node_exists` holds and it is
       in the node list), so the unknown list is empty: a request naming only aliases never yields `209`. -/
theorem C13_alias_expansion (specs : List Spec) (stmts : List Stmt) (cfg : Cfg) (h : build specs stmts = .ok cfg)
    (names : List Name) :
    ((expAliases (aliasTable cfg) names).Perm (names.flatMap (standsFor (aliasTable cfg))) ∧
     ∀ x, (expAliases (aliasTable cfg) names).count x =
        (names.filter (fun n => !isAlias (aliasTable cfg) n)).count x + (names.flatMap (membersOf (aliasTable cfg))).count x) ∧
    (expAliases (aliasTable cfg) names).filter (fun n => (find cfg.nodes n).isNone) =
      (names.filter (fun n => !isAlias (aliasTable cfg) n)).filter (fun n => (find cfg.nodes n).isNone) ∧
    ((∀ n ∈ names, isAlias (aliasTable cfg) n = true) →
      (∀ x ∈ expAliases (aliasTable cfg) names, (find cfg.nodes x).isSome = true ∧ x ∈ expand cfg.nodes) ∧
      (expAliases (aliasTable cfg) names).filter (fun n => (find cfg.nodes n).isNone) = []) := by
  refine ⟨⟨Pm.Daemon.AliasPf.expAliases_perm _ _, Pm.Daemon.AliasPf.count_expAliases _ _⟩,
    bad_names_find h cfg.nodes (fun _ hx => hx) names, fun hal => ⟨only_aliases_all_nodes h names hal, ?_⟩⟩
  apply filter_nil_of_all
  intro x hx
  have := (only_aliases_all_nodes h names hal x hx).1
  cases hf : find cfg.nodes x with
  | none => rw [hf] at this; cases this
  | some i => rfl

/-- The same seen from the daemon model.  `plCmd` is the branch of `parseLine` (`_parse_input`) for a command with an argument
    (`ClientPf.parseLine_eq`).  In a daemon `w` that holds the alias table of the accepted configuration and whose node list knows
    (at least) its nodes: a well-formed target expression that expands to alias names only is not answered `209`; the request is
    handed to `install` with the hosts of the typed aliases, in the order typed, as its target list. -/
theorem C13_alias_request_accepted (specs : List Spec) (stmts : List Stmt) (cfg : Cfg) (h : build specs stmts = .ok cfg)
    (w : Pm.Daemon.W) (c : Pm.Daemon.Cli) (com : Pm.Client.Com) (arg : Pm.Client.Bytes) (hl : Hostlist)
    (hals : w.cfg.aliases = aliasTable cfg)
    (hnodes : ∀ x, (find cfg.nodes x).isSome = true → (find w.cfg.nodes x).isSome = true)
    (hc : Pm.Daemon.createR (Pm.Daemon.toChars arg) = .ok hl) (hal : ∀ n ∈ expand hl, isAlias (aliasTable cfg) n = true) :
    Pm.Daemon.ClientPf.plCmd w c com arg = Pm.Daemon.install w c com (expAliases (aliasTable cfg) (expand hl)) ∧
    expAliases (aliasTable cfg) (expand hl) = (expand hl).flatMap (membersOf (aliasTable cfg)) := by
  refine ⟨plCmd_only_aliases h w c com arg hl hals hnodes hc hal, ?_⟩
  rw [Pm.Daemon.AliasPf.expAliases_spec, filter_nil_of_all (fun x hx => by simp [hal x hx]), List.nil_append]

/-- nodes t0…t7, u0…u3 on a device with free plug names; aliases `rackt = t0,t1,t2,t3`, `mix = t7,u1,u2`, `dupl = t1,t1` -/
def aliasStmts : List Stmt := [
  .device (S "d1") (S "fr"), .node (S "t[0-7]") (S "d1") none, .node (S "u[0-3]") (S "d1") none,
  .alias (S "rackt") (S "t[0-3]"), .alias (S "mix") (S "t7,u[1-2]"), .alias (S "dupl") (S "t1,t1")]

/-- what the accepted configuration makes of a list of typed names: the target list, and the names that would be reported unknown -/
def aliasRun (typed : List String) : Option (List String × List String) :=
  match build sampleSpecs aliasStmts with
  | .ok c => some (((expAliases (aliasTable c) (typed.map S)).map String.ofList),
                   ((expAliases (aliasTable c) (typed.map S)).filter fun n => (find c.nodes n).isNone).map String.ofList)
  | .error _ => none

-- the table is in list order (aliases are prepended), hosts in iteration order, repetitions kept
example : (match build sampleSpecs aliasStmts with
    | .ok c => some ((aliasTable c).map fun p => (String.ofList p.1, p.2.map String.ofList)) | .error _ => none)
  = some [("dupl", ["t1", "t1"]), ("mix", ["t7", "u1", "u2"]), ("rackt", ["t0", "t1", "t2", "t3"])] := by decide +kernel
-- `on rackt,u3`
example : aliasRun ["rackt", "u3"] = some (["u3", "t0", "t1", "t2", "t3"], []) := by decide +kernel
-- `status mix,mix`: only alias names typed, nothing unknown
example : aliasRun ["mix", "mix"] = some (["t7", "u1", "u2", "t7", "u1", "u2"], []) := by decide +kernel
-- `off t2,rackt`: t2 twice
example : aliasRun ["t2", "rackt"] = some (["t2", "t0", "t1", "t2", "t3"], []) := by decide +kernel
-- `on zz9,rackt,dupl,yy`: the unknown names are the typed non-alias names that are not nodes, in the order typed
example : aliasRun ["zz9", "rackt", "dupl", "yy"] = some (["zz9", "yy", "t0", "t1", "t2", "t3", "t1", "t1"], ["zz9", "yy"]) := by
  decide +kernel

/-- **The node listing is exactly the node lines.**  The node list of an accepted configuration (what the `nodes` query
    prints, what the dump compares) is the concatenation, in line order, of the expansions of the node lines. -/
theorem C13_nodes_listing (specs : List Spec) (stmts : List Stmt) (cfg : Cfg) (h : build specs stmts = .ok cfg) :
    expand cfg.nodes = nodesOf stmts := by
  have := steps_nodes specs stmts empty cfg 0 Built.nil (build_ok h).1
  simpa [empty, expand_nil] using this

example : (nodesOf sampleStmts).map String.ofList = ["t1", "t2", "t10", "t1a", "n08", "n09", "n10", "u1"] := by decide +kernel

/-! ## 2. refused configurations: one theorem per rule

Common shape: `hpre : steps specs empty 0 pre = .ok c` (the lines before line `k = pre.length` are accepted and leave state `c`),
a hypothesis saying how line `k` breaks the rule in state `c`, conclusion `build specs (pre ++ line :: post) = .error (class, k)`
whatever follows.  Within one line `pluglist_map` works pair by pair; for its rules the hypothesis
`mapLine d ns1 (some ps1) = .ok d1` says that the pairs before the offending one are fine. -/

/-- unknown specification -/
theorem C13_reject_unknown_spec (specs : List Spec) (pre post : List Stmt) (c : Cfg) (name spec : Name)
    (hpre : steps specs empty 0 pre = .ok c) (h : findSpec specs spec = none) :
    build specs (pre ++ .device name spec :: post) = .error (.specNotFound, pre.length) :=
  build_reject specs pre post _ c _ hpre (step_unknown_spec h)

example : refusal sampleSpecs [.device (S "d0") (S "nospec")] = some (.specNotFound, 0) := by decide +kernel

/-- unknown device -/
theorem C13_reject_unknown_device (specs : List Spec) (pre post : List Stmt) (c : Cfg) (nodestr : List Char) (dev : Name)
    (plugstr : Option (List Char)) (hpre : steps specs empty 0 pre = .ok c) (h : ∀ d ∈ c.devs, d.name ≠ dev) :
    build specs (pre ++ .node nodestr dev plugstr :: post) = .error (.unknownDevice, pre.length) :=
  build_reject specs pre post _ c _ hpre (step_unknown_device h)

example : refusal sampleSpecs [.device (S "d0") (S "hw"), .node (S "t1") (S "d00") none] = some (.unknownDevice, 1) := by decide +kernel

/-- malformed node string (`t[0-3`, `t[3-1]`, …: whatever `hostlist_create` refuses) -/
theorem C13_reject_invalid_node_list (specs : List Spec) (pre post : List Stmt) (c : Cfg) (nodestr : List Char) (dev : Name)
    (plugstr : Option (List Char)) (d : Dev) (e : PErr) (hpre : steps specs empty 0 pre = .ok c)
    (hd : c.devs.find? (·.name = dev) = some d) (h : create nodestr = .error e) :
    build specs (pre ++ .node nodestr dev plugstr :: post) = .error (.invalidNodeList, pre.length) :=
  build_reject specs pre post _ c _ hpre (step_node_error hd (nodeOnDev_invalid_nodes h))

example : refusal sampleSpecs [.device (S "d0") (S "hw"), .node (S "t[0-3") (S "d0") none] = some (.invalidNodeList, 1) := by decide +kernel

/-- malformed plug string -/
theorem C13_reject_invalid_plug_list (specs : List Spec) (pre post : List Stmt) (c : Cfg) (nodestr plugstr : List Char) (dev : Name)
    (d : Dev) (nhl : Hostlist) (e : PErr) (hpre : steps specs empty 0 pre = .ok c)
    (hd : c.devs.find? (·.name = dev) = some d) (hn : create nodestr = .ok nhl) (h : create plugstr = .error e) :
    build specs (pre ++ .node nodestr dev (some plugstr) :: post) = .error (.invalidPlugList, pre.length) :=
  build_reject specs pre post _ c _ hpre (step_node_error hd (nodeOnDev_invalid_plugs hn h))

example : refusal sampleSpecs [.device (S "d0") (S "hw"), .node (S "t1") (S "d0") (some (S "[2-1]"))] = some (.invalidPlugList, 1) := by
  decide +kernel

/-- unknown plug: the plug list of a line for a hard-wired device names something that is not one of its plugs -/
theorem C13_reject_unknown_plug (specs : List Spec) (pre post : List Stmt) (c : Cfg) (nodestr plugstr : List Char) (dev : Name)
    (d d1 : Dev) (nhl phl : Hostlist) (ns1 ns2 ps1 ps2 : List Name) (n p : Name)
    (hpre : steps specs empty 0 pre = .ok c) (hd : c.devs.find? (·.name = dev) = some d) (hh : d.hard = true)
    (hn : create nodestr = .ok nhl) (hp : create plugstr = .ok phl)
    (hns : expand nhl = ns1 ++ n :: ns2) (hps : expand phl = ps1 ++ p :: ps2) (hl : ns1.length = ps1.length)
    (h1 : mapLine d ns1 (some ps1) = .ok d1) (hbad : p ∉ plugNames d) :
    build specs (pre ++ .node nodestr dev (some plugstr) :: post) = .error (.unknownPlug, pre.length) :=
  build_reject specs pre post _ c _ hpre
    (step_node_error hd (by rw [nodeOnDev_some hn hp, hns, hps]; exact mapLine_unknown_plug hh hl h1 hbad))

/-- zero padding is significant in plug names too: `01` is not plug `1` -/
example : refusal sampleSpecs [.device (S "d0") (S "hw"), .node (S "t[1-2]") (S "d0") (some (S "2,01"))] = some (.unknownPlug, 1) := by
  decide +kernel

/-- doubly assigned plug: the plug named by the plug list carries a node already (from an earlier line, or from an earlier
    pair of this line: `d1` is the device after the earlier pairs) -/
theorem C13_reject_plug_assigned (specs : List Spec) (pre post : List Stmt) (c : Cfg) (nodestr plugstr : List Char) (dev : Name)
    (d d1 : Dev) (nhl phl : Hostlist) (ns1 ns2 ps1 ps2 : List Name) (n p : Name) (q : Plug)
    (hpre : steps specs empty 0 pre = .ok c) (hd : c.devs.find? (·.name = dev) = some d)
    (hn : create nodestr = .ok nhl) (hp : create plugstr = .ok phl)
    (hns : expand nhl = ns1 ++ n :: ns2) (hps : expand phl = ps1 ++ p :: ps2) (hl : ns1.length = ps1.length)
    (h1 : mapLine d ns1 (some ps1) = .ok d1) (hq : d1.plugs.find? (·.name = p) = some q) (hbusy : q.node.isSome = true) :
    build specs (pre ++ .node nodestr dev (some plugstr) :: post) = .error (.plugAssigned, pre.length) :=
  build_reject specs pre post _ c _ hpre
    (step_node_error hd (by rw [nodeOnDev_some hn hp, hns, hps]; exact mapLine_plug_assigned hl h1 hq hbusy))

example : refusal sampleSpecs [.device (S "d0") (S "hw"), .node (S "t1") (S "d0") (some (S "2")), .node (S "t2") (S "d0") (some (S "2"))]
    = some (.plugAssigned, 2) := by decide +kernel

/-- … the same without a plug list on a device with free plug names: a plug named like the node exists already
    (it carries a node: on such a device every plug does) -/
theorem C13_reject_plug_assigned_free (specs : List Spec) (pre post : List Stmt) (c : Cfg) (nodestr : List Char) (dev : Name)
    (d d1 : Dev) (nhl : Hostlist) (ns1 ns2 : List Name) (n : Name) (q : Plug)
    (hpre : steps specs empty 0 pre = .ok c) (hd : c.devs.find? (·.name = dev) = some d) (hh : d.hard = false)
    (hn : create nodestr = .ok nhl) (hns : expand nhl = ns1 ++ n :: ns2)
    (h1 : mapLine d ns1 none = .ok d1) (hq : d1.plugs.find? (·.name = n) = some q) (hbusy : q.node.isSome = true) :
    build specs (pre ++ .node nodestr dev none :: post) = .error (.plugAssigned, pre.length) :=
  build_reject specs pre post _ c _ hpre
    (step_node_error hd (by rw [nodeOnDev_none hn, hns]; exact mapLine_named_assigned hh h1 hq hbusy))

/-- a node named like a plug that an earlier line created by a plug list -/
example : refusal sampleSpecs [.device (S "d1") (S "fr"), .node (S "a") (S "d1") (some (S "b")), .node (S "b") (S "d1") none]
    = some (.plugAssigned, 2) := by decide +kernel

/-- more nodes than plugs (plug list given): the pairs up to the end of the plug list are fine, a node is left over -/
theorem C13_reject_more_nodes (specs : List Spec) (pre post : List Stmt) (c : Cfg) (nodestr plugstr : List Char) (dev : Name)
    (d d1 : Dev) (nhl phl : Hostlist) (ns1 ns2 : List Name) (n : Name)
    (hpre : steps specs empty 0 pre = .ok c) (hd : c.devs.find? (·.name = dev) = some d)
    (hn : create nodestr = .ok nhl) (hp : create plugstr = .ok phl)
    (hns : expand nhl = ns1 ++ n :: ns2) (hl : ns1.length = (expand phl).length)
    (h1 : mapLine d ns1 (some (expand phl)) = .ok d1) :
    build specs (pre ++ .node nodestr dev (some plugstr) :: post) = .error (.moreNodes, pre.length) :=
  build_reject specs pre post _ c _ hpre
    (step_node_error hd (by rw [nodeOnDev_some hn hp, hns]; exact mapLine_more_nodes hl h1))

example : refusal sampleSpecs [.device (S "d0") (S "hw"), .node (S "t[1-3]") (S "d0") (some (S "[1-2]"))] = some (.moreNodes, 1) := by
  decide +kernel

/-- more nodes than free plugs (no plug list, hard-wired device) -/
theorem C13_reject_more_nodes_hardwired (specs : List Spec) (pre post : List Stmt) (c : Cfg) (nodestr : List Char) (dev : Name)
    (d : Dev) (nhl : Hostlist) (hpre : steps specs empty 0 pre = .ok c) (hd : c.devs.find? (·.name = dev) = some d)
    (hh : d.hard = true) (hn : create nodestr = .ok nhl) (hmore : (freeNames d).length < (expand nhl).length) :
    build specs (pre ++ .node nodestr dev none :: post) = .error (.moreNodes, pre.length) :=
  build_reject specs pre post _ c _ hpre
    (step_node_error hd (by rw [nodeOnDev_none hn]; exact mapLine_hard_error _ d hh hmore))

example : refusal sampleSpecs [.device (S "d0") (S "hw"), .node (S "t[1-3]") (S "d0") none, .node (S "u[1-2]") (S "d0") none]
    = some (.moreNodes, 2) := by decide +kernel

/-- more plugs than nodes: all nodes are placed, a plug name is left over -/
theorem C13_reject_more_plugs (specs : List Spec) (pre post : List Stmt) (c : Cfg) (nodestr plugstr : List Char) (dev : Name)
    (d d1 : Dev) (nhl phl : Hostlist) (ps1 ps2 : List Name) (p : Name)
    (hpre : steps specs empty 0 pre = .ok c) (hd : c.devs.find? (·.name = dev) = some d)
    (hn : create nodestr = .ok nhl) (hp : create plugstr = .ok phl)
    (hps : expand phl = ps1 ++ p :: ps2) (hl : (expand nhl).length = ps1.length)
    (h1 : mapLine d (expand nhl) (some ps1) = .ok d1) :
    build specs (pre ++ .node nodestr dev (some plugstr) :: post) = .error (.morePlugs, pre.length) :=
  build_reject specs pre post _ c _ hpre
    (step_node_error hd (by rw [nodeOnDev_some hn hp, hps]; exact mapLine_more_plugs hl h1))

example : refusal sampleSpecs [.device (S "d0") (S "hw"), .node (S "t[1-2]") (S "d0") (some (S "[1-3]"))] = some (.morePlugs, 1) := by
  decide +kernel

/-- duplicate node: a line that names a node configured already (on any device), or names a node twice, is refused at
    that line — whatever the plug stage says about it (it may complain first, with its own class) -/
theorem C13_reject_duplicate_node (specs : List Spec) (pre post : List Stmt) (c : Cfg) (nodestr : List Char) (dev : Name)
    (plugstr : Option (List Char)) (nhl : Hostlist) (hpre : steps specs empty 0 pre = .ok c) (hn : create nodestr = .ok nhl)
    (hdup : (∃ n ∈ expand nhl, n ∈ expand c.nodes) ∨ ¬ (expand nhl).Nodup) :
    ∃ cls, build specs (pre ++ .node nodestr dev plugstr :: post) = .error (cls, pre.length) := by
  obtain ⟨e, he⟩ := step_duplicate_node_any (specs := specs) (i := pre.length) (dev := dev) (plugstr := plugstr)
    (steps_Inv pre empty c 0 Inv_empty hpre).built hn hdup
  exact ⟨e, build_reject specs pre post _ c e hpre he⟩

/-- … with the class `duplicate node name` when the plug stage (`nodeOnDev` = the two `hostlist_create` checks and
    `pluglist_map`) has nothing to say -/
theorem C13_reject_duplicate_node_class (specs : List Spec) (pre post : List Stmt) (c : Cfg) (nodestr : List Char) (dev : Name)
    (plugstr : Option (List Char)) (d d' : Dev) (nhl : Hostlist) (hpre : steps specs empty 0 pre = .ok c)
    (hd : c.devs.find? (·.name = dev) = some d) (hf : nodeOnDev nodestr plugstr d = .ok d') (hn : create nodestr = .ok nhl)
    (hdup : (∃ n ∈ expand nhl, n ∈ expand c.nodes) ∨ ¬ (expand nhl).Nodup) :
    build specs (pre ++ .node nodestr dev plugstr :: post) = .error (.dupNodeName, pre.length) :=
  build_reject specs pre post _ c _ hpre (step_duplicate_node (steps_Inv pre empty c 0 Inv_empty hpre).built hd hf hn hdup)

/-- overlapping ranges across two devices; zero padding is significant (`t01` is not `t1`) -/
example : refusal sampleSpecs [.device (S "d0") (S "hw"), .device (S "d1") (S "fr"), .node (S "t[1-3]") (S "d0") none,
    .node (S "t[3-4]") (S "d1") none] = some (.dupNodeName, 3) := by decide +kernel
example : accepts sampleSpecs [.device (S "d0") (S "hw"), .device (S "d1") (S "fr"), .node (S "t[1-3]") (S "d0") none,
    .node (S "t[01-03]") (S "d1") none] = true := by decide +kernel
/-- on one device with free plug names the plug stage complains first -/
example : refusal sampleSpecs [.device (S "d1") (S "fr"), .node (S "t[1-3]") (S "d1") none, .node (S "t[3-4]") (S "d1") none]
    = some (.plugAssigned, 2) := by decide +kernel

/-- duplicate alias name -/
theorem C13_reject_duplicate_alias (specs : List Spec) (pre post : List Stmt) (c : Cfg) (name : Name) (hosts : List Char) (a : Alias)
    (hpre : steps specs empty 0 pre = .ok c) (ha : a ∈ c.aliases) (hn : a.name = name) :
    build specs (pre ++ .alias name hosts :: post) = .error (.badAlias, pre.length) :=
  build_reject specs pre post _ c _ hpre (step_alias_dup ha hn)

/-- malformed alias host string -/
theorem C13_reject_invalid_alias (specs : List Spec) (pre post : List Stmt) (c : Cfg) (name : Name) (hosts : List Char) (e : PErr)
    (hpre : steps specs empty 0 pre = .ok c) (h : create hosts = .error e) :
    build specs (pre ++ .alias name hosts :: post) = .error (.badAlias, pre.length) :=
  build_reject specs pre post _ c _ hpre (step_alias_invalid h)

example : refusal sampleSpecs [.alias (S "a") (S "t1"), .alias (S "a") (S "t2")] = some (.badAlias, 1) := by decide +kernel
example : refusal sampleSpecs [.alias (S "a") (S "t[1-")] = some (.badAlias, 0) := by decide +kernel

/-- alias to a missing node: all lines are accepted one by one (state `c`), but some alias has a member that is not a
    configured node.  Then the configuration is refused, and the diagnostic names (the line of) an alias `b` that has
    such a member — the first one in the order of the alias list, i.e. the one declared last. -/
theorem C13_reject_alias_missing (specs : List Spec) (stmts : List Stmt) (c : Cfg) (hs : steps specs empty 0 stmts = .ok c)
    (a : Alias) (ha : a ∈ c.aliases) (x : Name) (hx : x ∈ expand a.hl) (hnot : x ∉ expand c.nodes) :
    ∃ b ∈ c.aliases, (∃ y ∈ expand b.hl, y ∉ expand c.nodes) ∧ build specs stmts = .error (.aliasMissing, b.stmt) :=
  build_alias_missing hs a ha x hx hnot

example : refusal sampleSpecs [.device (S "d1") (S "fr"), .alias (S "a") (S "t[1-3]"), .node (S "t[1-2]") (S "d1") none]
    = some (.aliasMissing, 1) := by decide +kernel

/-- no nodes at all: all lines are accepted one by one but the node lines configure nothing.  The configuration is refused:
    `no nodes are defined` (index = number of lines), unless an alias with a member comes first in `_validate_config`. -/
theorem C13_reject_no_nodes (specs : List Spec) (stmts : List Stmt) (c : Cfg) (hs : steps specs empty 0 stmts = .ok c)
    (hno : nodesOf stmts = []) :
    build specs stmts = .error (.noNodes, stmts.length) ∨ ∃ b ∈ c.aliases, build specs stmts = .error (.aliasMissing, b.stmt) :=
  build_no_nodes hs hno

example : refusal sampleSpecs [.device (S "d0") (S "hw"), .device (S "d1") (S "fr")] = some (.noNodes, 2) := by decide +kernel
example : refusal sampleSpecs [] = some (.noNodes, 0) := by decide +kernel

/-! ### the hypotheses of the rejection theorems are satisfiable: each theorem applied to concrete lines

`stateAfter`, `devOf`, `hlOf`, `lineOf` compute the state / device / host list / device-after-pairs the hypotheses speak of;
every hypothesis is then checked by evaluation. -/

def stateAfter (pre : List Stmt) : Cfg := match steps sampleSpecs empty 0 pre with | .ok c => c | .error _ => empty
def devOf (c : Cfg) (dev : String) : Dev := (c.devs.find? (·.name = S dev)).getD ⟨[], [], false, []⟩
def hlOf (s : String) : Hostlist := match create (S s) with | .ok h => h | .error _ => []
def lineOf (d : Dev) (ns : List String) (ps : Option (List String)) : Dev :=
  match mapLine d (ns.map S) (ps.map (·.map S)) with | .ok d' => d' | .error _ => d

def pre1 : List Stmt := [.device (S "d0") (S "hw"), .device (S "d1") (S "fr"), .node (S "t9") (S "d0") (some (S "3"))]

example : build sampleSpecs (pre1 ++ .node (S "t[1-2]") (S "d0") (some (S "2,01")) :: [.alias (S "a") (S "t1")])
    = .error (.unknownPlug, 3) :=
  C13_reject_unknown_plug sampleSpecs pre1 _ (stateAfter pre1) (S "t[1-2]") (S "2,01") (S "d0") (devOf (stateAfter pre1) "d0")
    (lineOf (devOf (stateAfter pre1) "d0") ["t1"] (some ["2"])) (hlOf "t[1-2]") (hlOf "2,01") [S "t1"] [] [S "2"] [] (S "t2") (S "01")
    (by decide +kernel) (by decide +kernel) (by decide +kernel) (by decide +kernel) (by decide +kernel) (by decide +kernel)
    (by decide +kernel) (by decide +kernel) (by decide +kernel) (by decide +kernel)

/-- the second pair of the line names plug 3, which the earlier line `t9` took -/
example : build sampleSpecs (pre1 ++ .node (S "t[1-2]") (S "d0") (some (S "[2-3]")) :: []) = .error (.plugAssigned, 3) :=
  C13_reject_plug_assigned sampleSpecs pre1 _ (stateAfter pre1) (S "t[1-2]") (S "[2-3]") (S "d0") (devOf (stateAfter pre1) "d0")
    (lineOf (devOf (stateAfter pre1) "d0") ["t1"] (some ["2"])) (hlOf "t[1-2]") (hlOf "[2-3]") [S "t1"] [] [S "2"] [] (S "t2") (S "3")
    ⟨S "3", some (S "t9")⟩
    (by decide +kernel) (by decide +kernel) (by decide +kernel) (by decide +kernel) (by decide +kernel) (by decide +kernel)
    (by decide +kernel) (by decide +kernel) (by decide +kernel) (by decide +kernel)

/-- the same plug twice within one line -/
example : build sampleSpecs (pre1 ++ .node (S "t[1-2]") (S "d1") (some (S "o1,o1")) :: []) = .error (.plugAssigned, 3) :=
  C13_reject_plug_assigned sampleSpecs pre1 _ (stateAfter pre1) (S "t[1-2]") (S "o1,o1") (S "d1") (devOf (stateAfter pre1) "d1")
    (lineOf (devOf (stateAfter pre1) "d1") ["t1"] (some ["o1"])) (hlOf "t[1-2]") (hlOf "o1,o1") [S "t1"] [] [S "o1"] [] (S "t2") (S "o1")
    ⟨S "o1", some (S "t1")⟩
    (by decide +kernel) (by decide +kernel) (by decide +kernel) (by decide +kernel) (by decide +kernel) (by decide +kernel)
    (by decide +kernel) (by decide +kernel) (by decide +kernel) (by decide +kernel)

example : build sampleSpecs (pre1 ++ .node (S "t[1-3]") (S "d0") (some (S "[1-2]")) :: []) = .error (.moreNodes, 3) :=
  C13_reject_more_nodes sampleSpecs pre1 _ (stateAfter pre1) (S "t[1-3]") (S "[1-2]") (S "d0") (devOf (stateAfter pre1) "d0")
    (lineOf (devOf (stateAfter pre1) "d0") ["t1", "t2"] (some ["1", "2"])) (hlOf "t[1-3]") (hlOf "[1-2]") [S "t1", S "t2"] [] (S "t3")
    (by decide +kernel) (by decide +kernel) (by decide +kernel) (by decide +kernel) (by decide +kernel) (by decide +kernel)
    (by decide +kernel)

example : build sampleSpecs (pre1 ++ .node (S "t1") (S "d0") (some (S "[1-2]")) :: []) = .error (.morePlugs, 3) :=
  C13_reject_more_plugs sampleSpecs pre1 _ (stateAfter pre1) (S "t1") (S "[1-2]") (S "d0") (devOf (stateAfter pre1) "d0")
    (lineOf (devOf (stateAfter pre1) "d0") ["t1"] (some ["1"])) (hlOf "t1") (hlOf "[1-2]") [S "1"] [] (S "2")
    (by decide +kernel) (by decide +kernel) (by decide +kernel) (by decide +kernel) (by decide +kernel) (by decide +kernel)
    (by decide +kernel)

/-- three plugs are free on `d0` (plug 3 is taken), four nodes come -/
example : build sampleSpecs (pre1 ++ .node (S "t[1-4]") (S "d0") none :: []) = .error (.moreNodes, 3) :=
  C13_reject_more_nodes_hardwired sampleSpecs pre1 _ (stateAfter pre1) (S "t[1-4]") (S "d0") (devOf (stateAfter pre1) "d0") (hlOf "t[1-4]")
    (by decide +kernel) (by decide +kernel) (by decide +kernel) (by decide +kernel) (by decide +kernel)

/-- `t9` sits on `d0`; configuring it again on the other device passes the plug stage and is a duplicate node name -/
example : build sampleSpecs (pre1 ++ .node (S "t[8-9]") (S "d1") none :: []) = .error (.dupNodeName, 3) :=
  C13_reject_duplicate_node_class sampleSpecs pre1 _ (stateAfter pre1) (S "t[8-9]") (S "d1") none (devOf (stateAfter pre1) "d1")
    (lineOf (devOf (stateAfter pre1) "d1") ["t8", "t9"] none) (hlOf "t[8-9]")
    (by decide +kernel) (by decide +kernel) (by decide +kernel) (by decide +kernel)
    (Or.inl ⟨S "t9", by decide +kernel, by decide +kernel⟩)

example : ∃ b ∈ (stateAfter (pre1 ++ [.alias (S "a") (S "t[8-9]")])).aliases,
    (∃ y ∈ expand b.hl, y ∉ expand (stateAfter (pre1 ++ [.alias (S "a") (S "t[8-9]")])).nodes) ∧
    build sampleSpecs (pre1 ++ [.alias (S "a") (S "t[8-9]")]) = .error (.aliasMissing, b.stmt) :=
  C13_reject_alias_missing sampleSpecs _ (stateAfter (pre1 ++ [.alias (S "a") (S "t[8-9]")])) (by decide +kernel)
    ⟨S "a", hlOf "t[8-9]", 3⟩ (by decide +kernel) (S "t8") (by decide +kernel) (by decide +kernel)

/-! ## 3. behaviour worth knowing (as the real parser, see the correspondence runs) -/

/-- `makeDevice` does not check for a duplicate device name: two devices called `d` are accepted; node lines reach the
    first one only (`dev_findbyname`), the second keeps all its plugs empty.  C13 is not contradicted (every node is still on
    exactly one plug of one device), but the `device` listing shows two devices of one name. -/
theorem C13_duplicate_device_accepted :
    (match build sampleSpecs [.device (S "d") (S "hw"), .device (S "d") (S "hw"), .node (S "t[1-5]") (S "d") none] with
     | .ok c => some (c.devs.map fun d => (String.ofList d.name, d.plugs.map fun p => p.node.map String.ofList))
     | .error _ => none) = none ∧
    (match build sampleSpecs [.device (S "d") (S "hw"), .device (S "d") (S "hw"), .node (S "t[1-2]") (S "d") none] with
     | .ok c => some (c.devs.map fun d => (String.ofList d.name, d.plugs.map fun p => p.node.map String.ofList))
     | .error _ => none) = some [("d", [some "t1", some "t2", none, none]), ("d", [none, none, none, none])] := by
  decide +kernel

/-- `node "" "d"` is accepted and configures nothing (`hostlist_create("")` is the empty list) -/
theorem C13_empty_node_string_accepted :
    accepts sampleSpecs [.device (S "d0") (S "hw"), .node (S "") (S "d0") none, .node (S "t1") (S "d0") none] = true := by
  decide +kernel

end Pm.Props.C13
