import Pm.ClientStream
import Pm.RunXCli
/-! # C06 — no bytes from any client take the daemon down; every complete line is answered exactly once

Property theorems only; the helper lemmas live in `Pm/ClientProof.lean` and `Pm/ClientStream.lean`.  The model they
speak about (`Pm.Daemon`) is the mirror of `client.c` + the body of `powermand.c:_select_loop`, compared with the real
functions on every run of the check.  In the model "the process is gone" (an `exit` or a failed `assert` reached from
client input) is the flag `W.exited`.

Ranking: no fatal outcome of `hostlist_create` (F1 repaired: done) ▸ the only exit reachable from a request line is the
`hostlist_sort` assertion (done; known finding F19 — the hypothesis `NoSortAbort` below) ▸ `_handle_input` handles exactly
the complete lines, in order, independent of packetisation (done) ▸ one answer per line (done, see also `Props/C04.lean`)
▸ a line of `CP_LINEMAX` bytes or more is refused with 203, whatever it says (done: `C06_too_long`) ▸ whole passes, any
number of clients (done under `NoSortAbort`; `C06_run_survives_runX_partial`: also with arbitrary answers of the regex engine in
every pass).

What reaches `_handle_input` is what `_handle_read` put into the client's input buffer: at most `size - used` bytes per
pass (a chunk of 1000 when the buffer is full; it grows up to `MAX_CLIENT_BUF` = 1 MiB), see `Props/C09.lean`,
`C09_read_is_prefix` and `C09_capacity`. -/
namespace Pm.Props.C06
open Pm Pm.Daemon Pm.Client Pm.Daemon.ClientPf

/-- `hostlist_create` as called from `_parse_input` (after the repair of F1) has no fatal outcome: for every argument
    string it returns a host list or reports an error — never `lsd_fatal_error` -/
theorem C06_create_never_fatal (s : List Char) : createR s ≠ .fatal :=
  createR_ne_fatal s

example : (match createR "t[5-1]".toList with | .err => true | _ => false) = true := by decide +kernel

/-- A request line — any bytes, any client state, any world — ends the process only through the `hostlist_sort`
    assertion: on the configured node list (request `nodes`) or on the plug list of some device (request `device`).
    (`SortRes.Died r` is `r = .abort ∨ r = .fuel`; `.fuel`, the iteration bound of the sort mirror running out, is a
    modelling artefact that no run has shown and that the model treats like the assert.) -/
theorem C06_exit_only_by_sort_assert (w : W) (c : Cli) (line : Bytes) (h : (parseLine w c line).1.exited = true) :
    w.exited = true ∨ (sortHL w.cfg.nodes).Died ∨ ∃ nd ∈ w.devs, (sortHL (devHosts nd.2)).Died :=
  parseLine_exit_cause w c line h

/-- That exit is live (known finding F19): if sorting the configured node list trips the assertion, the five bytes
    `nodes` from any idle client end the process.  (The hypothesis holds of the concrete list `f[97-100,066,97-103]`:
    `Props/C14.lean`, `C14_sort_abort_counterexample`; it is also replayed by the differential harness.) -/
theorem C06_nodes_sort_exit (w : W) (c : Cli) (hidle : c.cmd = none) (h : sortHL w.cfg.nodes = .abort) :
    (parseLine w c (bstr "nodes\n")).1.exited = true :=
  nodes_exit w c hidle h

/-- `C06_nodes_sort_exit` is the negation of the full statement "for any bytes … powermand keeps running" on every
    world whose configured node list makes `hostlist_sort` assert.  Full statement (false as the code stands, F19):
    `∀ w c line, w.exited = false → (parseLine w c line).1.exited = false`. -/
theorem C06_keeps_running_counterexample (w : W) (c : Cli) (hidle : c.cmd = none) (h0 : w.exited = false)
    (h : sortHL w.cfg.nodes = .abort) :
    ¬ (∀ line, (parseLine w c line).1.exited = w.exited) := by
  intro hall
  have := nodes_exit w c hidle h
  rw [hall, h0] at this; cases this

/-! ## lines that are too long -/

/-- **`203 Command too long`.**  `_parse_input` first cuts the line at its first NUL and strips white space at both ends; if
    what is left has `CP_LINEMAX` = 131072 bytes or more (`TooLong line`), the answer is the line `203 Command too long`
    followed by the prompt (unless the client has quit) — the branch falls through to the end of the function, unlike the
    `208` branch — and nothing else happens, whatever the line says and whatever the client's state, even with a command
    in progress (the length is tested before `c->cmd`): the world — devices, argument lists, counters, the other
    clients, the exit flag — is unchanged; of the client only the output buffer changes; no command is created. -/
theorem C06_too_long (w : W) (c : Cli) (line : Bytes) (h : TooLong line) :
    parseLine w c line =
      (w, { c with toBuf := c.toBuf ++ bstr "203 Command too long\r\n" ++ (if c.quit then [] else prompt) }) := by
  rw [parseLine_tooLong w c line h]
  have : render [item203] = bstr "203 Command too long\r\n" := by decide +kernel
  rw [this]; simp [put, List.append_assoc]

/-- `TooLong`, spelled out -/
theorem C06_too_long_def (line : Bytes) :
    TooLong line ↔ (stripWs (line.takeWhile (· != 0))).length ≥ 131072 := Iff.rfl

/-- … and every shorter line is handled as before the length test: `208` while a command is in progress
    (`C04_busy_is_208`), the keyword cascade otherwise -/
theorem C06_not_too_long (w : W) (c : Cli) (line : Bytes) (h : ¬ TooLong line) :
    parseLine w c line =
      if c.cmd.isSome then (w, put c (bstr "208 Command in progress\r\n")) else plIdle w c (reqStr line) := by
  rw [parseLine_eq]; unfold parseLine'; rw [if_neg h]
  have : codeLine 208 ++ crlf = bstr "208 Command in progress\r\n" := by decide +kernel
  rw [this]

/-- The line is one reply-with-prompt line like `201`: in the terms of `C04_one_reply_per_line`, outcome (b) with no
    informational lines and the terminal code 203. -/
theorem C06_too_long_is_one_reply (w : W) (c : Cli) (line : Bytes) (h : TooLong line) :
    outOf (parseLine w c line).1 (parseLine w c line).2 =
      outOf w c ++ render ([Item.line 203 (bstr "Command too long")] ++ (if promptAfter c.quit 203 then [Item.prompt] else [])) ∧
    (parseLine w c line).2.cmd = c.cmd ∧ (parseLine w c line).1 = w := by
  rw [parseLine_tooLong w c line h]
  refine ⟨?_, rfl, rfl⟩
  cases hq : c.quit <;> simp [outOf, put, promptAfter, render, Item.render, List.append_assoc]

/-- non-vacuity: 131072 times `x` and a line feed is too long; one `x` fewer is not (and is answered `201`) -/
example : TooLong (List.replicate 131072 120 ++ [10]) := (tooLong_xs _).mpr (by decide)
example : ¬ TooLong (List.replicate 131071 120 ++ [10]) := fun h => absurd ((tooLong_xs _).mp h) (by decide)
/-- the client of the example world with `on t1` in progress: the long line is answered 203 *and* the prompt, the command
    stays in progress -/
example : (parseLine Ex.busyWorld Ex.busy (List.replicate 131072 120 ++ [10])).2.toBuf =
      bstr "203 Command too long\r\npowerman> " ∧
    (parseLine Ex.busyWorld Ex.busy (List.replicate 131072 120 ++ [10])).2.cmd = Ex.busy.cmd ∧
    (parseLine Ex.busyWorld Ex.busy (List.replicate 131072 120 ++ [10])).1 = Ex.busyWorld := by
  rw [C06_too_long _ _ _ ((tooLong_xs _).mpr (by decide))]
  exact ⟨by decide +kernel, rfl, rfl⟩

/-! ## `_handle_input` -/

/-- `linesOf` splits a buffer into its complete lines and the unterminated rest: nothing is lost or reordered, every
    line ends with its one and only LF, the rest contains none.  (These three facts determine `linesOf`.) -/
theorem C06_lines_spec (b : Bytes) :
    (linesOf b).1.flatten ++ (linesOf b).2 = b ∧
    (∀ l ∈ (linesOf b).1, ∃ body, l = body ++ [10] ∧ 10 ∉ body) ∧
    10 ∉ (linesOf b).2 :=
  ⟨linesOf_flatten b, linesOf_line b, linesOf_tail b⟩

example : linesOf (bstr "on t1\r\n\nqui") = ([bstr "on t1\r\n", bstr "\n"], bstr "qui") := by decide +kernel

/-- `_handle_input` calls `_parse_input` on exactly the complete lines of the input buffer, in order, each taken out of
    the buffer before it is parsed, stopping only if the process is gone (`runLines`); the loop bound of the model
    (`fromBuf.length + 1` iterations, and any larger one) always suffices. -/
theorem C06_handles_exactly_the_lines (w : W) (c : Cli) :
    handleInput w c = runLines w c (linesOf c.fromBuf).1 ∧
    ∀ fuel, c.fromBuf.length < fuel → handleInputF fuel w c = handleInput w c :=
  ⟨handleInput_lines w c, fun fuel h => handleInputF_fuel fuel w c h⟩

/-- … and when the process survives, what is left in the buffer is exactly the unterminated rest -/
theorem C06_leaves_the_rest (w : W) (c : Cli) (h : (handleInput w c).1.exited = false) :
    (handleInput w c).2.fromBuf = (linesOf c.fromBuf).2 :=
  handleInput_tail w c h

/-- The result does not depend on how the bytes arrived: handling `a ++ b` at once is the same as handling `a`, then
    appending `b` to what was left and handling again — for every split point, including inside a line, inside a CRLF
    pair, or with the process dying in between (`setFrom c x` is `c` with input buffer `x`). -/
theorem C06_arrival_independent (w : W) (c : Cli) (a b : Bytes) :
    handleInput w (setFrom c (a ++ b)) =
      handleInput (handleInput w (setFrom c a)).1
        (setFrom (handleInput w (setFrom c a)).2 ((handleInput w (setFrom c a)).2.fromBuf ++ b)) :=
  handleInput_split w c a b

example : (handleInput Ex.world (setFrom Ex.idle (bstr "telem" ++ bstr "etry\r\nno"))).2.toBuf =
    render [.line 104 (bstr "Telemetry ON"), .prompt] := by decide +kernel

/-- Every complete line is answered exactly once: unless the process is gone, the client's output grew by one chunk per
    line, in order; a chunk is `3xx* terminal [prompt]` with exactly one terminal line, or empty when the line installed a
    command (whose one terminal line `_act_finish` writes later — `Props/C04.lean`). -/
theorem C06_every_line_answered_once (w : W) (c : Cli) :
    (handleInput w c).1.exited = true ∨
    ∃ chunks : List (List Item), chunks.length = (linesOf c.fromBuf).1.length ∧
      outOf (handleInput w c).1 (handleInput w c).2 = outOf w c ++ render chunks.flatten ∧
      (∀ ch ∈ chunks, AnswerChunk ch) :=
  match handleInput_answers w c with
  | .inl h => .inl h
  | .inr ⟨chunks, h1, h2, h3, _⟩ => .inr ⟨chunks, h1, h2, h3⟩

example : (handleInput Ex.world (setFrom Ex.idle (bstr "\x00\xff\n\nexprange\nquux\n"))).2.toBuf =
    render [.line 201 (bstr "Unknown command"), .prompt, .line 201 (bstr "Unknown command"), .prompt,
            .line 105 (bstr "Hostrange expansion ON"), .prompt, .line 201 (bstr "Unknown command"), .prompt] := by
  decide +kernel

/-! ## whole passes

Full statement: `∀ w acc envs, (cliPostPoll w acc envs).exited = w.exited` (for any bytes on any number of connections
the client side of a pass never leaves the process).  It is false as the code stands (`C06_nodes_sort_exit`, F19); the
extra hypothesis `NoSortAbort` — `hostlist_sort` never trips `assert(hostrange_cmp(h1, h2) <= 0)` (nor, in the logic,
runs out of the iteration bound of its mirror) — excludes exactly the configurations and plug lists of F19. -/

/-- `cli_post_poll`: whatever the kernel reports for however many clients — accepts, reads of any bytes, EOF, errors,
    short writes — the client side of the pass does not leave the process -/
theorem C06_client_side_survives_partial (hs : NoSortAbort) (w : W) (acc : Nat) (envs : List FdEnv) :
    (cliPostPoll w acc envs).exited = w.exited :=
  cliPostPoll_exited hs w acc envs

/-- the device half of a pass (`dev_post_poll` with the `_act_finish`/telemetry/diagnostic callbacks) never sets the flag:
    a whole pass of `_select_loop` leaves the process exactly where `cli_post_poll` does — no extra hypothesis -/
theorem C06_pass_exit_is_client_exit (w : W) (p : PassIn) :
    (daemonPass w p).1.exited = (cliPostPoll w p.acc p.envs).exited :=
  daemonPass_exited w p

/-- any number of passes with any kernel answers -/
theorem C06_run_survives_partial (hs : NoSortAbort) (w : W) (ps : List PassIn) :
    (runPasses w ps).exited = w.exited :=
  runPasses_exited_plain hs w ps      -- corollary of `C06_run_survives_runX_partial` (passes that bring no regex answer)

example : (runPasses Ex.world [{ now := 0, acc := 1, con := [0], soe := [0], envs := [] },
    { now := 1, acc := 0, con := [0], soe := [0], envs := [{ fd := 1000, rev := 1, rk := 0, data := bstr "telemetry\n", cap := 4096 }] }]).clients.map (·.toBuf) =
    [render [.line 1 (bstr "2.4.4"), .prompt, .line 104 (bstr "Telemetry ON"), .prompt]] := by
  decide +kernel

/-- **any number of passes with any kernel answers and any answers of the regex engine in every pass.**  `C06_run_survives_partial`
    is stated over `runPasses`, the plain fold of `daemonPass`, in which only the first pass can see a regex answer (`daemonPass`
    consumes and clears `pendingX`; the driver refills it between passes).  This is the same statement over `runX`
    (`Pm/RunX.lean`, shared with C02, C03, C05, C11, C15): every pass `q` brings its own regex answers `q.rx`, handed over by
    `feed` before the pass; the regex answers are arbitrary in every pass.  (`_partial` for the same reason as above: the
    hypothesis `NoSortAbort` excludes F19.) -/
theorem C06_run_survives_runX_partial (hs : NoSortAbort) (w : W) (qs : List PassX) :
    (runX w qs).exited = w.exited :=
  runX_exited hs w qs

/- the run of the example above as a run of `runX` (no device in `Ex.world`, so no regex answer is ever asked for; runs in which
   an answer fed before a later pass matters are in `Props/C02` and `Props/C11`) -/
example : (runX Ex.world [⟨{ now := 0, acc := 1, con := [0], soe := [0], envs := [] }, []⟩,
    ⟨{ now := 1, acc := 0, con := [0], soe := [0], envs := [{ fd := 1000, rev := 1, rk := 0, data := bstr "telemetry\n", cap := 4096 }] }, []⟩]).clients.map (·.toBuf) =
    [render [.line 1 (bstr "2.4.4"), .prompt, .line 104 (bstr "Telemetry ON"), .prompt]] := by
  decide +kernel

end Pm.Props.C06
