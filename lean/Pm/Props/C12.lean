import Pm.Dev2Count
/-! # C12 — failures are contained, reported and recovered from

Ranking: back-off spacing (done) ▸ a failing head takes the whole queue with it, each client action reported once
(done, device side) ▸ restart from the first statement after a reconnect (done: `rewind` yields the initial
configuration of the outer block) ▸ recovery once the device behaves (planned). -/
namespace Pm.Props.C12
open Pm.Dev2

/-- every entry of the back-off table is at least one second -/
theorem C12_rtab_ge_one : ∀ x ∈ rtab, 1 ≤ x := by decide

/-- `_time_to_reconnect`: once an attempt has been made (`retry_count > 0`) and no client request has reset the
    counter, no further attempt is allowed within one second of the last one — whatever the counter's value -/
theorem C12_backoff_one_second (d : Dev) (now : Time) (h : 0 < d.retryCount) (hn : now < d.lastRetry + 1000000) :
    (timeToReconnect d now).1 = false := by
  unfold timeToReconnect
  have hr : 1 ≤ rtab.getD (min (d.retryCount - 1) 6) 60 := by
    have hlt : min (d.retryCount - 1) 6 < rtab.length := by simp [rtab]; omega
    have : rtab.getD (min (d.retryCount - 1) 6) 60 = rtab[min (d.retryCount - 1) 6] := by
      simp [List.getD, List.getElem?_eq_getElem hlt]
    rw [this]
    exact C12_rtab_ge_one _ (List.getElem_mem hlt)
  generalize rtab.getD (min (d.retryCount - 1) 6) 60 = w at hr
  have hpos : d.retryCount > 0 := h
  have hw : 1000000 ≤ w * 1000000 := Nat.le_mul_of_pos_left _ hr
  have : ¬ now ≥ d.lastRetry + w * 1000000 := by
    intro hge
    unfold Time at *
    omega
  simp [hpos, this]

/-- `_reconnect` under the same conditions performs no system call at all on a device that is not connected:
    no `socket`, no `connect`, no `fork` -/
theorem C12_no_attempt_within_backoff (c : CS) (tmo : Option Time) (h0 : c.dev.conn = 0)
    (h : 0 < c.dev.retryCount) (hn : c.env.now < c.dev.lastRetry + 1000000) :
    (reconnectDev c tmo).1.sys = c.sys ∧ (reconnectDev c tmo).1.dev.conn = 0 := by
  unfold reconnectDev
  have hb := C12_backoff_one_second c.dev c.env.now h hn
  simp only [h0, bne_self_eq_false, Bool.false_eq_true, ↓reduceIte]
  generalize hq : timeToReconnect c.dev c.env.now = q at hb
  rcases q with ⟨b, t⟩
  simp only at hb; subst hb
  cases t <;> simp [h0]

/-- the error branch of `_process_action` empties the queue and reports every client action in it exactly once:
    the failing head with its own error, everything behind it as aborted (or with the same connect/login error) -/
theorem C12_fail_all_reports (rest : List Action) (c : CS) (a : Action) (o : Oracle) (out : List Out) (tmo : Option Time)
    (cid : Nat) (hc : cid ≠ 0) :
    fcount cid (failAll rest c a o out tmo).2.2.1 = fcount cid out + qcount cid (a :: rest) ∧
    qcount cid (failAll rest c a o out tmo).1.dev.acts = 0 := by
  have h := failAll_count rest c a o out tmo cid hc
  have hq : qcount cid (failAll rest c a o out tmo).1.dev.acts = 0 := failAll_queue_empty rest c a o out tmo cid hc
  omega

/-- `_rewind_action` leaves the pre-empted action in the configuration a fresh action has: one context, at the
    first statement, nothing in progress, no live plug iterator — so it re-executes from its first statement -/
theorem C12_rewind_initial (a : Action) (e : ExecCtx) (h : a.exec.getLast? = some e) :
    (rewind a).exec = [{ e with pos := 0, processing := false, plugItr := none }] := by
  unfold rewind; simp [h]

end Pm.Props.C12
