import Pm.Dev2Count
import Pm.Dev2Timer
import Pm.WalkProof
/-! # C12 — failures are contained, reported and recovered from

Ranking: back-off spacing (done) ▸ a failing head takes the whole queue with it, each client action reported once
(done, device side) ▸ restart from the first statement after a reconnect (done: `rewind` yields the initial
configuration of the outer block) ▸ recovery once the device behaves (planned). -/
namespace Pm.Props.C12
open Pm.Dev2

/-- every entry of the back-off table is at least one second -/
theorem C12_rtab_ge_one : ∀ x ∈ rtab, 1 ≤ x := by decide

/-- `_time_to_reconnect`: once an attempt has been made (`retry_count > 0`) and no client request has reset the
    counter, no further attempt is allowed within one second of the last one — whatever the counter's value -/
theorem C12_backoff_one_second (d : Dev) (now : Time) (h : 0 < d.retryCount) (hn : now < d.lastRetry + 1000000) :
    (timeToReconnect d now).1 = false := by
  unfold timeToReconnect
  have hr : 1 ≤ rtab.getD (min (d.retryCount - 1) 6) 60 := by
    have hlt : min (d.retryCount - 1) 6 < rtab.length := by simp [rtab]; omega
    have : rtab.getD (min (d.retryCount - 1) 6) 60 = rtab[min (d.retryCount - 1) 6] := by
      simp [List.getD, List.getElem?_eq_getElem hlt]
    rw [this]
    exact C12_rtab_ge_one _ (List.getElem_mem hlt)
  generalize rtab.getD (min (d.retryCount - 1) 6) 60 = w at hr
  have hpos : d.retryCount > 0 := h
  have hw : 1000000 ≤ w * 1000000 := Nat.le_mul_of_pos_left _ hr
  have : ¬ now ≥ d.lastRetry + w * 1000000 := by
    intro hge
    unfold Time at *
    omega
  simp [hpos, this]

/-- `_reconnect` under the same conditions performs no system call at all on a device that is not connected:
    no `socket`, no `connect`, no `fork` — for a host with several addresses: none of them is tried (one *attempt* is one walk
    over the whole address list, `C12_attempt_walks_all_addresses`; the back-off spaces attempts, not addresses) -/
theorem C12_no_attempt_within_backoff (c : CS) (tmo : Option Time) (h0 : c.dev.conn = 0)
    (h : 0 < c.dev.retryCount) (hn : c.env.now < c.dev.lastRetry + 1000000) :
    (reconnectDev c tmo).1.sys = c.sys ∧ (reconnectDev c tmo).1.dev.conn = 0 := by
  unfold reconnectDev
  have hb := C12_backoff_one_second c.dev c.env.now h hn
  simp only [h0, bne_self_eq_false, Bool.false_eq_true, ↓reduceIte]
  generalize hq : timeToReconnect c.dev c.env.now = q at hb
  rcases q with ⟨b, t⟩
  simp only at hb; subst hb
  cases t <;> simp [h0]

/-- the error branch of `_process_action` empties the queue and reports every client action in it exactly once:
    the failing head with its own error, everything behind it as aborted (or with the same connect/login error) -/
theorem C12_fail_all_reports (rest : List Action) (c : CS) (a : Action) (o : Oracle) (out : List Out) (tmo : Option Time)
    (cid : Nat) (hc : cid ≠ 0) :
    fcount cid (failAll rest c a o out tmo).2.2.1 = fcount cid out + qcount cid (a :: rest) ∧
    qcount cid (failAll rest c a o out tmo).1.dev.acts = 0 := by
  have h := failAll_count rest c a o out tmo cid hc
  have hq : qcount cid (failAll rest c a o out tmo).1.dev.acts = 0 := failAll_queue_empty rest c a o out tmo cid hc
  omega

/-- `_rewind_action` leaves the pre-empted action in the configuration a fresh action has: one context, at the
    first statement, nothing in progress, no live plug iterator — so it re-executes from its first statement -/
theorem C12_rewind_initial (a : Action) (e : ExecCtx) (h : a.exec.getLast? = some e) :
    (rewind a).exec = [{ e with pos := 0, processing := false, plugItr := none }] := by
  unfold rewind; simp [h]

/-! ## i/o errors, restart after a connect, what a time-out reports, recovery

Helper lemmas: `Pm/Dev2Timer.lean`.  `closeOf fd` is `[close fd]` for a descriptor held and `[]` otherwise; `reapOf p pid` is
`[kill pid, waitpid pid]` for a coprocess (`p`) with a recorded child and `[]` otherwise; `dropLogin q` is `q` without a
leading login action (script 0); `backoffEnd d = d.lastRetry + rtab[min (d.retryCount − 1) 6]·10⁶`. -/
section recovery
open Pm.Dev2.Timer Pm.Dev2.Fd Pm.Dev2.Interp

/-- **When `_handle_ready_device` reports an i/o error on a CONNECTED device** (holding a descriptor): exactly when `poll`
    reports POLLHUP/POLLERR/POLLNVAL, or POLLOUT with nothing to write ("write sent no data") or a failing `write`
    (`writeOk = false`: EPIPE; `wcap = 0`: the descriptor takes nothing, EAGAIN — a short write of at least one byte is
    not an error, `C09_device_short_write`), or POLLIN with a failing `read` or end of file. -/
theorem C12_ioerr_kinds (c : CS) (h2 : c.dev.conn = 2) (hfd : c.dev.fd.isSome = true) :
    (handleReady c).2 = true ↔
      (c.env.revents &&& 4 != 0 || c.env.revents &&& 8 != 0 || c.env.revents &&& 16 != 0) = true ∨
      ((c.env.revents &&& 2 != 0) = true ∧ (c.dev.toBuf.isEmpty = true ∨ c.env.writeOk = false ∨ c.env.wcap = 0)) ∨
      ((c.env.revents &&& 1 != 0) = true ∧ (c.env.read = some none ∨ c.env.read = some (some []))) :=
  handleReady_connected_ioerr c h2 hfd

/-- **An i/o error disconnects, keeps every client action, and leads to a reconnect or its back-off.**  Let
    `c1 = (handleReady c).1` be the state in which `_handle_ready_device` reports the error on a CONNECTED device.
    (1) It has touched neither the queue, nor the descriptor, the child, the transport, the login flag, and has not
    aborted.  (2) `_disconnect` — which `_reconnect` runs first since the state is not NOT_CONNECTED — closes that
    descriptor, signals and reaps the coprocess child if there is one, and nothing else; afterwards no descriptor (and,
    for a coprocess, no child) is recorded, both buffers are empty, the state is NOT_CONNECTED and not logged in; a login
    action at the head of the queue is removed and EVERY OTHER queued action is kept, in order.  (3) Then `_reconnect`
    either makes a connect attempt at once (no attempt counted so far, or the back-off is over) or changes nothing more
    and registers the remaining back-off.  (4) In `dev_post_poll` that `_reconnect` is what follows an i/o error. -/
theorem C12_ioerr (c : CS) (tmo : Option Time) (h2 : c.dev.conn = 2) (hfd : c.dev.fd.isSome = true)
    (he : (handleReady c).2 = true) :
    ((handleReady c).1.dev.acts = c.dev.acts ∧ (handleReady c).1.dev.conn = 2 ∧ (handleReady c).1.dev.fd = c.dev.fd ∧
      (handleReady c).1.dev.cpid = c.dev.cpid ∧ (handleReady c).1.dev.isPipe = c.dev.isPipe ∧
      (handleReady c).1.dev.loggedIn = c.dev.loggedIn ∧ (handleReady c).1.aborted = c.aborted) ∧
    ((disconnectDev (handleReady c).1).sys = (handleReady c).1.sys ++ closeOf c.dev.fd ++ reapOf c.dev.isPipe c.dev.cpid ∧
      (disconnectDev (handleReady c).1).dev.fd = none ∧
      (disconnectDev (handleReady c).1).dev.cpid = (if c.dev.isPipe then none else c.dev.cpid) ∧
      (disconnectDev (handleReady c).1).dev.toBuf = [] ∧ (disconnectDev (handleReady c).1).dev.fromBuf = [] ∧
      (disconnectDev (handleReady c).1).dev.conn = 0 ∧ (disconnectDev (handleReady c).1).dev.loggedIn = false ∧
      (disconnectDev (handleReady c).1).dev.acts = dropLogin c.dev.acts ∧
      (disconnectDev (handleReady c).1).aborted = c.aborted) ∧
    ((((handleReady c).1.dev.retryCount = 0 ∨ backoffEnd (handleReady c).1.dev ≤ (handleReady c).1.env.now) ∧
        reconnectDev (handleReady c).1 tmo = (connectDev (disconnectDev (handleReady c).1), tmo)) ∨
      (0 < (handleReady c).1.dev.retryCount ∧ (handleReady c).1.env.now < backoffEnd (handleReady c).1.dev ∧
        reconnectDev (handleReady c).1 tmo =
          (disconnectDev (handleReady c).1, upd tmo (backoffEnd (handleReady c).1.dev - (handleReady c).1.env.now)))) ∧
    Pm.Dev2.Login2.postPollReconnect (handleReady c) = reconnectDev (handleReady c).1 none := by
  obtain ⟨f1, f2, f3, f4, f5, f6, f7⟩ := handleReady_connected_frame c h2 hfd he
  obtain ⟨s1, s2, s3, s4, s5, s6, s7, s8, s9, _⟩ := disconnectDev_spec (handleReady c).1
  refine ⟨⟨f1, f2, f3, f4, f5, f6, f7⟩, ⟨?_, s2, ?_, s4, s5, s6, s7, ?_, ?_⟩,
    reconnectDev_connected (handleReady c).1 tmo (by rw [f2]; decide), ?_⟩
  · rw [s1, f3, f4, f5]
  · rw [s3, f4, f5]
  · rw [s8, f1]
  · rw [s9, f7]
  · unfold Pm.Dev2.Login2.postPollReconnect; simp [he]

/-- the queue rule of `_disconnect`, spelled out -/
theorem C12_dropLogin (a : Action) (r : List Action) :
    dropLogin [] = [] ∧ (a.com = 0 → dropLogin (a :: r) = r) ∧ (a.com ≠ 0 → dropLogin (a :: r) = a :: r) := by
  refine ⟨rfl, fun h => by simp [dropLogin, h], fun h => by simp [dropLogin, h]⟩

/-- non-vacuity: hang-up on the connected coprocess device of `Props/C20` with two client actions queued — descriptor
    closed, child signalled and reaped, both actions still queued in order behind the new login action (the reconnect
    goes through at once), and — this pass — the login script (`delay 0`) has already run -/
example : (handleReady ⟨Timer.Ex.pipeBusy, exEnv, [], false⟩).2 = true ∧
    ((postPoll Timer.Ex.pipeBusy exEnv ⟨[]⟩).1.sys.take 3 matches [Sys.close 3000, Sys.kill 5000, Sys.waitpid 5000]) = true ∧
    (postPoll Timer.Ex.pipeBusy exEnv ⟨[]⟩).1.dev.acts.map (·.clientId) = [1, 2] ∧
    (postPoll Timer.Ex.pipeBusy exEnv ⟨[]⟩).1.dev.loggedIn = true := by decide

/-- **Restart after a connect (`_connect`).**  When `_connect`, called in state NOT_CONNECTED, succeeds at once (pass not
    aborted, state CONNECTED afterwards) the queue becomes: the login action, then the former head REWOUND, then the
    rest unchanged.  And if that former head `a` was well-formed (`StackOK`: the invariant of the interpreter proofs,
    `Props/C08`) then the rewound action consists of the single context of its outermost block at position 0 with nothing
    in progress, is well-formed again and denotes the unrolling of the whole script (`abs … = ⟨unroll …, false⟩`): it
    re-executes from its first statement.  Its error state, script kind, client, argument list are kept — and so is
    its TIME STAMP: the restarted action does not get a new deadline (as coded). -/
theorem C12_restart (R : Bool) (dp : List Plug) (c : CS) (h0 : c.dev.conn = 0) (hna : (connectDev c).aborted = false)
    (h2 : (connectDev c).dev.conn = 2) :
    (connectDev c).dev.acts = loginAction c.dev :: (match c.dev.acts with | a :: r => rewind a :: r | [] => []) ∧
    ∀ a r, c.dev.acts = a :: r → StackOK R a.exec → a.exec ≠ [] →
      ∃ outer, a.exec.getLast? = some outer ∧
        (rewind a).exec = [{ outer with pos := 0, processing := false, plugItr := none }] ∧
        StackOK R (rewind a).exec ∧ abs R dp (rewind a).exec = ⟨unroll R dp outer.block outer.plugs, false⟩ ∧
        (rewind a).errnum = a.errnum ∧ (rewind a).com = a.com ∧ (rewind a).timeStamp = a.timeStamp ∧
        (rewind a).clientId = a.clientId ∧ (rewind a).arglist = a.arglist := by
  obtain ⟨_, _, _, _, hq⟩ := connectDev_cases c h0
  refine ⟨?_, ?_⟩
  · rcases hq hna with ⟨hne, _⟩ | ⟨_, hq⟩
    · exact absurd h2 hne
    · rw [hq]; rfl
  · intro a r _ hok hne
    obtain ⟨outer, h1, h3, h4, h5, h6⟩ := rewind_ok R dp a hok hne
    exact ⟨outer, h1, C12_rewind_initial a outer h1, h3, h4, h5, h6, (rewind_keeps a).1, (rewind_keeps a).2.1, (rewind_keeps a).2.2.1⟩

/-- … the same queue when the connect completes later, in `_handle_ready_device` on a CONNECTING device
    (`tcp_finish_connect` after POLLOUT) -/
theorem C12_restart_finish (c : CS) (h1 : c.dev.conn = 1) (h2 : (handleReady c).1.dev.conn = 2) :
    (handleReady c).1.dev.acts = loginAction c.dev :: (match c.dev.acts with | a :: r => rewind a :: r | [] => []) := by
  rw [handleReady_connects c h1 h2]; rfl

/-- non-vacuity: the device of `C04`'s examples that is not connected, two client actions queued, `connect()` succeeding at
    once: login first, then the two actions -/
example : let c : CS := ⟨Timer.Ex.tcpDown, { Timer.Ex.envEarly with connects := [0], soerrs := [0] }, [], false⟩
    c.dev.conn = 0 ∧ (connectDev c).aborted = false ∧ (connectDev c).dev.conn = 2 ∧
    (connectDev c).dev.acts.map (fun a => (a.com, a.clientId)) = [(0, 0), (7, 1), (7, 2)] := by decide

/-- **What the time-out branch of `_process_action` reports.**  The head `a` of the queue is overdue, `rest` is queued
    behind it.  The callbacks grow by: the telemetry line of the time-out (if the client asked for telemetry), then the
    head's completion with the KIND of the time-out, then — in queue order — the completion of every client action of
    `rest`, with `abort` if the kind is the expect failure and with the same kind otherwise; actions of no client (login,
    ping) are dropped silently.  Every client action is thereby reported exactly once and none is left in the queue. -/
theorem C12_timeout_reports_all (rest : List Action) (c : CS) (a : Action) (o : Oracle) (out : List Out) (tmo : Option Time) :
    (onTimeout rest c a o out tmo).2.2.1 =
      out ++ timeoutTele c.dev a ++
        ((if a.clientId != 0 then [Out.finish a.clientId (timeoutErr c.dev)] else []) ++
         (rest.filter (·.clientId != 0)).map fun b =>
            Out.finish b.clientId (if timeoutErr c.dev == .expfail then .abort else timeoutErr c.dev)) ∧
    ∀ cid, cid ≠ 0 →
      fcount cid (onTimeout rest c a o out tmo).2.2.1 = fcount cid out + qcount cid (a :: rest) ∧
      qcount cid (onTimeout rest c a o out tmo).1.dev.acts = 0 := by
  refine ⟨onTimeout_out rest c a o out tmo, fun cid hc => ?_⟩
  rw [onTimeout_eq_failAll]
  have h := C12_fail_all_reports rest c { a with errnum := timeoutErr c.dev } o (out ++ timeoutTele c.dev a) tmo cid hc
  rw [fcount_append, fcount_timeoutTele] at h
  refine ⟨?_, h.2⟩
  rw [h.1, qcount_cons, qcount_cons]; simp

/-- the three kinds: connect time-out while the device is not CONNECTED, login time-out while it is CONNECTED but not
    logged in, expect failure otherwise -/
theorem C12_timeout_kind (d : Dev) :
    (d.conn ≠ 2 → timeoutErr d = .connectTimeout) ∧
    (d.conn = 2 → d.loggedIn = false → timeoutErr d = .loginTimeout) ∧
    (d.conn = 2 → d.loggedIn = true → timeoutErr d = .expfail) :=
  timeoutErr_cases d

/-- non-vacuity (the pass of `C04_tenure_pass`'s example): client 1 gets the expect failure, client 2 the abort -/
example : (postPoll Timer.Ex.tcpBusy Timer.Ex.envLate ⟨[]⟩).2.2.1.filterMap
    (fun x => match x with | .finish cid e => some (cid, e) | _ => none) = [(1, .expfail), (2, .abort)] := by decide

/-- **Recovery (partial: what is proved is that no failure is remembered; that the request then succeeds depends on the
    device).**  A device that is CONNECTED, with a positive time-out, `poll` reporting nothing for it, and exactly one —
    not yet looked at — action `a` in its queue (the state after a successful login plus one client enqueue): the pass
    reaches `_process_action` unaborted, and its first iteration runs the statement interpreter on `a` stamped with the
    time of THIS pass — deadline `now + timeout`, whatever happened on this device before.  If the interpreter stalls
    on it, the pass ends with `a` (same client, same script) at the head carrying that fresh time stamp.  With
    `mkAction`'s initial context (`Props/C08`, `C08_initial`) this is a run from the first statement. -/
theorem C12_recover_partial (d : Dev) (env : Env) (o : Oracle) (a : Action) (h2 : d.conn = 2) (hq : d.acts = [a])
    (hts : a.timeStamp = none) (hto : 0 < d.timeout) (hfl : (if d.fd.isSome then env.revents else 0) = 0) :
    ((Pm.Dev2.Login2.postPollReady d env).1.aborted = false ∧
      Pm.Dev2.Login2.speaker (Pm.Dev2.Login2.postPollPre d env).1 = some { a with timeStamp := some env.now }) ∧
    ((innerLoop env.now (loopBound { a with timeStamp := some env.now })
          { (Pm.Dev2.Login2.postPollPre d env).1.dev with wake := none } { a with timeStamp := some env.now } o []).finished = false →
      ∃ h r, (postPoll d env o).1.dev.acts = h :: r ∧ h.timeStamp = some env.now ∧ h.clientId = a.clientId ∧ h.com = a.com) :=
  ⟨recover_speaker d env a h2 hq hts hto hfl, recover_stalled d env o a h2 hq hts hto hfl⟩

/-- non-vacuity: the connected tcp device with one fresh action that waits for the device: after the pass it is at the
    head, stamped with the time of the pass, and its full time-out (1 s) is registered -/
example : let d : Dev := { exTcp with acts := [Timer.Ex.act2] }
    d.conn = 2 ∧ Timer.Ex.act2.timeStamp = none ∧ 0 < d.timeout ∧
    (postPoll d Timer.Ex.envEarly ⟨[]⟩).1.dev.acts.map (·.timeStamp) = [some 400000] ∧
    (postPoll d Timer.Ex.envEarly ⟨[]⟩).2.2.2 = some 1000000 := by decide

/-- **What is remembered: `retry_count`.**  (a) Every connect attempt raises it by one (successful or not) and sets
    `last_retry`; (b) `dev_post_poll` never lowers it — in particular NOT after a successful connect or login; (c) it is
    reset in one place only (besides `dev_create`): `dev_enqueue_actions`, when a client request put at least one
    action on a device that is not CONNECTED (`installStep` is the per-device step of `install`).  So the back-off grows
    over the life of the daemon: after seven attempts in total every failed reconnect is followed by a 60 s pause, unless
    a client request for that device arrives while it is down. -/
theorem C12_retry_count (d : Dev) (env : Env) (o : Oracle) (c : CS) (h0 : c.dev.conn = 0)
    (com : Nat) (bnames : List Bytes) (cid : Nat) (tele : Bool) (al : Nat) (acc : List (Bytes × Dev) × Nat) (nd : Bytes × Dev) :
    ((connectDev c).dev.retryCount = c.dev.retryCount + 1 ∧ (connectDev c).dev.lastRetry = c.env.now) ∧
    d.retryCount ≤ (postPoll d env o).1.dev.retryCount ∧
    ∃ d', (Pm.Dev2.Login2.installStep com bnames cid tele al acc nd).1 = acc.1 ++ [(nd.1, d')] ∧
      d'.retryCount = (if (Pm.Daemon.enqueue nd.2 com bnames cid tele al).2 > 0 ∧ nd.2.conn ≠ 2 then 0 else nd.2.retryCount) :=
  ⟨⟨(connectDev_cases c h0).2.2.1, (connectDev_cases c h0).2.1⟩, postPoll_retryLe d env o,
   installStep_retryCount com bnames cid tele al acc nd⟩

end recovery

/-! ## several addresses per host: what one attempt is (`device_tcp.c`: `tcp->addrs`, `tcp->cur`) -/
section addresses
open Pm.Dev2.Walk

/-- **One attempt = one walk over the address list.**  `attemptTried c` / `finishTried c i` / `walkTried n c` are the indices (into
    `tcp->addrs`) for which `tcp_connect_one` is called, in call order (ghosts beside `connectWalk`, same recursion).
    1. `tcp_connect` — NOT_CONNECTED, no descriptor, a host with at least one address — tries the addresses `0, 1, 2, …` in order,
       each once.  It ends NOT_CONNECTED ("connection refused": `cur == NULL`, no descriptor held) **only after every address
       was tried**; otherwise it ends on the **first** address `j` whose `tcp_connect_one` did not fail at once: `cur` stands on
       `j`, its descriptor is held, the device is CONNECTING (EINPROGRESS) or CONNECTED, and no address behind `j` was touched.
    2. `tcp_finish_connect`, when `SO_ERROR` says the pending connect on address `i` failed, goes on with `i+1, i+2, …` in the
       same way: NOT_CONNECTED only when every address behind `i` has failed too (none left: at once), else CONNECTING or
       CONNECTED on the first `j > i` that did not fail at once.
    3. The walk itself, from address `i` with at least `naddr - i` iterations of fuel (both callers give `naddr`): the same
       dichotomy; the connection state is CONNECTED or what it was.
    However many addresses one attempt tries, `_connect` counts it once (`C12_attempt_counts_once`). -/
theorem C12_attempt_walks_all_addresses :
    (∀ c : CS, c.dev.conn = 0 → c.dev.fd = none → 0 < c.dev.naddr →
      ((tcpConnect c).1.dev.conn = 0 ∧ (tcpConnect c).1.dev.cur = none ∧ (tcpConnect c).1.dev.fd = none ∧
          attemptTried c = List.range c.dev.naddr) ∨
      (∃ j, j < c.dev.naddr ∧ (tcpConnect c).1.dev.cur = some j ∧ (tcpConnect c).1.dev.fd.isSome = true ∧
          ((tcpConnect c).1.dev.conn = 1 ∨ (tcpConnect c).1.dev.conn = 2) ∧ attemptTried c = List.range (j + 1))) ∧
    (∀ (c : CS) (i : Nat), c.dev.cur = some i → i < c.dev.naddr → c.dev.conn = 1 →
      ((finishConnectFail c).dev.conn = 0 ∧ (finishConnectFail c).dev.cur = none ∧ (finishConnectFail c).dev.fd = none ∧
          finishTried c i = List.range' (i + 1) (c.dev.naddr - (i + 1))) ∨
      (∃ j, i < j ∧ j < c.dev.naddr ∧ (finishConnectFail c).dev.cur = some j ∧ (finishConnectFail c).dev.fd.isSome = true ∧
          ((finishConnectFail c).dev.conn = 1 ∨ (finishConnectFail c).dev.conn = 2) ∧
          finishTried c i = List.range' (i + 1) (j - i))) ∧
    (∀ (n : Nat) (c : CS) (i : Nat), c.dev.cur = some i → i < c.dev.naddr → c.dev.naddr - i ≤ n → c.dev.fd = none →
      ((connectWalk n c).dev.cur = none ∧ walkTried n c = List.range' i (c.dev.naddr - i) ∧ (connectWalk n c).dev.fd = none ∧
          (connectWalk n c).dev.conn = c.dev.conn) ∨
      (∃ j, i ≤ j ∧ j < c.dev.naddr ∧ (connectWalk n c).dev.cur = some j ∧ walkTried n c = List.range' i (j - i + 1) ∧
          (connectWalk n c).dev.fd.isSome = true ∧
          ((connectWalk n c).dev.conn = 2 ∨ (connectWalk n c).dev.conn = c.dev.conn))) :=
  ⟨tcpConnect_attempt, finishConnectFail_attempt, connectWalk_tried⟩

/-- non-vacuity: a host with three addresses.  The first is unreachable at once, the second refuses at once, the third is in
    progress: all three are tried in order, the device is CONNECTING on the third with its socket (2002) held.  With every
    address failing at once: three tries, "connection refused", no descriptor.  And `tcp_finish_connect` after a failed
    `SO_ERROR` on the first address: the second connects at once — CONNECTED on address 2 -/
example : ex3.conn = 0 ∧ ex3.fd = none ∧ 0 < ex3.naddr ∧
    attemptTried ⟨ex3, env221, [], false⟩ = [0, 1, 2] ∧ (tcpConnect ⟨ex3, env221, [], false⟩).1.dev.cur = some 2 ∧
    (tcpConnect ⟨ex3, env221, [], false⟩).1.dev.fd = some 2002 ∧ (tcpConnect ⟨ex3, env221, [], false⟩).1.dev.conn = 1 ∧
    attemptTried ⟨ex3, env222, [], false⟩ = [0, 1, 2] ∧ (tcpConnect ⟨ex3, env222, [], false⟩).1.dev.cur = none ∧
    (tcpConnect ⟨ex3, env222, [], false⟩).1.dev.fd = none ∧ (tcpConnect ⟨ex3, env222, [], false⟩).1.dev.conn = 0 := by
  decide
example : finishTried ⟨{ ex3 with conn := 1, fd := some 2000 }, { envFin with soerrs := [0] }, [], false⟩ 0 = [1] ∧
    (finishConnectFail ⟨{ ex3 with conn := 1, fd := some 2000 }, { envFin with soerrs := [0] }, [], false⟩).dev.cur = some 1 ∧
    (finishConnectFail ⟨{ ex3 with conn := 1, fd := some 2000 }, { envFin with soerrs := [0] }, [], false⟩).dev.conn = 2 ∧
    (finishConnectFail ⟨{ ex3 with conn := 1, fd := some 2000 }, { envFin with soerrs := [0] }, [], false⟩).dev.fd = some 2001 := by
  decide

/-- **The next attempt starts over at the first address** (fix b7c4c70: before it, an attempt that had exhausted the list
    left `tcp->cur == NULL` and the next `tcp_connect` tripped `assert(tcp->cur != NULL)`; an attempt that had stopped on
    address `j` resumed there).  Past its two asserts `tcp_connect` does not read `tcp->cur` at all — the result and the
    addresses tried are the same whatever the previous attempt left there — and the first address it tries is address 0. -/
theorem C12_next_attempt_restarts_at_first (c : CS) (v : Option Nat) (h0 : c.dev.conn = 0) (hfd : c.dev.fd = none)
    (hna : 0 < c.dev.naddr) :
    tcpConnect { c with dev := { c.dev with cur := v } } = tcpConnect c ∧
    attemptTried { c with dev := { c.dev with cur := v } } = attemptTried c ∧
    (attemptTried c).head? = some 0 := by
  refine ⟨(tcpConnect_ignores_cur c v h0 hfd).1, (tcpConnect_ignores_cur c v h0 hfd).2, ?_⟩
  rcases tcpConnect_attempt c h0 hfd hna with ⟨_, _, _, h⟩ | ⟨j, _, _, _, _, h⟩
  · rw [h]; cases hn : c.dev.naddr with
    | zero => omega
    | succ m => simp [List.range_succ_eq_map]
  · rw [h]; simp [List.range_succ_eq_map]

/-- non-vacuity: after the attempt on which every address failed (`cur == NULL`), the next attempt — here with the third
    address in progress — tries `0, 1, 2` again -/
example :
    let d := (tcpConnect ⟨ex3, env222, [], false⟩).1.dev
    d.cur = none ∧ d.conn = 0 ∧ d.fd = none ∧ 0 < d.naddr ∧ attemptTried ⟨d, env221, [], false⟩ = [0, 1, 2] := by
  decide

/-- **An attempt is counted once**, however many addresses it walks over: `_connect` sets `last_retry` to the time of the pass
    and raises `retry_count` by one — the back-off (`C12_backoff_one_second`, `C12_no_attempt_within_backoff`) is between
    attempts, not between addresses -/
theorem C12_attempt_counts_once (c : CS) (h0 : c.dev.conn = 0) :
    (connectDev c).dev.retryCount = c.dev.retryCount + 1 ∧ (connectDev c).dev.lastRetry = c.env.now :=
  ⟨(Pm.Dev2.Timer.connectDev_cases c h0).2.2.1, (Pm.Dev2.Timer.connectDev_cases c h0).2.1⟩

example : (connectDev ⟨ex3, env222, [], false⟩).dev.retryCount = 1 ∧ (connectDev ⟨ex3, env222, [], false⟩).sys.length = 9 := by
  decide

end addresses

end Pm.Props.C12
