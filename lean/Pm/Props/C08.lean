import Pm.InterpSends
import Pm.ToBufProps
/-! # C08 — the script interpreter does what the script says

"For every action the bytes powerman sends to the device are precisely the script's send strings in program order with
%s replaced by the plug name (for ranged scripts: the range-compressed list of exactly the targeted plugs); a statement
runs only after all earlier expects have matched against device output, a delay lasts at least its stated time,
foreachplug/foreachnode bodies run once per plug / mapped node of the device (in ranged scripts: per targeted plug) in
plug order, and ifon/ifoff bodies run only when the plug's known state matches.  setplugstate/setresult record the
captured text under the first matching on/off/success pattern for the plug named by the literal, capture or script
argument."

Part A (this section): one theorem per sentence, about the mirror of the corresponding `_process_*` function of
`device.c` (`Pm/Dev2.lean`), for every device state, action, context, oracle and time.
Part B (further down): the stack of execution contexts refines a loop-free reference program — micro-step, run, and
one whole pass of `_process_action` (`C08_refines`; any nesting depth — the mirror's inner loop gets its fuel from the
nesting depth of the block the action stands in, `loopBound`, and never uses it up).  Part C: what is sent until the action completes is the unrolled script's send
texts in order. -/
namespace Pm.Props.C08
open Pm.Dev2.Interp
open Pm.Dev2

/-! ## A1  send -/

/-- **The `%s` argument of a send.**  One plug in the context: its name.  Two or more (a ranged script): the
    range-compressed, sorted list of exactly those plugs' names (`rangedNames`, through the hostlist mirror; it has no
    value when `hostlist_sort` hits its assertion, F19).  No plug list or an empty one: no argument (`%s` prints
    `(null)`). -/
theorem C08_send_argument (fmt : Bytes) :
    (∀ p, sendText fmt (some [p]) = some (hsprintf fmt (some p.name))) ∧
    (∀ p q r, sendText fmt (some (p :: q :: r)) =
        (rangedNames ((p :: q :: r).map (·.name))).map fun n => hsprintf fmt (some n)) ∧
    sendText fmt none = some (hsprintf fmt none) ∧ sendText fmt (some []) = some (hsprintf fmt none) :=
  ⟨fun _ => rfl, fun _ _ _ => rfl, rfl, rfl⟩

/-- **`_process_send`.**  On the first entry (`processing` clear) exactly the formatted text is queued behind what the
    device's output buffer holds, one `Out.sent` record with the same bytes is emitted, and nothing else about the device
    changes; on re-entry nothing is appended and nothing emitted; and the statement reports finished only when the
    output buffer is empty, i.e. every byte has been handed to the descriptor (or the model has stopped at the
    `hostlist_sort` assertion).
    Changed when the capacity of `dev->to` was modelled: the first clause read `toBuf := d.toBuf ++ s`; the buffer holds 65536
    bytes and `cbuf_write` overwrites the oldest unsent bytes beyond that (`clipTo` = the last 65536 bytes of `d.toBuf ++ s`):
    so beyond 64 KiB "the bytes powerman sends are precisely the script's send strings" is *false of the C code* — bytes queued
    earlier and not yet written (telnet answers, the unsent rest of an earlier text when `dev->to` was not drained) are lost,
    and of a text longer than 65536 bytes only the tail is sent (`C08_send_bytes_overflow_counterexample`).  Below the limit
    the old clause holds: `C08_send_bytes_below`.  A script of the daemon itself never has two texts queued (a `send` waits
    until the buffer has drained), so in practice what is overwritten are telnet answers. -/
theorem C08_send_bytes (d : Dev) (a : Action) (o : Oracle) (e : ExecCtx) (fmt : Bytes) :
    (∀ s, e.processing = false → sendText fmt e.plugs = some s →
        (stmtSend d a o e fmt).dev = { d with toBuf := clipTo (d.toBuf ++ s) } ∧
        sents (stmtSend d a o e fmt).out = [s] ∧
        (stmtSend d a o e fmt).finished = (d.toBuf ++ s).isEmpty) ∧
    (e.processing = false → sendText fmt e.plugs = none →
        (stmtSend d a o e fmt).dev = d ∧ hasAbort (stmtSend d a o e fmt).out = true) ∧
    (e.processing = true →
        (stmtSend d a o e fmt).dev = d ∧ (stmtSend d a o e fmt).out = [] ∧
        (stmtSend d a o e fmt).finished = d.toBuf.isEmpty) ∧
    ((stmtSend d a o e fmt).finished = true →
        (stmtSend d a o e fmt).dev.toBuf = [] ∨ hasAbort (stmtSend d a o e fmt).out = true) := by
  refine ⟨?_, ?_, ?_, stmtSend_finished d a o e fmt⟩
  · intro s hp hs
    obtain ⟨h1, _, h3, h4, _⟩ := stmtSend_fresh d a o e fmt s hp hs
    refine ⟨h1, ?_, h4⟩
    rw [h3]; unfold sendTele; split
    · simp [sents]
    · split <;> simp [sents, sents_teleMem]
  · intro hp hs
    rw [stmtSend_fresh_abort d a o e fmt hp hs]; exact ⟨rfl, rfl⟩
  · intro hp
    obtain ⟨h1, _, h3, h4, _⟩ := stmtSend_reentry d a o e fmt hp
    exact ⟨h1, h3, h4⟩

/-- the first clause of `C08_send_bytes` as it read before, under the explicit no-overflow hypothesis: the text fits behind what
    is queued -/
theorem C08_send_bytes_below (d : Dev) (a : Action) (o : Oracle) (e : ExecCtx) (fmt : Bytes) (s : Bytes)
    (hp : e.processing = false) (hs : sendText fmt e.plugs = some s) (hfit : (d.toBuf ++ s).length ≤ 65536) :
    (stmtSend d a o e fmt).dev = { d with toBuf := d.toBuf ++ s } ∧
    sents (stmtSend d a o e fmt).out = [s] ∧
    (stmtSend d a o e fmt).finished = (d.toBuf ++ s).isEmpty := by
  obtain ⟨h1, h2, h3⟩ := (C08_send_bytes d a o e fmt).1 s hp hs
  rw [clipTo_of_le _ hfit] at h1
  exact ⟨h1, h2, h3⟩

/-- **The first clause of `C08_send_bytes` as it read before is false beyond 64 KiB**: a first-visit `send "l\n"` against a full
    buffer (65536 queued bytes) does not leave `toBuf ++ "l\n"` queued: the two oldest queued bytes are gone.  (The C code does
    the same: `cbuf_write` in overwrite mode; `_process_send` logs "buffer overrun, 2 dropped".) -/
theorem C08_send_bytes_overflow_counterexample (a : Action) (o : Oracle) :
    Pm.Dev2.ToBufP.sendCtx.processing = false ∧
    sendText [108, 10] Pm.Dev2.ToBufP.sendCtx.plugs = some [108, 10] ∧
    (stmtSend Pm.Dev2.ToBufP.fullDev a o Pm.Dev2.ToBufP.sendCtx [108, 10]).dev ≠
      { Pm.Dev2.ToBufP.fullDev with toBuf := Pm.Dev2.ToBufP.fullDev.toBuf ++ [108, 10] } ∧
    (stmtSend Pm.Dev2.ToBufP.fullDev a o Pm.Dev2.ToBufP.sendCtx [108, 10]).dev.toBuf =
      Pm.Dev2.ToBufP.fullDev.toBuf.drop 2 ++ [108, 10] :=
  Pm.Dev2.ToBufP.send_append_counterexample a o

/-- non-vacuity of `C08_send_bytes_below`: an empty buffer and a six-byte text fit -/
example : (([] : Bytes) ++ str "on p1\n").length ≤ 65536 := by decide +kernel

/-- what the send does to the telemetry client: the line `send(dev): '…'` is produced exactly when the write did not overrun
    the buffer (`_process_send`: `else if (dropped > 0) err(…) else { … vpf_fun(…) }`) -/
theorem C08_send_telemetry (d : Dev) (a : Action) (o : Oracle) (e : ExecCtx) (fmt : Bytes) (s : Bytes)
    (hp : e.processing = false) (hs : sendText fmt e.plugs = some s) :
    (stmtSend d a o e fmt).out = [Out.sent s] ++
      (if toOverrun d.toBuf s then [] else if a.telemetry then teleMem a.clientId "send(dev): '" s else []) :=
  (stmtSend_fresh d a o e fmt s hp hs).2.2.1

/-- non-vacuity: plug `p1`, script line `send "on %s\n"`, empty output buffer: `on p1\n` is queued and the statement
    waits for the buffer to drain -/
example :
    let e : ExecCtx := { block := [.send (str "on %s\n")], pos := 0, plugs := some [⟨str "p1", some (str "n1")⟩],
                         plugItr := none, plugCopy := none, processing := false }
    sendText (str "on %s\n") e.plugs = some (str "on p1\n") := by decide +kernel

/-! ## A2  expect -/

/-- **`_process_expect` is a gate.**  It reports finished exactly when the input buffer is not empty and the regex
    oracle answers a match for *this* pattern on *the current buffer* (NUL bytes shown as 0xff); then exactly the
    bytes up to the end of the match are consumed.  In every case the action itself (stack, positions) is untouched. -/
theorem C08_expect_gate (d : Dev) (a : Action) (o : Oracle) (pat : Nat) :
    ((stmtExpect d a o pat).finished = true ↔
        d.fromBuf ≠ [] ∧ ((askRx o pat (rxSubject d.fromBuf)).2.1).isSome = true) ∧
    (∀ offs, d.fromBuf ≠ [] → (askRx o pat (rxSubject d.fromBuf)).2.1 = some offs →
        (stmtExpect d a o pat).dev.fromBuf = d.fromBuf.drop (offs.headD (0, 0)).2.toNat) ∧
    ((stmtExpect d a o pat).finished = false → (stmtExpect d a o pat).dev.fromBuf = d.fromBuf) ∧
    (stmtExpect d a o pat).act = a := by
  refine ⟨stmtExpect_finished_iff d a o pat, ?_, ?_, stmtExpect_act d a o pat⟩
  · intro offs h hm; exact (stmtExpect_match d a o pat offs h hm).2.2.1
  · intro hf
    by_cases h : d.fromBuf = []
    · rw [(stmtExpect_empty d a o pat h).2.2.2, h]
    · cases hm : (askRx o pat (rxSubject d.fromBuf)).2.1 with
      | none => exact (stmtExpect_nomatch d a o pat h hm).2.2.2
      | some offs => rw [(stmtExpect_match d a o pat offs h hm).1] at hf; cases hf

/-- the oracle's answer, when it raises no `rxMismatch`, is the recorded `regexec` answer to exactly this question -/
theorem C08_oracle_honest (o : Oracle) (pat : Nat) (s : Bytes) (h : (askRx o pat s).2.2 = []) :
    ∃ c rest, o.calls = c :: rest ∧ c.pat = pat ∧ c.subject = s ∧ (askRx o pat s).2.1 = c.answer ∧
      (askRx o pat s).1 = { calls := rest } := askRx_honest o pat s h

/-- **No later statement runs before the expect has matched.**  While the expect the action stands at has not
    matched, a whole trip through `_process_action` (inner `do … while`, then the bookkeeping) leaves the action in
    the queue exactly as it was — same context stack, same statement positions — so nothing behind the expect in its
    block, or in any enclosing block, is executed. -/
theorem C08_expect_blocks (k : CS → Oracle → List Out → Option Time → PA) (rest : List Action) (c : CS) (a : Action)
    (o : Oracle) (out : List Out) (tmo : Option Time) (left : Time) (pat : Nat)
    (hcur : (topCtx a).block[(topCtx a).pos]? = some (.expect pat))
    (h : (stmtExpect { c.dev with wake := none } a o pat).finished = false) :
    (onRun k rest c a o out tmo left).1.dev.acts = a :: rest :=
  onRun_expect_waits k rest c a o out tmo left pat hcur h

/-- the same for any statement that reports "not finished" (an expect without match, a send whose bytes are not yet
    written, a running delay): the `do … while` ends at once, the trip stores the action back at the head of the queue,
    and its stack is what it was — same contexts, blocks, positions and iterators — except possibly for the
    `processing` flag of the top context -/
theorem C08_unfinished_stays (k : CS → Oracle → List Out → Option Time → PA) (rest : List Action) (c : CS) (a : Action)
    (o : Oracle) (out : List Out) (tmo : Option Time) (left : Time) (e : ExecCtx) (stack : List ExecCtx)
    (hex : a.exec = e :: stack)
    (h : (processStmt { c.dev with wake := none } a o c.env.now).finished = false) :
    ∃ a' p', (onRun k rest c a o out tmo left).1.dev.acts = a' :: rest ∧
      a'.exec = { e with processing := p' } :: stack := by
  obtain ⟨p', hp⟩ := unfinished_shape _ a o c.env.now e stack hex h
  exact ⟨_, p', (onRun_stalled_acts k rest c a o out tmo left h).1, hp⟩

/-- non-vacuity: input `"login: "` in the buffer, the oracle answers "no match" — the expect does not finish -/
example :
    let d : Dev := { plugs := [], scripts := fun _ => none, timeout := 0, acts := [], toBuf := [], fromBuf := str "login: ",
                     xmStr := none, xmOffs := [], xmResult := false, xmUsed := false, args := [], nextUid := 0,
                     shortCircuitDelay := false }
    (stmtExpect d default ⟨[⟨7, str "login: ", none⟩]⟩ 7).finished = false := by decide +kernel

/-! ## A3  delay -/

/-- **`_process_delay` lasts at least its stated time.**  The first entry records the current time in `delayStart`
    (later entries leave it alone); the statement reports finished exactly when `now ≥ delayStart + us` — or when the
    test switch `short_circuit_delay` is on. -/
theorem C08_delay_at_least (d : Dev) (a : Action) (o : Oracle) (e : ExecCtx) (now us : Time) :
    (stmtDelay d a o e now us).act.delayStart = (if e.processing then a.delayStart else now) ∧
    ((stmtDelay d a o e now us).finished = true ↔
      (d.shortCircuitDelay = true ∨ now ≥ (stmtDelay d a o e now us).act.delayStart + us)) :=
  ⟨stmtDelay_delayStart d a o e now us, stmtDelay_finished_iff d a o e now us⟩

/-- a real delay never finishes on the pass that starts it, and marks the context as "in a delay" -/
theorem C08_delay_first_entry (d : Dev) (a : Action) (o : Oracle) (e : ExecCtx) (now us : Time)
    (hp : e.processing = false) (hs : d.shortCircuitDelay = false) (hus : 0 < us) :
    (stmtDelay d a o e now us).finished = false ∧
    (stmtDelay d a o e now us).act = setTop { a with delayStart := now } { e with processing := true } :=
  stmtDelay_first_entry_waits d a o e now us hp hs hus

/-- non-vacuity: a one-second delay entered at time 5 is not finished at time 5 -/
example :
    (stmtDelay { plugs := [], scripts := fun _ => none, timeout := 0, acts := [], toBuf := [], fromBuf := [],
                 xmStr := none, xmOffs := [], xmResult := false, xmUsed := false, args := [], nextUid := 0,
                 shortCircuitDelay := false } default ⟨[]⟩ default 5 1000000).finished = false :=
  (C08_delay_first_entry _ _ _ _ 5 1000000 rfl rfl (by decide)).1

/-! ## A4  ifon / ifoff -/

/-- **`_process_ifonoff` runs the body only when the plug's known state matches.**  `nodeState d a.arglist (ctxNode e.plugs)`
    is the state this action's argument list holds for the node of the context's (first) plug — `unknown` when there
    is no plug, no node or no such argument.  On entry (`processing` clear):
    * state `on` for `ifon` / `off` for `ifoff`: the body is pushed as a new context with the same plugs;
    * the opposite known state: nothing is pushed, the action is unchanged;
    * `unknown`: nothing is pushed and the action fails with `expfail`.
    Conversely the stack grows only in the first case.  On return from the body (`processing` set) the flag is
    cleared and nothing else happens. -/
theorem C08_if_only_when_state_matches (d : Dev) (a : Action) (o : Oracle) (e : ExecCtx) (body : List Stmt) (wantOn : Bool) :
    (e.processing = false → nodeState d a.arglist (ctxNode e.plugs) = (if wantOn then .on else .off) →
      (stmtIf d a o e body wantOn).act =
        { a with exec := bodyCtx body (some (e.plugs.getD [])) :: { e with processing := true } :: a.exec.drop 1 }) ∧
    (e.processing = false → nodeState d a.arglist (ctxNode e.plugs) = (if wantOn then .off else .on) →
      (stmtIf d a o e body wantOn).act = a) ∧
    (e.processing = false → nodeState d a.arglist (ctxNode e.plugs) = .unknown →
      (stmtIf d a o e body wantOn).act = { a with errnum := .expfail }) ∧
    (e.processing = true → (stmtIf d a o e body wantOn).act = setTop a { e with processing := false }) ∧
    (a.exec ≠ [] → (stmtIf d a o e body wantOn).act.exec.length > a.exec.length →
      e.processing = false ∧ nodeState d a.arglist (ctxNode e.plugs) = (if wantOn then .on else .off)) ∧
    ((stmtIf d a o e body wantOn).dev = d ∧ (stmtIf d a o e body wantOn).oracle = o ∧
      (stmtIf d a o e body wantOn).out = [] ∧ (stmtIf d a o e body wantOn).finished = true) :=
  ⟨stmtIf_taken d a o e body wantOn, stmtIf_skipped d a o e body wantOn, stmtIf_unknown d a o e body wantOn,
   stmtIf_return d a o e body wantOn, stmtIf_pushed_only_if d a o e body wantOn, stmtIf_frame d a o e body wantOn⟩

/-- non-vacuity: the arglist says node `n1` is on; `ifon` in the context of plug `p1 ↦ n1` sees state `on` -/
example :
    let d : Dev := { plugs := [], scripts := fun _ => none, timeout := 0, acts := [], toBuf := [], fromBuf := [],
                     xmStr := none, xmOffs := [], xmResult := false, xmUsed := false,
                     args := [(3, [⟨[110, 49], none, .on, .none⟩])], nextUid := 0, shortCircuitDelay := false }
    let a : Action := { (default : Action) with arglist := 3 }
    nodeState d a.arglist (ctxNode (some [⟨[112, 49], some [110, 49]⟩])) = .on := by decide

/-! ## A5  setplugstate / setresult -/

/-- **The first matching interpretation decides** (`regexec` seen as a function of pattern and subject): the state
    recorded is that of the first entry of the interpretation list, in list order, whose pattern matches the captured
    text; `unknown` when none does.  The same for `setresult`. -/
theorem C08_first_matching_interp (m : Nat → Bytes → Bool) (s : Bytes) (o : Oracle) :
    (∀ l : List (PState × Nat),
      (pickState (pureAsk m) s l o []).2.1 = ((l.find? fun i => m i.2 s).map (·.1)).getD .unknown) ∧
    (∀ l : List (PResult × Nat),
      (pickResult (pureAsk m) s l o []).2.1 = ((l.find? fun i => m i.2 s).map (·.1)).getD .unknown) :=
  ⟨fun l => by rw [pickState_pure], fun l => by rw [pickResult_pure]⟩

/-- the same against the recorded oracle the mirror really uses: the interpretations are tried in list order, one
    recorded `regexec` call each; if the calls for the first `n` interpretations answered "no match" and the next one
    "match", the state is that of interpretation number `n` and exactly `n+1` recorded calls have been consumed; if
    all answered "no match" the state is `unknown` -/
theorem C08_first_matching_interp_recorded (s : Bytes) (l : List (PState × Nat)) (pre post : List RxCall)
    (hpre : ∀ x ∈ pre, x.answer = none) :
    (∀ c (hlen : pre.length < l.length), c.answer.isSome = true →
      (pickState askRx s l ⟨pre ++ c :: post⟩ []).1 = ⟨post⟩ ∧
      (pickState askRx s l ⟨pre ++ c :: post⟩ []).2.1 = (l[pre.length]'hlen).1) ∧
    (pre.length = l.length →
      (pickState askRx s l ⟨pre ++ post⟩ []).1 = ⟨post⟩ ∧ (pickState askRx s l ⟨pre ++ post⟩ []).2.1 = .unknown) :=
  ⟨fun c hlen hc => pickState_first s l pre c post [] hpre hc hlen, fun hlen => pickState_nomatch s l pre post [] hpre hlen⟩

theorem C08_first_matching_result_recorded (s : Bytes) (l : List (PResult × Nat)) (pre post : List RxCall)
    (hpre : ∀ x ∈ pre, x.answer = none) :
    (∀ c (hlen : pre.length < l.length), c.answer.isSome = true →
      (pickResult askRx s l ⟨pre ++ c :: post⟩ []).1 = ⟨post⟩ ∧
      (pickResult askRx s l ⟨pre ++ c :: post⟩ []).2.1 = (l[pre.length]'hlen).1) ∧
    (pre.length = l.length →
      (pickResult askRx s l ⟨pre ++ post⟩ []).1 = ⟨post⟩ ∧ (pickResult askRx s l ⟨pre ++ post⟩ []).2.1 = .unknown) :=
  ⟨fun c hlen hc => pickResult_first s l pre c post [] hpre hc hlen, fun hlen => pickResult_nomatch s l pre post [] hpre hlen⟩

example : (pickState (pureAsk fun pat _ => pat == 2) [] [(.off, 1), (.on, 2), (.off, 2)] ⟨[]⟩ []).2.1 = .on := by decide

/-- **Which plug, which cell.**  The plug a `setplugstate` is about is named by the literal of the statement if there
    is one, else by the capture group if it took part in the last match, else by the script argument (the name of the
    context's first plug): `chosenName`.  If that name is a plug of this device mapped to a node (`findPlug`) and the
    status capture took part in the match, the action's argument list is rewritten by `writeState`: the cells whose node
    is that plug's node receive the chosen state and the captured text, every other cell is left exactly as it was, and
    no other argument list is touched.  If there is no name, no status capture, or the name is not a mapped plug of this
    device, nothing at all is written.  The statement always finishes and never changes the action.  (No hypothesis on
    `xm_used` any more: since the repair of `xregex_match_sub_strdup` a statement that runs before any `expect` finds no
    capture — `subOf` is `none` — and so falls under "nothing is written": `C07_set_before_expect_harmless`.) -/
theorem C08_setplugstate_writes (d : Dev) (a : Action) (o : Oracle) (e : ExecCtx) (lit : Option Bytes) (pm sm : Int)
    (is : List (PState × Nat)) :
    (∀ n, chosenName d (some n) pm (ctxName e.plugs) = some n) ∧
    (∀ n, subOf d pm = some n → chosenName d none pm (ctxName e.plugs) = some n) ∧
    (subOf d pm = none → chosenName d none pm (ctxName e.plugs) = ctxName e.plugs) ∧
    (∀ pn s plug, chosenName d lit pm (ctxName e.plugs) = some pn → subOf d sm = some s → findPlug d pn = some plug →
      (stmtSetplugstate d a o e lit pm sm is).dev =
        setArgs d a.arglist (writeState (getArgs d a.arglist) (plug.node.getD []) (pickState askRx s is o []).2.1 s) ∧
      getArgs (stmtSetplugstate d a o e lit pm sm is).dev a.arglist =
        writeState (getArgs d a.arglist) (plug.node.getD []) (pickState askRx s is o []).2.1 s ∧
      ∀ id, id ≠ a.arglist → getArgs (stmtSetplugstate d a o e lit pm sm is).dev id = getArgs d id) ∧
    ((chosenName d lit pm (ctxName e.plugs) = none ∨ subOf d sm = none ∨
        ∃ pn, chosenName d lit pm (ctxName e.plugs) = some pn ∧ findPlug d pn = none) →
      stmtSetplugstate d a o e lit pm sm is = ⟨d, a, o, [], true⟩) ∧
    (stmtSetplugstate d a o e lit pm sm is).act = a ∧ (stmtSetplugstate d a o e lit pm sm is).finished = true := by
  rw [stmtSetplugstate_eq]
  refine ⟨fun _ => rfl, ?_, ?_, ?_, setplugstateCore_nothing d a o _ lit pm sm is,
    (setplugstateCore_frame d a o _ lit pm sm is).1, (setplugstateCore_frame d a o _ lit pm sm is).2⟩
  · intro n h; simp [chosenName, h]
  · intro h; simp [chosenName, h]
  · intro pn s plug hn hs hp
    have h := (setplugstateCore_writes d a o _ lit pm sm is pn s plug hn hs hp).1
    refine ⟨h, ?_, ?_⟩
    · rw [h, getArgs_setArgs]
    · intro id hid; rw [h, getArgs_setArgs_ne _ _ _ _ hid]

/-- what `writeState` does to the cells: same length, same nodes; a cell of another node is untouched, a cell of the
    plug's node gets the state and the text -/
theorem C08_writeState_cells (as : List Arg) (node : Bytes) (st : PState) (s : Bytes) :
    (writeState as node st s).length = as.length ∧
    ∀ i (h : i < as.length),
      ((writeState as node st s)[i]?).map (·.node) = some as[i].node ∧
      (as[i].node ≠ node → (writeState as node st s)[i]? = some as[i]) ∧
      (as[i].node = node → (writeState as node st s)[i]? = some { as[i] with state := st, val := some s }) :=
  writeState_spec as node st s

/-- `findPlug`: the first plug of the device with that name, provided it is mapped to a node -/
theorem C08_findPlug (d : Dev) (pn : Bytes) (p : Plug) :
    findPlug d pn = some p ↔ d.plugs.find? (·.name == pn) = some p ∧ p.node.isSome = true := findPlug_some_iff d pn p

/-- `setresult`: plug by capture only; same cell discipline, with the result of the first matching interpretation; a
    result other than `success` for a node of this action is also reported to the client as a diagnostic -/
theorem C08_setresult_writes (d : Dev) (a : Action) (o : Oracle) (pm sm : Int) (is : List (PResult × Nat)) :
    (∀ pn s plug, subOf d pm = some pn → subOf d sm = some s → findPlug d pn = some plug →
      (stmtSetresult d a o pm sm is).dev =
        setArgs d a.arglist (writeResult (getArgs d a.arglist) (plug.node.getD []) (pickResult askRx s is o []).2.1 s) ∧
      (stmtSetresult d a o pm sm is).out = (pickResult askRx s is o []).2.2 ++
        resultDiag d a (plug.node.getD []) (pickResult askRx s is o []).2.1 s) ∧
    ((subOf d pm = none ∨ subOf d sm = none ∨ ∃ pn, subOf d pm = some pn ∧ findPlug d pn = none) →
      stmtSetresult d a o pm sm is = ⟨d, a, o, [], true⟩) ∧
    (stmtSetresult d a o pm sm is).act = a ∧ (stmtSetresult d a o pm sm is).finished = true := by
  refine ⟨?_, stmtSetresult_nothing d a o pm sm is, (stmtSetresult_frame d a o pm sm is).1,
    (stmtSetresult_frame d a o pm sm is).2⟩
  intro pn s plug hn hs hp
  have h := stmtSetresult_writes d a o pm sm is pn s plug hn hs hp
  exact ⟨h.1, h.2.2⟩

/-! ## A6  foreachplug / foreachnode -/

/-- **The iterator.**  `nextPlug isNode lst k _` is `pluglist_next` on an iterator standing at index `k` (repeated
    while the plug has no node, for `foreachnode`).  Called with the fuel `_process_foreach` gives it, it returns the
    first plug at or after `k` that is not skipped together with the index just behind it, and every plug in between
    is one that is skipped; it returns nothing exactly when no plug at or after `k` remains to be visited. -/
theorem C08_iterator_step (isNode : Bool) (lst : List Plug) (k : Nat) :
    match nextPlug isNode lst k (lst.length + 1) with
    | some (p, k') => k < k' ∧ k' ≤ lst.length ∧ lst[k' - 1]? = some p ∧ skipped isNode p = false ∧
        (∀ j, k ≤ j → j < k' - 1 → ∀ q, lst[j]? = some q → skipped isNode q = true) ∧
        (lst.drop k).filter (fun p => !skipped isNode p) = p :: (lst.drop k').filter (fun p => !skipped isNode p)
    | none => (lst.drop k).filter (fun p => !skipped isNode p) = [] :=
  nextPlug_spec isNode lst k (lst.length + 1) (by omega)

/-- **Once per plug, in plug order.**  Calling the iterator again and again from index 0 until it returns nothing
    (`visitFrom`) yields, for `foreachplug`, exactly the list; for `foreachnode`, exactly the sublist of plugs mapped
    to a node — each plug once, in list order. -/
theorem C08_foreach_in_order (lst : List Plug) :
    visitFrom false lst (lst.length + 1) 0 = lst ∧
    visitFrom true lst (lst.length + 1) 0 = lst.filter fun p => p.node.isSome :=
  ⟨visit_foreachplug lst, visit_foreachnode lst⟩

/-- **`_process_foreach`.**  The list is the device's plug list, or for a ranged script the context's own plugs (the
    targeted plugs; copied on first use).  If the iterator hands out plug `p`, the body is pushed as a new context whose
    only plug is `p` and the iterator position is stored; if it is exhausted nothing is pushed and the iterator is
    destroyed (`plugItr := none`), so that the next execution of this statement starts again at the first plug.
    Nothing is sent, read or asked. -/
theorem C08_foreach_step (d : Dev) (a : Action) (o : Oracle) (e : ExecCtx) (body : List Stmt) (isNode : Bool) :
    (∀ p k, nextPlug isNode (foreachList d a e) (e.plugItr.getD 0) ((foreachList d a e).length + 1) = some (p, k) →
      (stmtForeach d a o e body isNode).act =
        { a with exec := bodyCtx body (some [p]) :: { foreachCtx a e with plugItr := some k } :: a.exec.drop 1 }) ∧
    (nextPlug isNode (foreachList d a e) (e.plugItr.getD 0) ((foreachList d a e).length + 1) = none →
      (stmtForeach d a o e body isNode).act = setTop a { foreachCtx a e with plugItr := none }) ∧
    ((stmtForeach d a o e body isNode).dev = d ∧ (stmtForeach d a o e body isNode).oracle = o ∧
      (stmtForeach d a o e body isNode).out = [] ∧ (stmtForeach d a o e body isNode).finished = true) :=
  ⟨stmtForeach_next d a o e body isNode, stmtForeach_done d a o e body isNode, stmtForeach_frame d a o e body isNode⟩

/-- which list: not ranged — the device's plugs; ranged — on first use the context's plugs, afterwards the copy -/
theorem C08_foreach_list (d : Dev) (a : Action) (e : ExecCtx) :
    (isRanged a.com = false → foreachList d a e = d.plugs) ∧
    (isRanged a.com = true → e.plugItr = none → e.plugCopy = none → foreachList d a e = e.plugs.getD []) ∧
    (isRanged a.com = true → e.plugItr = none → e.plugCopy = none →
      (foreachCtx a e).plugCopy = some (e.plugs.getD [])) := by
  refine ⟨?_, ?_, ?_⟩
  · intro h; simp [foreachList, h]
  · intro h h1 h2; simp [foreachList, h, h1, h2]
  · intro h h1 h2; simp [foreachCtx, h, h1, h2]

/-- non-vacuity: three plugs, the middle one unmapped — `foreachnode` visits the first and the third -/
example : visitFrom true [⟨[1], some [9]⟩, ⟨[2], none⟩, ⟨[3], some [8]⟩] 4 0 = [⟨[1], some [9]⟩, ⟨[3], some [8]⟩] := by
  decide

/-! ## B  the context stack refines a loop-free reference

The reference (`Pm/InterpSim.lean`): `unroll R dp script plugs` flattens a script into a list of operations `FOp` —
every `foreach` replaced by one copy of its body per plug, every `ifon`/`ifoff` by a guarded block — and `fstep`
executes such a list with a single program counter (`F.rem`, the rest of the program) and one flag (`F.inflight`: the
first operation, a send or a delay, has been started).  `abs R dp stack` is the flat program a stack of `ExecCtx`
stands for.  `R` = the script is a ranged one, `dp` = the plugs of the device. -/

/-- **What the flat program is.**  Statement by statement: a send carries its final text (A1), a setplugstate its
    script argument, `foreachplug` is the body once per plug of the list — the device's plugs, or in a ranged script the
    plugs of the enclosing context, i.e. the targeted plugs — each copy with that one plug as its context; `foreachnode`
    the same over the plugs mapped to a node; `ifon`/`ifoff` a guard on the node of the context's first plug. -/
theorem C08_unroll (R : Bool) (dp : List Plug) (pl : Option (List Plug)) :
    (∀ s r, unroll R dp (s :: r) pl = unrollStmt R dp s pl ++ unroll R dp r pl) ∧ unroll R dp [] pl = [] ∧
    (∀ fmt, unrollStmt R dp (.send fmt) pl = [.send (sendText fmt pl)]) ∧
    (∀ p, unrollStmt R dp (.expect p) pl = [.expect p]) ∧
    (∀ us, unrollStmt R dp (.delay us) pl = [.delay us]) ∧
    (∀ l pm sm is, unrollStmt R dp (.setplugstate l pm sm is) pl = [.setplugstate l pm sm is (ctxName pl)]) ∧
    (∀ pm sm is, unrollStmt R dp (.setresult pm sm is) pl = [.setresult pm sm is]) ∧
    (∀ b, unrollStmt R dp (.foreachplug b) pl =
        (if R then pl.getD [] else dp).flatMap fun p => unroll R dp b (some [p])) ∧
    (∀ b, unrollStmt R dp (.foreachnode b) pl =
        ((if R then pl.getD [] else dp).filter fun p => p.node.isSome).flatMap fun p => unroll R dp b (some [p])) ∧
    (∀ b, unrollStmt R dp (.ifon b) pl = [.guard true (ctxNode pl) (unroll R dp b (some (pl.getD [])))]) ∧
    (∀ b, unrollStmt R dp (.ifoff b) pl = [.guard false (ctxNode pl) (unroll R dp b (some (pl.getD [])))]) := by
  refine ⟨fun s r => unroll_cons R dp s r pl, unroll_nil R dp pl, ?_, ?_, ?_, ?_, ?_, ?_, ?_, ?_, ?_⟩
  · intro fmt; simp [unrollStmt]
  · intro p; simp [unrollStmt]
  · intro us; simp [unrollStmt]
  · intro l pm sm is; simp [unrollStmt]
  · intro pm sm is; simp [unrollStmt]
  · intro b
    have hft : ∀ l : List Plug, l.filter (fun _ => true) = l := fun l => by induction l <;> simp_all
    simp [unrollStmt, eachList, skipped, hft]
  · intro b
    simp only [unrollStmt, eachList, skipped, Bool.true_and]
    congr 2; funext p; cases p.node <;> rfl
  · intro b; simp [unrollStmt]
  · intro b; simp [unrollStmt]

/-- **One micro-step** (`mstep`: one `_process_stmt`, then the bookkeeping `_process_action` does with its answer) of a
    well-formed configuration is either invisible to the reference — pushing a `foreach` body, popping a finished block,
    iterator bookkeeping, returning from an `if`: no output, no change of device or oracle, and the stack denotes the
    same program as before — or it is exactly one `fstep` of the reference on the program the stack denotes: same new
    device state, oracle, output, action fields and outcome, and (unless the action failed or the daemon stopped) the
    new stack denotes the reference's new program.  The configuration stays well-formed. -/
theorem C08_micro_step (R : Bool) (dp : List Plug) (now : Time) (d : Dev) (a : Action) (o : Oracle)
    (hne : a.exec ≠ []) (hinv : Inv R dp d a) :
    Sim R dp now d a o (mstep now d a o) ∧
    ((mstep now d a o).status = .running ∨ (mstep now d a o).status = .stalled →
      Inv R dp (mstep now d a o).dev (mstep now d a o).act) := by
  obtain ⟨h1, h2⟩ := mstep_sim R dp now d a o hne hinv.ranged hinv.plugs hinv.ok hinv.err
  have hf := mstep_frame now d a o
  exact ⟨h1, fun h => ⟨by rw [hf.2.2.2.1]; exact hinv.ranged, by rw [hf.1]; exact hinv.plugs, (h2 h).1, (h2 h).2⟩⟩

/-- **Runs.**  Any number of micro-steps from a well-formed configuration — any script (blocks non-empty), plug list, argument list, device input, oracle answers, time, any point at which earlier passes left the
    action — is a run of at most as many steps of the loop-free reference on the program the stack denotes: same device
    state, same oracle consumption, same output records in the same order, same outcome; and where it stops without
    failing, the stack again denotes what the reference has left, and is well-formed. -/
theorem C08_refines_run (R : Bool) (dp : List Plug) (now : Time) (n : Nat) (d : Dev) (a : Action) (o : Oracle)
    (acc : List Out) (hinv : Inv R dp d a) :
    ∃ k, k ≤ n ∧ RunSim R dp (mrun now n d a o acc) (frun now k d (info a) o (abs R dp a.exec) acc) :=
  refines_run R dp now n d a o acc hinv

/-- **A pass of `_process_action` is such a run.**  For the action at the head of the queue in the running situation
    (`HeadOK`: pass not aborted, device connected, action stamped and within its time-out, `wake` clear, configuration
    well-formed) the mirror `processActionF` computes exactly what `headResult` makes of a run `mrun` of micro-steps:
    stalled — the action goes back to the head of the queue and the time-out is updated; failed — `failAll`;
    daemon assertion — the pass is aborted; completed — the action is dequeued, reported, and the loop goes on with the
    queue behind it. -/
theorem C08_pass_is_run (R : Bool) (dp : List Plug) (fuel : Nat) (c : CS) (a : Action) (rest : List Action) (o : Oracle)
    (out : List Out) (tmo : Option Time) (h : HeadOK R dp c a) (hacts : c.dev.acts = a :: rest) :
    ∃ N fuel', processActionF fuel c o out tmo =
      headResult rest c tmo (timeLeft c a) fuel' (mrun c.env.now N c.dev a o out) :=
  pass_is_run R dp fuel c a rest o out tmo h hacts

/- Hypotheses of `C08_refines`, all inside `Inv R dp c.dev a0` (= `StackOK`, `errnum = success`):
   * `neBlock`: every block of every context has non-empty nested blocks.  Still needed: the grammar of device files
     (`stmt_block : '{' stmt_list '}'` with `stmt_list` non-empty) guarantees it; with an empty block the C code
     dereferences `e->cur == NULL` and the mirror reports `abortAssert "cur == NULL"`, which no flat program does.
   * the flags of the contexts are consistent (`CtxOK`, `ParentOK`) and `errnum = success`: true of every fresh action
     (`C08_initial`), kept by every step (`C08_micro_step`), restored by `_rewind_action` (`C08_rewind`).
   There is no hypothesis on the nesting depth any more: `onRun` runs `innerLoop` with `loopBound a` =
   `depthB (topCtx a).block + 1` iterations of fuel, and the `do … while` pushes at most `depthB` contexts in a row
   (`innerLoop_trip`, `topDepth_le` in `Pm/InterpPass.lean`), as the unbounded C loop does. -/

/-- **C08, refinement.**  One pass of `_process_action` over a queue
    whose head `a0` is to be run — pass not aborted, device connected, action within its time-out — and is well-formed:
    the mirror's result is what `headResult` makes of a run of the *loop-free reference* on the flat program the
    action's stack denotes: same device state, same oracle consumption, same output records (bytes sent, telemetry,
    diagnostics) in the same order, same outcome; `a'` is the action as it goes back into the queue: its fields are the
    reference's, and unless it failed its stack denotes what the reference has left of the program and is well-formed,
    so that the next pass is again covered.  All statement kinds, any nesting depth, any plug list, argument list,
    device input, oracle answers and time; blocks non-empty (as the grammar of device files guarantees). -/
theorem C08_refines (R : Bool) (dp : List Plug) (fuel : Nat) (c : CS) (a0 : Action) (rest : List Action)
    (o : Oracle) (out : List Out) (tmo : Option Time)
    (hnab : c.aborted = false) (hacts : c.dev.acts = a0 :: rest) (hconn : c.dev.conn = 2)
    (hin : c.env.now < (stamp c.env.now a0).timeStamp.getD c.env.now + c.dev.timeout)
    (hinv : Inv R dp c.dev a0) (hne : a0.exec ≠ []) :
    ∃ k fuel' a',
      let fr := frun c.env.now k { c.dev with wake := none } (info a0) o (abs R dp a0.exec) out
      processActionF (fuel + 1) c o out tmo =
        headResult rest c tmo (timeLeft c (stamp c.env.now a0)) fuel' (asMR fr a') ∧
      fr.info = info a' ∧ a'.com = a0.com ∧
      (fr.status = .stalled ∨ fr.status = .done ∨ fr.status = .running →
        fr.f = abs R dp a'.exec ∧ Inv R dp fr.dev a') :=
  pass_refines R dp fuel c a0 rest o out tmo hnab hacts hconn hin hinv hne

/-- the hypotheses hold for a fresh action on a script that uses every statement kind, in a queue of a connected device -/
example : ∃ k fuel' a',
    let fr := frun 5 k { (exCS exScript).dev with wake := none } (info (exAction exScript none)) ⟨[]⟩
                (abs false (exCS exScript).dev.plugs (exAction exScript none).exec) []
    processActionF 100 (exCS exScript) ⟨[]⟩ [] none =
      headResult [] (exCS exScript) none (timeLeft (exCS exScript) (stamp 5 (exAction exScript none))) fuel' (asMR fr a') ∧
    fr.info = info a' ∧ a'.com = 1 ∧
    (fr.status = .stalled ∨ fr.status = .done ∨ fr.status = .running →
      fr.f = abs false (exCS exScript).dev.plugs a'.exec ∧ Inv false (exCS exScript).dev.plugs fr.dev a') :=
  C08_refines false (exCS exScript).dev.plugs 99 (exCS exScript) (exAction exScript none) [] ⟨[]⟩ [] none
    rfl rfl rfl (by decide) (exInv exScript exScript_good []) (by decide)

/-- **The fuel of the mirror's inner loop is never the limit, and replacing the former literal 64 changed nothing where
    64 was enough.**  For a well-formed configuration `innerLoop` gives the same result for every fuel that covers the
    nesting depth of the statement the action stands at; `loopBound a` always does; so whenever that depth is at most 64
    the mirror computes what it computed before, and beyond 64 it goes on as the unbounded C loop does. -/
theorem C08_loop_fuel (R : Bool) (dp : List Plug) (now : Time) (d : Dev) (a : Action) (o : Oracle) (acc : List Out)
    (hinv : Inv R dp d a) (hne : a.exec ≠ []) :
    topDepth a ≤ loopBound a ∧
    (∀ f, topDepth a ≤ f → innerLoop now f d a o acc = innerLoop now (loopBound a) d a o acc) ∧
    (topDepth a ≤ 64 → innerLoop now (loopBound a) d a o acc = innerLoop now 64 d a o acc) :=
  ⟨topDepth_le a, fun f hf => innerLoop_fuel_irrelevant R dp now f (loopBound a) d a o acc hinv hne hf (topDepth_le a),
   fun h => innerLoop_fuel_irrelevant R dp now (loopBound a) 64 d a o acc hinv hne (topDepth_le a) h⟩

/-- **A fresh action is well-formed** and denotes the unrolling of its whole script (non-empty blocks, any nesting depth). -/
theorem C08_initial (R : Bool) (dp : List Plug) (script : List Stmt) (plugs : Option (List Plug))
    (hne : script ≠ []) (hnb : neBlock script = true) :
    StackOK R [bodyCtx script plugs] ∧ abs R dp [bodyCtx script plugs] = ⟨unroll R dp script plugs, false⟩ :=
  initial_ok R dp script plugs hne hnb

/-- **`_rewind_action` restores well-formedness** (after the repair of F5): the pre-empted action is again a fresh
    action on its outer block and denotes the unrolling of the whole script. -/
theorem C08_rewind (R : Bool) (dp : List Plug) (a : Action) (h : StackOK R a.exec) (hne : a.exec ≠ []) :
    ∃ outer, a.exec.getLast? = some outer ∧ StackOK R (rewind a).exec ∧
      abs R dp (rewind a).exec = ⟨unroll R dp outer.block outer.plugs, false⟩ ∧
      (rewind a).errnum = a.errnum ∧ (rewind a).com = a.com :=
  rewind_ok R dp a h hne

/-- regression (formerly `C08_refines_counterexample`: the mirror's inner loop stopped after 64 pushes, and the
    following `advance` stepped over the first statement of the innermost body, so that `y` was sent and never `x`):
    for the script `send "x"; send "y"` wrapped in 65 — or 200 — nested `foreachplug`, on a device with one mapped plug,
    one pass of the mirror now sends `x`, exactly as the reference does; and nothing changed at 64 levels -/
example :
    sents (processActionF 200 (exCS (exNest 65)) ⟨[]⟩ [] none).2.2.1 = [[120]] ∧
    sents (frun 5 200 (exDev (exNest 65) []) (info (exAction (exNest 65) none)) ⟨[]⟩
      (abs false (exDev (exNest 65) []).plugs [bodyCtx (exNest 65) none]) []).out = [[120]] ∧
    sents (processActionF 400 (exCS (exNest 200)) ⟨[]⟩ [] none).2.2.1 = [[120]] ∧
    sents (processActionF 200 (exCS (exNest 64)) ⟨[]⟩ [] none).2.2.1 = [[120]] :=
  ⟨depth65_mirror, depth65_reference, depth200_mirror, depth64_mirror⟩

/-- the refinement theorem applies to the 65-deep script: its fresh action is well-formed -/
example : Inv false (exDev (exNest 65) []).plugs (exDev (exNest 65) []) (exAction (exNest 65) none) :=
  exInv (exNest 65) (by decide +kernel) []

/-! ## C  what is sent is the script -/

/-- **C08, sends.**  `Completes R dp a ss`: the action `a` runs, pass after pass, without being pre-empted, to its
    successful completion, each pass being a run of micro-steps on whatever device state, oracle and time that pass
    finds, and `ss` are the payloads of the `Out.sent` records of all passes, in order.  For a fresh action on `script`
    they form a path through the unrolled script (`Path`): every send text of the flat program in program order —
    `foreach` bodies once per plug in plug order — with every guarded block either run in full or not at all, and no
    other text. -/
theorem C08_sends_are_script (R : Bool) (dp : List Plug) (a : Action) (script : List Stmt) (plugs : Option (List Plug))
    (ss : List Bytes) (hfresh : a.exec = [bodyCtx script plugs]) (h : Completes R dp a ss) :
    Path (unroll R dp script plugs) ss :=
  sends_are_script R dp a script plugs ss hfresh h

/-- … and for a script without `ifon`/`ifoff` (at any depth) they are exactly the send texts of the unrolled script,
    in program order; the bytes sent are their concatenation -/
theorem C08_sends_are_script_noif (R : Bool) (dp : List Plug) (a : Action) (script : List Stmt) (plugs : Option (List Plug))
    (ss : List Bytes) (hfresh : a.exec = [bodyCtx script plugs]) (h : Completes R dp a ss)
    (hno : noIfB script = true) :
    ss = sendTexts (unroll R dp script plugs) ∧ ss.flatten = (sendTexts (unroll R dp script plugs)).flatten :=
  sends_are_script_noif R dp a script plugs ss hfresh h (guardFree_unroll R dp script plugs hno)

/-- the passes of `Completes` are what `_process_action` does: see `C08_pass_is_run`; the output a pass adds to what
    was there before is the output of the run started with an empty list -/
theorem C08_run_output (now : Time) (n : Nat) (d : Dev) (a : Action) (o : Oracle) (acc : List Out) :
    mrun now n d a o acc = { mrun now n d a o [] with out := acc ++ (mrun now n d a o []).out } :=
  mrun_acc now n d a o acc

/-- non-vacuity: the script `send "x"` completes in two passes (the second after the buffer has drained) and has then
    sent exactly `x` — which is what the theorem says it must be -/
example : Completes false (exDev [.send [120]] []).plugs (exAction [.send [120]] none) [[120]] ∧
    sendTexts (unroll false (exDev [.send [120]] []).plugs [.send [120]] none) = [[120]] :=
  ⟨exCompletes, by decide +kernel⟩

end Pm.Props.C08
