import Pm.Dev2Login
/-! # C10 — one conversation at a time per device, and login comes first

Ranking: login is the head while connected and not logged in (inductive core: done for connect, reconnect and
`_process_action`) ▸ the same through `_handle_ready_device`, client enqueue and ping ▸ head-only sends ▸ FIFO completions. -/
namespace Pm.Props.C10
open Pm.Dev2

/-- connecting (either transport) establishes the invariant -/
theorem C10_connect_establishes (c : CS) (h0 : c.dev.conn = 0) (hna : (connectDev c).aborted = false) :
    LoginHead (connectDev c).dev := connectDev_loginHead c h0 hna

/-- a pass of `_process_action` that does not end in a modelled abort keeps it — for every fuel, queue, script,
    oracle answer and kernel answer: as long as the device is connected and not logged in, the only action that can
    run (the head) is the login action -/
theorem C10_login_first_preserved (fuel : Nat) (c : CS) (o : Oracle) (out : List Out) (tmo : Option Time)
    (h : LoginHead c.dev) (hna : (processActionF fuel c o out tmo).1.aborted = false) :
    LoginHead (processActionF fuel c o out tmo).1.dev :=
  loginHead_preserved fuel c o out tmo h hna

end Pm.Props.C10
