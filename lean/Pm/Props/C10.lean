import Pm.Dev2Login2
import Pm.ToBufProof
/-! # C10 — one conversation at a time per device, and login comes first

"On each device connection powerman runs scripts strictly one after another in request order: it never sends bytes
belonging to a different action while the current script is still waiting for its expected reply, and completions
are reported in that order.  After every connection or reconnection the login script runs to completion before any
other script sends anything on that connection."

Property theorems only; the helper lemmas live in `Pm/Dev2Login.lean` and `Pm/Dev2Login2.lean`.  The model they speak
about (`Pm.Dev2`, `Pm.Daemon.enqueue`) is the mirror of `device.c` + `device_tcp.c` + `device_pipe.c` compared with the
real functions on every run of the check.  Every theorem is for all queues, scripts, fuel, kernel answers (`Env`) and
regex answers (`Oracle`); no bounds.

Sections: 1 login first (the invariant, everywhere) ▸ 2 FIFO completions ▸ 3 only the head of the queue sends ▸
4 what is in the output buffer (telnet replies included).

Vocabulary (all defined in the helper modules, none changes the model):
* `LoginHead d` — if `d` is CONNECTED (`conn = 2`) and not logged in, the head of `d.acts` is the login action (`com = 0`).
* `Reach d0 d` — `d` is obtained from `d0` by any sequence of: `connectDev` on a NOT_CONNECTED device
  (`dev_initial_connect`), `postPoll` passes that do not end in a modelled abort, `Pm.Daemon.enqueue` calls, and the two
  field updates `Pm.Daemon` makes (`args := store`, `retryCount := 0`).
* `finishesOf out` — client ids of the `Out.finish` entries of `out`, in order; `clientIds acts` — client ids of the
  client actions (`clientId ≠ 0`) of a queue, in order; `sentsOf out` — payloads of the `Out.sent` entries, in order;
  `sentBytes out` — their concatenation.
* `bodyStep c o out tmo` — one iteration of the `while` loop of `_process_action`, returning the state and a flag
  "the loop goes on" (`C10_process_action_is_iterated_step` is the proof that this reading is right);
  `iterStates fuel c o out tmo` — the states in which the iterations of one run begin;
  `speaker c` — the action whose statements an iteration starting in `c` executes, if any;
  `spoken c o` — the output of the statement interpreter (`innerLoop`) in that iteration. -/
namespace Pm.Props.C10
open Pm.Dev2
open Pm.Dev2.Login2

/-! ## 1. login first -/

/-- connecting (either transport) establishes the invariant -/
theorem C10_connect_establishes (c : CS) (h0 : c.dev.conn = 0) (hna : (connectDev c).aborted = false) :
    LoginHead (connectDev c).dev := connectDev_loginHead c h0 hna

/-- a pass of `_process_action` that does not end in a modelled abort keeps it — for every fuel, queue, script,
    oracle answer and kernel answer: as long as the device is connected and not logged in, the only action that can
    run (the head) is the login action -/
theorem C10_login_first_preserved (fuel : Nat) (c : CS) (o : Oracle) (out : List Out) (tmo : Option Time)
    (h : LoginHead c.dev) (hna : (processActionF fuel c o out tmo).1.aborted = false) :
    LoginHead (processActionF fuel c o out tmo).1.dev :=
  loginHead_preserved fuel c o out tmo h hna

/-- `_handle_ready_device` keeps the invariant, whatever the kernel reports (hang-up, error, a finished or failed
    non-blocking connect, a write, a read through the telnet filter) — aborted or not.  When it completes a connect,
    the login action is put in front of the queue at that moment. -/
theorem C10_handle_ready_keeps_login_first (c : CS) (h : LoginHead c.dev) : LoginHead (handleReady c).1.dev :=
  handleReady_loginHead c h

/-- non-vacuity: a CONNECTING device whose connect completes in this call — afterwards it is CONNECTED, not logged in,
    and the login action (script 0) is the queue -/
example : LoginHead Ex.connecting ∧ Ex.connecting.conn = 1 ∧
    (handleReady { dev := Ex.connecting, env := Ex.envOut, sys := [] }).1.dev.conn = 2 ∧
    (handleReady { dev := Ex.connecting, env := Ex.envOut, sys := [] }).1.dev.loggedIn = false ∧
    (handleReady { dev := Ex.connecting, env := Ex.envOut, sys := [] }).1.dev.acts.map (·.com) = [0] :=
  ⟨LoginHead.of_not_connected (by decide), by decide, by decide, by decide, by decide⟩

/-- appending actions behind the queue (this is what `_enqueue_ping` does inside `dev_post_poll`, with the ping
    action and `lastPing`) keeps the invariant -/
theorem C10_append_keeps_login_first (d : Dev) (l : List Action) (t : Option Time) (h : LoginHead d) :
    LoginHead { d with acts := d.acts ++ l, lastPing := t } :=
  h.append l rfl rfl rfl

/-- a client command (`dev_enqueue_actions`: any command, targets, client) keeps the invariant: its actions go behind
    the head -/
theorem C10_enqueue_keeps_login_first (d : Dev) (com : Nat) (targets : List Bytes) (cid : Nat) (tele : Bool) (al : Nat)
    (h : LoginHead d) : LoginHead (Pm.Daemon.enqueue d com targets cid tele al).1 :=
  enqueue_loginHead d com targets cid tele al h

/-- non-vacuity: a client `off` enqueued on a device that has just connected lands behind the login -/
example : Ex.connected.conn = 2 ∧ Ex.connected.loggedIn = false ∧ Ex.fresh.acts.map (·.com) = [0, 10] := by
  decide +kernel

/-- the whole of `dev_post_poll` (descriptor events, reconnect, ping, `_process_action`) keeps the invariant when the
    pass does not end in a modelled abort (an assertion of the C program, a kernel or regex answer the harness did
    not supply, fuel) -/
theorem C10_post_poll_keeps_login_first (d : Dev) (env : Env) (o : Oracle) (h : LoginHead d)
    (hna : (postPoll d env o).1.aborted = false) : LoginHead (postPoll d env o).1.dev :=
  postPoll_loginHead d env o h hna

/-- non-vacuity: a pass on the freshly connected device does not abort, the device stays connected and not logged in
    (the login's `send` is waiting to be flushed) -/
example : (postPoll Ex.fresh Ex.env0 ⟨[]⟩).1.aborted = false ∧ (postPoll Ex.fresh Ex.env0 ⟨[]⟩).1.dev.conn = 2 ∧
    (postPoll Ex.fresh Ex.env0 ⟨[]⟩).1.dev.loggedIn = false := by decide +kernel

/-- **Login first, everywhere.**  In every state reachable from a NOT_CONNECTED, logged-out device:
    a CONNECTED device has either completed a login on this connection (`loggedIn`, which only the completion of a
    `com = 0` action sets) or has the login action at the head of its queue — so the login script is the one that
    runs; and a device that is not CONNECTED is logged out, so every new connection starts in the second case. -/
theorem C10_login_first_everywhere (d0 d : Dev) (h : Reach d0 d) (hc : d0.conn = 0) (hl : d0.loggedIn = false) :
    (d.conn = 2 → d.loggedIn = true ∨ ∃ a r, d.acts = a :: r ∧ a.com = 0) ∧ (d.conn ≠ 2 → d.loggedIn = false) :=
  h.login_first hc hl

/-- the same as the invariant alone (needs only `conn = 0` initially) -/
theorem C10_login_head_everywhere (d0 d : Dev) (h : Reach d0 d) (hc : d0.conn = 0) : LoginHead d := h.loginHead hc

/-- non-vacuity: initial connect, a client command, a pass — reachable, connected, not logged in -/
example : Reach Ex.dev0 (postPoll Ex.fresh Ex.env0 ⟨[]⟩).1.dev ∧ Ex.dev0.conn = 0 ∧ Ex.dev0.loggedIn = false :=
  ⟨Reach.pass _ _ _ (Reach.enqueue _ _ _ _ _ _ (Reach.connect _ _ Reach.init (by decide) (by decide))) (by decide +kernel),
   by decide, by decide⟩

/-- `Reach` covers what the daemon does: a device pass of `Pm.Daemon.devPass` after which the daemon is alive leaves
    the device in a state reachable from the one it had … -/
theorem C10_reach_covers_devPass (p : Pm.Daemon.PassIn) (a : Pm.Daemon.DevAcc) (nd : Bytes × Dev) (d0 : Dev)
    (h : Reach d0 nd.2) (hd : (Pm.Daemon.devPass p a nd).dead = false) :
    ∃ d', (Pm.Daemon.devPass p a nd).devs = a.devs ++ [(nd.1, d')] ∧ Reach d0 d' :=
  devPass_reach p a nd d0 h hd

/-- … and so does a client command installed by `Pm.Daemon.install`, for every device of the daemon -/
theorem C10_reach_covers_install (w : Pm.Daemon.W) (c : Pm.Daemon.Cli) (com : Pm.Client.Com) (names : List Pm.Name) :
    ∀ x ∈ (Pm.Daemon.install w c com names).1.devs,
      ∃ nd ∈ w.devs, x.1 = nd.1 ∧ ∀ d0, Reach d0 nd.2 → Reach d0 x.2 :=
  install_reach w c com names

/-! ## 2. completions are reported in request order -/

/-- **FIFO, one run of `_process_action`.**  The completions the run adds to the output are, in order, client actions
    that left the *front* of the queue (`l`), and the client actions still queued afterwards are the rest in the same
    order.  So if an earlier and a later action of the queue both complete in this run, the earlier one is reported
    first; no action is reported while it stays queued; none leaves the queue unreported.  Positions, not `uid`s
    (which are not unique in the model).  Holds for aborted runs too. -/
theorem C10_fifo_run (fuel : Nat) (c : CS) (o : Oracle) (out : List Out) (tmo : Option Time) :
    ∃ l, finishesOf (processActionF fuel c o out tmo).2.2.1 = finishesOf out ++ l ∧
         l ++ clientIds (processActionF fuel c o out tmo).1.dev.acts = clientIds c.dev.acts :=
  processActionF_fifo fuel c o out tmo

/-- the same as a prefix statement -/
theorem C10_fifo_run_prefix (fuel : Nat) (c : CS) (o : Oracle) (out : List Out) (tmo : Option Time) :
    ∃ n, finishesOf (processActionF fuel c o out tmo).2.2.1 = finishesOf out ++ (clientIds c.dev.acts).take n :=
  processActionF_fifo_prefix fuel c o out tmo

/-- **FIFO, a whole `dev_post_poll` pass**: descriptor events, reconnect (which puts a login action in front and drops
    an interrupted one) and the ping leave the client actions of the queue alone; the completions of the pass are a
    prefix of them.  Hypothesis `NoClientLogin`: no *client* action uses script slot 0 — `_disconnect` drops a head with
    `com = 0` without reporting it (`C10_fifo_needs_no_client_login_counterexample`); `dev_enqueue_actions` never
    creates one (`enqueue_spec`, and `Pm.Daemon.comIdx` is never 0). -/
theorem C10_fifo_pass (d : Dev) (env : Env) (o : Oracle) (h : NoClientLogin d) :
    NoClientLogin (postPoll d env o).1.dev ∧
    finishesOf (postPoll d env o).2.2.1 ++ clientIds (postPoll d env o).1.dev.acts = clientIds d.acts :=
  postPoll_fifo d env o h

/-- the hypothesis of `C10_fifo_pass` is needed: a client action (client 9) with script slot 0 at the head of a
    connected device is dropped by `_disconnect` (here after a hang-up) without any completion being reported -/
theorem C10_fifo_needs_no_client_login_counterexample :
    let d : Dev := { Ex.ready with acts := [{ loginAction Ex.ready with clientId := 9 }] }
    let env : Env := { Ex.env0 with revents := 4, sockets := [], connects := [] }
    clientIds d.acts = [9] ∧ finishesOf (postPoll d env ⟨[]⟩).2.2.1 = [] ∧ clientIds (postPoll d env ⟨[]⟩).1.dev.acts = [] := by
  decide +kernel

/-- **FIFO over a whole history** (`runHist`: passes, client commands, initial connect, the daemon's two field
    updates, in any order): at every moment, the completions reported so far, in order, followed by the client
    actions still queued, in queue order, equal the client actions queued at the start followed by the client actions
    enqueued since, in request order.  Completions are therefore reported in request order, exactly once each.
    `Ev.ok`: client commands carry a client id `≠ 0` and a command `≠ 0` (slot 0 is the login script). -/
theorem C10_fifo_history (evs : List Ev) (d : Dev) (h : NoClientLogin d) (hev : ∀ e ∈ evs, e.ok) :
    (runHist d evs).2.1 ++ clientIds (runHist d evs).1.acts = clientIds d.acts ++ (runHist d evs).2.2 :=
  runHist_fifo evs d h hev

/-- non-vacuity: clients 1 and 2 ask `on` (a script that finishes at once), client 3 asks `off` (a script that waits);
    one pass reports 1 then 2, and 3 stays queued -/
example : NoClientLogin Ex.ready ∧ (∀ e ∈ Ex.hist, e.ok) ∧
    (runHist Ex.ready Ex.hist).2.1 = [1, 2] ∧ (runHist Ex.ready Ex.hist).2.2 = [1, 2, 3] ∧
    clientIds (runHist Ex.ready Ex.hist).1.acts = [3] :=
  ⟨fun a ha => by simp [Ex.ready, Ex.dev0] at ha, fun e he => by
      simp only [Ex.hist, List.mem_cons, List.not_mem_nil, or_false] at he
      rcases he with rfl | rfl | rfl | rfl <;> simp [Ev.ok],
   by decide +kernel, by decide +kernel, by decide +kernel⟩

/-- non-vacuity for the error branch: the login of the freshly connected device times out in the second pass; the
    client action behind it (client 3) is reported, the queue holds no client action any more -/
example : (runHist Ex.fresh [.pass Ex.env0 ⟨[]⟩, .pass Ex.envLate ⟨[]⟩]).2.1 = [3] ∧
    clientIds (runHist Ex.fresh [.pass Ex.env0 ⟨[]⟩, .pass Ex.envLate ⟨[]⟩]).1.acts = [] := by decide +kernel

/-! ## 3. only the head of the queue sends -/

/-- `_process_action` is the iteration of `bodyStep`: run one iteration; if it says "go on", continue from the state it
    returns, else that state is the result.  (This is what makes `bodyStep`, `iterStates`, `speaker`, `spoken` —
    definitions of the proof, not of the model — say something about the model.) -/
theorem C10_process_action_is_iterated_step (fuel : Nat) (c : CS) (o : Oracle) (out : List Out) (tmo : Option Time) :
    processActionF (fuel + 1) c o out tmo =
      if (bodyStep c o out tmo).2 then
        processActionF fuel (bodyStep c o out tmo).1.1 (bodyStep c o out tmo).1.2.1 (bodyStep c o out tmo).1.2.2.1
          (bodyStep c o out tmo).1.2.2.2
      else (bodyStep c o out tmo).1 :=
  processActionF_succ fuel c o out tmo

/-- whoever speaks in an iteration is the head of the queue at that moment (with its time stamp set), on a
    CONNECTED device, in a loop that is not aborted -/
theorem C10_speaker_is_head (c : CS) (a : Action) (h : speaker c = some a) :
    ∃ a0 rest, c.dev.acts = a0 :: rest ∧ a = stamp c.env.now a0 ∧ c.dev.conn = 2 ∧ c.aborted = false :=
  speaker_is_head c a h

/-- **One iteration sends exactly what the statement interpreter, applied to the head of the queue, sends.**
    Nothing else in an iteration — time-out telemetry, completions, the error branch with its reconnect — produces an
    `Out.sent`; and when there is no speaker (empty queue, aborted, deadline passed, not connected) nothing is sent. -/
theorem C10_iteration_sends_what_head_says (c : CS) (o : Oracle) (out : List Out) (tmo : Option Time) :
    sentsOf (bodyStep c o out tmo).1.2.2.1 = sentsOf out ++ sentsOf (spoken c o) :=
  bodyStep_sents c o out tmo

/-- **Only the head speaks, one run of `_process_action`**: everything the run sends is, in order, what the heads of
    the successive iterations said. -/
theorem C10_run_sends_what_heads_say (fuel : Nat) (c : CS) (o : Oracle) (out : List Out) (tmo : Option Time) :
    sentsOf (processActionF fuel c o out tmo).2.2.1 =
      sentsOf out ++ (iterStates fuel c o out tmo).flatMap fun s => sentsOf (spoken s.1 s.2) :=
  processActionF_sents fuel c o out tmo

/-- what an iteration says depends on the head only: the actions queued behind it can be replaced by any others
    without changing the output of the interpreter (it is handed the device record, which contains the queue, but
    never looks at it) -/
theorem C10_rest_of_queue_is_not_consulted (c : CS) (o : Oracle) (a0 : Action) (rest rest' : List Action)
    (h : c.dev.acts = a0 :: rest) :
    spoken { c with dev := { c.dev with acts := a0 :: rest' } } o = spoken c o :=
  spoken_rest_indep c o a0 rest rest' h

/-- **A head that is waiting blocks everything behind it.**  If the head's statement did not finish in this iteration
    (an `expect` whose reply has not arrived, a `send` not yet flushed, a `delay` not yet over), the loop ends — no
    other action is looked at in this pass, so none can send — and the head, as the interpreter left it, is still
    the head for the next pass. -/
theorem C10_waiting_head_blocks (c : CS) (o : Oracle) (out : List Out) (tmo : Option Time) (a : Action)
    (hs : speaker c = some a)
    (hst : (innerLoop c.env.now (loopBound a) { c.dev with wake := none } a o []).finished = false) :
    (bodyStep c o out tmo).2 = false ∧
    (bodyStep c o out tmo).1.1.dev.acts = (innerLoop c.env.now (loopBound a) { c.dev with wake := none } a o []).act :: c.dev.acts.tail :=
  bodyStep_stalled c o out tmo a hs hst

/-- **Before login completed, only the login script sends.**  Start a run of `_process_action` in a state satisfying
    `LoginHead` (every reachable state does).  Then in every iteration of the run that begins on a connection that is
    not logged in, the speaker — the only source of sent bytes in that iteration — is the login action. -/
theorem C10_only_login_speaks_before_login (fuel : Nat) (c : CS) (o : Oracle) (out : List Out) (tmo : Option Time)
    (h : LoginHead c.dev) :
    ∀ s ∈ iterStates fuel c o out tmo, ∀ a, speaker s.1 = some a → s.1.dev.loggedIn = false → a.com = 0 :=
  login_speaks_first fuel c o out tmo h

/-- non-vacuity: on the freshly connected device (queue: login, then client 3's `off` whose script sends "o") the
    speaker is the login action, its `send` is not yet flushed (so it has not finished), and the pass sends the
    login's "l" and nothing else -/
example :
    let c : CS := { dev := Ex.fresh, env := Ex.env0, sys := [] }
    LoginHead c.dev ∧ (speaker c).map (·.com) = some 0 ∧
    ((speaker c).map fun a => (innerLoop c.env.now (loopBound a) { c.dev with wake := none } a ⟨[]⟩ []).finished) = some false ∧
    sentsOf (processActionF 10 c ⟨[]⟩ [] none).2.2.1 = [[108]] :=
  ⟨fun _ _ => ⟨_, _, rfl, rfl⟩, by decide +kernel, by decide +kernel, by decide +kernel⟩

/-! ## 4. the device output buffer -/

/-- **`_handle_ready_device` and the buffer**: afterwards the buffer is `clipTo (kept ++ reply)`, where `kept` is the whole
    buffer as it was, or what stays of it behind the non-empty prefix `wr` that a successful `write` took (the kernel
    takes as much as it has room for: `wr ++ kept` is the buffer as it was, in order, nothing lost or repeated), and
    `reply` is empty or the telnet option replies to the bytes just read (tcp devices only; `readOf c.dev bs` is the
    prefix of what the kernel had, `bs`, that the input buffer asked for: `C09_read_is_prefix`).
    Changed when the capacity of `dev->to` was modelled (the statement read `= kept ++ reply`): the buffer holds 65536 bytes,
    `clipTo` keeps the last 65536 — a device that floods `IAC DO x` and does not read makes the oldest queued bytes give way.
    The hypothesis is the capacity invariant (`C09_device_out_capacity`; every reachable buffer satisfies it).  Below the
    limit the old statement holds: `C10_handle_ready_buffer_below`. -/
theorem C10_handle_ready_buffer (c : CS) (hcap : c.dev.toBuf.length ≤ 65536) :
    ∃ kept reply, (handleReady c).1.dev.toBuf = clipTo (kept ++ reply) ∧
      (kept = c.dev.toBuf ∨ (∃ wr, wr ≠ [] ∧ wr ++ kept = c.dev.toBuf ∧ Sys.write wr true ∈ (handleReady c).1.sys)) ∧
      (reply = [] ∨ ∃ bs, c.env.read = some (some bs) ∧ c.dev.isPipe = false ∧
          reply = telnetReplies c.dev.tstate c.dev.tcmd (readOf c.dev bs)) :=
  handleReady_buf c hcap

/-- the statement as it read before, under the explicit no-overflow hypothesis: what is queued and the replies this call can
    add (`readyReplies c`: those to the bytes the `read` hands over, on a tcp device) fit the buffer -/
theorem C10_handle_ready_buffer_below (c : CS) (hfit : c.dev.toBuf.length + (readyReplies c).length ≤ 65536) :
    ∃ kept reply, (handleReady c).1.dev.toBuf = kept ++ reply ∧
      (kept = c.dev.toBuf ∨ (∃ wr, wr ≠ [] ∧ wr ++ kept = c.dev.toBuf ∧ Sys.write wr true ∈ (handleReady c).1.sys)) ∧
      (reply = [] ∨ ∃ bs, c.env.read = some (some bs) ∧ c.dev.isPipe = false ∧
          reply = telnetReplies c.dev.tstate c.dev.tcmd (readOf c.dev bs)) :=
  handleReady_buf_below c hfit

/-- non-vacuity of the capacity hypothesis and of the no-overflow hypothesis (the fresh device's queue is empty, the pass can add
    the three bytes `IAC WILL SGA`) -/
example : ({ dev := Ex.fresh, env := Ex.envTelnet, sys := [] } : CS).dev.toBuf.length ≤ 65536 ∧
    ({ dev := Ex.fresh, env := Ex.envTelnet, sys := [] } : CS).dev.toBuf.length +
      (readyReplies { dev := Ex.fresh, env := Ex.envTelnet, sys := [] }).length = 3 := by decide +kernel

/-- the telnet replies are `IAC WILL x` / `IAC WONT x` triples and nothing else -/
theorem C10_telnet_replies_shape (st : Nat) (cmd : UInt8) (bs : Bytes) :
    ∃ chunks : List Bytes, telnetReplies st cmd bs = chunks.flatten ∧
      ∀ ch ∈ chunks, ∃ b, ch = [255, 251, b] ∨ ch = [255, 252, b] :=
  telnetReplies_shape st cmd bs

/-- `telnetReplies` is the reply part of `telnetFilter`: queued behind what is queued, the last 65536 bytes kept (changed
    with the capacity of `dev->to`: the statement read `d.toBuf ++ …`; each answer is one overwriting `cbuf_write` of 3 bytes,
    and a sequence of such writes leaves what one write of the concatenation leaves: `clipTo_clipTo_append`) -/
theorem C10_telnet_filter_buffer (d : Dev) (bs : Bytes) :
    (telnetFilter d bs).toBuf = clipTo (d.toBuf ++ telnetReplies d.tstate d.tcmd bs) :=
  telnetFilter_toBuf d bs

/-- below the limit the replies are appended (the statement as it read before) -/
theorem C10_telnet_filter_buffer_below (d : Dev) (bs : Bytes)
    (hfit : (d.toBuf ++ telnetReplies d.tstate d.tcmd bs).length ≤ 65536) :
    (telnetFilter d bs).toBuf = d.toBuf ++ telnetReplies d.tstate d.tcmd bs := by
  rw [telnetFilter_toBuf, clipTo_of_le _ hfit]

example : telnetReplies 0 0 [255, 253, 3, 65, 255, 253, 1] = [255, 251, 3, 255, 252, 1] := by decide

/-- **`_process_action` and the buffer.**  After a run, either the buffer is the buffer before followed by the
    payloads of the run's `send` statements in order (and neither the connection state nor the retry counter moved),
    or the run took its error branch on the CONNECTED device: `_reconnect` went through `_disconnect`, which flushes
    both buffers — the buffer is empty, nothing was sent after the flush (the error branch leaves the loop), and the
    flush is visible: the device is no longer CONNECTED or one more connect attempt has been counted.
    Changed when the capacity of `dev->to` was modelled (the statement read `c.dev.toBuf ++ …`): `clipTo` keeps the last 65536
    bytes — a `send` against a full buffer overwrites the oldest queued bytes (`cbuf_write`, overwrite mode; `_process_send`
    logs "buffer overrun" and goes on).  The hypothesis is the capacity invariant (`C09_device_out_capacity`).  Below the
    limit: `C10_process_action_buffer_below`. -/
theorem C10_process_action_buffer (fuel : Nat) (c : CS) (o : Oracle) (out : List Out) (tmo : Option Time)
    (hcap : c.dev.toBuf.length ≤ 65536) :
    ((processActionF fuel c o out tmo).1.dev.toBuf = clipTo (c.dev.toBuf ++ (passSents fuel c o out tmo).flatten) ∧
       (processActionF fuel c o out tmo).1.dev.conn = c.dev.conn ∧
       (processActionF fuel c o out tmo).1.dev.retryCount = c.dev.retryCount) ∨
    ((processActionF fuel c o out tmo).1.dev.toBuf = [] ∧ c.dev.conn = 2 ∧
       ((processActionF fuel c o out tmo).1.dev.conn ≠ 2 ∨
        (processActionF fuel c o out tmo).1.dev.retryCount = c.dev.retryCount + 1)) :=
  processActionF_buf fuel c o out tmo hcap

/-- `C10_process_action_buffer` as it read before the capacity of `dev->to` was modelled, under the explicit no-overflow
    hypothesis: what is queued and what the run sends fit the buffer -/
theorem C10_process_action_buffer_below (fuel : Nat) (c : CS) (o : Oracle) (out : List Out) (tmo : Option Time)
    (hfit : c.dev.toBuf.length + (passSents fuel c o out tmo).flatten.length ≤ 65536) :
    ((processActionF fuel c o out tmo).1.dev.toBuf = c.dev.toBuf ++ (passSents fuel c o out tmo).flatten ∧
       (processActionF fuel c o out tmo).1.dev.conn = c.dev.conn ∧
       (processActionF fuel c o out tmo).1.dev.retryCount = c.dev.retryCount) ∨
    ((processActionF fuel c o out tmo).1.dev.toBuf = [] ∧ c.dev.conn = 2 ∧
       ((processActionF fuel c o out tmo).1.dev.conn ≠ 2 ∨
        (processActionF fuel c o out tmo).1.dev.retryCount = c.dev.retryCount + 1)) :=
  processActionF_buf_below fuel c o out tmo hfit

/-- non-vacuity of the no-overflow hypothesis: the run on the fresh device sends the login's one byte into an empty queue -/
example :
    let c : CS := { dev := Ex.fresh, env := Ex.env0, sys := [] }
    c.dev.toBuf.length + (passSents 10 c ⟨[]⟩ [] none).flatten.length = 1 := by decide +kernel

/-- `passSents` is what the run sent -/
theorem C10_passSents (fuel : Nat) (c : CS) (o : Oracle) (out : List Out) (tmo : Option Time) :
    sentsOf (processActionF fuel c o out tmo).2.2.1 = sentsOf out ++ passSents fuel c o out tmo :=
  processActionF_sents fuel c o out tmo

/-- **A whole `dev_post_poll` pass and the buffer.**  With `kept` and `reply` as in `C10_handle_ready_buffer`:
    afterwards the buffer is `kept ++ reply ++` the payloads of this pass's `send` statements, in that order; or — an
    i/o error (`(postPollReady d env).2`) on a device that was not NOT_CONNECTED made the pass disconnect before
    `_process_action` — just those payloads; or — `_process_action` took its error branch on the connected device —
    empty.  Telnet replies and `send` payloads are therefore the only bytes ever appended, the replies go in before
    anything this pass sends, and a script's bytes are never interleaved with another script's
    (`C10_run_sends_what_heads_say`).
    Changed when the capacity of `dev->to` was modelled (the statement read `= kept ++ reply ++ sentBytes …` and `= sentBytes …`):
    `clipTo` keeps the last 65536 bytes of that; what is lost beyond the capacity is always the *oldest* of what was queued, so
    the order statement stands.  The hypothesis is the capacity invariant (`C09_device_out_capacity`).  Below the limit the
    old statement holds: `C10_post_poll_buffer_below`. -/
theorem C10_post_poll_buffer (d : Dev) (env : Env) (o : Oracle) (hcap : d.toBuf.length ≤ 65536) :
    ∃ kept reply,
      (kept = d.toBuf ∨ (∃ wr, wr ≠ [] ∧ wr ++ kept = d.toBuf ∧ Sys.write wr true ∈ (postPollReady d env).1.sys)) ∧
      (reply = [] ∨ ∃ bs, env.read = some (some bs) ∧ d.isPipe = false ∧
        reply = telnetReplies d.tstate d.tcmd (readOf d bs)) ∧
      ((postPoll d env o).1.dev.toBuf = clipTo (kept ++ reply ++ sentBytes (postPoll d env o).2.2.1) ∨
       ((postPoll d env o).1.dev.toBuf = clipTo (sentBytes (postPoll d env o).2.2.1) ∧
          (postPollReady d env).2 = true ∧ (postPollReady d env).1.dev.conn ≠ 0) ∨
       ((postPoll d env o).1.dev.toBuf = [] ∧ (postPollPre d env).1.dev.conn = 2 ∧
          ((postPoll d env o).1.dev.conn ≠ 2 ∨
           (postPoll d env o).1.dev.retryCount = (postPollPre d env).1.dev.retryCount + 1))) :=
  postPoll_buf d env o hcap

/-- `C10_post_poll_buffer` as it read before, under the explicit no-overflow hypothesis: what is queued, the telnet replies this
    pass can add and what this pass sends fit the buffer together -/
theorem C10_post_poll_buffer_below (d : Dev) (env : Env) (o : Oracle)
    (hfit : d.toBuf.length + (readyReplies { dev := d, env := env, sys := [] }).length +
      (sentBytes (postPoll d env o).2.2.1).length ≤ 65536) :
    ∃ kept reply,
      (kept = d.toBuf ∨ (∃ wr, wr ≠ [] ∧ wr ++ kept = d.toBuf ∧ Sys.write wr true ∈ (postPollReady d env).1.sys)) ∧
      (reply = [] ∨ ∃ bs, env.read = some (some bs) ∧ d.isPipe = false ∧
        reply = telnetReplies d.tstate d.tcmd (readOf d bs)) ∧
      ((postPoll d env o).1.dev.toBuf = kept ++ reply ++ sentBytes (postPoll d env o).2.2.1 ∨
       ((postPoll d env o).1.dev.toBuf = sentBytes (postPoll d env o).2.2.1 ∧
          (postPollReady d env).2 = true ∧ (postPollReady d env).1.dev.conn ≠ 0) ∨
       ((postPoll d env o).1.dev.toBuf = [] ∧ (postPollPre d env).1.dev.conn = 2 ∧
          ((postPoll d env o).1.dev.conn ≠ 2 ∨
           (postPoll d env o).1.dev.retryCount = (postPollPre d env).1.dev.retryCount + 1))) :=
  postPoll_buf_below d env o hfit

/-- non-vacuity of the no-overflow hypothesis (4 bytes in all) -/
example : Ex.fresh.toBuf.length + (readyReplies { dev := Ex.fresh, env := Ex.envTelnet, sys := [] }).length +
    (sentBytes (postPoll Ex.fresh Ex.envTelnet ⟨[]⟩).2.2.1).length = 4 := by decide +kernel

/-- `postPollReady`, `postPollPre` are the first stages of `postPoll` (descriptor events; then reconnect and ping) -/
theorem C10_post_poll_stages (d : Dev) (env : Env) (o : Oracle) :
    postPoll d env o =
      if (postPollReady d env).1.aborted then ((postPollReady d env).1, o, [], none)
      else processAction (postPollPre d env).1 o [] (postPollPre d env).2 :=
  postPoll_eq d env o

/-- non-vacuity, first case: the device answers the connect with a telnet `IAC DO SUPPRESS-GO-AHEAD`; after the pass
    the buffer holds the reply `IAC WILL SUPPRESS-GO-AHEAD` and then the login's "l" -/
example : (postPoll Ex.fresh Ex.envTelnet ⟨[]⟩).1.dev.toBuf = [255, 251, 3, 108] ∧
    sentBytes (postPoll Ex.fresh Ex.envTelnet ⟨[]⟩).2.2.1 = [108] := by decide +kernel

/-- non-vacuity, third case: the login times out, the error branch disconnects (and reconnects at once): the "l"
    that was waiting in the buffer is gone -/
example : (postPoll Ex.fresh Ex.env0 ⟨[]⟩).1.dev.toBuf = [108] ∧
    (postPoll (postPoll Ex.fresh Ex.env0 ⟨[]⟩).1.dev Ex.envLate ⟨[]⟩).1.dev.toBuf = [] ∧
    (postPoll (postPoll Ex.fresh Ex.env0 ⟨[]⟩).1.dev Ex.envLate ⟨[]⟩).1.dev.retryCount = 2 := by decide +kernel

end Pm.Props.C10
