import Pm.Dev2Login2
import Pm.ToBufProof
import Pm.LsdListTop
/-! # C10 — one conversation at a time per device, and login comes first

"On each device connection powerman runs scripts strictly one after another in request order: it never sends bytes
belonging to a different action while the current script is still waiting for its expected reply, and completions
are reported in that order.  After every connection or reconnection the login script runs to completion before any
other script sends anything on that connection."

Property theorems only; the helper lemmas live in `Pm/Dev2Login.lean` and `Pm/Dev2Login2.lean`.  The model they speak
about (`Pm.Dev2`, `Pm.Daemon.enqueue`) is the mirror of `device.c` + `device_tcp.c` + `device_pipe.c` compared with the
real functions on every run of the check.  Every theorem is for all queues, scripts, fuel, kernel answers (`Env`) and
regex answers (`Oracle`); no bounds.

Sections: 1 login first (the invariant, everywhere) ▸ 2 FIFO completions ▸ 3 only the head of the queue sends ▸
4 what is in the output buffer (telnet replies included) ▸ 5 the queue itself: `liblsd/list.c` at node level (nodes,
`head` / `tail` pointer-to-pointer, registered iterators patched on insertion and removal, the free list) refines a plain
list with cursors.

Vocabulary (all defined in the helper modules, none changes the model):
* `LoginHead d` — if `d` is CONNECTED (`conn = 2`) and not logged in, the head of `d.acts` is the login action (`com = 0`).
* `Reach d0 d` — `d` is obtained from `d0` by any sequence of: `connectDev` on a NOT_CONNECTED device
  (`dev_initial_connect`), `postPoll` passes that do not end in a modelled abort, `Pm.Daemon.enqueue` calls, and the two
  field updates `Pm.Daemon` makes (`args := store`, `retryCount := 0`).
* `finishesOf out` — client ids of the `Out.finish` entries of `out`, in order; `clientIds acts` — client ids of the
  client actions (`clientId ≠ 0`) of a queue, in order; `sentsOf out` — payloads of the `Out.sent` entries, in order;
  `sentBytes out` — their concatenation.
* `bodyStep c o out tmo` — one iteration of the `while` loop of `_process_action`, returning the state and a flag
  "the loop goes on" (`C10_process_action_is_iterated_step` is the proof that this reading is right);
  `iterStates fuel c o out tmo` — the states in which the iterations of one run begin;
  `speaker c` — the action whose statements an iteration starting in `c` executes, if any;
  `spoken c o` — the output of the statement interpreter (`innerLoop`) in that iteration. -/
namespace Pm.Props.C10
open Pm.Dev2
open Pm.Dev2.Login2

/-! ## 1. login first -/

/-- connecting (either transport) establishes the invariant -/
theorem C10_connect_establishes (c : CS) (h0 : c.dev.conn = 0) (hna : (connectDev c).aborted = false) :
    LoginHead (connectDev c).dev := connectDev_loginHead c h0 hna

/-- a pass of `_process_action` that does not end in a modelled abort keeps it — for every fuel, queue, script,
    oracle answer and kernel answer: as long as the device is connected and not logged in, the only action that can
    run (the head) is the login action -/
theorem C10_login_first_preserved (fuel : Nat) (c : CS) (o : Oracle) (out : List Out) (tmo : Option Time)
    (h : LoginHead c.dev) (hna : (processActionF fuel c o out tmo).1.aborted = false) :
    LoginHead (processActionF fuel c o out tmo).1.dev :=
  loginHead_preserved fuel c o out tmo h hna

/-- `_handle_ready_device` keeps the invariant, whatever the kernel reports (hang-up, error, a finished or failed
    non-blocking connect, a write, a read through the telnet filter) — aborted or not.  When it completes a connect,
    the login action is put in front of the queue at that moment. -/
theorem C10_handle_ready_keeps_login_first (c : CS) (h : LoginHead c.dev) : LoginHead (handleReady c).1.dev :=
  handleReady_loginHead c h

/-- non-vacuity: a CONNECTING device whose connect completes in this call — afterwards it is CONNECTED, not logged in,
    and the login action (script 0) is the queue -/
example : LoginHead Ex.connecting ∧ Ex.connecting.conn = 1 ∧
    (handleReady { dev := Ex.connecting, env := Ex.envOut, sys := [] }).1.dev.conn = 2 ∧
    (handleReady { dev := Ex.connecting, env := Ex.envOut, sys := [] }).1.dev.loggedIn = false ∧
    (handleReady { dev := Ex.connecting, env := Ex.envOut, sys := [] }).1.dev.acts.map (·.com) = [0] :=
  ⟨LoginHead.of_not_connected (by decide), by decide, by decide, by decide, by decide⟩

/-- appending actions behind the queue (this is what `_enqueue_ping` does inside `dev_post_poll`, with the ping
    action and `lastPing`) keeps the invariant -/
theorem C10_append_keeps_login_first (d : Dev) (l : List Action) (t : Option Time) (h : LoginHead d) :
    LoginHead { d with acts := d.acts ++ l, lastPing := t } :=
  h.append l rfl rfl rfl

/-- a client command (`dev_enqueue_actions`: any command, targets, client) keeps the invariant: its actions go behind
    the head -/
theorem C10_enqueue_keeps_login_first (d : Dev) (com : Nat) (targets : List Bytes) (cid : Nat) (tele : Bool) (al : Nat)
    (h : LoginHead d) : LoginHead (Pm.Daemon.enqueue d com targets cid tele al).1 :=
  enqueue_loginHead d com targets cid tele al h

/-- non-vacuity: a client `off` enqueued on a device that has just connected lands behind the login -/
example : Ex.connected.conn = 2 ∧ Ex.connected.loggedIn = false ∧ Ex.fresh.acts.map (·.com) = [0, 10] := by
  decide +kernel

/-- the whole of `dev_post_poll` (descriptor events, reconnect, ping, `_process_action`) keeps the invariant when the
    pass does not end in a modelled abort (an assertion of the C program, a kernel or regex answer the harness did
    not supply, fuel) -/
theorem C10_post_poll_keeps_login_first (d : Dev) (env : Env) (o : Oracle) (h : LoginHead d)
    (hna : (postPoll d env o).1.aborted = false) : LoginHead (postPoll d env o).1.dev :=
  postPoll_loginHead d env o h hna

/-- non-vacuity: a pass on the freshly connected device does not abort, the device stays connected and not logged in
    (the login's `send` is waiting to be flushed) -/
example : (postPoll Ex.fresh Ex.env0 ⟨[]⟩).1.aborted = false ∧ (postPoll Ex.fresh Ex.env0 ⟨[]⟩).1.dev.conn = 2 ∧
    (postPoll Ex.fresh Ex.env0 ⟨[]⟩).1.dev.loggedIn = false := by decide +kernel

/-- **Login first, everywhere.**  In every state reachable from a NOT_CONNECTED, logged-out device:
    a CONNECTED device has either completed a login on this connection (`loggedIn`, which only the completion of a
    `com = 0` action sets) or has the login action at the head of its queue — so the login script is the one that
    runs; and a device that is not CONNECTED is logged out, so every new connection starts in the second case. -/
theorem C10_login_first_everywhere (d0 d : Dev) (h : Reach d0 d) (hc : d0.conn = 0) (hl : d0.loggedIn = false) :
    (d.conn = 2 → d.loggedIn = true ∨ ∃ a r, d.acts = a :: r ∧ a.com = 0) ∧ (d.conn ≠ 2 → d.loggedIn = false) :=
  h.login_first hc hl

/-- the same as the invariant alone (needs only `conn = 0` initially) -/
theorem C10_login_head_everywhere (d0 d : Dev) (h : Reach d0 d) (hc : d0.conn = 0) : LoginHead d := h.loginHead hc

/-- non-vacuity: initial connect, a client command, a pass — reachable, connected, not logged in -/
example : Reach Ex.dev0 (postPoll Ex.fresh Ex.env0 ⟨[]⟩).1.dev ∧ Ex.dev0.conn = 0 ∧ Ex.dev0.loggedIn = false :=
  ⟨Reach.pass _ _ _ (Reach.enqueue _ _ _ _ _ _ (Reach.connect _ _ Reach.init (by decide) (by decide))) (by decide +kernel),
   by decide, by decide⟩

/-- `Reach` covers what the daemon does: a device pass of `Pm.Daemon.devPass` after which the daemon is alive leaves
    the device in a state reachable from the one it had … -/
theorem C10_reach_covers_devPass (p : Pm.Daemon.PassIn) (a : Pm.Daemon.DevAcc) (nd : Bytes × Dev) (d0 : Dev)
    (h : Reach d0 nd.2) (hd : (Pm.Daemon.devPass p a nd).dead = false) :
    ∃ d', (Pm.Daemon.devPass p a nd).devs = a.devs ++ [(nd.1, d')] ∧ Reach d0 d' :=
  devPass_reach p a nd d0 h hd

/-- … and so does a client command installed by `Pm.Daemon.install`, for every device of the daemon -/
theorem C10_reach_covers_install (w : Pm.Daemon.W) (c : Pm.Daemon.Cli) (com : Pm.Client.Com) (names : List Pm.Name) :
    ∀ x ∈ (Pm.Daemon.install w c com names).1.devs,
      ∃ nd ∈ w.devs, x.1 = nd.1 ∧ ∀ d0, Reach d0 nd.2 → Reach d0 x.2 :=
  install_reach w c com names

/-! ## 2. completions are reported in request order -/

/-- **FIFO, one run of `_process_action`.**  The completions the run adds to the output are, in order, client actions
    that left the *front* of the queue (`l`), and the client actions still queued afterwards are the rest in the same
    order.  So if an earlier and a later action of the queue both complete in this run, the earlier one is reported
    first; no action is reported while it stays queued; none leaves the queue unreported.  Positions, not `uid`s
    (which are not unique in the model).  Holds for aborted runs too. -/
theorem C10_fifo_run (fuel : Nat) (c : CS) (o : Oracle) (out : List Out) (tmo : Option Time) :
    ∃ l, finishesOf (processActionF fuel c o out tmo).2.2.1 = finishesOf out ++ l ∧
         l ++ clientIds (processActionF fuel c o out tmo).1.dev.acts = clientIds c.dev.acts :=
  processActionF_fifo fuel c o out tmo

/-- the same as a prefix statement -/
theorem C10_fifo_run_prefix (fuel : Nat) (c : CS) (o : Oracle) (out : List Out) (tmo : Option Time) :
    ∃ n, finishesOf (processActionF fuel c o out tmo).2.2.1 = finishesOf out ++ (clientIds c.dev.acts).take n :=
  processActionF_fifo_prefix fuel c o out tmo

/-- **FIFO, a whole `dev_post_poll` pass**: descriptor events, reconnect (which puts a login action in front and drops
    an interrupted one) and the ping leave the client actions of the queue alone; the completions of the pass are a
    prefix of them.  Hypothesis `NoClientLogin`: no *client* action uses script slot 0 — `_disconnect` drops a head with
    `com = 0` without reporting it (`C10_fifo_needs_no_client_login_counterexample`); `dev_enqueue_actions` never
    creates one (`enqueue_spec`, and `Pm.Daemon.comIdx` is never 0). -/
theorem C10_fifo_pass (d : Dev) (env : Env) (o : Oracle) (h : NoClientLogin d) :
    NoClientLogin (postPoll d env o).1.dev ∧
    finishesOf (postPoll d env o).2.2.1 ++ clientIds (postPoll d env o).1.dev.acts = clientIds d.acts :=
  postPoll_fifo d env o h

/-- the hypothesis of `C10_fifo_pass` is needed: a client action (client 9) with script slot 0 at the head of a
    connected device is dropped by `_disconnect` (here after a hang-up) without any completion being reported -/
theorem C10_fifo_needs_no_client_login_counterexample :
    let d : Dev := { Ex.ready with acts := [{ loginAction Ex.ready with clientId := 9 }] }
    let env : Env := { Ex.env0 with revents := 4, sockets := [], connects := [] }
    clientIds d.acts = [9] ∧ finishesOf (postPoll d env ⟨[]⟩).2.2.1 = [] ∧ clientIds (postPoll d env ⟨[]⟩).1.dev.acts = [] := by
  decide +kernel

/-- **FIFO over a whole history** (`runHist`: passes, client commands, initial connect, the daemon's two field
    updates, in any order): at every moment, the completions reported so far, in order, followed by the client
    actions still queued, in queue order, equal the client actions queued at the start followed by the client actions
    enqueued since, in request order.  Completions are therefore reported in request order, exactly once each.
    `Ev.ok`: client commands carry a client id `≠ 0` and a command `≠ 0` (slot 0 is the login script). -/
theorem C10_fifo_history (evs : List Ev) (d : Dev) (h : NoClientLogin d) (hev : ∀ e ∈ evs, e.ok) :
    (runHist d evs).2.1 ++ clientIds (runHist d evs).1.acts = clientIds d.acts ++ (runHist d evs).2.2 :=
  runHist_fifo evs d h hev

/-- non-vacuity: clients 1 and 2 ask `on` (a script that finishes at once), client 3 asks `off` (a script that waits);
    one pass reports 1 then 2, and 3 stays queued -/
example : NoClientLogin Ex.ready ∧ (∀ e ∈ Ex.hist, e.ok) ∧
    (runHist Ex.ready Ex.hist).2.1 = [1, 2] ∧ (runHist Ex.ready Ex.hist).2.2 = [1, 2, 3] ∧
    clientIds (runHist Ex.ready Ex.hist).1.acts = [3] :=
  ⟨fun a ha => by simp [Ex.ready, Ex.dev0] at ha, fun e he => by
      simp only [Ex.hist, List.mem_cons, List.not_mem_nil, or_false] at he
      rcases he with rfl | rfl | rfl | rfl <;> simp [Ev.ok],
   by decide +kernel, by decide +kernel, by decide +kernel⟩

/-- non-vacuity for the error branch: the login of the freshly connected device times out in the second pass; the
    client action behind it (client 3) is reported, the queue holds no client action any more -/
example : (runHist Ex.fresh [.pass Ex.env0 ⟨[]⟩, .pass Ex.envLate ⟨[]⟩]).2.1 = [3] ∧
    clientIds (runHist Ex.fresh [.pass Ex.env0 ⟨[]⟩, .pass Ex.envLate ⟨[]⟩]).1.acts = [] := by decide +kernel

/-! ## 3. only the head of the queue sends -/

/-- `_process_action` is the iteration of `bodyStep`: run one iteration; if it says "go on", continue from the state it
    returns, else that state is the result.  (This is what makes `bodyStep`, `iterStates`, `speaker`, `spoken` —
    definitions of the proof, not of the model — say something about the model.) -/
theorem C10_process_action_is_iterated_step (fuel : Nat) (c : CS) (o : Oracle) (out : List Out) (tmo : Option Time) :
    processActionF (fuel + 1) c o out tmo =
      if (bodyStep c o out tmo).2 then
        processActionF fuel (bodyStep c o out tmo).1.1 (bodyStep c o out tmo).1.2.1 (bodyStep c o out tmo).1.2.2.1
          (bodyStep c o out tmo).1.2.2.2
      else (bodyStep c o out tmo).1 :=
  processActionF_succ fuel c o out tmo

/-- whoever speaks in an iteration is the head of the queue at that moment (with its time stamp set), on a
    CONNECTED device, in a loop that is not aborted -/
theorem C10_speaker_is_head (c : CS) (a : Action) (h : speaker c = some a) :
    ∃ a0 rest, c.dev.acts = a0 :: rest ∧ a = stamp c.env.now a0 ∧ c.dev.conn = 2 ∧ c.aborted = false :=
  speaker_is_head c a h

/-- **One iteration sends exactly what the statement interpreter, applied to the head of the queue, sends.**
    Nothing else in an iteration — time-out telemetry, completions, the error branch with its reconnect — produces an
    `Out.sent`; and when there is no speaker (empty queue, aborted, deadline passed, not connected) nothing is sent. -/
theorem C10_iteration_sends_what_head_says (c : CS) (o : Oracle) (out : List Out) (tmo : Option Time) :
    sentsOf (bodyStep c o out tmo).1.2.2.1 = sentsOf out ++ sentsOf (spoken c o) :=
  bodyStep_sents c o out tmo

/-- **Only the head speaks, one run of `_process_action`**: everything the run sends is, in order, what the heads of
    the successive iterations said. -/
theorem C10_run_sends_what_heads_say (fuel : Nat) (c : CS) (o : Oracle) (out : List Out) (tmo : Option Time) :
    sentsOf (processActionF fuel c o out tmo).2.2.1 =
      sentsOf out ++ (iterStates fuel c o out tmo).flatMap fun s => sentsOf (spoken s.1 s.2) :=
  processActionF_sents fuel c o out tmo

/-- what an iteration says depends on the head only: the actions queued behind it can be replaced by any others
    without changing the output of the interpreter (it is handed the device record, which contains the queue, but
    never looks at it) -/
theorem C10_rest_of_queue_is_not_consulted (c : CS) (o : Oracle) (a0 : Action) (rest rest' : List Action)
    (h : c.dev.acts = a0 :: rest) :
    spoken { c with dev := { c.dev with acts := a0 :: rest' } } o = spoken c o :=
  spoken_rest_indep c o a0 rest rest' h

/-- **A head that is waiting blocks everything behind it.**  If the head's statement did not finish in this iteration
    (an `expect` whose reply has not arrived, a `send` not yet flushed, a `delay` not yet over), the loop ends — no
    other action is looked at in this pass, so none can send — and the head, as the interpreter left it, is still
    the head for the next pass. -/
theorem C10_waiting_head_blocks (c : CS) (o : Oracle) (out : List Out) (tmo : Option Time) (a : Action)
    (hs : speaker c = some a)
    (hst : (innerLoop c.env.now (loopBound a) { c.dev with wake := none } a o []).finished = false) :
    (bodyStep c o out tmo).2 = false ∧
    (bodyStep c o out tmo).1.1.dev.acts = (innerLoop c.env.now (loopBound a) { c.dev with wake := none } a o []).act :: c.dev.acts.tail :=
  bodyStep_stalled c o out tmo a hs hst

/-- **Before login completed, only the login script sends.**  Start a run of `_process_action` in a state satisfying
    `LoginHead` (every reachable state does).  Then in every iteration of the run that begins on a connection that is
    not logged in, the speaker — the only source of sent bytes in that iteration — is the login action. -/
theorem C10_only_login_speaks_before_login (fuel : Nat) (c : CS) (o : Oracle) (out : List Out) (tmo : Option Time)
    (h : LoginHead c.dev) :
    ∀ s ∈ iterStates fuel c o out tmo, ∀ a, speaker s.1 = some a → s.1.dev.loggedIn = false → a.com = 0 :=
  login_speaks_first fuel c o out tmo h

/-- non-vacuity: on the freshly connected device (queue: login, then client 3's `off` whose script sends "o") the
    speaker is the login action, its `send` is not yet flushed (so it has not finished), and the pass sends the
    login's "l" and nothing else -/
example :
    let c : CS := { dev := Ex.fresh, env := Ex.env0, sys := [] }
    LoginHead c.dev ∧ (speaker c).map (·.com) = some 0 ∧
    ((speaker c).map fun a => (innerLoop c.env.now (loopBound a) { c.dev with wake := none } a ⟨[]⟩ []).finished) = some false ∧
    sentsOf (processActionF 10 c ⟨[]⟩ [] none).2.2.1 = [[108]] :=
  ⟨fun _ _ => ⟨_, _, rfl, rfl⟩, by decide +kernel, by decide +kernel, by decide +kernel⟩

/-! ## 4. the device output buffer -/

/-- **`_handle_ready_device` and the buffer**: afterwards the buffer is `clipTo (kept ++ reply)`, where `kept` is the whole
    buffer as it was, or what stays of it behind the non-empty prefix `wr` that a successful `write` took (the kernel
    takes as much as it has room for: `wr ++ kept` is the buffer as it was, in order, nothing lost or repeated), and
    `reply` is empty or the telnet option replies to the bytes just read (tcp devices only; `readOf c.dev bs` is the
    prefix of what the kernel had, `bs`, that the input buffer asked for: `C09_read_is_prefix`).
    Changed when the capacity of `dev->to` was modelled (the statement read `= kept ++ reply`): the buffer holds 65536 bytes,
    `clipTo` keeps the last 65536 — a device that floods `IAC DO x` and does not read makes the oldest queued bytes give way.
    The hypothesis is the capacity invariant (`C09_device_out_capacity`; every reachable buffer satisfies it).  Below the
    limit the old statement holds: `C10_handle_ready_buffer_below`. -/
theorem C10_handle_ready_buffer (c : CS) (hcap : c.dev.toBuf.length ≤ 65536) :
    ∃ kept reply, (handleReady c).1.dev.toBuf = clipTo (kept ++ reply) ∧
      (kept = c.dev.toBuf ∨ (∃ wr, wr ≠ [] ∧ wr ++ kept = c.dev.toBuf ∧ Sys.write wr true ∈ (handleReady c).1.sys)) ∧
      (reply = [] ∨ ∃ bs, c.env.read = some (some bs) ∧ c.dev.isPipe = false ∧
          reply = telnetReplies c.dev.tstate c.dev.tcmd (readOf c.dev bs)) :=
  handleReady_buf c hcap

/-- the statement as it read before, under the explicit no-overflow hypothesis: what is queued and the replies this call can
    add (`readyReplies c`: those to the bytes the `read` hands over, on a tcp device) fit the buffer -/
theorem C10_handle_ready_buffer_below (c : CS) (hfit : c.dev.toBuf.length + (readyReplies c).length ≤ 65536) :
    ∃ kept reply, (handleReady c).1.dev.toBuf = kept ++ reply ∧
      (kept = c.dev.toBuf ∨ (∃ wr, wr ≠ [] ∧ wr ++ kept = c.dev.toBuf ∧ Sys.write wr true ∈ (handleReady c).1.sys)) ∧
      (reply = [] ∨ ∃ bs, c.env.read = some (some bs) ∧ c.dev.isPipe = false ∧
          reply = telnetReplies c.dev.tstate c.dev.tcmd (readOf c.dev bs)) :=
  handleReady_buf_below c hfit

/-- non-vacuity of the capacity hypothesis and of the no-overflow hypothesis (the fresh device's queue is empty, the pass can add
    the three bytes `IAC WILL SGA`) -/
example : ({ dev := Ex.fresh, env := Ex.envTelnet, sys := [] } : CS).dev.toBuf.length ≤ 65536 ∧
    ({ dev := Ex.fresh, env := Ex.envTelnet, sys := [] } : CS).dev.toBuf.length +
      (readyReplies { dev := Ex.fresh, env := Ex.envTelnet, sys := [] }).length = 3 := by decide +kernel

/-- the telnet replies are `IAC WILL x` / `IAC WONT x` triples and nothing else -/
theorem C10_telnet_replies_shape (st : Nat) (cmd : UInt8) (bs : Bytes) :
    ∃ chunks : List Bytes, telnetReplies st cmd bs = chunks.flatten ∧
      ∀ ch ∈ chunks, ∃ b, ch = [255, 251, b] ∨ ch = [255, 252, b] :=
  telnetReplies_shape st cmd bs

/-- `telnetReplies` is the reply part of `telnetFilter`: queued behind what is queued, the last 65536 bytes kept (changed
    with the capacity of `dev->to`: the statement read `d.toBuf ++ …`; each answer is one overwriting `cbuf_write` of 3 bytes,
    and a sequence of such writes leaves what one write of the concatenation leaves: `clipTo_clipTo_append`) -/
theorem C10_telnet_filter_buffer (d : Dev) (bs : Bytes) :
    (telnetFilter d bs).toBuf = clipTo (d.toBuf ++ telnetReplies d.tstate d.tcmd bs) :=
  telnetFilter_toBuf d bs

/-- below the limit the replies are appended (the statement as it read before) -/
theorem C10_telnet_filter_buffer_below (d : Dev) (bs : Bytes)
    (hfit : (d.toBuf ++ telnetReplies d.tstate d.tcmd bs).length ≤ 65536) :
    (telnetFilter d bs).toBuf = d.toBuf ++ telnetReplies d.tstate d.tcmd bs := by
  rw [telnetFilter_toBuf, clipTo_of_le _ hfit]

example : telnetReplies 0 0 [255, 253, 3, 65, 255, 253, 1] = [255, 251, 3, 255, 252, 1] := by decide

/-- **`_process_action` and the buffer.**  After a run, either the buffer is the buffer before followed by the
    payloads of the run's `send` statements in order (and neither the connection state nor the retry counter moved),
    or the run took its error branch on the CONNECTED device: `_reconnect` went through `_disconnect`, which flushes
    both buffers — the buffer is empty, nothing was sent after the flush (the error branch leaves the loop), and the
    flush is visible: the device is no longer CONNECTED or one more connect attempt has been counted.
    Changed when the capacity of `dev->to` was modelled (the statement read `c.dev.toBuf ++ …`): `clipTo` keeps the last 65536
    bytes — a `send` against a full buffer overwrites the oldest queued bytes (`cbuf_write`, overwrite mode; `_process_send`
    logs "buffer overrun" and goes on).  The hypothesis is the capacity invariant (`C09_device_out_capacity`).  Below the
    limit: `C10_process_action_buffer_below`. -/
theorem C10_process_action_buffer (fuel : Nat) (c : CS) (o : Oracle) (out : List Out) (tmo : Option Time)
    (hcap : c.dev.toBuf.length ≤ 65536) :
    ((processActionF fuel c o out tmo).1.dev.toBuf = clipTo (c.dev.toBuf ++ (passSents fuel c o out tmo).flatten) ∧
       (processActionF fuel c o out tmo).1.dev.conn = c.dev.conn ∧
       (processActionF fuel c o out tmo).1.dev.retryCount = c.dev.retryCount) ∨
    ((processActionF fuel c o out tmo).1.dev.toBuf = [] ∧ c.dev.conn = 2 ∧
       ((processActionF fuel c o out tmo).1.dev.conn ≠ 2 ∨
        (processActionF fuel c o out tmo).1.dev.retryCount = c.dev.retryCount + 1)) :=
  processActionF_buf fuel c o out tmo hcap

/-- `C10_process_action_buffer` as it read before the capacity of `dev->to` was modelled, under the explicit no-overflow
    hypothesis: what is queued and what the run sends fit the buffer -/
theorem C10_process_action_buffer_below (fuel : Nat) (c : CS) (o : Oracle) (out : List Out) (tmo : Option Time)
    (hfit : c.dev.toBuf.length + (passSents fuel c o out tmo).flatten.length ≤ 65536) :
    ((processActionF fuel c o out tmo).1.dev.toBuf = c.dev.toBuf ++ (passSents fuel c o out tmo).flatten ∧
       (processActionF fuel c o out tmo).1.dev.conn = c.dev.conn ∧
       (processActionF fuel c o out tmo).1.dev.retryCount = c.dev.retryCount) ∨
    ((processActionF fuel c o out tmo).1.dev.toBuf = [] ∧ c.dev.conn = 2 ∧
       ((processActionF fuel c o out tmo).1.dev.conn ≠ 2 ∨
        (processActionF fuel c o out tmo).1.dev.retryCount = c.dev.retryCount + 1)) :=
  processActionF_buf_below fuel c o out tmo hfit

/-- non-vacuity of the no-overflow hypothesis: the run on the fresh device sends the login's one byte into an empty queue -/
example :
    let c : CS := { dev := Ex.fresh, env := Ex.env0, sys := [] }
    c.dev.toBuf.length + (passSents 10 c ⟨[]⟩ [] none).flatten.length = 1 := by decide +kernel

/-- `passSents` is what the run sent -/
theorem C10_passSents (fuel : Nat) (c : CS) (o : Oracle) (out : List Out) (tmo : Option Time) :
    sentsOf (processActionF fuel c o out tmo).2.2.1 = sentsOf out ++ passSents fuel c o out tmo :=
  processActionF_sents fuel c o out tmo

/-- **A whole `dev_post_poll` pass and the buffer.**  With `kept` and `reply` as in `C10_handle_ready_buffer`:
    afterwards the buffer is `kept ++ reply ++` the payloads of this pass's `send` statements, in that order; or — an
    i/o error (`(postPollReady d env).2`) on a device that was not NOT_CONNECTED made the pass disconnect before
    `_process_action` — just those payloads; or — `_process_action` took its error branch on the connected device —
    empty.  Telnet replies and `send` payloads are therefore the only bytes ever appended, the replies go in before
    anything this pass sends, and a script's bytes are never interleaved with another script's
    (`C10_run_sends_what_heads_say`).
    Changed when the capacity of `dev->to` was modelled (the statement read `= kept ++ reply ++ sentBytes …` and `= sentBytes …`):
    `clipTo` keeps the last 65536 bytes of that; what is lost beyond the capacity is always the *oldest* of what was queued, so
    the order statement stands.  The hypothesis is the capacity invariant (`C09_device_out_capacity`).  Below the limit the
    old statement holds: `C10_post_poll_buffer_below`. -/
theorem C10_post_poll_buffer (d : Dev) (env : Env) (o : Oracle) (hcap : d.toBuf.length ≤ 65536) :
    ∃ kept reply,
      (kept = d.toBuf ∨ (∃ wr, wr ≠ [] ∧ wr ++ kept = d.toBuf ∧ Sys.write wr true ∈ (postPollReady d env).1.sys)) ∧
      (reply = [] ∨ ∃ bs, env.read = some (some bs) ∧ d.isPipe = false ∧
        reply = telnetReplies d.tstate d.tcmd (readOf d bs)) ∧
      ((postPoll d env o).1.dev.toBuf = clipTo (kept ++ reply ++ sentBytes (postPoll d env o).2.2.1) ∨
       ((postPoll d env o).1.dev.toBuf = clipTo (sentBytes (postPoll d env o).2.2.1) ∧
          (postPollReady d env).2 = true ∧ (postPollReady d env).1.dev.conn ≠ 0) ∨
       ((postPoll d env o).1.dev.toBuf = [] ∧ (postPollPre d env).1.dev.conn = 2 ∧
          ((postPoll d env o).1.dev.conn ≠ 2 ∨
           (postPoll d env o).1.dev.retryCount = (postPollPre d env).1.dev.retryCount + 1))) :=
  postPoll_buf d env o hcap

/-- `C10_post_poll_buffer` as it read before, under the explicit no-overflow hypothesis: what is queued, the telnet replies this
    pass can add and what this pass sends fit the buffer together -/
theorem C10_post_poll_buffer_below (d : Dev) (env : Env) (o : Oracle)
    (hfit : d.toBuf.length + (readyReplies { dev := d, env := env, sys := [] }).length +
      (sentBytes (postPoll d env o).2.2.1).length ≤ 65536) :
    ∃ kept reply,
      (kept = d.toBuf ∨ (∃ wr, wr ≠ [] ∧ wr ++ kept = d.toBuf ∧ Sys.write wr true ∈ (postPollReady d env).1.sys)) ∧
      (reply = [] ∨ ∃ bs, env.read = some (some bs) ∧ d.isPipe = false ∧
        reply = telnetReplies d.tstate d.tcmd (readOf d bs)) ∧
      ((postPoll d env o).1.dev.toBuf = kept ++ reply ++ sentBytes (postPoll d env o).2.2.1 ∨
       ((postPoll d env o).1.dev.toBuf = sentBytes (postPoll d env o).2.2.1 ∧
          (postPollReady d env).2 = true ∧ (postPollReady d env).1.dev.conn ≠ 0) ∨
       ((postPoll d env o).1.dev.toBuf = [] ∧ (postPollPre d env).1.dev.conn = 2 ∧
          ((postPoll d env o).1.dev.conn ≠ 2 ∨
           (postPoll d env o).1.dev.retryCount = (postPollPre d env).1.dev.retryCount + 1))) :=
  postPoll_buf_below d env o hfit

/-- non-vacuity of the no-overflow hypothesis (4 bytes in all) -/
example : Ex.fresh.toBuf.length + (readyReplies { dev := Ex.fresh, env := Ex.envTelnet, sys := [] }).length +
    (sentBytes (postPoll Ex.fresh Ex.envTelnet ⟨[]⟩).2.2.1).length = 4 := by decide +kernel

/-- `postPollReady`, `postPollPre` are the first stages of `postPoll` (descriptor events; then reconnect and ping) -/
theorem C10_post_poll_stages (d : Dev) (env : Env) (o : Oracle) :
    postPoll d env o =
      if (postPollReady d env).1.aborted then ((postPollReady d env).1, o, [], none)
      else processAction (postPollPre d env).1 o [] (postPollPre d env).2 :=
  postPoll_eq d env o

/-- non-vacuity, first case: the device answers the connect with a telnet `IAC DO SUPPRESS-GO-AHEAD`; after the pass
    the buffer holds the reply `IAC WILL SUPPRESS-GO-AHEAD` and then the login's "l" -/
example : (postPoll Ex.fresh Ex.envTelnet ⟨[]⟩).1.dev.toBuf = [255, 251, 3, 108] ∧
    sentBytes (postPoll Ex.fresh Ex.envTelnet ⟨[]⟩).2.2.1 = [108] := by decide +kernel

/-- non-vacuity, third case: the login times out, the error branch disconnects (and reconnects at once): the "l"
    that was waiting in the buffer is gone -/
example : (postPoll Ex.fresh Ex.env0 ⟨[]⟩).1.dev.toBuf = [108] ∧
    (postPoll (postPoll Ex.fresh Ex.env0 ⟨[]⟩).1.dev Ex.envLate ⟨[]⟩).1.dev.toBuf = [] ∧
    (postPoll (postPoll Ex.fresh Ex.env0 ⟨[]⟩).1.dev Ex.envLate ⟨[]⟩).1.dev.retryCount = 2 := by decide +kernel

/-! ## 5. the queue itself: `liblsd/list.c` at node level refines a plain list

Sections 1–4 carry every queue of the daemon (`dev->acts`, `act->exec`, the client list, the device list, plug lists,
statement lists, interpretation lists) as a plain Lean `List`.  In C they are liblsd `List`s: singly linked nodes taken
from a per-process free list, `head`, `tail` = address of the `next` field that holds the final `NULL`, `count`, and a chain of
registered iterators (`pos`, `prev` = address of a `next` field) that `list_node_create` / `list_node_destroy` patch so that
they survive insertions and removals made while they are alive — which `device.c` / `client.c` do.

`Pm/LsdList.lean` mirrors `list.c` function by function *with the nodes as memory cells with addresses* (compared with the real
code op by op by `lib/listlayer.py` / `harness/u_list.c`, complete state after every call).  `valid` is the representation
invariant (an executable check; it implies the one structural assertion of `list.c`,
`(i->pos == *i->prev) || (i->pos == (*i->prev)->next)`, for every iterator); `contents` reads the items off the chain from
`head`.  Every function of the model returns `none` where the C code would die (assertion, `NULL` / wild dereference, a loop
that does not end).  The theorems below hold for **every** valid state — any length, any node addresses, any number of
iterators anywhere — and every argument.

The iterators are described by the *list with cursors* `Abs` (`Pm/LsdListAbs.lean`): the items, and per iterator a cursor
`(j, g)` — it stands at gap `j` of the list; `g`: the item after the gap is the one it returned last (`list_remove` takes
it) and the next to return is the one after that.  `absOf l` is the list with cursors of a node-level state (the cursor is the
place the harness prints).  `Abs.ahead a k` = the items iterator `k` has still to return, `Abs.removable a k` = what
`list_remove` would take.  Not modelled: threads, `malloc` failure, callbacks that modify the list they are called from. -/

section list
open Pm.LsdList

/-- the list `1 2 3 4` with two iterators: handle 0 has returned `1` and `2`, handle 1 has returned `1` -/
def exList : LList Nat :=
  match LsdList.run (LsdList.create { cells := #[], free := [] } true)
      [.append 1, .append 2, .append 3, .append 4, .itCreate 0, .next 0, .next 0, .itCreate 1, .next 1] with
  | some (_, l) => l
  | none => LsdList.create { cells := #[], free := [] } true

example : LsdList.valid exList = true ∧ contents exList = [1, 2, 3, 4] ∧ (absOf exList).curs = [(1, (0, true)), (0, (1, true))] ∧
    (absOf exList).ahead 0 = [3, 4] ∧ (absOf exList).ahead 1 = [2, 3, 4] ∧ (absOf exList).removable 0 = some 2 := by
  decide +kernel

/-- `list_create` on a consistent node memory (for instance the empty one, or the one `list_destroy` leaves behind) gives a
    valid empty list without iterators; `list_destroy` of a valid list calls the deletion function (when there is one) on
    exactly the items, in order, and leaves a consistent node memory. -/
theorem C10_list_create_destroy (hp : Heap α) (fdel : Bool) (ho : HeapOk hp) :
    LsdList.valid (LsdList.create hp fdel) = true ∧ contents (LsdList.create hp fdel) = [] ∧
    (∀ l : LList α, LsdList.valid l = true →
      ∃ hp', LsdList.destroy l = some (if l.fdel then contents l else [], hp') ∧ HeapOk hp') :=
  ⟨(create_valid hp fdel ho).1, (create_valid hp fdel ho).2.1, fun _ h => destroy_valid h⟩

example : HeapOk ({ cells := #[], free := [] } : Heap Nat) := heapOk_empty
example : (LsdList.destroy exList).map (·.1) = some [1, 2, 3, 4] := by decide +kernel

/-- `valid`, the executable check the driver evaluates, is exactly the representation invariant the proofs use:
    there is a chain of distinct nodes from `head` to `NULL` carrying the items, `count` is its length, `tail` is the address of
    the field holding the final `NULL`, the free cells are distinct, exist and are not on the chain, the iterator handles are
    distinct and every iterator has a place on the chain. -/
theorem C10_list_valid_iff (l : LList α) : LsdList.valid l = true ↔ ∃ ns items, Rep l ns items := valid_iff l

/-- **The C code never dies, and it is a list.**  From any valid state, any sequence of calls of the whole API —
    append / prepend / push / enqueue / pop / dequeue / peek / count / is_empty / find_first / delete_all / for_each / sort with
    **any** pure callbacks (inconsistent comparison functions included), iterator create / reset / destroy / next / insert /
    find / remove / delete on any number of iterators, interleaved in any way — in which iterator handles are used properly
    (`okRun`: a handle is registered when used and not registered twice; this is the `magic` assertion of `list.c`): no
    assertion fires, no `NULL` or wild pointer is dereferenced, every loop ends; the final state is valid (hence every
    state on the way); and all answers and the final items and cursors are those of the list with cursors. -/
theorem C10_list_run (l : LList α) (ops : List (Op α)) (h : LsdList.valid l = true) (hok : (absOf l).okRun ops) :
    ∃ rs l', LsdList.run l ops = some (rs, l') ∧ LsdList.valid l' = true ∧ (absOf l).run ops = some (rs, absOf l') :=
  run_valid h ops hok

/-- conversely the model dies in a sequence of calls only where the list with cursors is undefined — and that is undefined
    only by misuse of a handle (`Abs.apply_isSome`: a call is defined iff `okOp`) -/
theorem C10_list_dies_only_on_handle_misuse (l : LList α) (ops : List (Op α)) (h : LsdList.valid l = true) :
    (LsdList.run l ops = none ↔ (absOf l).run ops = none) ∧ ∀ (a : Abs α) (op : Op α), (a.apply op).isSome = a.okOp op :=
  ⟨run_none_iff h ops, Abs.apply_isSome⟩

example : ((LsdList.run exList [.remove 1, .append 9, .insert 0 7, .deleteAll (fun x => x % 2 == 1), .sort (fun x y => (y : Int) - x),
    .next 0, .pop, .itDestroy 1, .next 0, .next 0]).map (·.1)) =
    some [.item (some 1), .item (some 9), .item (some 7), .deleted 3 [7, 3, 9], .unit, .item (some 4), .item (some 4), .unit,
      .item (some 2), .item none] := by decide +kernel

/-- `list_append` / `list_enqueue` put the item at the end, `list_prepend` / `list_push` at the front. -/
theorem C10_list_append_prepend (l : LList α) (x : α) (h : LsdList.valid l = true) :
    (∃ l', LsdList.append l x = some l' ∧ LsdList.enqueue l x = some l' ∧ LsdList.valid l' = true ∧ contents l' = contents l ++ [x]) ∧
    (∃ l', LsdList.prepend l x = some l' ∧ LsdList.push l x = some l' ∧ LsdList.valid l' = true ∧ contents l' = x :: contents l) := by
  obtain ⟨l1, e1, h1, c1, _⟩ := append_valid h x
  obtain ⟨l2, e2, h2, c2, _⟩ := prepend_valid h x
  exact ⟨⟨l1, e1, e1, h1, c1⟩, ⟨l2, e2, e2, h2, c2⟩⟩

/-- `list_pop` / `list_dequeue` take the first item (`NULL` on the empty list), `list_peek` shows it, `list_count` /
    `list_is_empty` are the length. -/
theorem C10_list_pop_peek_count (l : LList α) (h : LsdList.valid l = true) :
    (∃ l', LsdList.pop l = some ((contents l).head?, l') ∧ LsdList.dequeue l = some ((contents l).head?, l') ∧
      LsdList.valid l' = true ∧ contents l' = (contents l).tail) ∧
    LsdList.peek l = some (contents l).head? ∧ countOf l = (contents l).length ∧ LsdList.isEmpty l = (contents l).isEmpty := by
  obtain ⟨l1, e1, h1, c1, _⟩ := pop_valid h
  exact ⟨⟨l1, e1, e1, h1, c1⟩, peek_valid h, (count_valid h).1, (count_valid h).2⟩

/-- **The action queue is a FIFO** ("runs scripts strictly one after another in request order"): enqueue any items on any
    valid list, then dequeue as many times as there are items: they come out in the order they were in / went in, and the
    list is empty. -/
theorem C10_list_fifo (l : LList α) (xs : List α) (h : LsdList.valid l = true) :
    ∃ l', LsdList.run l (xs.map Op.enqueue ++ List.replicate (contents l ++ xs).length Op.dequeue) =
        some (xs.map (fun x => Res.item (some x)) ++ (contents l ++ xs).map (fun x => Res.item (some x)), l') ∧
      LsdList.valid l' = true ∧ contents l' = [] := by
  obtain ⟨l1, e1, h1, c1⟩ := run_enqueues xs l h
  obtain ⟨l2, e2, h2, c2⟩ := run_dequeues (contents l ++ xs).length l1 h1 (by rw [c1]; exact Nat.le_refl _)
  refine ⟨l2, ?_, h2, by rw [c2, c1]; simp⟩
  rw [run_append, e1]
  simp only [e2, Option.map_some, c1, List.take_length]

example : (LsdList.run exList ([5, 6].map Op.enqueue ++ List.replicate 6 Op.dequeue)).map (·.1) =
    some ([5, 6].map (fun x => Res.item (some x)) ++ [1, 2, 3, 4, 5, 6].map (fun x => Res.item (some x))) := by decide +kernel

/-- `list_find_first` returns the first item the callback accepts; `list_for_each` visits the items in order and returns
    their number, or minus the position at which the callback returned a negative value. -/
theorem C10_list_find_first_for_each (l : LList α) (f : α → Bool) (g : α → Int) (h : LsdList.valid l = true) :
    findFirst l f = some ((contents l).find? f) ∧ forEach l g = some (forEachAbs g (contents l) 0) :=
  ⟨findFirst_valid h f, forEach_valid h g⟩

example : findFirst exList (fun x => x > 2) = some (some 3) ∧ forEach exList (fun x => if x == 3 then -1 else 0) = some (-3) := by
  decide +kernel

/-- **`list_delete_all`** removes exactly the items the callback accepts and keeps the others in order — also under live
    iterators, which stay valid; it returns the number of removed items and calls the deletion function (when there is one)
    on exactly these, in order. -/
theorem C10_list_delete_all (l : LList α) (f : α → Bool) (h : LsdList.valid l = true) :
    ∃ l', deleteAll l f = some ((contents l).countP f, if l.fdel then (contents l).filter f else [], l') ∧
      LsdList.valid l' = true ∧ contents l' = (contents l).filter (fun x => !f x) :=
  let ⟨l', e, hv, hc, _⟩ := deleteAll_valid h f; ⟨l', e, hv, hc⟩

example : (deleteAll exList (fun x => x % 2 == 0)).map (fun r => (r.1, r.2.1, contents r.2.2)) = some (2, [2, 4], [1, 3]) ∧
    (deleteAll exList (fun x => x % 2 == 0)).map (fun r => (absOf r.2.2).curs) = some [(1, (1, false)), (0, (1, false))] := by
  decide +kernel

/-- **`list_delete_all` under a live iterator**: afterwards the iterator has still to return exactly the surviving items it
    had still to return, in order (none twice, none lost, no removed one). -/
theorem C10_list_delete_all_under_iterators (l : LList α) (f : α → Bool) (k : Nat) (h : LsdList.valid l = true)
    (hk : (iterOf l k).isSome) :
    ∃ n dl l', deleteAll l f = some (n, dl, l') ∧ LsdList.valid l' = true ∧
      (absOf l').ahead k = ((absOf l).ahead k).filter (fun x => !f x) :=
  deleteAll_ahead_valid h f k hk

example : (deleteAll exList (fun x => x % 2 == 1)).map (fun r => ((absOf r.2.2).ahead 0, (absOf r.2.2).ahead 1)) = some ([4], [2, 4]) := by
  decide +kernel

/-- **`list_sort`** — the in-place insertion sort on pointers — gives `sortList`, the insertion sort on a plain list, for
    **every** pure comparison function; the result has exactly the items it was given; when the comparison is a total
    preorder (`x ≥ y` implies `y ≤ x`, `≤` transitive) it is sorted; the state stays valid, and every iterator is reset (when
    there are at least two items — with fewer, nothing happens at all, iterators included). -/
theorem C10_list_sort (l : LList α) (cmp : α → α → Int) (h : LsdList.valid l = true) :
    ∃ l', LsdList.sort l cmp = some l' ∧ LsdList.valid l' = true ∧ contents l' = sortList cmp (contents l) ∧
      (contents l').Perm (contents l) ∧
      ((∀ a b, 0 ≤ cmp a b → cmp b a ≤ 0) → (∀ a b c, cmp a b ≤ 0 → cmp b c ≤ 0 → cmp a c ≤ 0) → SortedBy cmp (contents l')) ∧
      absOf l' = (absOf l).sort cmp := by
  obtain ⟨l', e, hv, hc, ha⟩ := sort_valid h cmp
  exact ⟨l', e, hv, hc, by rw [hc]; exact sortList_perm cmp _, fun h1 h2 => by rw [hc]; exact sortList_sorted cmp h1 h2 _, ha⟩

/-- **`list_sort` is stable** ("Note: The sort algorithm is stable", `list.h`), for a sign-consistent transitive comparison:
    every ascending subsequence of the list before — in particular any two items that compare equal — is a subsequence of the
    list after. -/
theorem C10_list_sort_stable (l : LList α) (cmp : α → α → Int) (h : LsdList.valid l = true)
    (hsym : ∀ a b, cmp a b ≤ 0 ↔ 0 ≤ cmp b a) (htrans : ∀ a b c, cmp a b ≤ 0 → cmp b c ≤ 0 → cmp a c ≤ 0)
    (sub : List α) (hsub : sub.Sublist (contents l)) (hasc : SortedBy cmp sub) :
    ∃ l', LsdList.sort l cmp = some l' ∧ sub.Sublist (contents l') := by
  obtain ⟨l', e, _, hc, _⟩ := sort_valid h cmp
  exact ⟨l', e, by rw [hc]; exact sortList_stable cmp hsym htrans _ _ hsub hasc⟩

/-- by the last digit: `12` stays in front of `2`, `11` in front of `1` -/
example : sortList (fun x y => ((x % 10 : Nat) : Int) - ((y % 10 : Nat) : Int)) [12, 11, 2, 1, 3] = [11, 1, 12, 2, 3] := by decide

/-- descending; then an inconsistent comparison ("everything is smaller than everything"): still a permutation, still valid -/
example : (LsdList.sort exList (fun x y => (y : Int) - x)).map (fun l => (contents l, (absOf l).curs, LsdList.valid l)) =
      some ([4, 3, 2, 1], [(1, (0, false)), (0, (0, false))], true) ∧
    (LsdList.sort exList (fun _ _ => -1)).map (fun l => (contents l, LsdList.valid l)) = some ([4, 3, 2, 1], true) := by decide +kernel

/-! ### iterators -/

/-- **`list_next`** returns the first of the items the iterator has still to return (`NULL` when there is none); that item
    is no longer ahead, it is what `list_remove` would now take; the list is unchanged and no other iterator moves. -/
theorem C10_list_next (l : LList α) (k : Nat) (h : LsdList.valid l = true) (hk : (iterOf l k).isSome) :
    ∃ l', LsdList.next l k = some (((absOf l).ahead k).head?, l') ∧ LsdList.valid l' = true ∧ contents l' = contents l ∧
      (absOf l').ahead k = ((absOf l).ahead k).tail ∧ (absOf l').removable k = ((absOf l).ahead k).head? ∧
      ∀ k', k' ≠ k → (absOf l').curOf k' = (absOf l).curOf k' :=
  next_valid h k hk

/-- **An iterator left alone returns exactly what is ahead of it, each item once, in order, then `NULL`.** -/
theorem C10_list_iterate (l : LList α) (k n : Nat) (h : LsdList.valid l = true) (hk : (iterOf l k).isSome) :
    ∃ l', LsdList.run l (List.replicate n (Op.next k)) = some ((List.range n).map (fun i => Res.item ((absOf l).ahead k)[i]?), l') ∧
      contents l' = contents l ∧ (absOf l').ahead k = ((absOf l).ahead k).drop n := by
  obtain ⟨ns, hr⟩ := valid_repA h
  have hk' : ((absOf l).curOf k).isSome := by rw [absOf_curOf hr]; exact hk
  obtain ⟨a', e, hi, ha, _⟩ := Abs.run_next_drain k n (absOf l) hk'
  obtain ⟨l', ns', e', hr'⟩ := (run_refines _ l ns _ hr).2 _ a' e
  exact ⟨l', e', by rw [hr'.contents, hi]; rfl, by rw [hr'.abs, ha]⟩

example : (LsdList.run exList (List.replicate 4 (Op.next 1))).map (·.1) =
    some [.item (some 2), .item (some 3), .item (some 4), .item none] := by decide +kernel

/-- **`list_find (i, f, key)`** returns the first item the callback accepts among those the iterator has still to return
    (`NULL` when there is none); afterwards the iterator has still to return what follows that item (nothing, after `NULL`). -/
theorem C10_list_find (l : LList α) (k : Nat) (f : α → Bool) (h : LsdList.valid l = true) (hk : (iterOf l k).isSome) :
    ∃ l', LsdList.find f (l.cells.size + 2) l k = some (((absOf l).ahead k).find? f, l') ∧ LsdList.valid l' = true ∧
      contents l' = contents l ∧ (absOf l').ahead k = (((absOf l).ahead k).dropWhile (fun x => !f x)).tail :=
  find_valid h k f hk

example : (LsdList.find (fun x => x == 3) (exList.cells.size + 2) exList 1).map (fun r => (r.1, (absOf r.2).ahead 1)) =
    some (some 3, [4]) := by decide +kernel

/-- **Insertion, seen from every iterator.**  Every insertion of `list.c` is `list_node_create` at some gap `f` of the list:
    `list_append` / `list_enqueue` at the last gap, `list_prepend` / `list_push` at gap 0, `list_insert (i, x)` at the gap of
    `i`'s own cursor.  For an iterator with cursor `(j, g)`: if `f ≤ j` the new item is **behind** it — it will not be
    returned, and what the iterator has still to return is unchanged; if `f > j` it is **ahead** — it will be returned, at
    its place among the items still to return.  In particular: a prepended item is never returned by an existing iterator;
    an iterator never returns what it inserts itself; an appended item is returned by every iterator except those whose
    cursor is at the last gap (an iterator that has returned `NULL`, or was created on the empty list: `f = j`).
    What `list_remove` would take is never changed by an insertion. -/
theorem C10_list_insertion_seen_by_iterators (a : Abs α) (f : Nat) (x : α) (k j : Nat) (g : Bool)
    (hc : a.curOf k = some (j, g)) (hf : f ≤ a.items.length) :
    (a.createAt f x).items = a.items.insertIdx f x ∧
    (a.createAt f x).ahead k = (if f ≤ j then a.ahead k else (a.ahead k).insertIdx (f - (j + g.toNat)) x) ∧
    (a.createAt f x).removable k = a.removable k :=
  ⟨rfl, Abs.ahead_createAt a f x k j g hc hf, Abs.removable_createAt a f x k⟩

/-- … and the node-level model does exactly that: `list_insert` through the iterator `k` inserts at `k`'s gap, in front of the
    item `k` returned last (when it remembers one), and the state stays valid. -/
theorem C10_list_insert (l : LList α) (k : Nat) (x : α) (h : LsdList.valid l = true) (hk : (iterOf l k).isSome) :
    ∃ l' c, (absOf l).curOf k = some c ∧ LsdList.insert l k x = some l' ∧ LsdList.valid l' = true ∧
      absOf l' = (absOf l).createAt c.1 x ∧ contents l' = (contents l).insertIdx c.1 x := by
  obtain ⟨l', c, hc, e, hv, ha, _⟩ := insert_valid h k x hk
  refine ⟨l', c, hc, e, hv, ha, ?_⟩
  have : contents l' = (absOf l').items := rfl
  rw [this, ha]; rfl

example : (absOf exList).curOf 0 = some (1, true) ∧
    (LsdList.insert exList 0 9).map (fun l => (contents l, (absOf l).ahead 0, (absOf l).ahead 1)) =
      some ([1, 9, 2, 3, 4], [3, 4], [9, 2, 3, 4]) ∧
    (LsdList.append exList 9).map (fun l => ((absOf l).ahead 0, (absOf l).ahead 1)) = some ([3, 4, 9], [2, 3, 4, 9]) ∧
    (LsdList.prepend exList 9).map (fun l => ((absOf l).ahead 0, (absOf l).ahead 1)) = some ([3, 4], [2, 3, 4]) := by decide +kernel

/-- **Removal, seen from every iterator.**  Every removal of `list.c` is `list_node_destroy` of the item at some index `f`:
    `list_pop` / `list_dequeue` at 0, `list_remove` / `list_delete` through an iterator at that iterator's remembered item,
    `list_delete_all` at every matching item in turn.  For an iterator whose next item has index `p = j + g`: an item behind
    it (`f < p`) leaves what it has still to return unchanged; an item ahead of it (`f ≥ p`) disappears from there — **an
    item removed before it is reached is never returned**. -/
theorem C10_list_removal_seen_by_iterators (a : Abs α) (f : Nat) (k j : Nat) (g : Bool) (hc : a.curOf k = some (j, g)) :
    (a.destroyAt f).items = a.items.eraseIdx f ∧
    (a.destroyAt f).ahead k = (if f < j + g.toNat then a.ahead k else (a.ahead k).eraseIdx (f - (j + g.toNat))) :=
  ⟨rfl, Abs.ahead_destroyAt a f k j g hc⟩

/-- **`list_remove`** through the iterator `k` removes and returns `removable k` (`NULL`, and nothing happens, when there is
    none); the state stays valid. -/
theorem C10_list_remove (l : LList α) (k : Nat) (h : LsdList.valid l = true) (hk : (iterOf l k).isSome) :
    ∃ l' c, (absOf l).curOf k = some c ∧ LsdList.remove l k = some ((absOf l).removable k, l') ∧ LsdList.valid l' = true ∧
      absOf l' = (if c.2 then (absOf l).destroyAt c.1 else absOf l) :=
  remove_valid h k hk

/-- **What `list_remove` will take, after a removal elsewhere.**  An iterator that remembers the item it returned last
    (cursor `(j, true)`) forgets it when that item is removed (`f = j`) — *and also when the item after it is removed*
    (`f = j + 1`: `list_node_destroy` sets `i->prev = pp` for every iterator whose `pos` is the removed node); any other
    removal leaves it as it is. -/
theorem C10_list_removable_after_removal (a : Abs α) (f : Nat) (k j : Nat) (hc : a.curOf k = some (j, true)) :
    (a.destroyAt f).removable k = if f = j ∨ f = j + 1 then none else a.removable k :=
  Abs.removable_destroyAt a f k j hc

/-- **No call moves an item from behind an iterator to ahead of it** — so no item is returned twice: `list_next` takes the
    returned item out of `ahead` (`C10_list_next`), and after any other call that does not restart the iterator
    (`list_iterator_reset` of it, `list_sort`) everything it has still to return was already ahead of it, or is the item this
    very call inserted. -/
theorem C10_list_never_back (l : LList α) (op : Op α) (k : Nat) (r : LsdList.Res α) (l' : LList α) (h : LsdList.valid l = true)
    (hk : (iterOf l k).isSome) (hr : op.restarts k = false) (e : op.apply l = some (r, l')) :
    (iterOf l' k).isSome ∧ LsdList.valid l' = true ∧ ∀ y ∈ (absOf l').ahead k, y ∈ (absOf l).ahead k ∨ y ∈ op.inserted := by
  obtain ⟨ns, hr0⟩ := valid_repA h
  obtain ⟨h1, h2⟩ := apply_refines hr0 op
  cases ha : (absOf l).apply op with
  | none => rw [h1 ha] at e; simp at e
  | some x =>
    obtain ⟨r0, a'⟩ := x
    obtain ⟨l1, ns1, e1, hr1⟩ := h2 r0 a' ha
    rw [e] at e1
    simp only [Option.some.injEq, Prod.mk.injEq] at e1
    obtain ⟨rfl, rfl⟩ := e1
    obtain ⟨h3, h4⟩ := Abs.apply_ahead (absOf l) hr0.wf op k r a' ha (by rw [absOf_curOf hr0]; exact hk) hr
    have hr1' : RepA l' ns1 (absOf l') := hr1.rep.repA
    rw [← hr1.abs] at h3 h4
    exact ⟨by rw [← absOf_curOf hr1']; exact h3, hr1.valid', h4⟩

/-- **`list.h` promises more than `list.c` does (1).**  "`list_remove`: removes from the list the last item returned via list
    iterator": iterator 0 has returned `1`; another iterator removes `2`, the item *after* it; `1` is still in the list and is
    still the last item iterator 0 returned — but `list_remove (0)` now returns `NULL` and removes nothing
    (and `list_insert (0, x)` would put `x` *after* `1`, not before it). -/
theorem C10_list_remove_forgets_counterexample :
    (LsdList.run (LsdList.create { cells := #[], free := [] } false)
      [.append 1, .append 2, .append 3, .itCreate 0, .next 0, .itCreate 1, .next 1, .next 1, .remove 1, .remove 0, .insert 0 9]).map
        (fun x => (x.1, contents x.2)) =
    some ([.item (some 1), .item (some 2), .item (some 3), .unit, .item (some 1), .unit, .item (some 1), .item (some 2),
           .item (some 2), .item none, .item (some 9)], [1, 9, 3]) := by decide +kernel

/-- **`list.h` promises more than `list.c` does (2).**  An iterator created on the empty list (or one that has returned
    `NULL`) stands at the last gap; items appended afterwards go *behind* it: `list_next` keeps returning `NULL` although the
    list is not empty and none of its items was ever returned. -/
theorem C10_list_iterator_on_empty_list_counterexample :
    (LsdList.run (LsdList.create { cells := #[], free := [] } false) [.itCreate 0, .append 1, .append 2, .next 0, .itReset 0, .next 0]).map
        (fun x => (x.1, contents x.2)) =
    some ([.unit, .item (some 1), .item (some 2), .item none, .unit, .item (some 1)], [1, 2]) := by decide +kernel

end list

end Pm.Props.C10
