import Pm.FrameTwo
import Pm.FrameStutter
import Pm.FrameCli
import Pm.FrameMulti
import Pm.FrameEx
import Pm.TwoRunEx
import Pm.RunXC05Ex
/-! # C05 — one sick device does not disturb the others

*"While one device is slow, silent, disconnected, refusing connections or emitting garbage, requests from any client whose
targets lie entirely on other devices complete with the same results and within the same time as if that device were
healthy, and a request spanning healthy and sick devices still reports correct per-node results for the healthy devices.
Actions on different devices progress concurrently rather than one device after another."*

Everything is stated over the mirrors that the differential harness compares with the C code on every run of the checks:
`Pm.Daemon.daemonPass` (the body of `powermand.c:_select_loop`: `cli_post_poll`, then `dev_post_poll`), whose device part
is `w0.devs.foldl (devPass p) (acc0 w0)`, one `devPass` per device in configuration order; `devPass p a nd` runs
`Pm.Dev2.postPoll` (= `dev_post_poll` for one device: `_handle_ready_device`, `_reconnect`, `_enqueue_ping`,
`_process_action`) on device `nd` with the shared arglist store plugged in, and delivers its callbacks to the clients
(`applyOuts` = `_act_finish`, the telemetry and the diagnostic callbacks).

Vocabulary (helper modules `Pm/FrameDev`, `FrameOracle`, `FrameRel`, `FrameConn`, `FrameProof`, `FrameTwo`, `FrameStutter`,
`FrameCli`, `FrameMulti`; example worlds and Boolean checkers for the hypotheses in `FrameEx`):

* `cliRec w g` — the record of the client with id `g` in world `w`;  `cell s al` — arglist `al` of the store `s`;
* `devStep p w o nd` — device `nd`'s own `dev_post_poll` share, from world `w` and oracle `o`;
  `stepped p a nd` — the entry it leaves in the list of processed devices;  `accAt p a l i` — the accumulator when the
  turn of device number `i` of `l` comes;
* a *node predicate* `Q : Bytes → Bool`: `QOff Q d` — no plug of `d` is wired to a `Q`-node; `QOn Q d` — all are;
  `ActsOK Q acts` — the plugs the queued actions carry in their execution contexts are wired to `Q`-nodes;
  `SAgree Q s s'` — the two stores have the same `Q`-node entries in every arglist; `GOk Q w g` — the command of client
  `g` (if any) targets `Q`-nodes only;
* the regex engine is an oracle whose recorded answers are consumed in call order (`Oracle.calls`); `NoMis outs` — the
  device was never out of step with it; `ExactOn p a l xs` — the answers `xs` are exactly what the devices `l` ask for
  when started from accumulator `a`;
* `strip nd` — a processed device without its (stale) copy of the store;  `DevAcc.dead` — a modelled `assert`/abort.

Ranking: frame (done) ▸ concurrency (done) ▸ non-interference of one pass (device phase: done; the client phase is a
hypothesis in general, see `C05_noninterference_pass_partial`; discharged for a quiet client phase — requests in flight —
in `C05_noninterference_inflight_partial`) ▸ any number of such passes (`C05_noninterference_passes_partial`) ▸ stutter (done
for a device stalled in `expect`) ▸ client input during the run (§5: `C05_noninterference`, `C05_noninterference_passes`: a general
client phase, with the observers of `B` excluded) ▸ descriptor renaming (not attempted: the counters stay a hypothesis) ▸ the
multi-pass statements over the shared runs `runX` of `Pm/RunX.lean` (§6: `C05_noninterference_passes_runX`, …; regex answers
arbitrary in every pass, `B`'s may differ between the two runs). -/
namespace Pm.Props.C05
open Pm Pm.Client Pm.Daemon
open Pm.Dev2 (Oracle Dev Action cell SAgree QOn QOff ActsOK NoMis Stalled)

/-! ## 1. Frame: what one device's share of the pass reads and writes -/

/-- **Reads.**  Device `nd`'s share of `dev_post_poll` is a function of: `nd` itself, the shared arglist store, the three
    counters that number the descriptors/pids it may be handed, the clock and the `connect`/`SO_ERROR` answers, the
    descriptor event addressed to `nd`'s own descriptor, and the oracle — of nothing else in the world or the pass input
    (not the other devices, not the clients, not the events of other descriptors). -/
theorem C05_frame_reads (p p' : PassIn) (w w' : W) (o : Oracle) (nd : Bytes × Dev)
    (hs : w.store = w'.store) (h1 : w.nsock = w'.nsock) (h2 : w.npair = w'.npair) (h3 : w.nfork = w'.nfork)
    (hn : p.now = p'.now) (hc : p.con = p'.con) (he : p.soe = p'.soe)
    (hev : ∀ fd, nd.2.fd = some fd → p.envs.find? (fun x => x.fd == fd) = p'.envs.find? (fun x => x.fd == fd)) :
    devStep p w o nd = devStep p' w' o nd :=
  devStep_reads p p' w w' o nd hs h1 h2 h3 hn hc he hev

/-- **Writes.**  `devPass` for device `nd`, whatever its state, its kernel answers and the oracle:

    1. a client (id `g ≠ 0`; id `0` marks the internal login/ping actions) none of whose actions is queued on `nd` keeps
       its record — output buffer, command in progress, pending count, everything;
    2. exactly one entry, under `nd`'s own name and with `nd`'s plugs and scripts, is appended to the processed devices;
       no other device is touched;
    3. an arglist (id `al ≠ 0`, see finding below) that no action queued on `nd` refers to keeps its store cell;
    4. in *every* arglist the entries of nodes not wired to `nd` are kept (`Q` any set of such nodes) — so in a request
       spanning `nd` and other devices the per-node results of the others are not touched by `nd`;
    5. of the rest of the world only the three descriptor/pid counters move, and only upwards. -/
theorem C05_frame_device (p : PassIn) (a : DevAcc) (nd : Bytes × Dev) :
    (∀ g, g ≠ 0 → (∀ x ∈ nd.2.acts, x.clientId ≠ g) → cliRec (devPass p a nd).w g = cliRec a.w g) ∧
    (∃ d', (devPass p a nd).devs = a.devs ++ [(nd.1, d')] ∧ d'.plugs = nd.2.plugs ∧ d'.scripts = nd.2.scripts) ∧
    (∀ al, al ≠ 0 → (∀ x ∈ nd.2.acts, x.arglist ≠ al) → (devPass p a nd).w.store.lookup al = a.w.store.lookup al) ∧
    (∀ Q : Bytes → Bool, QOff Q nd.2 → ∀ al,
        (cell (devPass p a nd).w.store al).filter (fun x => Q x.node) = (cell a.w.store al).filter (fun x => Q x.node)) ∧
    ({ (devPass p a nd).w with clients := a.w.clients, store := a.w.store, nsock := a.w.nsock, npair := a.w.npair, nfork := a.w.nfork } = a.w ∧
      a.w.nsock ≤ (devPass p a nd).w.nsock ∧ a.w.npair ≤ (devPass p a nd).w.npair ∧ a.w.nfork ≤ (devPass p a nd).w.nfork) :=
  ⟨fun g hg hq => devPass_client p a nd g hg hq, devPass_devs p a nd,
   fun al hal hq => devPass_store_cell p a nd al hal hq, fun Q hQ al => devPass_store_nodes p a nd Q hQ al, devPass_rest p a nd⟩

/- FINDING (hypothesis `al ≠ 0` of item 3).  The model gives the internal login and ping actions the arglist id `0`
   (`loginAction`, `arglist := 0`) while the first client command after start-up also gets id `0` (`W.alNext := 0`).  In
   the C code these actions have `act->arglist == NULL`; a login/ping script containing `setplugstate`/`setresult` would
   dereference it (`arglist_find(NULL, …)` → `hash_find(arglist->args, …)`), i.e. crash, where the model writes the
   client's arglist `0`.  The hypothesis excludes exactly that arglist; item 4 needs no such hypothesis. -/

/-- the device-level fact behind 1, 3 and 4: with `C` a set of client ids containing `0` and the ids of the queued
    actions, `L` a set of arglist ids containing `0` and those of the queued actions, `Q` a set of nodes none of which is
    wired to the device — every `finish`/`telemetry`/`diag` callback of `dev_post_poll` is addressed to a client of `C`,
    arglists outside `L` keep their cell, `Q`-entries are kept everywhere, plugs and scripts are kept.
    (Generalises `C11_completions_owned` from completions to all three callbacks and to the store.) -/
theorem C05_frame_postPoll (Q : Bytes → Bool) (C L : Nat → Prop) (d : Dev) (env : Pm.Dev2.Env) (o : Oracle)
    (hQ : QOff Q d) (h0 : C 0 ∧ L 0) (hacts : ∀ a ∈ d.acts, C a.clientId ∧ L a.arglist) :
    Pm.Dev2.PAFrame Q C L d (Pm.Dev2.postPoll d env o) :=
  Pm.Dev2.postPoll_frame Q C L d env o hQ h0 hacts

/- non-vacuity: in the example world (`Pm/FrameEx.lean`: devices `A`, `B`, `C`; client 1 has an `on` queued on `A`, client
   2 one on `B`) device `B` — healthy or emitting garbage — has no action of client 1, is not wired to `A`'s node, and its
   step leaves client 1's record alone; `A`'s step does change it (the command completes). -/
example : (∀ x ∈ Ex.devB'.acts, x.clientId ≠ 1) ∧ QOff Ex.Q Ex.devB' := ⟨Ex.noG _ rfl, Ex.qOff _ rfl⟩
example : (cliRec (devPass Ex.pin (acc0 Ex.w2) Ex.B').w 1).map (·.toBuf) = some [] ∧
    (cliRec (devPass Ex.pin (acc0 Ex.w2) Ex.A).w 1).map (·.toBuf) =
      some (bstr "102 Command completed successfully\r\npowerman> ") := by decide +kernel

/-! ## 3. Concurrency: all devices get their actions at once, and every device is stepped in every pass -/

/-- `_create_command` + `dev_enqueue_actions`: one call either refuses (the world is unchanged) or replaces **every**
    device by its enqueued version (`instDev`: the device's own `enqueue`, plus the retry-counter reset for a device that is
    not connected) in the same step, opens one new arglist, and touches nothing else: all actions of a request exist
    before any device runs. -/
theorem C05_concurrent_install (w : W) (c : Cli) (com : Com) (names : List Name) :
    (install w c com names).1 = w ∨
    ∃ args, (install w c com names).1 =
      { w with devs := w.devs.map (instDev (comIdx com) (names.map ofChars) c.id c.telemetry w.alNext),
               store := (w.alNext, args) :: w.store, alNext := w.alNext + 1 } :=
  install_world w c com names

/- non-vacuity: a third client asks `on a1,b1` in the example world: in the one call `A` and `B` both get their action (queue
   lengths 1,1,0 → 2,2,0), one arglist is opened, `pending` is 2 -/
example : ((install Ex.w1 { id := 3, fd := 1002 } .on [['a', '1'], ['b', '1']]).1.devs.map fun nd => nd.2.acts.length) = [2, 2, 0] ∧
    (install Ex.w1 { id := 3, fd := 1002 } .on [['a', '1'], ['b', '1']]).1.store.length = 3 ∧
    (install Ex.w1 { id := 3, fd := 1002 } .on [['a', '1'], ['b', '1']]).2.cmd.map (·.pending) = some 2 := by decide +kernel

/-- In the pass every device of the list is stepped, in configuration order, whatever the others did: device number `i`
    leaves `stepped p (accAt p a l i) nd` — its own `dev_post_poll` share (`devStep`) run from the accumulator of its own
    turn, or itself unchanged once the model's `dead` flag (a C `assert`/abort) is set.  By `C05_frame_reads` that share
    reads of the accumulator only the store, the counters and the oracle: not whether another device's action
    finished, stalled or failed.  No device waits for another. -/
theorem C05_concurrent_pass (p : PassIn) (l : List (Bytes × Dev)) (a : DevAcc) :
    (l.foldl (devPass p) a).devs.length = a.devs.length + l.length ∧
    ((l.foldl (devPass p) a).devs.map (·.1)) = a.devs.map (·.1) ++ l.map (·.1) ∧
    ∀ i nd, l[i]? = some nd → (l.foldl (devPass p) a).devs[a.devs.length + i]? = some (stepped p (accAt p a l i) nd) := by
  refine ⟨foldl_devs_length p l a, ?_, ?_⟩
  · rw [foldl_devs, List.map_append, steppedList_names]
  · intro i nd h
    rw [foldl_devs, List.getElem?_append_right (Nat.le_add_right _ _), Nat.add_sub_cancel_left]
    exact steppedList_get p l a i nd h

/-- the same for `daemonPass`: unless the client phase ended the process, the devices of the new world are exactly the
    stepped devices, one per configured device -/
theorem C05_concurrent_daemonPass (w : W) (p : PassIn) (h : (cliPostPoll w p.acc p.envs).exited = false) :
    (daemonPass w p).1.devs = steppedList p (acc0 (cliPostPoll w p.acc p.envs)) (cliPostPoll w p.acc p.envs).devs ∧
    (daemonPass w p).1.devs.length = (cliPostPoll w p.acc p.envs).devs.length := by
  rw [daemonPass_fst]
  simp only [h, Bool.false_eq_true, ↓reduceIte]
  rw [foldl_devs]
  exact ⟨by simp [acc0], by simp [acc0, steppedList_length]⟩

/- non-vacuity: in the example pass all three devices are stepped: `A` completes its action, `B'` stays stalled with its
   garbage, `C` stays idle -/
example : (daemonPass Ex.w2 Ex.pin).1.devs.map (fun nd => (nd.1, nd.2.acts.length, nd.2.fromBuf)) =
    [([65], 0, []), ([66], 1, [1, 2, 3]), ([67], 0, [])] := by decide +kernel

/-! ## 2. Non-interference of one pass -/

/-- **Device phase.**  Two runs of the device phase, over `pre ++ B :: post` and `pre ++ B' :: post`: the device at
    position `pre.length` is arbitrary in each run (`B`, `B'`: any state, any queue, any buffers, connected or not), the
    other devices are the same.  Let `Q` be a set of nodes such that no plug of `B`/`B'` is wired to a `Q`-node while the
    plugs of all other devices, and the plugs their queued actions carry, are wired to `Q`-nodes only (no node hangs on
    `B` and on another device at once).  Suppose

    * the two pass inputs have the same clock and `connect`/`SO_ERROR` answers and the same descriptor events for every
      device other than `B` (`SameClock`, `SameEvents`); `B`'s own events are arbitrary;
    * initially client `g` (`g ≠ 0`) has the same record in both worlds, its command — if any — targets `Q`-nodes only, the
      stores agree on the entries of `Q`-nodes, and the descriptor/pid counters are equal (`AccCore`, `hn1..3`);
    * client `g` has no action queued on `B` nor on `B'`;
    * the recorded regex answers are `xp ++ xB ++ xq` in the first run and `xp ++ xB' ++ xq` in the second, where `xp` is
      exactly what the devices before `B` consume (`E1`, `E1'`) and `xB`, `xB'` exactly what `B`, `B'` consume (`E2`, `E2'`);
    * `B` and `B'` are handed the same *number* of new descriptors/pids (`hc1..3`: the counters after their step agree);
    * neither run hits a modelled `assert` (`hd`, `hd'`).

    Then after the phase (`AccRel`): client `g`'s record is the same in both runs; every device other than `B` ends in
    the same state (up to its stale store copy, `strip`); the stores still agree on the entries of `Q`-nodes; the counters
    and the remaining oracle answers are the same. -/
theorem C05_noninterference_devices (Q : Bytes → Bool) (p p' : PassIn) (pre post : List (Bytes × Dev)) (B B' : Bytes × Dev)
    (a0 a0' : DevAcc) (g : Nat) (xp xB xB' xq : List Pm.Dev2.RxCall)
    (hp : SameClock p p')
    (hcore : AccCore Q g pre.length a0 a0') (hdv : a0.devs = [])
    (hn1 : a0.w.nsock = a0'.w.nsock) (hn2 : a0.w.npair = a0'.w.npair) (hn3 : a0.w.nfork = a0'.w.nfork)
    (hx : a0.oracle.calls = xp ++ (xB ++ xq)) (hx' : a0'.oracle.calls = xp ++ (xB' ++ xq))
    (hl : ∀ nd ∈ pre ++ post, SameEvents p p' nd ∧ QOn Q nd.2 ∧ ActsOK Q nd.2.acts)
    (hg : g ≠ 0) (hq : ∀ x ∈ B.2.acts, x.clientId ≠ g) (hq' : ∀ x ∈ B'.2.acts, x.clientId ≠ g)
    (hQ : QOff Q B.2) (hQ' : QOff Q B'.2)
    (hd : ((pre ++ B :: post).foldl (devPass p) a0).dead = false)
    (hd' : ((pre ++ B' :: post).foldl (devPass p') a0').dead = false)
    (E1 : ExactOn p a0 pre xp) (E1' : ExactOn p' a0' pre xp)
    (E2 : ExactOn p (pre.foldl (devPass p) a0) [B] xB) (E2' : ExactOn p' (pre.foldl (devPass p') a0') [B'] xB')
    (hc1 : (devPass p (pre.foldl (devPass p) a0) B).w.nsock = (devPass p' (pre.foldl (devPass p') a0') B').w.nsock)
    (hc2 : (devPass p (pre.foldl (devPass p) a0) B).w.npair = (devPass p' (pre.foldl (devPass p') a0') B').w.npair)
    (hc3 : (devPass p (pre.foldl (devPass p) a0) B).w.nfork = (devPass p' (pre.foldl (devPass p') a0') B').w.nfork) :
    AccRel Q g pre.length ((pre ++ B :: post).foldl (devPass p) a0) ((pre ++ B' :: post).foldl (devPass p') a0') :=
  fold_noninterference Q p p' pre post B B' a0 a0' g xp xB xB' xq hp hcore hdv hn1 hn2 hn3 hx hx' hl hg hq hq' hQ hQ'
    hd hd' E1 E1' E2 E2' hc1 hc2 hc3

/-- what `AccRel` says, spelled out -/
theorem C05_AccRel_spelled (Q : Bytes → Bool) (g j : Nat) (a a' : DevAcc) (h : AccRel Q g j a a') :
    cliRec a.w g = cliRec a'.w g ∧
    (∀ i, i ≠ j → (a.devs[i]?).map strip = (a'.devs[i]?).map strip) ∧ a.devs.length = a'.devs.length ∧
    SAgree Q a.w.store a'.w.store ∧
    a.w.nsock = a'.w.nsock ∧ a.w.npair = a'.w.npair ∧ a.w.nfork = a'.w.nfork ∧ a.oracle = a'.oracle :=
  ⟨h.cli, h.devs, h.len, h.store, h.nsock, h.npair, h.nfork, h.oracle⟩

/- non-vacuity: the two example worlds — `B` healthy and waiting, `B'` with garbage in its buffer that the regex engine
   is asked about (`xB = []`, `xB' ≠ []`) — satisfy every hypothesis (`Ex.instance_ok` applies the theorem to them); client
   1, whose `on` targets `A`'s node, gets the same final reply in both, and `A`, `C` end in the same state. -/
example : AccRel Ex.Q 1 1 (([Ex.A] ++ Ex.B :: [Ex.C]).foldl (devPass Ex.pin) (acc0 Ex.w1))
    (([Ex.A] ++ Ex.B' :: [Ex.C]).foldl (devPass Ex.pin) (acc0 Ex.w2)) := Ex.instance_ok
example : (cliRec (daemonPass Ex.w1 Ex.pin).1 1).map (fun c => (c.toBuf, c.cmd.isSome)) =
      some (bstr "102 Command completed successfully\r\npowerman> ", false) ∧
    (cliRec (daemonPass Ex.w2 Ex.pin).1 1).map (fun c => (c.toBuf, c.cmd.isSome)) =
      some (bstr "102 Command completed successfully\r\npowerman> ", false) ∧
    ((daemonPass Ex.w1 Ex.pin).1.devs.map fun nd => nd.2.fromBuf) = [[], [], []] ∧
    ((daemonPass Ex.w2 Ex.pin).1.devs.map fun nd => nd.2.fromBuf) = [[], [1, 2, 3], []] := by decide +kernel

/- FULL STATEMENT AIMED AT (not proved):  for worlds `w`, `w'` that agree on everything except device `B`'s own state, and
   pass inputs `p`, `p'` that agree on everything except `B`'s descriptor events and the oracle answers `B` consumes,
   `cliRec (daemonPass w p).1 g = cliRec (daemonPass w' p').1 g` and every device other than `B` is equal — with the
   hypotheses stated on `w`, `w'` themselves.

   PROVED (`_partial`): the same with the hypotheses stated on `w0 = cliPostPoll w p.acc p.envs` and `w0'`, the worlds the
   *client phase* of the pass leaves.  EXTRA HYPOTHESIS: that the client phase keeps the agreement (`hcli`, `hgok`, `hst`,
   `hn1..3`, `hdevs`, `hdevs'`, `hx`, `hx'` below are about `w0`, `w0'`).  Why it is not discharged: `cli_post_poll` reads the
   devices in two places — `install` (`dev_check_actions`/`dev_enqueue_actions`: of `B` it reads only plugs, scripts and,
   for the retry-counter reset on `B` itself, the connect state) and the `device` query (`_client_query_device_reply`
   prints `B`'s connect state and counters: a genuine, intended flow from `B` to a client that asks about `B`).  A
   relational proof through `clientPass`/`handleInput`/`parseLine` with "no `device` query covering `B`" as a
   hypothesis was not attempted.  It excludes nothing for a pass in which no client line is processed. -/
theorem C05_noninterference_pass_partial (Q : Bytes → Bool) (w w' : W) (p p' : PassIn) (w0 w0' : W)
    (pre post : List (Bytes × Dev)) (B B' : Bytes × Dev) (g : Nat) (xp xB xB' xq : List Pm.Dev2.RxCall)
    (hw0 : cliPostPoll w p.acc p.envs = w0) (hw0' : cliPostPoll w' p'.acc p'.envs = w0')
    (hex : w0.exited = false) (hex' : w0'.exited = false)
    (hdevs : w0.devs = pre ++ B :: post) (hdevs' : w0'.devs = pre ++ B' :: post)
    (hp : SameClock p p')
    (hcli : cliRec w0 g = cliRec w0' g) (hgok : GOk Q w0 g) (hst : SAgree Q w0.store w0'.store)
    (hn1 : w0.nsock = w0'.nsock) (hn2 : w0.npair = w0'.npair) (hn3 : w0.nfork = w0'.nfork)
    (hx : w0.pendingX = xp ++ (xB ++ xq)) (hx' : w0'.pendingX = xp ++ (xB' ++ xq))
    (hl : ∀ nd ∈ pre ++ post, SameEvents p p' nd ∧ QOn Q nd.2 ∧ ActsOK Q nd.2.acts)
    (hg : g ≠ 0) (hq : ∀ x ∈ B.2.acts, x.clientId ≠ g) (hq' : ∀ x ∈ B'.2.acts, x.clientId ≠ g)
    (hQ : QOff Q B.2) (hQ' : QOff Q B'.2)
    (hd : ((pre ++ B :: post).foldl (devPass p) (acc0 w0)).dead = false)
    (hd' : ((pre ++ B' :: post).foldl (devPass p') (acc0 w0')).dead = false)
    (E1 : ExactOn p (acc0 w0) pre xp) (E1' : ExactOn p' (acc0 w0') pre xp)
    (E2 : ExactOn p (pre.foldl (devPass p) (acc0 w0)) [B] xB) (E2' : ExactOn p' (pre.foldl (devPass p') (acc0 w0')) [B'] xB')
    (hc1 : (devPass p (pre.foldl (devPass p) (acc0 w0)) B).w.nsock = (devPass p' (pre.foldl (devPass p') (acc0 w0')) B').w.nsock)
    (hc2 : (devPass p (pre.foldl (devPass p) (acc0 w0)) B).w.npair = (devPass p' (pre.foldl (devPass p') (acc0 w0')) B').w.npair)
    (hc3 : (devPass p (pre.foldl (devPass p) (acc0 w0)) B).w.nfork = (devPass p' (pre.foldl (devPass p') (acc0 w0')) B').w.nfork) :
    cliRec (daemonPass w p).1 g = cliRec (daemonPass w' p').1 g ∧
    (∀ i, i ≠ pre.length → ((daemonPass w p).1.devs[i]?).map strip = ((daemonPass w' p').1.devs[i]?).map strip) ∧
    SAgree Q (daemonPass w p).1.store (daemonPass w' p').1.store :=
  pass_noninterference Q w w' p p' w0 w0' pre post B B' g xp xB xB' xq hw0 hw0' hex hex' hdevs hdevs' hp hcli hgok hst
    hn1 hn2 hn3 hx hx' hl hg hq hq' hQ hQ' hd hd' E1 E1' E2 E2' hc1 hc2 hc3

/- non-vacuity: in the example pass no client has input, the client phase leaves the worlds as they are, and the
   hypotheses are those of `Ex.instance_ok` -/
example : cliPostPoll Ex.w1 Ex.pin.acc Ex.pin.envs = { Ex.w1 with sys := [], caps := [] } ∧
    (cliPostPoll Ex.w1 Ex.pin.acc Ex.pin.envs).devs = [Ex.A] ++ Ex.B :: [Ex.C] := ⟨rfl, rfl⟩

/-- **One whole pass, requests in flight.**  `w'` is `w` with device `B` replaced by an arbitrary `B'` and the oracle answers
    `B` consumes by those `B'` consumes; the pass inputs `p`, `p'` agree on the clock and on the events of every other
    device, accept no connection, and bring nothing for any client (`QuietCli`: no event on its descriptor, no complete
    line buffered, not about to be destroyed) — the situation of requests already in flight while `B` misbehaves.  With
    `Q`, `g`, the oracle segmentation, the counter and no-`assert` hypotheses as in `C05_noninterference_devices` (now
    stated on `w`, `w'`, `p`, `p'` themselves), after `daemonPass`: client `g` has the same record in both worlds — the
    same bytes to send, the same command state —, every device other than `B` is in the same state, and the stores agree
    on the entries of all nodes not wired to `B`.  (`_partial` with respect to the full statement above only in the
    hypothesis that the client phase is quiet.) -/
theorem C05_noninterference_inflight_partial (Q : Bytes → Bool) (w w' : W) (p p' : PassIn)
    (pre post : List (Bytes × Dev)) (B B' : Bytes × Dev) (g : Nat) (xp xB xB' xq : List Pm.Dev2.RxCall)
    (hdevs : w.devs = pre ++ B :: post) (hx : w.pendingX = xp ++ (xB ++ xq))
    (hw' : w' = { w with devs := pre ++ B' :: post, pendingX := xp ++ (xB' ++ xq) })
    (hexit : w.exited = false)
    (hacc : p.acc = 0) (hacc' : p'.acc = 0)
    (hquiet : ∀ c ∈ w.clients, QuietCli p.envs c ∧ QuietCli p'.envs c) (hu : UniqueIds w.clients)
    (hp : SameClock p p') (hgok : GOk Q w g)
    (hl : ∀ nd ∈ pre ++ post, SameEvents p p' nd ∧ QOn Q nd.2 ∧ ActsOK Q nd.2.acts)
    (hg : g ≠ 0) (hq : ∀ x ∈ B.2.acts, x.clientId ≠ g) (hq' : ∀ x ∈ B'.2.acts, x.clientId ≠ g)
    (hQ : QOff Q B.2) (hQ' : QOff Q B'.2)
    (hd : ((pre ++ B :: post).foldl (devPass p) (acc0 (cliPostPoll w p.acc p.envs))).dead = false)
    (hd' : ((pre ++ B' :: post).foldl (devPass p') (acc0 (cliPostPoll w' p'.acc p'.envs))).dead = false)
    (E1 : ExactOn p (acc0 (cliPostPoll w p.acc p.envs)) pre xp) (E1' : ExactOn p' (acc0 (cliPostPoll w' p'.acc p'.envs)) pre xp)
    (E2 : ExactOn p (pre.foldl (devPass p) (acc0 (cliPostPoll w p.acc p.envs))) [B] xB)
    (E2' : ExactOn p' (pre.foldl (devPass p') (acc0 (cliPostPoll w' p'.acc p'.envs))) [B'] xB')
    (hc1 : (devPass p (pre.foldl (devPass p) (acc0 (cliPostPoll w p.acc p.envs))) B).w.nsock
         = (devPass p' (pre.foldl (devPass p') (acc0 (cliPostPoll w' p'.acc p'.envs))) B').w.nsock)
    (hc2 : (devPass p (pre.foldl (devPass p) (acc0 (cliPostPoll w p.acc p.envs))) B).w.npair
         = (devPass p' (pre.foldl (devPass p') (acc0 (cliPostPoll w' p'.acc p'.envs))) B').w.npair)
    (hc3 : (devPass p (pre.foldl (devPass p) (acc0 (cliPostPoll w p.acc p.envs))) B).w.nfork
         = (devPass p' (pre.foldl (devPass p') (acc0 (cliPostPoll w' p'.acc p'.envs))) B').w.nfork) :
    cliRec (daemonPass w p).1 g = cliRec (daemonPass w' p').1 g ∧
    (∀ i, i ≠ pre.length → ((daemonPass w p).1.devs[i]?).map strip = ((daemonPass w' p').1.devs[i]?).map strip) ∧
    SAgree Q (daemonPass w p).1.store (daemonPass w' p').1.store :=
  pass_noninterference_inflight Q w w' p p' pre post B B' g xp xB xB' xq hdevs hx hw' hexit hacc hacc' hquiet hu hp hgok
    hl hg hq hq' hQ hQ' hd hd' E1 E1' E2 E2' hc1 hc2 hc3

/- non-vacuity: the example worlds `Ex.w1` (healthy `B`) and `Ex.w2` (`B'` emitting garbage, one more oracle answer)
   satisfy every hypothesis (`Ex.inflight_ok` applies the theorem to them) -/
example : cliRec (daemonPass Ex.w1 Ex.pin).1 1 = cliRec (daemonPass Ex.w2 Ex.pin).1 1 ∧
    (∀ i, i ≠ 1 → ((daemonPass Ex.w1 Ex.pin).1.devs[i]?).map strip = ((daemonPass Ex.w2 Ex.pin).1.devs[i]?).map strip) ∧
    SAgree Ex.Q (daemonPass Ex.w1 Ex.pin).1.store (daemonPass Ex.w2 Ex.pin).1.store := Ex.inflight_ok

/-- **Any number of passes, requests in flight.**  `PassRel Q g j w w'` is the relation between the two worlds between
    passes: client `g` has the same record and targets `Q`-nodes only, the stores agree on the entries of `Q`-nodes, the
    descriptor/pid counters are equal, the device lists agree except at position `j` (and except for the devices' stale
    store copies), and neither process has exited.  `PassHyps` collects, for one pass, the hypotheses of
    `C05_noninterference_inflight_partial` (quiet client phase, same clock, same events for the other devices, `Q`
    separates the device at position `j` from the others, client `g` has nothing queued on it, oracle segmentation,
    same number of new descriptors, no `assert`) — with the device at position `j` *arbitrary in each world*.
    One such pass re-establishes the relation. -/
theorem C05_relation_kept_by_pass (Q : Bytes → Bool) (g j : Nat) (w w' : W) (p p' : PassIn) (xp xB xB' xq : List Pm.Dev2.RxCall)
    (hr : PassRel Q g j w w') (h : PassHyps Q g j w w' p p' xp xB xB' xq) :
    PassRel Q g j (daemonPass w p).1 (daemonPass w' p').1 :=
  pass_rel_step Q g j w w' p p' xp xB xB' xq hr h

/-- Hence over any number of passes (`passes w ps`: each pass given with the regex answers recorded for it; `GoodRun`: every
    pass of the two runs satisfies `PassHyps`): as long as no client types anything, the record of a client with nothing
    queued on the sick device evolves identically pass by pass — the final reply is produced in the same pass, with the
    same text — and every healthy device goes through the same states, however device `j` behaves in the two runs.
    This is the "same results … within the same time" of the property for requests in flight.  (`_partial`: client
    input during the run is excluded, and so are behaviours of the sick device that consume a different number of
    descriptors than the healthy one, e.g. reconnecting — see the report.) -/
theorem C05_noninterference_passes_partial (Q : Bytes → Bool) (g j : Nat) (w w' : W)
    (l : List ((PassIn × List Pm.Dev2.RxCall) × (PassIn × List Pm.Dev2.RxCall)))
    (hr : PassRel Q g j w w') (h : GoodRun Q g j w w' l) :
    PassRel Q g j (passes w (l.map (·.1))) (passes w' (l.map (·.2))) :=
  passes_rel Q g j w w' l hr h

/- non-vacuity: two passes (times 2000 and 3000) of the example worlds.  In the first `A` completes client 1's command; in
   both the healthy `B` waits while the sick `B'` asks the regex engine about its garbage again.  `Ex.good2` proves
   `GoodRun` for them, `Ex.rel0` the initial relation. -/
example : PassRel Ex.Q 1 1 (passes Ex.w1 (Ex.runs.map (·.1))) (passes Ex.w2 (Ex.runs.map (·.2))) := Ex.twoPasses_ok

/-- **"…within the same time", one pass.**  Under the hypotheses of `C05_noninterference_devices`, every healthy device
    fires the same callbacks and registers the same wake-up time in both runs (`stepOut … = (oracle remainder, callbacks,
    timeout)`): devices before `B` (first part; their oracle remainders differ by `B`'s answers, hence `.2`), devices after
    `B` (second part, everything equal). -/
theorem C05_noninterference_steps (Q : Bytes → Bool) (p p' : PassIn) (pre post : List (Bytes × Dev)) (B B' : Bytes × Dev)
    (a0 a0' : DevAcc) (g : Nat) (xp xB xB' xq : List Pm.Dev2.RxCall)
    (hp : SameClock p p')
    (hcore : AccCore Q g pre.length a0 a0') (hdv : a0.devs = [])
    (hn1 : a0.w.nsock = a0'.w.nsock) (hn2 : a0.w.npair = a0'.w.npair) (hn3 : a0.w.nfork = a0'.w.nfork)
    (hx : a0.oracle.calls = xp ++ (xB ++ xq)) (hx' : a0'.oracle.calls = xp ++ (xB' ++ xq))
    (hl : ∀ nd ∈ pre ++ post, SameEvents p p' nd ∧ QOn Q nd.2 ∧ ActsOK Q nd.2.acts)
    (hg : g ≠ 0) (hq : ∀ x ∈ B.2.acts, x.clientId ≠ g) (hq' : ∀ x ∈ B'.2.acts, x.clientId ≠ g)
    (hQ : QOff Q B.2) (hQ' : QOff Q B'.2)
    (hd : ((pre ++ B :: post).foldl (devPass p) a0).dead = false)
    (hd' : ((pre ++ B' :: post).foldl (devPass p') a0').dead = false)
    (E1 : ExactOn p a0 pre xp) (E1' : ExactOn p' a0' pre xp)
    (E2 : ExactOn p (pre.foldl (devPass p) a0) [B] xB) (E2' : ExactOn p' (pre.foldl (devPass p') a0') [B'] xB')
    (hc1 : (devPass p (pre.foldl (devPass p) a0) B).w.nsock = (devPass p' (pre.foldl (devPass p') a0') B').w.nsock)
    (hc2 : (devPass p (pre.foldl (devPass p) a0) B).w.npair = (devPass p' (pre.foldl (devPass p') a0') B').w.npair)
    (hc3 : (devPass p (pre.foldl (devPass p) a0) B).w.nfork = (devPass p' (pre.foldl (devPass p') a0') B').w.nfork) :
    (∀ i nd, pre[i]? = some nd → (stepOut p (accAt p a0 pre i) nd).2 = (stepOut p' (accAt p' a0' pre i) nd).2) ∧
    (∀ i nd, post[i]? = some nd →
      stepOut p (accAt p (devPass p (pre.foldl (devPass p) a0) B) post i) nd =
      stepOut p' (accAt p' (devPass p' (pre.foldl (devPass p') a0') B') post i) nd) :=
  fold_noninterference_steps Q p p' pre post B B' a0 a0' g xp xB xB' xq hp hcore hdv hn1 hn2 hn3 hx hx' hl hg hq hq' hQ hQ'
    hd hd' E1 E1' E2 E2' hc1 hc2 hc3

/-- **No device can postpone another's wake-up.**  The timeout the pass hands to `poll` is the minimum over the devices:
    whatever wake-up time `t` a device registers in its turn (deadline of its head action, scripted delay, reconnect
    back-off, next ping), the pass ends with a timeout that is set and not later than `t` — whatever the other devices,
    sick or healthy, did.  (A sick device can only make the daemon wake *earlier*.) -/
theorem C05_wakeup_not_postponed (p : PassIn) (l : List (Bytes × Dev)) (a : DevAcc) (i : Nat) (nd : Bytes × Dev) (t : Nat)
    (hi : l[i]? = some nd) (hd : (accAt p a l i).dead = false) (ht : (stepOut p (accAt p a l i) nd).2.2 = some t) :
    ∃ t', (l.foldl (devPass p) a).tmo = some t' ∧ t' ≤ t :=
  foldl_tmo_le p l a i nd t hi hd ht

/- non-vacuity: in the example pass `A` (whose action completes) registers nothing, `B` registers its deadline
   1000 + 5000000 − 2000, and that is the timeout of the pass in both worlds -/
example : (daemonPass Ex.w1 Ex.pin).1.tmo = some 4999000 ∧ (daemonPass Ex.w2 Ex.pin).1.tmo = some 4999000 := by decide +kernel

/-- the two device-level facts the theorem rests on.  (a) *Store*: run with a store `s'` that agrees with the device's
    own on the entries of `Q`-nodes (`Q` containing the nodes of its plugs and of the plugs its actions carry), the
    device's share of `dev_post_poll` yields the same device (apart from the store copy), the same oracle remainder, the
    same callbacks and the same registered timeout, and the two resulting stores agree on `Q` again. -/
theorem C05_postPoll_store_independent (Q : Bytes → Bool) (d : Dev) (env : Pm.Dev2.Env) (o : Oracle) (s' : Pm.Dev2.Store)
    (hS : SAgree Q d.args s') (hQ : QOn Q d) (hacts : ActsOK Q d.acts) :
    ∃ t', Pm.Dev2.postPoll (Pm.Dev2.withArgs d s') env o =
        ((Pm.Dev2.postPoll d env o).1.withArgs t', (Pm.Dev2.postPoll d env o).2) ∧
      SAgree Q (Pm.Dev2.postPoll d env o).1.dev.args t' :=
  Pm.Dev2.postPoll_rel Q d env o s' hS hQ hacts

/-- (b) *Oracle*: answers are consumed from the front only.  If, run on the answers `o`, the device is never out of step
    with the oracle, then with any further answers `r` behind them it does exactly the same and leaves `r` behind its own
    remainder — the answers other devices will consume later do not influence it. -/
theorem C05_postPoll_oracle_prefix (d : Dev) (env : Pm.Dev2.Env) (o : Oracle) (r : List Pm.Dev2.RxCall)
    (h : NoMis (Pm.Dev2.postPoll d env o).2.2.1) :
    Pm.Dev2.postPoll d env (Pm.Dev2.ext o r) = Pm.Dev2.PA.ext (Pm.Dev2.postPoll d env o) r :=
  Pm.Dev2.postPoll_ext d env o r h

/- non-vacuity of (a) and (b) on device `A` of the example world: a store in which `B`'s entry already says "on" agrees with
   the original on the nodes that are not `B`'s; `A` is in step with its one recorded answer -/
example : SAgree Ex.Q ({ Ex.devA with args := Ex.store0 } : Dev).args
      [(0, [{ node := Ex.nodeA, val := none, state := .unknown, result := .none }]),
       (1, [{ node := Ex.nodeB, val := some [111, 110], state := .on, result := .success }])] ∧
    QOn Ex.Q ({ Ex.devA with args := Ex.store0 } : Dev) ∧ ActsOK Ex.Q ({ Ex.devA with args := Ex.store0 } : Dev).acts :=
  ⟨fun al => by
      match al with
      | 0 => rfl
      | 1 => rfl
      | _ + 2 => rfl,
   (Ex.others Ex.A (by simp)).2.1, (Ex.others Ex.A (by simp)).2.2⟩
example : NoMis (Pm.Dev2.postPoll { Ex.devA with args := Ex.store0 } (devEnv Ex.pin Ex.w1 Ex.A) ⟨Ex.xA⟩).2.2.1 := by
  unfold NoMis; decide +kernel

/-! ## 4. Stutter: a pass that brings nothing for a stalled device leaves it alone -/

/-- Device `nd` is connected, its head action is stamped and inside its deadline (`now < time_stamp + timeout`), waits in an
    `expect` with an empty input buffer, no scripted delay is pending and no ping is due (`Stalled`); the pass brings no
    event for its descriptor (`NoEvent`).  Then its share of the pass is a no-op: the world (clients, store, counters),
    the messages, the system calls, the oracle are exactly as before; the entry it leaves is itself; no callback is fired.
    The only effect is that a wake-up time is registered (`tmo`), so the daemon sleeps until the deadline or the next ping.
    (Other waiting states — stalled in `send` with unsent bytes, in a `delay`, in reconnect back-off — are not covered.) -/
theorem C05_stutter (p : PassIn) (a : DevAcc) (nd : Bytes × Dev) (hd : a.dead = false)
    (h : Stalled nd.2 p.now) (hev : NoEvent p nd.2) :
    ∃ t, devPass p a nd =
      { a with devs := a.devs ++ [(nd.1, { nd.2 with args := a.w.store })], tmo := minOpt a.tmo (some t) } :=
  devPass_stutter p a nd hd h hev

/- non-vacuity: the healthy `B` of the example world is in exactly this state at time 2000 -/
example : Stalled Ex.devB Ex.pin.now ∧ NoEvent Ex.pin Ex.devB :=
  ⟨⟨rfl, ⟨Ex.onAct Ex.plugB 2 1, [], 1, 1000, rfl, rfl, by decide, rfl⟩, rfl, ⟨rfl, rfl, rfl⟩, rfl, Or.inl rfl⟩,
   fun _ _ e he => by simp [Ex.pin] at he⟩

/-! ## 5. Non-interference with a general client phase

Helper modules: `Pm/TwoRun.lean` (every stage of one client's share of `cli_post_poll` in two related worlds), `Pm/TwoRunC05.lean`
(`NotObs`, the relation `MRel`, one pass, any number of passes), `Pm/TwoRunEx.lean` (Boolean checkers, example).

Vocabulary:

* `PB` — the plugs of the sick device `B` (position `j` of the device list); `F : Nat → Bool` — the descriptors of the clients that
  are **not** tracked.  A *tracked* client (descriptor outside `F`) has the same record in both runs; an untracked one may
  have actions in flight on `B` and differ between the runs (different replies, different command state);
* `NotObs PB als line` — the request line does not observe `B` (spelled out in `C05_NotObs_spelled`); `Touch PB bn` — the
  target list `bn` names a node of `B`; `Hit PB t` — the selection of a `device` query covers `B`;
* `Inert envs c` — nothing arrives from client `c` in this pass (descriptor not reported readable or hung up, no complete line
  buffered); it may be written to and it may be destroyed;
* `MRel Q F j PB w w'` — the relation between the two worlds between passes (`C05_MRel_spelled`);
* `CliHyps`, `DevHyps` — what is assumed of the client phase / the device phase of one pass (`C05_hyps_spelled`);
  `servedIn w p` — the clients served in the pass (the table, and the client accepted in this pass);
  `turnLines c e` — the complete request lines `_handle_input` finds for `c` in this pass. -/
open Pm.Daemon.TwoRun in
/-- **Which request lines observe `B`.**  Following the cascade of `_parse_input` on the stripped request string `str`: an
    over-long line, `help`, `nodes`, `telemetry`, `exprange`, `quit` and an unknown command do not.  A power command or query
    with a target list does not iff none of its alias-expanded targets is a node of a plug of `B`.  A `device` query with an
    argument does not iff the argument selects no node of `B`.  A bare `status`/`temp`/`beacon` (all configured nodes) and a
    bare `device` (all devices) are counted as observing `B` (the first clause can hold only if `B` has no node at all).

    (`telemetry` does not observe `B` by itself: `305` lines echo the traffic of the device an action *of that client* runs
    on, and a tracked client has no action on `B`.) -/
theorem C05_NotObs_spelled (PB : List Pm.Dev2.Plug) (als : List (Name × List Name)) (line : Bytes) :
    NotObs PB als line ↔
      (¬ ClientPf.TooLong line → casePrefix kwHelp (ClientPf.reqStr line) = false → casePrefix kwNodes (ClientPf.reqStr line) = false →
       casePrefix kwTelemetry (ClientPf.reqStr line) = false → casePrefix kwExprange (ClientPf.reqStr line) = false →
       casePrefix kwQuit (ClientPf.reqStr line) = false →
       match ClientPf.plMatch (ClientPf.reqStr line) with
       | none =>
         if casePrefix kwStatus (ClientPf.reqStr line) || casePrefix kwTemp (ClientPf.reqStr line) || casePrefix kwBeacon (ClientPf.reqStr line)
         then ∀ names : List Name, Touch PB (names.map ofChars) = false
         else ∀ a, ClientPf.plDevArg (ClientPf.reqStr line) = some a → Hit PB (ClientPf.devTarg a) = false
       | some (_, arg) => ∀ hl, createR (toChars arg) = .ok hl → Touch PB ((expAliases als (expand hl)).map ofChars) = false) :=
  Iff.rfl

open Pm.Daemon.TwoRun in
/-- **One whole pass, clients typing.**  Two worlds `w`, `w'` related by `MRel` (they differ in device `B` at position `j`, in
    the arglist entries of `B`'s nodes, and in the records of the untracked clients) and two pass inputs `p`, `p'`.

    Client phase (`CliHyps`): the same `accept` verdict; the same events on every descriptor outside `F`; a client accepted
    in this pass is tracked; **every request line a tracked client gets processed in this pass does not observe `B`**
    (`NotObs`) — otherwise the lines are arbitrary: commands and queries on other devices, `help`, `nodes`, `telemetry`,
    `exprange`, `quit`, junk, several per pass —; the untracked clients are `Inert` in this pass; both worlds satisfy the id
    discipline (reachable worlds do, `C11_ids`).

    Device phase (`DevHyps`, stated on the worlds the client phase leaves, as in `C05_noninterference_pass_partial` — but
    *without* the agreement hypotheses `hcli hgok hst hn1..3 hdevs`, which are now proved): same clock; the other devices
    have the same events, sit on `Q`-nodes and carry `Q`-plugs; `B` sits on no
    `Q`-node; regex answers segmented `xp ++ xB ++ xq` / `xp ++ xB' ++ xq`; no modelled `assert`; the client phase did not end
    the process (`hostlist` sort assertion, finding F19).  `hQB`: every node outside `Q` is a node of `B`.

    THE THREE GLOBAL COUPLINGS, as they appear here.
    1. *Descriptor counters* (`DevHyps.c1 c2 c3`): `nsock`/`npair`/`nfork` are global, so when `B` reconnects it shifts the
       descriptor and pid *numbers* later handed to other devices.  Hypothesis: after `B`'s turn the three counters agree
       in the two runs (`B` consumed the same number of descriptors).  A comparison modulo a renaming of descriptor numbers
       was not attempted; this hypothesis excludes runs in which the sick `B` reconnects more (or less) often than the healthy one
       within a pass.
    2. *Nodes wired to two devices* share an `Arg` entry: `DevHyps.others` (`QOn`: the other devices sit on `Q`-nodes only),
       `DevHyps.hB` (`QOff`: `B` sits on no `Q`-node) and `hQB` make `Q` separate `B`'s nodes from everybody else's; stores
       are compared on `Q`-entries only (`SAgree Q`).
    3. *Arglist id 0* (the internal login/ping actions carry the id of the first command): no hypothesis is needed here
       because stores are compared node-wise, not arglist-wise (contrast item 3 of `C05_frame_device`).

    Then the relation holds again after the pass.  By `C05_MRel_spelled`: every tracked client has the same record (output
    buffer, command in progress, flags) and was written the same bytes, every device other than `B` is in the same state,
    the stores agree on all nodes not wired to `B`. -/
theorem C05_noninterference (Q : Bytes → Bool) (F : Nat → Bool) (j : Nat) (PB : List Pm.Dev2.Plug) (w w' : W) (p p' : PassIn)
    (xp xB xB' xq : List Pm.Dev2.RxCall) (hQB : ∀ nb, Q nb = false → ∃ pl ∈ PB, pl.node = some nb)
    (hr : MRel Q F j PB w w') (hc : CliHyps F PB w w' p p')
    (hd : DevHyps Q F j (cliPostPoll w p.acc p.envs) (cliPostPoll w' p'.acc p'.envs) p p' xp xB xB' xq) :
    MRel Q F j PB (daemonPass w p).1 (daemonPass w' p').1 :=
  pass_gen Q F j PB w w' p p' xp xB xB' xq hQB hr hc hd

open Pm.Daemon.TwoRun in
/-- what `MRel` says, spelled out.  In reachable worlds (`IdsFresh`): a client of `w` on a descriptor outside `F` has the very
    same record in `w'`; the bytes written to its descriptor in the last pass are the same; the device lists have the same
    length and agree — stale store copies apart — everywhere but at position `j`; the stores agree on `Q`-nodes; the
    commands of the tracked clients target `Q`-nodes only, and no tracked client has an action queued on `B`. -/
theorem C05_MRel_spelled (Q : Bytes → Bool) (F : Nat → Bool) (j : Nat) (PB : List Pm.Dev2.Plug) (w w' : W)
    (h : MRel Q F j PB w w') (hi' : Isolation.IdsFresh w') :
    (∀ g c, cliRec w g = some c → F c.fd = false → cliRec w' g = some c) ∧
    (∀ fd, F fd = false → ClientPf.written w'.sys fd = ClientPf.written w.sys fd) ∧
    (∀ i, i ≠ j → (w.devs[i]?).map strip = (w'.devs[i]?).map strip) ∧ w.devs.length = w'.devs.length ∧
    SAgree Q w.store w'.store ∧
    (w'.cfg = w.cfg ∧ w'.alNext = w.alNext ∧ w'.nextId = w.nextId ∧ w'.nsock = w.nsock ∧ w'.npair = w.npair ∧ w'.nfork = w.nfork ∧
      w.exited = false ∧ w'.exited = false) ∧
    (∀ B B', w.devs[j]? = some B → w'.devs[j]? = some B' → B.1 = B'.1 ∧ B.2.plugs = PB ∧ B'.2.plugs = PB) ∧
    w'.clients.filter (nonF F) = w.clients.filter (nonF F) ∧
    (∀ c ∈ w.clients, F c.fd = false → ∀ k, c.cmd = some k → NamesQ Q k.names) ∧
    (∀ B, w.devs[j]? = some B → ∀ x ∈ B.2.acts, ∀ c ∈ w.clients, F c.fd = false → x.clientId ≠ c.id) ∧
    (∀ B', w'.devs[j]? = some B' → ∀ x ∈ B'.2.acts, ∀ c ∈ w'.clients, F c.fd = false → x.clientId ≠ c.id) :=
  ⟨(h.tracked hi').1, (h.tracked hi').2.1, (h.tracked hi').2.2.1, (h.tracked hi').2.2.2.1, (h.tracked hi').2.2.2.2,
   ⟨h.cfg, h.alNext, h.nextId, h.nsock, h.npair, h.nfork, h.ex, h.ex'⟩, h.devs.2, h.tab, h.gok, h.nob, h.nob'⟩

open Pm.Daemon.TwoRun in
/-- what the hypotheses about the client phase of one pass say, spelled out -/
theorem C05_hyps_spelled (F : Nat → Bool) (PB : List Pm.Dev2.Plug) (w w' : W) (p p' : PassIn) (h : CliHyps F PB w w' p p') :
    p'.acc = p.acc ∧ (∀ fd, F fd = false → p'.envs.find? (·.fd == fd) = p.envs.find? (·.fd == fd)) ∧
    F (1000 + w.nacc) = false ∧
    (∀ c ∈ servedIn w p, F c.fd = false → ∀ l ∈ turnLines c (p.envs.find? (·.fd == c.fd)), NotObs PB w.cfg.aliases l) ∧
    (∀ c ∈ w.clients, F c.fd = true → Inert p.envs c) ∧ (∀ c ∈ w'.clients, F c.fd = true → Inert p'.envs c) ∧
    Isolation.IdsFresh w ∧ Isolation.IdsFresh w' :=
  ⟨h.acc, h.evs, h.newfd, h.lines, h.inert, h.inert', h.ids, h.ids'⟩

open Pm.Daemon.TwoRun in
/-- **Any number of passes, clients typing.**  `GenRun`: every pass of the two runs (each pass given with the regex answers
    recorded for it) satisfies `CliHyps` and `DevHyps`.  Then `MRel` holds after every prefix of the runs: pass by pass, every
    tracked client has the same record and is written the same bytes, every healthy device goes through the same states —
    however device `j` behaves in the two runs and whatever the tracked clients type, as long as it does not observe `B`.

    WHAT IS STILL ASSUMED (and would make a stronger theorem if derived): the descriptor counters after `B`'s turn agree
    (coupling 1 above: excludes a different number of reconnects of `B` in the two runs within a pass); the untracked clients
    type nothing (a client with a request in flight on the sick device that goes on typing *does* influence the others: its
    next line is answered `208` in one run and executed in the other — a genuine flow, not a defect:
    `C05_observer_typing_counterexample`); `ActsOK` (the plugs the queued actions of the other devices carry are `Q`-plugs) is
    stated on the world each client phase leaves instead of being derived as an invariant.  ("No tracked client has an action
    queued on `B`" *is* an invariant: `MRel.nob`, kept because the tracked clients' lines do not observe `B`.)  Equality of *real* completion times is outside the model (time is an input, equal in both runs by
    `SameClock`); the model-level timing fact is `C05_reply_same_pass`. -/
theorem C05_noninterference_passes (Q : Bytes → Bool) (F : Nat → Bool) (j : Nat) (PB : List Pm.Dev2.Plug)
    (hQB : ∀ nb, Q nb = false → ∃ pl ∈ PB, pl.node = some nb) (w w' : W)
    (l : List ((PassIn × List Pm.Dev2.RxCall) × (PassIn × List Pm.Dev2.RxCall)))
    (hr : MRel Q F j PB w w') (h : GenRun Q F j PB w w' l) (n : Nat) :
    MRel Q F j PB (passes w ((l.take n).map (·.1))) (passes w' ((l.take n).map (·.2))) :=
  passes_gen Q F j PB hQB w w' (l.take n) hr (h.take n)

open Pm.Daemon.TwoRun in
/-- **"… within the same time", model level.**  `replyPassX w ps g` is the index of the first pass in which client `g`'s command in
    progress is completed (final reply queued, `cmd` cleared).  For a client that is tracked at every prefix of the run —
    it has a record on a descriptor outside `F`, or no record at all — it is the same in both runs. -/
theorem C05_reply_same_pass (Q : Bytes → Bool) (F : Nat → Bool) (j : Nat) (PB : List Pm.Dev2.Plug)
    (hQB : ∀ nb, Q nb = false → ∃ pl ∈ PB, pl.node = some nb) (w w' : W)
    (l : List ((PassIn × List Pm.Dev2.RxCall) × (PassIn × List Pm.Dev2.RxCall)))
    (hr : MRel Q F j PB w w') (h : GenRun Q F j PB w w' l) (hi' : Isolation.IdsFresh w') (g : Nat)
    (hg : ∀ n, (∃ c, cliRec (passes w ((l.take n).map (·.1))) g = some c ∧ F c.fd = false) ∨
      (cliRec (passes w ((l.take n).map (·.1))) g = none ∧ cliRec (passes w' ((l.take n).map (·.2))) g = none)) :
    replyPassX w' (l.map (·.2)) g = replyPassX w (l.map (·.1)) g := by
  apply replyPassX_congr w w' (l.map (·.1)) (l.map (·.2)) g (by simp)
  intro n
  rw [← List.map_take, ← List.map_take]
  have hm := C05_noninterference_passes Q F j PB hQB w w' l hr h n
  rcases hg n with ⟨c, hc, hF⟩ | ⟨h1, h2⟩
  · rw [hc]
    exact (hm.tracked (passes_ids w' _ hi')).1 g c hc hF
  · rw [h1, h2]

/- non-vacuity (`Pm/TwoRunEx.lean`).  Worlds `wa` (`B` healthy, waiting) and `wb` (`B'` with garbage in its buffer), the three
   nodes configured; client 1 (descriptor 1000, `on a1` in flight on `A`) is tracked, client 2 (descriptor 1001, `on b1` in flight
   on `B`) is not.  Pass 1: client 1 sends `help` (answered 208), `A` completes its command.  Pass 2: a third client connects;
   client 1 is written to and sends `on a1` — a new action is queued on `A` — and `device a1` (208).  `rel0`, `goodG` prove the
   hypotheses; after both passes client 1 holds the same record in both runs and `A`'s queue holds its new action in both. -/
example : Pm.Daemon.TwoRun.MRel Ex.Q Pm.Daemon.TwoRun.Ex.FB 1 Pm.Daemon.TwoRun.Ex.PBx Pm.Daemon.TwoRun.Ex.wa Pm.Daemon.TwoRun.Ex.wb ∧
    Pm.Daemon.TwoRun.GenRun Ex.Q Pm.Daemon.TwoRun.Ex.FB 1 Pm.Daemon.TwoRun.Ex.PBx Pm.Daemon.TwoRun.Ex.wa Pm.Daemon.TwoRun.Ex.wb Pm.Daemon.TwoRun.Ex.runsG ∧
    (∀ nb, Ex.Q nb = false → ∃ pl ∈ Pm.Daemon.TwoRun.Ex.PBx, pl.node = some nb) :=
  ⟨Pm.Daemon.TwoRun.Ex.rel0, Pm.Daemon.TwoRun.Ex.goodG, Pm.Daemon.TwoRun.Ex.hQB⟩
example :
    (cliRec (passes Pm.Daemon.TwoRun.Ex.wa (Pm.Daemon.TwoRun.Ex.runsG.map (·.1))) 1).map (fun c => (c.toBuf, c.cmd.map (·.pending))) =
      some (bstr "208 Command in progress\r\n", some 1) ∧
    (cliRec (passes Pm.Daemon.TwoRun.Ex.wb (Pm.Daemon.TwoRun.Ex.runsG.map (·.2))) 1).map (fun c => (c.toBuf, c.cmd.map (·.pending))) =
      some (bstr "208 Command in progress\r\n", some 1) ∧
    (passes Pm.Daemon.TwoRun.Ex.wa (Pm.Daemon.TwoRun.Ex.runsG.map (·.1))).devs.map (fun nd => (nd.2.acts.map (·.clientId), nd.2.fromBuf)) =
      [([1], []), ([2], []), ([], [])] ∧
    (passes Pm.Daemon.TwoRun.Ex.wb (Pm.Daemon.TwoRun.Ex.runsG.map (·.2))).devs.map (fun nd => (nd.2.acts.map (·.clientId), nd.2.fromBuf)) =
      [([1], []), ([2], [1, 2, 3]), ([], [])] ∧
    Pm.Daemon.TwoRun.replyPassX Pm.Daemon.TwoRun.Ex.wa (Pm.Daemon.TwoRun.Ex.runsG.map (·.1)) 1 = some 0 ∧
    Pm.Daemon.TwoRun.replyPassX Pm.Daemon.TwoRun.Ex.wb (Pm.Daemon.TwoRun.Ex.runsG.map (·.2)) 1 = some 0 := by decide +kernel
/- `NotObs` on example lines, device `B` with the one plug wired to `b1`: `on a1`, `device a1`, `help` are accepted;
   `status b1`, `on a1,b1`, a bare `status` and a bare `device` are rejected by the (sound) checker `notObsB` -/
example : (["on a1\n", "device a1\n", "help\n", "status b1\n", "on a1,b1\n", "status\n", "device\n"].map fun l =>
    Pm.Daemon.TwoRun.Ex.notObsB Pm.Daemon.TwoRun.Ex.PBx [] (bstr l)) = [true, true, true, false, false, false, false] := by decide +kernel

/-- **Why the clients that observe `B` must not go on typing** (the statement "for every client none of whose lines observes `B`:
    identical record and output", *without* a condition on the other clients, is false of the model — and of the code).
    Worlds `wh` (healthy `B`, its answer in the buffer) and `wb` (sick `B'`) are related by `MRel`; client 1 is tracked and has
    nothing to do with `B`; client 2 has `on b1` in flight on `B`.  The only lines typed in four passes are `on a1` by client 2
    (pass 2) and `device a1` by client 1 (pass 4); neither observes `B` (`notObsB`).  Yet client 1 is told `actions=002` in the
    healthy run and `actions=001` in the sick one: client 2's `on a1` was executed in the run in which `B` had completed its
    first command, and answered `208 Command in progress` in the other.  This is a genuine flow from `B` to client 1 through a
    client that waits for `B` — not a defect —, and the reason for the hypothesis `CliHyps.inert`. -/
theorem C05_observer_typing_counterexample :
    Pm.Daemon.TwoRun.MRel Ex.Q Pm.Daemon.TwoRun.Ex.FB 1 Pm.Daemon.TwoRun.Ex.PBx Pm.Daemon.TwoRun.Ex.wh Pm.Daemon.TwoRun.Ex.wb ∧
    Pm.Daemon.TwoRun.Ex.notObsB Pm.Daemon.TwoRun.Ex.PBx [] (bstr "on a1\n") = true ∧
    Pm.Daemon.TwoRun.Ex.notObsB Pm.Daemon.TwoRun.Ex.PBx [] (bstr "device a1\n") = true ∧
    (cliRec (passes Pm.Daemon.TwoRun.Ex.wh Pm.Daemon.TwoRun.Ex.runH) 1).map (·.toBuf) =
      some (bstr "304 A: state=connected reconnects=000 actions=002 type= hosts=a1\r\n103 Query complete\r\npowerman> ") ∧
    (cliRec (passes Pm.Daemon.TwoRun.Ex.wb Pm.Daemon.TwoRun.Ex.runS) 1).map (·.toBuf) =
      some (bstr "304 A: state=connected reconnects=000 actions=001 type= hosts=a1\r\n103 Query complete\r\npowerman> ") :=
  ⟨Pm.Daemon.TwoRun.Ex.relH, by decide +kernel, by decide +kernel, by decide +kernel, by decide +kernel⟩

/-! ## 6. Any number of passes over the shared runs `runX`

`C05_noninterference_passes_partial`, `C05_noninterference_passes`, `C05_reply_same_pass` are stated over `passes w ps`
(`Pm/FrameMulti.lean`): each pass is given with the regex answers recorded for it, and before each pass `withX` *overwrites* the
pending answers.  Here they are stated over `runX` (`Pm/RunX.lean`, the one definition shared with C02, C03, C06, C11, C15): a pass
`q : PassX` is the kernel's answers `q.p` and the regex answers `q.rx`; before each pass `feed` *appends* `q.rx` to `pendingX`,
as the driver does; `stepX w q = (daemonPass (feed w q.rx) q.p).1`.  **The regex answers are arbitrary in every pass.  The two runs
get different answers: those consumed by the sick device `B` (position `j`) may differ — the pending answers are `xp ++ xB ++ xq`
in one run and `xp ++ xB' ++ xq` in the other, for some segmentation that is part of the per-pass hypotheses — and those consumed
by every other device are equal.**

Vocabulary (`Pm/RunXC05.lean`; examples `Pm/RunXC05Ex.lean`): `AlongX H w w' pp` — the per-pass hypothesis `H` holds for every pair of
passes of `pp`, on the worlds the two runs have reached; `GoodX Q g j` = `PassHyps` (quiet client phase), `GenX Q F j PB` =
`CliHyps` ∧ `DevHyps` (general client phase), both on the worlds with the answers handed over (`C05_AlongX_spelled`);
`replyPassRunX` — `replyPassX` for `runX`.  For runs that start with no answer pending the old hypotheses imply the new ones and
`passes` *is* `runX` (`C05_passes_is_runX`). -/

open Pm.Daemon.TwoRun in
/-- what the vocabulary is -/
theorem C05_AlongX_spelled (Q : Bytes → Bool) (F : Nat → Bool) (g j : Nat) (PB : List Pm.Dev2.Plug) (w w' : W) (q q' : PassX)
    (H : W → W → PassX → PassX → Prop) (r : List (PassX × PassX)) :
    (AlongX H w w' ((q, q') :: r) ↔ H w w' q q' ∧ AlongX H (stepX w q) (stepX w' q') r) ∧ (AlongX H w w' [] ↔ True) ∧
    stepX w q = (daemonPass (feed w q.rx) q.p).1 ∧ feed w q.rx = { w with pendingX := w.pendingX ++ q.rx } ∧
    (GoodX Q g j w w' q q' ↔ ∃ xp xB xB' xq, PassHyps Q g j (feed w q.rx) (feed w' q'.rx) q.p q'.p xp xB xB' xq) ∧
    (GenX Q F j PB w w' q q' ↔ ∃ xp xB xB' xq, CliHyps F PB (feed w q.rx) (feed w' q'.rx) q.p q'.p ∧
      DevHyps Q F j (cliPostPoll (feed w q.rx) q.p.acc q.p.envs) (cliPostPoll (feed w' q'.rx) q'.p.acc q'.p.envs) q.p q'.p xp xB xB' xq) :=
  ⟨Iff.rfl, Iff.rfl, rfl, rfl, Iff.rfl, Iff.rfl⟩

open Pm.Daemon.TwoRun in
/-- **Any number of passes, requests in flight — over `runX`** (`C05_noninterference_passes_partial` for the shared runs; regex
    answers arbitrary in every pass, `B`'s may differ between the runs).  As long as no client types anything, the record of a
    client with nothing queued on the sick device evolves identically pass by pass and every healthy device goes through the
    same states, however device `j` behaves in the two runs.  (`_partial` for the same reasons: client input during the run is
    excluded, and so are behaviours of the sick device that consume a different number of descriptors than the healthy one.) -/
theorem C05_noninterference_passes_runX_partial (Q : Bytes → Bool) (g j : Nat) (w w' : W) (pp : List (PassX × PassX))
    (hr : PassRel Q g j w w') (h : AlongX (GoodX Q g j) w w' pp) (n : Nat) :
    PassRel Q g j (runX w ((pp.take n).map (·.1))) (runX w' ((pp.take n).map (·.2))) :=
  passes_relX Q g j w w' (pp.take n) hr (h.take pp n w w')

/- non-vacuity (`Pm/RunXC05Ex.lean`): the two quiet passes of the example worlds, started with no answer pending; in the first pass
   `A`'s answer `xA` is fed to both runs and `xB'` in addition to the sick run, in the second pass `xB'` again to the sick run -/
example : PassRel Ex.Q 1 1 Pm.Daemon.TwoRun.ExC05.w10 Pm.Daemon.TwoRun.ExC05.w20 ∧
    AlongX (Pm.Daemon.TwoRun.GoodX Ex.Q 1 1) Pm.Daemon.TwoRun.ExC05.w10 Pm.Daemon.TwoRun.ExC05.w20 Pm.Daemon.TwoRun.ExC05.runs ∧
    Pm.Daemon.TwoRun.ExC05.w10.pendingX = [] ∧ Pm.Daemon.TwoRun.ExC05.w20.pendingX = [] ∧
    Pm.Daemon.TwoRun.ExC05.runs = [(⟨Ex.pin, Ex.xA⟩, ⟨Ex.pin, Ex.xA ++ Ex.xB'⟩), (⟨Ex.pin2, []⟩, ⟨Ex.pin2, Ex.xB'⟩)] :=
  ⟨Pm.Daemon.TwoRun.ExC05.relQ, Pm.Daemon.TwoRun.ExC05.alongQ, rfl, rfl, rfl⟩

open Pm.Daemon.TwoRun in
/-- **Any number of passes, clients typing — over `runX`** (`C05_noninterference_passes` for the shared runs; regex answers
    arbitrary in every pass, `B`'s may differ between the runs, all others are equal).  `MRel` holds after every prefix of the
    two runs: pass by pass, every tracked client has the same record and is written the same bytes, every healthy device goes
    through the same states — however device `j` behaves in the two runs and whatever the tracked clients type, as long as it
    does not observe `B`.  What is still assumed is what `C05_noninterference_passes` lists. -/
theorem C05_noninterference_passes_runX (Q : Bytes → Bool) (F : Nat → Bool) (j : Nat) (PB : List Pm.Dev2.Plug)
    (hQB : ∀ nb, Q nb = false → ∃ pl ∈ PB, pl.node = some nb) (w w' : W) (pp : List (PassX × PassX))
    (hr : MRel Q F j PB w w') (h : AlongX (GenX Q F j PB) w w' pp) (n : Nat) :
    MRel Q F j PB (runX w ((pp.take n).map (·.1))) (runX w' ((pp.take n).map (·.2))) :=
  passes_genX Q F j PB hQB w w' (pp.take n) hr (h.take pp n w w')

open Pm.Daemon.TwoRun in
/-- **"… within the same time", model level — over `runX`** (`C05_reply_same_pass` for the shared runs): for a client that is
    tracked at every prefix of the run, the index of the first pass in which its command in progress is completed is the same
    in both runs. -/
theorem C05_reply_same_pass_runX (Q : Bytes → Bool) (F : Nat → Bool) (j : Nat) (PB : List Pm.Dev2.Plug)
    (hQB : ∀ nb, Q nb = false → ∃ pl ∈ PB, pl.node = some nb) (w w' : W) (pp : List (PassX × PassX))
    (hr : MRel Q F j PB w w') (h : AlongX (GenX Q F j PB) w w' pp) (hi' : Isolation.IdsFresh w') (g : Nat)
    (hg : ∀ n, (∃ c, cliRec (runX w ((pp.take n).map (·.1))) g = some c ∧ F c.fd = false) ∨
      (cliRec (runX w ((pp.take n).map (·.1))) g = none ∧ cliRec (runX w' ((pp.take n).map (·.2))) g = none)) :
    replyPassRunX w' (pp.map (·.2)) g = replyPassRunX w (pp.map (·.1)) g :=
  reply_same_passX Q F j PB hQB w w' pp hr h hi' g hg

/- non-vacuity (`Pm/RunXC05Ex.lean`): worlds `wa0`, `wb0` (= `wa`, `wb` of §5 with no answer pending), the two passes of §5 with their
   answers fed pass by pass — in the second pass the sick `B'` asks the regex engine about its garbage again and is answered from
   what was fed before *that* pass.  The hypotheses hold; after both passes client 1 holds the same record in both runs. -/
example : Pm.Daemon.TwoRun.MRel Ex.Q Pm.Daemon.TwoRun.Ex.FB 1 Pm.Daemon.TwoRun.Ex.PBx Pm.Daemon.TwoRun.ExC05.wa0 Pm.Daemon.TwoRun.ExC05.wb0 ∧
    AlongX (Pm.Daemon.TwoRun.GenX Ex.Q Pm.Daemon.TwoRun.Ex.FB 1 Pm.Daemon.TwoRun.Ex.PBx) Pm.Daemon.TwoRun.ExC05.wa0 Pm.Daemon.TwoRun.ExC05.wb0
      Pm.Daemon.TwoRun.ExC05.runsG ∧
    Pm.Daemon.TwoRun.ExC05.wa0.pendingX = [] ∧ Pm.Daemon.TwoRun.ExC05.wb0.pendingX = [] ∧
    Pm.Daemon.TwoRun.ExC05.runsG = [(⟨Pm.Daemon.TwoRun.Ex.q1, Ex.xA⟩, ⟨Pm.Daemon.TwoRun.Ex.q1, Ex.xA ++ Ex.xB'⟩),
      (⟨Pm.Daemon.TwoRun.Ex.q2, []⟩, ⟨Pm.Daemon.TwoRun.Ex.q2, Ex.xB'⟩)] :=
  ⟨Pm.Daemon.TwoRun.ExC05.rel0, Pm.Daemon.TwoRun.ExC05.alongG, rfl, rfl, rfl⟩
example :
    (cliRec (runX Pm.Daemon.TwoRun.ExC05.wa0 (Pm.Daemon.TwoRun.ExC05.runsG.map (·.1))) 1).map (fun c => (c.toBuf, c.cmd.map (·.pending))) =
      some (bstr "208 Command in progress\r\n", some 1) ∧
    (cliRec (runX Pm.Daemon.TwoRun.ExC05.wb0 (Pm.Daemon.TwoRun.ExC05.runsG.map (·.2))) 1).map (fun c => (c.toBuf, c.cmd.map (·.pending))) =
      some (bstr "208 Command in progress\r\n", some 1) ∧
    (runX Pm.Daemon.TwoRun.ExC05.wa0 (Pm.Daemon.TwoRun.ExC05.runsG.map (·.1))).devs.map (fun nd => (nd.2.acts.map (·.clientId), nd.2.fromBuf)) =
      [([1], []), ([2], []), ([], [])] ∧
    (runX Pm.Daemon.TwoRun.ExC05.wb0 (Pm.Daemon.TwoRun.ExC05.runsG.map (·.2))).devs.map (fun nd => (nd.2.acts.map (·.clientId), nd.2.fromBuf)) =
      [([1], []), ([2], [1, 2, 3]), ([], [])] ∧
    Pm.Daemon.TwoRun.replyPassRunX Pm.Daemon.TwoRun.ExC05.wa0 (Pm.Daemon.TwoRun.ExC05.runsG.map (·.1)) 1 = some 0 ∧
    Pm.Daemon.TwoRun.replyPassRunX Pm.Daemon.TwoRun.ExC05.wb0 (Pm.Daemon.TwoRun.ExC05.runsG.map (·.2)) 1 = some 0 :=
  Pm.Daemon.TwoRun.ExC05.outcomeG

open Pm.Daemon.TwoRun in
/-- **`passes` is `runX`, and the old hypotheses imply the new ones, for runs that start with no answer pending.**  (`GenRun` /
    `GoodRun` contain "the client phase does not end the process", so every pass clears `pendingX`, and overwriting an empty list
    of pending answers is appending to it.)  `toX (p, xs) = ⟨p, xs⟩`. -/
theorem C05_passes_is_runX (Q : Bytes → Bool) (F : Nat → Bool) (g j : Nat) (PB : List Pm.Dev2.Plug)
    (hQB : ∀ nb, Q nb = false → ∃ pl ∈ PB, pl.node = some nb) (w w' : W)
    (l : List ((PassIn × List Pm.Dev2.RxCall) × (PassIn × List Pm.Dev2.RxCall))) (h0 : w.pendingX = []) (h0' : w'.pendingX = []) :
    (GenRun Q F j PB w w' l → MRel Q F j PB w w' →
      AlongX (GenX Q F j PB) w w' (l.map fun x => (toX x.1, toX x.2)) ∧
      passes w (l.map (·.1)) = runX w ((l.map (·.1)).map toX) ∧ passes w' (l.map (·.2)) = runX w' ((l.map (·.2)).map toX)) ∧
    (GoodRun Q g j w w' l → PassRel Q g j w w' →
      AlongX (GoodX Q g j) w w' (l.map fun x => (toX x.1, toX x.2)) ∧
      passes w (l.map (·.1)) = runX w ((l.map (·.1)).map toX) ∧ passes w' (l.map (·.2)) = runX w' ((l.map (·.2)).map toX)) :=
  ⟨fun h hr => genRun_to_X Q F j PB hQB w w' l h hr h0 h0', fun h hr => goodRun_to_X Q g j w w' l h hr h0 h0'⟩

/-- **`C05_observer_typing_counterexample` over `runX`**: the same worlds with no answer pending at the start, the same four passes
    with their regex answers fed pass by pass.  Client 1 is told `actions=002` in the healthy run and `actions=001` in the sick
    one. -/
theorem C05_observer_typing_runX_counterexample :
    Pm.Daemon.TwoRun.MRel Ex.Q Pm.Daemon.TwoRun.Ex.FB 1 Pm.Daemon.TwoRun.Ex.PBx Pm.Daemon.TwoRun.ExC05.wh0 Pm.Daemon.TwoRun.ExC05.wb0 ∧
    (cliRec (runX Pm.Daemon.TwoRun.ExC05.wh0 (Pm.Daemon.TwoRun.Ex.runH.map Pm.Daemon.TwoRun.toX)) 1).map (·.toBuf) =
      some (bstr "304 A: state=connected reconnects=000 actions=002 type= hosts=a1\r\n103 Query complete\r\npowerman> ") ∧
    (cliRec (runX Pm.Daemon.TwoRun.ExC05.wb0 (Pm.Daemon.TwoRun.Ex.runS.map Pm.Daemon.TwoRun.toX)) 1).map (·.toBuf) =
      some (bstr "304 A: state=connected reconnects=000 actions=001 type= hosts=a1\r\n103 Query complete\r\npowerman> ") :=
  ⟨Pm.Daemon.TwoRun.ExC05.relH, Pm.Daemon.TwoRun.ExC05.observer.1, Pm.Daemon.TwoRun.ExC05.observer.2⟩

end Pm.Props.C05
