import Pm.Signal
import Pm.Dev2Count
import Pm.ClientStream
import Pm.Dev2Timer
/-! # C04 — every request gets exactly one final answer, in bounded time

Ranking: conservation of completions (device half of `pending_eq_queued`: done) ▸ one terminal reply per
line on the client side ▸ no-wedge (timer coverage) ▸ tenure ▸ bound. -/
namespace Pm.Props.C04
open Pm.Dev2

/-- Over one pass of `_process_action` — for every fuel, queue, script, oracle and kernel answer, aborting
    passes included — the number of completions reported for a client plus the number of its actions still
    queued is unchanged: every action that leaves a device queue is reported exactly once, none is lost,
    none is reported twice.  (`pending` on the client side counts exactly these.) -/
theorem C04_completions_conserved (fuel : Nat) (c : CS) (o : Oracle) (out : List Out) (tmo : Option Time)
    (cid : Nat) (hc : cid ≠ 0) :
    fcount cid (processActionF fuel c o out tmo).2.2.1 + qcount cid (processActionF fuel c o out tmo).1.dev.acts
      = fcount cid out + qcount cid c.dev.acts :=
  completions_conserved fuel c o out tmo cid hc


/-! ## client half: one terminal reply per request line

`Pm.Daemon.parseLine` is the mirror of `client.c:_parse_input`, `handleInput` of `_handle_input`, `actFinish` of
`_act_finish`.  Output is described by `render : List Item → Bytes` (`Item.line code text` ↦ `NNN␠text\r\n`,
`Item.prompt` ↦ `powerman> `); `outOf w c` is everything sent to client `c` so far in this pass (bytes already handed to
`write(2)`, then what waits in its `to` buffer); `i.lineIn cs` says that item `i` is a line whose code is in `cs`.
Helper lemmas: `Pm/ClientProof.lean`, `Pm/ClientStream.lean`. -/
section client
open Pm Pm.Daemon Pm.Client Pm.Daemon.ClientPf

/-- For every byte string `line`, every client state and every world, one call of `_parse_input` has exactly one of three
    outcomes:

    (a) the process is gone — and then nothing else changed, and the cause is the `hostlist_sort` assertion, on the
        configured node list (`nodes`) or on a device's plug list (`device`); never `hostlist_create` (F1 is repaired)
        (`SortRes.Died` = the assert, or — in the logic only — the iteration bound of the sort mirror running out);
    (b) the line was answered at once: the client's output grew by `render items` where `items` is zero or more
        informational lines (301, 304, 306, 307), then exactly ONE terminal line (101, 103, 104, 105, 201, 203, 205, 208,
        209, 213; 203 = the line is `CP_LINEMAX` bytes or longer, see `C06_too_long`),
        then the prompt exactly when the code is neither 208 nor 101 and the client has not quit; the bytes sit in `to`
        (or, for `quit`, went through `_handle_write`: see `QuitFlush`); the command in progress is untouched;
    (c) a command was installed with `pending > 0`: possible only when none was in progress; nothing is written yet (the
        single terminal reply comes from `_act_finish`, see `C04_completion_reply`). -/
theorem C04_one_reply_per_line (w : W) (c : Cli) (line : Pm.Client.Bytes) :
    ((parseLine w c line) = ({ w with exited := true }, c) ∧
        ((sortHL w.cfg.nodes).Died ∨ ∃ nd ∈ w.devs, (sortHL (devHosts nd.2)).Died)) ∨
    (∃ infos code text,
        (∀ i ∈ infos, i.lineIn [301, 304, 306, 307] = true) ∧
        code ∈ [101, 103, 104, 105, 201, 203, 205, 208, 209, 213] ∧
        (∃ items, items = infos ++ [Item.line code text] ++
              (if promptAfter (parseLine w c line).2.quit code then [Item.prompt] else []) ∧
          outOf (parseLine w c line).1 (parseLine w c line).2 = outOf w c ++ render items ∧
          (((parseLine w c line).2.toBuf = c.toBuf ++ render items ∧ (parseLine w c line).1.sys = w.sys) ∨
            QuitFlush w c (parseLine w c line) items)) ∧
        (parseLine w c line).2.cmd = c.cmd ∧ (parseLine w c line).1.exited = w.exited) ∨
    (c.cmd = none ∧ ∃ k, (parseLine w c line).2.cmd = some k ∧ 0 < k.pending ∧
        (parseLine w c line).2.toBuf = c.toBuf ∧ (parseLine w c line).1.sys = w.sys ∧
        (parseLine w c line).1.exited = w.exited) := by
  cases parseLine_shape w c line with
  | exit h cause => exact Or.inl ⟨h, cause⟩
  | reply items shape out buf cmd ex clean prompted =>
    obtain ⟨infos, code, text, hitems, hi, hc⟩ := shape
    exact Or.inr (Or.inl ⟨infos, code, text, hi, hc, ⟨items, hitems, out, buf⟩, cmd, ex⟩)
  | installed k idle cmd pending buf sys ex => exact Or.inr (Or.inr ⟨idle, k, cmd, pending, buf, sys, ex⟩)

/-- the prompt rule of `_parse_input`, spelled out -/
theorem C04_prompt_rule (quit : Bool) (code : Nat) :
    promptAfter quit code = true ↔ code ≠ 208 ∧ code ≠ 101 ∧ quit = false := by
  simp [promptAfter, and_assoc]

/- non-vacuity: each outcome occurs.  (Outcome (a) needs a host list on which `sortHL` aborts: `f[97-100,066,97-103]`,
   see `Props/C06.lean`, `C06_nodes_sort_exit`, and `Props/C14.lean`, `C14_sort_abort_counterexample`.) -/
example : (parseLine Ex.world Ex.idle (bstr "telemetry\r\n")).2.toBuf =
    render [.line 104 (bstr "Telemetry ON"), .prompt] := by decide +kernel
example : (parseLine Ex.world Ex.idle (bstr "nodes\r\n")).2.toBuf =
    render [.line 306 (bstr "t1"), .line 103 (bstr "Query complete"), .prompt] := by decide +kernel
example : (parseLine Ex.world Ex.idle (bstr "on t[5-1]\r\n")).2.toBuf =
    render [.line 205 (bstr "Hostlist error: invalid range"), .prompt] := by decide +kernel
example : (parseLine Ex.world Ex.idle (bstr "on t2\r\n")).2.toBuf =
    render [.line 209 (bstr "No such nodes: t2"), .prompt] := by decide +kernel
example : (parseLine Ex.world Ex.idle (bstr "off t1\r\n")).2.toBuf =
    render [.line 213 (bstr "Command cannot be handled by power control device(s)"), .prompt] := by decide +kernel
example : written (parseLine Ex.world Ex.idle (bstr "quit\r\n")).1.sys 1000 = render [.line 101 (bstr "Goodbye")] ∧
    (parseLine Ex.world Ex.idle (bstr "quit\r\n")).2.toBuf = [] := by decide +kernel
example : (parseLine Ex.world Ex.idle (bstr "on t1\r\n")).2.cmd.map (·.pending) = some 1 ∧
    (parseLine Ex.world Ex.idle (bstr "on t1\r\n")).2.toBuf = [] := by decide +kernel

/-- C11 one-command rule: while a command is in progress, a request line — any bytes, fewer than `CP_LINEMAX` (131072)
    of them once stripped: `_parse_input` tests the length first — is answered `208 Command in progress` without a
    prompt, and nothing else changes, neither in the client nor in the world -/
theorem C04_busy_is_208 (w : W) (c : Cli) (line : Pm.Client.Bytes) (h : c.cmd.isSome = true) (hs : ¬ TooLong line) :
    parseLine w c line = (w, put c (render [Item.line 208 (bstr "Command in progress")])) :=
  parseLine_busy w c line h hs

/-- … and a longer one is answered `203 Command too long` followed by the prompt (the branch falls through to the end of
    `_parse_input`, unlike the 208 branch) — one terminal line all the same, and nothing else changes either.  Holds
    whatever the client's state, with or without a command in progress. -/
theorem C04_too_long_is_203 (w : W) (c : Cli) (line : Pm.Client.Bytes) (h : TooLong line) :
    parseLine w c line =
      (w, put c (render [Item.line 203 (bstr "Command too long")] ++ (if c.quit then [] else prompt))) :=
  parseLine_tooLong w c line h

theorem C04_tooLong_def (line : Pm.Client.Bytes) :
    TooLong line ↔ (stripWs (line.takeWhile (· != 0))).length ≥ 131072 := Iff.rfl

example : (parseLine Ex.busyWorld Ex.busy (bstr "off t1\r\n")).2.toBuf = bstr "208 Command in progress\r\n" := by decide +kernel

/-- `_handle_input`: unless the process is gone, every complete line of the input buffer gets exactly one answer chunk, in
    order (`chunks.length` = number of lines; the output grew by the chunks' rendering).  A chunk is empty when its line
    installed a command and otherwise has the shape `3xx* terminal [prompt]` of `C04_one_reply_per_line` (b).  At most one
    chunk is empty — exactly one iff the call took the client from idle to busy — so no two commands are ever accepted
    at once. -/
theorem C04_one_answer_per_line (w : W) (c : Cli) :
    (handleInput w c).1.exited = true ∨
    ∃ chunks : List (List Item), chunks.length = (linesOf c.fromBuf).1.length ∧
      outOf (handleInput w c).1 (handleInput w c).2 = outOf w c ++ render chunks.flatten ∧
      (∀ ch ∈ chunks, AnswerChunk ch) ∧
      (((handleInput w c).2.cmd = c.cmd ∧ chunks.count [] = 0) ∨
       (c.cmd = none ∧ ∃ k, (handleInput w c).2.cmd = some k ∧ 0 < k.pending ∧ chunks.count [] = 1)) :=
  handleInput_answers w c

example : (handleInput Ex.world { Ex.idle with fromBuf := bstr "on t1\noff t1\ntelem" }).2.toBuf =
    bstr "208 Command in progress\r\n" ∧
    (handleInput Ex.world { Ex.idle with fromBuf := bstr "on t1\noff t1\ntelem" }).2.fromBuf = bstr "telem" := by decide +kernel

/-- `_act_finish`, the other source of terminal lines.  Exactly one of: the client is gone (nothing happens); the client has
    no command (the C `assert`); the final reply cannot be built because `hostlist_sort` asserts; more actions are
    outstanding (`pending ≠ 1`): at most a `308` line is written and `pending` is decremented; or this was the last action
    (`pending = 1`): the client gets `308? (302|303)* terminal prompt` with exactly one terminal line
    (102, 103, 210 or 211) and its command is cleared — so a second final reply for the same command is impossible. -/
theorem C04_completion_reply (w : W) (id : Nat) (err : Pm.Dev2.ActErr) (name : Pm.Client.Bytes) :
    FinishOutcome w id err name (actFinish w id err name) :=
  actFinish_shape w id err name

example : ((actFinish Ex.busyWorld 1 .success (bstr "d")).1.clients.map fun c => (c.toBuf, c.cmd.isSome)) =
    [(render [.line 102 (bstr "Command completed successfully"), .prompt], false)] := by decide +kernel
example : ((actFinish Ex.busyWorld 1 .expfail (bstr "d")).1.clients.map fun c => c.toBuf) =
    [render [.line 308 (bstr "d: action timed out waiting for expected response"),
             .line 210 (bstr "Command completed with errors"), .prompt]] := by decide +kernel

/-- "followed by a new prompt": after any request line the client's output ends with the prompt whenever the client is idle
    and has not quit (`Prompted`) — whatever came before (`items0`) -/
theorem C04_prompted_after_line (w : W) (c : Cli) (line : Pm.Client.Bytes) (items0 : List Item) :
    (parseLine w c line).1.exited = true ∨
    ∃ items, outOf (parseLine w c line).1 (parseLine w c line).2 = outOf w c ++ render items ∧
      Prompted (parseLine w c line).2 (items0 ++ items) :=
  parseLine_prompted w c line items0

/-- … and `_act_finish` keeps it so for every client: what it appends ends with the prompt when it clears the command -/
theorem C04_prompted_after_completion (w : W) (id : Nat) (err : Pm.Dev2.ActErr) (name : Pm.Client.Bytes) :
    ∃ G : Cli → Cli, (actFinish w id err name).1.clients = w.clients.map G ∧
      ∀ x, ∃ items, Appends x (G x) items ∧ ∀ items0, Prompted x items0 → Prompted (G x) (items0 ++ items) :=
  actFinish_prompted w id err name

/- The property text says "followed by a new prompt unless it was rejected as 'command in progress' or was the quit
   command".  As coded there is a third case: a line parsed after the client has quit (later lines of the same read as
   `quit`, or lines already buffered when EOF arrives) is answered without a prompt — `if (cmd == NULL && !c->client_quit)`.
   The answer never reaches the client: `clientPass` destroys a client that has quit and has no command. -/
theorem C04_prompt_after_quit_counterexample :
    (handleInput Ex.world { Ex.idle with fromBuf := bstr "quit\ntelemetry\n" }).2.toBuf = render [.line 104 (bstr "Telemetry ON")] := by
  decide +kernel

end client

/-! ## device half: timer coverage ("no wedge"), tenure, the minimum over the devices

`postPoll d env o` is the mirror of one device's share of `dev_post_poll`; its result is `(c', o', out, tmo)`: the pass
state (`c'.dev` the device, `c'.aborted` = the pass ended in a modelled `assert`/fuel stop), the oracle rest, the callbacks
and the time-out the device registered through `_update_timeout` (`none` = it registered nothing, `poll` would block for
ever on its behalf).  Helper lemmas: `Pm/Dev2Timer.lean`. -/
section timers
open Pm.Dev2.Timer

/-- the time of the pass and the device's time-out are constants of a pass -/
theorem C04_pass_constants (d : Dev) (env : Env) (o : Oracle) :
    (postPoll d env o).1.env.now = env.now ∧ (postPoll d env o).1.dev.timeout = d.timeout :=
  postPoll_now d env o

/- Full statement asked for (`C04_no_wedge`): after a pass that did not abort, `d'.acts ≠ []` implies `tmo = some t`, and
   `t ≤ ts + timeout − now` for the head's time stamp `ts`.  It is FALSE of the mirror (and of `device.c`):
   `C04_no_wedge_counterexample`.  What holds is `C04_no_wedge_partial`: the one exception is spelled out in it. -/

/-- **Counterexample to "a timer is registered whenever work is queued".**  A connected, logged-in coprocess device whose
    head action is overdue: `_process_action` fails the queue, calls `_reconnect`, the new connection is up at once,
    `_connect` enqueues the login action — and the loop is left by `break` without the new head having been looked at:
    the queue holds the login action and NOTHING is registered.  (With a tcp device the same happens when `connect()`
    succeeds at once.)  The login script starts only when something else wakes `poll`; if it starts with a `send`, and
    the device waits for it, nothing on this device's descriptor ever will. -/
theorem C04_no_wedge_counterexample :
    (postPoll Ex.pipeBusy Ex.envLate ⟨[]⟩).1.aborted = false ∧
    (postPoll Ex.pipeBusy Ex.envLate ⟨[]⟩).1.dev.acts.length = 1 ∧
    (postPoll Ex.pipeBusy Ex.envLate ⟨[]⟩).2.2.2 = none := by decide

/-- **No wedge (partial: the exception is the second alternative).**  After a `dev_post_poll` pass that did not abort, if
    the device's queue is not empty then EITHER its head carries a time stamp `ts`, its deadline `ts + timeout` lies
    ahead, and a time-out `t` is registered with `t ≤ ts + timeout − now` — the daemon wakes no later than the head's
    deadline — OR the head carries no time stamp, and then it is a login action (script 0, no client), alone in the
    queue of a device that is CONNECTED and not logged in: the action `_reconnect` enqueued after the error branch of
    this very pass (`C04_no_wedge_counterexample`).  For every device, queue, script, oracle and kernel answer. -/
theorem C04_no_wedge_partial (d : Dev) (env : Env) (o : Oracle) (hna : (postPoll d env o).1.aborted = false)
    (h : Action) (rest : List Action) (hq : (postPoll d env o).1.dev.acts = h :: rest) :
    (∃ ts t, h.timeStamp = some ts ∧ env.now < ts + d.timeout ∧ (postPoll d env o).2.2.2 = some t ∧
        t ≤ ts + d.timeout - env.now) ∨
    (h.timeStamp = none ∧ rest = [] ∧ h.com = 0 ∧ h.clientId = 0 ∧ (postPoll d env o).1.dev.conn = 2 ∧
        (postPoll d env o).1.dev.loggedIn = false) := by
  have hn := postPoll_now d env o
  rcases (postPoll_timer d env o hna).1 h rest hq with ⟨ts, h1, h2, t, h3, h4⟩ | h5
  · rw [hn.1, hn.2] at h2 h4
    exact Or.inl ⟨ts, t, h1, h2, h3, h4⟩
  · exact Or.inr h5

/-- … hence no CLIENT request is ever left without a timer: if any action of a client is queued after the pass, the
    head is stamped and the registered time-out is no later than the head's deadline -/
theorem C04_no_wedge_clients (d : Dev) (env : Env) (o : Oracle) (hna : (postPoll d env o).1.aborted = false)
    (x : Action) (hx : x ∈ (postPoll d env o).1.dev.acts) (hc : x.clientId ≠ 0) :
    ∃ h rest ts t, (postPoll d env o).1.dev.acts = h :: rest ∧ h.timeStamp = some ts ∧ env.now < ts + d.timeout ∧
      (postPoll d env o).2.2.2 = some t ∧ t ≤ ts + d.timeout - env.now := by
  cases hq : (postPoll d env o).1.dev.acts with
  | nil => rw [hq] at hx; cases hx
  | cons h rest =>
    rcases C04_no_wedge_partial d env o hna h rest hq with ⟨ts, t, h1, h2, h3, h4⟩ | ⟨_, h2, _, h4, _⟩
    · exact ⟨h, rest, ts, t, rfl, h1, h2, h3, h4⟩
    · rw [hq, h2] at hx
      simp only [List.mem_singleton] at hx
      rw [hx] at hc; exact absurd h4 hc

/-- non-vacuity: a connected device whose head waits for the device (`expect`) 0.4 s into its 1 s time-out registers
    the remaining 0.6 s; so does a device that is not connected (there the attempt of this pass failed at once) -/
example : (postPoll Ex.tcpBusy Ex.envEarly ⟨[]⟩).1.aborted = false ∧
    (postPoll Ex.tcpBusy Ex.envEarly ⟨[]⟩).1.dev.acts.map (·.clientId) = [1, 2] ∧
    (postPoll Ex.tcpBusy Ex.envEarly ⟨[]⟩).2.2.2 = some 600000 := by decide
example : (postPoll Ex.tcpDown Ex.envEarly ⟨[]⟩).1.aborted = false ∧ (postPoll Ex.tcpDown Ex.envEarly ⟨[]⟩).1.dev.conn = 0 ∧
    (postPoll Ex.tcpDown Ex.envEarly ⟨[]⟩).2.2.2 = some 600000 := by decide

/- Full statement asked for: "if `d'.conn = 0` and `d'.retryCount > 0` then `t ≤ lastRetry + rtab[..]·10⁶ − now`".  FALSE:
   `C04_backoff_not_registered_counterexample`.  What holds: `C04_backoff_covered_partial`. -/

/-- **The back-off is covered (partial: the exception is the second alternative).**  After a pass that did not abort, if
    the device is NOT_CONNECTED and an attempt has been made (`retry_count > 0`), then EITHER the back-off is still
    running and a time-out `t ≤` its remainder is registered, OR `last_retry` is the time of this pass: the attempt
    was made (and failed) in this very pass, and `_reconnect` registers nothing for the back-off that now begins —
    only a later pass, whenever something causes one, does.  (`backoffEnd d = d.lastRetry + rtab[min (retryCount−1) 6]·10⁶`.) -/
theorem C04_backoff_covered_partial (d : Dev) (env : Env) (o : Oracle) (hna : (postPoll d env o).1.aborted = false)
    (h0 : (postPoll d env o).1.dev.conn = 0) (hr : 0 < (postPoll d env o).1.dev.retryCount) :
    (env.now < backoffEnd (postPoll d env o).1.dev ∧
      ∃ t, (postPoll d env o).2.2.2 = some t ∧ t ≤ backoffEnd (postPoll d env o).1.dev - env.now) ∨
    (postPoll d env o).1.dev.lastRetry = env.now := by
  have hn := (postPoll_now d env o).1
  have := (postPoll_timer d env o hna).2 h0 hr
  rw [hn] at this
  exact this

/-- **Counterexample: the back-off that begins with a failed attempt is not registered.**  An idle tcp device that is not
    connected; `connect()` fails at once: after the pass the device is NOT_CONNECTED with `retry_count = 1` and NO
    time-out is registered — the daemon does not wake after the one second of `rtab[0]` on this device's behalf.  A
    second pass (0.1 s later, caused by something else) does register the remaining 0.9 s. -/
theorem C04_backoff_not_registered_counterexample :
    (postPoll Ex.tcpIdle Ex.envEarly ⟨[]⟩).1.aborted = false ∧ (postPoll Ex.tcpIdle Ex.envEarly ⟨[]⟩).1.dev.conn = 0 ∧
    (postPoll Ex.tcpIdle Ex.envEarly ⟨[]⟩).1.dev.retryCount = 1 ∧ (postPoll Ex.tcpIdle Ex.envEarly ⟨[]⟩).2.2.2 = none ∧
    (postPoll (postPoll Ex.tcpIdle Ex.envEarly ⟨[]⟩).1.dev { Ex.envEarly with now := 500000 } ⟨[]⟩).2.2.2 = some 900000 := by
  decide

/-- **Tenure.**  `_process_action` called — with any positive fuel — on a queue whose head carries time stamp `ts` with
    `now ≥ ts + timeout` takes the time-out branch at once: the result is that of the error branch `failAll` applied to
    the head (its error set to connect time-out / login time-out / expect failure according to the device state) and
    the rest of the queue.  So under the poll contract "the next pass happens no later than the registered time-out"
    (`C04_no_wedge_partial`: the registered time-out is no later than the head's deadline) a head's tenure ends by its
    deadline.  What the error branch does to the queue and to the clients: `C04_tenure_queue`, `Props/C12`. -/
theorem C04_tenure (fuel : Nat) (c : CS) (o : Oracle) (out : List Out) (tmo : Option Time)
    (a0 : Action) (rest : List Action) (ts : Time) (hna : c.aborted = false) (hacts : c.dev.acts = a0 :: rest)
    (hts : a0.timeStamp = some ts) (hdue : c.env.now ≥ ts + c.dev.timeout) :
    processActionF (fuel + 1) c o out tmo =
      failAll rest c { a0 with errnum := Pm.Dev2.Fd.timeoutErr c.dev } o (out ++ Pm.Dev2.Fd.timeoutTele c.dev a0) tmo :=
  processActionF_overdue fuel c o out tmo a0 rest ts hna hacts hts hdue

/-- … and the queue the error branch leaves holds nothing of any client: it is empty, or (device was CONNECTED, the
    reconnect went through at once) it holds exactly the fresh login action -/
theorem C04_tenure_queue (rest : List Action) (c : CS) (a : Action) (o : Oracle) (out : List Out) (tmo : Option Time)
    (hna : (failAll rest c a o out tmo).1.aborted = false) :
    (failAll rest c a o out tmo).1.dev.acts = [] ∨
    ((failAll rest c a o out tmo).1.dev.acts = [loginAction c.dev] ∧ (failAll rest c a o out tmo).1.dev.conn = 2 ∧
      (failAll rest c a o out tmo).1.dev.loggedIn = false) :=
  failAll_queue rest c a o out tmo hna

/-- **Tenure, whole pass.**  The device is not NOT_CONNECTED, `poll` reports nothing on its descriptor (the pass was
    caused by the timer, or by somebody else), the head of its queue carries time stamp `ts` and `now ≥ ts + timeout`:
    then after the pass every client action that was queued has been reported exactly once and none is queued any
    more; and unless the pass aborted the queue is empty or holds one unstamped login action.
    (When `poll` does report something for the device the head can change before `_process_action` runs: a completed
    connect puts the login action in front of it — the overdue action then waits, with its old time stamp, until the
    login has finished or timed out; an i/o error removes a login action at the head.) -/
theorem C04_tenure_pass (d : Dev) (env : Env) (o : Oracle) (a0 : Action) (rest : List Action) (ts : Time)
    (hfl : (if d.fd.isSome then env.revents else 0) = 0) (hc : d.conn ≠ 0)
    (hacts : d.acts = a0 :: rest) (hts : a0.timeStamp = some ts) (hdue : env.now ≥ ts + d.timeout) :
    (∀ cid, cid ≠ 0 → fcount cid (postPoll d env o).2.2.1 = qcount cid d.acts ∧
        qcount cid (postPoll d env o).1.dev.acts = 0) ∧
    ((postPoll d env o).1.aborted = false →
      (postPoll d env o).1.dev.acts = [] ∨ ∃ l, (postPoll d env o).1.dev.acts = [l] ∧ l.com = 0 ∧ l.clientId = 0 ∧
        l.timeStamp = none) :=
  postPoll_overdue d env o a0 rest ts hfl hc hacts hts hdue

/-- non-vacuity: the tcp device with two client actions, 2 s after the head was stamped (time-out 1 s): both are
    reported (the head with the expect failure, the second as aborted), the queue is empty (the reconnect fails) -/
example : (if Ex.tcpBusy.fd.isSome then Ex.envLate.revents else 0) = 0 ∧ Ex.tcpBusy.conn ≠ 0 ∧
    Ex.tcpBusy.acts = Ex.act1 :: [Ex.act2] ∧ Ex.act1.timeStamp = some 0 ∧ Ex.envLate.now ≥ 0 + Ex.tcpBusy.timeout :=
  ⟨by decide, by decide, rfl, rfl, by decide⟩
example : (postPoll Ex.tcpBusy Ex.envLate ⟨[]⟩).1.dev.acts = [] ∧
    fcount 1 (postPoll Ex.tcpBusy Ex.envLate ⟨[]⟩).2.2.1 = 1 ∧ fcount 2 (postPoll Ex.tcpBusy Ex.envLate ⟨[]⟩).2.2.1 = 1 := by decide

/-- **No zero is ever registered.**  In C a zero `struct timeval` means "nothing registered" (`_update_timeout` tests
    `timerisset`, `_select_loop` hands `poll` a NULL time-out), the mirror says `none`; the two agree because every
    time-out a device registers — head deadline, scripted delay, back-off, next ping — is positive.  All devices,
    queues, scripts, oracles, kernel answers; aborting passes included. -/
theorem C04_timeout_positive (d : Dev) (env : Env) (o : Oracle) (t : Time) (h : (postPoll d env o).2.2.2 = some t) : 0 < t :=
  postPoll_pos d env o t h

end timers

section daemonTimer
open Pm.Daemon

/-- **The daemon's poll time-out is the minimum over the devices.**  In `daemonPass` (the body of `_select_loop`), when the
    client half did not end the process: whatever time-out `t` the `i`-th device registers in its turn of
    `dev_post_poll` (its turn is reached with the pass alive), the time-out kept for the next `poll` is set and `≤ t`.
    Together with `C04_no_wedge_partial` per device: the daemon wakes no later than the earliest head deadline. -/
theorem C04_timeout_min (w : W) (p : PassIn) (hex : (cliPostPoll w p.acc p.envs).exited = false)
    (i : Nat) (nd : Bytes × Dev) (t : Nat)
    (hi : (cliPostPoll w p.acc p.envs).devs[i]? = some nd)
    (hd : (accAt p (acc0 (cliPostPoll w p.acc p.envs)) (cliPostPoll w p.acc p.envs).devs i).dead = false)
    (ht : (stepOut p (accAt p (acc0 (cliPostPoll w p.acc p.envs)) (cliPostPoll w p.acc p.envs).devs i) nd).2.2 = some t) :
    ∃ t', (daemonPass w p).1.tmo = some t' ∧ t' ≤ t :=
  Pm.Dev2.Timer.daemonPass_tmo_min w p hex i nd t hi hd ht

/-- what `stepOut` is: the time-out component of the device's own `postPoll`, run on the shared argument store with the
    kernel answers addressed to it -/
example (p : PassIn) (a : DevAcc) (nd : Bytes × Dev) :
    (stepOut p a nd).2.2 = (postPoll { nd.2 with args := a.w.store } (devEnv p a.w nd) a.oracle).2.2.2 := rfl

/-- non-vacuity: in the example pass of `Props/C05` device `B` (index 1) registers its head's deadline and that is the
    time-out of the pass -/
example : (daemonPass Pm.Daemon.Ex.w1 Pm.Daemon.Ex.pin).1.tmo = some 4999000 := by decide +kernel

end daemonTimer


/-! ## the sleep itself: `xpoll` and a caught signal (`libcommon/xpoll.c`, `Pm/Signal.lean`)

`dev_post_poll` registers a timer (`tmout`); `_select_loop` hands it to `xpoll`, which converts it to milliseconds for `poll` and,
when a caught signal (SIGHUP) interrupts the sleep, calls `poll` again with what is left. -/
section xpoll
open Pm.Daemon

/-- **After an interruption the daemon never sleeps without limit while a timer is registered, and never longer than what is
    left of it.**  For every registered time-out `t` and every moment `d` (µs after the sleep began) at which the signal is
    caught: the value handed to the repeated `poll` is ≥ 0 and, in µs, at most `t − d` (0 when that has run out). -/
theorem C04_xpoll_retry (t d : Nat) :
    0 ≤ xpollRetryMsec (some t) d ∧ xpollRetryMsec (some t) d * 1000 ≤ ((t - d : Nat) : Int) := by
  unfold xpollRetryMsec tvMsec
  dsimp only
  split
  · refine ⟨Int.le_refl 0, ?_⟩
    simp
  · rename_i h
    have hle : d ≤ t := by omega
    have e : (t : Int) - (d : Int) = ((t - d : Nat) : Int) := by omega
    rw [e]
    generalize t - d = n
    have h1 : Int.fdiv (n : Int) 1000000 = ((n / 1000000 : Nat) : Int) := by
      rw [Int.fdiv_eq_ediv_of_nonneg _ (by omega)]; rfl
    have h2 : Int.fmod (n : Int) 1000000 = ((n % 1000000 : Nat) : Int) := by
      rw [Int.fmod_eq_emod_of_nonneg _ (by omega)]; rfl
    rw [h1, h2]
    have h3 : ((n % 1000000 : Nat) : Int) / 1000 = ((n % 1000000 / 1000 : Nat) : Int) := rfl
    rw [h3]
    constructor
    · omega
    · have := Nat.div_add_mod n 1000000
      have := Nat.div_add_mod (n % 1000000) 1000
      omega

/-- without a registered timer the repeated sleep is unlimited again, as the first one was -/
theorem C04_xpoll_retry_none (d : Nat) : xpollRetryMsec none d = -1 := rfl

/-- **F32 (repaired by a `fix:` commit).**  Before the repair the remainder was not clamped: a timer of 600 ms and a signal
    caught 1 µs after it ran out (timer slack: `poll` may still be asleep then) gave `poll` the time-out −1 — *no* time-out: the
    daemon slept until unrelated traffic woke it, with a device time-out registered.  Found by the correspondence run on the
    real `xpoll.c` under a simulated clock. -/
theorem C04_xpoll_f32_counterexample : xpollRetryMsecOld (some 600000) 600001 = -1 ∧ xpollRetryMsec (some 600000) 600001 = 0 := by
  decide +kernel

/-- the pass in which that happens is otherwise the ordinary pass: same world afterwards, same lines but for the second
    registration and the repeated `poll` -/
theorem C04_hupPass_world (w : W) (d : Nat) (p : PassIn) : (hupPass w d p).1 = (daemonPass w p).1 := rfl

example : xpollRetryMsec (some 2547000) 1273500 = 1273 ∧ xpollRetryMsec (some 600000) 599700 = 0 ∧
    xpollRetryMsec (some 600000) 598000 = 2 := by decide +kernel

end xpoll

end Pm.Props.C04
