import Pm.Dev2Count
import Pm.ClientStream
/-! # C04 — every request gets exactly one final answer, in bounded time

Ranking: conservation of completions (device half of `pending_eq_queued`: done) ▸ one terminal reply per
line on the client side ▸ no-wedge (timer coverage) ▸ tenure ▸ bound. -/
namespace Pm.Props.C04
open Pm.Dev2

/-- Over one pass of `_process_action` — for every fuel, queue, script, oracle and kernel answer, aborting
    passes included — the number of completions reported for a client plus the number of its actions still
    queued is unchanged: every action that leaves a device queue is reported exactly once, none is lost,
    none is reported twice.  (`pending` on the client side counts exactly these.) -/
theorem C04_completions_conserved (fuel : Nat) (c : CS) (o : Oracle) (out : List Out) (tmo : Option Time)
    (cid : Nat) (hc : cid ≠ 0) :
    fcount cid (processActionF fuel c o out tmo).2.2.1 + qcount cid (processActionF fuel c o out tmo).1.dev.acts
      = fcount cid out + qcount cid c.dev.acts :=
  completions_conserved fuel c o out tmo cid hc


/-! ## client half: one terminal reply per request line

`Pm.Daemon.parseLine` is the mirror of `client.c:_parse_input`, `handleInput` of `_handle_input`, `actFinish` of
`_act_finish`.  Output is described by `render : List Item → Bytes` (`Item.line code text` ↦ `NNN␠text\r\n`,
`Item.prompt` ↦ `powerman> `); `outOf w c` is everything sent to client `c` so far in this pass (bytes already handed to
`write(2)`, then what waits in its `to` buffer); `i.lineIn cs` says that item `i` is a line whose code is in `cs`.
Helper lemmas: `Pm/ClientProof.lean`, `Pm/ClientStream.lean`. -/
section client
open Pm Pm.Daemon Pm.Client Pm.Daemon.ClientPf

/-- For every byte string `line`, every client state and every world, one call of `_parse_input` has exactly one of three
    outcomes:

    (a) the process is gone — and then nothing else changed, and the cause is the `hostlist_sort` assertion, on the
        configured node list (`nodes`) or on a device's plug list (`device`); never `hostlist_create` (F1 is repaired);
    (b) the line was answered at once: the client's output grew by `render items` where `items` is zero or more
        informational lines (301, 304, 306, 307), then exactly ONE terminal line (101, 103, 104, 105, 201, 205, 208, 209, 213),
        then the prompt exactly when the code is neither 208 nor 101 and the client has not quit; the bytes sit in `to`
        (or, for `quit`, went through `_handle_write`: see `QuitFlush`); the command in progress is untouched;
    (c) a command was installed with `pending > 0`: possible only when none was in progress; nothing is written yet (the
        single terminal reply comes from `_act_finish`, see `C04_completion_reply`). -/
theorem C04_one_reply_per_line (w : W) (c : Cli) (line : Pm.Client.Bytes) :
    ((parseLine w c line) = ({ w with exited := true }, c) ∧
        (sortHL w.cfg.nodes = .abort ∨ ∃ nd ∈ w.devs, sortHL (devHosts nd.2) = .abort)) ∨
    (∃ infos code text,
        (∀ i ∈ infos, i.lineIn [301, 304, 306, 307] = true) ∧
        code ∈ [101, 103, 104, 105, 201, 205, 208, 209, 213] ∧
        (∃ items, items = infos ++ [Item.line code text] ++
              (if promptAfter (parseLine w c line).2.quit code then [Item.prompt] else []) ∧
          outOf (parseLine w c line).1 (parseLine w c line).2 = outOf w c ++ render items ∧
          (((parseLine w c line).2.toBuf = c.toBuf ++ render items ∧ (parseLine w c line).1.sys = w.sys) ∨
            QuitFlush w c (parseLine w c line) items)) ∧
        (parseLine w c line).2.cmd = c.cmd ∧ (parseLine w c line).1.exited = w.exited) ∨
    (c.cmd = none ∧ ∃ k, (parseLine w c line).2.cmd = some k ∧ 0 < k.pending ∧
        (parseLine w c line).2.toBuf = c.toBuf ∧ (parseLine w c line).1.sys = w.sys ∧
        (parseLine w c line).1.exited = w.exited) := by
  cases parseLine_shape w c line with
  | exit h cause => exact Or.inl ⟨h, cause⟩
  | reply items shape out buf cmd ex clean prompted =>
    obtain ⟨infos, code, text, hitems, hi, hc⟩ := shape
    exact Or.inr (Or.inl ⟨infos, code, text, hi, hc, ⟨items, hitems, out, buf⟩, cmd, ex⟩)
  | installed k idle cmd pending buf sys ex => exact Or.inr (Or.inr ⟨idle, k, cmd, pending, buf, sys, ex⟩)

/-- the prompt rule of `_parse_input`, spelled out -/
theorem C04_prompt_rule (quit : Bool) (code : Nat) :
    promptAfter quit code = true ↔ code ≠ 208 ∧ code ≠ 101 ∧ quit = false := by
  simp [promptAfter, and_assoc]

/- non-vacuity: each outcome occurs.  (Outcome (a) needs a host list on which `sortHL` aborts; `sortHL` is a `partial def`
   and cannot be evaluated inside the logic — see `Props/C06.lean`, `C06_nodes_sort_exit`.) -/
example : (parseLine Ex.world Ex.idle (bstr "telemetry\r\n")).2.toBuf =
    render [.line 104 (bstr "Telemetry ON"), .prompt] := by decide +kernel
example : (parseLine Ex.world Ex.idle (bstr "nodes\r\n")).2.toBuf =
    render [.line 306 (bstr "t1"), .line 103 (bstr "Query complete"), .prompt] := by decide +kernel
example : (parseLine Ex.world Ex.idle (bstr "on t[5-1]\r\n")).2.toBuf =
    render [.line 205 (bstr "Hostlist error: invalid range"), .prompt] := by decide +kernel
example : (parseLine Ex.world Ex.idle (bstr "on t2\r\n")).2.toBuf =
    render [.line 209 (bstr "No such nodes: t2"), .prompt] := by decide +kernel
example : (parseLine Ex.world Ex.idle (bstr "off t1\r\n")).2.toBuf =
    render [.line 213 (bstr "Command cannot be handled by power control device(s)"), .prompt] := by decide +kernel
example : written (parseLine Ex.world Ex.idle (bstr "quit\r\n")).1.sys 1000 = render [.line 101 (bstr "Goodbye")] ∧
    (parseLine Ex.world Ex.idle (bstr "quit\r\n")).2.toBuf = [] := by decide +kernel
example : (parseLine Ex.world Ex.idle (bstr "on t1\r\n")).2.cmd.map (·.pending) = some 1 ∧
    (parseLine Ex.world Ex.idle (bstr "on t1\r\n")).2.toBuf = [] := by decide +kernel

/-- C11 one-command rule: while a command is in progress, a request line — any bytes — is answered
    `208 Command in progress` without a prompt, and nothing else changes, neither in the client nor in the world -/
theorem C04_busy_is_208 (w : W) (c : Cli) (line : Pm.Client.Bytes) (h : c.cmd.isSome = true) :
    parseLine w c line = (w, put c (render [Item.line 208 (bstr "Command in progress")])) :=
  parseLine_busy w c line h

example : (parseLine Ex.busyWorld Ex.busy (bstr "off t1\r\n")).2.toBuf = bstr "208 Command in progress\r\n" := by decide +kernel

/-- `_handle_input`: unless the process is gone, every complete line of the input buffer gets exactly one answer chunk, in
    order (`chunks.length` = number of lines; the output grew by the chunks' rendering).  A chunk is empty when its line
    installed a command and otherwise has the shape `3xx* terminal [prompt]` of `C04_one_reply_per_line` (b).  At most one
    chunk is empty — exactly one iff the call took the client from idle to busy — so no two commands are ever accepted
    at once. -/
theorem C04_one_answer_per_line (w : W) (c : Cli) :
    (handleInput w c).1.exited = true ∨
    ∃ chunks : List (List Item), chunks.length = (linesOf c.fromBuf).1.length ∧
      outOf (handleInput w c).1 (handleInput w c).2 = outOf w c ++ render chunks.flatten ∧
      (∀ ch ∈ chunks, AnswerChunk ch) ∧
      (((handleInput w c).2.cmd = c.cmd ∧ chunks.count [] = 0) ∨
       (c.cmd = none ∧ ∃ k, (handleInput w c).2.cmd = some k ∧ 0 < k.pending ∧ chunks.count [] = 1)) :=
  handleInput_answers w c

example : (handleInput Ex.world { Ex.idle with fromBuf := bstr "on t1\noff t1\ntelem" }).2.toBuf =
    bstr "208 Command in progress\r\n" ∧
    (handleInput Ex.world { Ex.idle with fromBuf := bstr "on t1\noff t1\ntelem" }).2.fromBuf = bstr "telem" := by decide +kernel

/-- `_act_finish`, the other source of terminal lines.  Exactly one of: the client is gone (nothing happens); the client has
    no command (the C `assert`); the final reply cannot be built because `hostlist_sort` asserts; more actions are
    outstanding (`pending ≠ 1`): at most a `308` line is written and `pending` is decremented; or this was the last action
    (`pending = 1`): the client gets `308? (302|303)* terminal prompt` with exactly one terminal line
    (102, 103, 210 or 211) and its command is cleared — so a second final reply for the same command is impossible. -/
theorem C04_completion_reply (w : W) (id : Nat) (err : Pm.Dev2.ActErr) (name : Pm.Client.Bytes) :
    FinishOutcome w id err name (actFinish w id err name) :=
  actFinish_shape w id err name

example : ((actFinish Ex.busyWorld 1 .success (bstr "d")).1.clients.map fun c => (c.toBuf, c.cmd.isSome)) =
    [(render [.line 102 (bstr "Command completed successfully"), .prompt], false)] := by decide +kernel
example : ((actFinish Ex.busyWorld 1 .expfail (bstr "d")).1.clients.map fun c => c.toBuf) =
    [render [.line 308 (bstr "d: action timed out waiting for expected response"),
             .line 210 (bstr "Command completed with errors"), .prompt]] := by decide +kernel

/-- "followed by a new prompt": after any request line the client's output ends with the prompt whenever the client is idle
    and has not quit (`Prompted`) — whatever came before (`items0`) -/
theorem C04_prompted_after_line (w : W) (c : Cli) (line : Pm.Client.Bytes) (items0 : List Item) :
    (parseLine w c line).1.exited = true ∨
    ∃ items, outOf (parseLine w c line).1 (parseLine w c line).2 = outOf w c ++ render items ∧
      Prompted (parseLine w c line).2 (items0 ++ items) :=
  parseLine_prompted w c line items0

/-- … and `_act_finish` keeps it so for every client: what it appends ends with the prompt when it clears the command -/
theorem C04_prompted_after_completion (w : W) (id : Nat) (err : Pm.Dev2.ActErr) (name : Pm.Client.Bytes) :
    ∃ G : Cli → Cli, (actFinish w id err name).1.clients = w.clients.map G ∧
      ∀ x, ∃ items, Appends x (G x) items ∧ ∀ items0, Prompted x items0 → Prompted (G x) (items0 ++ items) :=
  actFinish_prompted w id err name

/- The property text says "followed by a new prompt unless it was rejected as 'command in progress' or was the quit
   command".  As coded there is a third case: a line parsed after the client has quit (later lines of the same read as
   `quit`, or lines already buffered when EOF arrives) is answered without a prompt — `if (cmd == NULL && !c->client_quit)`.
   The answer never reaches the client: `clientPass` destroys a client that has quit and has no command. -/
theorem C04_prompt_after_quit_counterexample :
    (handleInput Ex.world { Ex.idle with fromBuf := bstr "quit\ntelemetry\n" }).2.toBuf = render [.line 104 (bstr "Telemetry ON")] := by
  decide +kernel

end client

end Pm.Props.C04
