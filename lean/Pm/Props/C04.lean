import Pm.Dev2Count
/-! # C04 — every request gets exactly one final answer, in bounded time

Ranking: conservation of completions (device half of `pending_eq_queued`: done) ▸ one terminal reply per
line on the client side ▸ no-wedge (timer coverage) ▸ tenure ▸ bound. -/
namespace Pm.Props.C04
open Pm.Dev2

/-- Over one pass of `_process_action` — for every fuel, queue, script, oracle and kernel answer, aborting
    passes included — the number of completions reported for a client plus the number of its actions still
    queued is unchanged: every action that leaves a device queue is reported exactly once, none is lost,
    none is reported twice.  (`pending` on the client side counts exactly these.) -/
theorem C04_completions_conserved (fuel : Nat) (c : CS) (o : Oracle) (out : List Out) (tmo : Option Time)
    (cid : Nat) (hc : cid ≠ 0) :
    fcount cid (processActionF fuel c o out tmo).2.2.1 + qcount cid (processActionF fuel c o out tmo).1.dev.acts
      = fcount cid out + qcount cid c.dev.acts :=
  completions_conserved fuel c o out tmo cid hc

end Pm.Props.C04
