import Pm.ReplyProof
/-! # C03 — status queries report exactly what the devices answered  (reply side: `client.c`)

About the real `finalReply` / `install` of `Pm/Daemon.lean`, for every command `c : CmdC` (any target list,
repetitions included, any arglist).  Vocabulary (definitions in `Pm/ReplyProof.lean`, all unfolding to the
expressions inside `finalReply`):

* `entriesOf c` — the arglist elements in the order `arglist_next` yields them: for each target name in order,
  the element found for it (a repeated target yields its element again);
* `onNodes c`, `offNodes c`, `unkNodes c` — the names of the entries with `state` 2, 1, 0: the three lists pushed
  into `hl_on`, `hl_off`, `hl_unknown`; each is then sorted and range-compressed by the hostlist mirror
  (`sortedRanged`), which is treated as opaque here.  `sortedRanged … = none` is the assert inside `hostlist_sort`
  (finding F19): `finalReply` is then `none`, the daemon is gone;
* `Covered c` — every target has an arglist element (true of commands made by `install`, `C03_fresh`).

What a device wrote into the arglist, and when, is the device side (`Pm/Dev2*.lean`) and is not covered here. -/
namespace Pm.Props.C03
open Pm Pm.Client Pm.Daemon
open Pm.Daemon.Reply
open Pm.Dev2 (ActErr Arg)

/-- **Range-compressed `status` / `beacon` reply.**  The reply consists of the three `302` lines built from
    `onNodes`, `offNodes`, `unkNodes` and the terminal line (or nothing at all if a sort trips F19).
    If every state is one of the three enumerators (`state ≤ 2`; always so for arglists read from the store,
    `C03_states_in_range`), then:
    the three lists together are a rearrangement of the targets that have an arglist element, repetitions kept —
    so every listed node is a target, nothing is invented and nothing dropped;
    as sets of names they are pairwise disjoint (this needs no hypothesis);
    and if every target has an element the three lists together are a rearrangement of the target list itself. -/
theorem C03_partition (c : CmdC) (hc : c.com = .status ∨ c.com = .beacon) (hst : ∀ a ∈ c.args, a.state ≤ 2) :
    (finalReply false c =
      match sortedRanged (unkNodes c), sortedRanged (onNodes c), sortedRanged (offNodes c) with
      | some unk, some on, some off =>
          some (bstr "302 on:      " ++ on ++ crlf ++ bstr "302 off:     " ++ off ++ crlf ++ bstr "302 unknown: " ++ unk ++ crlf ++ qTerm c.error)
      | _, _, _ => none) ∧
    (onNodes c ++ offNodes c ++ unkNodes c).Perm (c.names.filter fun n => (c.args.find? (·.node == n)).isSome) ∧
    (∀ n, ¬ (n ∈ onNodes c ∧ n ∈ offNodes c) ∧ ¬ (n ∈ onNodes c ∧ n ∈ unkNodes c) ∧ ¬ (n ∈ offNodes c ∧ n ∈ unkNodes c)) ∧
    (Covered c → (onNodes c ++ offNodes c ++ unkNodes c).Perm c.names) := by
  refine ⟨finalReply_status_ranged c hc, ?_, lists_disjoint c, fun hcov => ?_⟩
  · rw [← entriesOf_nodes]; exact partition_perm c hst
  · rw [← entriesOf_nodes_covered c hcov]; exact partition_perm c hst

/-- The lists are what they are called: a name is in `onNodes` iff some entry for it has state 2, and so on. -/
theorem C03_lists_justified (c : CmdC) (n : Name) :
    (n ∈ onNodes c ↔ ∃ a ∈ entriesOf c, a.node = n ∧ a.state = 2) ∧
    (n ∈ offNodes c ↔ ∃ a ∈ entriesOf c, a.node = n ∧ a.state = 1) ∧
    (n ∈ unkNodes c ↔ ∃ a ∈ entriesOf c, a.node = n ∧ a.state = 0) :=
  ⟨mem_onNodes, mem_offNodes, mem_unkNodes⟩

/-- `ArgC.state` is a plain number in the model.  A value other than 0, 1, 2 would be shown as `unknown` by the
    expanded rendering and dropped from all three lists by the range-compressed one (the C `switch` has no
    `default`), so `C03_partition` is false without its hypothesis: -/
theorem C03_partition_counterexample :
    let c : CmdC := { com := .status, names := ["a".toList, "b".toList], pending := 1, error := false,
                      args := [{ node := "a".toList, state := 3, result := 0, val := none }, { node := "b".toList, state := 2, result := 0, val := none }] }
    Covered c ∧ onNodes c ++ offNodes c ++ unkNodes c = ["b".toList] ∧
    finalReply true c = some (bstr "303 a: unknown\r\n303 b: on\r\n103 Query complete\r\n") :=
  partition_out_of_range_counterexample

/-- …but such a value cannot occur: the arglist the reply functions read is the store's, mapped through `argC`,
    and `argC` only produces 0, 1, 2. -/
theorem C03_states_in_range (w : W) (k : CmdC) (err : ActErr) : ∀ a ∈ (withStore w k err).args, a.state ≤ 2 :=
  withStore_state_le w k err

/-- **Expanded (`-x`) reply and agreement.**  The reply is exactly one line `303 <node>: on|off|unknown` per entry,
    in target order, then the terminal line.  The word shown for an entry is `on` iff its node is in `onNodes`,
    `off` iff in `offNodes`, and (for a state in range) `unknown` iff in `unkNodes`: both renderings put every
    node in the same class. -/
theorem C03_x_agree (c : CmdC) (hc : c.com = .status ∨ c.com = .beacon) :
    finalReply true c =
      some ((entriesOf c).flatMap (fun a => bstr "303 " ++ ofChars a.node ++ bstr ": " ++ bstr (clsName a.state) ++ crlf) ++ qTerm c.error) ∧
    ∀ a ∈ entriesOf c,
      (clsName a.state = "on" ↔ a.node ∈ onNodes c) ∧ (clsName a.state = "off" ↔ a.node ∈ offNodes c) ∧
      (a.state ≤ 2 → (clsName a.state = "unknown" ↔ a.node ∈ unkNodes c)) :=
  ⟨finalReply_status_x c hc, fun a ha => cls_agree c a ha⟩

/-- the number of `303` lines is the number of targets when every target has an element -/
theorem C03_x_count (c : CmdC) (h : Covered c) : (entriesOf c).length = c.names.length ∧ (entriesOf c).map (·.node) = c.names :=
  ⟨length_entriesOf_covered c h, entriesOf_nodes_covered c h⟩

/-- **Terminal line.**  Whenever a `status`, `beacon` or `temp` reply is written (either rendering) it ends with
    `211 Query completed with errors` iff the command's error flag is set, and with `103 Query complete` iff it
    is not. -/
theorem C03_terminal (ex : Bool) (c : CmdC) (hc : c.com ∈ [Com.status, .beacon, .temp]) (r : Bytes) (hr : finalReply ex c = some r) :
    ((bstr "211 Query completed with errors" ++ crlf) <:+ r ↔ c.error = true) ∧
    ((bstr "103 Query complete" ++ crlf) <:+ r ↔ c.error = false) :=
  qTerm_suffix_iff r c.error (finalReply_query_suffix ex c ((isQueryCom_iff c.com).mpr hc) r hr)

/-- **Temperature reply** (after the repair of F11; `exprange` plays no part).  Each entry contributes in exactly
    one place: an entry with a value `v` gets its own line `303 <node>: <v>`, in target order; an entry without a
    value contributes no line of its own (`tempLine a = []`) and its node goes into `tempMissing`, the single list
    that — if non-empty — is sorted, range-compressed and shown in one trailing line `303 <ranged>: unknown`.
    The nodes with a value and the missing ones together are a rearrangement of the entries' nodes, and no name is
    in both.  The text after `: ` is the device's bytes or the literal `unknown`; there is no `(null)`. -/
theorem C03_temp_once (ex : Bool) (c : CmdC) (hc : c.com = .temp) :
    (finalReply ex c =
      if tempMissing c = [] then some ((entriesOf c).flatMap tempLine ++ qTerm c.error)
      else match sortedRanged (tempMissing c) with
        | some r => some ((entriesOf c).flatMap tempLine ++ (bstr "303 " ++ r ++ bstr ": unknown" ++ crlf) ++ qTerm c.error)
        | none => none) ∧
    (∀ a v, a.val = some v → tempLine a = bstr "303 " ++ ofChars a.node ++ bstr ": " ++ firstLine v ++ crlf) ∧
    (∀ a, a.val = none → tempLine a = []) ∧
    (tempValued c ++ tempMissing c).Perm ((entriesOf c).map (·.node)) ∧
    (∀ n, ¬ (n ∈ tempValued c ∧ n ∈ tempMissing c)) :=
  ⟨finalReply_temp ex c hc, fun _ _ h => tempLine_some h, fun _ h => tempLine_none h, temp_perm c, temp_disjoint c⟩

/-- **A new command starts from nothing** (`_create_command` + `arglist_create`).  When `install` accepts a request
    from a client without a command, the command records the request as given, with the error flag clear and
    `pending ≠ 0`, under the arglist id `w.alNext`, and the counter moves on.  The arglist stored under that id has
    one element per distinct target (byte form, first-occurrence order), each with state unknown, no result and no
    value; provided the target names are byte strings (true of every name that came from client input or the
    configuration through `toChars`) every target has an element, and the reply functions see state 0 / result 0 /
    no value everywhere. -/
theorem C03_fresh (w : W) (c : Cli) (com : Com) (names : List Name) (hc : c.cmd = none) (k : CmdC)
    (hk : (install w c com names).2.cmd = some k) :
    (k.com = com ∧ k.names = names ∧ k.error = false ∧ k.pending ≠ 0 ∧ k.al = w.alNext ∧
      (install w c com names).1.alNext = w.alNext + 1) ∧
    storeArgs (install w c com names).1 k.al = freshArgs (names.map ofChars) ∧
    (freshArgs (names.map ofChars)).map (·.node) = distinctOf (names.map ofChars) ∧
    (distinctOf (names.map ofChars)).Nodup ∧ (∀ b, b ∈ distinctOf (names.map ofChars) ↔ b ∈ names.map ofChars) ∧
    (∀ a ∈ freshArgs (names.map ofChars), a.state = .unknown ∧ a.result = .none ∧ a.val = none) ∧
    ((∀ n ∈ names, ByteName n) → ∀ err,
      Covered (withStore (install w c com names).1 k err) ∧
      ∀ a ∈ (withStore (install w c com names).1 k err).args, a.state = 0 ∧ a.result = 0 ∧ a.val = none) := by
  obtain ⟨h1, h2, h3, h4, h5, h6, h7⟩ := install_creates w c com names hc k hk
  exact ⟨⟨h1, h2, h3, h4, h5, h6⟩, h7, freshArgs_nodes _, nodup_distinctOf _, mem_distinctOf _,
    freshArgs_fresh _, fun hb err => install_covered w c com names hc k hk hb err⟩

/-- **The id is fresh.**  Invariant `Fresh w c`: every arglist id in the store, in a client's command (the table's
    and the client being served) and in a queued client action is below `w.alNext`.  (Login and ping actions have
    `clientId = 0` and carry the dummy id 0; they are exempt.)  Under it nothing refers to `w.alNext`, and
    `install` — accepted or refused — preserves it. -/
theorem C03_fresh_id (w : W) (c : Cli) (com : Com) (names : List Name) (h : Fresh w c) :
    ((w.store.lookup w.alNext = none) ∧ (∀ x ∈ w.clients, ∀ k, x.cmd = some k → k.al ≠ w.alNext) ∧
     (∀ k, c.cmd = some k → k.al ≠ w.alNext) ∧
     (∀ nd ∈ w.devs, ∀ a ∈ nd.2.acts, a.clientId ≠ 0 → a.arglist ≠ w.alNext)) ∧
    Fresh (install w c com names).1 (install w c com names).2 :=
  ⟨h.unreferenced, install_fresh w c com names h⟩

/-- names made of bytes survive the round trip through the store; everything `toChars` produces is such a name -/
theorem C03_byte_names : (∀ n, ByteName n → toChars (ofChars n) = n) ∧ (∀ b, ByteName (toChars b)) :=
  ⟨toChars_ofChars, byteName_toChars⟩

/-! ## non-vacuity: `status t1,t2,t1,t3,t4` — t1 on (asked twice), t2 off, t3 no answer, t4 on; one device failed -/
def exArgs : List ArgC := [
  { node := "t1".toList, state := 2, result := 0, val := some (bstr "ON") },
  { node := "t2".toList, state := 1, result := 0, val := some (bstr "OFF") },
  { node := "t3".toList, state := 0, result := 0, val := none },
  { node := "t4".toList, state := 2, result := 0, val := some (bstr "ON") }]
def exCmd : CmdC :=
  { com := .status, names := ["t1".toList, "t2".toList, "t1".toList, "t3".toList, "t4".toList], pending := 1, error := true, args := exArgs }

example : (∀ a ∈ exCmd.args, a.state ≤ 2) ∧ Covered exCmd := by decide +kernel
example : onNodes exCmd = ["t1".toList, "t1".toList, "t4".toList] ∧ offNodes exCmd = ["t2".toList] ∧ unkNodes exCmd = ["t3".toList] := by
  decide +kernel
example : finalReply true exCmd =
    some (bstr "303 t1: on\r\n303 t2: off\r\n303 t1: on\r\n303 t3: unknown\r\n303 t4: on\r\n211 Query completed with errors\r\n") := by
  decide +kernel
/-- the same arglist answered as a temperature query: t3 has no value -/
example : finalReply false { exCmd with com := .temp, error := false } =
    some (bstr "303 t1: ON\r\n303 t2: OFF\r\n303 t1: ON\r\n303 t4: ON\r\n303 t3: unknown\r\n103 Query complete\r\n") := by
  decide +kernel
example : tempValued { exCmd with com := .temp } = ["t1".toList, "t2".toList, "t1".toList, "t4".toList] ∧
    tempMissing { exCmd with com := .temp } = ["t3".toList] := by decide +kernel

/-! `install` accepting `status t1,t2,t1` from client 7 in a world with one device (two plugs, a per-plug status
    script), one stored arglist (id 4) and the counter at 5 -/
def dev0 : Pm.Dev2.Dev :=
  { plugs := [{ name := bstr "1", node := some (bstr "t1") }, { name := bstr "2", node := some (bstr "t2") }],
    scripts := fun n => if n == 2 then some [] else none,
    timeout := 0, acts := [], toBuf := [], fromBuf := [], xmStr := none, xmOffs := [], xmResult := false, xmUsed := false,
    args := [], nextUid := 0, shortCircuitDelay := false }
def wI : W :=
  { cfg := { plugs := [], has := [], nodes := [], version := [] }, clients := [{ id := 3, fd := 1000, cmd := some { com := .on, names := [], pending := 1, error := false, al := 4 } }],
    devs := [(bstr "pdu0", dev0)], store := [(4, [])], alNext := 5 }
def cI : Cli := { id := 7, fd := 1001 }
def namesI : List Name := ["t1".toList, "t2".toList, "t1".toList]

example : Fresh wI cI := by
  refine ⟨by decide, ?_, ?_, ?_⟩
  · intro x hx k hk
    simp only [wI, List.mem_singleton] at hx
    subst hx
    simp only [Option.some.injEq] at hk
    subst hk
    decide
  · intro k hk; cases hk
  · intro nd hnd a ha
    simp only [wI, List.mem_singleton] at hnd
    subst hnd
    cases ha
example : cI.cmd = none ∧ (∀ n ∈ namesI, ByteName n) := ⟨rfl, by decide⟩
example : ((install wI cI .status namesI).2.cmd.map fun k => (k.al, k.pending, k.error, k.names.length)) = some (5, 2, false, 3) := by
  decide +kernel
example : (storeArgs (install wI cI .status namesI).1 5).map (·.node) = [bstr "t1", bstr "t2"] ∧
    (install wI cI .status namesI).1.alNext = 6 := by decide +kernel

end Pm.Props.C03
